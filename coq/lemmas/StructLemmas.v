(* StructLemmas.v — C16: the structure of a lending account (one slot per bank, 16 slots, at most 8
   integration positions, tags equal to the bank's tag, no staked/default mix, sorted by bank key)
   is invariant under every successful operation of the wrapper-level world (bstep / brun) and of
   the handler-level world (hstep / hrun); dust guarantees of the balance primitives; disabled
   accounts. *)
Require Import Base Constants Fixed Curve Bank BankOps Risk TransferFee Handlers.
Require Import FixedLemmas BankLemmas AccrualLemmas HandlerLemmas.
From Coq Require Import ZifyBool Sorting.Sorted Sorting.Permutation.
Local Open Scope Z_scope.

(* ------------------------------------------------------------------------------------------ *)
(* lists *)
Lemma Some_inj_s {A} (x y : A) : Some x = Some y -> x = y.
Proof. congruence. Qed.
Lemma set_nth_length {A} (l : list A) n v : length (set_nth n v l) = length l.
Proof. revert n; induction l as [|a l IH]; intros [|n]; cbn; auto. Qed.

Lemma set_nth_app {A} (pre post : list A) x v n :
  length pre = n -> set_nth n v (pre ++ x :: post) = pre ++ v :: post.
Proof.
  revert n; induction pre as [|a pre IH]; intros n H; cbn in *.
  - subst n. reflexivity.
  - destruct n as [|n]; [discriminate|]. cbn. f_equal. apply IH. lia.
Qed.

Lemma nth_split {A} (l : list A) n x : nth_error l n = Some x ->
  exists pre post, l = pre ++ x :: post /\ length pre = n.
Proof. intros H. apply nth_error_split in H as (pre & post & H1 & H2). exists pre, post. auto. Qed.

Lemma nth_set_nth_other {A} (l : list A) n m v : n <> m -> nth_error (set_nth n v l) m = nth_error l m.
Proof.
  revert n m; induction l as [|a l IH]; intros [|n] [|m] H; cbn; auto; try congruence.
Qed.

Lemma set_nth_none {A} (l : list A) n v : nth_error l n = None -> set_nth n v l = l.
Proof.
  revert n; induction l as [|a l IH]; intros [|n] H; cbn in *; auto; try discriminate.
  f_equal. auto.
Qed.

Lemma Forall_set_nth_s {A} (P : A -> Prop) l n v : Forall P l -> P v -> Forall P (set_nth n v l).
Proof.
  intros H Hv. revert n; induction H as [|a l Ha Hl IH]; intros [|n]; cbn; constructor; auto.
Qed.

Lemma Forall_nth_s {A} (P : A -> Prop) l n x : Forall P l -> nth_error l n = Some x -> P x.
Proof. intros H Hn. rewrite Forall_forall in H. apply H. eapply nth_error_In; eauto. Qed.

Lemma Permutation_filter_s {A} (p : A -> bool) l l' : Permutation l l' -> Permutation (filter p l) (filter p l').
Proof.
  induction 1; cbn.
  - constructor.
  - destruct (p x); auto.
  - destruct (p x), (p y); auto. constructor.
  - eapply Permutation_trans; eauto.
Qed.

(* ------------------------------------------------------------------------------------------ *)
(* the views of a lending account the structure is about *)
Definition akeys (la : laccount) : list Z := map bl_bank (filter bl_active la).
Definition atags (la : laccount) : list Z := map bl_tag (filter bl_active la).
Definition n_integ (la : laccount) : Z := Z.of_nat (length (filter is_integration_tag (atags la))).
Definition nomix (la : laccount) : Prop :=
  ~ (In ASSET_TAG_STAKED (atags la) /\ exists t, In t (atags la) /\ is_default_like t = true).
Definition desc (la : laccount) : Prop := Sorted Z.ge (map bl_bank la).

Definition same_id (bl bl' : balance) : Prop :=
  bl_active bl' = bl_active bl /\ bl_bank bl' = bl_bank bl /\ bl_tag bl' = bl_tag bl.

Lemma same_id_refl bl : same_id bl bl.
Proof. repeat split. Qed.
Lemma same_id_trans a b c : same_id a b -> same_id b c -> same_id a c.
Proof. intros (A1 & A2 & A3) (B1 & B2 & B3). repeat split; congruence. Qed.

Lemma akeys_app l1 l2 : akeys (l1 ++ l2) = akeys l1 ++ akeys l2.
Proof. unfold akeys. rewrite filter_app, map_app. reflexivity. Qed.
Lemma atags_app l1 l2 : atags (l1 ++ l2) = atags l1 ++ atags l2.
Proof. unfold atags. rewrite filter_app, map_app. reflexivity. Qed.
Lemma akeys_cons x l : akeys (x :: l) = (if bl_active x then [bl_bank x] else []) ++ akeys l.
Proof. unfold akeys. cbn [filter]. destruct (bl_active x); reflexivity. Qed.
Lemma atags_cons x l : atags (x :: l) = (if bl_active x then [bl_tag x] else []) ++ atags l.
Proof. unfold atags. cbn [filter]. destruct (bl_active x); reflexivity. Qed.

(* the count made by find_or_create is n_integ *)
Lemma integ_count la :
  Z.of_nat (length (filter (fun bl => bl_active bl && is_integration_tag (bl_tag bl)) la)) = n_integ la.
Proof.
  unfold n_integ, atags. f_equal. induction la as [|x r IH]; cbn [filter map]; [reflexivity|].
  destruct (bl_active x); cbn [andb map filter]; [|exact IH].
  destruct (is_integration_tag (bl_tag x)); cbn [length]; congruence.
Qed.
(* the two flags computed by validate_asset_tags *)
Lemma existsb_atags (q : Z -> bool) la :
  existsb (fun bl => q (bl_tag bl)) (filter bl_active la) = existsb q (atags la).
Proof.
  unfold atags. induction (filter bl_active la) as [|x r IH]; cbn; [reflexivity|]. rewrite IH. reflexivity.
Qed.

(* ------------------------------------------------------------------------------------------ *)
(* sort_balances: permutation, sorted *)
Lemma insert_perm x l : Permutation (insert_desc x l) (x :: l).
Proof.
  induction l as [|y ys IH]; cbn; [apply Permutation_refl|].
  destruct (bl_bank y <? bl_bank x); [apply Permutation_refl|].
  eapply Permutation_trans; [apply perm_skip, IH | apply perm_swap].
Qed.
Lemma sort_perm la : Permutation (sort_balances la) la.
Proof.
  unfold sort_balances. induction la as [|x r IH]; cbn; [constructor|].
  eapply Permutation_trans; [apply insert_perm | apply perm_skip, IH].
Qed.

Lemma insert_sorted x l : desc l -> desc (insert_desc x l).
Proof.
  unfold desc. induction l as [|y ys IH]; intros H; cbn.
  - repeat constructor.
  - destruct (bl_bank y <? bl_bank x) eqn:E; cbn [map].
    + constructor; [exact H|]. constructor. lia.
    + inversion H as [|? ? Hs Hh]; subst. constructor; [apply IH; exact Hs|].
      destruct ys as [|z zs]; cbn.
      * constructor. lia.
      * destruct (bl_bank z <? bl_bank x); cbn; constructor; [lia|].
        inversion Hh; subst. assumption.
Qed.
Lemma sort_sorted la : desc (sort_balances la).
Proof.
  unfold sort_balances. induction la as [|x r IH]; cbn; [constructor | apply insert_sorted, IH].
Qed.

(* ------------------------------------------------------------------------------------------ *)
(* structure of one lending account, relative to the list T of the banks' asset tags *)
Definition slot_ok (T : list Z) (bl : balance) : Prop :=
  if bl_active bl then exists n, bl_bank bl = bank_pk n /\ nth_error T n = Some (bl_tag bl)
  else bl_bank bl = 0.

Record StructB (T : list Z) (la : laccount) : Prop := {
  sb_len : length la = 16%nat;
  sb_slots : Forall (slot_ok T) la;
  sb_nodup : NoDup (akeys la);
  sb_integ : n_integ la <= 8
}.

Lemma slot_ok_id T bl bl' : same_id bl bl' -> slot_ok T bl -> slot_ok T bl'.
Proof. intros (A & B & C). unfold slot_ok. rewrite A, B, C. auto. Qed.
Lemma slot_ok_empty T : slot_ok T bal_empty.
Proof. reflexivity. Qed.

Definition cnt (q : Z -> bool) (l : list Z) : Z := Z.of_nat (length (filter q l)).
Lemma cnt_app q l1 l2 : cnt q (l1 ++ l2) = cnt q l1 + cnt q l2.
Proof. unfold cnt. rewrite filter_app, app_length. lia. Qed.
Lemma cnt_cons q x l : cnt q (x :: l) = (if q x then 1 else 0) + cnt q l.
Proof. unfold cnt. cbn [filter]. destruct (q x); cbn [length]; lia. Qed.
Lemma cnt_nonneg q l : 0 <= cnt q l.
Proof. unfold cnt. lia. Qed.
Lemma n_integ_cnt la : n_integ la = cnt is_integration_tag (atags la).
Proof. reflexivity. Qed.

(* the three shapes of a change to one slot *)
Lemma upd_views la i bl bl' : nth_error la i = Some bl -> same_id bl bl' ->
  akeys (set_nth i bl' la) = akeys la /\ atags (set_nth i bl' la) = atags la /\
  map bl_bank (set_nth i bl' la) = map bl_bank la.
Proof.
  intros Hn (A & B & C). apply nth_split in Hn as (pre & post & -> & Hl).
  rewrite (set_nth_app _ _ _ _ _ Hl).
  rewrite !akeys_app, !atags_app, !akeys_cons, !atags_cons, !map_app. cbn [map]. rewrite A, B, C. auto.
Qed.

Lemma upd_struct T la i bl bl' : nth_error la i = Some bl -> same_id bl bl' ->
  StructB T la -> StructB T (set_nth i bl' la).
Proof.
  intros Hn Hid [H1 H2 H3 H4]. destruct (upd_views la i bl bl' Hn Hid) as (V1 & V2 & _).
  constructor.
  - rewrite set_nth_length. exact H1.
  - apply Forall_set_nth_s; [exact H2|]. eapply slot_ok_id; [exact Hid|]. eapply Forall_nth_s; eauto.
  - rewrite V1. exact H3.
  - unfold n_integ. rewrite V2. exact H4.
Qed.
Lemma upd_nomix la i bl bl' : nth_error la i = Some bl -> same_id bl bl' -> nomix la -> nomix (set_nth i bl' la).
Proof. intros Hn Hid H. unfold nomix. destruct (upd_views la i bl bl' Hn Hid) as (_ & -> & _). exact H. Qed.
Lemma upd_desc la i bl bl' : nth_error la i = Some bl -> same_id bl bl' -> desc la -> desc (set_nth i bl' la).
Proof. intros Hn Hid H. unfold desc. destruct (upd_views la i bl bl' Hn Hid) as (_ & _ & ->). exact H. Qed.

Lemma close_struct T la i bl : nth_error la i = Some bl -> StructB T la -> StructB T (set_nth i bal_empty la).
Proof.
  intros Hn [H1 H2 H3 H4]. constructor.
  - rewrite set_nth_length. exact H1.
  - apply Forall_set_nth_s; [exact H2 | apply slot_ok_empty].
  - apply nth_split in Hn as (pre & post & -> & Hl). rewrite (set_nth_app _ _ _ _ _ Hl).
    rewrite akeys_app, akeys_cons in *. cbn [bal_empty bl_active app] in *.
    destruct (bl_active bl); cbn [app] in H3; [|exact H3]. eapply NoDup_remove_1; eauto.
  - apply nth_split in Hn as (pre & post & -> & Hl). rewrite (set_nth_app _ _ _ _ _ Hl).
    rewrite n_integ_cnt, atags_app, atags_cons, !cnt_app in *. cbn [bal_empty bl_active app] in *.
    pose proof (cnt_nonneg is_integration_tag (if bl_active bl then [bl_tag bl] else [])).
    change (cnt is_integration_tag []) with 0. lia.
Qed.
Lemma close_nomix la i bl : nth_error la i = Some bl -> nomix la -> nomix (set_nth i bal_empty la).
Proof.
  intros Hn H. apply nth_split in Hn as (pre & post & -> & Hl). rewrite (set_nth_app _ _ _ _ _ Hl).
  unfold nomix in *. rewrite atags_app, atags_cons in *. cbn [bal_empty bl_active app] in *.
  intros (S & t & Ht & Hd). apply H. split.
  - apply in_app_iff in S as [S|S]; apply in_app_iff; [left; exact S | right; apply in_app_iff; right; exact S].
  - exists t. split; [|exact Hd].
    apply in_app_iff in Ht as [S'|S']; apply in_app_iff; [left; exact S' | right; apply in_app_iff; right; exact S'].
Qed.

(* ------------------------------------------------------------------------------------------ *)
(* find / find_or_create *)
Lemma find_idx_some f la : forall n i, find_idx f la n = Some i ->
  exists bl, nth_error la (i - n) = Some bl /\ f bl = true /\ (n <= i)%nat.
Proof.
  induction la as [|x r IH]; intros n i H; cbn in H; [discriminate|].
  destruct (f x) eqn:E.
  - inversion H; subst. exists x. replace (i - i)%nat with 0%nat by lia. cbn. auto.
  - apply IH in H as (bl & H1 & H2 & H3). exists bl.
    replace (i - n)%nat with (S (i - S n))%nat by lia. cbn. split; [exact H1|]. split; [exact H2 | lia].
Qed.
Lemma find_idx_none f la : forall n, find_idx f la n = None -> forall x, In x la -> f x = false.
Proof.
  induction la as [|y r IH]; intros n H x Hx; cbn in *; [contradiction|].
  destruct (f y) eqn:E; [discriminate|]. destruct Hx as [<-|Hx]; [exact E | eapply IH; eauto].
Qed.
Lemma find_active_some k la i : find_active k la = Some i ->
  exists bl, nth_error la i = Some bl /\ bl_active bl = true /\ bl_bank bl = k.
Proof.
  unfold find_active. intros H. apply find_idx_some in H as (bl & H1 & H2 & _).
  rewrite Nat.sub_0_r in H1. exists bl. split; [exact H1|]. lia.
Qed.
Lemma find_active_none k la : find_active k la = None -> ~ In k (akeys la).
Proof.
  unfold find_active, akeys. intros H Hin. apply in_map_iff in Hin as (bl & Hb & Hf).
  apply filter_In in Hf as [Hf Ha]. pose proof (find_idx_none _ _ _ H bl Hf) as E. cbn in E. lia.
Qed.

Definition new_slot (pk tag now : Z) : balance := mkBal true pk tag 0 0 0 (wrap_u 64 now).

Lemma foc_cases pk bk la now i la1 :
  wrapper_find_or_create pk bk la now = Ok (i, la1) ->
  (find_active pk la = Some i /\ la1 = la) \/
  (find_active pk la = None /\ exists pre bl0 post, la = pre ++ bl0 :: post /\ length pre = i /\
     bl_active bl0 = false /\ la1 = pre ++ new_slot pk (b_asset_tag bk) now :: post /\
     (is_integration_tag (b_asset_tag bk) = true -> n_integ la < 8)).
Proof.
  unfold wrapper_find_or_create. intros H. destruct (find_active pk la) as [j|] eqn:Ej.
  - apply pair_ok in H as [<- <-]. left. auto.
  - right. split; [reflexivity|]. apply bind_ok in H as (u & Hu & H).
    destruct (find_idx _ la 0) as [j|] eqn:Ei; [|discriminate].
    apply pair_ok in H as [<- <-]. apply find_idx_some in Ei as (bl0 & H1 & H2 & _). rewrite Nat.sub_0_r in H1.
    pose proof H1 as Hs. apply nth_split in Hs as (pre & post & -> & Hl).
    exists pre, bl0, post. split; [reflexivity|]. split; [exact Hl|].
    split; [destruct (bl_active bl0); [discriminate | reflexivity]|].
    split; [apply set_nth_app; exact Hl|].
    intros Hi. rewrite Hi in Hu. apply check_ok in Hu. rewrite integ_count in Hu.
    change MAX_INTEGRATION_POSITIONS with 8 in Hu. lia.
Qed.

Lemma foc_slot pk bk la now i la1 :
  wrapper_find_or_create pk bk la now = Ok (i, la1) ->
  exists bl, nth_error la1 i = Some bl /\ bl_active bl = true /\ bl_bank bl = pk.
Proof.
  intros H. apply foc_cases in H as [[H ->]|(_ & pre & bl0 & post & -> & Hl & _ & -> & _)].
  - apply find_active_some in H. exact H.
  - exists (new_slot pk (b_asset_tag bk) now). split; [|split; reflexivity].
    rewrite nth_error_app2 by lia. replace (i - length pre)%nat with 0%nat by lia. reflexivity.
Qed.

Lemma foc_struct T pk n bk la now i la1 :
  wrapper_find_or_create pk bk la now = Ok (i, la1) -> pk = bank_pk n ->
  nth_error T n = Some (b_asset_tag bk) -> StructB T la -> StructB T la1.
Proof.
  intros H Hpk HT S. apply foc_cases in H as [[_ ->]|(Hnone & pre & bl0 & post & -> & Hl & Hina & -> & Hint)]; [exact S|].
  destruct S as [H1 H2 H3 H4]. apply find_active_none in Hnone. constructor.
  - rewrite app_length in *. cbn [length] in *. exact H1.
  - apply Forall_app in H2 as [Ha Hb]. inversion Hb; subst. apply Forall_app. split; [exact Ha|].
    constructor; [|assumption]. unfold slot_ok, new_slot. cbn [bl_active bl_bank bl_tag]. exists n. auto.
  - rewrite akeys_app, akeys_cons in *. rewrite Hina in *. cbn [new_slot bl_active bl_bank app] in *.
    eapply Permutation_NoDup; [apply Permutation_middle|]. constructor; assumption.
  - rewrite n_integ_cnt, atags_app, atags_cons, cnt_app in *. rewrite Hina in *. cbn [new_slot bl_active bl_tag app] in *.
    rewrite cnt_cons. destruct (is_integration_tag (b_asset_tag bk)) eqn:E; [|lia].
    specialize (Hint eq_refl). lia.
Qed.

(* ------------------------------------------------------------------------------------------ *)
(* sort *)
Lemma sort_struct T la : StructB T la -> StructB T (sort_balances la).
Proof.
  intros [H1 H2 H3 H4]. pose proof (sort_perm la) as P. constructor.
  - rewrite (Permutation_length P). exact H1.
  - eapply Permutation_Forall; [apply Permutation_sym, P | exact H2].
  - eapply Permutation_NoDup; [|exact H3]. apply Permutation_sym, Permutation_map, Permutation_filter_s, P.
  - unfold n_integ, atags in *. erewrite Permutation_length; [exact H4|].
    apply Permutation_filter_s, Permutation_map, Permutation_filter_s, P.
Qed.
Lemma sort_nomix la : nomix la -> nomix (sort_balances la).
Proof.
  intros H. assert (P : Permutation (atags (sort_balances la)) (atags la))
    by (apply Permutation_map, Permutation_filter_s, sort_perm).
  unfold nomix in *. intros (S & t & Ht & Hd). apply H. split; [eapply Permutation_in; eauto|].
  exists t. split; [eapply Permutation_in; eauto | exact Hd].
Qed.

(* ------------------------------------------------------------------------------------------ *)
(* the wrapper primitives: the slot keeps its identity or is closed; the bank keeps its tag *)
Lemma claim_id b bl now b' bl' : claim_emissions b bl now = Ok (b', bl') ->
  same_id bl bl' /\ b_asset_tag b' = b_asset_tag b.
Proof.
  intros H. apply claim_emissions_core in H as [Hb Hl].
  destruct Hl as (D1 & D2 & D3 & _). split; [repeat split; assumption | apply Hb].
Qed.

Lemma increase_balance_id b bl now d t b' bl' :
  increase_balance b bl now d t = Ok (b', bl') -> same_id bl bl' /\ b_asset_tag b' = b_asset_tag b.
Proof.
  unfold increase_balance. intros H.
  apply bind_ok in H as ([b0 bl0] & Hc & H). apply claim_id in Hc as [(D1 & D2 & D3) Ht].
  apply bind_ok in H as (cur_l & _ & H). apply bind_ok in H as (d0 & _ & H).
  apply bind_ok in H as (u & _ & H). apply bind_ok in H as (ash & _ & H).
  apply bind_ok in H as (a' & _ & H).
  apply bind_ok in H as (b1 & Hb1 & H). apply change_asset_shares_inv in Hb1.
  apply bind_ok in H as (lsh & _ & H). apply bind_ok in H as (nl & _ & H).
  apply bind_ok in H as (l' & _ & H).
  apply bind_ok in H as (b2 & Hb2 & H). apply change_liability_shares_inv in Hb2.
  apply pair_ok in H as [Hbf Hlf]. split.
  - subst bl'. repeat split; cbn [set_bl_l set_bl_a bl_active bl_bank bl_tag]; assumption.
  - subst b'. match goal with |- b_asset_tag (update_counts ?x ?p ?q ?r ?s) = _ =>
      pose proof (update_counts_fields x p q r s) as U end.
    cbv zeta in U. destruct U as (_ & _ & _ & _ & _ & _ & _ & _ & _ & _ & _ & _ & U). rewrite U.
    subst b2 b1. cbn [set_b_tls set_b_tas b_asset_tag]. exact Ht.
Qed.

Lemma decrease_balance_id b bl now d t b' bl' :
  decrease_balance b bl now d t = Ok (b', bl') -> same_id bl bl' /\ b_asset_tag b' = b_asset_tag b.
Proof.
  unfold decrease_balance. intros H.
  apply bind_ok in H as ([b0 bl0] & Hc & H). apply claim_id in Hc as [(D1 & D2 & D3) Ht].
  apply bind_ok in H as (cur_a & _ & H). apply bind_ok in H as (d0 & _ & H).
  apply bind_ok in H as (u & _ & H). apply bind_ok in H as (ash & _ & H).
  apply bind_ok in H as (nash & _ & H). apply bind_ok in H as (a' & _ & H).
  apply bind_ok in H as (b1 & Hb1 & H). apply change_asset_shares_inv in Hb1.
  apply bind_ok in H as (lsh & _ & H). apply bind_ok in H as (l' & _ & H).
  apply bind_ok in H as (b2 & Hb2 & H). apply change_liability_shares_inv in Hb2.
  apply bind_ok in H as (u2 & _ & H).
  apply pair_ok in H as [Hbf Hlf]. split.
  - subst bl'. repeat split; cbn [set_bl_l set_bl_a bl_active bl_bank bl_tag]; assumption.
  - subst b'. match goal with |- b_asset_tag (update_counts ?x ?p ?q ?r ?s) = _ =>
      pose proof (update_counts_fields x p q r s) as U end.
    cbv zeta in U. destruct U as (_ & _ & _ & _ & _ & _ & _ & _ & _ & _ & _ & _ & U). rewrite U.
    subst b2 b1. cbn [set_b_tls set_b_tas b_asset_tag]. exact Ht.
Qed.

Lemma balance_close_empty bl bl' : balance_close bl = Ok bl' -> bl' = bal_empty.
Proof. unfold balance_close. intros H. apply bind_ok in H as (u & _ & H). apply Ok_inj in H. auto. Qed.

Lemma withdraw_all_id b bl now b' bl' n :
  withdraw_all b bl now = Ok (b', bl', n) -> bl' = bal_empty /\ b_asset_tag b' = b_asset_tag b.
Proof.
  unfold withdraw_all. intros H.
  apply bind_ok in H as ([b0 bl0] & Hc & H). apply claim_id in Hc as [_ Ht].
  apply bind_ok in H as (cur_a & _ & H). apply bind_ok in H as (cur_l & _ & H).
  apply bind_ok in H as (u1 & _ & H). apply bind_ok in H as (u2 & _ & H).
  apply bind_ok in H as (blc & Hcl & H). apply balance_close_empty in Hcl.
  apply bind_ok in H as (nsh & _ & H).
  apply bind_ok in H as (b2 & Hb2 & H). apply change_asset_shares_inv in Hb2.
  apply bind_ok in H as (u3 & _ & H). apply bind_ok in H as (fl & _ & H).
  apply bind_ok in H as (dust & _ & H). apply bind_ok in H as (ins & _ & H).
  apply bind_ok in H as (m & _ & H). apply Ok_inj in H. inversion H; subst b' bl' n.
  split; [exact Hcl|]. subst b2. cbn [set_b_ins set_b_tas dec_lend set_b_lend_cnt b_asset_tag]. exact Ht.
Qed.

Lemma repay_all_id b bl now b' bl' n :
  repay_all b bl now = Ok (b', bl', n) -> bl' = bal_empty /\ b_asset_tag b' = b_asset_tag b.
Proof.
  unfold repay_all. intros H.
  apply bind_ok in H as ([b0 bl0] & Hc & H). apply claim_id in Hc as [_ Ht].
  apply bind_ok in H as (cur_l & _ & H). apply bind_ok in H as (cur_a & _ & H).
  apply bind_ok in H as (u1 & _ & H). apply bind_ok in H as (u2 & _ & H).
  apply bind_ok in H as (blc & Hcl & H). apply balance_close_empty in Hcl.
  apply bind_ok in H as (nsh & _ & H).
  apply bind_ok in H as (b2 & Hb2 & H). apply change_liability_shares_inv in Hb2.
  apply bind_ok in H as (ce & _ & H).
  apply bind_ok in H as (dust & _ & H). apply bind_ok in H as (ins & _ & H).
  apply bind_ok in H as (m & _ & H). apply Ok_inj in H. inversion H; subst b' bl' n.
  split; [exact Hcl|]. subst b2. cbn [set_b_ins set_b_tls dec_bor set_b_bor_cnt b_asset_tag]. exact Ht.
Qed.

Lemma close_balance_id b bl now b' bl' :
  close_balance b bl now = Ok (b', bl') -> bl' = bal_empty /\ b_asset_tag b' = b_asset_tag b.
Proof.
  unfold close_balance. intros H.
  apply bind_ok in H as ([b0 bl0] & Hc & H). apply claim_id in Hc as [_ Ht].
  apply bind_ok in H as (cur_l & _ & H). apply bind_ok in H as (cur_a & _ & H).
  apply bind_ok in H as (u1 & _ & H). apply bind_ok in H as (u2 & _ & H).
  apply bind_ok in H as (blc & Hcl & H). apply balance_close_empty in Hcl.
  apply pair_ok in H as [<- <-]. auto.
Qed.

Lemma settle_id b bl now b' bl' n :
  settle_emissions b bl now = Ok (b', bl', n) -> same_id bl bl' /\ b_asset_tag b' = b_asset_tag b.
Proof.
  unfold settle_emissions. intros H.
  apply bind_ok in H as ([b0 bl0] & Hc & H). apply claim_id in Hc as [(D1 & D2 & D3) Ht].
  apply bind_ok in H as (fl & _ & H). apply bind_ok in H as (rest & _ & H).
  apply bind_ok in H as (m & _ & H). apply Ok_inj in H. inversion H; subst b' bl' n.
  split; [|exact Ht]. repeat split; cbn [set_bl_em bl_active bl_bank bl_tag]; assumption.
Qed.

Lemma accrue_tag b pf now b' : accrue_interest b pf now = Ok b' -> b_asset_tag b' = b_asset_tag b.
Proof. intros H. apply accrue_frame in H. apply H. Qed.

Lemma socialize_tag b loss b' k : socialize_loss b loss = Ok (b', k) -> b_asset_tag b' = b_asset_tag b.
Proof.
  unfold socialize_loss. intros H. apply bind_ok in H as (tot & _ & H).
  destruct (tot <=? loss).
  - apply pair_ok in H as [<- _]. reflexivity.
  - apply bind_ok in H as (d & _ & H). apply bind_ok in H as (nsv & _ & H).
    apply pair_ok in H as [<- _]. reflexivity.
Qed.

Lemma ubc_tag b pf now b' : update_bank_cache b pf now = Ok b' -> b_asset_tag b' = b_asset_tag b.
Proof.
  unfold update_bank_cache. intros H.
  apply bind_ok in H as (ta & _ & H). apply bind_ok in H as (tl & _ & H).
  destruct ((ta =? 0) || (tl =? 0)); [apply Ok_inj in H; subst; reflexivity|].
  apply bind_ok in H as (ur & _ & H). apply bind_ok in H as (r & _ & H). apply Ok_inj in H. subst. reflexivity.
Qed.

(* ------------------------------------------------------------------------------------------ *)
(* level B: bstep / brun *)
Definition btags (w : bworld) : list Z := map b_asset_tag (bw_banks w).
Definition WB (w : bworld) : Prop := Forall (StructB (btags w)) (bw_accts w).

(* what a wrapper primitive may do to the slot it is given *)
Definition prim_ok (f : bank -> balance -> res (bank * balance * option Z)) : Prop :=
  forall bk bl bk' bl' r, f bk bl = Ok (bk', bl', r) ->
  b_asset_tag bk' = b_asset_tag bk /\ (same_id bl bl' \/ bl' = bal_empty).

Lemma tags_set_nth (banks : list bank) b bk bk' :
  nth_error banks b = Some bk -> b_asset_tag bk' = b_asset_tag bk ->
  map b_asset_tag (set_nth b bk' banks) = map b_asset_tag banks.
Proof. intros H E. eapply map_set_nth_same; eauto. Qed.

Lemma nth_tag (banks : list bank) b bk : nth_error banks b = Some bk ->
  nth_error (map b_asset_tag banks) b = Some (b_asset_tag bk).
Proof. intros H. rewrite nth_error_map, H. reflexivity. Qed.

Lemma with_slot_struct w a b create f w' r : prim_ok f -> WB w ->
  with_slot w a b create f = Ok (w', r) -> WB w' /\ btags w' = btags w.
Proof.
  intros Hf Hw H. unfold with_slot in H.
  apply bind_ok in H as (bk & Hbk & H). apply nth_res_ok in Hbk.
  apply bind_ok in H as (la & Hla & H). apply nth_res_ok in Hla.
  apply bind_ok in H as ([i la1] & Hloc & H).
  apply bind_ok in H as (bl & Hbl & H). apply nth_res_ok in Hbl.
  apply bind_ok in H as ([[bk' bl'] r'] & Hprim & H). apply pair_ok in H as [<- <-].
  apply Hf in Hprim as [Htag Hslot].
  assert (HT : btags (put w a b bk' (set_nth i bl' la1)) = btags w).
  { unfold btags, put. cbn [bw_banks]. eapply tags_set_nth; eauto. }
  split; [|exact HT]. unfold WB. rewrite HT. unfold put. cbn [bw_accts].
  pose proof (Forall_nth_s _ _ _ _ Hw Hla) as Sla.
  assert (S1 : StructB (btags w) la1).
  { destruct create.
    - eapply foc_struct; [exact Hloc | reflexivity | apply nth_tag; exact Hbk | exact Sla].
    - apply bind_ok in Hloc as (j & _ & Hloc). apply pair_ok in Hloc as [_ <-]. exact Sla. }
  apply Forall_set_nth_s; [exact Hw|].
  destruct Hslot as [Hid | ->].
  - eapply upd_struct; eauto.
  - eapply close_struct; eauto.
Qed.

Lemma prim_lift2 g : (forall bk bl bk' bl', g bk bl = Ok (bk', bl') ->
    b_asset_tag bk' = b_asset_tag bk /\ (same_id bl bl' \/ bl' = bal_empty)) ->
  prim_ok (fun bk bl => lift2 (g bk bl)).
Proof.
  intros Hg bk bl bk' bl' r H. unfold lift2 in H. apply bind_ok in H as ([b1 bl1] & Hx & H).
  apply Ok_inj in H. inversion H; subst. eapply Hg; eauto.
Qed.
Lemma prim_lift3 g : (forall bk bl bk' bl' n, g bk bl = Ok (bk', bl', n) ->
    b_asset_tag bk' = b_asset_tag bk /\ (same_id bl bl' \/ bl' = bal_empty)) ->
  prim_ok (fun bk bl => lift3 (g bk bl)).
Proof.
  intros Hg bk bl bk' bl' r H. unfold lift3 in H. apply bind_ok in H as ([[b1 bl1] n] & Hx & H).
  apply Ok_inj in H. inversion H; subst. eapply Hg; eauto.
Qed.

Lemma WB_accts_same w w' : WB w -> bw_accts w' = bw_accts w -> btags w' = btags w -> WB w'.
Proof. unfold WB. intros H -> ->. exact H. Qed.

Lemma bstep_struct w o w' r : WB w -> bstep w o = Ok (w', r) -> WB w' /\ btags w' = btags w.
Proof.
  intros Hw H. destruct o; cbn [bstep] in H.
  - apply pair_ok in H as [<- _]. split; [exact Hw | reflexivity].
  - eapply with_slot_struct; [|exact Hw|exact H]. apply prim_lift2. intros; edestruct increase_balance_id as [? ?]; eauto.
  - eapply with_slot_struct; [|exact Hw|exact H]. apply prim_lift2. intros; edestruct decrease_balance_id as [? ?]; eauto.
  - eapply with_slot_struct; [|exact Hw|exact H]. apply prim_lift2. intros; edestruct decrease_balance_id as [? ?]; eauto.
  - eapply with_slot_struct; [|exact Hw|exact H]. apply prim_lift2. intros; edestruct increase_balance_id as [? ?]; eauto.
  - eapply with_slot_struct; [|exact Hw|exact H]. apply prim_lift3. intros; edestruct withdraw_all_id as [? ?]; eauto.
  - eapply with_slot_struct; [|exact Hw|exact H]. apply prim_lift3. intros; edestruct repay_all_id as [? ?]; eauto.
  - eapply with_slot_struct; [|exact Hw|exact H]. apply prim_lift2. intros; edestruct close_balance_id as [? ?]; eauto.
  - eapply with_slot_struct; [|exact Hw|exact H]. apply prim_lift2. intros; edestruct increase_balance_id as [? ?]; eauto.
  - eapply with_slot_struct; [|exact Hw|exact H]. apply prim_lift2. intros; edestruct decrease_balance_id as [? ?]; eauto.
  - apply bind_ok in H as (bk & Hbk & H). apply nth_res_ok in Hbk.
    apply bind_ok in H as (bk' & Hacc & H). apply accrue_tag in Hacc. apply pair_ok in H as [<- _].
    assert (HT : btags (put_bank w b bk') = btags w) by (unfold btags, put_bank; cbn [bw_banks]; eapply tags_set_nth; eauto).
    split; [|exact HT]. eapply WB_accts_same; eauto.
  - apply bind_ok in H as (bk & Hbk & H). apply nth_res_ok in Hbk.
    apply bind_ok in H as ([bk' kill] & Hs & H). apply socialize_tag in Hs. apply pair_ok in H as [<- _].
    assert (HT : btags (put_bank w b bk') = btags w) by (unfold btags, put_bank; cbn [bw_banks]; eapply tags_set_nth; eauto).
    split; [|exact HT]. eapply WB_accts_same; eauto.
  - eapply with_slot_struct; [|exact Hw|exact H]. apply prim_lift2. intros; edestruct claim_id as [? ?]; eauto.
  - eapply with_slot_struct; [|exact Hw|exact H]. apply prim_lift3. intros; edestruct settle_id as [? ?]; eauto.
  - apply bind_ok in H as (la & Hla & H). apply nth_res_ok in Hla. apply pair_ok in H as [<- _].
    split; [|reflexivity]. unfold WB, btags. cbn [bw_banks bw_accts].
    apply Forall_set_nth_s; [exact Hw|]. apply sort_struct. eapply Forall_nth_s; eauto.
  - apply bind_ok in H as (bk & _ & H). apply bind_ok in H as (c & _ & H). apply pair_ok in H as [<- _].
    split; [exact Hw | reflexivity].
Qed.

Lemma brun_struct ops : forall w, WB w -> WB (brun w ops) /\ btags (brun w ops) = btags w.
Proof.
  induction ops as [|o ops IH]; intros w Hw; cbn [brun fold_left]; [split; [exact Hw|reflexivity]|].
  change (fold_left bstep_total ops (bstep_total w o)) with (brun (bstep_total w o) ops).
  unfold bstep_total. destruct (bstep w o) as [[w' r]|e] eqn:E.
  - apply bstep_struct in E as [Hw' HT]; [|exact Hw]. destruct (IH w' Hw') as [H1 H2]. split; [exact H1 | congruence].
  - apply IH. exact Hw.
Qed.

(* after BSort the account is sorted *)
Lemma bsort_sorted w a w' r : bstep w (BSort a) = Ok (w', r) ->
  exists la, nth_error (bw_accts w') a = Some la /\ desc la.
Proof.
  cbn [bstep]. intros H. apply bind_ok in H as (la & Hla & H). apply nth_res_ok in Hla. apply pair_ok in H as [<- _].
  exists (sort_balances la). cbn [bw_accts]. split; [eapply nth_set_nth_same; eauto | apply sort_sorted].
Qed.

Lemma StructB_empty T : StructB T la_empty.
Proof.
  constructor.
  - reflexivity.
  - unfold la_empty. apply Forall_forall. intros x Hx. apply repeat_spec in Hx. subst. apply slot_ok_empty.
  - cbn. constructor.
  - cbn. lia.
Qed.

(* ------------------------------------------------------------------------------------------ *)
(* level C: hstep / hrun *)
Definition htags (w : hworld) : list Z := map (fun hb => b_asset_tag (hb_b hb)) (hw_banks w).
Definition StructH (T : list Z) (la : laccount) : Prop := StructB T la /\ nomix la /\ desc la.
Definition WH (w : hworld) : Prop := Forall (fun ac => StructH (htags w) (ha_la ac)) (hw_accts w).

Lemma set_nth_twice {A} (l : list A) n u v : set_nth n v (set_nth n u l) = set_nth n v l.
Proof. revert n; induction l as [|a l IH]; intros [|n]; cbn; auto. f_equal. apply IH. Qed.

Lemma nth_bank_tag w b hb : nth_bank w b = Ok hb -> nth_error (htags w) b = Some (b_asset_tag (hb_b hb)).
Proof. intros H. apply nth_res_ok in H. unfold htags. rewrite nth_error_map, H. reflexivity. Qed.

Lemma htags_put w b hb0 hb' : nth_bank w b = Ok hb0 -> b_asset_tag (hb_b hb') = b_asset_tag (hb_b hb0) ->
  htags (put_hbank w b hb') = htags w.
Proof.
  intros H E. apply nth_res_ok in H. unfold htags, put_hbank. cbn [hw_banks].
  eapply (map_set_nth_same (fun hb => b_asset_tag (hb_b hb))); eauto.
Qed.
Lemma htags_put_hacct w a ac : htags (put_hacct w a ac) = htags w.
Proof. reflexivity. Qed.
Lemma htags_put_utok w a b v : htags (put_utok w a b v) = htags w.
Proof. unfold put_utok. destruct (nth_error (hw_utok w) a); reflexivity. Qed.
Lemma accts_put_hbank w b hb : hw_accts (put_hbank w b hb) = hw_accts w.
Proof. reflexivity. Qed.
Lemma accts_put_hacct w a ac : hw_accts (put_hacct w a ac) = set_nth a ac (hw_accts w).
Proof. reflexivity. Qed.
Lemma accts_put_utok w a b v : hw_accts (put_utok w a b v) = hw_accts w.
Proof. unfold put_utok. destruct (nth_error (hw_utok w) a); reflexivity. Qed.

Lemma xfer_in_frame w a b n w' : xfer_in w a b n = Ok w' -> hw_accts w' = hw_accts w /\ htags w' = htags w.
Proof.
  unfold xfer_in. intros H. apply bind_ok in H as (hb & Hhb & H). apply bind_ok in H as (u & _ & H).
  apply bind_ok in H as (c & _ & H). apply bind_ok in H as (f & _ & H). apply Ok_inj in H. subst w'.
  rewrite accts_put_utok, htags_put_utok, accts_put_hbank. split; [reflexivity|].
  eapply htags_put; [exact Hhb | reflexivity].
Qed.
Lemma xfer_out_frame w a b n w' : xfer_out w a b n = Ok w' -> hw_accts w' = hw_accts w /\ htags w' = htags w.
Proof.
  unfold xfer_out. intros H. apply bind_ok in H as (hb & Hhb & H). apply bind_ok in H as (u & _ & H).
  apply bind_ok in H as (c & _ & H). apply bind_ok in H as (f & _ & H). apply Ok_inj in H. subst w'.
  rewrite accts_put_utok, htags_put_utok, accts_put_hbank. split; [reflexivity|].
  eapply htags_put; [exact Hhb | reflexivity].
Qed.

Lemma nth_acct_of w a ac : nth_acct w a = Ok ac -> nth_error (hw_accts w) a = Some ac.
Proof. apply nth_res_ok. Qed.
Lemma nth_acct_set w w2 a ac0 ac1 ac2 : nth_error (hw_accts w) a = Some ac0 ->
  hw_accts w2 = set_nth a ac1 (hw_accts w) -> nth_acct w2 a = Ok ac2 -> ac2 = ac1.
Proof.
  intros H0 E H. apply nth_res_ok in H. rewrite E in H. rewrite (nth_set_nth_same _ _ _ _ H0) in H. congruence.
Qed.

Lemma WH_same w w' : WH w -> htags w' = htags w -> hw_accts w' = hw_accts w -> WH w'.
Proof. unfold WH. intros H -> ->. exact H. Qed.
Lemma WH_put w w' a acF : WH w -> htags w' = htags w -> hw_accts w' = set_nth a acF (hw_accts w) ->
  StructH (htags w) (ha_la acF) -> WH w'.
Proof. unfold WH. intros H -> -> S. apply Forall_set_nth_s; assumption. Qed.

(* validate_asset_tags keeps staked and default-class positions apart *)
Lemma staked_not_default : is_default_like ASSET_TAG_STAKED = false.
Proof. reflexivity. Qed.

Lemma vat_nomix bk la la1 : validate_asset_tags bk la = Ok tt -> nomix la ->
  (forall x, In x (atags la1) -> x = b_asset_tag bk \/ In x (atags la)) -> nomix la1.
Proof.
  unfold validate_asset_tags. intros H Hn Hin. apply bind_ok in H as (u & _ & H).
  rewrite (existsb_atags is_default_like), (existsb_atags (fun t => t =? ASSET_TAG_STAKED)) in H.
  intros (S & t & Ht & Hd). apply Hin in S. apply Hin in Ht.
  destruct (existsb (fun t => t =? ASSET_TAG_STAKED) (atags la)) eqn:ES;
  destruct (existsb is_default_like (atags la)) eqn:ED.
  - apply existsb_exists in ES as (s & Hs & Es). apply existsb_exists in ED as (d & Hd' & Ed).
    apply Hn. split; [replace ASSET_TAG_STAKED with s by lia; exact Hs | exists d; auto].
  - destruct Ht as [Ht|Ht].
    + subst t. rewrite Hd in H. cbn [andb] in H. discriminate.
    + assert (existsb is_default_like (atags la) = true) by (apply existsb_exists; exists t; auto). congruence.
  - destruct S as [S|S].
    + rewrite <- S in H. rewrite staked_not_default, Z.eqb_refl in H. cbn [andb] in H. discriminate.
    + assert (existsb (fun t => t =? ASSET_TAG_STAKED) (atags la) = true)
        by (apply existsb_exists; exists ASSET_TAG_STAKED; split; [exact S | apply Z.eqb_refl]). congruence.
  - destruct S as [S|S].
    + destruct Ht as [Ht|Ht].
      * subst t. rewrite <- S, staked_not_default in Hd. discriminate.
      * assert (existsb is_default_like (atags la) = true) by (apply existsb_exists; exists t; auto). congruence.
    + assert (existsb (fun t => t =? ASSET_TAG_STAKED) (atags la) = true)
        by (apply existsb_exists; exists ASSET_TAG_STAKED; split; [exact S | apply Z.eqb_refl]). congruence.
Qed.

Lemma foc_tags pk bk la now i la1 : wrapper_find_or_create pk bk la now = Ok (i, la1) ->
  forall x, In x (atags la1) -> x = b_asset_tag bk \/ In x (atags la).
Proof.
  intros H x Hx. apply foc_cases in H as [[_ ->]|(_ & pre & bl0 & post & -> & _ & Hina & -> & _)]; [right; exact Hx|].
  rewrite atags_app, atags_cons in *. rewrite Hina. cbn [new_slot bl_active bl_tag app] in *.
  apply in_app_iff in Hx as [Hx|[Hx|Hx]]; [right; apply in_app_iff; left; exact Hx | left; auto | right; apply in_app_iff; right; exact Hx].
Qed.

Lemma sortH T la : StructB T la -> nomix la -> StructH T (sort_balances la).
Proof. intros S N. split; [apply sort_struct, S|]. split; [apply sort_nomix, N | apply sort_sorted]. Qed.

(* deposit / borrow shape: tags validated, slot found or created, primitive keeps the slot, sort *)
Lemma acct_open T la bk0 bk1 n now i la1 bl bl2 :
  StructH T la -> validate_asset_tags bk0 la = Ok tt -> b_asset_tag bk1 = b_asset_tag bk0 ->
  nth_error T n = Some (b_asset_tag bk1) ->
  wrapper_find_or_create (bank_pk n) bk1 la now = Ok (i, la1) -> nth_error la1 i = Some bl -> same_id bl bl2 ->
  StructH T (sort_balances (set_nth i bl2 la1)).
Proof.
  intros (S & N & _) Hv Ht HT Hf Hn Hid.
  assert (S1 : StructB T la1) by (eapply foc_struct; eauto).
  assert (N1 : nomix la1).
  { eapply vat_nomix; [exact Hv | exact N|]. intros x Hx. rewrite <- Ht. eapply foc_tags; eauto. }
  apply sortH; [eapply upd_struct; eauto | eapply upd_nomix; eauto].
Qed.
(* withdraw / repay / close shape *)
Lemma acct_touch T la i bl bl2 :
  StructH T la -> nth_error la i = Some bl -> (same_id bl bl2 \/ bl2 = bal_empty) ->
  StructH T (sort_balances (set_nth i bl2 la)).
Proof.
  intros (S & N & _) Hn [Hid | ->].
  - apply sortH; [eapply upd_struct; eauto | eapply upd_nomix; eauto].
  - apply sortH; [eapply close_struct; eauto | eapply close_nomix; eauto].
Qed.

Lemma wrapper_find_some k la i : wrapper_find k la = Ok i ->
  exists bl, nth_error la i = Some bl /\ bl_active bl = true /\ bl_bank bl = k.
Proof.
  unfold wrapper_find. destruct (find_active k la) as [j|] eqn:E; [|discriminate].
  intros H. apply Ok_inj in H. subst j. apply find_active_some. exact E.
Qed.

(* effect of one handler on the accounts: structure is preserved account by account, flags are kept
   or gain ACCOUNT_DISABLED; bank tags are unchanged *)
Definition flag_rel (ac ac' : hacct) : Prop :=
  ha_flags ac' = ha_flags ac \/ ha_flags ac' = Z.lor (ha_flags ac) ACCOUNT_DISABLED.
Definition acct_rel (T : list Z) (ac ac' : hacct) : Prop :=
  (StructH T (ha_la ac) -> StructH T (ha_la ac')) /\ flag_rel ac ac'.
Definition Eff (w w' : hworld) : Prop :=
  htags w' = htags w /\ Forall2 (acct_rel (htags w)) (hw_accts w) (hw_accts w').

Lemma acct_rel_refl T ac : acct_rel T ac ac.
Proof. split; [auto | left; reflexivity]. Qed.
Lemma acct_rel_trans T a b c : acct_rel T a b -> acct_rel T b c -> acct_rel T a c.
Proof.
  intros [S1 F1] [S2 F2]. split; [auto|]. unfold flag_rel in *.
  destruct F1 as [F1|F1], F2 as [F2|F2]; rewrite F2, F1; auto.
  right. rewrite <- Z.lor_assoc, Z.lor_diag. reflexivity.
Qed.
Lemma Forall2_refl_s {A} (R : A -> A -> Prop) l : (forall x, R x x) -> Forall2 R l l.
Proof. intros H. induction l; constructor; auto. Qed.
Lemma Forall2_set_nth_s {A} (R : A -> A -> Prop) l a x v :
  (forall y, R y y) -> nth_error l a = Some x -> R x v -> Forall2 R l (set_nth a v l).
Proof.
  intros Hr. revert a; induction l as [|y l IH]; intros [|a] Hn Hv; cbn in *; try discriminate.
  - apply Some_inj_s in Hn. subst y. constructor; [exact Hv | apply Forall2_refl_s, Hr].
  - constructor; [apply Hr | apply IH; assumption].
Qed.
Lemma Forall2_trans_s {A} (R : A -> A -> Prop) l1 : (forall x y z, R x y -> R y z -> R x z) ->
  forall l2 l3, Forall2 R l1 l2 -> Forall2 R l2 l3 -> Forall2 R l1 l3.
Proof.
  intros Ht. induction l1 as [|x l1 IH]; intros l2 l3 H1 H2; inversion H1; subst; inversion H2; subst; constructor; eauto.
Qed.
Lemma Eff_same w w' : htags w' = htags w -> hw_accts w' = hw_accts w -> Eff w w'.
Proof. intros HT HA. split; [exact HT|]. rewrite HA. apply Forall2_refl_s, acct_rel_refl. Qed.
Lemma Eff_put w w' a ac acF : htags w' = htags w -> nth_error (hw_accts w) a = Some ac ->
  hw_accts w' = set_nth a acF (hw_accts w) -> acct_rel (htags w) ac acF -> Eff w w'.
Proof.
  intros HT Hn HA R. split; [exact HT|]. rewrite HA. eapply Forall2_set_nth_s; eauto. apply acct_rel_refl.
Qed.
Lemma Eff_trans w1 w2 w3 : Eff w1 w2 -> Eff w2 w3 -> Eff w1 w3.
Proof.
  intros [T1 F1] [T2 F2]. split; [congruence|]. rewrite T1 in F2.
  eapply Forall2_trans_s; [apply acct_rel_trans | exact F1 | exact F2].
Qed.
Lemma Eff_WH w w' : Eff w w' -> WH w -> WH w'.
Proof.
  intros [HT F] Hw. unfold WH in *. rewrite HT. induction F as [|x y l l' [S _] _ IH]; [constructor|].
  inversion Hw; subst. constructor; auto.
Qed.

Lemma h_deposit_struct w a b n u w' : h_deposit w a b n u = Ok w' -> Eff w w'.
Proof.
  intros H. unfold h_deposit in H.
  apply bind_ok in H as (hb & Hhb & H). apply bind_ok in H as (ac & Hac & H). cbv zeta in H.
  apply bind_ok in H as (u1 & _ & H). apply bind_ok in H as (u2 & _ & H).
  apply bind_ok in H as (u3 & Hvat & H). destruct u3.
  apply bind_ok in H as (u4 & _ & H). apply bind_ok in H as (u5 & _ & H).
  apply bind_ok in H as (bk1 & Hacc & H). apply accrue_tag in Hacc.
  apply bind_ok in H as (dep & _ & H).
  destruct (dep =? 0).
  { apply Ok_inj in H. subst w'.
    assert (HT : htags (put_hbank w b (set_hb_b bk1 hb)) = htags w) by (eapply htags_put; [exact Hhb | exact Hacc]).
    apply Eff_same; [exact HT | reflexivity]. }
  apply bind_ok in H as ([i la1] & Hfoc & H).
  apply bind_ok in H as (bl & Hbl & H). apply nth_res_ok in Hbl.
  apply bind_ok in H as ([bk2 bl2] & Hinc & H). apply increase_balance_id in Hinc as [Hid Ht2].
  apply bind_ok in H as (pre & _ & H).
  apply bind_ok in H as (w2 & Hx & H). apply xfer_in_frame in Hx as [Xa Xt].
  apply bind_ok in H as (hb2 & Hhb2 & H).
  apply bind_ok in H as (bk3 & Hubc & H). apply ubc_tag in Hubc.
  apply bind_ok in H as (ac2 & Hac2 & H). apply Ok_inj in H. subst w'.
  pose proof (nth_acct_of _ _ _ Hac) as Ea.
  rewrite accts_put_hacct, accts_put_hbank in Xa.
  rewrite htags_put_hacct in Xt.
  assert (T1 : htags w2 = htags w).
  { rewrite Xt. eapply htags_put; [exact Hhb|]. cbn [set_hb_b hb_b]. congruence. }
  pose proof (nth_acct_set _ _ _ _ _ _ Ea Xa Hac2) as ->.
  assert (HT : htags (put_hacct (put_hbank w2 b (set_hb_b bk3 hb2)) a
                        (sort_acct {| ha_la := set_nth i bl2 la1; ha_flags := ha_flags ac |})) = htags w).
  { rewrite htags_put_hacct, <- T1. eapply htags_put; [exact Hhb2 | exact Hubc]. }
  eapply Eff_put; [exact HT | exact Ea | |].
  - rewrite accts_put_hacct, accts_put_hbank, Xa, set_nth_twice. reflexivity.
  - split; [|left; reflexivity]. intros Sa. cbn [sort_acct ha_la].
    eapply acct_open; [exact Sa | exact Hvat | exact Hacc | | exact Hfoc | exact Hbl | exact Hid].
    rewrite Hacc. apply nth_bank_tag. exact Hhb.
Qed.

Lemma h_withdraw_struct w a b n all w' : h_withdraw w a b n all = Ok w' -> Eff w w'.
Proof.
  intros H. unfold h_withdraw in H.
  apply bind_ok in H as (hb & Hhb & H). apply bind_ok in H as (ac & Hac & H). cbv zeta in H.
  apply bind_ok in H as (u1 & _ & H). apply bind_ok in H as (u2 & _ & H). apply bind_ok in H as (u3 & _ & H).
  apply bind_ok in H as (bk1 & Hacc & H). apply accrue_tag in Hacc.
  apply bind_ok in H as (i & Hfind & H). apply wrapper_find_some in Hfind as (bl0 & Hbl0 & _ & _).
  apply bind_ok in H as (bl & Hbl & H). apply nth_res_ok in Hbl. rewrite Hbl0 in Hbl. apply Some_inj_s in Hbl. subst bl0.
  apply bind_ok in H as ([[bk2 bl2] pre] & Hprim & H).
  assert (P : b_asset_tag bk2 = b_asset_tag bk1 /\ (same_id bl bl2 \/ bl2 = bal_empty)).
  { destruct all.
    - apply withdraw_all_id in Hprim as [-> ?]. auto.
    - apply bind_ok in Hprim as (p & _ & Hprim). apply bind_ok in Hprim as ([bk2' bl2'] & Hd & Hprim).
      apply Ok_inj in Hprim. inversion Hprim; subst. apply decrease_balance_id in Hd as [? ?]. auto. }
  destruct P as [Ht2 Hslot].
  apply bind_ok in H as (w2 & Hx & H). apply xfer_out_frame in Hx as [Xa Xt].
  apply bind_ok in H as (hb2 & Hhb2 & H).
  apply bind_ok in H as (bk3 & Hubc & H). apply ubc_tag in Hubc.
  apply bind_ok in H as (ac2 & Hac2 & H). apply bind_ok in H as (u4 & _ & H). apply Ok_inj in H. subst w'.
  pose proof (nth_acct_of _ _ _ Hac) as Ea.
  rewrite accts_put_hacct, accts_put_hbank in Xa. rewrite htags_put_hacct in Xt.
  assert (T1 : htags w2 = htags w).
  { rewrite Xt. eapply htags_put; [exact Hhb|]. cbn [set_hb_b hb_b]. congruence. }
  pose proof (nth_acct_set _ _ _ _ _ _ Ea Xa Hac2) as ->.
  match goal with |- Eff _ ?W => assert (HT : htags W = htags w) end.
  { rewrite htags_put_hacct, <- T1. eapply htags_put; [exact Hhb2 | exact Hubc]. }
  eapply Eff_put; [exact HT | exact Ea | |].
  - rewrite accts_put_hacct, accts_put_hbank, Xa, set_nth_twice. reflexivity.
  - split; [|left; reflexivity]. intros Sa. cbn [sort_acct ha_la].
    eapply acct_touch; eauto.
Qed.

Lemma h_borrow_struct w a b n w' : h_borrow w a b n = Ok w' -> Eff w w'.
Proof.
  intros H. unfold h_borrow in H.
  apply bind_ok in H as (hb & Hhb & H). apply bind_ok in H as (ac & Hac & H). cbv zeta in H.
  apply bind_ok in H as (u1 & _ & H). apply bind_ok in H as (u2 & _ & H). apply bind_ok in H as (u3 & _ & H).
  apply bind_ok in H as (bk1 & Hacc & H). apply accrue_tag in Hacc.
  apply bind_ok in H as (u4 & Hvat & H). destruct u4. apply bind_ok in H as (u5 & _ & H).
  apply bind_ok in H as ([i la1] & Hfoc & H).
  apply bind_ok in H as (bl & Hbl & H). apply nth_res_ok in Hbl.
  apply bind_ok in H as (pre & _ & H).
  apply bind_ok in H as ([delta ofee] & _ & H).
  apply bind_ok in H as ([bk2 bl2] & Hdec & H). apply decrease_balance_id in Hdec as [Hid Ht2].
  apply bind_ok in H as (w2 & Hx & H). apply xfer_out_frame in Hx as [Xa Xt].
  apply bind_ok in H as (hb2 & Hhb2 & H).
  apply bind_ok in H as (bk4 & Hbk4 & H).
  assert (Ht4 : b_asset_tag bk4 = b_asset_tag (hb_b hb2)).
  { destruct (ofee =? 0); [apply Ok_inj in Hbk4; subst; reflexivity|].
    destruct (pf_rate (hw_pf w) =? 0); [apply Ok_inj in Hbk4; subst; reflexivity|].
    apply bind_ok in Hbk4 as (pfa & _ & Hbk4). apply Ok_inj in Hbk4. subst. reflexivity. }
  apply bind_ok in H as (ac2 & Hac2 & H). apply bind_ok in H as (u6 & _ & H).
  apply bind_ok in H as (hb3 & Hhb3 & H).
  apply bind_ok in H as (bk5 & Hubc & H). apply ubc_tag in Hubc. apply Ok_inj in H. subst w'.
  pose proof (nth_acct_of _ _ _ Hac) as Ea.
  rewrite accts_put_hacct, accts_put_hbank in Xa. rewrite htags_put_hacct in Xt.
  assert (T1 : htags w2 = htags w).
  { rewrite Xt. eapply htags_put; [exact Hhb|]. cbn [set_hb_b hb_b]. congruence. }
  pose proof (nth_acct_set _ _ _ _ _ _ Ea Xa Hac2) as ->.
  match type of Hhb3 with nth_bank ?W3 _ = _ => set (w3 := W3) in * end.
  assert (T3 : htags w3 = htags w).
  { unfold w3. rewrite htags_put_hacct, <- T1. eapply htags_put; [exact Hhb2 | exact Ht4]. }
  assert (HT : htags (put_hbank w3 b (set_hb_b bk5 hb3)) = htags w).
  { rewrite <- T3. eapply htags_put; [exact Hhb3 | exact Hubc]. }
  eapply Eff_put; [exact HT | exact Ea | |].
  - rewrite accts_put_hbank. unfold w3. rewrite accts_put_hacct, accts_put_hbank, Xa, set_nth_twice. reflexivity.
  - split; [|left; reflexivity]. intros Sa. cbn [sort_acct ha_la].
    eapply acct_open; [exact Sa | exact Hvat | reflexivity | | exact Hfoc | exact Hbl | exact Hid].
    rewrite Hacc. apply nth_bank_tag. exact Hhb.
Qed.

Lemma h_repay_struct w a b n all w' : h_repay w a b n all = Ok w' -> Eff w w'.
Proof.
  intros H. unfold h_repay in H.
  apply bind_ok in H as (hb & Hhb & H). apply bind_ok in H as (ac & Hac & H). cbv zeta in H.
  apply bind_ok in H as (u1 & _ & H). apply bind_ok in H as (u2 & _ & H). apply bind_ok in H as (u3 & _ & H).
  apply bind_ok in H as (bk1 & Hacc & H). apply accrue_tag in Hacc.
  apply bind_ok in H as (i & Hfind & H). apply wrapper_find_some in Hfind as (bl0 & Hbl0 & _ & _).
  apply bind_ok in H as (bl & Hbl & H). apply nth_res_ok in Hbl. rewrite Hbl0 in Hbl. apply Some_inj_s in Hbl. subst bl0.
  apply bind_ok in H as ([[bk2 bl2] post] & Hprim & H).
  assert (P : b_asset_tag bk2 = b_asset_tag bk1 /\ (same_id bl bl2 \/ bl2 = bal_empty)).
  { destruct all.
    - apply repay_all_id in Hprim as [-> ?]. auto.
    - apply bind_ok in Hprim as ([bk2' bl2'] & Hd & Hprim).
      apply Ok_inj in Hprim. inversion Hprim; subst. apply increase_balance_id in Hd as [? ?]. auto. }
  destruct P as [Ht2 Hslot].
  apply bind_ok in H as (w2 & Hx & H).
  pose proof (nth_acct_of _ _ _ Hac) as Ea.
  assert (X : hw_accts w2 = set_nth a {| ha_la := set_nth i bl2 (ha_la ac); ha_flags := ha_flags ac |} (hw_accts w)
              /\ htags w2 = htags w).
  { assert (T0 : htags (put_hacct (put_hbank w b (set_hb_b bk2 hb)) a
                         {| ha_la := set_nth i bl2 (ha_la ac); ha_flags := ha_flags ac |}) = htags w).
    { rewrite htags_put_hacct. eapply htags_put; [exact Hhb|]. cbn [set_hb_b hb_b]. congruence. }
    destruct (hw_risk_admin_signs w && get_flag (b_flags bk2) TOKENLESS_REPAYMENTS_ALLOWED && all).
    - apply Ok_inj in Hx. subst w2. split; [reflexivity | exact T0].
    - apply bind_ok in Hx as (pre & _ & Hx). apply xfer_in_frame in Hx as [Xa Xt]. split; [exact Xa | congruence]. }
  destruct X as [Xa T1].
  apply bind_ok in H as (hb2 & Hhb2 & H).
  apply bind_ok in H as (bk5 & Hubc & H). apply ubc_tag in Hubc.
  apply bind_ok in H as (ac2 & Hac2 & H). apply Ok_inj in H. subst w'.
  pose proof (nth_acct_set _ _ _ _ _ _ Ea Xa Hac2) as ->.
  match goal with |- Eff _ ?W => assert (HT : htags W = htags w) end.
  { rewrite htags_put_hacct, <- T1. eapply htags_put; [exact Hhb2|]. cbn [set_hb_b hb_b]. rewrite Hubc.
    destruct (get_flag _ _ && _); reflexivity. }
  eapply Eff_put; [exact HT | exact Ea | |].
  - rewrite accts_put_hacct, accts_put_hbank, Xa, set_nth_twice. reflexivity.
  - split; [|left; reflexivity]. intros Sa. cbn [sort_acct ha_la].
    eapply acct_touch; eauto.
Qed.

Lemma h_close_balance_struct w a b w' : h_close_balance w a b = Ok w' -> Eff w w'.
Proof.
  intros H. unfold h_close_balance in H.
  apply bind_ok in H as (hb & Hhb & H). apply bind_ok in H as (ac & Hac & H). cbv zeta in H.
  apply bind_ok in H as (u1 & _ & H). apply bind_ok in H as (u2 & _ & H).
  apply bind_ok in H as (bk1 & Hacc & H). apply accrue_tag in Hacc.
  apply bind_ok in H as (bk2 & Hubc & H). apply ubc_tag in Hubc.
  apply bind_ok in H as (i & Hfind & H). apply wrapper_find_some in Hfind as (bl0 & Hbl0 & _ & _).
  apply bind_ok in H as (bl & Hbl & H). apply nth_res_ok in Hbl. rewrite Hbl0 in Hbl. apply Some_inj_s in Hbl. subst bl0.
  apply bind_ok in H as ([bk3 bl3] & Hcl & H). apply close_balance_id in Hcl as [-> Ht3]. apply Ok_inj in H. subst w'.
  pose proof (nth_acct_of _ _ _ Hac) as Ea.
  match goal with |- Eff _ ?W => assert (HT : htags W = htags w) end.
  { rewrite htags_put_hacct. eapply htags_put; [exact Hhb|]. cbn [set_hb_b hb_b]. congruence. }
  eapply Eff_put; [exact HT | exact Ea | reflexivity |].
  split; [|left; reflexivity]. intros Sa. cbn [sort_acct ha_la]. eapply acct_touch; eauto.
Qed.

Lemma h_accrue_struct w b w' : h_accrue w b = Ok w' -> Eff w w'.
Proof.
  intros H. unfold h_accrue in H.
  apply bind_ok in H as (hb & Hhb & H).
  apply bind_ok in H as (bk1 & Hacc & H). apply accrue_tag in Hacc.
  apply bind_ok in H as (bk2 & Hubc & H). apply ubc_tag in Hubc. apply Ok_inj in H. subst w'.
  assert (HT : htags (put_hbank w b (set_hb_b bk2 hb)) = htags w).
  { eapply htags_put; [exact Hhb|]. cbn [set_hb_b hb_b]. congruence. }
  apply Eff_same; [exact HT | reflexivity].
Qed.

Lemma h_collect_fees_struct w b w' : h_collect_fees w b = Ok w' -> Eff w w'.
Proof.
  intros H. unfold h_collect_fees in H.
  apply bind_ok in H as (hb & Hhb & H). cbv zeta in H.
  apply bind_ok in H as (x1 & _ & H). apply bind_ok in H as (x2 & _ & H).
  apply bind_ok in H as (x3 & _ & H). apply bind_ok in H as (x4 & _ & H).
  apply bind_ok in H as (x5 & _ & H). apply bind_ok in H as (x6 & _ & H).
  apply bind_ok in H as (x7 & _ & H). apply bind_ok in H as (x8 & _ & H).
  apply bind_ok in H as (x9 & _ & H). apply bind_ok in H as (x10 & _ & H).
  apply bind_ok in H as (x11 & _ & H). apply bind_ok in H as (x12 & _ & H).
  apply bind_ok in H as (x13 & _ & H). apply bind_ok in H as (x14 & _ & H).
  apply bind_ok in H as (x15 & _ & H). apply bind_ok in H as (x16 & _ & H).
  apply bind_ok in H as (x17 & _ & H).
  apply Ok_inj in H. subst w'.
  match goal with |- Eff _ ?W => assert (HT : htags W = htags w) end.
  { eapply htags_put; [exact Hhb | reflexivity]. }
  apply Eff_same; [exact HT | reflexivity].
Qed.

Lemma updH T la i bl bl' : StructH T la -> nth_error la i = Some bl -> same_id bl bl' -> StructH T (set_nth i bl' la).
Proof.
  intros (S & N & D) Hn Hid. split; [eapply upd_struct; eauto|]. split; [eapply upd_nomix; eauto | eapply upd_desc; eauto].
Qed.

Lemma htags_put_t w b hb' t : nth_error (htags w) b = Some t -> b_asset_tag (hb_b hb') = t ->
  htags (put_hbank w b hb') = htags w.
Proof.
  unfold htags, put_hbank. cbn [hw_banks]. intros H E. rewrite nth_error_map in H.
  destruct (nth_error (hw_banks w) b) as [hb0|] eqn:E0; [|discriminate]. cbn in H. apply Some_inj_s in H.
  eapply (map_set_nth_same (fun hb => b_asset_tag (hb_b hb))); eauto. congruence.
Qed.

Lemma h_bankruptcy_struct w a b w' : h_bankruptcy w a b = Ok w' -> Eff w w'.
Proof.
  intros H. unfold h_bankruptcy in H.
  apply bind_ok in H as (hb & Hhb & H). apply bind_ok in H as (ac & Hac & H). cbv zeta in H.
  apply bind_ok in H as (u1 & _ & H). apply bind_ok in H as (u2 & _ & H).
  apply bind_ok in H as (ps & _ & H). apply bind_ok in H as (u3 & _ & H).
  apply bind_ok in H as (bk1 & Hacc & H). apply accrue_tag in Hacc.
  apply bind_ok in H as (i & Hi & H).
  destruct (find_active (bank_pk b) (ha_la ac)) as [j|] eqn:Ef; [|discriminate]. apply Ok_inj in Hi. subst j.
  apply find_active_some in Ef as (bl0 & Hbl0 & _ & _).
  apply bind_ok in H as (bl & Hbl & H). apply nth_res_ok in Hbl. rewrite Hbl0 in Hbl. apply Some_inj_s in Hbl. subst bl0.
  apply bind_ok in H as (bad & _ & H). apply bind_ok in H as (u4 & _ & H).
  apply bind_ok in H as (avail_n & _ & H). apply bind_ok in H as (d & _ & H).
  apply bind_ok in H as (ce & _ & H). apply bind_ok in H as (cov_n & _ & H).
  apply bind_ok in H as (pre & _ & H). apply bind_ok in H as (u5 & _ & H). apply bind_ok in H as (f & _ & H).
  apply bind_ok in H as ([bk2 kill] & Hsoc & H). apply socialize_tag in Hsoc.
  apply bind_ok in H as (i2 & _ & H).
  apply bind_ok in H as ([bk3 bl3] & Hinc & H). apply increase_balance_id in Hinc as [Hid Ht3].
  apply bind_ok in H as (bk4 & Hubc & H). apply ubc_tag in Hubc. apply Ok_inj in H. subst w'.
  pose proof (nth_acct_of _ _ _ Hac) as Ea.
  match goal with |- Eff _ ?W => assert (HT : htags W = htags w) end.
  { rewrite htags_put_hacct. eapply htags_put; [exact Hhb|]. cbn [set_hb_b hb_b].
    destruct kill; cbn [set_b_op_state b_asset_tag]; congruence. }
  eapply Eff_put; [exact HT | exact Ea | reflexivity |].
  split; [|right; reflexivity]. intros Sa. cbn [ha_la]. eapply updH; eauto.
Qed.

(* validate_asset_tags / validate_bank_asset_tags, spelled out *)
Lemma vat_spec bk la : validate_asset_tags bk la = Ok tt ->
  (is_default_like (b_asset_tag bk) = true -> ~ In ASSET_TAG_STAKED (atags la)) /\
  (b_asset_tag bk = ASSET_TAG_STAKED -> forall t, In t (atags la) -> is_default_like t = false).
Proof.
  unfold validate_asset_tags. intros H. apply bind_ok in H as (u & _ & H).
  rewrite (existsb_atags is_default_like), (existsb_atags (fun t => t =? ASSET_TAG_STAKED)) in H. split.
  - intros Hd Hin. assert (E : existsb (fun t => t =? ASSET_TAG_STAKED) (atags la) = true)
      by (apply existsb_exists; exists ASSET_TAG_STAKED; split; [exact Hin | apply Z.eqb_refl]).
    rewrite Hd, E in H. cbn [andb] in H. discriminate.
  - intros Hs t Ht. destruct (is_default_like t) eqn:Ed; [|reflexivity].
    assert (E : existsb is_default_like (atags la) = true) by (apply existsb_exists; exists t; auto).
    rewrite Hs, E, staked_not_default, Z.eqb_refl in H. cbn [andb] in H. discriminate.
Qed.
Lemma vbat_spec a b : validate_bank_asset_tags a b = Ok tt ->
  ~ (is_default_like (b_asset_tag a) = true /\ b_asset_tag b = ASSET_TAG_STAKED) /\
  ~ (b_asset_tag a = ASSET_TAG_STAKED /\ is_default_like (b_asset_tag b) = true).
Proof.
  unfold validate_bank_asset_tags. cbv zeta. intros H. split; intros [H1 H2].
  - rewrite H1, H2, Z.eqb_refl in H. cbn [andb orb] in H. discriminate.
  - rewrite H1, H2, Z.eqb_refl in H. cbn [andb orb] in H. rewrite orb_true_r in H. discriminate.
Qed.

Lemma nomix_two bkA bkL la la3 :
  validate_asset_tags bkA la = Ok tt -> validate_asset_tags bkL la = Ok tt ->
  validate_bank_asset_tags bkA bkL = Ok tt -> nomix la ->
  (forall x, In x (atags la3) -> x = b_asset_tag bkA \/ x = b_asset_tag bkL \/ In x (atags la)) -> nomix la3.
Proof.
  intros HA HL HB Hn Hin. apply vat_spec in HA as [A1 A2]. apply vat_spec in HL as [L1 L2].
  apply vbat_spec in HB as [B1 B2].
  intros (S & t & Ht & Hd). apply Hin in S. apply Hin in Ht.
  destruct S as [S|[S|S]]; destruct Ht as [Ht|[Ht|Ht]].
  - subst t. rewrite <- S, staked_not_default in Hd. discriminate.
  - subst t. apply B2. auto.
  - rewrite (A2 (eq_sym S) t Ht) in Hd. discriminate.
  - subst t. apply B1. auto.
  - subst t. rewrite <- S, staked_not_default in Hd. discriminate.
  - rewrite (L2 (eq_sym S) t Ht) in Hd. discriminate.
  - subst t. apply (A1 Hd S).
  - subst t. apply (L1 Hd S).
  - apply Hn. split; [exact S | exists t; auto].
Qed.

Lemma Forall2_set_nth_r {A} (R : A -> A -> Prop) l l' j y v :
  Forall2 R l l' -> nth_error l j = Some y -> R y v -> Forall2 R l (set_nth j v l').
Proof.
  intros H. revert j; induction H as [|a b l l' Hab Hl IH]; intros [|j] Hn Hv; cbn in *; try discriminate.
  - apply Some_inj_s in Hn. subst a. constructor; assumption.
  - constructor; [exact Hab | apply IH; assumption].
Qed.

Lemma h_liquidate_struct w liqor liqee ab lb n w' :
  h_liquidate w liqor liqee ab lb n = Ok w' -> Eff w w'.
Proof.
  intros H. unfold h_liquidate, h_liquidate_gen in H.
  apply bind_ok in H as (ha & Hha & H). apply bind_ok in H as (hl & Hhl & H).
  apply bind_ok in H as (u3 & _ & H).
  apply bind_ok in H as (u1 & _ & H). apply bind_ok in H as (u2 & _ & H).
  apply bind_ok in H as (ee & Hee & H). apply bind_ok in H as (er & Her & H).
  apply bind_ok in H as (u4 & _ & H).
  apply bind_ok in H as (u5 & Hvb & H). destruct u5.
  apply bind_ok in H as (u6 & _ & H). apply bind_ok in H as (u7 & _ & H).
  apply bind_ok in H as (u8 & _ & H).
  apply bind_ok in H as (u9 & Hvl & H). destruct u9.
  apply bind_ok in H as (u10 & Hva & H). destruct u10.
  apply bind_ok in H as (u10b & _ & H).
  apply bind_ok in H as (ba1 & Hacca & H). apply accrue_tag in Hacca.
  apply bind_ok in H as (bl1 & Haccl & H). apply accrue_tag in Haccl.
  cbv zeta in H.
  set (W1 := put_hacct (put_hbank (put_hbank w ab (set_hb_b ba1 ha)) lb (set_hb_b bl1 hl)) liqee (sort_acct ee)) in H.
  pose proof (nth_acct_of _ _ _ Hee) as Eee. pose proof (nth_acct_of _ _ _ Her) as Eer.
  pose proof (nth_bank_tag _ _ _ Hha) as Tha. pose proof (nth_bank_tag _ _ _ Hhl) as Thl.
  assert (T1 : htags W1 = htags w).
  { unfold W1. rewrite htags_put_hacct.
    assert (T0 : htags (put_hbank w ab (set_hb_b ba1 ha)) = htags w) by (eapply htags_put_t; [exact Tha | exact Hacca]).
    rewrite <- T0. eapply htags_put_t; [rewrite T0; exact Thl | exact Haccl]. }
  assert (A1 : hw_accts W1 = set_nth liqee (sort_acct ee) (hw_accts w)) by reflexivity.
  apply bind_ok in H as (u11 & _ & H). apply bind_ok in H as (ps & _ & H).
  apply bind_ok in H as ([[pre_health x1] x2] & _ & H).
  apply bind_ok in H as (u12 & _ & H). apply bind_ok in H as (ap & _ & H). apply bind_ok in H as (u13 & _ & H).
  apply bind_ok in H as (u14 & _ & H). apply bind_ok in H as (lp & _ & H). apply bind_ok in H as (u15 & _ & H).
  apply bind_ok in H as (fsum & _ & H). apply bind_ok in H as (final_d & _ & H). apply bind_ok in H as (liq_d & _ & H).
  apply bind_ok in H as (v1 & _ & H). apply bind_ok in H as (q_liq & _ & H).
  apply bind_ok in H as (v2 & _ & H). apply bind_ok in H as (q_fin & _ & H).
  apply bind_ok in H as (ins_fee & _ & H). apply bind_ok in H as (u16 & _ & H).
  (* 1. liquidator, liability bank *)
  apply bind_ok in H as (er0 & Her0 & H).
  pose proof (nth_acct_of _ _ _ Her0) as Eer0. rewrite A1 in Eer0.
  assert (Fer0 : ha_flags er0 = ha_flags er /\
                 (StructH (htags w) (ha_la er) -> StructH (htags w) (ha_la er0)) /\
                 (forall x, In x (atags (ha_la er0)) -> In x (atags (ha_la er)))).
  { destruct (Nat.eq_dec liqee liqor) as [->|Hne].
    - rewrite (nth_set_nth_same _ _ _ _ Eee) in Eer0. apply Some_inj_s in Eer0. subst er0.
      rewrite Eee in Eer. apply Some_inj_s in Eer. subst er. cbn [sort_acct ha_la ha_flags].
      split; [reflexivity|]. split; [intros (S & N & _); apply sortH; assumption|].
      intros x Hx. eapply Permutation_in; [|exact Hx]. apply Permutation_map, Permutation_filter_s, sort_perm.
    - rewrite (nth_set_nth_other _ _ _ _ Hne) in Eer0. rewrite Eer in Eer0. apply Some_inj_s in Eer0. subst er0. auto. }
  destruct Fer0 as (Fl0 & Ser0 & Ter0).
  apply bind_ok in H as ([i1 la1] & Hfoc1 & H).
  apply bind_ok in H as (b1 & Hb1 & H). apply nth_res_ok in Hb1.
  apply bind_ok in H as ([bl2 b1'] & Hdec1 & H). apply decrease_balance_id in Hdec1 as [Hid1 Htl2].
  (* 2. liquidatee, asset bank *)
  apply bind_ok in H as (i2 & _ & H).
  apply bind_ok in H as (b2 & Hb2 & H). apply nth_res_ok in Hb2.
  apply bind_ok in H as (pre_bal & _ & H). apply bind_ok in H as (u17 & _ & H).
  apply bind_ok in H as ([ba2 b2'] & Hdec2 & H). apply decrease_balance_id in Hdec2 as [Hid2 Hta2].
  (* 3. liquidator, asset bank *)
  apply bind_ok in H as ([i3 la3] & Hfoc3 & H). cbn [ha_la] in Hfoc3.
  apply bind_ok in H as (b3 & Hb3 & H). apply nth_res_ok in Hb3.
  apply bind_ok in H as ([ba3 b3'] & Hinc3 & H). apply increase_balance_id in Hinc3 as [Hid3 Hta3].
  apply bind_ok in H as (ins_n & _ & H).
  (* 4. liquidatee, liability bank *)
  apply bind_ok in H as (i4 & _ & H). cbn [ha_la] in H.
  apply bind_ok in H as (b4 & Hb4 & H). apply nth_res_ok in Hb4.
  apply bind_ok in H as ([bl3 b4'] & Hinc4 & H). apply increase_balance_id in Hinc4 as [Hid4 Htl3].
  apply bind_ok in H as (hl0 & Hhl0 & H). apply bind_ok in H as (u18 & _ & H).
  apply bind_ok in H as (f & _ & H). apply bind_ok in H as (ins' & _ & H).
  apply bind_ok in H as (ba4 & Hubca & H). apply ubc_tag in Hubca.
  apply bind_ok in H as (bl5 & Hubcl & H). apply ubc_tag in Hubcl. cbn [set_b_ins b_asset_tag] in Hubcl.
  apply bind_ok in H as (ha0 & Hha0 & H).
  apply bind_ok in H as (u19 & _ & H). apply bind_ok in H as (ps2 & _ & H). apply bind_ok in H as (u20 & _ & H).
  apply bind_ok in H as (u21 & _ & H). apply Ok_inj in H. subst w'.
  match goal with |- Eff w (put_hacct (put_hacct (put_hacct ?WB liqee ?EE3) liqor ?ER2) liqor ?ER3) =>
    set (Wb := WB); set (ee3 := EE3); set (er2 := ER2); set (er3 := ER3) end.
  (* the two resulting accounts *)
  assert (Rliqee : acct_rel (htags w) ee ee3).
  { split; [|left; reflexivity]. intros (S & N & _). unfold ee3. cbn [ha_la].
    assert (See1 : StructH (htags w) (ha_la (sort_acct ee))) by (apply sortH; assumption).
    eapply updH; [|exact Hb4 | exact Hid4]. eapply updH; [exact See1 | exact Hb2 | exact Hid2]. }
  assert (Rliqor : acct_rel (htags w) er er3).
  { split; [|left; unfold er3; cbn [sort_acct ha_flags]; exact Fl0]. intros Ser.
    destruct (Ser0 Ser) as (S0 & N0 & _). unfold er3. cbn [sort_acct ha_la].
    assert (S1 : StructB (htags w) la1).
    { eapply foc_struct; [exact Hfoc1 | reflexivity | | exact S0]. rewrite Haccl. exact Thl. }
    assert (S1' : StructB (htags w) (set_nth i1 b1' la1)) by (eapply upd_struct; eauto).
    assert (S3 : StructB (htags w) la3).
    { eapply foc_struct; [exact Hfoc3 | reflexivity | | exact S1']. rewrite Hta2, Hacca. exact Tha. }
    assert (N3 : nomix la3).
    { destruct Ser as (_ & Ner & _).
      eapply (nomix_two (hb_b ha) (hb_b hl)); [exact Hva | exact Hvl | exact Hvb | exact Ner|].
      intros x Hx. eapply foc_tags in Hx; [|exact Hfoc3]. destruct Hx as [Hx|Hx]; [left; congruence|].
      destruct (upd_views la1 i1 b1 b1' Hb1 Hid1) as (_ & V & _). rewrite V in Hx.
      eapply foc_tags in Hx; [|exact Hfoc1]. destruct Hx as [Hx|Hx]; [right; left; congruence | right; right; auto]. }
    apply sortH; [eapply upd_struct; eauto | eapply upd_nomix; eauto]. }
  (* the world *)
  assert (Tb : htags Wb = htags w).
  { unfold Wb.
    assert (T0 : htags (put_hbank W1 ab (set_hb_b ba4 ha0)) = htags W1).
    { eapply htags_put_t; [rewrite T1; exact Tha|]. cbn [set_hb_b hb_b]. congruence. }
    transitivity (htags (put_hbank W1 ab (set_hb_b ba4 ha0))); [|rewrite T0; exact T1].
    eapply htags_put_t; [rewrite T0, T1; exact Thl|].
    cbn [set_hb_insv set_hb_vault set_hb_b hb_b]. congruence. }
  split; [rewrite !htags_put_hacct; exact Tb|].
  rewrite !accts_put_hacct. unfold Wb. rewrite !accts_put_hbank, A1, !set_nth_twice.
  eapply Forall2_set_nth_r; [|exact Eer | exact Rliqor].
  eapply Forall2_set_nth_s; [apply acct_rel_refl | exact Eee | exact Rliqee].
Qed.

Lemma hstep_eff w o w' : hstep w o = Ok w' -> Eff w w'.
Proof.
  intros H. destruct o; cbn [hstep] in H.
  - apply Ok_inj in H. subst w'. apply Eff_same; reflexivity.
  - eapply h_deposit_struct; eauto.
  - eapply h_withdraw_struct; eauto.
  - eapply h_borrow_struct; eauto.
  - eapply h_repay_struct; eauto.
  - eapply h_close_balance_struct; eauto.
  - eapply h_accrue_struct; eauto.
  - eapply h_collect_fees_struct; eauto.
  - eapply h_liquidate_struct; eauto.
  - eapply h_bankruptcy_struct; eauto.
  - apply bind_ok in H as (hb & Hhb & H). apply Ok_inj in H. subst w'.
    apply Eff_same; [|reflexivity]. eapply htags_put; [exact Hhb | reflexivity].
Qed.

Lemma hstep_struct w o w' : WH w -> hstep w o = Ok w' -> WH w' /\ htags w' = htags w.
Proof. intros Hw H. apply (hstep_eff w o w') in H. split; [eapply Eff_WH; eauto | apply H]. Qed.

Lemma hrun_eff ops : forall w, Eff w (hrun w ops).
Proof.
  induction ops as [|o ops IH]; intros w; cbn [hrun fold_left]; [apply Eff_same; reflexivity|].
  change (fold_left hstep_total ops (hstep_total w o)) with (hrun (hstep_total w o) ops).
  unfold hstep_total. destruct (hstep w o) as [w'|e] eqn:E; [|apply IH].
  eapply Eff_trans; [eapply hstep_eff; exact E | apply IH].
Qed.

Lemma hrun_struct ops w : WH w -> WH (hrun w ops) /\ htags (hrun w ops) = htags w.
Proof. intros Hw. pose proof (hrun_eff ops w) as H. split; [eapply Eff_WH; eauto | apply H]. Qed.

(* once disabled, always disabled *)
Lemma lor_disabled f : Z.land (Z.lor f ACCOUNT_DISABLED) ACCOUNT_DISABLED = ACCOUNT_DISABLED.
Proof.
  unfold ACCOUNT_DISABLED. rewrite Z.land_lor_distr_l. change (Z.land 1 1) with 1.
  change 1 with (Z.ones 1) at 1. rewrite Z.land_ones by lia. change (2 ^ 1) with 2.
  pose proof (Z.mod_pos_bound f 2 ltac:(lia)) as B.
  assert (C : f mod 2 = 0 \/ f mod 2 = 1) by lia. destruct C as [-> | ->]; reflexivity.
Qed.

Lemma flag_rel_disabled ac ac' : flag_rel ac ac' -> aflag ac ACCOUNT_DISABLED = true -> aflag ac' ACCOUNT_DISABLED = true.
Proof.
  unfold flag_rel, aflag. intros [-> | ->] H; [exact H|]. rewrite lor_disabled. apply Z.eqb_refl.
Qed.

Lemma Eff_disabled w w' a ac : Eff w w' -> nth_error (hw_accts w) a = Some ac -> aflag ac ACCOUNT_DISABLED = true ->
  exists ac', nth_error (hw_accts w') a = Some ac' /\ aflag ac' ACCOUNT_DISABLED = true.
Proof.
  intros [_ F]. revert a. induction F as [|x y l l' [_ Hf] _ IH]; intros [|a] Hn Hd; cbn in *; try discriminate.
  - apply Some_inj_s in Hn. subst x. exists y. split; [reflexivity | eapply flag_rel_disabled; eauto].
  - apply IH; assumption.
Qed.

Lemma hrun_disabled ops w a ac : nth_error (hw_accts w) a = Some ac -> aflag ac ACCOUNT_DISABLED = true ->
  exists ac', nth_error (hw_accts (hrun w ops)) a = Some ac' /\ aflag ac' ACCOUNT_DISABLED = true.
Proof. intros. eapply Eff_disabled; eauto. apply hrun_eff. Qed.

(* a disabled account can no longer deposit, withdraw, borrow, repay (or close a balance) *)
Lemma disabled_deposit w a b n u ac : nth_acct w a = Ok ac -> aflag ac ACCOUNT_DISABLED = true ->
  exists e, h_deposit w a b n u = Err e.
Proof.
  intros Hac Hd. destruct (h_deposit w a b n u) as [w'|e] eqn:H; [exfalso | eexists; reflexivity].
  unfold h_deposit in H. apply bind_ok in H as (hb & _ & H). apply bind_ok in H as (ac0 & Hac0 & H). cbv zeta in H.
  rewrite Hac in Hac0. apply Ok_inj in Hac0. subst ac0.
  apply bind_ok in H as (u1 & _ & H). apply bind_ok in H as (u2 & _ & H). apply bind_ok in H as (u3 & _ & H).
  apply bind_ok in H as (u4 & _ & H). apply bind_ok in H as (u5 & Hc & H). apply check_ok in Hc.
  rewrite Hd in Hc. discriminate.
Qed.
Lemma disabled_withdraw w a b n all ac : nth_acct w a = Ok ac -> aflag ac ACCOUNT_DISABLED = true ->
  exists e, h_withdraw w a b n all = Err e.
Proof.
  intros Hac Hd. destruct (h_withdraw w a b n all) as [w'|e] eqn:H; [exfalso | eexists; reflexivity].
  unfold h_withdraw in H. apply bind_ok in H as (hb & _ & H). apply bind_ok in H as (ac0 & Hac0 & H). cbv zeta in H.
  rewrite Hac in Hac0. apply Ok_inj in Hac0. subst ac0.
  apply bind_ok in H as (u1 & _ & H). apply bind_ok in H as (u2 & Hc & H). apply check_ok in Hc.
  rewrite Hd in Hc. discriminate.
Qed.
Lemma disabled_borrow w a b n ac : nth_acct w a = Ok ac -> aflag ac ACCOUNT_DISABLED = true ->
  exists e, h_borrow w a b n = Err e.
Proof.
  intros Hac Hd. destruct (h_borrow w a b n) as [w'|e] eqn:H; [exfalso | eexists; reflexivity].
  unfold h_borrow in H. apply bind_ok in H as (hb & _ & H). apply bind_ok in H as (ac0 & Hac0 & H). cbv zeta in H.
  rewrite Hac in Hac0. apply Ok_inj in Hac0. subst ac0.
  apply bind_ok in H as (u1 & _ & H). apply bind_ok in H as (u2 & _ & H). apply bind_ok in H as (u3 & Hc & H).
  apply check_ok in Hc. rewrite Hd in Hc. discriminate.
Qed.
Lemma disabled_repay w a b n all ac : nth_acct w a = Ok ac -> aflag ac ACCOUNT_DISABLED = true ->
  exists e, h_repay w a b n all = Err e.
Proof.
  intros Hac Hd. destruct (h_repay w a b n all) as [w'|e] eqn:H; [exfalso | eexists; reflexivity].
  unfold h_repay in H. apply bind_ok in H as (hb & _ & H). apply bind_ok in H as (ac0 & Hac0 & H). cbv zeta in H.
  rewrite Hac in Hac0. apply Ok_inj in Hac0. subst ac0.
  apply bind_ok in H as (u1 & _ & H). apply bind_ok in H as (u2 & Hc & H). apply check_ok in Hc.
  rewrite Hd in Hc. discriminate.
Qed.
Lemma disabled_close_balance w a b ac : nth_acct w a = Ok ac -> aflag ac ACCOUNT_DISABLED = true ->
  exists e, h_close_balance w a b = Err e.
Proof.
  intros Hac Hd. destruct (h_close_balance w a b) as [w'|e] eqn:H; [exfalso | eexists; reflexivity].
  unfold h_close_balance in H. apply bind_ok in H as (hb & _ & H). apply bind_ok in H as (ac0 & Hac0 & H). cbv zeta in H.
  rewrite Hac in Hac0. apply Ok_inj in Hac0. subst ac0.
  apply bind_ok in H as (u1 & _ & H). apply bind_ok in H as (u2 & Hc & H). apply check_ok in Hc.
  rewrite Hd in Hc. discriminate.
Qed.

(* bankruptcy disables the account *)
Lemma bankruptcy_disables w a b w' : h_bankruptcy w a b = Ok w' ->
  exists ac', nth_acct w' a = Ok ac' /\ aflag ac' ACCOUNT_DISABLED = true.
Proof.
  intros H. unfold h_bankruptcy in H.
  apply bind_ok in H as (hb & Hhb & H). apply bind_ok in H as (ac & Hac & H). cbv zeta in H.
  apply bind_ok in H as (u1 & _ & H). apply bind_ok in H as (u2 & _ & H).
  apply bind_ok in H as (ps & _ & H). apply bind_ok in H as (u3 & _ & H).
  apply bind_ok in H as (bk1 & _ & H). apply bind_ok in H as (i & _ & H).
  apply bind_ok in H as (bl & _ & H).
  apply bind_ok in H as (bad & _ & H). apply bind_ok in H as (u4 & _ & H).
  apply bind_ok in H as (avail_n & _ & H). apply bind_ok in H as (d & _ & H).
  apply bind_ok in H as (ce & _ & H). apply bind_ok in H as (cov_n & _ & H).
  apply bind_ok in H as (pre & _ & H). apply bind_ok in H as (u5 & _ & H). apply bind_ok in H as (f & _ & H).
  apply bind_ok in H as ([bk2 kill] & _ & H). apply bind_ok in H as (i2 & _ & H).
  apply bind_ok in H as ([bk3 bl3] & _ & H). apply bind_ok in H as (bk4 & _ & H). apply Ok_inj in H. subst w'.
  eexists. split.
  - unfold nth_acct. rewrite accts_put_hacct, accts_put_hbank. unfold nth_res.
    rewrite (nth_set_nth_same _ _ _ _ (nth_acct_of _ _ _ Hac)). reflexivity.
  - unfold aflag. cbn [ha_flags]. rewrite lor_disabled. apply Z.eqb_refl.
Qed.

(* ------------------------------------------------------------------------------------------ *)
(* what the structure says, spelled out on the slots *)
Lemma in_akeys la k : In k (akeys la) <-> exists bl, In bl la /\ bl_active bl = true /\ bl_bank bl = k.
Proof.
  unfold akeys. rewrite in_map_iff. split.
  - intros (bl & Hb & Hf). apply filter_In in Hf as [? ?]. exists bl. auto.
  - intros (bl & Hi & Ha & Hb). exists bl. split; [exact Hb | apply filter_In; auto].
Qed.

(* two different positions of the slot array never hold active slots of the same bank *)
Lemma nodup_slots la i j bi bj : NoDup (akeys la) -> nth_error la i = Some bi -> nth_error la j = Some bj ->
  bl_active bi = true -> bl_active bj = true -> bl_bank bi = bl_bank bj -> i = j.
Proof.
  revert i j. induction la as [|x r IH]; intros [|i] [|j] Hnd Hi Hj Ai Aj Hk; cbn [nth_error] in *; try discriminate; auto.
  - apply Some_inj_s in Hi. subst x. rewrite akeys_cons, Ai in Hnd. cbn [app] in Hnd. inversion Hnd; subst.
    exfalso. apply H1. apply in_akeys. exists bj. split; [eapply nth_error_In; eauto | auto].
  - apply Some_inj_s in Hj. subst x. rewrite akeys_cons, Aj in Hnd. cbn [app] in Hnd. inversion Hnd; subst.
    exfalso. apply H1. apply in_akeys. exists bi. split; [eapply nth_error_In; eauto | auto].
  - f_equal. apply (IH i j); auto. rewrite akeys_cons in Hnd. destruct (bl_active x); cbn [app] in Hnd; [inversion Hnd; auto | exact Hnd].
Qed.

(* sorted + slot_ok: active slots form a prefix, in strictly descending key order *)
Lemma desc_prefix T la i j bi bj : Forall (slot_ok T) la -> desc la -> (i < j)%nat ->
  nth_error la i = Some bi -> nth_error la j = Some bj -> bl_active bj = true ->
  bl_active bi = true /\ bl_bank bj <= bl_bank bi.
Proof.
  intros Hs Hd Hij Hi Hj Aj. unfold desc in Hd. apply Sorted_StronglySorted in Hd; [|intros x y z; lia].
  assert (Hle : bl_bank bj <= bl_bank bi).
  { clear Hs Aj. revert i j Hij Hi Hj. induction la as [|x r IH]; intros [|i] [|j] Hij Hi Hj; cbn in *; try discriminate; try lia.
    - apply Some_inj_s in Hi. subst x. inversion Hd; subst. rewrite Forall_forall in H2.
      assert (Z.ge (bl_bank bi) (bl_bank bj)); [|lia]. apply H2. apply in_map. eapply nth_error_In; eauto.
    - inversion Hd; subst. apply (IH H1 i j); auto. lia. }
  split; [|exact Hle].
  pose proof (Forall_nth_s _ _ _ _ Hs Hj) as Sj. pose proof (Forall_nth_s _ _ _ _ Hs Hi) as Si.
  unfold slot_ok in *. rewrite Aj in Sj. destruct Sj as (n & Hn & _). unfold bank_pk in Hn.
  destruct (bl_active bi); [reflexivity|]. lia.
Qed.

Lemma desc_repeat n : desc (repeat bal_empty n).
Proof.
  unfold desc. induction n as [|n IH]; cbn [repeat map]; constructor; [exact IH|].
  destruct n; cbn [repeat map]; constructor. cbn. lia.
Qed.

Lemma WH_init banks n now pf utok ras :
  WH (mkHW banks (repeat (mkHA la_empty 0) n) now pf utok ras).
Proof.
  unfold WH. cbn [hw_accts]. apply Forall_forall. intros x Hx. apply repeat_spec in Hx. subst x. cbn [ha_la].
  split; [apply StructB_empty|]. split.
  - intros (S & _). cbn in S. exact S.
  - apply desc_repeat.
Qed.
Lemma WB_init banks n now pf : WB (mkBW banks (repeat la_empty n) now pf).
Proof.
  unfold WB. cbn [bw_accts]. apply Forall_forall. intros x Hx. apply repeat_spec in Hx. subst x. apply StructB_empty.
Qed.

(* ------------------------------------------------------------------------------------------ *)
(* (6) one side per position: what increase / decrease guarantee *)
Lemma resid_bound x sv : 0 <= x -> 0 < sv ->
  0 <= x * sv / ONE * ONE / sv <= x /\ (x - x * sv / ONE * ONE / sv) * sv < ONE + sv.
Proof.
  intros Hx Hs. pose proof ONE_pos as HO.
  set (p := x * sv). set (cur := p / ONE). set (c1 := cur * ONE). set (q := c1 / sv).
  assert (Hp : 0 <= p) by (unfold p; apply Z.mul_nonneg_nonneg; lia).
  pose proof (Z.div_mod p ONE ltac:(lia)) as D1. pose proof (Z.mod_pos_bound p ONE HO) as M1. fold cur in D1.
  assert (Hc : 0 <= cur) by (unfold cur; apply Z.div_pos; lia).
  assert (Hc1 : 0 <= c1) by (unfold c1; apply Z.mul_nonneg_nonneg; lia).
  pose proof (Z.div_mod c1 sv ltac:(lia)) as D2. pose proof (Z.mod_pos_bound c1 sv Hs) as M2. fold q in D2.
  assert (Hq0 : 0 <= q) by (unfold q; apply Z.div_pos; lia).
  assert (Ec1 : c1 = cur * ONE) by reflexivity.
  assert (Hqs : sv * q <= x * sv) by (fold p; lia).
  assert (Hqx : q <= x) by (apply (Z.mul_le_mono_pos_l q x sv Hs); lia).
  split; [lia|]. fold p. replace ((x - q) * sv) with (p - sv * q) by (unfold p; ring). lia.
Qed.

Lemma ashares_nonneg b amt : 0 <= amt -> 0 <= b_asv b -> 0 <= ashares b amt.
Proof.
  intros Ha Hs. unfold ashares. destruct (b_asv b =? 0) eqn:E; [lia|].
  apply Z.div_pos; [apply Z.mul_nonneg_nonneg; [lia | pose proof ONE_pos; lia] | lia].
Qed.
Lemma ashares_zero b : ashares b 0 = 0.
Proof. unfold ashares. destruct (b_asv b =? 0); reflexivity. Qed.

(* increase: either the asset side is untouched and the debt shrinks, or the debt is repaid down to
   a residual r with r * lsv < 1 + lsv (raw bits) and the asset side grows *)
Lemma inc_shape b bl now d t b' bl' : wf_sv b -> wf_bal bl -> 0 <= d ->
  increase_balance b bl now d t = Ok (b', bl') ->
  b_asv b' = b_asv b /\ b_lsv b' = b_lsv b /\ 0 <= bl_l bl' <= bl_l bl /\ bl_a bl <= bl_a bl' /\
  (bl_a bl' = bl_a bl \/ bl_l bl' * b_lsv b < ONE + b_lsv b).
Proof.
  intros Hsv Hbl Hd H. pose proof (increase_balance_inv _ _ _ _ _ _ _ Hsv Hbl Hd H) as F.
  destruct Hsv as [Ha Hl]. destruct Hbl as [Hba Hbll]. destruct F as [Fa Fl _ _ [Sa Sl] _ _ _ _ _].
  pose proof ONE_pos as HO.
  unfold inc_a_inc in Fa. unfold inc_l_dec, lshares in Fl.
  set (cur := bl_l bl * b_lsv b / ONE) in *.
  assert (Hcur : 0 <= cur) by (unfold cur; apply Z.div_pos; [apply Z.mul_nonneg_nonneg; lia | lia]).
  destruct (resid_bound (bl_l bl) (b_lsv b) Hbll Hl) as [[R0 R1] R2]. fold cur in R0, R1, R2.
  split; [exact Sa|]. split; [exact Sl|].
  destruct (Z_le_gt_dec d cur) as [Hle|Hgt].
  - replace (Z.max (d - cur) 0) with 0 in Fa by lia. rewrite ashares_zero in Fa.
    replace (Z.min cur d) with d in Fl by lia.
    assert (0 <= d * ONE / b_lsv b <= cur * ONE / b_lsv b).
    { split; [apply Z.div_pos; [apply Z.mul_nonneg_nonneg; lia | lia]|]. apply Z.div_le_mono; [lia|].
      apply Z.mul_le_mono_nonneg_r; lia. }
    split; [lia|]. split; [lia|]. left. lia.
  - replace (Z.min cur d) with cur in Fl by lia.
    pose proof (ashares_nonneg b (Z.max (d - cur) 0) ltac:(lia) Ha).
    split; [lia|]. split; [lia|]. right. rewrite Fl. exact R2.
Qed.

Lemma dec_shape b bl now d t b' bl' : wf_sv b -> wf_bal bl -> 0 <= d ->
  decrease_balance b bl now d t = Ok (b', bl') ->
  b_asv b' = b_asv b /\ b_lsv b' = b_lsv b /\ 0 <= bl_a bl' <= bl_a bl /\ bl_l bl <= bl_l bl' /\
  (bl_l bl' = bl_l bl \/ bl_a bl' * b_asv b < ONE + b_asv b).
Proof.
  intros Hsv Hbl Hd H. pose proof (decrease_balance_inv _ _ _ _ _ _ _ Hsv Hbl Hd H) as F.
  destruct Hsv as [Ha Hl]. destruct Hbl as [Hba Hbll]. destruct F as [Fa Fl _ _ [Sa Sl] _ _ _ _ _].
  pose proof ONE_pos as HO.
  unfold dec_a_dec in Fa. unfold dec_l_inc, lshares in Fl.
  set (cur := bl_a bl * b_asv b / ONE) in *.
  assert (Hcur : 0 <= cur) by (unfold cur; apply Z.div_pos; [apply Z.mul_nonneg_nonneg; lia | lia]).
  split; [exact Sa|]. split; [exact Sl|].
  assert (Hli : 0 <= Z.max (d - cur) 0 * ONE / b_lsv b)
    by (apply Z.div_pos; [apply Z.mul_nonneg_nonneg; lia | lia]).
  destruct (Z.eq_dec (b_asv b) 0) as [E0|Hne].
  - unfold ashares in Fa. rewrite E0 in Fa. cbn in Fa. rewrite E0.
    split; [lia|]. split; [lia|]. right. lia.
  - assert (Ha' : 0 < b_asv b) by lia.
    destruct (resid_bound (bl_a bl) (b_asv b) Hba Ha') as [[R0 R1] R2]. fold cur in R0, R1, R2.
    unfold ashares in Fa. replace (b_asv b =? 0) with false in Fa by lia.
    destruct (Z_le_gt_dec d cur) as [Hle|Hgt].
    + replace (Z.min cur d) with d in Fa by lia. replace (Z.max (d - cur) 0) with 0 in Fl by lia.
      cbn in Fl.
      assert (0 <= d * ONE / b_asv b <= cur * ONE / b_asv b).
      { split; [apply Z.div_pos; [apply Z.mul_nonneg_nonneg; lia | lia]|]. apply Z.div_le_mono; [lia|].
        apply Z.mul_le_mono_nonneg_r; lia. }
      split; [lia|]. split; [lia|]. left. lia.
    + replace (Z.min cur d) with cur in Fa by lia.
      split; [lia|]. split; [lia|]. right. rewrite Fa. exact R2.
Qed.

(* one position under an arbitrary sequence of wrapper operations; the bank (share values, totals,
   limits ...) may be any bank at each step: interest accrual and other users act in between *)
Inductive slot_op :=
| SInc (d : fx) (t : inc_type) | SDec (d : fx) (t : dec_type)
| SWithdrawAll | SRepayAll | SClose | SClaim.

Definition slot_step (b : bank) (bl : balance) (now : Z) (o : slot_op) : res balance :=
  match o with
  | SInc d t => let* r := increase_balance b bl now d t in Ok (snd r)
  | SDec d t => let* r := decrease_balance b bl now d t in Ok (snd r)
  | SWithdrawAll => let* r := withdraw_all b bl now in Ok (snd (fst r))
  | SRepayAll => let* r := repay_all b bl now in Ok (snd (fst r))
  | SClose => let* r := close_balance b bl now in Ok (snd r)
  | SClaim => let* r := claim_emissions b bl now in Ok (snd r)
  end.

Fixpoint slot_run (bl : balance) (l : list (slot_op * bank * Z)) : res balance :=
  match l with
  | [] => Ok bl
  | (o, b, now) :: r => let* bl' := slot_step b bl now o in slot_run bl' r
  end.

Definition slot_op_ok (o : slot_op) : Prop := match o with SInc d _ | SDec d _ => 0 <= d | _ => True end.

(* at most k share-ulps on one of the two sides *)
Definition dust_sh (k : Z) (bl : balance) : Prop := bl_a bl <= k \/ bl_l bl <= k.

Lemma resid_shares r sv m : 0 < m <= sv -> 0 <= r -> r * sv < ONE + sv -> r <= ONE / m + 1.
Proof.
  intros Hm Hr H. pose proof ONE_pos as HO.
  assert (0 <= ONE / m) by (apply Z.div_pos; lia).
  destruct (Z_le_gt_dec r 1) as [Hle|Hgt]; [lia|].
  assert (r - 1 <= ONE / m); [|lia]. apply Z.div_le_lower_bound; [lia|].
  assert (m * (r - 1) <= sv * (r - 1)) by (apply Z.mul_le_mono_nonneg_r; lia). lia.
Qed.

Lemma slot_step_dust m b bl now o bl' : 0 < m -> m <= b_asv b -> m <= b_lsv b -> slot_op_ok o ->
  wf_bal bl -> dust_sh (ONE / m + 1) bl -> slot_step b bl now o = Ok bl' ->
  wf_bal bl' /\ dust_sh (ONE / m + 1) bl'.
Proof.
  intros Hm Ha Hl Hok Hwf Hd H. pose proof ONE_pos as HO.
  assert (Hk : 0 <= ONE / m + 1) by (assert (0 <= ONE / m) by (apply Z.div_pos; lia); lia).
  assert (Hsv : wf_sv b) by (unfold wf_sv; lia).
  assert (He : wf_bal bal_empty /\ dust_sh (ONE / m + 1) bal_empty) by (unfold wf_bal, dust_sh; cbn [bal_empty bl_a bl_l]; lia).
  destruct o; cbn [slot_step slot_op_ok] in *; apply bind_ok in H as (r & Hr & H); apply Ok_inj in H; subst bl'.
  - destruct r as [b' bl']. cbn [snd]. apply inc_shape in Hr as (_ & _ & L & A & C); try assumption.
    destruct Hwf as [W1 W2]. split; [unfold wf_bal; lia|]. unfold dust_sh in *.
    destruct C as [C|C]; [lia|]. right. apply (resid_shares _ (b_lsv b)); lia.
  - destruct r as [b' bl']. cbn [snd]. apply dec_shape in Hr as (_ & _ & A & L & C); try assumption.
    destruct Hwf as [W1 W2]. split; [unfold wf_bal; lia|]. unfold dust_sh in *.
    destruct C as [C|C]; [lia|]. left. apply (resid_shares _ (b_asv b)); lia.
  - destruct r as [[b' bl'] n]. cbn [fst snd]. apply withdraw_all_id in Hr as [-> _]. exact He.
  - destruct r as [[b' bl'] n]. cbn [fst snd]. apply repay_all_id in Hr as [-> _]. exact He.
  - destruct r as [b' bl']. cbn [snd]. apply close_balance_id in Hr as [-> _]. exact He.
  - destruct r as [b' bl']. cbn [snd]. apply claim_emissions_core in Hr as [_ (_ & _ & _ & E1 & E2)].
    unfold wf_bal, dust_sh in *. rewrite E1, E2. auto.
Qed.

Definition sv_ge (m : Z) (x : slot_op * bank * Z) : Prop :=
  m <= b_asv (snd (fst x)) /\ m <= b_lsv (snd (fst x)) /\ slot_op_ok (fst (fst x)).

Lemma slot_run_dust m l : 0 < m -> Forall (sv_ge m) l -> forall bl bl',
  wf_bal bl -> dust_sh (ONE / m + 1) bl -> slot_run bl l = Ok bl' -> wf_bal bl' /\ dust_sh (ONE / m + 1) bl'.
Proof.
  intros Hm. induction 1 as [|[[o b] now] l (Ha & Hl & Hok) _ IH]; intros bl bl' Hwf Hd H; cbn [slot_run] in H.
  - apply Ok_inj in H. subst. auto.
  - apply bind_ok in H as (bl1 & H1 & H). cbn [fst snd] in *.
    destruct (slot_step_dust m b bl now o bl1 Hm Ha Hl Hok Hwf Hd H1) as [W D]. eapply IH; eauto.
Qed.

(* dust in shares is dust in value while the share value stays below 10^6 *)
Lemma dust_value x sv : 0 <= x <= 2 -> 0 <= sv <= 2 ^ 48 * 10 ^ 6 -> x * sv / ONE < ZERO_AMOUNT_THRESHOLD.
Proof.
  intros Hx Hs. pose proof ONE_pos as HO. apply Z.div_lt_upper_bound; [lia|].
  assert (x * sv <= 2 * sv) by (apply Z.mul_le_mono_nonneg_r; lia).
  rewrite ONE_val in *. change ZERO_AMOUNT_THRESHOLD with 28147497671. lia.
Qed.

(* value form of one step, for any positive share value up to 10^6 *)
Definition one_sided (b : bank) (bl : balance) : Prop :=
  bl_a bl * b_asv b / ONE <= ZERO_AMOUNT_THRESHOLD \/ bl_l bl * b_lsv b / ONE <= ZERO_AMOUNT_THRESHOLD.

Lemma resid_value r sv : 0 <= r -> 0 <= sv <= 2 ^ 48 * 10 ^ 6 -> r * sv < ONE + sv -> r * sv / ONE <= ZERO_AMOUNT_THRESHOLD.
Proof.
  intros Hr Hs H. pose proof ONE_pos as HO.
  assert (r * sv / ONE < 10 ^ 6 + 2); [|change ZERO_AMOUNT_THRESHOLD with 28147497671; lia].
  apply Z.div_lt_upper_bound; [lia|]. rewrite ONE_val in *. lia.
Qed.

Lemma inc_one_sided b bl now d t b' bl' : wf_sv b -> wf_bal bl -> 0 <= d -> b_lsv b <= 2 ^ 48 * 10 ^ 6 ->
  increase_balance b bl now d t = Ok (b', bl') -> one_sided b bl -> one_sided b' bl'.
Proof.
  intros Hsv Hwf Hd Hb H Hos. pose proof ONE_pos as HO.
  apply inc_shape in H as (Ea & El & L & A & C); try assumption.
  destruct Hsv as [Ha Hl]. destruct Hwf as [W1 W2]. unfold one_sided in *. rewrite Ea, El.
  destruct C as [C|C].
  - rewrite C. destruct Hos as [Hos|Hos]; [left; exact Hos|]. right.
    assert (bl_l bl' * b_lsv b / ONE <= bl_l bl * b_lsv b / ONE); [|lia].
    apply Z.div_le_mono; [lia|]. apply Z.mul_le_mono_nonneg_r; lia.
  - right. apply resid_value; lia.
Qed.

Lemma dec_one_sided b bl now d t b' bl' : wf_sv b -> wf_bal bl -> 0 <= d -> b_asv b <= 2 ^ 48 * 10 ^ 6 ->
  decrease_balance b bl now d t = Ok (b', bl') -> one_sided b bl -> one_sided b' bl'.
Proof.
  intros Hsv Hwf Hd Hb H Hos. pose proof ONE_pos as HO.
  apply dec_shape in H as (Ea & El & A & L & C); try assumption.
  destruct Hsv as [Ha Hl]. destruct Hwf as [W1 W2]. unfold one_sided in *. rewrite Ea, El.
  destruct C as [C|C].
  - rewrite C. destruct Hos as [Hos|Hos]; [|right; exact Hos]. left.
    assert (bl_a bl' * b_asv b / ONE <= bl_a bl * b_asv b / ONE); [|lia].
    apply Z.div_le_mono; [lia|]. apply Z.mul_le_mono_nonneg_r; lia.
  - left. apply resid_value; lia.
Qed.

(* all histories of one position, banks with share values in [1, 10^6]: never a non-dust deposit
   together with a non-dust debt *)
Definition sv_range (x : slot_op * bank * Z) : Prop :=
  2 ^ 48 <= b_asv (snd (fst x)) /\ 2 ^ 48 <= b_lsv (snd (fst x)) /\ slot_op_ok (fst (fst x)).

Lemma slot_run_one_sided l bl bl' b :
  Forall sv_range l -> wf_bal bl -> dust_sh 2 bl -> slot_run bl l = Ok bl' ->
  0 <= b_asv b <= 2 ^ 48 * 10 ^ 6 -> 0 <= b_lsv b <= 2 ^ 48 * 10 ^ 6 ->
  ~ (ZERO_AMOUNT_THRESHOLD <= bl_a bl' * b_asv b / ONE /\ ZERO_AMOUNT_THRESHOLD <= bl_l bl' * b_lsv b / ONE).
Proof.
  intros Hl Hwf Hd H Ha Hls.
  assert (E : ONE / ONE + 1 = 2) by (rewrite Z.div_same; [reflexivity | rewrite ONE_val; lia]).
  assert (Hl' : Forall (sv_ge ONE) l).
  { eapply Forall_impl; [|exact Hl]. intros x (A & B & C). unfold sv_ge. change ONE with (2 ^ 48). auto. }
  pose proof (slot_run_dust ONE l ONE_pos Hl' bl bl' Hwf) as R. rewrite E in R.
  destruct (R Hd H) as [[W1 W2] D]. intros [X Y]. destruct D as [D|D].
  - pose proof (dust_value (bl_a bl') (b_asv b) ltac:(lia) Ha). lia.
  - pose proof (dust_value (bl_l bl') (b_lsv b) ltac:(lia) Hls). lia.
Qed.

(* ------------------------------------------------------------------------------------------ *)
(* the invariants spelled out on slots *)
Lemma in_atags la t : In t (atags la) <-> exists bl, In bl la /\ bl_active bl = true /\ bl_tag bl = t.
Proof.
  unfold atags. rewrite in_map_iff. split.
  - intros (bl & Hb & Hf). apply filter_In in Hf as [? ?]. exists bl. auto.
  - intros (bl & Hi & Ha & Hb). exists bl. split; [exact Hb | apply filter_In; auto].
Qed.

Definition structB_spelled (T : list Z) (la : laccount) : Prop :=
  length la = 16%nat /\
  (forall i j bi bj, nth_error la i = Some bi -> nth_error la j = Some bj ->
     bl_active bi = true -> bl_active bj = true -> bl_bank bi = bl_bank bj -> i = j) /\
  Z.of_nat (length (filter (fun bl => bl_active bl && is_integration_tag (bl_tag bl)) la)) <= 8 /\
  (forall bl, In bl la -> bl_active bl = true ->
     exists n, bl_bank bl = Z.of_nat n + 1 /\ nth_error T n = Some (bl_tag bl)) /\
  (forall bl, In bl la -> bl_active bl = false -> bl_bank bl = 0).

Lemma structB_meaning T la : StructB T la -> structB_spelled T la.
Proof.
  intros [H1 H2 H3 H4]. unfold structB_spelled. split; [exact H1|]. split.
  { intros i j bi bj. apply nodup_slots. exact H3. }
  split; [rewrite integ_count; exact H4|]. rewrite Forall_forall in H2. split.
  - intros bl Hin Ha. specialize (H2 bl Hin). unfold slot_ok in H2. rewrite Ha in H2. exact H2.
  - intros bl Hin Ha. specialize (H2 bl Hin). unfold slot_ok in H2. rewrite Ha in H2. exact H2.
Qed.

Definition structH_spelled (T : list Z) (la : laccount) : Prop :=
  structB_spelled T la /\
  ~ (exists s d, In s la /\ In d la /\ bl_active s = true /\ bl_active d = true /\
       bl_tag s = ASSET_TAG_STAKED /\ is_default_like (bl_tag d) = true) /\
  (forall i j bi bj, (i < j)%nat -> nth_error la i = Some bi -> nth_error la j = Some bj ->
     bl_active bj = true -> bl_active bi = true /\ bl_bank bj < bl_bank bi).

Lemma structH_meaning T la : StructH T la -> structH_spelled T la.
Proof.
  intros (S & N & D). split; [apply structB_meaning, S|]. split.
  - intros (s & d & Hs & Hd & As & Ad & Ts & Td). apply N. split.
    + apply in_atags. exists s. auto.
    + exists (bl_tag d). split; [apply in_atags; exists d; auto | exact Td].
  - intros i j bi bj Hij Hi Hj Aj.
    destruct (desc_prefix T la i j bi bj (sb_slots _ _ S) D Hij Hi Hj Aj) as [Ai Hle]. split; [exact Ai|].
    destruct (Z.eq_dec (bl_bank bi) (bl_bank bj)) as [E|E]; [|lia].
    pose proof (nodup_slots la i j bi bj (sb_nodup _ _ S) Hi Hj Ai Aj E). lia.
Qed.

Lemma WH_meaning w a ac : WH w -> nth_error (hw_accts w) a = Some ac -> structH_spelled (htags w) (ha_la ac).
Proof. intros Hw Hn. apply structH_meaning. exact (Forall_nth_s _ _ _ _ Hw Hn). Qed.
Lemma WB_meaning w a la : WB w -> nth_error (bw_accts w) a = Some la -> structB_spelled (btags w) la.
Proof. intros Hw Hn. apply structB_meaning. exact (Forall_nth_s _ _ _ _ Hw Hn). Qed.

Lemma disabled_cannot_act w a ac : nth_acct w a = Ok ac -> aflag ac ACCOUNT_DISABLED = true ->
  (forall b n u, exists e, h_deposit w a b n u = Err e) /\
  (forall b n all, exists e, h_withdraw w a b n all = Err e) /\
  (forall b n, exists e, h_borrow w a b n = Err e) /\
  (forall b n all, exists e, h_repay w a b n all = Err e) /\
  (forall b, exists e, h_close_balance w a b = Err e).
Proof.
  intros Hac Hd. repeat split; intros.
  - eapply disabled_deposit; eauto.
  - eapply disabled_withdraw; eauto.
  - eapply disabled_borrow; eauto.
  - eapply disabled_repay; eauto.
  - eapply disabled_close_balance; eauto.
Qed.
