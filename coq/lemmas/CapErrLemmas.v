(* CapErrLemmas.v — error provenance for BankAssetCapacityExceeded, generated from ErrLemmas.v by renaming
   (csimple r : never a program error code; nc r : never Err (E E_BankAssetCapacityExceeded)). Used by C17. *)
Require Import Base Constants Fixed Curve Bank BankOps Risk TransferFee Handlers FixedLemmas BankLemmas.
From Coq Require Import ZifyBool.
Local Open Scope Z_scope.

Lemma cbind_err {A B} (r : res A) (f : A -> res B) e :
  bind r f = Err e -> r = Err e \/ exists a, r = Ok a /\ f a = Err e.
Proof. destruct r as [a|e']; cbn; intros H; [right; eauto | left; congruence]. Qed.

Definition csimple {A} (r : res A) : Prop := forall c, r <> Err (E c).
Definition nc {A} (r : res A) : Prop := r <> Err (E E_BankAssetCapacityExceeded).

Lemma csimple_ng {A} (r : res A) : csimple r -> nc r.
Proof. intros H. apply H. Qed.

Lemma csimple_ok {A} (a : A) : csimple (Ok a).
Proof. intros c H; discriminate. Qed.
Lemma csimple_panic {A} : csimple (@Err A EPanic).
Proof. intros c H; discriminate. Qed.
Lemma csimple_none {A} : csimple (@Err A ENone).
Proof. intros c H; discriminate. Qed.
Lemma csimple_bind {A B} (r : res A) (f : A -> res B) :
  csimple r -> (forall a, csimple (f a)) -> csimple (bind r f).
Proof. intros Hr Hf c H. apply cbind_err in H as [H | (a & _ & H)]; [exact (Hr c H) | exact (Hf a c H)]. Qed.
Lemma csimple_chko inr z : csimple (chko inr z).
Proof. unfold chko. destruct (inr z); [apply csimple_ok | apply csimple_none]. Qed.
Lemma csimple_chk inr z : csimple (chk inr z).
Proof. unfold chk. destruct (inr z); [apply csimple_ok | apply csimple_panic]. Qed.
Lemma csimple_assert b : csimple (assert b).
Proof. unfold assert. destruct b; [apply csimple_ok | apply csimple_panic]. Qed.
Lemma csimple_nth_res {A} n (l : list A) : csimple (nth_res n l).
Proof. unfold nth_res. destruct (nth_error l n); [apply csimple_ok | apply csimple_panic]. Qed.

Lemma nc_ok {A} (a : A) : nc (Ok a).
Proof. intros H; discriminate. Qed.
Lemma nc_bind {A B} (r : res A) (f : A -> res B) :
  nc r -> (forall a, nc (f a)) -> nc (bind r f).
Proof. intros Hr Hf H. apply cbind_err in H as [H | (a & _ & H)]; [exact (Hr H) | exact (Hf a H)]. Qed.
Lemma nc_bind_ok {A B} (r : res A) (f : A -> res B) :
  nc r -> (forall a, r = Ok a -> nc (f a)) -> nc (bind r f).
Proof. intros Hr Hf H. apply cbind_err in H as [H | (a & Ha & H)]; [exact (Hr H) | exact (Hf a Ha H)]. Qed.
Lemma nc_math {A} (r : res A) : nc r -> nc (math r).
Proof.
  unfold nc, math, ok_or. intros Hr H. destruct r as [a|[| |c]]; try discriminate; try (exact (Hr H)).
Qed.
Lemma nc_ok_or {A} (r : res A) e : nc r -> e <> E E_BankAssetCapacityExceeded -> nc (ok_or r e).
Proof.
  unfold nc, ok_or. intros Hr He H. destruct r as [a|[| |c]]; try discriminate; try (exact (Hr H)).
  apply He. congruence.
Qed.
Lemma nc_check c e : e <> E E_BankAssetCapacityExceeded -> nc (check c e).
Proof. unfold nc, check. intros Hk H. destruct c; [discriminate|]. apply Hk. congruence. Qed.
Lemma nc_err {A} e : e <> E E_BankAssetCapacityExceeded -> nc (@Err A e).
Proof. unfold nc. intros Hk H. apply Hk. congruence. Qed.
Lemma nc_panic {A} : nc (@Err A EPanic).
Proof. intros H; discriminate. Qed.

(* ---------------------------------------------------------------- tactics *)
(* all dispatch is syntactic (lazymatch on the head of the computation): `apply` must never be
   allowed to unify `bind _ _` with some other definition by unfolding *)
Ltac cne_err := (let Hne := fresh "Hne" in intros Hne; vm_compute in Hne; discriminate Hne).

Create HintDb csimple_db.
Ltac csimple_step :=
  lazymatch goal with
  | |- csimple (Ok _) => apply csimple_ok
  | |- csimple (Err EPanic) => apply csimple_panic
  | |- csimple (Err ENone) => apply csimple_none
  | |- csimple (bind _ _) => apply csimple_bind; [ | intros ? ]
  | |- csimple (chko _ _) => apply csimple_chko
  | |- csimple (chk _ _) => apply csimple_chk
  | |- csimple (assert _) => apply csimple_assert
  | |- csimple (nth_res _ _) => apply csimple_nth_res
  | |- csimple (if ?c then _ else _) => destruct c
  | |- csimple (match ?x with _ => _ end) => destruct x
  | |- csimple _ => solve [auto with csimple_db]
  end.
Ltac csimple_go := repeat csimple_step.

(* fixed-point primitives *)
Lemma csimple_cadd a b : csimple (cadd a b). Proof. apply csimple_chko. Qed.
Lemma csimple_csub a b : csimple (csub a b). Proof. apply csimple_chko. Qed.
Lemma csimple_cmul a b : csimple (cmul a b). Proof. apply csimple_chko. Qed.
Lemma csimple_cdiv a b : csimple (cdiv a b). Proof. unfold cdiv. csimple_go. Qed.
Lemma csimple_uadd a b : csimple (uadd a b). Proof. apply csimple_chk. Qed.
Lemma csimple_usub a b : csimple (usub a b). Proof. apply csimple_chk. Qed.
Lemma csimple_uneg a : csimple (uneg a). Proof. apply csimple_chk. Qed.
Lemma csimple_wdiv a b : csimple (wdiv a b). Proof. unfold wdiv. csimple_go. Qed.
Lemma csimple_cfloor a : csimple (cfloor a). Proof. apply csimple_chko. Qed.
Lemma csimple_cceil a : csimple (cceil a). Proof. apply csimple_chko. Qed.
Lemma csimple_to_u64 a : csimple (to_u64_checked a). Proof. apply csimple_chko. Qed.
Lemma csimple_exp10 i : csimple (exp10_fx i). Proof. unfold exp10_fx. csimple_go. Qed.

#[export] Hint Resolve csimple_cadd csimple_csub csimple_cmul csimple_cdiv csimple_uadd csimple_usub csimple_uneg
  csimple_wdiv csimple_cfloor csimple_cceil csimple_to_u64 csimple_exp10 csimple_ok csimple_panic csimple_none
  csimple_chko csimple_chk csimple_assert csimple_nth_res : csimple_db.

Ltac csimple_auto := repeat csimple_step.

(* curve *)
Lemma csimple_lerp sx sy ex ey tx : csimple (lerp sx sy ex ey tx).
Proof. unfold lerp. csimple_auto. Qed.
Lemma csimple_rate_from_u32 r : csimple (rate_from_u32 r).
Proof. unfold rate_from_u32. csimple_auto. Qed.
Lemma csimple_util_from_u32 r : csimple (util_from_u32 r).
Proof. unfold util_from_u32. csimple_auto. Qed.
#[export] Hint Resolve csimple_lerp csimple_rate_from_u32 csimple_util_from_u32 : csimple_db.
Lemma csimple_mpc_loop pts : forall pu pr ur hr, csimple (mpc_loop pts pu pr ur hr).
Proof.
  induction pts as [|p rest IH]; intros; cbn [mpc_loop]; [auto with csimple_db|].
  destruct (rp_util p =? 0); [apply IH|].
  apply csimple_bind; [auto with csimple_db|intros pu']. apply csimple_bind; [auto with csimple_db|intros pr'].
  destruct (ur <=? pu'); [auto with csimple_db | apply IH].
Qed.
#[export] Hint Resolve csimple_mpc_loop : csimple_db.
Lemma csimple_mpc c ur : csimple (mpc c ur).
Proof. unfold mpc. csimple_auto. Qed.
Lemma csimple_legacy c ur : csimple (legacy_curve c ur).
Proof. unfold legacy_curve. csimple_auto. Qed.
Lemma csimple_calc_fee_rate a b c : csimple (calc_fee_rate a b c).
Proof. unfold calc_fee_rate. csimple_auto. Qed.
#[export] Hint Resolve csimple_mpc csimple_legacy csimple_calc_fee_rate : csimple_db.
Lemma csimple_calc_interest_rate c pf ur : csimple (calc_interest_rate c pf ur).
Proof. unfold calc_interest_rate. csimple_auto. Qed.
#[export] Hint Resolve csimple_calc_interest_rate : csimple_db.

Lemma csimple_accrued a b c : csimple (accrued_per_period a b c).
Proof. unfold accrued_per_period. csimple_auto. Qed.
Lemma csimple_payment a b c : csimple (payment_for_period a b c).
Proof. unfold payment_for_period. csimple_auto. Qed.
#[export] Hint Resolve csimple_accrued csimple_payment : csimple_db.
Lemma csimple_accrual_state_changes dt a l c pf asv lsv : csimple (accrual_state_changes dt a l c pf asv lsv).
Proof. unfold accrual_state_changes. csimple_auto. Qed.
#[export] Hint Resolve csimple_accrual_state_changes : csimple_db.

(* transfer fee *)
Lemma csimple_ceil_div n d : csimple (ceil_div n d).
Proof. unfold ceil_div. csimple_auto. Qed.
#[export] Hint Resolve csimple_ceil_div : csimple_db.
Lemma csimple_calculate_fee a b c : csimple (calculate_fee a b c).
Proof. unfold calculate_fee. csimple_auto. Qed.
Lemma csimple_tfee hb n : csimple (tfee hb n).
Proof. unfold tfee. destruct (hb_t22 hb); [|apply csimple_ok]. destruct (calculate_fee _ _ _); [apply csimple_ok | apply csimple_panic]. Qed.
Lemma csimple_pre_fee hb n : csimple (pre_fee hb n).
Proof.
  unfold pre_fee, pre_fee_deposit_amount. destruct (hb_t22 hb); [|apply csimple_ok].
  destruct (calculate_pre_fee_amount _ _ _); [apply csimple_ok | apply csimple_panic].
Qed.
#[export] Hint Resolve csimple_calculate_fee csimple_tfee csimple_pre_fee : csimple_db.

(* ---------------------------------------------------------------- nc for the bank / wrapper layer *)
Create HintDb nc_db.
Lemma nc_math_simple {A} (r : res A) : csimple r -> nc (math r).
Proof. intros H. apply nc_math, csimple_ng, H. Qed.

Ltac nc_step :=
  lazymatch goal with
  | |- nc (Ok _) => apply nc_ok
  | |- nc (Err _) => apply nc_err; cne_err
  | |- nc (bind _ _) => apply nc_bind; [ | intros ? ]
  | |- nc (math _) => first [ solve [apply nc_math_simple; auto with csimple_db] | apply nc_math ]
  | |- nc (ok_or _ _) => apply nc_ok_or; [ | cne_err ]
  | |- nc (check _ _) => apply nc_check; cne_err
  | |- nc (assert _) => apply csimple_ng, csimple_assert
  | |- nc (if ?c then _ else _) => destruct c
  | |- nc (match ?x with _ => _ end) => destruct x
  | |- nc _ => first [ solve [auto with nc_db] | solve [apply csimple_ng; auto with csimple_db] ]
  end.
Ltac nc_auto := repeat nc_step.

Lemma nc_get_asset_amount b s : nc (get_asset_amount b s).
Proof. unfold get_asset_amount. nc_auto. Qed.
Lemma nc_get_liability_amount b s : nc (get_liability_amount b s).
Proof. unfold get_liability_amount. nc_auto. Qed.
Lemma nc_get_liability_shares b s : nc (get_liability_shares b s).
Proof. unfold get_liability_shares. nc_auto. Qed.
Lemma nc_get_asset_shares b s : nc (get_asset_shares b s).
Proof. unfold get_asset_shares. nc_auto. Qed.
#[export] Hint Resolve nc_get_asset_amount nc_get_liability_amount nc_get_liability_shares nc_get_asset_shares : nc_db.

Lemma nc_bank_scale l d : nc (bank_scale_drift_deposit_limit l d).
Proof. unfold bank_scale_drift_deposit_limit. nc_auto. Qed.
#[export] Hint Resolve nc_bank_scale : nc_db.
Lemma nc_deposit_limit_fx b : nc (deposit_limit_fx b).
Proof. unfold deposit_limit_fx. nc_auto. Qed.
#[export] Hint Resolve nc_deposit_limit_fx : nc_db.
Lemma nc_change_liability_shares b s y : nc (change_liability_shares b s y).
Proof. unfold change_liability_shares. nc_auto. Qed.
Lemma nc_check_utilization b : nc (check_utilization_ratio b).
Proof. unfold check_utilization_ratio. nc_auto. Qed.
#[export] Hint Resolve nc_change_liability_shares nc_check_utilization : nc_db.

Lemma nc_accrue b pf now : nc (accrue_interest b pf now).
Proof. unfold accrue_interest. nc_auto. Qed.
Lemma nc_update_bank_cache b pf now : nc (update_bank_cache b pf now).
Proof. unfold update_bank_cache. nc_auto. Qed.
#[export] Hint Resolve nc_accrue nc_update_bank_cache : nc_db.

Lemma nc_get_side bl : nc (get_side bl).
Proof. unfold get_side. nc_auto. Qed.
#[export] Hint Resolve nc_get_side : nc_db.
Lemma nc_calc_emissions a b c d : nc (calc_emissions a b c d).
Proof. unfold calc_emissions. nc_auto. Qed.
#[export] Hint Resolve nc_calc_emissions : nc_db.
Lemma nc_claim_emissions b bl now : nc (claim_emissions b bl now).
Proof. unfold claim_emissions. nc_auto. Qed.
#[export] Hint Resolve nc_claim_emissions : nc_db.
Lemma nc_balance_close bl : nc (balance_close bl).
Proof. unfold balance_close. nc_auto. Qed.
#[export] Hint Resolve nc_balance_close : nc_db.
Lemma nc_wrapper_find k la : nc (wrapper_find k la).
Proof. unfold wrapper_find. nc_auto. Qed.
Lemma nc_wrapper_find_or_create k b la now : nc (wrapper_find_or_create k b la now).
Proof. unfold wrapper_find_or_create. nc_auto. Qed.
#[export] Hint Resolve nc_wrapper_find nc_wrapper_find_or_create : nc_db.

(* handler-level helpers *)
Lemma nc_validate_bank_state b k : nc (validate_bank_state b k).
Proof. unfold validate_bank_state. nc_auto. Qed.
Lemma nc_validate_asset_tags b la : nc (validate_asset_tags b la).
Proof. unfold validate_asset_tags. nc_auto. Qed.
Lemma nc_nth_bank w b : nc (nth_bank w b).
Proof. apply csimple_ng, csimple_nth_res. Qed.
Lemma nc_nth_acct w b : nc (nth_acct w b).
Proof. apply csimple_ng, csimple_nth_res. Qed.
Lemma nc_utok w a b : nc (utok w a b).
Proof. unfold utok. nc_auto. Qed.
#[export] Hint Resolve nc_validate_bank_state nc_validate_asset_tags nc_nth_bank nc_nth_acct nc_utok : nc_db.
Lemma nc_xfer_out w a b n : nc (xfer_out w a b n).
Proof. unfold xfer_out, E_TOKEN_INSUFFICIENT. nc_auto. Qed.
#[export] Hint Resolve nc_xfer_out : nc_db.
