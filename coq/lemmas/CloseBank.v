(* CloseBank.v — C02: lending_pool_close_bank can succeed only when no account holds more than dust in the bank. *)
Require Import Base Constants Fixed Curve Bank BankOps Risk TransferFee Handlers.
Require Import FixedLemmas BankLemmas ValueLemmas CurveLemmas AccrualLemmas TransferFeeLemmas HandlerLemmas SolvencyLemmas FrameLemmas LedgerLemmas HandlerEffects SolvencyHandlers SolvencyWorld HandlerWorld.
From Coq Require Import ZifyBool.
Local Open Scope Z_scope.

Lemma is_zero_tol_small x : 0 <= x <= I128_MAX -> is_zero_tol x = true -> x < ZERO_AMOUNT_THRESHOLD.
Proof.
  intros Hx H. unfold is_zero_tol, fabs_w in H. rewrite Z.abs_eq in H by lia.
  rewrite wrap128_id in H; [lia|]. rewrite I128_MIN_val. lia.
Qed.

Lemma close_probe_inv w b :
  h_close_bank_probe w b = Ok tt ->
  exists hb, nth_bank w b = Ok hb /\
    get_flag (b_flags (hb_b hb)) CLOSE_ENABLED_FLAG = true /\
    b_lend_cnt (hb_b hb) = 0 /\ b_bor_cnt (hb_b hb) = 0 /\
    is_zero_tol (b_tas (hb_b hb)) = true /\ is_zero_tol (b_tls (hb_b hb)) = true /\
    is_zero_tol (b_em_rem (hb_b hb)) = true.
Proof.
  unfold h_close_bank_probe. intros H.
  apply bind_ok in H as (hb & Hhb & H). apply bind_ok in H as (u1 & H1 & H). apply bind_ok in H as (u2 & H2 & H).
  apply bind_ok in H as (u3 & H3 & H). apply check_ok in H1, H2, H3, H.
  apply Bool.andb_true_iff in H2 as [C1 C2]. apply Bool.andb_true_iff in H3 as [T1 T2].
  exists hb. repeat split; try assumption; lia.
Qed.

(* the sum of ALL accounts' shares in the bank, on either side, is below the dust threshold *)
Theorem close_bank_only_without_positions w b :
  HLedger w -> h_close_bank_probe w b = Ok tt ->
  exists hb, nth_bank w b = Ok hb /\
    (b_tas (hb_b hb) <= I128_MAX -> wsum (ca (bank_pk b)) (map ha_la (hw_accts w)) < ZERO_AMOUNT_THRESHOLD) /\
    (b_tls (hb_b hb) <= I128_MAX -> wsum (cl (bank_pk b)) (map ha_la (hw_accts w)) < ZERO_AMOUNT_THRESHOLD).
Proof.
  intros L H. destruct (close_probe_inv _ _ H) as (hb & Hhb & _ & _ & _ & T1 & T2 & _).
  exists hb. split; [exact Hhb|].
  pose proof (nth_res_map hb_b _ _ _ Hhb) as M1. apply nth_res_ok in M1.
  assert (Hbo : bank_of (bw_of w) b = Some (hb_b hb)) by (unfold bank_of, bw_of; cbn [bw_banks]; exact M1).
  destruct (lg_tot _ L b (hb_b hb) Hbo) as [La Ll].
  destruct (wsum_nonneg_ca (bank_pk b) _ (lg_wf _ L)) as [Na Nl].
  unfold bw_of in La, Ll, Na, Nl. cbn [bw_accts] in La, Ll, Na, Nl.
  split; intros Hmax.
  - pose proof (is_zero_tol_small (b_tas (hb_b hb)) ltac:(lia) T1). lia.
  - pose proof (is_zero_tol_small (b_tls (hb_b hb)) ltac:(lia) T2). lia.
Qed.
