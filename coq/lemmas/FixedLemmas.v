(* FixedLemmas.v — characterising lemmas for the I80F48 model; later proofs use these, not the
   definitions. *)
Require Import Base Fixed.
From Coq Require Import ZifyBool.
Local Open Scope Z_scope.

Lemma Ok_inj {A : Type} (a b : A) : Ok a = Ok b -> a = b.
Proof. intros E; inversion E; reflexivity. Qed.

Lemma bind_ok {A B} (r : res A) (f : A -> res B) v : bind r f = Ok v -> exists a, r = Ok a /\ f a = Ok v.
Proof. destruct r; cbn; intros H; [eauto | discriminate]. Qed.

Lemma ONE_val : ONE = 281474976710656. Proof. reflexivity. Qed.
Lemma ONE_pos : 0 < ONE. Proof. rewrite ONE_val; lia. Qed.
Lemma I128_MAX_val : I128_MAX = 170141183460469231731687303715884105727. Proof. reflexivity. Qed.
Lemma I128_MIN_val : I128_MIN = -170141183460469231731687303715884105728. Proof. reflexivity. Qed.
Lemma U32_MAXZ_val : U32_MAXZ = 4294967295. Proof. reflexivity. Qed.
Lemma U64_MAX_val : U64_MAX = 18446744073709551615. Proof. reflexivity. Qed.

Lemma in_i128_iff z : in_i128 z = true <-> I128_MIN <= z <= I128_MAX.
Proof. unfold in_i128, in_range. lia. Qed.

Lemma in_i128_false z : in_i128 z = false <-> (z < I128_MIN \/ I128_MAX < z).
Proof. unfold in_i128, in_range. lia. Qed.

Lemma wrap128_id z : I128_MIN <= z <= I128_MAX -> wrap128 z = z.
Proof.
  intros H. unfold wrap128, wrap_s. rewrite I128_MIN_val, I128_MAX_val in H.
  change (2 ^ (128 - 1)) with 170141183460469231731687303715884105728.
  change (2 ^ 128) with 340282366920938463463374607431768211456.
  rewrite Z.mod_small; lia.
Qed.

Lemma chko_ok inr z : inr z = true -> chko inr z = Ok z.
Proof. unfold chko; intros ->; reflexivity. Qed.
Lemma chk_ok inr z : inr z = true -> chk inr z = Ok z.
Proof. unfold chk; intros ->; reflexivity. Qed.
Lemma chko_inv inr z r : chko inr z = Ok r -> r = z /\ inr z = true.
Proof. unfold chko; destruct (inr z); intros H; inversion H; auto. Qed.
Lemma chk_inv inr z r : chk inr z = Ok r -> r = z /\ inr z = true.
Proof. unfold chk; destruct (inr z); intros H; inversion H; auto. Qed.

(* checked / unchecked add, sub *)
Lemma cadd_ok a b : I128_MIN <= a + b <= I128_MAX -> cadd a b = Ok (a + b).
Proof. intros; unfold cadd; apply chko_ok, in_i128_iff; assumption. Qed.
Lemma csub_ok a b : I128_MIN <= a - b <= I128_MAX -> csub a b = Ok (a - b).
Proof. intros; unfold csub; apply chko_ok, in_i128_iff; assumption. Qed.
Lemma uadd_ok a b : I128_MIN <= a + b <= I128_MAX -> uadd a b = Ok (a + b).
Proof. intros; unfold uadd; apply chk_ok, in_i128_iff; assumption. Qed.
Lemma usub_ok a b : I128_MIN <= a - b <= I128_MAX -> usub a b = Ok (a - b).
Proof. intros; unfold usub; apply chk_ok, in_i128_iff; assumption. Qed.
Lemma cadd_inv a b r : cadd a b = Ok r -> r = a + b /\ I128_MIN <= r <= I128_MAX.
Proof. unfold cadd; intros H; apply chko_inv in H as [-> H]; apply in_i128_iff in H; auto. Qed.
Lemma csub_inv a b r : csub a b = Ok r -> r = a - b /\ I128_MIN <= r <= I128_MAX.
Proof. unfold csub; intros H; apply chko_inv in H as [-> H]; apply in_i128_iff in H; auto. Qed.
Lemma uadd_inv a b r : uadd a b = Ok r -> r = a + b /\ I128_MIN <= r <= I128_MAX.
Proof. unfold uadd; intros H; apply chk_inv in H as [-> H]; apply in_i128_iff in H; auto. Qed.
Lemma usub_inv a b r : usub a b = Ok r -> r = a - b /\ I128_MIN <= r <= I128_MAX.
Proof. unfold usub; intros H; apply chk_inv in H as [-> H]; apply in_i128_iff in H; auto. Qed.

(* mul *)
Lemma cmul_ok a b : I128_MIN <= a * b / ONE <= I128_MAX -> cmul a b = Ok (a * b / ONE).
Proof. intros; unfold cmul, mul_raw; apply chko_ok, in_i128_iff; assumption. Qed.
Lemma cmul_inv a b r : cmul a b = Ok r -> r = a * b / ONE /\ I128_MIN <= r <= I128_MAX.
Proof. unfold cmul, mul_raw; intros H; apply chko_inv in H as [-> H]; apply in_i128_iff in H; auto. Qed.

(* div: for non-negative numerator and positive divisor truncation = floor *)
Lemma div_raw_nonneg a b : 0 <= a -> 0 < b -> div_raw a b = a * ONE / b.
Proof.
  intros Ha Hb. unfold div_raw. apply Z.quot_div_nonneg; [|assumption].
  pose proof ONE_pos. apply Z.mul_nonneg_nonneg; lia.
Qed.
Lemma cdiv_ok a b : 0 <= a -> 0 < b -> a * ONE / b <= I128_MAX -> cdiv a b = Ok (a * ONE / b).
Proof.
  intros Ha Hb Hr. unfold cdiv. replace (b =? 0) with false by lia.
  rewrite div_raw_nonneg by assumption. apply chko_ok, in_i128_iff. split; [|assumption].
  pose proof ONE_pos. rewrite I128_MIN_val.
  assert (0 <= a * ONE / b) by (apply Z.div_pos; [apply Z.mul_nonneg_nonneg; lia | lia]). lia.
Qed.
Lemma wdiv_ok a b : 0 <= a -> 0 < b -> a * ONE / b <= I128_MAX -> wdiv a b = Ok (a * ONE / b).
Proof.
  intros Ha Hb Hr. unfold wdiv. replace (b =? 0) with false by lia.
  rewrite div_raw_nonneg by assumption. rewrite wrap128_id; [reflexivity|]. split; [|assumption].
  pose proof ONE_pos. rewrite I128_MIN_val.
  assert (0 <= a * ONE / b) by (apply Z.div_pos; [apply Z.mul_nonneg_nonneg; lia | lia]). lia.
Qed.
Lemma cdiv_inv_nonneg a b r : 0 <= a -> 0 < b -> cdiv a b = Ok r -> r = a * ONE / b /\ 0 <= r <= I128_MAX.
Proof.
  intros Ha Hb. unfold cdiv. replace (b =? 0) with false by lia.
  rewrite div_raw_nonneg by assumption. intros H; apply chko_inv in H as [-> H]. apply in_i128_iff in H.
  split; [reflexivity|]. split; [|lia]. pose proof ONE_pos.
  apply Z.div_pos; [apply Z.mul_nonneg_nonneg; lia | lia].
Qed.

(* generic arithmetic helpers (non-linear facts that lia cannot find by itself) *)
Lemma mul_div_le d p k : 0 < k -> 0 <= d -> 0 <= p <= k -> 0 <= d * p / k <= d.
Proof.
  intros Hk Hd Hp. split.
  - apply Z.div_pos; [apply Z.mul_nonneg_nonneg; lia | lia].
  - apply Z.div_le_upper_bound; [lia|]. rewrite Z.mul_comm. apply Z.mul_le_mono_nonneg_r; lia.
Qed.

Lemma mul_div_mono d p q k : 0 < k -> 0 <= d -> p <= q -> d * p / k <= d * q / k.
Proof. intros Hk Hd Hpq. apply Z.div_le_mono; [lia|]. apply Z.mul_le_mono_nonneg_l; lia. Qed.

Lemma div_frac_le off dx k : 0 < dx -> 0 <= k -> 0 <= off <= dx -> 0 <= off * k / dx <= k.
Proof.
  intros Hdx Hk Ho. split.
  - apply Z.div_pos; [apply Z.mul_nonneg_nonneg; lia | lia].
  - apply Z.div_le_upper_bound; [lia|]. apply Z.mul_le_mono_nonneg_r; lia.
Qed.

Lemma div_frac_mono o1 o2 dx k : 0 < dx -> 0 <= k -> o1 <= o2 -> o1 * k / dx <= o2 * k / dx.
Proof. intros. apply Z.div_le_mono; [lia|]. apply Z.mul_le_mono_nonneg_r; lia. Qed.
