(* SolvencyLemmas.v — C01: how every accounting primitive moves the bank's net obligations
   NAV = D - L + F*2^48  (deposits - liabilities at scale 2^96, fee buckets at scale 2^48),
   and how every instruction handler moves  gap = vault*2^96 - NAV. *)
Require Import Base Constants Fixed Curve Bank BankOps Risk TransferFee Handlers.
Require Import FixedLemmas BankLemmas ValueLemmas CurveLemmas AccrualLemmas TransferFeeLemmas HandlerLemmas.
From Coq Require Import ZifyBool.
Local Open Scope Z_scope.

Definition NAV (b : bank) : Z := Dv b - Lv b + Fv b * ONE.
Definition gapb (b : bank) (V : Z) : Z := V * ONE * ONE - NAV b.

(* increase (deposit / repay / liquidation credit): obligations grow by at most the amount *)
Lemma NAV_increase b bl now delta t b' bl' :
  wf_sv b -> wf_bal bl -> 0 <= delta ->
  increase_balance b bl now delta t = Ok (b', bl') ->
  NAV b' - NAV b <= delta * ONE /\ 0 <= NAV b' - NAV b /\ wf_bal bl'.
Proof.
  intros Hsv Hbl Hd H.
  pose proof (increase_value _ _ _ _ _ _ _ Hsv Hbl Hd H) as (V1 & V2 & V3).
  pose proof (increase_balance_inv _ _ _ _ _ _ _ Hsv Hbl Hd H) as F.
  destruct F as [Fa Fl Fta Ftl [Fs1 Fs2] (Fi & Fg & Fp) _ _ _ _].
  unfold NAV, Dv, Lv, Fv, pval in *. rewrite Fs1, Fs2 in *. rewrite Fi, Fg, Fp.
  rewrite Fta, Ftl. rewrite Fa, Fl in V1, V3. split; [|split; [|exact V2]]; nia.
Qed.

(* decrease (withdraw / borrow / liquidation debit): obligations shrink by at least the amount,
   up to one ulp of each share value *)
Lemma NAV_decrease b bl now delta t b' bl' :
  wf_sv b -> wf_bal bl -> 0 <= delta ->
  decrease_balance b bl now delta t = Ok (b', bl') ->
  delta * ONE - b_asv b - b_lsv b < NAV b - NAV b' /\ wf_bal bl'.
Proof.
  intros Hsv Hbl Hd H.
  pose proof (decrease_value _ _ _ _ _ _ _ Hsv Hbl Hd H) as (V1 & V2).
  pose proof (decrease_balance_inv _ _ _ _ _ _ _ Hsv Hbl Hd H) as F.
  destruct F as [Fa Fl Fta Ftl [Fs1 Fs2] (Fi & Fg & Fp) _ _ _ _].
  unfold NAV, Dv, Lv, Fv, pval in *. rewrite Fs1, Fs2 in *. rewrite Fi, Fg, Fp.
  rewrite Fta, Ftl. rewrite Fa, Fl in V1. split; [|exact V2]. nia.
Qed.

(* full withdrawal: obligations shrink by at least the whole tokens paid *)
Lemma NAV_withdraw_all b bl now b' bl' n :
  wf_sv b -> wf_bal bl -> withdraw_all b bl now = Ok (b', bl', n) ->
  n * ONE * ONE <= NAV b - NAV b' /\ 0 <= n.
Proof.
  intros Hsv Hbl H. pose proof (withdraw_all_inv _ _ _ _ _ _ Hsv Hbl H) as F.
  destruct F as [Fn Fd Fta Ftl [Fs1 Fs2] [Fg Fp] _ _ _ _ Fr].
  unfold NAV, Dv, Lv, Fv. rewrite Fs1, Fs2, Fta, Ftl, Fd, Fg, Fp.
  pose proof ONE_pos as HO. set (x := bl_a bl * b_asv b) in *.
  pose proof (Z.div_mod x ONE ltac:(lia)). pose proof (Z.mod_pos_bound x ONE HO).
  pose proof (Z.div_mod (x / ONE) ONE ltac:(lia)). pose proof (Z.mod_pos_bound (x / ONE) ONE HO).
  split; [|lia]. subst n. nia.
Qed.

(* full repayment: obligations grow by less than the whole tokens charged plus one ulp *)
Lemma NAV_repay_all b bl now b' bl' n :
  wf_sv b -> wf_bal bl -> repay_all b bl now = Ok (b', bl', n) ->
  NAV b' - NAV b < n * ONE * ONE + ONE /\ 0 <= n.
Proof.
  intros Hsv Hbl H. pose proof (repay_all_inv _ _ _ _ _ _ Hsv Hbl H) as F.
  destruct F as [Fn Fd Fta Ftl [Fs1 Fs2] [Fg Fp] _ _ _ Fr].
  unfold NAV, Dv, Lv, Fv. rewrite Fs1, Fs2, Fta, Ftl, Fd, Fg, Fp.
  pose proof ONE_pos as HO. set (x := bl_l bl * b_lsv b) in *.
  pose proof (Z.div_mod x ONE ltac:(lia)). pose proof (Z.mod_pos_bound x ONE HO).
  split; [|lia]. nia.
Qed.

Lemma NAV_close_balance b bl now b' bl' :
  wf_sv b -> wf_bal bl -> close_balance b bl now = Ok (b', bl') -> NAV b' = NAV b.
Proof.
  intros Hsv Hbl H. apply close_balance_inv in H; try assumption.
  destruct H as (_ & T1 & T2 & S1 & S2 & F1 & F2 & F3 & _).
  unfold NAV, Dv, Lv, Fv. rewrite T1, T2, S1, S2, F1, F2, F3. reflexivity.
Qed.

(* cache refresh only moves last_update *)
Lemma update_bank_cache_core b pf now b' :
  update_bank_cache b pf now = Ok b' -> b' = b \/ b' = set_b_last_update now b.
Proof.
  unfold update_bank_cache. intros H.
  apply bind_ok in H as (ta & _ & H). apply bind_ok in H as (tl & _ & H).
  destruct ((ta =? 0) || (tl =? 0)); [apply Ok_inj in H; auto|].
  apply bind_ok in H as (ur & _ & H). apply bind_ok in H as (r & _ & H). apply Ok_inj in H. auto.
Qed.
Lemma NAV_cache b pf now b' : update_bank_cache b pf now = Ok b' ->
  NAV b' = NAV b /\ b_asv b' = b_asv b /\ b_lsv b' = b_lsv b /\ b_tas b' = b_tas b /\ b_tls b' = b_tls b /\ b_op_state b' = b_op_state b.
Proof. intros H. apply update_bank_cache_core in H as [-> | ->]; cbn; repeat split; reflexivity. Qed.

(* accrual: obligations grow by at most the proved allowance (valid seven-point curve) *)
Definition accrual_slack (b b' : bank) : Z :=
  b_tls b * b_lsv b / ONE + b_tls b + (b_asv b' * ONE / Z.max 1 (b_asv b) + 2) + 1.

Lemma NAV_accrue b pf now b' :
  wf_bank b -> 0 < b_asv b -> valid_curve b -> accrue_interest b pf now = Ok b' ->
  NAV b' - NAV b <= accrual_slack b b' /\ wf_bank b' /\ 0 < b_asv b' /\ valid_curve b' /\ b_op_state b' = b_op_state b.
Proof.
  intros Hw Hpos Hv H. pose proof Hw as (Ha & Hl & Hta & Htl).
  pose proof (accrue_monotone b pf now b' Ha Hl Hta Htl H) as (M1 & M2 & _ & _ & _ & _ & M7 & M8 & _).
  pose proof (accrue_credit_le_charge b pf now b' Hw Hv H) as (irl & Hirl0 & Hcase & C).
  pose proof (accrue_frame _ _ _ _ H) as (Fir & Fop & _).
  assert (Hs : NAV b' - NAV b <= accrual_slack b b').
  { unfold accrual_slack.
    pose proof ONE_pos as HO.
      assert (0 <= b_asv b' * ONE / Z.max 1 (b_asv b)) by (apply Z.div_pos; nia).
      assert (irl <= b_asv b' * ONE / Z.max 1 (b_asv b) + 2).
      { destruct Hcase as [[_ ->] | [Hc | [_ ->]]]; [lia | | lia].
        destruct (Z.eq_dec (b_asv b) 0) as [Z0|NZ]; [lia|].
        { assert (0 < b_asv b) by lia. replace (Z.max 1 (b_asv b)) with (b_asv b) by lia.
          rewrite Hc.
          pose proof (Z.div_mod (b_asv b * (ONE + irl)) ONE ltac:(lia)). pose proof (Z.mod_pos_bound (b_asv b * (ONE + irl)) ONE HO).
          set (q := b_asv b * (ONE + irl) / ONE) in *.
          assert (b_asv b * irl <= q * ONE) by nia.
          pose proof (Z.div_le_lower_bound (q * ONE) (b_asv b) irl ltac:(lia) ltac:(lia)). lia. } }
      unfold NAV. lia. }
  split; [exact Hs|]. split; [unfold wf_bank; lia|]. split; [lia|]. split; [|exact Fop].
  destruct Hv as (V1 & V2 & V3). unfold valid_curve. rewrite Fir. auto.
Qed.

(* ------------------------------------------------------------------------------------------ *)
(* list / world plumbing *)
Lemma nth_set_nth_other {A} (l : list A) n k v : n <> k -> nth_error (set_nth n v l) k = nth_error l k.
Proof.
  revert n k; induction l as [|a l IH]; intros [|n] [|k] H; cbn; try reflexivity; try congruence.
  apply IH. congruence.
Qed.
Lemma nth_bank_put_other w b hb k : b <> k -> nth_bank (put_hbank w b hb) k = nth_bank w k.
Proof. intros H. unfold nth_bank, put_hbank, nth_res. cbn [hw_banks]. rewrite nth_set_nth_other by assumption. reflexivity. Qed.
Lemma nth_acct_put_hbank w b hb a : nth_acct (put_hbank w b hb) a = nth_acct w a.
Proof. reflexivity. Qed.
Lemma nth_acct_put_utok w a b v k : nth_acct (put_utok w a b v) k = nth_acct w k.
Proof. unfold put_utok. destruct (nth_error (hw_utok w) a); reflexivity. Qed.
Lemma put_hacct_get w a x x0 : nth_acct w a = Ok x0 -> nth_acct (put_hacct w a x) a = Ok x.
Proof.
  unfold nth_acct, put_hacct. cbn [hw_accts]. intros H. apply nth_res_ok in H.
  unfold nth_res. rewrite (nth_set_nth_same _ _ _ _ H). reflexivity.
Qed.
Lemma nth_acct_put_other w a x k : a <> k -> nth_acct (put_hacct w a x) k = nth_acct w k.
Proof. intros H. unfold nth_acct, put_hacct, nth_res. cbn [hw_accts]. rewrite nth_set_nth_other by assumption. reflexivity. Qed.

Lemma Forall_set_nth {A} (P : A -> Prop) l n v : Forall P l -> P v -> Forall P (set_nth n v l).
Proof.
  revert n; induction l as [|a l IH]; intros n Hl Hv; [destruct n; constructor|].
  inversion Hl; subst. destruct n; cbn; constructor; auto.
Qed.
Lemma Forall_nth_error {A} (P : A -> Prop) l n x : Forall P l -> nth_error l n = Some x -> P x.
Proof. intros H E. rewrite Forall_forall in H. apply H. eapply nth_error_In; eauto. Qed.

Lemma Forall_insert_desc (P : balance -> Prop) x l : P x -> Forall P l -> Forall P (insert_desc x l).
Proof.
  intros Hx Hl. induction Hl as [|y ys Hy Hys IH]; cbn; [repeat constructor; auto|].
  destruct (bl_bank y <? bl_bank x); repeat constructor; auto.
Qed.
Lemma Forall_sort (P : balance -> Prop) l : Forall P l -> Forall P (sort_balances l).
Proof. unfold sort_balances. induction 1; cbn; [constructor|]. apply Forall_insert_desc; auto. Qed.

(* transfers: effect on the bank entry *)
Lemma xfer_in_effect w a b n w' hb :
  xfer_in w a b n = Ok w' -> nth_bank w b = Ok hb ->
  exists f, tfee hb n = Ok f /\
    nth_bank w' b = Ok (set_hb_vault (hb_vault hb + n - f) hb) /\
    (forall k, b <> k -> nth_bank w' k = nth_bank w k) /\ (forall k, nth_acct w' k = nth_acct w k).
Proof.
  unfold xfer_in. intros H Hb. rewrite Hb in H. cbn [bind] in H.
  apply bind_ok in H as (u & _ & H). apply bind_ok in H as (c & _ & H). apply bind_ok in H as (f & Hf & H).
  apply Ok_inj in H. subst w'. exists f. split; [exact Hf|]. split; [|split].
  - rewrite nth_bank_put_utok. eapply put_hbank_get; eauto.
  - intros k Hk. rewrite nth_bank_put_utok. apply nth_bank_put_other; assumption.
  - intros k. rewrite nth_acct_put_utok. reflexivity.
Qed.
Lemma xfer_out_effect w a b n w' hb :
  xfer_out w a b n = Ok w' -> nth_bank w b = Ok hb ->
  nth_bank w' b = Ok (set_hb_vault (hb_vault hb - n) hb) /\ n <= hb_vault hb /\
  (forall k, b <> k -> nth_bank w' k = nth_bank w k) /\ (forall k, nth_acct w' k = nth_acct w k).
Proof.
  unfold xfer_out. intros H Hb. rewrite Hb in H. cbn [bind] in H.
  apply bind_ok in H as (u & _ & H). apply bind_ok in H as (c & Hc & H). apply bind_ok in H as (f & Hf & H).
  apply Ok_inj in H. subst w'. apply check_ok in Hc. split; [|split; [lia|split]].
  - rewrite nth_bank_put_utok. eapply put_hbank_get; eauto.
  - intros k Hk. rewrite nth_bank_put_utok. apply nth_bank_put_other; assumption.
  - intros k. rewrite nth_acct_put_utok. reflexivity.
Qed.

(* the pre-fee amount pulled from a depositor leaves at least the booked amount in the vault *)
Lemma pre_fee_covers hb post pre f :
  0 <= hb_tf_bps hb <= 10000 -> 0 <= hb_tf_max hb -> 0 <= post ->
  pre_fee hb post = Ok pre -> tfee hb pre = Ok f -> post <= pre - f /\ 0 <= f.
Proof.
  intros Hb Hm Hp. unfold pre_fee, tfee. destruct (hb_t22 hb).
  - intros H1 H2. apply prefee_wrapper in H1.
    destruct (calculate_fee (hb_tf_bps hb) (hb_tf_max hb) pre) as [fee|e] eqn:E; [|discriminate].
    apply Ok_inj in H2. subst f.
    assert (0 <= pre).
    { unfold calculate_pre_fee_amount in H1.
      destruct (hb_tf_bps hb =? 0); [apply Ok_inj in H1; lia|].
      destruct (post =? 0); [apply Ok_inj in H1; lia|].
      destruct (hb_tf_bps hb =? BPS_ONE); [apply chko_inv in H1 as [-> _]; lia|].
      apply bind_ok in H1 as (x1 & _ & H1). apply bind_ok in H1 as (x2 & _ & H1).
      apply bind_ok in H1 as (x3 & _ & H1). apply bind_ok in H1 as (x4 & _ & H1).
      destruct (hb_tf_max hb <=? x4); apply chko_inv in H1 as [H1 H1r]; unfold in_u64, in_range in H1r; lia. }
    apply (prefee_covers (hb_tf_bps hb) (hb_tf_max hb) post pre fee); try assumption; unfold BPS_ONE; lia.
  - intros H1 H2. apply Ok_inj in H1. apply Ok_inj in H2. lia.
Qed.

(* ------------------------------------------------------------------------------------------ *)
(* handler level *)
Definition gap (hb : hbank) : Z := gapb (hb_b hb) (hb_vault hb).

Definition hb_ok (hb : hbank) : Prop :=
  wf_bank (hb_b hb) /\ 0 < b_asv (hb_b hb) /\ 0 < b_lsv (hb_b hb) /\ valid_curve (hb_b hb) /\
  0 <= hb_tf_bps hb <= 10000 /\ 0 <= hb_tf_max hb.

Definition accts_ok (w : hworld) : Prop := Forall (fun ac => Forall wf_bal (ha_la ac)) (hw_accts w).

Lemma hb_ok_sv hb : hb_ok hb -> wf_sv (hb_b hb).
Proof. intros (_ & ? & ? & _). unfold wf_sv. lia. Qed.

Lemma find_or_create_wf k bk la now i la1 :
  wrapper_find_or_create k bk la now = Ok (i, la1) -> Forall wf_bal la -> Forall wf_bal la1.
Proof.
  unfold wrapper_find_or_create. intros H Hf. destruct (find_active k la).
  - apply pair_ok in H as [_ <-]. exact Hf.
  - apply bind_ok in H as (u & _ & H). destruct (find_idx _ la 0); [|discriminate].
    apply pair_ok in H as [_ <-]. apply Forall_set_nth; [exact Hf|]. unfold wf_bal; cbn; lia.
Qed.

Lemma nth_res_Forall {A} (P : A -> Prop) n l x : nth_res n l = Ok x -> Forall P l -> P x.
Proof. intros H Hf. apply nth_res_ok in H. eapply Forall_nth_error; eauto. Qed.

Lemma accts_ok_put w a ac : accts_ok w -> Forall wf_bal (ha_la ac) -> accts_ok (put_hacct w a ac).
Proof. unfold accts_ok, put_hacct. cbn [hw_accts]. intros. apply Forall_set_nth; assumption. Qed.

Lemma accts_ok_same_accts w w' : hw_accts w' = hw_accts w -> accts_ok w -> accts_ok w'.
Proof. unfold accts_ok. intros ->; auto. Qed.

Lemma accts_ok_nth w a ac : accts_ok w -> nth_acct w a = Ok ac -> Forall wf_bal (ha_la ac).
Proof. unfold accts_ok, nth_acct. intros H E. eapply (nth_res_Forall (fun ac => Forall wf_bal (ha_la ac))); eauto. Qed.

Lemma hb_ok_after_accrue hb bk1 pf now :
  hb_ok hb -> accrue_interest (hb_b hb) pf now = Ok bk1 ->
  hb_ok (set_hb_b bk1 hb) /\ NAV bk1 - NAV (hb_b hb) <= accrual_slack (hb_b hb) bk1.
Proof.
  intros (Hw & Hp & Hl & Hv & Hf1 & Hf2) H.
  pose proof (NAV_accrue _ _ _ _ Hw Hp Hv H) as (S & W' & P' & V' & _).
  pose proof Hw as (Ha & Hl0 & Hta & Htl).
  pose proof (accrue_monotone _ _ _ _ Ha Hl0 Hta Htl H) as (_ & M2 & _).
  split; [|exact S]. unfold hb_ok. cbn [set_hb_b hb_b hb_tf_bps hb_tf_max].
  split; [exact W'|]. split; [exact P'|]. split; [lia|]. split; [exact V'|]. split; assumption.
Qed.

Lemma set_b_keeps_ok hb bk bk' :
  hb_ok (set_hb_b bk hb) ->
  wf_bank bk' -> b_asv bk' = b_asv bk -> b_lsv bk' = b_lsv bk -> b_ir bk' = b_ir bk ->
  hb_ok (set_hb_b bk' hb).
Proof.
  intros (Hw & Hp & Hl & (V1 & V2 & V3) & Hf1 & Hf2) W' E1 E2 E3. unfold hb_ok, valid_curve in *.
  cbn [set_hb_b hb_b hb_tf_bps hb_tf_max] in *. rewrite E1, E2, E3.
  split; [exact W'|]. split; [exact Hp|]. split; [exact Hl|]. split; [split; [exact V1|split; assumption]|]. split; assumption.
Qed.
