(* FrameLemmas.v — what the accounting primitives never touch: the bank's static configuration
   (interest-rate config, flags, operational state, asset tag, decimals, limits). *)
Require Import Base Constants Fixed Curve Bank.
Require Import FixedLemmas BankLemmas.
Local Open Scope Z_scope.

Definition bank_static (b b' : bank) : Prop :=
  b_ir b' = b_ir b /\ b_flags b' = b_flags b /\ b_op_state b' = b_op_state b /\
  b_asset_tag b' = b_asset_tag b /\ b_decimals b' = b_decimals b /\
  b_dep_limit b' = b_dep_limit b /\ b_bor_limit b' = b_bor_limit b.

Lemma bank_static_refl b : bank_static b b.
Proof. unfold bank_static. repeat split; reflexivity. Qed.
Lemma bank_static_trans a b c : bank_static a b -> bank_static b c -> bank_static a c.
Proof. unfold bank_static. intros (?&?&?&?&?&?&?) (?&?&?&?&?&?&?). repeat split; congruence. Qed.

Ltac bs_refl := unfold bank_static; cbn; repeat split; reflexivity.

Lemma static_set_tas v b : bank_static b (set_b_tas v b). Proof. bs_refl. Qed.
Lemma static_set_tls v b : bank_static b (set_b_tls v b). Proof. bs_refl. Qed.
Lemma static_set_ins v b : bank_static b (set_b_ins v b). Proof. bs_refl. Qed.
Lemma static_set_grp v b : bank_static b (set_b_grp v b). Proof. bs_refl. Qed.
Lemma static_set_prog v b : bank_static b (set_b_prog v b). Proof. bs_refl. Qed.
Lemma static_set_asv v b : bank_static b (set_b_asv v b). Proof. bs_refl. Qed.
Lemma static_set_last_update v b : bank_static b (set_b_last_update v b). Proof. bs_refl. Qed.
Lemma static_dec_lend b : bank_static b (dec_lend b). Proof. bs_refl. Qed.
Lemma static_dec_bor b : bank_static b (dec_bor b). Proof. bs_refl. Qed.

Lemma static_update_counts b ha hl ha' hl' : bank_static b (update_counts b ha hl ha' hl').
Proof.
  unfold update_counts, inc_lend, dec_lend, inc_bor, dec_bor.
  destruct (negb ha && ha'), (ha && negb ha'), (negb hl && hl'), (hl && negb hl'); bs_refl.
Qed.

Lemma static_change_asset b sh byp b' : change_asset_shares b sh byp = Ok b' -> bank_static b b'.
Proof. intros H. apply change_asset_shares_inv in H as ->. apply static_set_tas. Qed.
Lemma static_change_liab b sh byp b' : change_liability_shares b sh byp = Ok b' -> bank_static b b'.
Proof. intros H. apply change_liability_shares_inv in H as ->. apply static_set_tls. Qed.

Lemma static_claim b bl now b1 bl1 : claim_emissions b bl now = Ok (b1, bl1) -> bank_static b b1.
Proof.
  intros H. destruct (claim_emissions_core _ _ _ _ _ H) as [C _].
  destruct C as (_&_&_&_&_&_&_&_&D&B&T&Dc&F&_&_&_&O&I). unfold bank_static. repeat split; assumption.
Qed.

Lemma static_increase b bl now delta t b' bl' : increase_balance b bl now delta t = Ok (b', bl') -> bank_static b b'.
Proof.
  unfold increase_balance. intros H.
  apply bind_ok in H as ([b0 bl0] & Hc & H). apply static_claim in Hc.
  apply bind_ok in H as (cur_l & _ & H). apply bind_ok in H as (d0 & _ & H). apply bind_ok in H as (u & _ & H).
  apply bind_ok in H as (ash & _ & H). apply bind_ok in H as (a' & _ & H).
  apply bind_ok in H as (b1 & H1 & H). apply static_change_asset in H1.
  apply bind_ok in H as (lsh & _ & H). apply bind_ok in H as (nl & _ & H). apply bind_ok in H as (l' & _ & H).
  apply bind_ok in H as (b2 & H2 & H). apply static_change_liab in H2.
  apply Ok_inj, pair_equal_spec in H as [<- _].
  eapply bank_static_trans; [exact Hc|]. eapply bank_static_trans; [exact H1|].
  eapply bank_static_trans; [exact H2|]. apply static_update_counts.
Qed.

Lemma static_decrease b bl now delta t b' bl' : decrease_balance b bl now delta t = Ok (b', bl') -> bank_static b b'.
Proof.
  unfold decrease_balance. intros H.
  apply bind_ok in H as ([b0 bl0] & Hc & H). apply static_claim in Hc.
  apply bind_ok in H as (cur_a & _ & H). apply bind_ok in H as (d0 & _ & H). apply bind_ok in H as (u & _ & H).
  apply bind_ok in H as (ash & _ & H). apply bind_ok in H as (nash & _ & H). apply bind_ok in H as (a' & _ & H).
  apply bind_ok in H as (b1 & H1 & H). apply static_change_asset in H1.
  apply bind_ok in H as (lsh & _ & H). apply bind_ok in H as (l' & _ & H).
  apply bind_ok in H as (b2 & H2 & H). apply static_change_liab in H2.
  apply bind_ok in H as (u2 & _ & H).
  apply Ok_inj, pair_equal_spec in H as [<- _].
  eapply bank_static_trans; [exact Hc|]. eapply bank_static_trans; [exact H1|].
  eapply bank_static_trans; [exact H2|]. apply static_update_counts.
Qed.

Lemma static_withdraw_all b bl now b' bl' n : withdraw_all b bl now = Ok (b', bl', n) -> bank_static b b'.
Proof.
  unfold withdraw_all. intros H.
  apply bind_ok in H as ([b0 bl0] & Hc & H). apply static_claim in Hc.
  apply bind_ok in H as (cur_a & _ & H). apply bind_ok in H as (cur_l & _ & H).
  apply bind_ok in H as (u1 & _ & H). apply bind_ok in H as (u2 & _ & H). apply bind_ok in H as (blc & _ & H).
  apply bind_ok in H as (nsh & _ & H). apply bind_ok in H as (b2 & H2 & H). apply static_change_asset in H2.
  apply bind_ok in H as (u3 & _ & H). apply bind_ok in H as (fl & _ & H). apply bind_ok in H as (dust & _ & H).
  apply bind_ok in H as (ins & _ & H). apply bind_ok in H as (n' & _ & H).
  apply Ok_inj, pair_equal_spec in H as [H _]. apply pair_equal_spec in H as [<- _].
  eapply bank_static_trans; [exact Hc|]. eapply bank_static_trans; [apply static_dec_lend|].
  eapply bank_static_trans; [exact H2|]. apply static_set_ins.
Qed.

Lemma static_repay_all b bl now b' bl' n : repay_all b bl now = Ok (b', bl', n) -> bank_static b b'.
Proof.
  unfold repay_all. intros H.
  apply bind_ok in H as ([b0 bl0] & Hc & H). apply static_claim in Hc.
  apply bind_ok in H as (cur_l & _ & H). apply bind_ok in H as (cur_a & _ & H).
  apply bind_ok in H as (u1 & _ & H). apply bind_ok in H as (u2 & _ & H). apply bind_ok in H as (blc & _ & H).
  apply bind_ok in H as (nsh & _ & H). apply bind_ok in H as (b2 & H2 & H). apply static_change_liab in H2.
  apply bind_ok in H as (ce & _ & H). apply bind_ok in H as (dust & _ & H).
  apply bind_ok in H as (ins & _ & H). apply bind_ok in H as (n' & _ & H).
  apply Ok_inj, pair_equal_spec in H as [H _]. apply pair_equal_spec in H as [<- _].
  eapply bank_static_trans; [exact Hc|]. eapply bank_static_trans; [apply static_dec_bor|].
  eapply bank_static_trans; [exact H2|]. apply static_set_ins.
Qed.

Lemma static_socialize b loss b' kill : socialize_loss b loss = Ok (b', kill) -> bank_static b b'.
Proof.
  unfold socialize_loss. intros H. apply bind_ok in H as (total & _ & H).
  destruct (total <=? loss).
  - apply Ok_inj, pair_equal_spec in H as [<- _]. apply static_set_asv.
  - apply bind_ok in H as (d & _ & H). apply bind_ok in H as (nsv & _ & H).
    apply Ok_inj, pair_equal_spec in H as [<- _]. apply static_set_asv.
Qed.

Lemma static_close_balance b bl now b' bl' : close_balance b bl now = Ok (b', bl') -> bank_static b b'.
Proof.
  unfold close_balance. intros H.
  apply bind_ok in H as ([b0 bl0] & Hc & H). apply static_claim in Hc.
  apply bind_ok in H as (cur_l & _ & H). apply bind_ok in H as (cur_a & _ & H).
  apply bind_ok in H as (u1 & _ & H). apply bind_ok in H as (u2 & _ & H). apply bind_ok in H as (blc & _ & H).
  apply Ok_inj, pair_equal_spec in H as [<- _]. exact Hc.
Qed.

(* ---------------------------------------------------------------- group / program fee buckets untouched *)
Definition gp_same (b b' : bank) : Prop := b_grp b' = b_grp b /\ b_prog b' = b_prog b.

Lemma gp_same_refl b : gp_same b b.
Proof. unfold gp_same. repeat split; reflexivity. Qed.
Lemma gp_same_trans a b c : gp_same a b -> gp_same b c -> gp_same a c.
Proof. unfold gp_same. intros (?&?) (?&?). split; congruence. Qed.

Ltac gp_refl := unfold gp_same; cbn; split; reflexivity.

Lemma gp_set_tas v b : gp_same b (set_b_tas v b). Proof. gp_refl. Qed.
Lemma gp_set_tls v b : gp_same b (set_b_tls v b). Proof. gp_refl. Qed.
Lemma gp_set_ins v b : gp_same b (set_b_ins v b). Proof. gp_refl. Qed.
Lemma gp_set_asv v b : gp_same b (set_b_asv v b). Proof. gp_refl. Qed.
Lemma gp_set_last_update v b : gp_same b (set_b_last_update v b). Proof. gp_refl. Qed.
Lemma gp_dec_lend b : gp_same b (dec_lend b). Proof. gp_refl. Qed.
Lemma gp_dec_bor b : gp_same b (dec_bor b). Proof. gp_refl. Qed.

Lemma gp_update_counts b ha hl ha' hl' : gp_same b (update_counts b ha hl ha' hl').
Proof.
  unfold update_counts, inc_lend, dec_lend, inc_bor, dec_bor.
  destruct (negb ha && ha'), (ha && negb ha'), (negb hl && hl'), (hl && negb hl'); gp_refl.
Qed.

Lemma gp_change_asset b sh byp b' : change_asset_shares b sh byp = Ok b' -> gp_same b b'.
Proof. intros H. apply change_asset_shares_inv in H as ->. apply gp_set_tas. Qed.
Lemma gp_change_liab b sh byp b' : change_liability_shares b sh byp = Ok b' -> gp_same b b'.
Proof. intros H. apply change_liability_shares_inv in H as ->. apply gp_set_tls. Qed.

Lemma gp_claim b bl now b1 bl1 : claim_emissions b bl now = Ok (b1, bl1) -> gp_same b b1.
Proof.
  intros H. destruct (claim_emissions_core _ _ _ _ _ H) as [C _].
  destruct C as (_&_&_&_&_&G&P&_). unfold gp_same. split; assumption.
Qed.

Lemma gp_increase b bl now delta t b' bl' : increase_balance b bl now delta t = Ok (b', bl') -> gp_same b b'.
Proof.
  unfold increase_balance. intros H.
  apply bind_ok in H as ([b0 bl0] & Hc & H). apply gp_claim in Hc.
  apply bind_ok in H as (cur_l & _ & H). apply bind_ok in H as (d0 & _ & H). apply bind_ok in H as (u & _ & H).
  apply bind_ok in H as (ash & _ & H). apply bind_ok in H as (a' & _ & H).
  apply bind_ok in H as (b1 & H1 & H). apply gp_change_asset in H1.
  apply bind_ok in H as (lsh & _ & H). apply bind_ok in H as (nl & _ & H). apply bind_ok in H as (l' & _ & H).
  apply bind_ok in H as (b2 & H2 & H). apply gp_change_liab in H2.
  apply Ok_inj, pair_equal_spec in H as [<- _].
  eapply gp_same_trans; [exact Hc|]. eapply gp_same_trans; [exact H1|].
  eapply gp_same_trans; [exact H2|]. apply gp_update_counts.
Qed.

Lemma gp_decrease b bl now delta t b' bl' : decrease_balance b bl now delta t = Ok (b', bl') -> gp_same b b'.
Proof.
  unfold decrease_balance. intros H.
  apply bind_ok in H as ([b0 bl0] & Hc & H). apply gp_claim in Hc.
  apply bind_ok in H as (cur_a & _ & H). apply bind_ok in H as (d0 & _ & H). apply bind_ok in H as (u & _ & H).
  apply bind_ok in H as (ash & _ & H). apply bind_ok in H as (nash & _ & H). apply bind_ok in H as (a' & _ & H).
  apply bind_ok in H as (b1 & H1 & H). apply gp_change_asset in H1.
  apply bind_ok in H as (lsh & _ & H). apply bind_ok in H as (l' & _ & H).
  apply bind_ok in H as (b2 & H2 & H). apply gp_change_liab in H2.
  apply bind_ok in H as (u2 & _ & H).
  apply Ok_inj, pair_equal_spec in H as [<- _].
  eapply gp_same_trans; [exact Hc|]. eapply gp_same_trans; [exact H1|].
  eapply gp_same_trans; [exact H2|]. apply gp_update_counts.
Qed.

Lemma gp_withdraw_all b bl now b' bl' n : withdraw_all b bl now = Ok (b', bl', n) -> gp_same b b'.
Proof.
  unfold withdraw_all. intros H.
  apply bind_ok in H as ([b0 bl0] & Hc & H). apply gp_claim in Hc.
  apply bind_ok in H as (cur_a & _ & H). apply bind_ok in H as (cur_l & _ & H).
  apply bind_ok in H as (u1 & _ & H). apply bind_ok in H as (u2 & _ & H). apply bind_ok in H as (blc & _ & H).
  apply bind_ok in H as (nsh & _ & H). apply bind_ok in H as (b2 & H2 & H). apply gp_change_asset in H2.
  apply bind_ok in H as (u3 & _ & H). apply bind_ok in H as (fl & _ & H). apply bind_ok in H as (dust & _ & H).
  apply bind_ok in H as (ins & _ & H). apply bind_ok in H as (n' & _ & H).
  apply Ok_inj, pair_equal_spec in H as [H _]. apply pair_equal_spec in H as [<- _].
  eapply gp_same_trans; [exact Hc|]. eapply gp_same_trans; [apply gp_dec_lend|].
  eapply gp_same_trans; [exact H2|]. apply gp_set_ins.
Qed.

Lemma gp_repay_all b bl now b' bl' n : repay_all b bl now = Ok (b', bl', n) -> gp_same b b'.
Proof.
  unfold repay_all. intros H.
  apply bind_ok in H as ([b0 bl0] & Hc & H). apply gp_claim in Hc.
  apply bind_ok in H as (cur_l & _ & H). apply bind_ok in H as (cur_a & _ & H).
  apply bind_ok in H as (u1 & _ & H). apply bind_ok in H as (u2 & _ & H). apply bind_ok in H as (blc & _ & H).
  apply bind_ok in H as (nsh & _ & H). apply bind_ok in H as (b2 & H2 & H). apply gp_change_liab in H2.
  apply bind_ok in H as (ce & _ & H). apply bind_ok in H as (dust & _ & H).
  apply bind_ok in H as (ins & _ & H). apply bind_ok in H as (n' & _ & H).
  apply Ok_inj, pair_equal_spec in H as [H _]. apply pair_equal_spec in H as [<- _].
  eapply gp_same_trans; [exact Hc|]. eapply gp_same_trans; [apply gp_dec_bor|].
  eapply gp_same_trans; [exact H2|]. apply gp_set_ins.
Qed.

Lemma gp_socialize b loss b' kill : socialize_loss b loss = Ok (b', kill) -> gp_same b b'.
Proof.
  unfold socialize_loss. intros H. apply bind_ok in H as (total & _ & H).
  destruct (total <=? loss).
  - apply Ok_inj, pair_equal_spec in H as [<- _]. apply gp_set_asv.
  - apply bind_ok in H as (d & _ & H). apply bind_ok in H as (nsv & _ & H).
    apply Ok_inj, pair_equal_spec in H as [<- _]. apply gp_set_asv.
Qed.

Lemma gp_close_balance b bl now b' bl' : close_balance b bl now = Ok (b', bl') -> gp_same b b'.
Proof.
  unfold close_balance. intros H.
  apply bind_ok in H as ([b0 bl0] & Hc & H). apply gp_claim in Hc.
  apply bind_ok in H as (cur_l & _ & H). apply bind_ok in H as (cur_a & _ & H).
  apply bind_ok in H as (u1 & _ & H). apply bind_ok in H as (u2 & _ & H). apply bind_ok in H as (blc & _ & H).
  apply Ok_inj, pair_equal_spec in H as [<- _]. exact Hc.
Qed.

(* ---------------------------------------------------------------- last_update untouched *)
Definition lu_same (b b' : bank) : Prop := b_last_update b' = b_last_update b.

Lemma lu_same_refl b : lu_same b b.
Proof. unfold lu_same. reflexivity. Qed.
Lemma lu_same_trans a b c : lu_same a b -> lu_same b c -> lu_same a c.
Proof. unfold lu_same. congruence. Qed.

Ltac lu_refl := unfold lu_same; cbn; reflexivity.

Lemma lu_set_tas v b : lu_same b (set_b_tas v b). Proof. lu_refl. Qed.
Lemma lu_set_tls v b : lu_same b (set_b_tls v b). Proof. lu_refl. Qed.
Lemma lu_set_ins v b : lu_same b (set_b_ins v b). Proof. lu_refl. Qed.
Lemma lu_set_grp v b : lu_same b (set_b_grp v b). Proof. lu_refl. Qed.
Lemma lu_set_prog v b : lu_same b (set_b_prog v b). Proof. lu_refl. Qed.
Lemma lu_set_asv v b : lu_same b (set_b_asv v b). Proof. lu_refl. Qed.
Lemma lu_dec_lend b : lu_same b (dec_lend b). Proof. lu_refl. Qed.
Lemma lu_dec_bor b : lu_same b (dec_bor b). Proof. lu_refl. Qed.

Lemma lu_update_counts b ha hl ha' hl' : lu_same b (update_counts b ha hl ha' hl').
Proof.
  unfold update_counts, inc_lend, dec_lend, inc_bor, dec_bor.
  destruct (negb ha && ha'), (ha && negb ha'), (negb hl && hl'), (hl && negb hl'); lu_refl.
Qed.

Lemma lu_change_asset b sh byp b' : change_asset_shares b sh byp = Ok b' -> lu_same b b'.
Proof. intros H. apply change_asset_shares_inv in H as ->. apply lu_set_tas. Qed.
Lemma lu_change_liab b sh byp b' : change_liability_shares b sh byp = Ok b' -> lu_same b b'.
Proof. intros H. apply change_liability_shares_inv in H as ->. apply lu_set_tls. Qed.

Lemma lu_claim b bl now b1 bl1 : claim_emissions b bl now = Ok (b1, bl1) -> lu_same b b1.
Proof.
  intros H. destruct (claim_emissions_core _ _ _ _ _ H) as [C _].
  destruct C as (_&_&_&_&_&_&_&U&_). unfold lu_same. exact U.
Qed.

Lemma lu_increase b bl now delta t b' bl' : increase_balance b bl now delta t = Ok (b', bl') -> lu_same b b'.
Proof.
  unfold increase_balance. intros H.
  apply bind_ok in H as ([b0 bl0] & Hc & H). apply lu_claim in Hc.
  apply bind_ok in H as (cur_l & _ & H). apply bind_ok in H as (d0 & _ & H). apply bind_ok in H as (u & _ & H).
  apply bind_ok in H as (ash & _ & H). apply bind_ok in H as (a' & _ & H).
  apply bind_ok in H as (b1 & H1 & H). apply lu_change_asset in H1.
  apply bind_ok in H as (lsh & _ & H). apply bind_ok in H as (nl & _ & H). apply bind_ok in H as (l' & _ & H).
  apply bind_ok in H as (b2 & H2 & H). apply lu_change_liab in H2.
  apply Ok_inj, pair_equal_spec in H as [<- _].
  eapply lu_same_trans; [exact Hc|]. eapply lu_same_trans; [exact H1|].
  eapply lu_same_trans; [exact H2|]. apply lu_update_counts.
Qed.

Lemma lu_decrease b bl now delta t b' bl' : decrease_balance b bl now delta t = Ok (b', bl') -> lu_same b b'.
Proof.
  unfold decrease_balance. intros H.
  apply bind_ok in H as ([b0 bl0] & Hc & H). apply lu_claim in Hc.
  apply bind_ok in H as (cur_a & _ & H). apply bind_ok in H as (d0 & _ & H). apply bind_ok in H as (u & _ & H).
  apply bind_ok in H as (ash & _ & H). apply bind_ok in H as (nash & _ & H). apply bind_ok in H as (a' & _ & H).
  apply bind_ok in H as (b1 & H1 & H). apply lu_change_asset in H1.
  apply bind_ok in H as (lsh & _ & H). apply bind_ok in H as (l' & _ & H).
  apply bind_ok in H as (b2 & H2 & H). apply lu_change_liab in H2.
  apply bind_ok in H as (u2 & _ & H).
  apply Ok_inj, pair_equal_spec in H as [<- _].
  eapply lu_same_trans; [exact Hc|]. eapply lu_same_trans; [exact H1|].
  eapply lu_same_trans; [exact H2|]. apply lu_update_counts.
Qed.

Lemma lu_withdraw_all b bl now b' bl' n : withdraw_all b bl now = Ok (b', bl', n) -> lu_same b b'.
Proof.
  unfold withdraw_all. intros H.
  apply bind_ok in H as ([b0 bl0] & Hc & H). apply lu_claim in Hc.
  apply bind_ok in H as (cur_a & _ & H). apply bind_ok in H as (cur_l & _ & H).
  apply bind_ok in H as (u1 & _ & H). apply bind_ok in H as (u2 & _ & H). apply bind_ok in H as (blc & _ & H).
  apply bind_ok in H as (nsh & _ & H). apply bind_ok in H as (b2 & H2 & H). apply lu_change_asset in H2.
  apply bind_ok in H as (u3 & _ & H). apply bind_ok in H as (fl & _ & H). apply bind_ok in H as (dust & _ & H).
  apply bind_ok in H as (ins & _ & H). apply bind_ok in H as (n' & _ & H).
  apply Ok_inj, pair_equal_spec in H as [H _]. apply pair_equal_spec in H as [<- _].
  eapply lu_same_trans; [exact Hc|]. eapply lu_same_trans; [apply lu_dec_lend|].
  eapply lu_same_trans; [exact H2|]. apply lu_set_ins.
Qed.

Lemma lu_repay_all b bl now b' bl' n : repay_all b bl now = Ok (b', bl', n) -> lu_same b b'.
Proof.
  unfold repay_all. intros H.
  apply bind_ok in H as ([b0 bl0] & Hc & H). apply lu_claim in Hc.
  apply bind_ok in H as (cur_l & _ & H). apply bind_ok in H as (cur_a & _ & H).
  apply bind_ok in H as (u1 & _ & H). apply bind_ok in H as (u2 & _ & H). apply bind_ok in H as (blc & _ & H).
  apply bind_ok in H as (nsh & _ & H). apply bind_ok in H as (b2 & H2 & H). apply lu_change_liab in H2.
  apply bind_ok in H as (ce & _ & H). apply bind_ok in H as (dust & _ & H).
  apply bind_ok in H as (ins & _ & H). apply bind_ok in H as (n' & _ & H).
  apply Ok_inj, pair_equal_spec in H as [H _]. apply pair_equal_spec in H as [<- _].
  eapply lu_same_trans; [exact Hc|]. eapply lu_same_trans; [apply lu_dec_bor|].
  eapply lu_same_trans; [exact H2|]. apply lu_set_ins.
Qed.

Lemma lu_socialize b loss b' kill : socialize_loss b loss = Ok (b', kill) -> lu_same b b'.
Proof.
  unfold socialize_loss. intros H. apply bind_ok in H as (total & _ & H).
  destruct (total <=? loss).
  - apply Ok_inj, pair_equal_spec in H as [<- _]. apply lu_set_asv.
  - apply bind_ok in H as (d & _ & H). apply bind_ok in H as (nsv & _ & H).
    apply Ok_inj, pair_equal_spec in H as [<- _]. apply lu_set_asv.
Qed.

Lemma lu_close_balance b bl now b' bl' : close_balance b bl now = Ok (b', bl') -> lu_same b b'.
Proof.
  unfold close_balance. intros H.
  apply bind_ok in H as ([b0 bl0] & Hc & H). apply lu_claim in Hc.
  apply bind_ok in H as (cur_l & _ & H). apply bind_ok in H as (cur_a & _ & H).
  apply bind_ok in H as (u1 & _ & H). apply bind_ok in H as (u2 & _ & H). apply bind_ok in H as (blc & _ & H).
  apply Ok_inj, pair_equal_spec in H as [<- _]. exact Hc.
Qed.

