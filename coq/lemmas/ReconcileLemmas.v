(* ReconcileLemmas.v — C04: reconcile_emode_configs (type-crate/src/types/emode.rs, model
   Risk.reconcile_emode) yields, for every tag that is present in ALL the given configs, the
   entry-wise minimum of the flags / init weight / maintenance weight over the configs, and nothing for
   every other tag (intersection with minimum), for any number of configs. *)
Require Import Base Constants Fixed Curve Bank Risk FixedLemmas.
From Coq Require Import ZifyBool.
Local Open Scope Z_scope.

Definition tagof (p : rentry * Z) : Z := re_tag (fst p).
Definition mget (t : Z) (m : list (rentry * Z)) : option (rentry * Z) := find (fun p => tagof p =? t) m.
Definition has (t : Z) (c : list rentry) : option rentry := find (fun e => re_tag e =? t) c.

Inductive msorted : list (rentry * Z) -> Prop :=
| ms_nil : msorted []
| ms_cons x r : Forall (fun p => tagof x < tagof p) r -> msorted r -> msorted (x :: r).

Definition mergeE (x e : rentry) : rentry :=
  mkRE (re_tag x) (Z.min (re_flags x) (re_flags e))
       (if re_wi e <? re_wi x then re_wi e else re_wi x)
       (if re_wm e <? re_wm x then re_wm e else re_wm x).
Definition upd (o : option (rentry * Z)) (e : rentry) : rentry * Z :=
  match o with Some (x, c) => (mergeE x e, c + 1) | None => (e, 1) end.

Lemma mergeE_min x e :
  re_tag (mergeE x e) = re_tag x /\ re_flags (mergeE x e) = Z.min (re_flags x) (re_flags e) /\
  re_wi (mergeE x e) = Z.min (re_wi x) (re_wi e) /\ re_wm (mergeE x e) = Z.min (re_wm x) (re_wm e).
Proof.
  unfold mergeE. cbn [re_tag re_flags re_wi re_wm]. repeat split.
  - destruct (re_wi e <? re_wi x) eqn:E; lia.
  - destruct (re_wm e <? re_wm x) eqn:E; lia.
Qed.

Lemma mget_above t m : Forall (fun p => t < tagof p) m -> mget t m = None.
Proof.
  unfold mget. induction 1 as [|x r Hx _ IH]; cbn [find]; [reflexivity|].
  replace (tagof x =? t) with false by lia. exact IH.
Qed.

Lemma merge_entry_tags (P : Z -> Prop) e m :
  P (re_tag e) -> Forall (fun p => P (tagof p)) m -> Forall (fun p => P (tagof p)) (merge_entry e m).
Proof.
  intros He. induction 1 as [|[x c] r Hx Hr IH]; cbn [merge_entry].
  - constructor; [exact He | constructor].
  - destruct (re_tag e <? re_tag x); [constructor; [exact He | constructor; assumption]|].
    destruct (re_tag e =? re_tag x); [constructor; [exact Hx | exact Hr]|].
    constructor; [exact Hx | exact IH].
Qed.

Lemma merge_entry_sorted e m : msorted m -> msorted (merge_entry e m).
Proof.
  induction 1 as [|[x c] r Hx Hr IH]; cbn [merge_entry].
  - constructor; constructor.
  - unfold tagof in Hx. cbn [fst] in Hx.
    destruct (re_tag e <? re_tag x) eqn:E1.
    + constructor; [|constructor; assumption]. constructor; [unfold tagof; cbn [fst]; lia|].
      eapply Forall_impl; [|exact Hx]. intros p Hp. unfold tagof in *. cbn [fst] in *. lia.
    + destruct (re_tag e =? re_tag x) eqn:E2.
      * constructor; [|exact Hr]. exact Hx.
      * constructor; [|exact IH]. apply (merge_entry_tags (fun t => re_tag x < t)); [lia | exact Hx].
Qed.

Lemma mget_cons t x c r : mget t ((x, c) :: r) = if re_tag x =? t then Some (x, c) else mget t r.
Proof. reflexivity. Qed.

Lemma merge_entry_get t e m :
  msorted m -> mget t (merge_entry e m) = if t =? re_tag e then Some (upd (mget t m) e) else mget t m.
Proof.
  induction 1 as [|[x c] r Hx Hr IH]; cbn [merge_entry].
  - rewrite mget_cons. change (mget t []) with (@None (rentry * Z)). cbn [upd].
    destruct (t =? re_tag e) eqn:E; [replace (re_tag e =? t) with true by lia | replace (re_tag e =? t) with false by lia]; reflexivity.
  - unfold tagof in Hx. cbn [fst] in Hx.
    destruct (re_tag e <? re_tag x) eqn:E1.
    + rewrite mget_cons.
      destruct (t =? re_tag e) eqn:E.
      * replace (re_tag e =? t) with true by lia.
        rewrite mget_above; [reflexivity|].
        constructor; [unfold tagof; cbn [fst]; lia|].
        eapply Forall_impl; [|exact Hx]. intros p Hp. unfold tagof in *. cbn [fst] in *. lia.
      * replace (re_tag e =? t) with false by lia. reflexivity.
    + destruct (re_tag e =? re_tag x) eqn:E2.
      * rewrite !mget_cons. cbn [mergeE re_tag].
        destruct (t =? re_tag e) eqn:E.
        -- replace (re_tag x =? t) with true by lia. reflexivity.
        -- replace (re_tag x =? t) with false by lia. reflexivity.
      * rewrite !mget_cons.
        destruct (re_tag x =? t) eqn:E3.
        -- replace (t =? re_tag e) with false by lia. reflexivity.
        -- exact IH.
Qed.

(* ---------------------------------------------------------------- one config *)
Definition nz (e : rentry) : bool := negb (re_tag e =? EMODE_TAG_EMPTY).
Definition wf_cfg (c : list rentry) : Prop := NoDup (map re_tag (filter nz c)).

Lemma merge_cfg_cons e r m :
  merge_cfg (e :: r) m = merge_cfg r (if re_tag e =? EMODE_TAG_EMPTY then m else merge_entry e m).
Proof. reflexivity. Qed.

Lemma merge_cfg_sorted cfg : forall m, msorted m -> msorted (merge_cfg cfg m).
Proof.
  induction cfg as [|e r IH]; intros m Hm; [exact Hm|].
  rewrite merge_cfg_cons. apply IH. destruct (re_tag e =? EMODE_TAG_EMPTY); [exact Hm | apply merge_entry_sorted; exact Hm].
Qed.

Lemma has_none_notin t r : t <> 0 -> ~ In t (map re_tag (filter nz r)) -> has t r = None.
Proof.
  intros Ht. unfold has. induction r as [|e r IH]; intros Hn; cbn [find]; [reflexivity|].
  cbn [filter] in Hn. unfold nz at 1 in Hn. change EMODE_TAG_EMPTY with 0 in Hn.
  destruct (re_tag e =? t) eqn:E.
  - exfalso. replace (re_tag e =? 0) with false in Hn by lia. cbn [negb map] in Hn. apply Hn. left. lia.
  - apply IH. intros Hin. apply Hn. destruct (negb (re_tag e =? 0)); [right|]; exact Hin.
Qed.

Lemma merge_cfg_get t cfg : t <> 0 -> forall m, msorted m -> wf_cfg cfg ->
  mget t (merge_cfg cfg m) = match has t cfg with Some e => Some (upd (mget t m) e) | None => mget t m end.
Proof.
  intros Ht. induction cfg as [|e r IH]; intros m Hm Hwf; [reflexivity|].
  rewrite merge_cfg_cons. unfold has. cbn [find]. fold (has t r).
  unfold wf_cfg in Hwf. cbn [filter] in Hwf. unfold nz at 1 in Hwf.
  change EMODE_TAG_EMPTY with 0 in *.
  destruct (re_tag e =? 0) eqn:E0; cbn [negb] in Hwf.
  - replace (re_tag e =? t) with false by lia. apply IH; assumption.
  - cbn [map] in Hwf. apply NoDup_cons_iff in Hwf as [Hnin Hwf].
    rewrite IH; [|apply merge_entry_sorted; exact Hm | exact Hwf].
    rewrite merge_entry_get by exact Hm.
    destruct (re_tag e =? t) eqn:E.
    + replace (t =? re_tag e) with true by lia.
      rewrite has_none_notin; [reflexivity | exact Ht |]. replace t with (re_tag e) by lia. exact Hnin.
    + replace (t =? re_tag e) with false by lia. reflexivity.
Qed.

(* ---------------------------------------------------------------- all configs *)
Fixpoint accum (t : Z) (cfgs : list (list rentry)) (o : option (rentry * Z)) : option (rentry * Z) :=
  match cfgs with
  | [] => o
  | c :: r => accum t r (match has t c with Some e => Some (upd o e) | None => o end)
  end.

Lemma fold_cfgs_get t cfgs : t <> 0 -> Forall wf_cfg cfgs -> forall m, msorted m ->
  msorted (fold_left (fun m c => merge_cfg c m) cfgs m) /\
  mget t (fold_left (fun m c => merge_cfg c m) cfgs m) = accum t cfgs (mget t m).
Proof.
  intros Ht. induction 1 as [|c r Hc Hr IH]; intros m Hm; cbn [fold_left accum]; [split; [exact Hm | reflexivity]|].
  destruct (IH (merge_cfg c m) (merge_cfg_sorted _ _ Hm)) as [S G]. split; [exact S|].
  rewrite G, (merge_cfg_get t c Ht m Hm Hc). reflexivity.
Qed.

Fixpoint cnt (t : Z) (l : list (list rentry)) : Z :=
  match l with [] => 0 | c :: r => (match has t c with Some _ => 1 | None => 0 end) + cnt t r end.

Lemma cnt_le t l : 0 <= cnt t l <= Z.of_nat (length l).
Proof. induction l as [|c r IH]; cbn [cnt length]; [lia|]. destruct (has t c); lia. Qed.
Lemma cnt_full t l : cnt t l = Z.of_nat (length l) -> forall c, In c l -> exists e, has t c = Some e.
Proof.
  induction l as [|c r IH]; cbn [cnt length]; intros H c' Hin; [destruct Hin|].
  pose proof (cnt_le t r). destruct (has t c) as [e|] eqn:E; [|lia].
  destruct Hin as [<-|Hin]; [eauto | apply IH; [lia | exact Hin]].
Qed.
Lemma cnt_full_rev t l : (forall c, In c l -> exists e, has t c = Some e) -> cnt t l = Z.of_nat (length l).
Proof.
  induction l as [|c r IH]; cbn [cnt length]; intros H; [reflexivity|].
  destruct (H c (or_introl eq_refl)) as (e & ->). rewrite IH; [lia|]. intros c' Hc'. apply H. right. exact Hc'.
Qed.

(* what has been accumulated after the configs in `seen` *)
Definition good (t : Z) (seen : list (list rentry)) (o : option (rentry * Z)) : Prop :=
  match o with
  | None => cnt t seen = 0
  | Some (x, k) =>
      re_tag x = t /\ k = cnt t seen /\ 0 < k /\
      (forall c e, In c seen -> has t c = Some e ->
         re_flags x <= re_flags e /\ re_wi x <= re_wi e /\ re_wm x <= re_wm e) /\
      (exists c e, In c seen /\ has t c = Some e /\ re_flags x = re_flags e) /\
      (exists c e, In c seen /\ has t c = Some e /\ re_wi x = re_wi e) /\
      (exists c e, In c seen /\ has t c = Some e /\ re_wm x = re_wm e)
  end.

Lemma has_tag t c e : has t c = Some e -> re_tag e = t.
Proof. unfold has. intros H. apply find_some in H as [_ H]. lia. Qed.

Lemma good_step t seen o c :
  good t seen o -> good t (c :: seen) (match has t c with Some e => Some (upd o e) | None => o end).
Proof.
  intros G. destruct (has t c) as [e|] eqn:Ec.
  - pose proof (has_tag _ _ _ Ec) as Ete. destruct o as [[x k]|]; cbn [upd good] in *.
    + destruct G as (Gt & Gk & Gp & Gle & (c1 & e1 & I1 & H1 & M1) & (c2 & e2 & I2 & H2 & M2) & (c3 & e3 & I3 & H3 & M3)).
      destruct (mergeE_min x e) as (T & F & WI & WM). cbn [cnt]. rewrite Ec.
      split; [lia|]. split; [lia|]. split; [lia|]. split; [|split; [|split]].
      * intros c' e' [<-|Hin] Hh.
        -- rewrite Ec in Hh. inversion Hh; subst e'. lia.
        -- destruct (Gle _ _ Hin Hh) as (? & ? & ?). lia.
      * destruct (Z.le_ge_cases (re_flags x) (re_flags e)).
        -- exists c1, e1. split; [right; exact I1|]. split; [exact H1 | lia].
        -- exists c, e. split; [left; reflexivity|]. split; [exact Ec | lia].
      * destruct (Z.le_ge_cases (re_wi x) (re_wi e)).
        -- exists c2, e2. split; [right; exact I2|]. split; [exact H2 | lia].
        -- exists c, e. split; [left; reflexivity|]. split; [exact Ec | lia].
      * destruct (Z.le_ge_cases (re_wm x) (re_wm e)).
        -- exists c3, e3. split; [right; exact I3|]. split; [exact H3 | lia].
        -- exists c, e. split; [left; reflexivity|]. split; [exact Ec | lia].
    + cbn [cnt]. rewrite Ec. split; [exact Ete|]. split; [lia|]. split; [lia|]. split; [|split; [|split]].
      * intros c' e' [<-|Hin] Hh.
        -- rewrite Ec in Hh. inversion Hh; subst e'. lia.
        -- exfalso. clear - G Hin Hh. revert G. induction seen as [|s r IH]; [destruct Hin|]. cbn [cnt].
           pose proof (cnt_le t r). destruct Hin as [<-|Hin]; [rewrite Hh; lia|].
           destruct (has t s); [lia|]. intros G. apply IH; [exact Hin | lia].
      * exists c, e. split; [left; reflexivity|]. split; [exact Ec | reflexivity].
      * exists c, e. split; [left; reflexivity|]. split; [exact Ec | reflexivity].
      * exists c, e. split; [left; reflexivity|]. split; [exact Ec | reflexivity].
  - destruct o as [[x k]|]; cbn [good cnt] in *; rewrite ?Ec.
    + destruct G as (Gt & Gk & Gp & Gle & (c1 & e1 & I1 & H1 & M1) & (c2 & e2 & I2 & H2 & M2) & (c3 & e3 & I3 & H3 & M3)).
      split; [exact Gt|]. split; [lia|]. split; [exact Gp|]. split; [|split; [|split]].
      * intros c' e' [<-|Hin] Hh; [rewrite Ec in Hh; discriminate | exact (Gle _ _ Hin Hh)].
      * exists c1, e1. split; [right; exact I1 | split; assumption].
      * exists c2, e2. split; [right; exact I2 | split; assumption].
      * exists c3, e3. split; [right; exact I3 | split; assumption].
    + lia.
Qed.

Lemma cnt_app t a b : cnt t (a ++ b) = cnt t a + cnt t b.
Proof. induction a as [|c r IH]; cbn [app cnt]; [reflexivity|]. rewrite IH. lia. Qed.
Lemma cnt_rev t l : cnt t (rev l) = cnt t l.
Proof. induction l as [|c r IH]; cbn [rev cnt]; [reflexivity|]. rewrite cnt_app, IH. cbn [cnt]. lia. Qed.

Lemma accum_good t rest : forall seen o, good t seen o -> good t (rev rest ++ seen) (accum t rest o).
Proof.
  induction rest as [|c r IH]; intros seen o G; cbn [rev app accum]; [exact G|].
  rewrite <- app_assoc. cbn [app]. apply IH. apply good_step. exact G.
Qed.

(* ---------------------------------------------------------------- the final filter *)
Lemma final_get t n M :
  msorted M ->
  find (fun e => re_tag e =? t) (map fst (filter (fun p => snd p =? n) M)) =
  match mget t M with Some (x, k) => if k =? n then Some x else None | None => None end.
Proof.
  induction 1 as [|[x k] r Hx Hr IH]; [reflexivity|].
  rewrite mget_cons. cbn [filter snd].
  unfold tagof in Hx. cbn [fst] in Hx.
  destruct (re_tag x =? t) eqn:E.
  - destruct (k =? n) eqn:Ek; cbn [map find fst]; [rewrite E; reflexivity|].
    rewrite IH. rewrite mget_above; [reflexivity|]. eapply Forall_impl; [|exact Hx]. intros p Hp. cbn beta in Hp. unfold tagof. lia.
  - destruct (k =? n) eqn:Ek; cbn [map find fst]; [rewrite E|]; exact IH.
Qed.

Lemma find_with_tag_has c t : t <> 0 -> find_with_tag c t = has t c.
Proof. intros Ht. unfold find_with_tag, has. change EMODE_TAG_EMPTY with 0. replace (t =? 0) with false by lia. reflexivity. Qed.

Lemma reconcile_get cfgs t : t <> 0 -> cfgs <> [] -> Forall wf_cfg cfgs ->
  find_with_tag (reconcile_emode cfgs) t =
  match accum t cfgs None with Some (x, k) => if k =? Z.of_nat (length cfgs) then Some x else None | None => None end.
Proof.
  intros Ht Hne Hwf. rewrite find_with_tag_has by exact Ht. unfold has, reconcile_emode.
  destruct cfgs as [|c0 rest]; [congruence|].
  destruct (fold_cfgs_get t (c0 :: rest) Ht Hwf [] ms_nil) as [S G].
  rewrite (final_get t _ _ S), G. reflexivity.
Qed.

(* ---------------------------------------------------------------- the characterisation *)
Theorem reconcile_some cfgs t x :
  Forall wf_cfg cfgs -> find_with_tag (reconcile_emode cfgs) t = Some x ->
  t <> 0 /\ re_tag x = t /\
  (forall c, In c cfgs -> exists e, find_with_tag c t = Some e /\
       re_flags x <= re_flags e /\ re_wi x <= re_wi e /\ re_wm x <= re_wm e) /\
  (exists c e, In c cfgs /\ find_with_tag c t = Some e /\ re_flags x = re_flags e) /\
  (exists c e, In c cfgs /\ find_with_tag c t = Some e /\ re_wi x = re_wi e) /\
  (exists c e, In c cfgs /\ find_with_tag c t = Some e /\ re_wm x = re_wm e).
Proof.
  intros Hwf H.
  assert (Ht : t <> 0).
  { intros ->. unfold find_with_tag in H. change (0 =? EMODE_TAG_EMPTY) with true in H. discriminate. }
  assert (Hne : cfgs <> []) by (intros ->; cbn in H; unfold find_with_tag in H; destruct (t =? EMODE_TAG_EMPTY); discriminate).
  rewrite (reconcile_get _ _ Ht Hne Hwf) in H.
  pose proof (accum_good t cfgs [] None eq_refl) as G. rewrite app_nil_r in G.
  destruct (accum t cfgs None) as [[y k]|]; [|discriminate].
  destruct (k =? Z.of_nat (length cfgs)) eqn:Ek; [|discriminate]. inversion H; subst y. clear H.
  cbn [good] in G. destruct G as (Gt & Gk & Gp & Gle & (c1 & e1 & I1 & H1 & M1) & (c2 & e2 & I2 & H2 & M2) & (c3 & e3 & I3 & H3 & M3)).
  rewrite cnt_rev in Gk.
  assert (Hall : forall c, In c cfgs -> exists e, has t c = Some e) by (apply cnt_full; lia).
  split; [exact Ht|]. split; [exact Gt|]. split; [|split; [|split]].
  - intros c Hc. destruct (Hall c Hc) as (e & He). exists e. rewrite find_with_tag_has by exact Ht.
    split; [exact He|]. apply (Gle c e); [rewrite <- in_rev; exact Hc | exact He].
  - exists c1, e1. rewrite find_with_tag_has by exact Ht. split; [apply in_rev; exact I1 | split; assumption].
  - exists c2, e2. rewrite find_with_tag_has by exact Ht. split; [apply in_rev; exact I2 | split; assumption].
  - exists c3, e3. rewrite find_with_tag_has by exact Ht. split; [apply in_rev; exact I3 | split; assumption].
Qed.

Lemma classic_all t l :
  (forall c, In c l -> exists e, has t c = Some e) \/ (exists c, In c l /\ has t c = None).
Proof.
  induction l as [|c r [IH|(c' & Hc' & Hn)]].
  - left. intros c [].
  - destruct (has t c) as [e|] eqn:E.
    + left. intros c' [<-|Hin]; [eauto | apply IH; exact Hin].
    + right. exists c. split; [left; reflexivity | exact E].
  - right. exists c'. split; [right; exact Hc' | exact Hn].
Qed.

Theorem reconcile_none cfgs t :
  Forall wf_cfg cfgs -> find_with_tag (reconcile_emode cfgs) t = None ->
  t = 0 \/ cfgs = [] \/ exists c, In c cfgs /\ find_with_tag c t = None.
Proof.
  intros Hwf H. destruct (Z.eq_dec t 0) as [Ht|Ht]; [left; exact Ht|]. right.
  destruct cfgs as [|c0 rest] eqn:Ecf; [left; reflexivity|]. right. rewrite <- Ecf in *.
  assert (Hne : cfgs <> []) by (rewrite Ecf; discriminate).
  rewrite (reconcile_get _ _ Ht Hne Hwf) in H.
  pose proof (accum_good t cfgs [] None eq_refl) as G. rewrite app_nil_r in G.
  destruct (classic_all t cfgs) as [Hall | (c & Hc & Hn)].
  - exfalso. pose proof (cnt_full_rev t cfgs Hall) as Hc.
    destruct (accum t cfgs None) as [[y k]|]; cbn [good] in G.
    + destruct G as (_ & Gk & _). rewrite cnt_rev in Gk. replace (k =? Z.of_nat (length cfgs)) with true in H by lia. discriminate.
    + rewrite cnt_rev in G. rewrite Ecf in Hc, G. cbn [length] in Hc. lia.
  - exists c. split; [exact Hc|]. rewrite find_with_tag_has by exact Ht. exact Hn.
Qed.
