(* TxLemmas.v — proofs about the introspection validators of model/Tx.v (pure list theorems, any
   length).  The world-level bracket theorems are in TxWorldLemmas.v. *)
Require Import Base Fixed Constants TxConstants Tx TxSpec.
From Coq Require Import ZifyBool.
Local Open Scope Z_scope.

(* ------------------------------------------------------------------------------------------ *)
(* generic helpers                                                                             *)
(* ------------------------------------------------------------------------------------------ *)

Lemma tx_Ok_inj {A : Type} (a b : A) : Ok a = Ok b -> a = b.
Proof. intros E; inversion E; reflexivity. Qed.

Lemma tx_bind_ok {A B} (r : res A) (f : A -> res B) v :
  bind r f = Ok v -> exists a, r = Ok a /\ f a = Ok v.
Proof. destruct r; cbn; intros H; [eauto | discriminate]. Qed.

Lemma check_true c e : check c e = Ok tt <-> c = true.
Proof. unfold check; destruct c; split; intros H; try reflexivity; discriminate. Qed.

Lemma bind_check {B} c e (k : unit -> res B) v :
  bind (check c e) k = Ok v <-> c = true /\ k tt = Ok v.
Proof.
  unfold check; destruct c; cbn; split.
  - intros H; split; [reflexivity | exact H].
  - intros [_ H]; exact H.
  - discriminate.
  - intros [H _]; discriminate.
Qed.

Lemma prog_eqb_eq p q : prog_eqb p q = true <-> p = q.
Proof.
  destruct p, q; cbn; split; intros H; try reflexivity; try discriminate.
  - apply Z.eqb_eq in H; subst; reflexivity.
  - inversion H; subst; apply Z.eqb_refl.
Qed.

Lemma prog_eqb_refl p : prog_eqb p p = true.
Proof. apply prog_eqb_eq; reflexivity. Qed.

Lemma prog_eqb_sym p q : prog_eqb p q = prog_eqb q p.
Proof.
  destruct (prog_eqb p q) eqn:E.
  - apply prog_eqb_eq in E; subst; symmetry; apply prog_eqb_refl.
  - destruct (prog_eqb q p) eqn:E2; [|reflexivity].
    apply prog_eqb_eq in E2; subst; rewrite prog_eqb_refl in E; discriminate.
Qed.

Lemma nth_zf_eq {A} (l : list A) : forall i, 0 <= i -> nth_zf l i = nth_error l (Z.to_nat i).
Proof.
  induction l as [|x tl IH]; intros i Hi; cbn [nth_zf].
  - destruct (Z.to_nat i); reflexivity.
  - destruct (Z.eqb_spec i 0) as [->|N]; [reflexivity|].
    rewrite IH by lia. replace (Z.to_nat i) with (S (Z.to_nat (i - 1))) by lia. reflexivity.
Qed.

Lemma nth_z_eq {A} (l : list A) i : nth_z l i = if i <? 0 then None else nth_error l (Z.to_nat i).
Proof. unfold nth_z. destruct (Z.ltb_spec i 0); [reflexivity | apply nth_zf_eq; lia]. Qed.

Lemma nth_z_Some {A} (l : list A) i x : nth_z l i = Some x -> 0 <= i < len_z l.
Proof.
  rewrite nth_z_eq; unfold len_z. destruct (i <? 0) eqn:E; [discriminate|]. intros H.
  assert (Hn : (Z.to_nat i < length l)%nat) by (apply nth_error_Some; congruence). lia.
Qed.

Lemma nth_z_In {A} (l : list A) i x : nth_z l i = Some x -> In x l.
Proof. rewrite nth_z_eq. destruct (i <? 0); [discriminate|]. apply nth_error_In. Qed.

Lemma nth_z_app_mid {A} (pre : list A) x post : nth_z (pre ++ x :: post) (len_z pre) = Some x.
Proof.
  rewrite nth_z_eq; unfold len_z. replace (Z.of_nat (length pre) <? 0) with false by lia.
  rewrite Nat2Z.id. rewrite nth_error_app2 by lia. rewrite Nat.sub_diag. reflexivity.
Qed.

Lemma nth_z_split {A} (l : list A) i x :
  nth_z l i = Some x -> exists pre post, l = pre ++ x :: post /\ len_z pre = i.
Proof.
  rewrite nth_z_eq; unfold len_z. destruct (i <? 0) eqn:E; [discriminate|]. intros H.
  apply nth_error_split in H as (pre & post & -> & Hl). exists pre, post. split; [reflexivity|]. lia.
Qed.

Lemma nth_z_app {A} (pre : list A) x post j y :
  nth_z (pre ++ x :: post) j = Some y ->
  (j < len_z pre /\ nth_z pre j = Some y) \/ (j = len_z pre /\ y = x) \/
  (len_z pre < j /\ nth_z post (j - len_z pre - 1) = Some y).
Proof.
  rewrite !nth_z_eq; unfold len_z. destruct (j <? 0) eqn:E; [discriminate|]. intros H.
  destruct (Z_lt_ge_dec j (Z.of_nat (length pre))) as [L|L].
  - left. split; [lia|]. rewrite nth_error_app1 in H by lia. exact H.
  - right. rewrite nth_error_app2 in H by lia.
    destruct (Z.eq_dec j (Z.of_nat (length pre))) as [Q|Q].
    + left. split; [exact Q|]. subst j. rewrite Nat2Z.id, Nat.sub_diag in H. cbn in H. congruence.
    + right. split; [lia|].
      replace (j - Z.of_nat (length pre) - 1 <? 0) with false by lia.
      replace (Z.to_nat j - length pre)%nat with (S (Z.to_nat (j - Z.of_nat (length pre) - 1))) in H by lia.
      exact H.
Qed.

Lemma forallb_In {A} (f : A -> bool) l x : forallb f l = true -> In x l -> f x = true.
Proof. intros H I. rewrite forallb_forall in H. auto. Qed.

(* ------------------------------------------------------------------------------------------ *)
(* validate_ix_first                                                                           *)
(* ------------------------------------------------------------------------------------------ *)

Lemma vif_step_true pid exp al d tl :
  vif_loop pid exp al true (d :: tl) =
  if after1 pid exp d then vif_loop pid exp al true tl
  else Err (E (if long d then E_StartRepeats else E_StartNotFirst)).
Proof.
  cbn [vif_loop]. unfold after1, is_cb, long. destruct (prog_eqb (d_prog d) PCompute); cbn [orb]; [reflexivity|].
  destruct (Z.ltb_spec (d_len d) 8) as [L|L].
  - replace (8 <=? d_len d) with false by lia. reflexivity.
  - replace (8 <=? d_len d) with true by lia. cbn [negb andb]. destruct (is_exp pid exp d); reflexivity.
Qed.

Lemma vif_step_false pid exp al d tl :
  vif_loop pid exp al false (d :: tl) =
  if skip1 pid exp al d then vif_loop pid exp al false tl
  else if tgt pid exp d then vif_loop pid exp al true tl
  else Err (E E_StartNotFirst).
Proof.
  cbn [vif_loop]. unfold skip1, tgt, is_cb, long. destruct (prog_eqb (d_prog d) PCompute); cbn [orb negb andb]; [reflexivity|].
  destruct (Z.ltb_spec (d_len d) 8) as [L|L].
  - replace (8 <=? d_len d) with false by lia. reflexivity.
  - replace (8 <=? d_len d) with true by lia. cbn [negb andb].
    destruct (is_exp pid exp d); cbn [negb andb]; [reflexivity|]. destruct (pair_in al d); reflexivity.
Qed.

Lemma skip1_not_tgt pid exp al d : skip1 pid exp al d = true -> tgt pid exp d = false.
Proof.
  unfold skip1, tgt. destruct (is_cb d); cbn [negb orb andb]; [reflexivity|].
  destruct (long d); cbn [andb]; [|reflexivity]. destruct (is_exp pid exp d); cbn; [discriminate | reflexivity].
Qed.

Lemma after1_not_tgt pid exp d : after1 pid exp d = true -> tgt pid exp d = false.
Proof.
  unfold after1, tgt. destruct (is_cb d); cbn [negb orb andb]; [reflexivity|].
  destruct (long d); cbn [andb]; [|reflexivity]. destruct (is_exp pid exp d); cbn; [discriminate | reflexivity].
Qed.

Lemma vif_loop_true pid exp al l b :
  vif_loop pid exp al true l = Ok b <-> b = true /\ forallb (after1 pid exp) l = true.
Proof.
  induction l as [|d tl IH].
  - cbn. split; [intros H; apply tx_Ok_inj in H; auto | intros [-> _]; reflexivity].
  - rewrite vif_step_true. cbn [forallb]. destruct (after1 pid exp d); cbn [andb]; [exact IH|].
    split; [discriminate | intros [_ H]; discriminate].
Qed.

Lemma vif_loop_false pid exp al l b :
  vif_loop pid exp al false l = Ok b <->
  (b = false /\ forallb (skip1 pid exp al) l = true) \/
  (b = true /\ exists pre x post, l = pre ++ x :: post /\ forallb (skip1 pid exp al) pre = true /\
                                  tgt pid exp x = true /\ forallb (after1 pid exp) post = true).
Proof.
  revert b. induction l as [|d tl IH]; intros b.
  - cbn. split.
    + intros H; apply tx_Ok_inj in H; subst; left; auto.
    + intros [[-> _] | [_ (pre & x & post & H & _)]]; [reflexivity | destruct pre; discriminate].
  - rewrite vif_step_false. cbn [forallb]. destruct (skip1 pid exp al d) eqn:Es; cbn [andb].
    + rewrite IH. split.
      * intros [H | [-> (pre & x & post & -> & Hp & Hx & Hq)]]; [left; exact H|].
        right; split; [reflexivity|]. exists (d :: pre), x, post. split; [reflexivity|].
        cbn [forallb]. rewrite Es. cbn. auto.
      * intros [H | [-> (pre & x & post & Hl & Hp & Hx & Hq)]]; [left; exact H|].
        right; split; [reflexivity|]. destruct pre as [|p0 pre]; cbn in Hl; inversion Hl; subst.
        -- apply skip1_not_tgt in Es. congruence.
        -- cbn [forallb] in Hp. apply andb_prop in Hp as [_ Hp]. exists pre, x, post. auto.
    + destruct (tgt pid exp d) eqn:Et.
      * rewrite vif_loop_true. split.
        -- intros [-> Hq]. right. split; [reflexivity|]. exists [], d, tl. cbn. auto.
        -- intros [[_ H] | [-> (pre & x & post & Hl & Hp & Hx & Hq)]]; [discriminate|].
           split; [reflexivity|]. destruct pre as [|p0 pre]; cbn in Hl; inversion Hl; subst; [exact Hq|].
           cbn [forallb] in Hp. rewrite Es in Hp. discriminate.
      * split; [discriminate|].
        intros [[_ H] | [_ (pre & x & post & Hl & Hp & Hx & Hq)]]; [discriminate|].
        destruct pre as [|p0 pre]; cbn in Hl; inversion Hl; subst; [congruence|].
        cbn [forallb] in Hp. rewrite Es in Hp. discriminate.
Qed.

(* The language accepted by validate_ix_first: skippable* target after* *)
Theorem validate_ix_first_spec ixes pid exp al :
  validate_ix_first ixes pid exp al = Ok tt <->
  exists pre x post, ixes = pre ++ x :: post /\ forallb (skip1 pid exp al) pre = true /\
                     tgt pid exp x = true /\ forallb (after1 pid exp) post = true.
Proof.
  unfold validate_ix_first. split.
  - intros H. apply tx_bind_ok in H as (enc & E & H). destruct enc; [|discriminate].
    apply vif_loop_false in E as [[E _] | [_ E]]; [discriminate | exact E].
  - intros H. assert (E : vif_loop pid exp al false ixes = Ok true) by (apply vif_loop_false; right; auto).
    rewrite E. reflexivity.
Qed.

(* a target can only sit at the split point *)
Lemma tgt_unique pid exp al pre x post j d :
  forallb (skip1 pid exp al) pre = true -> forallb (after1 pid exp) post = true ->
  nth_z (pre ++ x :: post) j = Some d -> tgt pid exp d = true -> j = len_z pre.
Proof.
  intros Hp Hq Hn Ht. apply nth_z_app in Hn as [[_ Hn] | [[Hj _] | [_ Hn]]]; [|exact Hj|].
  - apply nth_z_In in Hn. pose proof (forallb_In _ _ _ Hp Hn) as S. apply skip1_not_tgt in S. congruence.
  - apply nth_z_In in Hn. pose proof (forallb_In _ _ _ Hq Hn) as S. apply after1_not_tgt in S. congruence.
Qed.

(* ------------------------------------------------------------------------------------------ *)
(* validate_ix_last                                                                            *)
(* ------------------------------------------------------------------------------------------ *)

Lemma last_Some_iff (l : list ixd) d :
  last (map Some l) None = Some d <-> exists pre, l = pre ++ [d].
Proof.
  induction l as [|a tl IH].
  - cbn. split; [discriminate | intros (pre & H); destruct pre; discriminate].
  - destruct tl as [|b tl'].
    + cbn. split.
      * intros H; inversion H; subst. exists []. reflexivity.
      * intros (pre & H). destruct pre as [|p0 pre]; cbn in H; inversion H; subst; [reflexivity|].
        destruct pre; discriminate.
    + change (last (map Some (a :: b :: tl')) None) with (last (map Some (b :: tl')) None).
      rewrite IH. split.
      * intros (pre & H). exists (a :: pre). cbn. rewrite H. reflexivity.
      * intros (pre & H). destruct pre as [|p0 pre]; cbn in H; inversion H as [[H1 H2]]; subst.
        exists pre. exact H2.
Qed.

Theorem validate_ix_last_spec ixes pid exp :
  validate_ix_last ixes pid exp = Ok tt <->
  exists pre y, ixes = pre ++ [y] /\ is_end pid exp y = true.
Proof.
  unfold validate_ix_last. destruct (last (map Some ixes) None) as [d|] eqn:E.
  - apply last_Some_iff in E as (pre & ->). unfold is_end, long, is_exp.
    destruct (Z.ltb_spec (d_len d) 8) as [L|L].
    + replace (8 <=? d_len d) with false by lia. split; [discriminate|].
      intros (p2 & y & H & Hy). apply app_inj_tail in H as [_ <-]. replace (8 <=? d_len d) with false in Hy by lia. discriminate.
    + rewrite bind_check, check_true. split.
      * intros [H1 H2]. exists pre, d. split; [reflexivity|]. replace (8 <=? d_len d) with true by lia.
        rewrite H1, H2. reflexivity.
      * intros (p2 & y & H & Hy). apply app_inj_tail in H as [_ <-].
        replace (8 <=? d_len d) with true in Hy by lia. cbn in Hy. apply andb_prop in Hy. exact Hy.
  - split; [discriminate|]. intros (pre & y & -> & _).
    assert (H : last (map Some (pre ++ [y])) None = Some y) by (apply last_Some_iff; eauto). congruence.
Qed.

(* ------------------------------------------------------------------------------------------ *)
(* validate_ixes_exclusive, load_and_validate                                                  *)
(* ------------------------------------------------------------------------------------------ *)

Theorem validate_ixes_exclusive_spec ixes pid expected :
  validate_ixes_exclusive ixes pid expected = Ok tt <-> forallb (excl_ok pid expected) ixes = true.
Proof.
  induction ixes as [|d tl IH]; cbn [validate_ixes_exclusive forallb]; [tauto|].
  unfold excl_ok at 1, long. destruct (prog_eqb (d_prog d) pid); cbn [negb orb]; [|exact IH].
  destruct (Z.ltb_spec (d_len d) 8) as [L|L].
  - replace (8 <=? d_len d) with false by lia. cbn. split; discriminate.
  - replace (8 <=? d_len d) with true by lia. cbn [andb].
    destruct (existsb (fun h => h =? d_disc d) expected); cbn [andb]; [exact IH | split; discriminate].
Qed.

Theorem load_and_validate_spec ixes keys :
  load_and_validate ixes keys = Ok tt <-> forallb (prog_allowed keys) ixes = true.
Proof.
  induction ixes as [|d tl IH]; cbn [load_and_validate forallb]; [tauto|].
  unfold prog_allowed at 1. destruct (existsb (fun k => prog_eqb k (d_prog d)) keys); cbn [andb]; [exact IH|].
  split; discriminate.
Qed.

(* ------------------------------------------------------------------------------------------ *)
(* validate_instructions                                                                       *)
(* ------------------------------------------------------------------------------------------ *)

Theorem validate_instructions_spec ixes cur cpi K :
  validate_instructions ixes cur cpi K = Ok tt <->
  forallb (prog_allowed allowed_programs) ixes = true /\
  validate_ix_first ixes PMfi (start_disc K) allowed_pre = Ok tt /\
  validate_ix_last ixes PMfi (end_disc K) = Ok tt /\
  forallb (excl_ok PMfi (excl_list K)) ixes = true /\
  cpi = false /\
  (exists d, nth_z ixes cur = Some d /\ d_prog d = PMfi) /\
  cur < len_z ixes - 1.
Proof.
  unfold validate_instructions. split.
  - intros H.
    apply tx_bind_ok in H as ([] & E1 & H). apply tx_bind_ok in H as ([] & E2 & H).
    apply tx_bind_ok in H as ([] & E3 & H). apply tx_bind_ok in H as ([] & E4 & H).
    apply bind_check in H as [E5 H]. apply tx_bind_ok in H as (i & E6 & H). apply check_true in H.
    apply load_and_validate_spec in E1. apply validate_ixes_exclusive_spec in E4.
    unfold not_cpi_with_sysvar in E6. destruct (nth_z ixes cur) as [d|] eqn:En; [|discriminate].
    destruct (prog_eqb (d_prog d) PMfi) eqn:Ep; [|discriminate]. apply tx_Ok_inj in E6; subst i.
    apply prog_eqb_eq in Ep. repeat split; try assumption; try (destruct cpi; [discriminate|reflexivity]).
    + exists d; auto.
    + lia.
  - intros (H1 & H2 & H3 & H4 & -> & (d & En & Ep) & H7).
    apply load_and_validate_spec in H1. apply validate_ixes_exclusive_spec in H4.
    rewrite H1, H2, H3, H4. cbn [bind check negb]. unfold not_cpi_with_sysvar. rewrite En, Ep. cbn.
    replace (cur <? len_z ixes - 1) with true by lia. reflexivity.
Qed.

(* Shape of every transaction that `validate_instructions` accepts (top-level instructions):
   pre ++ start :: mid ++ [end], start unique, only listed marginfi instructions, only listed programs. *)
Theorem validate_instructions_shape ixes cur K :
  validate_instructions ixes cur false K = Ok tt ->
  exists pre x mid y,
    ixes = pre ++ x :: mid ++ [y] /\
    forallb (skip1 PMfi (start_disc K) allowed_pre) pre = true /\
    tgt PMfi (start_disc K) x = true /\
    forallb (mid_ok K) mid = true /\
    is_end PMfi (end_disc K) y = true /\
    forallb (prog_allowed allowed_programs) ixes = true /\
    forallb (excl_ok PMfi (excl_list K)) ixes = true.
Proof.
  intros H. apply validate_instructions_spec in H as (Hp & Hf & Hl & Hx & _ & _ & Hc).
  apply validate_ix_first_spec in Hf as (pre & x & post & E & Hpre & Hx1 & Hpost).
  apply validate_ix_last_spec in Hl as (p2 & y & E2 & Hy).
  (* y is the last element of post, unless post is empty, in which case y = x *)
  destruct post as [|p0 post'].
  - (* post = [] : then x would be both the start and the end *)
    subst ixes. apply app_inj_tail in E2 as [_ <-].
    unfold tgt in Hx1. unfold is_end in Hy. apply andb_prop in Hx1 as [_ Hx1]. apply andb_prop in Hy as [_ Hy].
    unfold is_exp in *. apply andb_prop in Hx1 as [_ A]. apply andb_prop in Hy as [_ B].
    apply Z.eqb_eq in A, B. rewrite A in B. destruct K; cbn in B; vm_compute in B; discriminate.
  - destruct (exists_last (l := p0 :: post')) as (mid & y' & Em); [discriminate|]. rewrite Em in *. clear Em p0 post'.
    subst ixes. replace (pre ++ x :: mid ++ [y']) with ((pre ++ x :: mid) ++ [y']) in E2
      by (rewrite <- app_assoc; reflexivity).
    apply app_inj_tail in E2 as [_ <-].
    exists pre, x, mid, y'. split; [reflexivity|]. split; [exact Hpre|]. split; [exact Hx1|].
    split; [|split; [exact Hy | split; [exact Hp | exact Hx]]].
    rewrite forallb_forall. intros d Hd. unfold mid_ok.
    assert (I : In d (pre ++ x :: mid ++ [y'])) by (apply in_or_app; right; right; apply in_or_app; left; exact Hd).
    rewrite (forallb_In _ _ _ Hp I), (forallb_In _ _ _ Hx I). cbn [andb].
    rewrite forallb_app in Hpost. apply andb_prop in Hpost as [Hm _]. exact (forallb_In _ _ _ Hm Hd).
Qed.

(* ------------------------------------------------------------------------------------------ *)
(* check_flashloan_can_start                                                                   *)
(* ------------------------------------------------------------------------------------------ *)

Theorem check_flashloan_can_start_spec fl key ixes cur end_idx cpi :
  check_flashloan_can_start fl key ixes cur end_idx cpi = Ok tt <->
  (exists c, nth_z ixes cur = Some c /\ d_prog c = PMfi) /\
  cur < end_idx /\ cpi = false /\
  (exists e, nth_z ixes end_idx = Some e /\ is_endfl_for key e) /\
  f_disabled fl = false /\ f_fl fl = false /\ f_recv fl = false /\ f_frozen fl = false.
Proof.
  unfold check_flashloan_can_start, not_cpi_with_sysvar, is_endfl_for. split.
  - intros H. apply tx_bind_ok in H as (ci & E1 & H).
    destruct (nth_z ixes cur) as [c|] eqn:Ec; [|discriminate].
    destruct (prog_eqb (d_prog c) PMfi) eqn:Ep; [|discriminate]. apply tx_Ok_inj in E1; subst ci.
    apply bind_check in H as [E2 H]. apply bind_check in H as [E3 H].
    destruct (nth_z ixes end_idx) as [e|] eqn:Ee; [|discriminate].
    destruct (Z.ltb_spec (d_len e) 8) as [L|L]; [discriminate|].
    apply bind_check in H as [E4 H]. apply bind_check in H as [E5 H].
    destruct (d_accts e) as [|k0 tl] eqn:Ea; [discriminate|].
    apply bind_check in H as [E6 H]. apply bind_check in H as [E7 H]. apply bind_check in H as [E8 H].
    apply bind_check in H as [E9 H]. apply check_true in H.
    apply prog_eqb_eq in Ep, E5. apply Z.eqb_eq in E4, E6. subst k0.
    split; [exists c; auto|]. split; [lia|]. split; [destruct cpi; [discriminate|reflexivity]|].
    split; [exists e; split; [reflexivity|]; repeat split; try assumption; try lia; exists tl; exact Ea|].
    repeat split; [destruct (f_disabled fl) | destruct (f_fl fl) | destruct (f_recv fl) | destruct (f_frozen fl)];
      try reflexivity; discriminate.
  - intros ((c & Ec & Ep) & H2 & -> & (e & Ee & Pe & Le & De & (tl & Ae)) & F1 & F2 & F3 & F4).
    rewrite Ec, Ep. cbn [prog_eqb bind]. replace (cur <? end_idx) with true by lia. cbn [check bind negb].
    rewrite Ee. replace (d_len e <? 8) with false by lia. rewrite De, Pe, Ae, Z.eqb_refl. cbn [prog_eqb check bind].
    rewrite Z.eqb_refl, F1, F2, F3, F4. reflexivity.
Qed.
