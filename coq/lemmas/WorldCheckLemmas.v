(* WorldCheckLemmas.v — soundness of the boolean world check: hok2b w = true -> HOk2 w *)
Require Import Base Constants Fixed Curve Bank BankOps Risk TransferFee Handlers WorldCheck.
Require Import FixedLemmas BankLemmas CurveLemmas AccrualLemmas HandlerLemmas SolvencyLemmas LedgerLemmas SolvencyHandlers SolvencyWorld HandlerWorld.
From Coq Require Import ZifyBool.
Local Open Scope Z_scope.

Lemma lsumb_eq f la : lsumb f la = lsum f la.
Proof. induction la as [|x r IH]; cbn; [reflexivity|]. unfold lsumb in IH. rewrite IH. reflexivity. Qed.
Lemma wsumb_eq f accts : wsumb f accts = wsum f accts.
Proof. induction accts as [|x r IH]; cbn; [reflexivity|]. unfold wsumb in IH. rewrite IH, lsumb_eq. reflexivity. Qed.
Lemma wsum_ext f g accts : (forall x, f x = g x) -> wsum f accts = wsum g accts.
Proof.
  intros E. induction accts as [|la r IH]; cbn; [reflexivity|]. rewrite IH. f_equal.
  induction la as [|x l IHl]; cbn; [reflexivity|]. rewrite IHl, E. reflexivity.
Qed.

Lemma andb_split a b : a && b = true -> a = true /\ b = true.
Proof. apply andb_prop. Qed.

Lemma valid_curveb_sound b : valid_curveb (b_ir b) = true -> valid_curve b.
Proof.
  unfold valid_curveb. intros H.
  apply andb_split in H as (H & Ht). apply andb_split in H as (H & Hv). apply andb_split in H as (H & Hp).
  apply andb_split in H as (H & H4). apply andb_split in H as (H & H3). apply andb_split in H as (H1 & H2).
  unfold valid_curve, cfg_ok. split; [|split].
  - split; [lia|]. split; [lia|]. rewrite forallb_forall in Hp. apply Forall_forall. intros p Hin.
    specialize (Hp p Hin). unfold pt_okb in Hp. unfold pt_ok. lia.
  - unfold res_is_ok_tt in Hv. destruct (validate_seven_point (b_ir b)) as [[]|]; [reflexivity|discriminate].
  - lia.
Qed.

Lemma hb_okb_sound hb : hb_okb hb = true -> hb_ok hb /\ fees_rep (hb_b hb).
Proof.
  unfold hb_okb. intros H.
  apply andb_split in H as (H & Hp). apply andb_split in H as (H & Hg). apply andb_split in H as (H & Hm).
  apply andb_split in H as (H & Hb2). apply andb_split in H as (H & Hb1). apply andb_split in H as (H & Hc).
  apply andb_split in H as (H & Htl). apply andb_split in H as (H & Hta). apply andb_split in H as (Ha & Hl).
  split; [|unfold fees_rep; lia].
  unfold hb_ok, wf_bank. split; [lia|]. split; [lia|]. split; [lia|]. split; [apply valid_curveb_sound; exact Hc|]. lia.
Qed.

Lemma ledger_okb_sound banks : forall k accts, ledger_okb banks k accts = true ->
  forall j hb, nth_error banks j = Some hb ->
  wsum (ca (bank_pk (k + j))) accts <= b_tas (hb_b hb) /\ wsum (cl (bank_pk (k + j))) accts <= b_tls (hb_b hb).
Proof.
  induction banks as [|hb0 r IH]; intros k accts H j hb Hj; [destruct j; discriminate|].
  cbn [ledger_okb] in H. apply andb_split in H as (H & Hr). apply andb_split in H as (H1 & H2).
  destruct j as [|j]; cbn in Hj.
  - apply Some_inj in Hj. subst hb0. rewrite Nat.add_0_r. rewrite !wsumb_eq in H1, H2.
    rewrite (wsum_ext (ca (bank_pk k)) (caZ (bank_pk k))) by reflexivity.
    rewrite (wsum_ext (cl (bank_pk k)) (clZ (bank_pk k))) by reflexivity. lia.
  - replace (k + S j)%nat with (S k + j)%nat by lia. eapply IH; eauto.
Qed.

Theorem hok2b_sound w : hok2b w = true -> HOk2 w.
Proof.
  unfold hok2b. intros H.
  apply andb_split in H as (H & Hled). apply andb_split in H as (H & Hacc). apply andb_split in H as (H & Hbanks).
  apply andb_split in H as (Hr0 & Hr1).
  rewrite forallb_forall in Hbanks. rewrite forallb_forall in Hacc.
  unfold HOk2. split; [unfold pf_ok; lia|]. split.
  - unfold HLedger, bw_of. constructor; cbn [bw_accts bw_banks].
    + apply Forall_forall. intros la Hin. apply in_map_iff in Hin as (ac & <- & Hin).
      specialize (Hacc ac Hin). rewrite forallb_forall in Hacc. apply Forall_forall. intros bl Hbl.
      specialize (Hacc bl Hbl). unfold wf_balb in Hacc. unfold wf_bal. lia.
    + apply Forall_forall. intros b Hin. apply in_map_iff in Hin as (hb & <- & Hin).
      destruct (hb_okb_sound hb (Hbanks hb Hin)) as (Hok & _). exact (hb_ok_sv _ Hok).
    + intros k bk Hk. unfold bank_of in Hk. cbn [bw_banks] in Hk. rewrite nth_error_map in Hk.
      destruct (nth_error (hw_banks w) k) as [hb|] eqn:E; [|discriminate]. apply Some_inj in Hk. subst bk.
      exact (ledger_okb_sound _ 0%nat _ Hled k hb E).
  - intros b hb Hb. apply hb_okb_sound. apply Hbanks. apply nth_res_ok in Hb. eapply nth_error_In; eauto.
Qed.
