(* BankruptcyLemmas.v — C07: lending_pool_handle_bankruptcy (Handlers.h_bankruptcy) and
   Bank::socialize_loss (Bank.socialize_loss).
   1. socialize_loss: exact characterisation of the new asset share value (range, loss accounting
      up to rounding, kill flag).
   2. h_bankruptcy: one inversion lemma naming every intermediate of the handler, from which the
      pinned theorems of props/C07.v are projections. *)
Require Import Base Constants Fixed Curve Bank BankOps Risk TransferFee Handlers.
Require Import FixedLemmas BankLemmas ValueLemmas AccrualLemmas TransferFeeLemmas HandlerLemmas SolvencyLemmas LedgerLemmas.
From Coq Require Import ZifyBool.
Local Open Scope Z_scope.

(* ------------------------------------------------------------------------------------------ *)
(* 1. socialize_loss *)

Record soc_facts (b : bank) (loss : fx) (b' : bank) (kill : bool) : Prop := {
  (* only the asset share value changes *)
  sf_frame : b' = set_b_asv (b_asv b') b;
  (* never negative, never raised *)
  sf_range : 0 <= b_asv b' <= b_asv b;
  (* loss >= total deposits: share value 0, kill flag *)
  sf_wiped : b_tas b * b_asv b / ONE <= loss -> b_asv b' = 0 /\ kill = true;
  (* the kill flag is returned exactly when the new share value is 0 *)
  sf_kill : kill = true <-> b_asv b' = 0;
  (* scale 2^96: deposits fall by at least the loss (unless wiped out) ... *)
  sf_lower : loss < b_tas b * b_asv b / ONE -> loss * ONE <= b_tas b * b_asv b - b_tas b * b_asv b';
  (* ... and by less than loss + 1 ulp + one ulp of the share value per share *)
  sf_upper : b_tas b * b_asv b - b_tas b * b_asv b' < (loss + 1) * ONE + b_tas b;
  (* the same at the precision the program computes total deposits with (get_asset_amount) *)
  sf_floor : loss < b_tas b * b_asv b / ONE ->
             b_tas b * b_asv b / ONE - loss - (b_tas b / ONE + 1) <= b_tas b * b_asv b' / ONE
             /\ b_tas b * b_asv b' / ONE <= b_tas b * b_asv b / ONE - loss
}.

Lemma socialize_loss_inv b loss b' kill :
  0 <= b_asv b -> 0 <= b_tas b -> 0 <= loss ->
  socialize_loss b loss = Ok (b', kill) -> soc_facts b loss b' kill.
Proof.
  intros Ha Ht Hl H. unfold socialize_loss in H. pose proof ONE_pos as HO.
  apply bind_ok in H as (total & Htot & H). apply math_ok, cmul_inv in Htot as [Htot _].
  pose proof (Z.div_mod (b_tas b * b_asv b) ONE ltac:(lia)) as DM.
  pose proof (Z.mod_pos_bound (b_tas b * b_asv b) ONE HO) as MB.
  rewrite <- Htot in *.
  destruct (total <=? loss) eqn:E.
  - apply pair_ok in H as [<- <-].
    assert (ONE * total <= ONE * loss) by (apply Z.mul_le_mono_nonneg_l; lia).
    constructor; cbn [b_asv set_b_asv b_tas]; rewrite ?Z.mul_0_r; try reflexivity; try lia;
      try (split; reflexivity); try (intros _; split; reflexivity).
  - apply bind_ok in H as (d & Hd & H). apply usub_inv in Hd as [Hd _].
    apply bind_ok in H as (nsv & Hn & H). apply pair_ok in H as [<- <-].
    assert (Hd0 : 0 < d) by lia.
    assert (Htp : 0 < b_tas b).
    { destruct (Z.eq_dec (b_tas b) 0) as [E0|]; [|lia]. exfalso.
      apply math_ok in Hn. unfold cdiv in Hn. rewrite E0 in Hn. cbn in Hn. discriminate. }
    apply math_ok in Hn. apply cdiv_inv_nonneg in Hn as [Hn Hnr]; [|lia|lia].
    pose proof (Z.div_mod (d * ONE) (b_tas b) ltac:(lia)) as DN.
    pose proof (Z.mod_pos_bound (d * ONE) (b_tas b) Htp) as NB.
    rewrite <- Hn in DN.
    pose proof (Z.div_mod (b_tas b) ONE ltac:(lia)) as DT.
    pose proof (Z.mod_pos_bound (b_tas b) ONE HO) as TB.
    cbn [b_asv set_b_asv b_tas].
    assert (HlO : 0 <= loss * ONE) by (apply Z.mul_nonneg_nonneg; lia).
    assert (Hle : nsv <= b_asv b).
    { apply (Z.mul_le_mono_pos_l _ _ (b_tas b) Htp). lia. }
    constructor; cbn [b_asv set_b_asv b_tas]; try reflexivity; try lia.
    + intros _. split.
      * apply Z.div_le_lower_bound; [lia|]. lia.
      * apply Z.div_le_upper_bound; [lia|]. lia.
Qed.

(* every depositor's claim is valued with the one new share value: exact claims (scale 2^96) are all
   scaled by asv'/asv, no claim grows, and the rounded claim the program reports does not grow *)
Lemma pro_rata asv asv' : 0 <= asv' <= asv ->
  (forall s1 s2, (s1 * asv') * (s2 * asv) = (s2 * asv') * (s1 * asv)) /\
  (forall s, 0 <= s -> s * asv' <= s * asv /\ s * asv' / ONE <= s * asv / ONE).
Proof.
  intros H. split; [intros; ring|]. intros s Hs. pose proof ONE_pos.
  assert (s * asv' <= s * asv) by (apply Z.mul_le_mono_nonneg_l; lia).
  split; [assumption|]. apply Z.div_le_mono; lia.
Qed.

(* the same, spelled out (statement pinned as C07_socialize_loss) *)
Lemma socialize_loss_spec b loss b' kill :
  0 <= b_asv b -> 0 <= b_tas b -> 0 <= loss -> socialize_loss b loss = Ok (b', kill) ->
  b' = set_b_asv (b_asv b') b /\
  0 <= b_asv b' <= b_asv b /\
  (b_tas b * b_asv b / 2 ^ 48 <= loss -> b_asv b' = 0 /\ kill = true) /\
  (kill = true <-> b_asv b' = 0) /\
  (loss < b_tas b * b_asv b / 2 ^ 48 ->
     loss * 2 ^ 48 <= b_tas b * b_asv b - b_tas b * b_asv b' /\
     b_tas b * b_asv b / 2 ^ 48 - loss - (b_tas b / 2 ^ 48 + 1) <= b_tas b * b_asv b' / 2 ^ 48 /\
     b_tas b * b_asv b' / 2 ^ 48 <= b_tas b * b_asv b / 2 ^ 48 - loss) /\
  b_tas b * b_asv b - b_tas b * b_asv b' < (loss + 1) * 2 ^ 48 + b_tas b /\
  (forall s1 s2, (s1 * b_asv b') * (s2 * b_asv b) = (s2 * b_asv b') * (s1 * b_asv b)) /\
  (forall s, 0 <= s -> s * b_asv b' <= s * b_asv b /\ s * b_asv b' / 2 ^ 48 <= s * b_asv b / 2 ^ 48).
Proof.
  intros Ha Ht Hl H. change (2 ^ 48) with ONE.
  destruct (socialize_loss_inv _ _ _ _ Ha Ht Hl H) as [F1 F2 F3 F4 F5 F6 F7].
  destruct (pro_rata _ _ F2) as [P1 P2].
  split; [exact F1|]. split; [exact F2|]. split; [exact F3|]. split; [exact F4|].
  split. { intros Hlt. split; [exact (F5 Hlt)|]. exact (F7 Hlt). }
  split; [exact F6|]. split; [exact P1|exact P2].
Qed.

(* level B: the SocializeLoss operation of the wrapper world, on every world satisfying the C02 ledger invariant *)
Lemma bstep_socialize w b loss w' r :
  Ledger w -> 0 <= loss -> bstep w (BSocialize b loss) = Ok (w', r) ->
  exists bk bk' kill, bank_of w b = Some bk /\ bank_of w' b = Some bk' /\ soc_facts bk loss bk' kill /\
    r = Some (if kill then 1 else 0) /\ bw_accts w' = bw_accts w /\
    (forall k, k <> b -> bank_of w' k = bank_of w k).
Proof.
  intros L Hl H. cbn [bstep] in H.
  apply bind_ok in H as (bk & Hbk & H). apply bind_ok in H as ([bk' kill] & Hs & H).
  apply pair_ok in H as [<- <-].
  pose proof (nth_res_ok _ _ _ Hbk) as Ebk. destruct (Ledger_tot_nonneg w b bk L Ebk) as [Hta Htl].
  destruct (Forall_nth_error _ _ _ _ (lg_sv w L) Ebk) as [Sa Sl].
  exists bk, bk', kill. split; [exact Ebk|]. split.
  { unfold bank_of, put_bank. cbn [bw_banks]. eapply nth_set_nth_same; eauto. }
  split; [apply socialize_loss_inv; assumption|]. split; [reflexivity|]. split; [reflexivity|].
  intros k Hk. unfold bank_of, put_bank. cbn [bw_banks]. apply nth_set_nth_other. congruence.
Qed.

(* ------------------------------------------------------------------------------------------ *)
(* 2. helpers for the handler *)

Definition bank_sane (bk : bank) : Prop := 0 <= b_asv bk /\ 0 < b_lsv bk /\ 0 <= b_tas bk /\ 0 <= b_tls bk.

Lemma update_counts_op b ha hl ha' hl' : b_op_state (update_counts b ha hl ha' hl') = b_op_state b.
Proof.
  unfold update_counts, inc_lend, dec_lend, inc_bor, dec_bor.
  destruct (negb ha && ha'), (ha && negb ha'), (negb hl && hl'), (hl && negb hl'); reflexivity.
Qed.

Lemma increase_balance_op_state b bl now delta t b' bl' :
  increase_balance b bl now delta t = Ok (b', bl') -> b_op_state b' = b_op_state b.
Proof.
  unfold increase_balance. intros H.
  apply bind_ok in H as ([b0 bl0] & Hc & H). apply claim_emissions_core in Hc as [Hcb _].
  destruct Hcb as (_ & _ & _ & _ & _ & _ & _ & _ & _ & _ & _ & _ & _ & _ & _ & _ & C17 & _).
  apply bind_ok in H as (cur_l & _ & H). apply bind_ok in H as (d0 & _ & H). apply bind_ok in H as (u & _ & H).
  apply bind_ok in H as (ash & _ & H). apply bind_ok in H as (a' & _ & H).
  apply bind_ok in H as (b1 & Hb1 & H). apply change_asset_shares_inv in Hb1.
  apply bind_ok in H as (lsh & _ & H). apply bind_ok in H as (nl & _ & H). apply bind_ok in H as (l' & _ & H).
  apply bind_ok in H as (b2 & Hb2 & H). apply change_liability_shares_inv in Hb2.
  apply pair_ok in H as [<- _]. rewrite update_counts_op. subst b2 b1. cbn [b_op_state set_b_tls set_b_tas]. exact C17.
Qed.

Lemma cache_core b pf now b' :
  update_bank_cache b pf now = Ok b' ->
  b_asv b' = b_asv b /\ b_lsv b' = b_lsv b /\ b_tas b' = b_tas b /\ b_tls b' = b_tls b /\ b_op_state b' = b_op_state b.
Proof.
  unfold update_bank_cache. intros H.
  apply bind_ok in H as (ta & _ & H). apply bind_ok in H as (tl & _ & H).
  destruct ((ta =? 0) || (tl =? 0)); [apply Ok_inj in H; subst; repeat split; reflexivity|].
  apply bind_ok in H as (ur & _ & H). apply bind_ok in H as (r & _ & H). apply Ok_inj in H. subst. repeat split; reflexivity.
Qed.

(* number of whole tokens of ceil(x) *)
Definition ceil_tokens (x : fx) : Z := (x + ONE - 1) / ONE.

Lemma cceil_tokens x ce n : cceil x = Ok ce -> to_u64_checked ce = Ok n ->
  n = ceil_tokens x /\ 0 <= n <= U64_MAX /\ ce = n * ONE /\ x <= ce < x + ONE.
Proof.
  intros Hc Hn. apply cceil_inv in Hc. apply to_u64_inv in Hn as [Hn Hr]. pose proof ONE_pos as HO.
  pose proof (Z.div_mod x ONE ltac:(lia)) as DM. pose proof (Z.mod_pos_bound x ONE HO) as MB.
  unfold ceil_tokens.
  destruct (x mod ONE =? 0) eqn:E.
  - assert (E1 : (x + ONE - 1) / ONE = x / ONE).
    { symmetry. apply (Z.div_unique _ _ _ (ONE - 1)); lia. }
    subst ce n. rewrite E1. repeat split; lia.
  - assert (E1 : (x + ONE - 1) / ONE = x / ONE + 1).
    { symmetry. apply (Z.div_unique _ _ _ (x mod ONE - 1)); lia. }
    assert (E2 : (x / ONE * ONE + ONE) / ONE = x / ONE + 1).
    { replace (x / ONE * ONE + ONE) with ((x / ONE + 1) * ONE) by ring. apply Z.div_mul. lia. }
    subst ce n. rewrite E1, E2 in *. repeat split; lia.
Qed.

Lemma validate_paused_ok bk u : validate_bank_state bk KFailsInPaused = Ok u ->
  b_op_state bk <> OP_KILLED /\ b_op_state bk <> OP_PAUSED.
Proof.
  unfold validate_bank_state. destruct (b_op_state bk =? OP_KILLED) eqn:E1; [discriminate|].
  destruct (b_op_state bk =? OP_PAUSED) eqn:E2; [discriminate|]. intros _. lia.
Qed.

Lemma check_bankrupt_inv ps A L : check_bankrupt ps false = Ok (A, L) ->
  health_components ps RqEquity = Ok (A, L) /\ A < L /\ A < BANKRUPT_THRESHOLD /\ ZERO_AMOUNT_THRESHOLD < L.
Proof.
  unfold check_bankrupt. intros H.
  apply bind_ok in H as ([a l] & Hh & H). apply bind_ok in H as (u1 & _ & H).
  apply bind_ok in H as (u2 & H2 & H). apply check_ok in H2.
  apply bind_ok in H as (u3 & H3 & H). apply check_ok in H3.
  apply pair_ok in H as [<- <-]. split; [exact Hh|]. lia.
Qed.

Lemma disabled_set f : Z.land (Z.lor f ACCOUNT_DISABLED) ACCOUNT_DISABLED = ACCOUNT_DISABLED.
Proof.
  unfold ACCOUNT_DISABLED. rewrite Z.land_lor_distr_l. change (Z.land 1 1) with 1.
  change 1 with (Z.ones 1) at 1. rewrite Z.land_ones by lia. change (2 ^ 1) with 2.
  pose proof (Z.mod_pos_bound f 2 ltac:(lia)).
  assert (C : f mod 2 = 0 \/ f mod 2 = 1) by lia. destruct C as [-> | ->]; reflexivity.
Qed.

Lemma lor_keeps_flag f g k : Z.land f k = k -> Z.land (Z.lor f g) k = k.
Proof.
  intros H. rewrite Z.land_lor_distr_l, H. apply Z.bits_inj'. intros n Hn.
  rewrite Z.lor_spec, Z.land_spec. destruct (Z.testbit k n); [reflexivity|]. rewrite Bool.andb_false_r. reflexivity.
Qed.

(* ------------------------------------------------------------------------------------------ *)
(* 3. the handler, inverted *)

Definition bad_debt (bk1 : bank) (bl : balance) : fx := bl_l bl * b_lsv bk1 / ONE.
Definition covered_of (bad : fx) (avail_n : Z) : fx := Z.min bad (avail_n * ONE).
Definition loss_of (bad : fx) (avail_n : Z) : fx := bad - covered_of bad avail_n.

Record bk_facts (w : hworld) (a b : nat) (w' : hworld)
    (hb : hbank) (ac : hacct) (ps : list rpos) (A L : fx) (bk1 : bank) (i : nat) (bl : balance)
    (fi pre f : Z) (bk2 : bank) (kill : bool) (bk3 : bank) (bl3 : balance) (bk5 : bank) : Prop := {
  kf_bank : nth_bank w b = Ok hb;
  kf_acct : nth_acct w a = Ok ac;
  kf_state : b_op_state (hb_b hb) <> OP_KILLED /\ b_op_state (hb_b hb) <> OP_PAUSED;
  kf_noflash : aflag ac ACCOUNT_IN_FLASHLOAN = false;
  kf_pos : positions w (ha_la ac) = Ok ps;
  kf_health : health_components ps RqEquity = Ok (A, L);
  kf_bankrupt : A < L /\ A < BANKRUPT_THRESHOLD /\ ZERO_AMOUNT_THRESHOLD < L;
  kf_accrue : accrue_interest (hb_b hb) (hw_pf w) (hw_now w) = Ok bk1;
  kf_slot : nth_error (ha_la ac) i = Some bl /\ bl_active bl = true /\ bl_bank bl = bank_pk b;
  kf_owes : ZERO_AMOUNT_THRESHOLD < bad_debt bk1 bl;
  kf_avail : tfee hb (hb_insv hb) = Ok fi /\ (hb_t22 hb = true -> 0 <= hb_insv hb - fi <= U64_MAX);
  kf_pre : pre_fee hb (ceil_tokens (covered_of (bad_debt bk1 bl) (hb_insv hb - fi))) = Ok pre;
  kf_cov_range : 0 <= ceil_tokens (covered_of (bad_debt bk1 bl) (hb_insv hb - fi)) <= U64_MAX;
  kf_funds : pre <= hb_insv hb;
  kf_fee : tfee hb pre = Ok f;
  kf_soc : socialize_loss bk1 (Z.max (loss_of (bad_debt bk1 bl) (hb_insv hb - fi)) 0) = Ok (bk2, kill);
  kf_repay : increase_balance bk2 bl (t64 w) (bad_debt bk1 bl) IncRepayOnly = Ok (bk3, bl3);
  kf_bk5 : b_asv bk5 = b_asv bk3 /\ b_lsv bk5 = b_lsv bk3 /\ b_tas bk5 = b_tas bk3 /\ b_tls bk5 = b_tls bk3 /\
           b_op_state bk5 = (if kill then OP_KILLED else b_op_state bk3);
  kf_final : w' = put_hacct
                    (put_hbank w b (set_hb_b bk5 (set_hb_vault (hb_vault hb + pre - f) (set_hb_insv (hb_insv hb - pre) hb))))
                    a (mkHA (set_nth i bl3 (ha_la ac)) (Z.lor (ha_flags ac) ACCOUNT_DISABLED))
}.

Lemma h_bankruptcy_inv w a b w' :
  h_bankruptcy w a b = Ok w' ->
  exists hb ac ps A L bk1 i bl fi pre f bk2 kill bk3 bl3 bk5,
    bk_facts w a b w' hb ac ps A L bk1 i bl fi pre f bk2 kill bk3 bl3 bk5.
Proof.
  intros H. unfold h_bankruptcy in H.
  apply bind_ok in H as (hb & Hhb & H).
  apply bind_ok in H as (ac & Hac & H).
  apply bind_ok in H as (u1 & Hst & H). apply validate_paused_ok in Hst.
  apply bind_ok in H as (u2 & Hfl & H). apply check_ok in Hfl.
  apply bind_ok in H as (ps & Hps & H).
  apply bind_ok in H as ([A L] & Hcb & H). apply check_bankrupt_inv in Hcb as (Hh & Hbk).
  apply bind_ok in H as (bk1 & Hacc & H).
  apply bind_ok in H as (i & Hi & H).
  assert (Hfa : find_active (bank_pk b) (ha_la ac) = Some i).
  { destruct (find_active (bank_pk b) (ha_la ac)) as [j|]; [apply Ok_inj in Hi; congruence|discriminate]. }
  apply bind_ok in H as (bl & Hbl & H). apply nth_res_ok in Hbl.
  apply find_active_spec in Hfa as (bl0 & Hbl0 & Hact & Hbank).
  rewrite Hbl in Hbl0. apply Some_inj in Hbl0. subst bl0.
  apply bind_ok in H as (bad & Hbad & H). apply get_liability_amount_inv in Hbad.
  apply bind_ok in H as (u3 & Howes & H). apply check_ok in Howes.
  apply bind_ok in H as (avail_n & Hav & H).
  assert (Hav' : exists fi, tfee hb (hb_insv hb) = Ok fi /\ avail_n = hb_insv hb - fi /\
                            (hb_t22 hb = true -> 0 <= hb_insv hb - fi <= U64_MAX)).
  { destruct (hb_t22 hb) eqn:T.
    - apply bind_ok in Hav as (fi & Hfi & Hav). apply math_ok, chko_inv in Hav as [-> Hr].
      exists fi. split; [exact Hfi|]. split; [reflexivity|]. intros _. unfold in_u64, in_range in Hr. lia.
    - apply Ok_inj in Hav. exists 0. split; [unfold tfee; rewrite T; reflexivity|]. split; [lia|]. discriminate. }
  destruct Hav' as (fi & Hfi & -> & Hfir).
  apply bind_ok in H as (d & Hd & H). apply usub_inv in Hd as [Hd _].
  apply bind_ok in H as (ce & Hce & H). apply math_ok in Hce.
  apply bind_ok in H as (cov_n & Hcn & H). apply math_ok in Hcn.
  destruct (cceil_tokens _ _ _ Hce Hcn) as (Hcn1 & Hcnr & _ & _).
  apply bind_ok in H as (pre & Hpre & H).
  apply bind_ok in H as (u4 & Hfunds & H). apply check_ok in Hfunds.
  apply bind_ok in H as (f & Hf & H).
  apply bind_ok in H as ([bk2 kill] & Hsoc & H).
  apply bind_ok in H as (i2 & _ & H).
  apply bind_ok in H as ([bk3 bl3] & Hrep & H).
  apply bind_ok in H as (bk4 & Hc4 & H). apply cache_core in Hc4 as (K1 & K2 & K3 & K4 & K5).
  apply Ok_inj in H.
  unfold fmin, fmax, of_int in *.
  exists hb, ac, ps, A, L, bk1, i, bl, fi, pre, f, bk2, kill, bk3, bl3, (if kill then set_b_op_state OP_KILLED bk4 else bk4).
  constructor; unfold bad_debt, loss_of, covered_of; rewrite <- ?Hbad; try assumption.
  - destruct (aflag ac ACCOUNT_IN_FLASHLOAN); [discriminate|reflexivity].
  - repeat split; assumption.
  - lia.
  - split; assumption.
  - rewrite <- Hcn1. exact Hpre.
  - rewrite <- Hcn1. exact Hcnr.
  - lia.
  - rewrite Hd in Hsoc. exact Hsoc.
  - destruct kill; cbn [b_asv b_lsv b_tas b_tls b_op_state set_b_op_state]; repeat split; assumption.
  - symmetry. exact H.
Qed.

(* ------------------------------------------------------------------------------------------ *)
(* 4. the statements pinned in props/C07.v *)

(* (a) only real bad debt *)
Lemma bankruptcy_eligibility w a b w' :
  h_bankruptcy w a b = Ok w' ->
  exists hb ac ps A L bk1 i bl,
    nth_bank w b = Ok hb /\ nth_acct w a = Ok ac /\
    positions w (ha_la ac) = Ok ps /\ health_components ps RqEquity = Ok (A, L) /\
    A < L /\ 10 * A < 2 ^ 48 /\ 2 ^ 48 < 10000 * L /\
    aflag ac ACCOUNT_IN_FLASHLOAN = false /\
    b_op_state (hb_b hb) <> OP_KILLED /\ b_op_state (hb_b hb) <> OP_PAUSED /\
    accrue_interest (hb_b hb) (hw_pf w) (hw_now w) = Ok bk1 /\
    nth_error (ha_la ac) i = Some bl /\ bl_active bl = true /\ bl_bank bl = bank_pk b /\
    2 ^ 48 < 10000 * (bl_l bl * b_lsv bk1 / 2 ^ 48).
Proof.
  intros H. apply h_bankruptcy_inv in H as (hb & ac & ps & A & L & bk1 & i & bl & fi & pre & f & bk2 & kill & bk3 & bl3 & bk5 & F).
  exists hb, ac, ps, A, L, bk1, i, bl.
  destruct (kf_bankrupt _ _ _ _ _ _ _ _ _ _ _ _ _ _ _ _ _ _ _ _ F) as (B1 & B2 & B3).
  destruct (kf_state _ _ _ _ _ _ _ _ _ _ _ _ _ _ _ _ _ _ _ _ F) as (S1 & S2).
  destruct (kf_slot _ _ _ _ _ _ _ _ _ _ _ _ _ _ _ _ _ _ _ _ F) as (L1 & L2 & L3).
  pose proof (kf_owes _ _ _ _ _ _ _ _ _ _ _ _ _ _ _ _ _ _ _ _ F) as Ow. unfold bad_debt in Ow. change ONE with (2 ^ 48) in Ow.
  unfold BANKRUPT_THRESHOLD in B2. unfold ZERO_AMOUNT_THRESHOLD in B3, Ow.
  split; [exact (kf_bank _ _ _ _ _ _ _ _ _ _ _ _ _ _ _ _ _ _ _ _ F)|].
  split; [exact (kf_acct _ _ _ _ _ _ _ _ _ _ _ _ _ _ _ _ _ _ _ _ F)|].
  split; [exact (kf_pos _ _ _ _ _ _ _ _ _ _ _ _ _ _ _ _ _ _ _ _ F)|].
  split; [exact (kf_health _ _ _ _ _ _ _ _ _ _ _ _ _ _ _ _ _ _ _ _ F)|].
  split; [exact B1|]. split; [lia|]. split; [lia|].
  split; [exact (kf_noflash _ _ _ _ _ _ _ _ _ _ _ _ _ _ _ _ _ _ _ _ F)|].
  split; [exact S1|]. split; [exact S2|].
  split; [exact (kf_accrue _ _ _ _ _ _ _ _ _ _ _ _ _ _ _ _ _ _ _ _ F)|].
  split; [exact L1|]. split; [exact L2|]. split; [exact L3|]. lia.
Qed.

(* the equity requirement really is unweighted: every weight is 1 *)
Lemma equity_weight_one c s : get_weight c RqEquity s = ONE.
Proof. reflexivity. Qed.

(* (b) insurance first *)
Lemma bankruptcy_coverage w a b w' :
  h_bankruptcy w a b = Ok w' ->
  exists hb hb' ac i bl bk1 fi pre f bk2 kill,
    nth_bank w b = Ok hb /\ nth_bank w' b = Ok hb' /\ nth_acct w a = Ok ac /\
    nth_error (ha_la ac) i = Some bl /\ bl_active bl = true /\ bl_bank bl = bank_pk b /\
    accrue_interest (hb_b hb) (hw_pf w) (hw_now w) = Ok bk1 /\
    let bad := bl_l bl * b_lsv bk1 / ONE in
    (* insurance available: vault balance net of the Token-2022 transfer fee *)
    tfee hb (hb_insv hb) = Ok fi /\
    let avail := (hb_insv hb - fi) * ONE in
    let covered := Z.min bad avail in
    let loss := bad - covered in
    let moved := (covered + ONE - 1) / ONE in          (* ceil(covered) in tokens *)
    0 <= loss /\ (0 < loss -> covered = avail) /\
    pre_fee hb moved = Ok pre /\ tfee hb pre = Ok f /\ pre <= hb_insv hb /\
    hb_insv hb' = hb_insv hb - pre /\ hb_vault hb' = hb_vault hb + pre - f /\
    hb_feev hb' = hb_feev hb /\ hb_feeata hb' = hb_feeata hb /\
    (0 <= hb_tf_bps hb <= 10000 -> 0 <= hb_tf_max hb -> moved <= pre - f /\ 0 <= f) /\
    (hb_t22 hb = false -> fi = 0 /\ pre = moved /\ f = 0) /\
    socialize_loss bk1 loss = Ok (bk2, kill).
Proof.
  intros H. apply h_bankruptcy_inv in H as (hb & ac & ps & A & L & bk1 & i & bl & fi & pre & f & bk2 & kill & bk3 & bl3 & bk5 & F).
  destruct F as [Fb Fa Fst Ffl Fps Fh Fbk Facc (L1 & L2 & L3) Fow (Ffi & Ffir) Fpre Fcr Ffunds Ffee Fsoc Frep F5 Ffin].
  eexists hb, _, ac, i, bl, bk1, fi, pre, f, bk2, kill.
  split; [exact Fb|]. split.
  { rewrite Ffin. rewrite nth_bank_put_hacct. eapply put_hbank_get; exact Fb. }
  split; [exact Fa|]. split; [exact L1|]. split; [exact L2|]. split; [exact L3|]. split; [exact Facc|].
  cbn zeta. unfold bad_debt, loss_of, covered_of, ceil_tokens in *.
  split; [exact Ffi|].
  cbn [hb_insv hb_vault hb_feev hb_feeata set_hb_b set_hb_vault set_hb_insv].
  split; [lia|]. split; [lia|]. split; [exact Fpre|]. split; [exact Ffee|]. split; [exact Ffunds|].
  split; [reflexivity|]. split; [reflexivity|]. split; [reflexivity|]. split; [reflexivity|].
  split.
  { intros Hb Hm. eapply pre_fee_covers; eauto. lia. }
  split.
  { intros T. unfold tfee, pre_fee in *. rewrite T in *. apply Ok_inj in Ffi. apply Ok_inj in Fpre. apply Ok_inj in Ffee. lia. }
  replace (Z.max (bl_l bl * b_lsv bk1 / ONE - Z.min (bl_l bl * b_lsv bk1 / ONE) ((hb_insv hb - fi) * ONE)) 0)
    with (bl_l bl * b_lsv bk1 / ONE - Z.min (bl_l bl * b_lsv bk1 / ONE) ((hb_insv hb - fi) * ONE)) in Fsoc by lia.
  exact Fsoc.
Qed.

(* facts about the bank after the handler, under the ledger invariants of the pre-state *)
Lemma bankruptcy_bank_after w a b w' hb ac ps A L bk1 i bl fi pre f bk2 kill bk3 bl3 bk5 :
  bk_facts w a b w' hb ac ps A L bk1 i bl fi pre f bk2 kill bk3 bl3 bk5 ->
  bank_sane (hb_b hb) -> wf_bal bl ->
  bank_sane bk1 /\ b_tas bk1 = b_tas (hb_b hb) /\ b_tls bk1 = b_tls (hb_b hb) /\
  b_asv (hb_b hb) <= b_asv bk1 /\ b_lsv (hb_b hb) <= b_lsv bk1 /\
  b_op_state bk1 = b_op_state (hb_b hb) /\
  soc_facts bk1 (loss_of (bad_debt bk1 bl) (hb_insv hb - fi)) bk2 kill /\
  inc_facts bk2 bl (bad_debt bk1 bl) IncRepayOnly bk3 bl3 /\
  b_op_state bk3 = b_op_state bk1 /\ 0 <= loss_of (bad_debt bk1 bl) (hb_insv hb - fi).
Proof.
  intros F (Sa & Sl & Sta & Stl) Hwf.
  destruct F as [Fb Fa Fst Ffl Fps Fh Fbk Facc (L1 & L2 & L3) Fow (Ffi & Ffir) Fpre Fcr Ffunds Ffee Fsoc Frep F5 Ffin].
  pose proof (accrue_monotone _ _ _ _ Sa ltac:(lia) Sta Stl Facc) as (M1 & M2 & _ & _ & _ & _ & M7 & M8 & _).
  pose proof (accrue_frame _ _ _ _ Facc) as (_ & Fop & _).
  assert (S1 : bank_sane bk1) by (unfold bank_sane; lia).
  pose proof S1 as (S1a & S1l & S1t & S1tl).
  assert (Hl0 : 0 <= loss_of (bad_debt bk1 bl) (hb_insv hb - fi)) by (unfold loss_of, covered_of; lia).
  replace (Z.max (loss_of (bad_debt bk1 bl) (hb_insv hb - fi)) 0) with (loss_of (bad_debt bk1 bl) (hb_insv hb - fi)) in Fsoc by lia.
  pose proof (socialize_loss_inv bk1 _ bk2 kill S1a S1t Hl0 Fsoc) as SF.
  pose proof (sf_frame _ _ _ _ SF) as Fr. pose proof (sf_range _ _ _ _ SF) as Rg.
  assert (W2 : wf_sv bk2). { rewrite Fr. unfold wf_sv. cbn [b_asv b_lsv set_b_asv]. lia. }
  assert (Hb0 : 0 <= bad_debt bk1 bl).
  { unfold bad_debt. destruct Hwf. apply Z.div_pos; [apply Z.mul_nonneg_nonneg; lia | apply ONE_pos]. }
  pose proof (increase_balance_inv _ _ _ _ _ _ _ W2 Hwf Hb0 Frep) as IF.
  pose proof (increase_balance_op_state _ _ _ _ _ _ _ Frep) as O3.
  assert (O2 : b_op_state bk2 = b_op_state bk1) by (rewrite Fr; reflexivity).
  split; [exact S1|]. split; [exact M7|]. split; [exact M8|]. split; [exact M1|]. split; [exact M2|].
  split; [exact Fop|]. split; [exact SF|]. split; [exact IF|]. split; [congruence|exact Hl0].
Qed.

(* (c) socialisation at handler level *)
Lemma bankruptcy_socialisation w a b w' :
  h_bankruptcy w a b = Ok w' ->
  forall hb ac, nth_bank w b = Ok hb -> nth_acct w a = Ok ac ->
  bank_sane (hb_b hb) -> Forall wf_bal (ha_la ac) ->
  exists hb' bk1 i bl fi kill,
    nth_bank w' b = Ok hb' /\
    accrue_interest (hb_b hb) (hw_pf w) (hw_now w) = Ok bk1 /\
    nth_error (ha_la ac) i = Some bl /\ bl_active bl = true /\ bl_bank bl = bank_pk b /\
    tfee hb (hb_insv hb) = Ok fi /\
    (* the uncovered amount of C07_insurance_first *)
    let bad := bl_l bl * b_lsv bk1 / ONE in
    let loss := bad - Z.min bad ((hb_insv hb - fi) * ONE) in
    0 <= loss /\ b_tas bk1 = b_tas (hb_b hb) /\ 0 <= b_asv bk1 /\ 0 <= b_tas bk1 /\
    (* the new share value is the one socialize_loss computes from the accrued bank *)
    (exists bk2, socialize_loss bk1 loss = Ok (bk2, kill) /\ b_asv (hb_b hb') = b_asv bk2) /\
    b_tas (hb_b hb') = b_tas bk1 /\
    0 <= b_asv (hb_b hb') <= b_asv bk1 /\
    (b_tas bk1 * b_asv bk1 / ONE <= loss -> b_asv (hb_b hb') = 0 /\ b_op_state (hb_b hb') = 3) /\
    (b_op_state (hb_b hb') = 3 <-> b_asv (hb_b hb') = 0) /\
    (b_op_state (hb_b hb') <> 3 -> b_op_state (hb_b hb') = b_op_state (hb_b hb)) /\
    (loss < b_tas bk1 * b_asv bk1 / ONE ->
       loss * 2 ^ 48 <= b_tas bk1 * b_asv bk1 - b_tas bk1 * b_asv (hb_b hb')) /\
    b_tas bk1 * b_asv bk1 - b_tas bk1 * b_asv (hb_b hb') < (loss + 1) * 2 ^ 48 + b_tas bk1 /\
    (* nobody else is touched: other banks, other accounts, and the asset shares of every slot of this account *)
    (forall k, k <> b -> nth_bank w' k = nth_bank w k) /\
    (forall k, k <> a -> nth_acct w' k = nth_acct w k) /\
    (exists ac', nth_acct w' a = Ok ac' /\ length (ha_la ac') = length (ha_la ac) /\
       forall j x, nth_error (ha_la ac) j = Some x ->
         exists x', nth_error (ha_la ac') j = Some x' /\ bl_a x' = bl_a x /\ bl_bank x' = bl_bank x /\ bl_active x' = bl_active x).
Proof.
  intros H hb0 ac0 Hb0 Ha0 Hs Hw.
  apply h_bankruptcy_inv in H as (hb & ac & ps & A & L & bk1 & i & bl & fi & pre & f & bk2 & kill & bk3 & bl3 & bk5 & F).
  pose proof (kf_bank _ _ _ _ _ _ _ _ _ _ _ _ _ _ _ _ _ _ _ _ F) as Fb. rewrite Hb0 in Fb. apply Ok_inj in Fb. subst hb0.
  pose proof (kf_acct _ _ _ _ _ _ _ _ _ _ _ _ _ _ _ _ _ _ _ _ F) as Fa. rewrite Ha0 in Fa. apply Ok_inj in Fa. subst ac0.
  destruct (kf_slot _ _ _ _ _ _ _ _ _ _ _ _ _ _ _ _ _ _ _ _ F) as (L1 & L2 & L3).
  pose proof (Forall_nth_error _ _ _ _ Hw L1) as Hwf.
  destruct (bankruptcy_bank_after _ _ _ _ _ _ _ _ _ _ _ _ _ _ _ _ _ _ _ _ F Hs Hwf)
    as (S1 & T1 & T2 & M1 & M2 & O1 & SF & IF & O3 & Hl0).
  destruct S1 as (S1a & S1l & S1t & S1tl).
  destruct F as [Fb Fa Fst Ffl Fps Fh Fbk Facc _ Fow (Ffi & Ffir) Fpre Fcr Ffunds Ffee Fsoc Frep (F5a & F5l & F5t & F5tl & F5o) Ffin].
  destruct (if_sv _ _ _ _ _ _ IF) as [V1 V2].
  pose proof (if_tas _ _ _ _ _ _ IF) as TA. pose proof (if_a _ _ _ _ _ _ IF) as BA.
  destruct (if_meta _ _ _ _ _ _ IF) as (MT1 & MT2 & MT3).
  pose proof (sf_frame _ _ _ _ SF) as Fr. pose proof (sf_range _ _ _ _ SF) as Rg.
  pose proof (sf_wiped _ _ _ _ SF) as Wp. pose proof (sf_kill _ _ _ _ SF) as Kl.
  pose proof (sf_lower _ _ _ _ SF) as Lo. pose proof (sf_upper _ _ _ _ SF) as Up.
  assert (T2' : b_tas bk2 = b_tas bk1) by (rewrite Fr; reflexivity).
  assert (A5 : b_asv bk5 = b_asv bk2) by congruence.
  (* repaying exactly the liability amount mints no asset shares *)
  assert (Z0 : ashares bk2 (inc_a_inc bk2 bl (bad_debt bk1 bl)) = 0).
  { assert (E : inc_a_inc bk2 bl (bad_debt bk1 bl) = 0).
    { unfold inc_a_inc, bad_debt. replace (b_lsv bk2) with (b_lsv bk1) by (rewrite Fr; reflexivity). lia. }
    rewrite E. unfold ashares. destruct (b_asv bk2 =? 0); reflexivity. }
  assert (T5 : b_tas bk5 = b_tas bk1) by lia.
  replace (Z.max (loss_of (bad_debt bk1 bl) (hb_insv hb - fi)) 0) with (loss_of (bad_debt bk1 bl) (hb_insv hb - fi)) in Fsoc by lia.
  eexists _, bk1, i, bl, fi, kill.
  split. { rewrite Ffin. rewrite nth_bank_put_hacct. eapply put_hbank_get; exact Fb. }
  cbn [hb_b set_hb_b]. change (2 ^ 48) with ONE.
  split; [exact Facc|]. split; [exact L1|]. split; [exact L2|]. split; [exact L3|]. split; [exact Ffi|].
  change (bl_l bl * b_lsv bk1 / ONE - Z.min (bl_l bl * b_lsv bk1 / ONE) ((hb_insv hb - fi) * ONE))
    with (loss_of (bad_debt bk1 bl) (hb_insv hb - fi)). cbv zeta.
  split; [exact Hl0|]. split; [exact T1|]. split; [exact S1a|]. split; [exact S1t|].
  split; [exists bk2; split; [exact Fsoc | exact A5]|].
  split; [exact T5|]. rewrite A5.
  split; [exact Rg|].
  split. { intros Hwp. destruct (Wp Hwp) as [Z1 ->]. split; [exact Z1 | rewrite F5o; reflexivity]. }
  split.
  { rewrite F5o. destruct kill.
    - split; intros _; [apply Kl; reflexivity | reflexivity].
    - split; intros HH.
      + exfalso. destruct Fst as [NK _]. apply NK. rewrite <- O1, <- O3. exact HH.
      + apply Kl in HH. discriminate. }
  split. { rewrite F5o. destruct kill; [intros NK; exfalso; apply NK; reflexivity|]. intros _. congruence. }
  split; [exact Lo|]. split; [exact Up|].
  split. { intros k Hk. rewrite Ffin. rewrite nth_bank_put_hacct. apply nth_bank_put_other. congruence. }
  split. { intros k Hk. rewrite Ffin. rewrite nth_acct_put_other by congruence. apply nth_acct_put_hbank. }
  eexists. split. { rewrite Ffin. eapply put_hacct_get. rewrite nth_acct_put_hbank. exact Fa. }
  cbn [ha_la]. split.
  { clear. generalize (ha_la ac) i. induction l as [|x r IH]; intros [|n]; cbn; auto. }
  intros j x Hj. destruct (Nat.eq_dec i j) as [<-|Hne].
  - rewrite (nth_set_nth_same _ _ _ _ L1). rewrite Hj in L1. apply Some_inj in L1. subst x.
    exists bl3. split; [reflexivity|]. split; [lia|]. split; assumption.
  - rewrite nth_set_nth_other by assumption. exists x. auto.
Qed.

(* (d) debt cleared, account disabled, totals move with the position *)
Lemma bankruptcy_cleared_disabled w a b w' :
  h_bankruptcy w a b = Ok w' ->
  forall hb ac, nth_bank w b = Ok hb -> nth_acct w a = Ok ac ->
  bank_sane (hb_b hb) -> Forall wf_bal (ha_la ac) ->
  exists hb' ac' i bl bl',
    nth_bank w' b = Ok hb' /\ nth_acct w' a = Ok ac' /\
    nth_error (ha_la ac) i = Some bl /\ bl_active bl = true /\ bl_bank bl = bank_pk b /\
    nth_error (ha_la ac') i = Some bl' /\ bl_active bl' = true /\ bl_bank bl' = bank_pk b /\
    (* the account is disabled, its other flags are kept *)
    aflag ac' 1 = true /\ (forall k, aflag ac k = true -> aflag ac' k = true) /\
    (* what remains of the debt: less than one ulp of a token plus one ulp of the share value, at scale 2^96 *)
    0 <= bl_l bl' <= bl_l bl /\ bl_l bl' * b_lsv (hb_b hb') < 2 ^ 48 + b_lsv (hb_b hb') /\
    bl_a bl' = bl_a bl /\
    (* totals move with the position, exactly (C02) *)
    b_tls (hb_b hb') - b_tls (hb_b hb) = bl_l bl' - bl_l bl /\ b_tas (hb_b hb') = b_tas (hb_b hb) /\
    0 < b_lsv (hb_b hb').
Proof.
  intros H hb0 ac0 Hb0 Ha0 Hs Hw.
  apply h_bankruptcy_inv in H as (hb & ac & ps & A & L & bk1 & i & bl & fi & pre & f & bk2 & kill & bk3 & bl3 & bk5 & F).
  pose proof (kf_bank _ _ _ _ _ _ _ _ _ _ _ _ _ _ _ _ _ _ _ _ F) as Fb. rewrite Hb0 in Fb. apply Ok_inj in Fb. subst hb0.
  pose proof (kf_acct _ _ _ _ _ _ _ _ _ _ _ _ _ _ _ _ _ _ _ _ F) as Fa. rewrite Ha0 in Fa. apply Ok_inj in Fa. subst ac0.
  destruct (kf_slot _ _ _ _ _ _ _ _ _ _ _ _ _ _ _ _ _ _ _ _ F) as (L1 & L2 & L3).
  pose proof (Forall_nth_error _ _ _ _ Hw L1) as Hwf.
  destruct (bankruptcy_bank_after _ _ _ _ _ _ _ _ _ _ _ _ _ _ _ _ _ _ _ _ F Hs Hwf)
    as (S1 & T1 & T2 & M1 & M2 & O1 & SF & IF & O3 & Hl0).
  destruct S1 as (S1a & S1l & S1t & S1tl). destruct Hwf as [Wa Wl].
  destruct F as [Fb Fa Fst Ffl Fps Fh Fbk Facc _ Fow (Ffi & Ffir) Fpre Fcr Ffunds Ffee Fsoc Frep (F5a & F5l & F5t & F5tl & F5o) Ffin].
  destruct (if_sv _ _ _ _ _ _ IF) as [V1 V2].
  pose proof (if_tas _ _ _ _ _ _ IF) as TA. pose proof (if_a _ _ _ _ _ _ IF) as BA.
  pose proof (if_tls _ _ _ _ _ _ IF) as TL. pose proof (if_l _ _ _ _ _ _ IF) as BL.
  destruct (if_meta _ _ _ _ _ _ IF) as (MT1 & MT2 & MT3).
  pose proof (sf_frame _ _ _ _ SF) as Fr.
  assert (L2' : b_lsv bk2 = b_lsv bk1) by (rewrite Fr; reflexivity).
  assert (TS2 : b_tas bk2 = b_tas bk1 /\ b_tls bk2 = b_tls bk1) by (rewrite Fr; split; reflexivity).
  destruct TS2 as [TS2a TS2l].
  assert (Ea : inc_a_inc bk2 bl (bad_debt bk1 bl) = 0) by (unfold inc_a_inc, bad_debt; rewrite L2'; lia).
  assert (El : inc_l_dec bk2 bl (bad_debt bk1 bl) = bad_debt bk1 bl) by (unfold inc_l_dec, bad_debt; rewrite L2'; lia).
  assert (Z0 : ashares bk2 0 = 0) by (unfold ashares; destruct (b_asv bk2 =? 0); reflexivity).
  rewrite Ea, Z0 in *. rewrite El in *.
  (* residual liability shares *)
  pose proof ONE_pos as HO.
  assert (Hb0' : 0 <= bad_debt bk1 bl) by (unfold bad_debt; apply Z.div_pos; [apply Z.mul_nonneg_nonneg; lia | lia]).
  pose proof (lshares_le bk2 (bad_debt bk1 bl) Hb0' ltac:(lia)) as [Q1 Q2].
  pose proof (lshares_gt bk2 (bad_debt bk1 bl) Hb0' ltac:(lia)) as Q3.
  assert (Hbd : bl_l bl * b_lsv bk1 - ONE < bad_debt bk1 bl * ONE /\ bad_debt bk1 bl * ONE <= bl_l bl * b_lsv bk1).
  { unfold bad_debt. pose proof (Z.div_mod (bl_l bl * b_lsv bk1) ONE ltac:(lia)). pose proof (Z.mod_pos_bound (bl_l bl * b_lsv bk1) ONE HO). lia. }
  rewrite L2' in Q2, Q3.
  assert (R1 : lshares bk2 (bad_debt bk1 bl) <= bl_l bl).
  { apply (Z.mul_le_mono_pos_r _ _ (b_lsv bk1)); lia. }
  eexists _, _, i, bl, bl3.
  split. { rewrite Ffin. rewrite nth_bank_put_hacct. eapply put_hbank_get; exact Fb. }
  split. { rewrite Ffin. eapply put_hacct_get. rewrite nth_acct_put_hbank. exact Fa. }
  cbn [hb_b set_hb_b ha_la ha_flags]. change (2 ^ 48) with ONE.
  split; [exact L1|]. split; [exact L2|]. split; [exact L3|].
  split; [eapply nth_set_nth_same; exact L1|]. split; [congruence|]. split; [congruence|].
  split. { unfold aflag. cbn [ha_flags]. change 1 with ACCOUNT_DISABLED. rewrite disabled_set. apply Z.eqb_refl. }
  split. { intros k Hk. unfold aflag in *. cbn [ha_flags]. apply Z.eqb_eq in Hk. apply Z.eqb_eq. apply lor_keeps_flag. exact Hk. }
  split; [lia|]. split. { rewrite F5l, V2, L2'. rewrite BL. nia. }
  split; [lia|]. split; [lia|]. split; [lia|]. lia.
Qed.

(* ------------------------------------------------------------------------------------------ *)
(* 5. "unweighted assets": the risk engine values deposits in ISOLATED-tier banks at 0 for every
   requirement type, Equity included.  `unweighted_components` values them like any other deposit
   (weight 1, low-bias price); it coincides with the engine's equity components exactly when the
   account has no deposit in an isolated-tier bank. *)
Definition as_collateral (p : rpos) : rpos :=
  mkPos (ps_bal p) (ps_bank p)
        (mkRC (rc_awi (ps_cfg p)) (rc_awm (ps_cfg p)) (rc_lwi (ps_cfg p)) (rc_lwm (ps_cfg p)) TIER_COLLATERAL
              (rc_tavil (ps_cfg p)) (rc_emode_tag (ps_cfg p)) (rc_emode (ps_cfg p)))
        (ps_feed p).
Definition unweighted_components (ps : list rpos) : res (fx * fx) := health_components (map as_collateral ps) RqEquity.

Definition isolated_deposit (p : rpos) : bool :=
  (rc_tier (ps_cfg p) =? TIER_ISOLATED) && asset_nonempty (ps_bal p) && negb (liab_nonempty (ps_bal p)).

Lemma weighted_value_as_collateral p r em :
  isolated_deposit p = false -> weighted_value (as_collateral p) r em = weighted_value p r em.
Proof.
  intros H. unfold weighted_value. cbn [as_collateral ps_bal].
  destruct (get_side (ps_bal p)) as [[[|]|]|e] eqn:S; cbn [bind]; try reflexivity.
  assert (T : (rc_tier (ps_cfg p) =? TIER_ISOLATED) = false).
  { unfold get_side in S. apply bind_ok in S as (u & _ & S).
    unfold isolated_deposit, asset_nonempty, liab_nonempty in H.
    destruct (EMPTY_BALANCE_THRESHOLD <=? bl_l (ps_bal p)); [apply Ok_inj in S; discriminate|].
    destruct (EMPTY_BALANCE_THRESHOLD <=? bl_a (ps_bal p)); [|apply Ok_inj in S; discriminate].
    destruct (rc_tier (ps_cfg p) =? TIER_ISOLATED); [discriminate H|reflexivity]. }
  unfold weighted_asset_value. cbn [as_collateral ps_cfg ps_bank ps_feed ps_bal rc_tier]. rewrite T.
  change (TIER_COLLATERAL =? TIER_ISOLATED) with false. cbv iota. reflexivity.
Qed.

Lemma engine_emode_as_collateral ps : engine_emode (map as_collateral ps) = engine_emode ps.
Proof.
  unfold engine_emode. f_equal. induction ps as [|p r IH]; [reflexivity|]. cbn [map filter as_collateral ps_bal].
  destruct (liab_nonempty (ps_bal p)); cbn [map as_collateral ps_cfg rc_emode]; rewrite IH; reflexivity.
Qed.

Lemma health_sum_as_collateral r em : forall ps a l,
  forallb (fun p => negb (isolated_deposit p)) ps = true ->
  health_sum (map as_collateral ps) r em a l = health_sum ps r em a l.
Proof.
  induction ps as [|p rest IH]; intros a l H; [reflexivity|]. cbn [forallb] in H. apply Bool.andb_true_iff in H as [Hp Hr].
  cbn [map health_sum]. rewrite weighted_value_as_collateral by (destruct (isolated_deposit p); [discriminate|reflexivity]).
  destruct (weighted_value p r em) as [[[av lv] c]|e]; cbn [bind]; [|reflexivity].
  destruct (math (cadd a av)) as [a'|e]; cbn [bind]; [|reflexivity].
  destruct (math (cadd l lv)) as [l'|e]; cbn [bind]; [|reflexivity]. apply IH. exact Hr.
Qed.

Lemma unweighted_is_equity ps :
  forallb (fun p => negb (isolated_deposit p)) ps = true -> unweighted_components ps = health_components ps RqEquity.
Proof.
  intros H. unfold unweighted_components, health_components. rewrite engine_emode_as_collateral.
  apply health_sum_as_collateral. exact H.
Qed.

(* restricted statement: for accounts without a deposit in an isolated-tier bank the test is on the unweighted assets *)
Lemma bankruptcy_eligibility_unweighted w a b w' :
  h_bankruptcy w a b = Ok w' ->
  exists ac ps, nth_acct w a = Ok ac /\ positions w (ha_la ac) = Ok ps /\
    (forallb (fun p => negb (isolated_deposit p)) ps = true ->
     exists A L, unweighted_components ps = Ok (A, L) /\ A < L /\ 10 * A < 2 ^ 48 /\ 2 ^ 48 < 10000 * L).
Proof.
  intros H. destruct (bankruptcy_eligibility _ _ _ _ H) as (hb & ac & ps & A & L & bk1 & i & bl & _ & Ha & Hp & Hh & H1 & H2 & H3 & _).
  exists ac, ps. split; [exact Ha|]. split; [exact Hp|]. intros Hn. exists A, L.
  rewrite (unweighted_is_equity _ Hn). auto.
Qed.

(* ------------------------------------------------------------------------------------------ *)
(* 6. concrete worlds (non-vacuity example of props/C07.v and the witness of the finding) *)
Definition ex_ir : ir_config :=
  mkIR 0 0 0 (ONE / 100) (ONE / 10) (ONE / 100) (ONE / 10) 0 429496729 [mkRP 2147483648 214748364] 1.
Definition ex_bank (tas : Z) : bank :=
  mkBank ONE ONE (tas * ONE) (100 * ONE) 0 0 0 1000 U64_MAX U64_MAX 0 0 0 0 0 1 1 1 ex_ir.
Definition ex_slot (a l : Z) : balance := mkBal true 1 0 (a * ONE) (l * ONE) 0 0.
Definition ex_la (s : balance) : laccount := s :: repeat bal_empty 15.
Definition ex_w (tas insv : Z) : hworld :=
  mkHW [mkHB (ex_bank tas) (mkRC ONE ONE ONE ONE 0 0 0 []) (fixed_feed ONE) 900 insv 0 0 false 0 0 0]
       [mkHA (ex_la (ex_slot tas 0)) 0; mkHA (ex_la (ex_slot 0 100)) 0]
       1000 (mkPF false 0 0) [[0]; [0]] false.
Definition ex_view (r : res hworld) : option (Z * Z * Z * Z * Z * Z) :=
  match r with
  | Ok w => match hw_banks w, hw_accts w with
            | [hb], [_; d] => Some (b_asv (hb_b hb), b_op_state (hb_b hb), hb_vault hb, hb_insv hb,
                                    ha_flags d, match ha_la d with s :: _ => bl_l s | [] => -1 end)
            | _, _ => None end
  | Err _ => None end.

(* debtor of `ex_w` that additionally holds 5000 tokens ($5000) in a second, isolated-tier bank *)
Definition ex_w_iso : hworld :=
  mkHW [mkHB (ex_bank 1000) (mkRC ONE ONE ONE ONE 0 0 0 []) (fixed_feed ONE) 900 30 0 0 false 0 0 0;
        mkHB (ex_bank 5000) (mkRC 0 0 ONE ONE 1 0 0 []) (fixed_feed ONE) 5000 0 0 0 false 0 0 0]
       [mkHA (ex_la (ex_slot 1000 0)) 0;
        mkHA (ex_slot 0 100 :: mkBal true 2 0 (5000 * ONE) 0 0 0 :: repeat bal_empty 14) 0]
       1000 (mkPF false 0 0) [[0; 0]; [0; 0]] false.

Lemma unweighted_refuted :
  exists w a b w' ac ps A L,
    h_bankruptcy w a b = Ok w' /\ nth_acct w a = Ok ac /\ positions w (ha_la ac) = Ok ps /\
    unweighted_components ps = Ok (A, L) /\ L <= A /\ 2 ^ 48 <= 10 * A.
Proof.
  destruct (h_bankruptcy ex_w_iso 1 0) as [w'|e] eqn:E; [|vm_compute in E; discriminate].
  destruct (nth_acct ex_w_iso 1) as [ac|e] eqn:Ea; [|vm_compute in Ea; discriminate].
  destruct (positions ex_w_iso (ha_la ac)) as [ps|e] eqn:Ep.
  2: { vm_compute in Ea. apply Ok_inj in Ea. subst ac. vm_compute in Ep. discriminate. }
  exists ex_w_iso, 1%nat, 0%nat, w', ac, ps, (5000 * ONE), (100 * ONE).
  split; [exact E|]. split; [exact Ea|]. split; [exact Ep|].
  vm_compute in Ea. apply Ok_inj in Ea. subst ac. vm_compute in Ep. apply Ok_inj in Ep. subst ps.
  split; [vm_compute; reflexivity|]. split; vm_compute; discriminate.
Qed.
