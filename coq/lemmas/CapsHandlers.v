(* CapsHandlers.v — C17 at instruction level: after a successful deposit / borrow / withdraw handler the
   bank it touched respects the deposit limit, the borrow limit and deposits >= debt. *)
Require Import Base Constants Fixed Curve Bank BankOps Risk TransferFee Handlers.
Require Import FixedLemmas BankLemmas ValueLemmas CurveLemmas AccrualLemmas TransferFeeLemmas HandlerLemmas SolvencyLemmas FrameLemmas LedgerLemmas HandlerEffects SolvencyHandlers SolvencyWorld HandlerWorld.
From Coq Require Import ZifyBool.
Local Open Scope Z_scope.

Definition deposits_of (b : bank) : Z := b_tas b * b_asv b / ONE.
Definition debt_of (b : bank) : Z := b_tls b * b_lsv b / ONE.

Lemma acct_facts w a b ac hb : HOk2 w -> nth_acct w a = Ok ac -> nth_bank w b = Ok hb ->
  hb_ok hb /\ Forall wf_bal (ha_la ac) /\ pos_le (hb_b hb) (bank_pk b) (ha_la ac).
Proof.
  intros H2 Hac Hb. pose proof H2 as (_ & _ & Hbk). pose proof (HOk2_HOk _ H2) as (_ & _ & Ha).
  destruct (Hbk _ _ Hb) as (Hok & _). destruct (Ha _ _ Hac) as (W & P). split; [exact Hok|]. split; [exact W|exact (P _ _ Hb)].
Qed.

Theorem h_deposit_respects_limit w a b n up w' hb hb' :
  HOk2 w -> 0 <= n -> h_deposit w a b n up = Ok w' -> nth_bank w b = Ok hb -> nth_bank w' b = Ok hb' ->
  b_tas (hb_b hb) < b_tas (hb_b hb') ->
  b_dep_limit (hb_b hb) <> U64_MAX -> b_asset_tag (hb_b hb) <> ASSET_TAG_DRIFT ->
  deposits_of (hb_b hb') < of_int (b_dep_limit (hb_b hb')).
Proof.
  intros H2 Hn H Hb Hb' Hinc Hlim Htag.
  destruct (h_deposit_effect _ _ _ _ _ _ Hn H) as (hb0 & hb0' & ac & ac' & (E1 & E2 & E3 & _) & F).
  rewrite Hb in E1. apply Ok_inj in E1. subst hb0.
  pose proof (nth_bank_of_eq _ _ _ _ _ E3 Hb) as X. rewrite Hb' in X. apply Ok_inj in X. subst hb0'.
  destruct (acct_facts _ _ _ _ _ H2 E2 Hb) as (Hok & Wac & Pac).
  destruct F as (bk1 & Hacc & _ & _ & Hcase).
  destruct (after_accrue _ _ _ _ _ Hok Pac Hacc) as (Hok1 & _ & Pac1 & Ta1 & Tl1 & Hsv1).
  destruct (accrue_tot _ _ _ _ Hok Hacc) as (T1 & T2 & _).
  pose proof (accrue_frame _ _ _ _ Hacc) as (_ & _ & _ & Fd & _ & Ft & _).
  destruct Hcase as [[-> ->] | (dep & i & la1 & bl & bk2 & bl2 & pre & f & bk3 & Hd & Hloc & Hbl & Hinc2 & _ & _ & Hcache & -> & ->)].
  - exfalso. cbn [set_hb_b hb_b] in Hinc. lia.
  - destruct (located_le _ _ bk1 _ _ true _ _ _ Hloc Hbl Wac Pac1 Ta1 Tl1) as (Wbl & _ & _ & _).
    assert (Hdn : 0 <= of_int dep) by (unfold of_int; pose proof ONE_pos; nia).
    pose proof (increase_balance_inv _ _ _ _ _ _ _ Hsv1 Wbl Hdn Hinc2) as Fi.
    pose proof (if_tas _ _ _ _ _ _ Fi) as Fta.
    destruct (NAV_cache _ _ _ _ Hcache) as (_ & C1 & _ & C3 & _).
    pose proof (cache_static _ _ _ _ Hcache) as (_ & _ & _ & _ & _ & Cd & _).
    cbn [mk_hb set_hb_b hb_b] in Hinc |- *.
    assert (Hsh : 0 < ashares bk1 (inc_a_inc bk1 bl (of_int dep))) by lia.
    assert (Hnb : IncDepositOnly <> IncBypassDepositLimit) by discriminate.
    assert (Hl1 : b_dep_limit bk1 <> U64_MAX) by congruence. assert (Hg1 : b_asset_tag bk1 <> ASSET_TAG_DRIFT) by congruence.
    pose proof (deposit_under_cap _ _ _ _ _ _ _ Hsv1 Wbl Hdn Hnb Hinc2 Hsh Hl1 Hg1) as Hcap.
    unfold deposits_of. rewrite C1, C3, Cd. exact Hcap.
Qed.

Theorem h_borrow_respects_limit_and_utilisation w a b n w' hb hb' :
  HOk2 w -> 0 <= n -> h_borrow w a b n = Ok w' -> nth_bank w b = Ok hb -> nth_bank w' b = Ok hb' ->
  (b_tls (hb_b hb) < b_tls (hb_b hb') -> b_bor_limit (hb_b hb) <> U64_MAX ->
     debt_of (hb_b hb') < of_int (b_bor_limit (hb_b hb'))) /\
  debt_of (hb_b hb') <= deposits_of (hb_b hb').
Proof.
  intros H2 Hn H Hb Hb'.
  destruct (h_borrow_effect _ _ _ _ _ H) as (hb0 & hb0' & ac & ac' & (E1 & E2 & E3 & _) & F).
  rewrite Hb in E1. apply Ok_inj in E1. subst hb0.
  pose proof (nth_bank_of_eq _ _ _ _ _ E3 Hb) as X. rewrite Hb' in X. apply Ok_inj in X. subst hb0'.
  destruct (acct_facts _ _ _ _ _ H2 E2 Hb) as (Hok & Wac & Pac).
  pose proof H2 as (Hpf & _ & Hbk). destruct (Hbk _ _ Hb) as (_ & Hfr).
  destruct F as (bk1 & i & la1 & bl & pre & delta & ofee & bk2 & bl2 & bk4 & bk5 & Hacc & _ & _ & _ & Hloc & Hbl & Hpre & Hof & Hdec & _ & Hbook & Hcache & -> & -> & _).
  destruct (after_accrue _ _ _ _ _ Hok Pac Hacc) as (Hok1 & _ & Pac1 & Ta1 & Tl1 & Hsv1).
  destruct (accrue_tot _ _ _ _ Hok Hacc) as (T1 & T2 & _).
  pose proof (accrue_frame _ _ _ _ Hacc) as (_ & _ & _ & _ & Fb & _).
  destruct (located_le _ _ bk1 _ _ true _ _ _ Hloc Hbl Wac Pac1 Ta1 Tl1) as (Wbl & _ & _ & _).
  pose proof Hok as (_ & _ & _ & _ & Hb1 & Hb2).
  pose proof (pre_fee_nonneg _ _ _ Hb1 Hb2 Hn Hpre) as Hp0.
  destruct (orig_fee_inv _ _ _ _ Hp0 Hof) as (-> & Ho0).
  assert (Hdn : 0 <= of_int pre + ofee) by (unfold of_int; pose proof ONE_pos; nia).
  assert (Hnb : DecBorrowOnly <> DecBypassBorrowLimit) by discriminate.
  destruct (borrow_under_cap_and_utilisation _ _ _ _ _ _ _ Hsv1 Wbl Hdn Hnb Hdec) as (Hcap & Hutil).
  pose proof (decrease_balance_inv _ _ _ _ _ _ _ Hsv1 Wbl Hdn Hdec) as Fd.
  pose proof (df_tls _ _ _ _ _ _ Fd) as Ftl.
  pose proof (fees_rep_accrue _ _ _ _ Hok Hfr Hacc) as Hfr1.
  pose proof (fees_rep_gp _ _ Hfr1 (gp_decrease _ _ _ _ _ _ _ Hdec)) as Hfr2.
  destruct (book_orig_fee_inv _ _ _ _ Hpf Ho0 Hfr2 Hbook) as (_ & (_ & _ & _ & _ & _ & _ & Bb) & B1 & B2 & B3 & B4 & _).
  destruct (NAV_cache _ _ _ _ Hcache) as (_ & C1 & C2 & C3 & C4 & _).
  pose proof (cache_static _ _ _ _ Hcache) as (_ & _ & _ & _ & _ & _ & Cb).
  cbn [mk_hb set_hb_b hb_b]. unfold debt_of, deposits_of. rewrite C1, C2, C3, C4, B1, B2, B3, B4, Cb, Bb.
  split; [|exact Hutil]. intros Hinc Hlim. cbn [mk_hb set_hb_b hb_b] in Hinc.
  apply Hcap; [|congruence]. lia.
Qed.

Theorem h_withdraw_keeps_utilisation w a b n all w' hb' :
  HOk2 w -> 0 <= n -> h_withdraw w a b n all = Ok w' -> nth_bank w' b = Ok hb' ->
  debt_of (hb_b hb') <= deposits_of (hb_b hb').
Proof.
  intros H2 Hn H Hb'.
  destruct (h_withdraw_effect _ _ _ _ _ _ H) as (hb & hb0' & ac & ac' & (E1 & E2 & E3 & _) & F).
  pose proof (nth_bank_of_eq _ _ _ _ _ E3 E1) as X. rewrite Hb' in X. apply Ok_inj in X. subst hb0'.
  destruct (acct_facts _ _ _ _ _ H2 E2 E1) as (Hok & Wac & Pac).
  destruct F as (bk1 & i & bl & bk2 & bl2 & pre & paid & bk3 & Hacc & _ & Hi & Hbl & Hprim & _ & _ & Hcache & -> & _).
  destruct (after_accrue _ _ _ _ _ Hok Pac Hacc) as (Hok1 & _ & Pac1 & Ta1 & Tl1 & Hsv1).
  destruct (located_le _ bk1 bk1 _ (hw_now w) false _ _ _ (find_as_located _ _ _ Hi) Hbl Wac Pac1 Ta1 Tl1) as (Wbl & _ & _ & _).
  pose proof Hok as (_ & _ & _ & _ & Hb1 & Hb2).
  destruct (NAV_cache _ _ _ _ Hcache) as (_ & C1 & C2 & C3 & C4 & _).
  cbn [mk_hb set_hb_b hb_b]. unfold debt_of, deposits_of. rewrite C1, C2, C3, C4.
  destruct all.
  - exact (withdraw_all_utilisation _ _ _ _ _ _ Hsv1 Wbl Hprim).
  - destruct Hprim as (Hpre & Hdec). pose proof (pre_fee_nonneg _ _ _ Hb1 Hb2 Hn Hpre) as Hp0.
    assert (Hdn : 0 <= of_int pre) by (unfold of_int; pose proof ONE_pos; nia).
    assert (Hnb : DecWithdrawOnly <> DecBypassBorrowLimit) by discriminate.
    destruct (borrow_under_cap_and_utilisation _ _ _ _ _ _ _ Hsv1 Wbl Hdn Hnb Hdec) as (_ & Hutil). exact Hutil.
Qed.
