(* NoRiskAccounts.v — C04 for a borrow / withdrawal sent WITHOUT its risk (bank / oracle) accounts: success means the
   engine's verdict on an empty account list was Ok, which happens only inside a flash loan or when the account is left
   without any active balance. *)
Require Import Base Constants Fixed Curve Bank BankOps Risk TransferFee Handlers.
Require Import FixedLemmas BankLemmas ValueLemmas CurveLemmas AccrualLemmas TransferFeeLemmas HandlerLemmas SolvencyLemmas.
Local Open Scope Z_scope.

Lemma norem_check_inv ac :
  init_health_check_norem ac = Ok tt ->
  aflag ac ACCOUNT_IN_FLASHLOAN = true \/ existsb bl_active (ha_la ac) = false.
Proof.
  unfold init_health_check_norem. destruct (aflag ac ACCOUNT_IN_FLASHLOAN); [auto|].
  destruct (existsb bl_active (ha_la ac)); [discriminate | auto].
Qed.

Theorem borrow_norem_verdict w a b n w' :
  h_borrow_norem w a b n = Ok w' ->
  exists ac3, nth_acct w' a = Ok ac3 /\ init_health_check_norem ac3 = Ok tt.
Proof.
  unfold h_borrow_norem. intros H.
  apply bind_ok in H as (hb & Hhb & H). apply bind_ok in H as (ac & Hac & H).
  apply bind_ok in H as (u1 & _ & H). apply bind_ok in H as (u2 & _ & H). apply bind_ok in H as (u3 & _ & H).
  apply bind_ok in H as (bk1 & _ & H). apply bind_ok in H as (u4 & _ & H). apply bind_ok in H as (u5 & _ & H).
  apply bind_ok in H as ([i la1] & _ & H). apply bind_ok in H as (bl & _ & H). apply bind_ok in H as (pre & _ & H).
  apply bind_ok in H as ([delta ofee] & _ & H). apply bind_ok in H as ([bk2 bl2] & _ & H).
  apply bind_ok in H as (w2 & _ & H). apply bind_ok in H as (hb2 & _ & H). apply bind_ok in H as (bk4 & _ & H).
  apply bind_ok in H as (ac2 & Hac2 & H). apply bind_ok in H as (u6 & Hchk & H). destruct u6.
  apply bind_ok in H as (hb3 & _ & H). apply bind_ok in H as (bk5 & _ & H). apply Ok_inj in H. subst w'.
  exists (sort_acct ac2). split; [|exact Hchk].
  rewrite nth_acct_put_hbank. apply (put_hacct_get _ _ _ ac2). rewrite nth_acct_put_hbank. exact Hac2.
Qed.

Theorem withdraw_norem_verdict w a b n all w' :
  h_withdraw_norem w a b n all = Ok w' ->
  exists ac3, nth_acct w' a = Ok ac3 /\ init_health_check_norem ac3 = Ok tt.
Proof.
  unfold h_withdraw_norem. intros H.
  apply bind_ok in H as (hb & Hhb & H). apply bind_ok in H as (ac & Hac & H).
  apply bind_ok in H as (u1 & _ & H). apply bind_ok in H as (u2 & _ & H). apply bind_ok in H as (u3 & _ & H).
  apply bind_ok in H as (bk1 & _ & H). apply bind_ok in H as (i & _ & H). apply bind_ok in H as (bl & _ & H).
  apply bind_ok in H as ([[bk2 bl2] pre] & _ & H).
  apply bind_ok in H as (w2 & _ & H). apply bind_ok in H as (hb2 & _ & H). apply bind_ok in H as (bk3 & _ & H).
  apply bind_ok in H as (ac2 & Hac2 & H). apply bind_ok in H as (u4 & Hchk & H). destruct u4. apply Ok_inj in H. subst w'.
  exists (sort_acct ac2). split; [|exact Hchk].
  apply (put_hacct_get _ _ _ ac2). rewrite nth_acct_put_hbank. exact Hac2.
Qed.

Corollary borrow_norem_only_flashloan_or_empty w a b n w' :
  h_borrow_norem w a b n = Ok w' ->
  exists ac3, nth_acct w' a = Ok ac3 /\
    (aflag ac3 ACCOUNT_IN_FLASHLOAN = true \/ existsb bl_active (ha_la ac3) = false).
Proof. intros H. destruct (borrow_norem_verdict _ _ _ _ _ H) as (ac3 & H1 & H2). exists ac3. split; [exact H1 | apply norem_check_inv; exact H2]. Qed.

Corollary withdraw_norem_only_flashloan_or_empty w a b n all w' :
  h_withdraw_norem w a b n all = Ok w' ->
  exists ac3, nth_acct w' a = Ok ac3 /\
    (aflag ac3 ACCOUNT_IN_FLASHLOAN = true \/ existsb bl_active (ha_la ac3) = false).
Proof. intros H. destruct (withdraw_norem_verdict _ _ _ _ _ _ H) as (ac3 & H1 & H2). exists ac3. split; [exact H1 | apply norem_check_inv; exact H2]. Qed.

(* a classic liquidation sent without anybody's risk accounts never succeeds: either the liquidatee has an active balance
   (the engine cannot load it) or it has none (then it has no debt in the liability bank either) *)
Theorem liquidate_norem_never_succeeds w r e ab lb n w' : h_liquidate_norem w r e ab lb n = Ok w' -> False.
Proof.
  unfold h_liquidate_norem, h_liquidate_gen. intros H.
  apply bind_ok in H as (ha & _ & H). apply bind_ok in H as (hl & _ & H).
  apply bind_ok in H as (u1 & _ & H). apply bind_ok in H as (u2 & _ & H). apply bind_ok in H as (u3 & _ & H).
  apply bind_ok in H as (ee & _ & H). apply bind_ok in H as (er & _ & H).
  apply bind_ok in H as (u4 & _ & H). apply bind_ok in H as (u5 & _ & H). apply bind_ok in H as (u6 & _ & H).
  apply bind_ok in H as (u7 & _ & H). apply bind_ok in H as (u8 & _ & H). apply bind_ok in H as (u9 & _ & H).
  apply bind_ok in H as (u10 & _ & H). apply bind_ok in H as (u11 & _ & H).
  apply bind_ok in H as (ba1 & _ & H). apply bind_ok in H as (bl1 & _ & H).
  apply bind_ok in H as (u12 & _ & H). apply bind_ok in H as (ps & Hps & H).
  apply bind_ok in H as ([[ph x] y] & Hpre & _).
  unfold positions_norem in Hps. destruct (existsb bl_active (ha_la (sort_acct ee))); [discriminate|].
  apply Ok_inj in Hps. subst ps. unfold pre_liquidation in Hpre. cbn in Hpre. discriminate.
Qed.
