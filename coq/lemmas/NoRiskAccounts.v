(* NoRiskAccounts.v — C04 for a borrow / withdrawal sent WITHOUT its risk (bank / oracle) accounts: success means the
   engine's verdict on an empty account list was Ok, which happens only inside a flash loan or when the account is left
   without any active balance. *)
Require Import Base Constants Fixed Curve Bank BankOps Risk TransferFee Handlers.
Require Import FixedLemmas BankLemmas ValueLemmas CurveLemmas AccrualLemmas TransferFeeLemmas HandlerLemmas SolvencyLemmas StructLemmas HandlerEffects.
From Coq Require Import Sorting.Permutation.
Local Open Scope Z_scope.

Lemma norem_check_inv ac :
  init_health_check_norem ac = Ok tt ->
  aflag ac ACCOUNT_IN_FLASHLOAN = true \/ existsb bl_active (ha_la ac) = false.
Proof.
  unfold init_health_check_norem. destruct (aflag ac ACCOUNT_IN_FLASHLOAN); [auto|].
  destruct (existsb bl_active (ha_la ac)); [discriminate | auto].
Qed.

Theorem borrow_norem_verdict w a b n w' :
  h_borrow_norem w a b n = Ok w' ->
  exists ac3, nth_acct w' a = Ok ac3 /\ init_health_check_norem ac3 = Ok tt.
Proof.
  unfold h_borrow_norem. intros H.
  apply bind_ok in H as (hb & Hhb & H). apply bind_ok in H as (ac & Hac & H).
  apply bind_ok in H as (u1 & _ & H). apply bind_ok in H as (u2 & _ & H). apply bind_ok in H as (u3 & _ & H).
  apply bind_ok in H as (bk1 & _ & H). apply bind_ok in H as (u4 & _ & H). apply bind_ok in H as (u5 & _ & H).
  apply bind_ok in H as ([i la1] & _ & H). apply bind_ok in H as (bl & _ & H). apply bind_ok in H as (pre & _ & H).
  apply bind_ok in H as ([delta ofee] & _ & H). apply bind_ok in H as ([bk2 bl2] & _ & H).
  apply bind_ok in H as (w2 & _ & H). apply bind_ok in H as (hb2 & _ & H). apply bind_ok in H as (bk4 & _ & H).
  apply bind_ok in H as (ac2 & Hac2 & H). apply bind_ok in H as (u6 & Hchk & H). destruct u6.
  apply bind_ok in H as (hb3 & _ & H). apply bind_ok in H as (bk5 & _ & H). apply Ok_inj in H. subst w'.
  exists (sort_acct ac2). split; [|exact Hchk].
  rewrite nth_acct_put_hbank. apply (put_hacct_get _ _ _ ac2). rewrite nth_acct_put_hbank. exact Hac2.
Qed.

Theorem withdraw_norem_verdict w a b n all w' :
  h_withdraw_norem w a b n all = Ok w' ->
  exists ac3, nth_acct w' a = Ok ac3 /\ init_health_check_norem ac3 = Ok tt.
Proof.
  unfold h_withdraw_norem. intros H.
  apply bind_ok in H as (hb & Hhb & H). apply bind_ok in H as (ac & Hac & H).
  apply bind_ok in H as (u1 & _ & H). apply bind_ok in H as (u2 & _ & H). apply bind_ok in H as (u3 & _ & H).
  apply bind_ok in H as (bk1 & _ & H). apply bind_ok in H as (i & _ & H). apply bind_ok in H as (bl & _ & H).
  apply bind_ok in H as ([[bk2 bl2] pre] & _ & H).
  apply bind_ok in H as (w2 & _ & H). apply bind_ok in H as (hb2 & _ & H). apply bind_ok in H as (bk3 & _ & H).
  apply bind_ok in H as (ac2 & Hac2 & H). apply bind_ok in H as (u4 & Hchk & H). destruct u4. apply Ok_inj in H. subst w'.
  exists (sort_acct ac2). split; [|exact Hchk].
  apply (put_hacct_get _ _ _ ac2). rewrite nth_acct_put_hbank. exact Hac2.
Qed.

Corollary borrow_norem_only_flashloan_or_empty w a b n w' :
  h_borrow_norem w a b n = Ok w' ->
  exists ac3, nth_acct w' a = Ok ac3 /\
    (aflag ac3 ACCOUNT_IN_FLASHLOAN = true \/ existsb bl_active (ha_la ac3) = false).
Proof. intros H. destruct (borrow_norem_verdict _ _ _ _ _ H) as (ac3 & H1 & H2). exists ac3. split; [exact H1 | apply norem_check_inv; exact H2]. Qed.

Corollary withdraw_norem_only_flashloan_or_empty w a b n all w' :
  h_withdraw_norem w a b n all = Ok w' ->
  exists ac3, nth_acct w' a = Ok ac3 /\
    (aflag ac3 ACCOUNT_IN_FLASHLOAN = true \/ existsb bl_active (ha_la ac3) = false).
Proof. intros H. destruct (withdraw_norem_verdict _ _ _ _ _ _ H) as (ac3 & H1 & H2). exists ac3. split; [exact H1 | apply norem_check_inv; exact H2]. Qed.

(* a classic liquidation sent without anybody's risk accounts never succeeds: either the liquidatee has an active balance
   (the engine cannot load it) or it has none (then it has no debt in the liability bank either) *)
Theorem liquidate_norem_never_succeeds w r e ab lb n w' : h_liquidate_norem w r e ab lb n = Ok w' -> False.
Proof.
  unfold h_liquidate_norem, h_liquidate_gen. intros H.
  apply bind_ok in H as (ha & _ & H). apply bind_ok in H as (hl & _ & H).
  apply bind_ok in H as (u1 & _ & H). apply bind_ok in H as (u2 & _ & H). apply bind_ok in H as (u3 & _ & H).
  apply bind_ok in H as (ee & _ & H). apply bind_ok in H as (er & _ & H).
  apply bind_ok in H as (u4 & _ & H). apply bind_ok in H as (u5 & _ & H). apply bind_ok in H as (u6 & _ & H).
  apply bind_ok in H as (u7 & _ & H). apply bind_ok in H as (u8 & _ & H). apply bind_ok in H as (u9 & _ & H).
  apply bind_ok in H as (u10 & _ & H). apply bind_ok in H as (u11 & _ & H).
  apply bind_ok in H as (ba1 & _ & H). apply bind_ok in H as (bl1 & _ & H).
  apply bind_ok in H as (u12 & _ & H). apply bind_ok in H as (ps & Hps & H).
  apply bind_ok in H as ([[ph x] y] & Hpre & _).
  unfold positions_norem in Hps. destruct (existsb bl_active (ha_la (sort_acct ee))); [discriminate|].
  apply Ok_inj in Hps. subst ps. unfold pre_liquidation in Hpre. cbn in Hpre. discriminate.
Qed.


(* stronger for the borrow: it always leaves an active balance (the one borrowed from), so without risk accounts it can
   succeed only inside a flash loan *)
Lemma existsb_perm {A} (f : A -> bool) l l' : Permutation l l' -> existsb f l = existsb f l'.
Proof.
  induction 1 as [|x l l' _ IH|x y l|l l' l'' _ IH1 _ IH2]; cbn; try congruence.
  - destruct (f x), (f y); reflexivity.
Qed.

Lemma existsb_set_nth_active la i bl bl' :
  nth_error la i = Some bl -> bl_active bl' = true -> existsb bl_active (set_nth i bl' la) = true.
Proof.
  revert i. induction la as [|h t IH]; intros [|i] Hn Ha; cbn in *; try discriminate.
  - rewrite Ha. reflexivity.
  - rewrite (IH i Hn Ha). apply Bool.orb_true_r.
Qed.

Theorem borrow_norem_only_in_flashloan w a b n w' :
  h_borrow_norem w a b n = Ok w' ->
  exists ac, nth_acct w a = Ok ac /\ aflag ac ACCOUNT_IN_FLASHLOAN = true.
Proof.
  unfold h_borrow_norem. intros H.
  apply bind_ok in H as (hb & Hhb & H). apply bind_ok in H as (ac & Hac & H).
  apply bind_ok in H as (u1 & _ & H). apply bind_ok in H as (u2 & _ & H). apply bind_ok in H as (u3 & _ & H).
  apply bind_ok in H as (bk1 & _ & H). apply bind_ok in H as (u4 & _ & H). apply bind_ok in H as (u5 & _ & H).
  apply bind_ok in H as ([i la1] & Hfoc & H). apply bind_ok in H as (bl & Hbl & H). apply bind_ok in H as (pre & _ & H).
  apply bind_ok in H as ([delta ofee] & _ & H). apply bind_ok in H as ([bk2 bl2] & Hdec & H).
  set (w1 := put_hacct (put_hbank w b (set_hb_b bk2 hb)) a (mkHA (set_nth i bl2 la1) (ha_flags ac))) in H.
  apply bind_ok in H as (w2 & Hx & H). apply bind_ok in H as (hb2 & _ & H). apply bind_ok in H as (bk4 & _ & H).
  apply bind_ok in H as (ac2 & Hac2 & H). apply bind_ok in H as (u6 & Hchk & _). destruct u6.
  assert (Hb1 : nth_bank w1 b = Ok (set_hb_b bk2 hb)) by (unfold w1; eapply put_hbank_get; eauto).
  destruct (xfer_out_eq _ _ _ _ _ _ Hx Hb1) as (_ & _ & Ea & _).
  assert (Eac2 : ac2 = mkHA (set_nth i bl2 la1) (ha_flags ac)).
  { unfold nth_acct in Hac2. rewrite Ea in Hac2. unfold w1, put_hacct in Hac2. cbn [hw_accts] in Hac2.
    apply nth_res_ok in Hac. unfold nth_res in Hac2. rewrite (nth_set_nth_same _ _ _ _ Hac) in Hac2.
    apply Ok_inj in Hac2. symmetry. exact Hac2. }
  exists ac. split; [exact Hac|].
  apply norem_check_inv in Hchk as [Hfl | Hnone].
  - subst ac2. exact Hfl.
  - exfalso. subst ac2. cbn [sort_acct ha_la] in Hnone.
    destruct (foc_slot _ _ _ _ _ _ Hfoc) as (bl0 & Hn & Hact & _).
    apply nth_res_ok in Hbl. rewrite Hn in Hbl. injection Hbl as <-.
    destruct (decrease_balance_id _ _ _ _ _ _ _ Hdec) as [(Ha2 & _ & _) _].
    rewrite (existsb_perm bl_active _ _ (sort_perm _)) in Hnone.
    rewrite (existsb_set_nth_active la1 i bl0 bl2 Hn) in Hnone; [discriminate|]. rewrite Ha2. exact Hact.
Qed.
