(* ConfigHealthLemmas.v — C13 buffer: under Valid weights, at equal prices, the Initial requirement is
   at least as strict as the Maintenance requirement, position by position and hence for every
   portfolio; reconcile_emode_configs keeps init <= maint. *)
Require Import Base Constants ConfigGen Fixed Curve Config Emode ConfigPaths ConfigHealth.
Require Import FixedLemmas CurveLemmas ConfigLemmas.
From Coq Require Import ZifyBool.
Local Open Scope Z_scope.

(* ---------------------------------------------------------------- reconcile keeps init <= maint *)
Definition entry_le (e : emode_entry) : Prop := ee_is_empty e = true \/ ee_init e <= ee_maint e.
Definition entry_le' (e : emode_entry) : Prop := ee_init e <= ee_maint e.

Lemma merge_into_le cur new : entry_le' cur -> entry_le' new -> entry_le' (merge_into cur new).
Proof.
  unfold entry_le', merge_into. cbn [ee_init ee_maint]. intros H1 H2.
  destruct (ee_init new <? ee_init cur) eqn:E1; destruct (ee_maint new <? ee_maint cur) eqn:E2; lia.
Qed.

Lemma merge_entry_le m e :
  Forall (fun xc => entry_le' (fst xc)) m -> entry_le' e -> Forall (fun xc => entry_le' (fst xc)) (merge_entry m e).
Proof.
  induction m as [|[x c] r IH]; cbn [merge_entry]; intros Hm He.
  - constructor; [exact He | constructor].
  - inversion Hm as [|? ? Hx Hr]; subst. cbn [fst] in Hx.
    destruct (ee_tag e =? ee_tag x).
    + constructor; [cbn [fst]; apply merge_into_le; assumption | exact Hr].
    + destruct (ee_tag e <? ee_tag x).
      * constructor; [exact He | exact Hm].
      * constructor; [exact Hx | apply IH; assumption].
Qed.

Lemma merge_cfg_le cfg : forall m,
  Forall (fun xc => entry_le' (fst xc)) m -> Forall entry_le cfg ->
  Forall (fun xc => entry_le' (fst xc)) (merge_cfg m cfg).
Proof.
  unfold merge_cfg. induction cfg as [|e r IH]; cbn [fold_left]; intros m Hm Hc; [exact Hm|].
  inversion Hc as [|? ? He Hr]; subst. apply IH; [|exact Hr].
  destruct (ee_is_empty e) eqn:Ee; [exact Hm|].
  apply merge_entry_le; [exact Hm|]. destruct He as [He|He]; [congruence | exact He].
Qed.

Lemma fold_merge_cfg_le cfgs : forall m,
  Forall (fun xc => entry_le' (fst xc)) m -> Forall (Forall entry_le) cfgs ->
  Forall (fun xc => entry_le' (fst xc)) (fold_left merge_cfg cfgs m).
Proof.
  induction cfgs as [|c r IH]; cbn [fold_left]; intros m Hm Hc; [exact Hm|].
  inversion Hc as [|? ? H1 H2]; subst. apply IH; [apply merge_cfg_le; assumption | exact H2].
Qed.

Lemma ee_sort_forall (P : emode_entry -> Prop) l : Forall P l -> Forall P (ee_sort l).
Proof. rewrite !Forall_forall. intros H y Hy. apply H. apply ee_sort_in; exact Hy. Qed.

Lemma entry_le_zero : entry_le ee_zero.
Proof. left; reflexivity. Qed.

Lemma repeat_forall {A} (P : A -> Prop) x n : P x -> Forall P (repeat x n).
Proof. intros H. apply Forall_forall. intros y Hy. apply repeat_spec in Hy. subst; exact H. Qed.

Lemma reconcile_keeps_le cfgs r :
  Forall (Forall entry_le) cfgs -> reconcile_emode_configs cfgs = Ok r -> Forall entry_le r.
Proof.
  intros Hc. unfold reconcile_emode_configs. destruct cfgs as [|c0 rest].
  - intros H. apply Ok_inj in H. subst r. apply repeat_forall, entry_le_zero.
  - set (m := fold_left merge_cfg (c0 :: rest) []).
    assert (Hm : Forall (fun xc => entry_le' (fst xc)) m) by (apply fold_merge_cfg_le; [constructor | exact Hc]).
    unfold from_entries.
    destruct (MAX_EMODE_ENTRIES <? _); [discriminate|]. intros H. apply Ok_inj in H. subst r.
    apply Forall_app. split; [|apply repeat_forall, entry_le_zero].
    apply ee_sort_forall. apply Forall_forall. intros e He.
    apply in_map_iff in He as ([x c] & <- & Hx). apply filter_In in Hx as [Hx _].
    rewrite Forall_forall in Hm. right. exact (Hm _ Hx).
Qed.

(* stored entries of a valid e-mode configuration satisfy entry_le *)
Lemma entry_ok_le lwi lwm capi capm e : entry_ok lwi lwm capi capm e -> entry_le e.
Proof. intros [H|H]; [left; exact H | right; lia]. Qed.

Lemma emode_valid_entries_le g c es : emode_valid g c es -> Forall entry_le (es_entries es).
Proof.
  intros [H _]. apply em_validate_sound in H as (capi & capm & _ & _ & Hf & _).
  eapply Forall_impl; [|exact Hf]. intros e He. eapply entry_ok_le; exact He.
Qed.

(* ---------------------------------------------------------------- calc_value is monotone in the weight *)
Lemma calc_value_w_inv amount price scale w v :
  calc_value_w amount price scale w = Ok v ->
  (amount = 0 /\ v = 0) \/
  (amount <> 0 /\ v = Z.quot (amount * w / ONE * price / ONE * ONE) scale /\ scale <> 0).
Proof.
  unfold calc_value_w. destruct (amount =? 0) eqn:E.
  - intros H. apply Ok_inj in H. left. lia.
  - intros H. right.
    apply bind_ok in H as (wa & Hwa & H).
    assert (Hwa' : cmul amount w = Ok wa) by (destruct (cmul amount w); [exact Hwa | discriminate]).
    apply cmul_inv in Hwa' as [-> _].
    apply bind_ok in H as (pv & Hpv & H). apply ok_or_inv in Hpv. apply cmul_inv in Hpv as [-> _].
    apply ok_or_inv in H. unfold cdiv in H. destruct (scale =? 0) eqn:Es; [discriminate|].
    apply chko_inv in H as [-> _]. unfold div_raw. repeat split; lia.
Qed.

Lemma calc_value_w_mono amount price scale w1 w2 v1 v2 :
  0 <= amount -> 0 <= price -> 0 < scale -> w1 <= w2 ->
  calc_value_w amount price scale w1 = Ok v1 -> calc_value_w amount price scale w2 = Ok v2 -> v1 <= v2.
Proof.
  intros Ha Hp Hs Hw H1 H2. pose proof ONE_pos as HO.
  apply calc_value_w_inv in H1 as [[E1 ->]|(N1 & -> & _)]; apply calc_value_w_inv in H2 as [[E2 ->]|(N2 & -> & _)]; try lia.
  apply Z.quot_le_mono; [lia|]. apply Z.mul_le_mono_nonneg_r; [lia|].
  apply Z.div_le_mono; [lia|]. apply Z.mul_le_mono_nonneg_r; [lia|].
  apply Z.div_le_mono; [lia|]. apply Z.mul_le_mono_nonneg_l; lia.
Qed.

Lemma calc_value_w_nonneg amount price scale w v :
  0 <= amount -> 0 <= price -> 0 < scale -> 0 <= w -> calc_value_w amount price scale w = Ok v -> 0 <= v.
Proof.
  intros Ha Hp Hs Hw H. pose proof ONE_pos as HO.
  apply calc_value_w_inv in H as [[_ ->]|(_ & -> & _)]; [lia|].
  apply Z.quot_pos; [|lia]. apply Z.mul_nonneg_nonneg; [|lia].
  apply Z.div_pos; [|lia]. apply Z.mul_nonneg_nonneg; [|lia].
  apply Z.div_pos; [|lia]. apply Z.mul_nonneg_nonneg; lia.
Qed.

(* ---------------------------------------------------------------- weights *)
(* what the buffer theorem needs from a position *)
Definition pos_ok (p : position) : Prop :=
  0 <= p_amount p /\ 0 <= p_price p /\ 0 < p_scale p /\
  cfg_valid (cb_cfg (p_bank p)) /\
  match p_discount p with Some d => 0 <= d <= ONE | None => True end.

Lemma find_with_tag_nonempty recon tag e : find_with_tag recon tag = Some e -> ee_is_empty e = false.
Proof.
  unfold find_with_tag, ee_is_empty. destruct (tag =? EMODE_TAG_EMPTY) eqn:E; [discriminate|].
  intros H. apply find_some in H as [_ H]. lia.
Qed.

Lemma asset_weight_le b recon :
  cfg_valid (cb_cfg b) -> Forall entry_le recon ->
  0 <= asset_weight CRInitial b recon <= asset_weight CRMaint b recon.
Proof.
  intros Hc Hr. apply bc_validate_sound in Hc as (A & B & _).
  unfold asset_weight. destruct (find_with_tag recon (es_tag (cb_emode b))) as [e|] eqn:F.
  - pose proof (find_with_tag_nonempty _ _ _ F) as Hne.
    assert (He : ee_init e <= ee_maint e).
    { unfold find_with_tag in F. destruct (es_tag (cb_emode b) =? EMODE_TAG_EMPTY); [discriminate|].
      apply find_some in F as [Hin _]. rewrite Forall_forall in Hr. destruct (Hr _ Hin) as [H|H]; [congruence | exact H]. }
    unfold fmax. cbn [bank_asset_weight entry_weight]. lia.
  - cbn [bank_asset_weight]. lia.
Qed.

Lemma ok_or_cmul_le w d v : 0 <= w -> 0 <= d <= ONE -> ok_or (cmul w d) EMathError = Ok v -> 0 <= v <= w.
Proof.
  intros Hw Hd H. apply ok_or_inv in H. apply cmul_inv in H as [-> _].
  apply mul_div_le; [exact ONE_pos | exact Hw | exact Hd].
Qed.

Lemma asset_value_le recon p vi vm :
  pos_ok p -> Forall entry_le recon ->
  weighted_asset_value CRInitial recon p = Ok vi -> weighted_asset_value CRMaint recon p = Ok vm ->
  vi <= vm.
Proof.
  intros (Ha & Hp & Hs & Hc & Hd) Hr. pose proof (asset_weight_le _ _ Hc Hr) as Hw.
  unfold weighted_asset_value. destruct (bc_risk_tier (cb_cfg (p_bank p)) =? RISK_COLLATERAL).
  2:{ intros H1 H2. apply Ok_inj in H1. apply Ok_inj in H2. lia. }
  cbn [andb]. rewrite andb_false_r.
  destruct (bc_op_state (cb_cfg (p_bank p)) =? OP_REDUCE_ONLY); cbn [andb].
  - intros H1 H2. apply Ok_inj in H1. subst vi. cbn [bind] in H2.
    eapply calc_value_w_nonneg; [exact Ha | exact Hp | exact Hs | | exact H2]. lia.
  - intros H1 H2. cbn [bind] in H2.
    apply bind_ok in H1 as (w' & Hw' & H1).
    assert (Hle : w' <= asset_weight CRMaint (p_bank p) recon).
    { destruct (p_discount p) as [d|].
      - apply ok_or_cmul_le in Hw'; [lia | lia | exact Hd].
      - apply Ok_inj in Hw'. lia. }
    eapply calc_value_w_mono; [exact Ha | exact Hp | exact Hs | exact Hle | exact H1 | exact H2].
Qed.

Lemma liab_value_le p vi vm :
  pos_ok p -> weighted_liab_value CRInitial p = Ok vi -> weighted_liab_value CRMaint p = Ok vm -> vm <= vi.
Proof.
  intros (Ha & Hp & Hs & Hc & _). apply bc_validate_sound in Hc as (_ & _ & C & _).
  unfold weighted_liab_value. cbn [bank_liab_weight]. intros H1 H2.
  eapply calc_value_w_mono; [exact Ha | exact Hp | exact Hs | | exact H2 | exact H1]. lia.
Qed.

(* ---------------------------------------------------------------- the sums *)
Lemma health_components_le recon l : forall a0 l0 a0' l0' ai li am lm,
  Forall pos_ok l -> Forall entry_le recon -> a0 <= a0' -> l0' <= l0 ->
  health_components CRInitial recon l (a0, l0) = Ok (ai, li) ->
  health_components CRMaint recon l (a0', l0') = Ok (am, lm) ->
  ai <= am /\ lm <= li.
Proof.
  induction l as [|p rest IH]; cbn [health_components]; intros a0 l0 a0' l0' ai li am lm Hl Hr Ha Hlb H1 H2.
  - apply Ok_inj in H1. apply Ok_inj in H2. injection H1 as <- <-. injection H2 as <- <-. lia.
  - inversion Hl as [|? ? Hp Hrest]; subst.
    apply bind_ok in H1 as (av1 & Hav1 & H1). apply bind_ok in H1 as (lv1 & Hlv1 & H1).
    apply bind_ok in H1 as (a1 & Ha1 & H1). apply bind_ok in H1 as (l1 & Hl1 & H1).
    apply bind_ok in H2 as (av2 & Hav2 & H2). apply bind_ok in H2 as (lv2 & Hlv2 & H2).
    apply bind_ok in H2 as (a2 & Ha2 & H2). apply bind_ok in H2 as (l2 & Hl2 & H2).
    cbn [fst snd] in *.
    apply ok_or_inv in Ha1. apply cadd_inv in Ha1 as [-> _]. apply ok_or_inv in Hl1. apply cadd_inv in Hl1 as [-> _].
    apply ok_or_inv in Ha2. apply cadd_inv in Ha2 as [-> _]. apply ok_or_inv in Hl2. apply cadd_inv in Hl2 as [-> _].
    assert (Hav : av1 <= av2).
    { destruct (p_is_liab p).
      - apply Ok_inj in Hav1. apply Ok_inj in Hav2. lia.
      - eapply asset_value_le; eassumption. }
    assert (Hlv : lv2 <= lv1).
    { destruct (p_is_liab p).
      - eapply liab_value_le; eassumption.
      - apply Ok_inj in Hlv1. apply Ok_inj in Hlv2. lia. }
    eapply (IH (a0 + av1) (l0 + lv1) (a0' + av2) (l0' + lv2)); try eassumption; lia.
Qed.

Lemma buffer recon l ai li am lm :
  Forall pos_ok l -> Forall entry_le recon ->
  health_components CRInitial recon l (0, 0) = Ok (ai, li) ->
  health_components CRMaint recon l (0, 0) = Ok (am, lm) ->
  ai <= am /\ lm <= li /\ (li <= ai -> lm <= am).
Proof.
  intros Hl Hr H1 H2.
  destruct (health_components_le recon l 0 0 0 0 ai li am lm Hl Hr ltac:(lia) ltac:(lia) H1 H2) as [A B].
  repeat split; lia.
Qed.

Lemma buffer_without_emode l ai li am lm :
  Forall pos_ok l ->
  account_health_no_emode CRInitial l = Ok (ai, li) ->
  account_health_no_emode CRMaint l = Ok (am, lm) ->
  li <= ai -> lm <= am.
Proof.
  unfold account_health_no_emode. intros Hl H1 H2 H.
  destruct (buffer [] l ai li am lm Hl ltac:(constructor) H1 H2) as (_ & _ & HH). exact (HH H).
Qed.

(* with e-mode: every bank the account borrows from carries valid e-mode settings (relative to any caps) *)
Definition pos_emode_ok (p : position) : Prop :=
  exists g, emode_valid g (cb_cfg (p_bank p)) (cb_emode (p_bank p)).

Lemma buffer_with_emode l ai li am lm :
  Forall pos_ok l -> Forall pos_emode_ok l ->
  account_health CRInitial l = Ok (ai, li) ->
  account_health CRMaint l = Ok (am, lm) ->
  li <= ai -> lm <= am.
Proof.
  unfold account_health. intros Hl He H1 H2 H.
  apply bind_ok in H1 as (recon & Hrec & H1). rewrite Hrec in H2. cbn [bind] in H2.
  assert (Hr : Forall entry_le recon).
  { eapply reconcile_keeps_le; [|exact Hrec].
    apply Forall_forall. intros es Hes. apply in_map_iff in Hes as (p & <- & Hp).
    apply filter_In in Hp as [Hp _]. rewrite Forall_forall in He. destruct (He _ Hp) as [g Hg].
    eapply emode_valid_entries_le; exact Hg. }
  destruct (buffer recon l ai li am lm Hl Hr H1 H2) as (_ & _ & HH). exact (HH H).
Qed.

(* the init-only discount is a factor in [0,1] *)
Lemma init_discount_range limit total price scale d :
  0 <= limit -> init_discount limit total price scale = Ok (Some d) -> 0 <= d <= ONE.
Proof.
  intros Hl. unfold init_discount. destruct (limit =? TOTAL_ASSET_VALUE_INIT_LIMIT_INACTIVE); [discriminate|].
  intros H. apply bind_ok in H as (tv & _ & H).
  destruct (of_int limit <? tv) eqn:E; [|discriminate].
  apply bind_ok in H as (d' & Hd & H). apply Ok_inj in H. injection H as <-.
  apply ok_or_inv in Hd. pose proof ONE_pos as HO. unfold of_int in *.
  apply cdiv_inv_nonneg in Hd as [-> Hd]; [| lia | lia].
  split; [lia|]. apply Z.div_le_upper_bound; [lia|]. rewrite ONE_val in *. lia.
Qed.
