(* AccrualUpper.v — C06, the opposite direction of the conservation bound: accrual never charges the
   borrowers more than it credits to the depositors and the three fee buckets, beyond an explicit
   fixed-point allowance.  Together with accrue_credit_le_charge this makes the conservation clause
   two-sided ("the increase in total debt EQUALS the increase in deposits plus fees, within the allowance"). *)
Require Import Base Constants Fixed Curve Bank FixedLemmas BankLemmas CurveLemmas AccrualLemmas.
From Coq Require Import ZifyBool.
Local Open Scope Z_scope.

Lemma calc_fee_rate_ge base rf ff v : calc_fee_rate base rf ff = Ok v -> base * rf + ff * ONE < v * ONE + ONE.
Proof.
  unfold calc_fee_rate. pose proof ONE_pos as HO. destruct (rf =? 0) eqn:E; intros H0.
  - apply Ok_inj in H0. subst v. replace rf with 0 by lia. lia.
  - apply bind_ok in H0 as (m & Hm & H0). apply cmul_inv in Hm as [-> _]. apply cadd_inv in H0 as [-> _].
    pose proof (Z.div_mod (base * rf) ONE ltac:(lia)) as D. pose proof (Z.mod_pos_bound (base * rf) ONE HO) as M.
    nia.
Qed.

(* the borrow rate exceeds base + the three fee rates by at most 3 ulps (three floors) *)
Lemma rates_borrow_le_sum c pf ur r : calc_interest_rate c pf ur = Ok r ->
  r_borrowing r <= r_base r + r_group r + r_insurance r + r_protocol r + 3.
Proof.
  intros H. unfold calc_interest_rate in H. pose proof ONE_pos as HO.
  set (prate := if pf_on pf then pf_rate pf else 0) in *. set (pfix := if pf_on pf then pf_fixed pf else 0) in *.
  apply bind_ok in H as (f1 & Hf1 & H). apply uadd_inv in Hf1 as [-> _].
  apply bind_ok in H as (f2 & Hf2 & H). apply uadd_inv in Hf2 as [-> _].
  apply bind_ok in H as (f3 & Hf3 & H). apply uadd_inv in Hf3 as [-> _].
  apply bind_ok in H as (f4 & Hf4 & H). apply uadd_inv in Hf4 as [-> _].
  apply bind_ok in H as (base & _ & H).
  apply bind_ok in H as (lend & _ & H).
  apply bind_ok in H as (onef & Ho & H). apply cadd_inv in Ho as [-> _].
  apply bind_ok in H as (b0 & Hb0 & H). apply cmul_inv in Hb0 as [-> _].
  apply bind_ok in H as (bor & Hbor & H). apply cadd_inv in Hbor as [-> _].
  apply bind_ok in H as (g & Hg & H). apply calc_fee_rate_ge in Hg.
  apply bind_ok in H as (i & Hi & H). apply calc_fee_rate_ge in Hi.
  apply bind_ok in H as (p & Hp & H). apply calc_fee_rate_ge in Hp.
  apply bind_ok in H as (u1 & _ & H). apply bind_ok in H as (u2 & _ & H). apply bind_ok in H as (u3 & _ & H).
  apply bind_ok in H as (u4 & _ & H). apply bind_ok in H as (u5 & _ & H).
  apply Ok_inj in H. subst r. cbn [r_base r_group r_insurance r_protocol r_borrowing].
  set (fi := ir_ins_rate c + ir_grp_rate c + prate) in *.
  pose proof (Z.mul_div_le (base * (ONE + fi)) ONE HO) as D.
  assert ((base * (ONE + fi) / ONE + (ir_ins_fixed c + ir_grp_fixed c + pfix)) * ONE < (base + g + i + p + 3) * ONE) by (unfold fi in *; nia).
  nia.
Qed.

(* charge <= credit + allowance, everything multiplied by YEAR * ONE so that no division appears:
   allowance * YEAR * ONE = dt * (ONE * (3 L + bor + 3) + A * (base + ONE) + 3 ONE^2) + (A + tas + 3 ONE) * YEAR * ONE,
   i.e. about (dt / YEAR) * (3 L + A * (base rate + 1)) + A + tas raw units at scale 2^96 — for a bank with
   10^16 native units on each side and a 100 % base rate that is < 10^-3 native units per year. *)
Lemma accrue_charge_upper b pf now b' dt A L ur r irl irb :
  0 <= b_asv b -> 0 <= b_lsv b -> 0 <= b_tas b -> 0 <= b_tls b -> 0 <= r_base r ->
  accrue_facts b pf now b' dt A L ur r irl irb ->
  (b_tls b * (b_lsv b' - b_lsv b) - b_tas b * (b_asv b' - b_asv b)
    - ((b_ins b' - b_ins b) + (b_grp b' - b_grp b) + (b_prog b' - b_prog b)) * ONE) * YEAR * ONE
  <= dt * (ONE * (3 * L + r_borrowing r + 3) + A * (r_base r + ONE) + 3 * ONE * ONE)
     + (A + b_tas b + 3 * ONE) * YEAR * ONE.
Proof.
  intros Ha Hl Hta Htl Hbase F.
  destruct F as [[_ Hdt] [HA HA0] [HL HL0] Hur Hr [Hirl Hirl0] [Hirb Hirb0] Fa Fl Fi Fg Fp _ _].
  pose proof (calc_interest_rate_facts _ _ _ _ Hr) as [R1 R2 R3 R4 R5 R6 R7].
  pose proof (rates_borrow_le_sum _ _ _ _ Hr) as Rsum.
  pose proof ONE_pos as HO. assert (HY : 0 < YEAR) by (unfold YEAR; lia).
  assert (HAp : 0 < A) by (assert (0 <= A) by (subst A; apply Z.div_pos; nia); lia).
  assert (HLp : 0 < L) by (assert (0 <= L) by (subst L; apply Z.div_pos; nia); lia).
  apply cdiv_inv_nonneg in Hur as [Hur Hur0]; try lia.
  set (base := r_base r) in *. set (lend := r_lending r) in *. set (bor := r_borrowing r) in *.
  set (g := r_group r) in *. set (i := r_insurance r) in *. set (p := r_protocol r) in *.
  set (tas := b_tas b) in *. set (tls := b_tls b) in *. set (asv := b_asv b) in *. set (lsv := b_lsv b) in *.
  (* floors as two-sided inequalities *)
  pose proof (Z.mul_div_le (tas * asv) ONE HO) as A1. rewrite <- HA in A1.
  pose proof (Z.div_mod (tls * lsv) ONE ltac:(lia)) as L1. pose proof (Z.mod_pos_bound (tls * lsv) ONE HO) as L2. rewrite <- HL in L1.
  pose proof (Z.div_mod (L * ONE) A ltac:(lia)) as U1. pose proof (Z.mod_pos_bound (L * ONE) A HAp) as U2. rewrite <- Hur in U1.
  pose proof (Z.div_mod (base * ur) ONE ltac:(lia)) as Le1. pose proof (Z.mod_pos_bound (base * ur) ONE HO) as Le2. rewrite <- R6 in Le1.
  pose proof (Z.div_mod (lend * dt) YEAR ltac:(lia)) as I1. pose proof (Z.mod_pos_bound (lend * dt) YEAR HY) as I2. rewrite <- Hirl in I1.
  pose proof (Z.mul_div_le (bor * dt) YEAR HY) as B1. rewrite <- Hirb in B1.
  (* new share values *)
  pose proof (Z.div_mod (asv * (ONE + irl)) ONE ltac:(lia)) as S1. pose proof (Z.mod_pos_bound (asv * (ONE + irl)) ONE HO) as S1b. rewrite <- Fa in S1.
  pose proof (Z.mul_div_le (lsv * (ONE + irb)) ONE HO) as S2. rewrite <- Fl in S2.
  (* fee payments from below: L * apr * dt < (pay + 1) * YEAR * ONE + ONE * dt *)
  assert (Pk : forall apr, 0 <= apr -> L * apr * dt < (L * apr / ONE * dt / YEAR) * YEAR * ONE + YEAR * ONE + ONE * dt).
  { intros apr Hapr.
    pose proof (Z.div_mod (L * apr) ONE ltac:(lia)) as D1. pose proof (Z.mod_pos_bound (L * apr) ONE HO) as D2.
    pose proof (Z.div_mod (L * apr / ONE * dt) YEAR ltac:(lia)) as D3. pose proof (Z.mod_pos_bound (L * apr / ONE * dt) YEAR HY) as D4.
    assert (0 <= L * apr / ONE) by (apply Z.div_pos; nia). nia. }
  pose proof (Pk i R4) as Pi. pose proof (Pk g R3) as Pg. pose proof (Pk p R5) as Pp.
  set (pi := L * i / ONE * dt / YEAR) in *. set (pg := L * g / ONE * dt / YEAR) in *. set (pp := L * p / ONE * dt / YEAR) in *.
  rewrite Fi, Fg, Fp.
  replace (b_ins b + pi - b_ins b + (b_grp b + pg - b_grp b) + (b_prog b + pp - b_prog b)) with (pi + pg + pp) by ring.
  set (asv' := b_asv b') in *. set (lsv' := b_lsv b') in *.
  (* step 1: borrower charge  tls*(lsv'-lsv) <= (L+1)*irb, and irb*YEAR <= bor*dt *)
  assert (C1 : tls * (lsv' - lsv) <= (L + 1) * irb).
  { assert ((lsv' - lsv) * ONE <= lsv * irb) by nia.
    assert (tls * ((lsv' - lsv) * ONE) <= tls * (lsv * irb)) by (apply Z.mul_le_mono_nonneg_l; lia).
    assert (tls * lsv * irb <= (L * ONE + ONE) * irb) by (apply Z.mul_le_mono_nonneg_r; lia).
    nia. }
  assert (C1' : tls * (lsv' - lsv) * YEAR <= (L + 1) * (bor * dt)).
  { assert ((L + 1) * (irb * YEAR) <= (L + 1) * (bor * dt)) by (apply Z.mul_le_mono_nonneg_l; lia). nia. }
  (* step 2: depositor credit  tas*(asv'-asv) >= A*irl - tas *)
  assert (C2 : A * irl - tas <= tas * (asv' - asv)).
  { assert (asv * irl - ONE < (asv' - asv) * ONE) by nia.
    assert (tas * (asv * irl - ONE) <= tas * ((asv' - asv) * ONE)) by (apply Z.mul_le_mono_nonneg_l; lia).
    assert (A * ONE * irl <= tas * asv * irl) by (apply Z.mul_le_mono_nonneg_r; lia).
    nia. }
  (* step 3: A*irl*YEAR*ONE >= dt*(base*L*ONE - base*A - A*ONE) - A*YEAR*ONE *)
  assert (C3 : dt * (base * L * ONE) <= A * irl * YEAR * ONE + dt * (base * A + A * ONE) + A * YEAR * ONE).
  { assert (E1 : lend * dt < irl * YEAR + YEAR) by lia.
    assert (E2 : base * ur < lend * ONE + ONE) by lia.
    assert (E3 : L * ONE < ur * A + A) by lia.
    assert (T3 : (L * ONE) * (base * dt) <= (ur * A + A) * (base * dt)) by (apply Z.mul_le_mono_nonneg_r; nia).
    assert (T2 : (base * ur) * (A * dt) <= (lend * ONE + ONE) * (A * dt)) by (apply Z.mul_le_mono_nonneg_r; nia).
    assert (T1 : (lend * dt) * (A * ONE) <= (irl * YEAR + YEAR) * (A * ONE)) by (apply Z.mul_le_mono_nonneg_r; nia).
    nia. }
  (* step 4: fees *)
  assert (C4 : L * dt * (i + g + p) * ONE <= ((pi + pg + pp) * ONE * YEAR + 3 * YEAR * ONE + 3 * ONE * dt) * ONE) by nia.
  (* step 5: rates *)
  assert (C5 : (L + 1) * (bor * dt) <= (L + 1) * ((base + g + i + p + 3) * dt)).
  { apply Z.mul_le_mono_nonneg_l; [lia|]. apply Z.mul_le_mono_nonneg_r; lia. }
  assert (C6 : (base + g + i + p + 3) * dt <= (bor + 3) * dt).
  { pose proof (rates_sum_le_borrow _ _ _ _ Hr) as Rle. fold base g i p bor in Rle.
    apply Z.mul_le_mono_nonneg_r; lia. }
  nia.
Qed.

Lemma trivial_allowance x y z A L dt tas :
  0 <= A -> 0 <= L -> 0 <= dt -> 0 <= tas -> x - x - (y - y) - (z - z) * ONE = 0 ->
  (x - x - (y - y) - (z - z) * ONE) * YEAR * ONE
  <= dt * (ONE * (3 * L + 0 + 3) + A * (0 + ONE) + 3 * ONE * ONE) + (A + tas + 3 * ONE) * YEAR * ONE.
Proof.
  intros HA HL Hd Ht ->. pose proof ONE_pos as HO. assert (HY : 0 < YEAR) by (unfold YEAR; lia).
  assert (0 <= ONE * (3 * L + 0 + 3) + A * (0 + ONE) + 3 * ONE * ONE) by nia.
  assert (0 <= dt * (ONE * (3 * L + 0 + 3) + A * (0 + ONE) + 3 * ONE * ONE)) by (apply Z.mul_nonneg_nonneg; lia).
  assert (0 <= (A + tas + 3 * ONE) * YEAR * ONE) by (repeat apply Z.mul_nonneg_nonneg; lia).
  lia.
Qed.

(* top-level statement: two-sided conservation for every successful accrual of a well-formed bank with a
   valid seven-point curve.  r carries the base and borrow rates the allowance depends on; for the two trivial
   outcomes (same time, empty side) nothing but last_update changes and both sides of the inequality reduce to 0 <= allowance. *)
Lemma accrue_charge_le_credit b pf now b' :
  wf_bank b -> valid_curve b -> accrue_interest b pf now = Ok b' ->
  exists base bor A L dt, 0 <= base <= Rf (ir_hundred (b_ir b)) /\ 0 <= bor /\
    A = b_tas b * b_asv b / ONE /\ L = b_tls b * b_lsv b / ONE /\ dt = now - b_last_update b /\ 0 <= dt /\
    (b_last_update b < now -> A <> 0 -> L <> 0 ->
       exists ur r, calc_interest_rate (b_ir b) pf ur = Ok r /\ r_base r = base /\ r_borrowing r = bor) /\
    ((Lv b' - Lv b) - (Dv b' - Dv b) - (Fv b' - Fv b) * ONE) * YEAR * ONE
    <= dt * (ONE * (3 * L + bor + 3) + A * (base + ONE) + 3 * ONE * ONE) + (A + b_tas b + 3 * ONE) * YEAR * ONE.
Proof.
  intros (Ha & Hl & Hta & Htl) (Hc & Hv & Hct) H. pose proof ONE_pos as HO.
  assert (HY : 0 < YEAR) by (unfold YEAR; lia).
  pose proof H as H0. apply accrue_inv in H; try assumption.
  assert (HLq : 0 <= b_tls b * b_lsv b / ONE) by (apply Z.div_pos; nia).
  assert (HAq : 0 <= b_tas b * b_asv b / ONE) by (apply Z.div_pos; nia).
  pose proof Hc as (Hz & Hh & _). pose proof (Rf_range _ Hz) as Rz. pose proof (Rf_range _ Hh) as Rh.
  destruct H as [[E ->] | [[Hlt [-> Hempty]] | (dt & A & L & ur & r & irl & irb & F)]].
  - exists 0, 0, (b_tas b * b_asv b / ONE), (b_tls b * b_lsv b / ONE), (now - b_last_update b).
    do 6 (split; [lia|]). split; [intros; lia|]. apply trivial_allowance; lia.
  - exists 0, 0, (b_tas b * b_asv b / ONE), (b_tls b * b_lsv b / ONE), (now - b_last_update b).
    do 6 (split; [lia|]). split; [intros; lia|].
    unfold Dv, Lv, Fv, set_b_last_update. cbn [b_tas b_asv b_tls b_lsv b_ins b_grp b_prog].
    apply trivial_allowance; lia.
  - pose proof F as F0. destruct F as [[Hdt Hdt0] [HA HA0] [HL HL0] _ Hr _ _ Fa Fl _ _ _ [Ft1 Ft2] _].
    pose proof (calc_interest_rate_facts _ _ _ _ Hr) as [R1 R2 R3 R4 R5 R6 R7].
    pose proof (calc_base_seven _ _ _ _ Hr Hct) as Hb.
    destruct (curve_defined_bounded (b_ir b) ur Hc Hv) as (base & Hb' & Hbb).
    rewrite Hb in Hb'. apply Ok_inj in Hb'.
    pose proof (accrue_charge_upper b pf now b' dt A L ur r irl irb Ha Hl Hta Htl ltac:(lia) F0) as C.
    exists (r_base r), (r_borrowing r), A, L, dt.
    split; [lia|]. split; [lia|]. split; [exact HA|]. split; [exact HL|]. split; [exact Hdt|]. split; [lia|].
    split; [intros _ _ _; exists ur, r; auto|].
    unfold Dv, Lv, Fv. rewrite Ft1, Ft2.
    replace (b_tls b * b_lsv b' - b_tls b * b_lsv b) with (b_tls b * (b_lsv b' - b_lsv b)) by ring.
    replace (b_tas b * b_asv b' - b_tas b * b_asv b) with (b_tas b * (b_asv b' - b_asv b)) by ring.
    replace (b_ins b' + b_grp b' + b_prog b' - (b_ins b + b_grp b + b_prog b))
      with ((b_ins b' - b_ins b) + (b_grp b' - b_grp b) + (b_prog b' - b_prog b)) by ring.
    exact C.
Qed.
