(* UpToLimit.v — C17: a deposit flagged "up to limit" deposits at most the remaining capacity and never
   fails with BankAssetCapacityExceeded (the defect repaired by fix 0857a8b8 was exactly a failure of this). *)
Require Import Base Constants Fixed Curve Bank BankOps Risk TransferFee Handlers.
Require Import FixedLemmas BankLemmas ValueLemmas CurveLemmas AccrualLemmas TransferFeeLemmas HandlerLemmas SolvencyLemmas FrameLemmas LedgerLemmas HandlerEffects SolvencyHandlers SolvencyWorld HandlerWorld CapErrLemmas.
From Coq Require Import ZifyBool.
Local Open Scope Z_scope.

Lemma nc_remaining_capacity b : nc (remaining_deposit_capacity b).
Proof. unfold remaining_deposit_capacity. nc_auto. Qed.
Lemma nc_xfer_in w a b n : nc (xfer_in w a b n).
Proof. unfold xfer_in, E_TOKEN_INSUFFICIENT. nc_auto. Qed.
Lemma nc_pre_fee hb n : nc (pre_fee hb n).
Proof. apply csimple_ng, csimple_pre_fee. Qed.
Lemma nc_nth_res {A} n (l : list A) : nc (nth_res n l).
Proof. apply csimple_ng, csimple_nth_res. Qed.

(* a bank without an active deposit limit never raises the capacity error *)
Lemma nc_change_asset_inactive b sh byp : b_dep_limit b = U64_MAX -> nc (change_asset_shares b sh byp).
Proof.
  intros Hl. unfold change_asset_shares. apply nc_bind_ok; [apply nc_math_simple; apply csimple_cadd|].
  intros tas' _. unfold dep_limit_active. cbn [set_b_tas b_dep_limit]. rewrite Hl, Z.eqb_refl. cbn [negb andb].
  rewrite Bool.andb_false_r. cbn [andb]. apply nc_ok.
Qed.

(* adding shares worth at most n tokens, n within the remaining capacity, never raises the capacity error *)
Lemma capacity_safe_gen b c n sh :
  wf_sv b -> 0 <= b_tas b -> b_asset_tag b <> ASSET_TAG_DRIFT -> b_dep_limit b <> U64_MAX ->
  remaining_deposit_capacity b = Ok c -> 0 <= n <= c -> 0 < c ->
  0 <= sh -> sh * b_asv b <= of_int n * ONE ->
  nc (change_asset_shares b sh false).
Proof.
  intros [Hasv Hlsv] Htas Htag Hlim Hc Hn Hcpos S0 S1.
  unfold remaining_deposit_capacity in Hc.
  unfold dep_limit_active in Hc. replace (b_dep_limit b =? U64_MAX) with false in Hc by lia. cbn [negb] in Hc.
  apply bind_ok in Hc as (cur & Hcur & Hc). apply get_asset_amount_inv in Hcur.
  unfold deposit_limit_fx in Hc. replace (b_asset_tag b =? ASSET_TAG_DRIFT) with false in Hc by lia.
  cbn [bind] in Hc. destruct (of_int (b_dep_limit b) <=? cur) eqn:E.
  { apply Ok_inj in Hc. lia. }
  apply bind_ok in Hc as (r1 & H1 & Hc). apply math_ok, csub_inv in H1 as [H1 _].
  apply bind_ok in Hc as (r2 & H2 & Hc). apply math_ok, csub_inv in H2 as [H2 _].
  apply bind_ok in Hc as (r3 & H3 & Hc). apply math_ok, cfloor_inv in H3.
  apply math_ok, to_u64_inv in Hc as [Hc _].
  pose proof ONE_pos as HO.
  assert (Hroom : of_int n <= of_int (b_dep_limit b) - cur - ONE).
  { subst c r3 r2 r1.
    assert (Q : (of_int (b_dep_limit b) - cur - ONE) / ONE * ONE / ONE = (of_int (b_dep_limit b) - cur - ONE) / ONE)
      by (apply Z.div_mul; lia).
    rewrite Q in Hn.
    pose proof (Z.mul_div_le (of_int (b_dep_limit b) - cur - ONE) ONE HO). unfold of_int in *. nia. }
  unfold change_asset_shares.
  apply nc_bind_ok; [apply nc_math_simple; apply csimple_cadd|]. intros tas' Eadd.
  apply math_ok, cadd_inv in Eadd as [-> _].
  destruct ((0 <? sh) && dep_limit_active (set_b_tas (b_tas b + sh) b) && negb false) eqn:G; [|apply nc_ok].
  unfold get_asset_amount, deposit_limit_fx. cbn [set_b_tas b_asv b_asset_tag b_dep_limit b_tas].
  replace (b_asset_tag b =? ASSET_TAG_DRIFT) with false by lia.
  apply nc_bind_ok; [apply nc_math_simple; apply csimple_cmul|]. intros tot Emul.
  apply math_ok, cmul_inv in Emul as [-> _]. cbn [bind].
  replace (of_int (b_dep_limit b) <=? (b_tas b + sh) * b_asv b / ONE) with false; [apply nc_ok|].
  symmetry. apply Z.leb_gt.
  assert ((b_tas b + sh) * b_asv b / ONE <= cur + of_int n).
  { subst cur. rewrite <- Z.div_add by lia. apply Z.div_le_mono; [lia|]. nia. }
  lia.
Qed.

Lemma capacity_core_eq b b' : bank_same_core b b' -> remaining_deposit_capacity b' = remaining_deposit_capacity b.
Proof.
  intros (S1 & S2 & T1 & T2 & _ & _ & _ & _ & D & _ & Tg & Dc & _).
  unfold remaining_deposit_capacity, dep_limit_active, get_asset_amount, deposit_limit_fx. rewrite S1, T1, D, Tg, Dc. reflexivity.
Qed.

Lemma increase_deposit_nc bk1 bl t dep c :
  wf_sv bk1 -> 0 <= b_tas bk1 -> wf_bal bl -> b_asset_tag bk1 <> ASSET_TAG_DRIFT ->
  remaining_deposit_capacity bk1 = Ok c -> 0 < dep <= c ->
  nc (increase_balance bk1 bl t (of_int dep) IncDepositOnly).
Proof.
  intros Hsv Hta Hwf Htag Hcap Hdep. unfold increase_balance.
  apply nc_bind_ok; [apply nc_claim_emissions|]. intros [b0 bl0] Hc. cbv beta iota.
  destruct (claim_emissions_core _ _ _ _ _ Hc) as (Cb & Cl).
  pose proof (capacity_core_eq _ _ Cb) as Hcap0. rewrite Hcap in Hcap0.
  destruct Cb as (S1 & S2 & T1 & T2 & _ & _ & _ & _ & D & _ & Tg & _). destruct Cl as (_ & _ & _ & A1 & A2).
  destruct Hsv as (Ha & Hl). destruct Hwf as (Wa & Wl). pose proof ONE_pos as HO.
  apply nc_bind_ok; [apply nc_get_liability_amount|]. intros cur_l Hcl. apply get_liability_amount_inv in Hcl.
  assert (Hcl0 : 0 <= cur_l) by (rewrite Hcl; apply Z.div_pos; [nia|lia]).
  apply nc_bind_ok; [apply nc_math_simple, csimple_csub|]. intros d0 Hd0. apply math_ok, csub_inv in Hd0 as [Hd0 _].
  apply nc_bind_ok; [apply nc_check; cne_err|]. intros u _.
  apply nc_bind_ok; [apply nc_get_asset_shares|]. intros ash Hash.
  assert (Hod : 0 <= of_int dep) by (unfold of_int; nia).
  assert (Hainc : 0 <= fmax d0 0 <= of_int dep) by (unfold fmax; lia).
  assert (Hshares : 0 <= ash /\ ash * b_asv b0 <= of_int dep * ONE).
  { unfold get_asset_shares in Hash. destruct (b_asv b0 =? 0) eqn:E0.
    - apply Ok_inj in Hash. subst ash. unfold of_int. nia.
    - apply math_ok in Hash. apply cdiv_inv_nonneg in Hash as [-> _]; [|lia|lia].
      assert (0 < b_asv b0) by lia.
      split; [apply Z.div_pos; nia|]. rewrite Z.mul_comm. pose proof (Z.mul_div_le (fmax d0 0 * ONE) (b_asv b0) ltac:(lia)). nia. }
  destruct Hshares as (Hs0 & Hs1).
  apply nc_bind_ok; [apply nc_math_simple, csimple_cadd|]. intros a' _.
  apply nc_bind_ok.
  { destruct (Z.eq_dec (b_dep_limit b0) U64_MAX) as [El|Nl]; [apply nc_change_asset_inactive; exact El|].
    eapply (capacity_safe_gen b0 c dep ash); try eassumption; try lia; unfold wf_sv; lia. }
  intros b1 _.
  apply nc_bind_ok; [apply nc_get_liability_shares|]. intros lsh _.
  apply nc_bind_ok; [apply csimple_ng, csimple_uneg|]. intros nl _.
  apply nc_bind_ok; [apply nc_math_simple, csimple_cadd|]. intros l' _.
  apply nc_bind_ok; [apply nc_change_liability_shares|]. intros b2 _. apply nc_ok.
Qed.

Lemma marginfi_tag_not_drift t : is_marginfi_tag t = true -> t <> ASSET_TAG_DRIFT.
Proof.
  unfold is_marginfi_tag. intros H E. subst t. vm_compute in H. discriminate.
Qed.

(* the whole handler: with the flag "up to limit" a deposit never fails with BankAssetCapacityExceeded *)
Theorem h_deposit_up_to_limit_never_exceeds w a b n :
  HOk2 w -> 0 <= n -> nc (h_deposit w a b n true).
Proof.
  intros H2 Hn. pose proof H2 as (_ & _ & Hbk). pose proof (HOk2_HOk _ H2) as (_ & _ & Ha).
  unfold h_deposit.
  apply nc_bind_ok; [apply nc_nth_bank|]. intros hb Hb.
  apply nc_bind_ok; [apply nc_nth_acct|]. intros ac Hac.
  destruct (Hbk _ _ Hb) as (Hok & _). destruct (Ha _ _ Hac) as (Wac & Pac).
  apply nc_bind_ok; [apply nc_check; cne_err|]. intros u1 Htag. apply check_ok in Htag.
  apply nc_bind_ok; [apply nc_check; cne_err|]. intros u2 _.
  apply nc_bind_ok; [apply nc_validate_asset_tags|]. intros u3 _.
  apply nc_bind_ok; [apply nc_validate_bank_state|]. intros u4 _.
  apply nc_bind_ok; [apply nc_check; cne_err|]. intros u5 _.
  apply nc_bind_ok; [apply nc_accrue|]. intros bk1 Hacc.
  destruct (after_accrue _ _ _ _ _ Hok (Pac _ _ Hb) Hacc) as (_ & _ & Pac1 & Ta1 & Tl1 & Hsv1).
  pose proof (accrue_frame _ _ _ _ Hacc) as (_ & _ & _ & _ & _ & Ft & _).
  apply nc_bind_ok.
  { apply nc_bind_ok; [apply nc_remaining_capacity|]. intros c _. apply nc_ok. }
  intros dep Hdep. apply bind_ok in Hdep as (c & Hc & Hdep). apply Ok_inj in Hdep.
  pose proof (capacity_nonneg _ _ Hc) as Hc0.
  destruct (dep =? 0) eqn:Ed; [apply nc_ok|].
  assert (Hd : 0 < dep <= c) by lia.
  apply nc_bind_ok; [apply nc_wrapper_find_or_create|]. intros [i la1] Hloc.
  apply nc_bind_ok; [apply nc_nth_res|]. intros bl Hbl.
  destruct (located_le _ _ bk1 _ _ true _ _ _ Hloc Hbl Wac Pac1 Ta1 Tl1) as (Wbl & _).
  apply nc_bind_ok.
  { eapply increase_deposit_nc; try eassumption. rewrite Ft. apply marginfi_tag_not_drift. exact Htag. }
  intros [bk2 bl2] _.
  apply nc_bind_ok; [apply nc_pre_fee|]. intros pre _.
  apply nc_bind_ok; [apply nc_xfer_in|]. intros w2 _.
  apply nc_bind_ok; [apply nc_nth_bank|]. intros hb2 _.
  apply nc_bind_ok; [apply nc_update_bank_cache|]. intros bk3 _.
  apply nc_bind_ok; [apply nc_nth_acct|]. intros ac2 _. apply nc_ok.
Qed.

(* and what it books is exactly min(requested amount, remaining capacity of the ACCRUED bank) *)
Theorem h_deposit_up_to_limit_amount w a b n w' hb hb' :
  h_deposit w a b n true = Ok w' -> nth_bank w b = Ok hb -> nth_bank w' b = Ok hb' ->
  exists bk1 c, accrue_interest (hb_b hb) (hw_pf w) (hw_now w) = Ok bk1 /\ remaining_deposit_capacity bk1 = Ok c /\
    ( (Z.min n c = 0 /\ hb' = set_hb_b bk1 hb)
      \/ exists ac i la1 bl bk2 bl2, nth_acct w a = Ok ac /\
           wrapper_find_or_create (bank_pk b) bk1 (ha_la ac) (hw_now w) = Ok (i, la1) /\ nth_res i la1 = Ok bl /\
           increase_balance bk1 bl (t64 w) (of_int (Z.min n c)) IncDepositOnly = Ok (bk2, bl2) /\
           b_tas (hb_b hb') = b_tas bk2 /\ b_asv (hb_b hb') = b_asv bk2 ).
Proof.
  intros H Hb Hb'. unfold h_deposit in H. rewrite Hb in H. cbn [bind] in H.
  apply bind_ok in H as (ac & Hac & H).
  apply bind_ok in H as (u1 & _ & H). apply bind_ok in H as (u2 & _ & H). apply bind_ok in H as (u3 & _ & H).
  apply bind_ok in H as (u4 & _ & H). apply bind_ok in H as (u5 & _ & H).
  apply bind_ok in H as (bk1 & Hacc & H). apply bind_ok in H as (dep & Hdep & H).
  apply bind_ok in Hdep as (c & Hc & Hdep). apply Ok_inj in Hdep. subst dep.
  exists bk1, c. split; [exact Hacc|]. split; [exact Hc|].
  destruct (Z.min n c =? 0) eqn:Ed.
  - left. apply Ok_inj in H. subst w'. pose proof (put_hbank_get w b (set_hb_b bk1 hb) _ Hb) as X. rewrite Hb' in X. apply Ok_inj in X.
    split; [lia|congruence].
  - right. apply bind_ok in H as ([i la1] & Hloc & H). apply bind_ok in H as (bl & Hbl & H).
    apply bind_ok in H as ([bk2 bl2] & Hinc & H). apply bind_ok in H as (pre & Hpre & H).
    set (w1 := put_hacct (put_hbank w b (set_hb_b bk2 hb)) a (mkHA (set_nth i bl2 la1) (ha_flags ac))) in H.
    apply bind_ok in H as (w2 & Hx & H). apply bind_ok in H as (hb2 & Hhb2 & H).
    apply bind_ok in H as (bk3 & Hcache & H). apply bind_ok in H as (ac2 & Hac2 & H). apply Ok_inj in H. subst w'.
    assert (Hb1 : nth_bank w1 b = Ok (set_hb_b bk2 hb)) by (unfold w1; eapply put_hbank_get; eauto).
    destruct (xfer_in_eq _ _ _ _ _ _ Hx Hb1) as (f & Hf & _ & Eb & _).
    pose proof (nth_bank_of_eq _ _ _ _ _ Eb Hb1) as E2. rewrite Hhb2 in E2. apply Ok_inj in E2. subst hb2.
    assert (X : nth_bank (put_hacct (put_hbank w2 b (set_hb_b bk3 (set_hb_vault (hb_vault (set_hb_b bk2 hb) + pre - f) (set_hb_b bk2 hb)))) a (sort_acct ac2)) b
                = Ok (set_hb_b bk3 (set_hb_vault (hb_vault (set_hb_b bk2 hb) + pre - f) (set_hb_b bk2 hb)))) by (eapply put_hbank_get; eauto).
    rewrite Hb' in X. apply Ok_inj in X. subst hb'.
    destruct (NAV_cache _ _ _ _ Hcache) as (_ & C1 & _ & C3 & _). cbn [set_hb_b set_hb_vault hb_b] in Hcache, C1, C3 |- *.
    exists ac, i, la1, bl, bk2, bl2. repeat split; assumption.
Qed.
