(* DeleverageWorld.v — C01 / C02 across forced deleverages: the withdrawal and the repayment a risk admin performs
   inside start_deleverage .. end_deleverage keep the world well-formed (instruction-level ledger, per-bank facts) and
   move the solvency gap within the same bounds as the ordinary withdraw / repay; start and end only touch flags. *)
Require Import Base Constants PrivGen Fixed Curve Bank BankOps Risk TransferFee Handlers Deleverage.
Require Import FixedLemmas BankLemmas ValueLemmas CurveLemmas AccrualLemmas TransferFeeLemmas HandlerLemmas SolvencyLemmas FrameLemmas LedgerLemmas HandlerEffects SolvencyHandlers SolvencyWorld HandlerWorld.
From Coq Require Import ZifyBool.
Local Open Scope Z_scope.

Lemma dv_withdraw_effect w c a r b amount all w' c' :
  dv_withdraw w c a r b amount all = Ok (w', c') ->
  exists hb hb' ac ac', eff1 w w' a b hb hb' ac ac' /\ withdraw_core w b amount all hb hb' ac ac'.
Proof.
  intros H. unfold dv_withdraw in H.
  apply bind_ok in H as (hb & Hhb & H). apply bind_ok in H as (ac & Hac & H).
  apply bind_ok in H as (u1 & _ & H). apply bind_ok in H as (u2 & _ & H). apply bind_ok in H as (u3 & _ & H).
  apply bind_ok in H as (u4 & _ & H). apply bind_ok in H as (u5 & _ & H). apply bind_ok in H as (price & _ & H).
  apply bind_ok in H as (u6 & _ & H). apply bind_ok in H as (bk1 & Hacc & H).
  apply bind_ok in H as (i & Hi & H). apply bind_ok in H as (bl & Hbl & H).
  apply bind_ok in H as ([[bk2 bl2] pre] & Hprim & H).
  set (paid := if get_flag (b_flags bk2) TOKENLESS_REPAYMENTS_COMPLETE then Z.min pre (hb_vault hb) else pre) in H.
  apply bind_ok in H as (c2 & _ & H).
  set (w1 := put_hacct (put_hbank w b (set_hb_b bk2 hb)) a (mkHA (set_nth i bl2 (ha_la ac)) (ha_flags ac))) in H.
  apply bind_ok in H as (w2 & Hx & H). apply bind_ok in H as (hb2 & Hhb2 & H).
  apply bind_ok in H as (bk3 & Hcache & H). apply bind_ok in H as (ac2 & Hac2 & H).
  apply Ok_inj in H. apply pair_equal_spec in H as [<- <-].
  assert (Hb1 : nth_bank w1 b = Ok (set_hb_b bk2 hb)) by (unfold w1; eapply put_hbank_get; eauto).
  destruct (xfer_out_eq _ _ _ _ _ _ Hx Hb1) as (Hle & Eb & Ea & En & Ep & Er).
  assert (Ehb2 : hb2 = set_hb_vault (hb_vault hb - paid) (set_hb_b bk2 hb)).
  { pose proof (nth_bank_of_eq _ _ _ _ _ Eb Hb1) as E2. rewrite Hhb2 in E2. apply Ok_inj in E2. exact E2. }
  assert (Eac2 : ac2 = mkHA (set_nth i bl2 (ha_la ac)) (ha_flags ac)).
  { unfold nth_acct in Hac2. rewrite Ea in Hac2. unfold w1, put_hacct in Hac2. cbn [hw_accts] in Hac2.
    apply nth_res_ok in Hac. unfold nth_res in Hac2. rewrite (nth_set_nth_same _ _ _ _ Hac) in Hac2.
    apply Ok_inj in Hac2. symmetry. exact Hac2. }
  exists hb, (mk_hb bk3 (hb_vault hb - paid) hb), ac, (sort_acct (mkHA (set_nth i bl2 (ha_la ac)) (ha_flags ac))).
  split.
  - unfold eff1, put_hacct, put_hbank. cbn [hw_banks hw_accts hw_now hw_pf hw_risk_admin_signs].
    rewrite Eb, Ea, En, Ep, Er. unfold w1, put_hacct, put_hbank. cbn [hw_banks hw_accts hw_now hw_pf hw_risk_admin_signs].
    rewrite !set_nth_set_nth, Ehb2, Eac2. repeat split; try assumption; reflexivity.
  - exists bk1, i, bl, bk2, bl2, pre, paid, bk3. subst hb2 ac2.
    split; [exact Hacc|]. split; [exact Hi|]. split; [exact Hbl|].
    split.
    { destruct all; [exact Hprim|].
      apply bind_ok in Hprim as (pre0 & Hpre & Hprim). apply bind_ok in Hprim as ([bk2' bl2'] & Hdec & Hprim).
      apply Ok_inj in Hprim. apply pair_equal_spec in Hprim as [Hp1 <-]. apply pair_equal_spec in Hp1 as [<- <-].
      split; assumption. }
    split; [reflexivity|]. split; [exact Hle|]. split; [exact Hcache|]. split; reflexivity.
Qed.

Theorem dv_withdraw_keeps_world w c a r b amount all w' c' :
  0 <= amount -> HOk2 w -> dv_withdraw w c a r b amount all = Ok (w', c') -> HOk2 w'.
Proof.
  intros Hamt H2 H. destruct (dv_withdraw_effect _ _ _ _ _ _ _ _ _ H) as (hb & hb' & ac & ac' & E & F).
  eapply withdraw_core_HOk2; eauto.
Qed.

Lemma dv_repay_effect w a r b amount all w' :
  dv_repay w a r b amount all = Ok w' ->
  exists hb hb' ac ac', eff1 w w' a b hb hb' ac ac' /\ repay_facts w a b amount all hb hb' ac ac'.
Proof.
  intros H. unfold dv_repay in H.
  apply bind_ok in H as (hb & Hhb & H). apply bind_ok in H as (ac & Hac & H).
  apply bind_ok in H as (u1 & _ & H). apply bind_ok in H as (u2 & Hfl & H). apply check_ok in Hfl.
  apply bind_ok in H as (u3 & _ & H). apply bind_ok in H as (bk1 & Hacc & H).
  apply bind_ok in H as (i & Hi & H). apply bind_ok in H as (bl & Hbl & H).
  apply bind_ok in H as ([[bk2 bl2] post] & Hprim & H).
  set (w1 := put_hacct (put_hbank w b (set_hb_b bk2 hb)) a (mkHA (set_nth i bl2 (ha_la ac)) (ha_flags ac))) in H.
  apply bind_ok in H as (w2 & Hx & H). apply bind_ok in H as (hb2 & Hhb2 & H).
  fold (mark_tokenless_complete (hb_b hb2)) in H.
  apply bind_ok in H as (bk5 & Hcache & H). apply bind_ok in H as (ac2 & Hac2 & H).
  apply Ok_inj in H. subst w'.
  assert (Hdis : aflag ac ACCOUNT_DISABLED = false) by (change ACCOUNT_DISABLED with G_ACCOUNT_DISABLED; destruct (aflag ac G_ACCOUNT_DISABLED); [discriminate|reflexivity]).
  assert (Hb1 : nth_bank w1 b = Ok (set_hb_b bk2 hb)) by (unfold w1; eapply put_hbank_get; eauto).
  assert (Hprim' : if all then repay_all bk1 bl (t64 w) = Ok (bk2, bl2, post)
     else post = amount /\ increase_balance bk1 bl (t64 w) (of_int amount) IncRepayOnly = Ok (bk2, bl2)).
  { destruct all; [exact Hprim|].
    apply bind_ok in Hprim as ([bk2' bl2'] & Hinc & Hprim).
    apply Ok_inj in Hprim. apply pair_equal_spec in Hprim as [Hp1 <-]. apply pair_equal_spec in Hp1 as [<- <-].
    split; [reflexivity|exact Hinc]. }
  (* the two token cases give the same shape: banks of w2 = set_nth b (set_hb_vault V' (set_hb_b bk2 hb)) (banks w1) *)
  assert (Hw2 : exists V', hw_banks w2 = set_nth b (set_hb_vault V' (set_hb_b bk2 hb)) (hw_banks w1) /\
                  hw_accts w2 = hw_accts w1 /\ hw_now w2 = hw_now w1 /\ hw_pf w2 = hw_pf w1 /\
                  hw_risk_admin_signs w2 = hw_risk_admin_signs w1 /\
                  ( (hw_risk_admin_signs w = true /\ get_flag (b_flags bk2) TOKENLESS_REPAYMENTS_ALLOWED = true /\ all = true /\ V' = hb_vault hb)
                    \/ exists pre f, pre_fee hb post = Ok pre /\ tfee hb pre = Ok f /\ V' = hb_vault hb + pre - f )).
  { destruct (hw_risk_admin_signs w && get_flag (b_flags bk2) TOKENLESS_REPAYMENTS_ALLOWED && all) eqn:Etl.
    - apply Ok_inj in Hx. subst w2. exists (hb_vault hb).
      split.
      { symmetry. apply set_nth_same_id. apply nth_res_ok in Hb1.
        replace (set_hb_vault (hb_vault hb) (set_hb_b bk2 hb)) with (set_hb_b bk2 hb) by (destruct hb; reflexivity). exact Hb1. }
      repeat (split; [reflexivity|]). left.
      destruct (hw_risk_admin_signs w); [|discriminate]. destruct (get_flag (b_flags bk2) TOKENLESS_REPAYMENTS_ALLOWED); [|discriminate].
      destruct all; [|discriminate]. repeat split; reflexivity.
    - apply bind_ok in Hx as (pre & Hpre & Hx).
      destruct (xfer_in_eq _ _ _ _ _ _ Hx Hb1) as (f & Hf & _ & Eb & Ea & En & Ep & Er).
      exists (hb_vault hb + pre - f). repeat (split; [assumption|]). right. exists pre, f. repeat split; assumption. }
  destruct Hw2 as (V' & Eb & Ea & En & Ep & Er & Htok).
  assert (Ehb2 : hb2 = set_hb_vault V' (set_hb_b bk2 hb)).
  { pose proof (nth_bank_of_eq _ _ _ _ _ Eb Hb1) as E2. rewrite Hhb2 in E2. apply Ok_inj in E2. exact E2. }
  assert (Eac2 : ac2 = mkHA (set_nth i bl2 (ha_la ac)) (ha_flags ac)).
  { unfold nth_acct in Hac2. rewrite Ea in Hac2. unfold w1, put_hacct in Hac2. cbn [hw_accts] in Hac2.
    apply nth_res_ok in Hac. unfold nth_res in Hac2. rewrite (nth_set_nth_same _ _ _ _ Hac) in Hac2.
    apply Ok_inj in Hac2. symmetry. exact Hac2. }
  exists hb, (mk_hb bk5 V' hb), ac, (sort_acct (mkHA (set_nth i bl2 (ha_la ac)) (ha_flags ac))).
  split.
  - unfold eff1, put_hacct, put_hbank. cbn [hw_banks hw_accts hw_now hw_pf hw_risk_admin_signs].
    rewrite Eb, Ea, En, Ep, Er. unfold w1, put_hacct, put_hbank. cbn [hw_banks hw_accts hw_now hw_pf hw_risk_admin_signs].
    rewrite !set_nth_set_nth, Ehb2, Eac2. repeat split; try assumption; reflexivity.
  - exists bk1, i, bl, bk2, bl2, post, V', bk5. subst hb2 ac2.
    split; [exact Hacc|]. split; [exact Hdis|]. split; [exact Hi|]. split; [exact Hbl|]. split; [exact Hprim'|].
    split; [exact Htok|]. split; [exact Hcache|]. split; reflexivity.
Qed.

Theorem dv_repay_keeps_world w a r b amount all w' :
  0 <= amount -> HOk2 w -> dv_repay w a r b amount all = Ok w' -> HOk2 w'.
Proof.
  intros Hamt H2 H. destruct (dv_repay_effect _ _ _ _ _ _ _ H) as (hb & hb' & ac & ac' & E & F).
  eapply repay_HOk2; eauto.
Qed.

(* an instruction that only rewrites an account's flag word keeps the world well-formed *)
Lemma set_nth_map_same {A B} (f : A -> B) l n x y :
  nth_error l n = Some y -> f x = f y -> map f (set_nth n x l) = map f l.
Proof.
  revert n. induction l as [|h t IH]; intros [|n] Hn Hf; cbn in *; try discriminate.
  - injection Hn as ->. rewrite Hf. reflexivity.
  - rewrite (IH n Hn Hf). reflexivity.
Qed.

Lemma flags_only_keeps_world w a ac ac' :
  HOk2 w -> nth_acct w a = Ok ac -> ha_la ac' = ha_la ac -> HOk2 (put_hacct w a ac').
Proof.
  intros (Hpf & L & Hb) Ha Hla. split; [exact Hpf|]. split; [|exact Hb].
  unfold HLedger, bw_of, put_hacct. cbn [hw_banks hw_accts hw_now hw_pf].
  apply nth_res_ok in Ha. rewrite (set_nth_map_same ha_la _ _ _ _ Ha Hla). exact L.
Qed.

Lemma dv_start_keeps_world w a signs w' s :
  HOk2 w -> dv_start w a signs = Ok (w', s) -> HOk2 w'.
Proof.
  intros H2 H. unfold dv_start in H.
  apply bind_ok in H as (ac & Hac & H). apply bind_ok in H as (u1 & _ & H). apply bind_ok in H as (u2 & _ & H).
  apply bind_ok in H as (ps & _ & H). apply bind_ok in H as ([[x am] lm] & _ & H). apply bind_ok in H as ([ae le] & _ & H).
  apply Ok_inj in H. apply pair_equal_spec in H as [<- _].
  eapply flags_only_keeps_world; [exact H2 | exact Hac | reflexivity].
Qed.

Lemma dv_end_keeps_world w a signs s w' :
  HOk2 w -> dv_end w a signs s = Ok w' -> HOk2 w'.
Proof.
  intros H2 H. unfold dv_end in H.
  apply bind_ok in H as (ac & Hac & H). apply bind_ok in H as (u1 & _ & H). apply bind_ok in H as (u2 & _ & H).
  apply bind_ok in H as (ps & _ & H). apply bind_ok in H as ([[post x] y] & _ & H). apply bind_ok in H as ([ae le] & _ & H).
  apply bind_ok in H as (u3 & _ & H). apply bind_ok in H as (u4 & _ & H). apply bind_ok in H as (u5 & _ & H).
  apply Ok_inj in H. subst w'.
  eapply flags_only_keeps_world; [exact H2 | exact Hac | reflexivity].
Qed.

Definition dstep_ok (s : dstep) : Prop :=
  match s with DWithdraw _ n _ | DRepay _ n _ => 0 <= n end.

Lemma dv_step_keeps_world a r wc s wc' :
  dstep_ok s -> HOk2 (fst wc) -> dv_step a r wc s = Ok wc' -> HOk2 (fst wc').
Proof.
  intros Hs H2 H. destruct s as [b n all | b n all]; cbn [dv_step dstep_ok] in *.
  - destruct wc' as [w' c']. eapply dv_withdraw_keeps_world; eauto.
  - apply bind_ok in H as (w' & Hr & H). apply Ok_inj in H. subst wc'. cbn [fst]. eapply dv_repay_keeps_world; eauto.
Qed.

Lemma dv_steps_keep_world a r steps : forall wc wc',
  Forall dstep_ok steps -> HOk2 (fst wc) -> foldM (dv_step a r) steps wc = Ok wc' -> HOk2 (fst wc').
Proof.
  induction steps as [|s rest IH]; intros wc wc' Hall H2 H; cbn [foldM] in H.
  - apply Ok_inj in H. subst wc'. exact H2.
  - apply bind_ok in H as (wc1 & H1 & H). inversion Hall as [|? ? Hs Hrest]; subst.
    eapply IH; [exact Hrest | eapply dv_step_keeps_world; eauto | exact H].
Qed.

(* the whole forced-deleverage transaction [start_deleverage; withdrawals / repayments ...; end_deleverage] *)
Theorem dv_tx_keeps_world w c a r signs steps w' c' :
  Forall dstep_ok steps -> HOk2 w -> dv_tx w c a r signs steps = Ok (w', c') -> HOk2 w'.
Proof.
  intros Hall H2 H. unfold dv_tx in H.
  apply bind_ok in H as ([w1 snap] & Hs & H). apply bind_ok in H as ([w2 c2] & Hf & H). apply bind_ok in H as (w3 & He & H).
  apply Ok_inj in H. apply pair_equal_spec in H as [<- _].
  pose proof (dv_start_keeps_world _ _ _ _ _ H2 Hs) as H21.
  pose proof (dv_steps_keep_world a r steps (w1, c) (w2, c2) Hall H21 Hf) as H22. cbn [fst] in H22.
  eapply dv_end_keeps_world; eauto.
Qed.

Lemma eff1_banks w w' a b hb hb' ac ac' :
  eff1 w w' a b hb hb' ac ac' ->
  nth_bank w b = Ok hb /\ nth_bank w' b = Ok hb' /\ (forall k, k <> b -> nth_bank w' k = nth_bank w k).
Proof.
  intros (E1 & _ & E3 & _). split; [exact E1|]. split.
  - unfold nth_bank. rewrite E3. apply nth_res_ok in E1. unfold nth_res. rewrite (nth_set_nth_same _ _ _ _ E1). reflexivity.
  - intros k Hk. unfold nth_bank. rewrite E3. unfold nth_res. rewrite nth_set_nth_other by lia. reflexivity.
Qed.

(* the gap bounds of the ordinary withdraw / repay carry over to the deleverage versions *)
Theorem dv_withdraw_gap w c a r b amount all w' c' :
  0 <= amount -> HOk2 w -> dv_withdraw w c a r b amount all = Ok (w', c') ->
  exists hb hb', nth_bank w b = Ok hb /\ nth_bank w' b = Ok hb' /\
    gap hb - acc_slack w hb - sv_slack w hb <= gap hb' /\
    (forall k, k <> b -> nth_bank w' k = nth_bank w k).
Proof.
  intros Hamt H2 H. destruct (dv_withdraw_effect _ _ _ _ _ _ _ _ _ H) as (hb & hb' & ac & ac' & E & F).
  destruct (eff1_banks _ _ _ _ _ _ _ _ E) as (B1 & B2 & B3).
  pose proof H2 as (_ & _ & Hb). pose proof (HOk2_HOk _ H2) as (_ & _ & Ha).
  pose proof E as (_ & E2 & _). destruct (Hb _ _ B1) as (Hok & _). destruct (Ha _ _ E2) as (Wac & Pac).
  destruct (withdraw_core_gap _ _ _ _ _ _ _ _ Hamt F Hok Wac (Pac _ _ B1)) as (_ & _ & G).
  exists hb, hb'. repeat split; assumption.
Qed.

Theorem dv_repay_gap w a r b amount all w' :
  0 <= amount -> HOk2 w -> dv_repay w a r b amount all = Ok w' ->
  exists hb hb', nth_bank w b = Ok hb /\ nth_bank w' b = Ok hb' /\
    (gap hb - acc_slack w hb - (if all then ONE else 0) <= gap hb' \/ tokenless_writeoff w hb all) /\
    (forall k, k <> b -> nth_bank w' k = nth_bank w k).
Proof.
  intros Hamt H2 H. destruct (dv_repay_effect _ _ _ _ _ _ _ H) as (hb & hb' & ac & ac' & E & F).
  destruct (eff1_banks _ _ _ _ _ _ _ _ E) as (B1 & B2 & B3).
  pose proof H2 as (_ & _ & Hb). pose proof (HOk2_HOk _ H2) as (_ & _ & Ha).
  pose proof E as (_ & E2 & _). destruct (Hb _ _ B1) as (Hok & _). destruct (Ha _ _ E2) as (Wac & Pac).
  destruct (repay_gap _ _ _ _ _ _ _ _ _ Hamt F Hok Wac (Pac _ _ B1)) as (_ & _ & G).
  exists hb, hb'. repeat split; assumption.
Qed.

Theorem dv_tx_keeps_ledger w c a r signs steps w' c' :
  Forall dstep_ok steps -> HOk2 w -> dv_tx w c a r signs steps = Ok (w', c') -> HLedger w'.
Proof. intros Hall H2 H. pose proof (dv_tx_keeps_world _ _ _ _ _ _ _ _ Hall H2 H) as (_ & L & _). exact L. Qed.
