(* HandlerWorld.v — the handler world keeps its well-formedness: the ledger invariant (C02, at
   instruction level, including liquidation's four legs and bankruptcy) and the per-bank facts
   solvency needs.  This discharges the per-state assumption of the history theorem of C01. *)
Require Import Base Constants Fixed Curve Bank BankOps Risk TransferFee Handlers.
Require Import FixedLemmas BankLemmas ValueLemmas CurveLemmas AccrualLemmas TransferFeeLemmas HandlerLemmas SolvencyLemmas FrameLemmas LedgerLemmas HandlerEffects SolvencyHandlers SolvencyWorld.
From Coq Require Import ZifyBool.
Local Open Scope Z_scope.

(* the wrapper-level view of a handler world *)
Definition bw_of (w : hworld) : bworld :=
  mkBW (map hb_b (hw_banks w)) (map ha_la (hw_accts w)) (hw_now w) (hw_pf w).

Definition HLedger (w : hworld) : Prop := Ledger (bw_of w).

Definition HOk2 (w : hworld) : Prop :=
  pf_ok (hw_pf w) /\ HLedger w /\ (forall b hb, nth_bank w b = Ok hb -> hb_ok hb /\ fees_rep (hb_b hb)).

Lemma map_set_nth {A B} (f : A -> B) l n x : map f (set_nth n x l) = set_nth n (f x) (map f l).
Proof. revert n; induction l as [|a l IH]; intros [|n]; cbn; try reflexivity. f_equal. apply IH. Qed.
Lemma nth_res_map {A B} (f : A -> B) l n x : nth_res n l = Ok x -> nth_res n (map f l) = Ok (f x).
Proof. unfold nth_res. rewrite nth_error_map. destruct (nth_error l n); intros H; [apply Ok_inj in H; subst; reflexivity|discriminate]. Qed.

Lemma lsum_ge_member k la bl : Forall wf_bal la -> In bl la -> ca k bl <= lsum (ca k) la /\ cl k bl <= lsum (cl k) la.
Proof.
  induction 1 as [|x r Hx Hr IH]; intros Hin; [destruct Hin|]. cbn [lsum].
  pose proof (wf_nonneg_ca k x Hx). pose proof (lsum_nonneg_ca k r Hr).
  destruct Hin as [<-|Hin]; [lia|]. specialize (IH Hin). lia.
Qed.
Lemma wsum_ge_member k accts la : Forall (Forall wf_bal) accts -> In la accts ->
  lsum (ca k) la <= wsum (ca k) accts /\ lsum (cl k) la <= wsum (cl k) accts.
Proof.
  induction 1 as [|x r Hx Hr IH]; intros Hin; [destruct Hin|]. cbn [wsum].
  pose proof (lsum_nonneg_ca k x Hx). pose proof (wsum_nonneg_ca k r Hr).
  destruct Hin as [<-|Hin]; [lia|]. specialize (IH Hin). lia.
Qed.

Lemma HOk2_HOk w : HOk2 w -> HOk w.
Proof.
  intros (Hpf & L & Hb). split; [exact Hpf|]. split; [exact Hb|].
  intros a ac Hac.
  assert (Hin : In (ha_la ac) (bw_accts (bw_of w))).
  { cbn [bw_of bw_accts]. apply in_map. apply nth_res_ok in Hac. eapply nth_error_In; eauto. }
  pose proof (lg_wf _ L) as Wf. rewrite Forall_forall in Wf. pose proof (Wf _ Hin) as Wla.
  split; [exact Wla|]. intros b hb Hhb bl Hbl Hact Hbank.
  assert (Hbo : bank_of (bw_of w) b = Some (hb_b hb)).
  { unfold bank_of. cbn [bw_of bw_banks]. rewrite nth_error_map. apply nth_res_ok in Hhb. unfold nth_bank in Hhb. rewrite Hhb. reflexivity. }
  destruct (lg_tot _ L b _ Hbo) as [Sa Sl].
  destruct (lsum_ge_member (bank_pk b) _ _ Wla Hbl) as [M1 M2].
  destruct (wsum_ge_member (bank_pk b) _ _ (lg_wf _ L) Hin) as [N1 N2].
  rewrite <- Hbank in M1, M2. destruct (ca_self bl Hact) as [C1 C2]. rewrite C1 in M1. rewrite C2 in M2. rewrite Hbank in M1, M2. lia.
Qed.

Lemma slot_ok_frame kk bk bk1 bl bk2 bl2 bk3 da dl :
  slot_ok kk bk1 bl bk2 bl2 da dl ->
  b_tas bk1 = b_tas bk -> b_tls bk1 = b_tls bk -> b_tas bk3 = b_tas bk2 -> b_tls bk3 = b_tls bk2 -> wf_sv bk3 ->
  slot_ok kk bk bl bk3 bl2 da dl.
Proof.
  intros (S & W & O & A & L & D1 & D2) T1 T2 T3 T4 S3. unfold slot_ok. rewrite T3, T4, <- T1, <- T2.
  split; [exact S3|]. split; [exact W|]. split; [exact O|]. split; [exact A|]. split; [exact L|]. split; assumption.
Qed.

(* the banks clause of HOk2 after replacing one bank entry *)
Lemma banks_ok_set w w' b hb' :
  (forall k hb, nth_bank w k = Ok hb -> hb_ok hb /\ fees_rep (hb_b hb)) ->
  hw_banks w' = set_nth b hb' (hw_banks w) -> hb_ok hb' -> fees_rep (hb_b hb') ->
  forall k hb, nth_bank w' k = Ok hb -> hb_ok hb /\ fees_rep (hb_b hb).
Proof.
  intros Hb E Hok Hfr k hb Hk. destruct (Nat.eq_dec b k) as [<-|Hne].
  - unfold nth_bank in Hk. rewrite E in Hk. apply nth_res_ok in Hk.
    destruct (nth_error (hw_banks w) b) as [x|] eqn:Ex.
    + rewrite (nth_set_nth_same _ _ _ _ Ex) in Hk. apply Some_inj in Hk. subst hb. split; assumption.
    + exfalso. clear -Ex Hk. revert b Ex Hk. induction (hw_banks w) as [|y l IH]; intros [|b] Ex Hk; cbn in *; try discriminate.
      eapply IH; eauto.
  - apply (Hb k). rewrite <- (nth_bank_eq_other _ _ _ _ _ E Hne). exact Hk.
Qed.

(* one located slot of account a and bank b replaced (optionally followed by sorting account a) *)
Lemma eff1_ledger w w' a b hb hb' ac ac' bkc (create : bool) i la1 bl blY da dl (sorted : bool) :
  HLedger w -> eff1 w w' a b hb hb' ac ac' ->
  (if create then wrapper_find_or_create (bank_pk b) bkc (ha_la ac) (hw_now w) else let* i := wrapper_find (bank_pk b) (ha_la ac) in Ok (i, ha_la ac)) = (Ok (i, la1) : res (nat * laccount)) ->
  nth_res i la1 = Ok bl ->
  slot_ok (bank_pk b) (hb_b hb) bl (hb_b hb') blY da dl ->
  ha_la ac' = (if sorted then sort_balances (set_nth i blY la1) else set_nth i blY la1) ->
  HLedger w'.
Proof.
  intros L (E1 & E2 & E3 & E4 & E5 & E6 & _) Hloc Hbl Hso Hla.
  pose proof (nth_res_map hb_b _ _ _ E1) as M1. pose proof (nth_res_map ha_la _ _ _ E2) as M2.
  destruct (put_ledger (bw_of w) a b _ _ bkc (hw_now w) create _ _ _ _ _ _ _ L M1 M2 Hloc Hbl Hso) as (L1 & _).
  unfold HLedger, bw_of. rewrite E3, E4, E5, E6, !map_set_nth, Hla.
  destruct sorted.
  - set (v1 := put (bw_of w) a b (hb_b hb') (set_nth i blY la1)) in *.
    assert (Hn : nth_res a (bw_accts v1) = Ok (set_nth i blY la1)).
    { unfold v1, put. cbn [bw_accts]. apply nth_res_ok in M2. unfold nth_res. rewrite (nth_set_nth_same _ _ _ _ M2). reflexivity. }
    destruct (sort_ledger v1 a _ L1 Hn) as (L2 & _).
    unfold v1, put in L2. cbn [bw_banks bw_accts bw_now bw_pf bw_of] in L2. rewrite set_nth_set_nth in L2. exact L2.
  - exact L1.
Qed.

(* a bank-only change that keeps the totals *)
Lemma effb_ledger w w' b hb hb' :
  HLedger w -> effb w w' b hb hb' -> wf_sv (hb_b hb') ->
  b_tas (hb_b hb') = b_tas (hb_b hb) -> b_tls (hb_b hb') = b_tls (hb_b hb) -> HLedger w'.
Proof.
  intros L (E1 & E3 & E4 & E5 & E6 & _) Hsv T1 T2.
  pose proof (nth_res_map hb_b _ _ _ E1) as M1.
  destruct (put_bank_ledger (bw_of w) b _ _ L M1 Hsv T1 T2) as (L1 & _).
  unfold HLedger, bw_of. rewrite E3, E4, E5, E6, map_set_nth. exact L1.
Qed.

(* ---------------------------------------------------------------- fee buckets stay representable *)
Lemma fees_rep_ge bk bk' : fees_rep bk -> b_grp bk <= b_grp bk' -> b_prog bk <= b_prog bk' -> fees_rep bk'.
Proof. unfold fees_rep. lia. Qed.
Lemma fees_rep_gp bk bk' : fees_rep bk -> gp_same bk bk' -> fees_rep bk'.
Proof. intros H (G & P). unfold fees_rep in *. rewrite G, P. exact H. Qed.
Lemma fees_rep_accrue hb pf now bk1 : hb_ok hb -> fees_rep (hb_b hb) -> accrue_interest (hb_b hb) pf now = Ok bk1 -> fees_rep bk1.
Proof.
  intros ((A & L & Ta & Tl) & _) Hf H. pose proof (accrue_monotone _ _ _ _ A L Ta Tl H) as (_ & _ & _ & Mg & Mp & _).
  eapply fees_rep_ge; eauto.
Qed.
Lemma gp_cache b pf now b' : update_bank_cache b pf now = Ok b' -> gp_same b b'.
Proof. intros H. apply update_bank_cache_core in H as [-> | ->]; [apply gp_same_refl|apply gp_set_last_update]. Qed.
Lemma gp_mark bk : gp_same bk (mark_tokenless_complete bk).
Proof. unfold mark_tokenless_complete. destruct (_ && _); [|apply gp_same_refl]. unfold gp_same. cbn. split; reflexivity. Qed.

Lemma acct_wf_of w a ac : HOk2 w -> nth_acct w a = Ok ac -> Forall wf_bal (ha_la ac).
Proof. intros H Hac. destruct (HOk2_HOk _ H) as (_ & _ & Ha). destruct (Ha _ _ Hac) as (W & _). exact W. Qed.

Lemma accrue_tot hb pf now bk1 : hb_ok hb -> accrue_interest (hb_b hb) pf now = Ok bk1 ->
  b_tas bk1 = b_tas (hb_b hb) /\ b_tls bk1 = b_tls (hb_b hb) /\ wf_sv bk1.
Proof.
  intros Hok H. pose proof Hok as ((A & L & Ta & Tl) & _).
  pose proof (accrue_monotone _ _ _ _ A L Ta Tl H) as (_ & _ & _ & _ & _ & _ & T1 & T2 & _).
  destruct (hb_ok_after_accrue _ _ _ _ Hok H) as (Hok1 & _). pose proof (hb_ok_sv _ Hok1) as S. cbn [set_hb_b hb_b] in S.
  split; [exact T1|]. split; [exact T2|exact S].
Qed.

Ltac finish_HOk2 Hpf Hb E3 E6 :=
  split; [rewrite E6; exact Hpf|]; split; [|eapply banks_ok_set; [exact Hb|exact E3| |]].

(* ---------------------------------------------------------------- deposit *)
Lemma deposit_HOk2 w w' a b amount hb hb' ac ac' :
  HOk2 w -> eff1 w w' a b hb hb' ac ac' -> deposit_facts w a b amount hb hb' ac ac' -> HOk2 w'.
Proof.
  intros H2 E F. pose proof H2 as (Hpf & L & Hb). pose proof (HOk2_HOk _ H2) as (_ & _ & Ha).
  pose proof E as (E1 & E2 & E3 & E4 & E5 & E6 & E7).
  destruct (Hb _ _ E1) as (Hok & Hfr). destruct (Ha _ _ E2) as (Wac & Pac).
  destruct (deposit_gap _ _ _ _ _ _ _ _ F Hok Wac (Pac _ _ E1)) as (Hok' & _ & _).
  destruct F as (bk1 & Hacc & _ & _ & Hcase).
  destruct (accrue_tot _ _ _ _ Hok Hacc) as (T1 & T2 & Hsv1).
  pose proof (fees_rep_accrue _ _ _ _ Hok Hfr Hacc) as Hfr1.
  destruct Hcase as [[-> ->] | (dep & i & la1 & bl & bk2 & bl2 & pre & f & bk3 & Hd & Hloc & Hbl & Hinc & Hpre & Hf & Hcache & -> & ->)].
  - split; [rewrite E6; exact Hpf|]. split.
    + eapply (effb_ledger w w' b hb (set_hb_b bk1 hb)); [exact L| |exact Hsv1|exact T1|exact T2].
      unfold effb. rewrite E4. repeat split; try assumption. apply set_nth_same_id. apply nth_res_ok. exact E2.
    + eapply banks_ok_set; [exact Hb|exact E3|exact Hok'|exact Hfr1].
  - destruct (slot_located _ _ _ _ true _ _ _ Hloc Hbl Wac) as (Hact & Hbank & Wbl & _ & _).
    assert (Hdn : 0 <= of_int dep) by (unfold of_int; pose proof ONE_pos; nia).
    destruct (inc_slot_ok (bank_pk b) _ _ _ _ _ _ _ Hsv1 Wbl Hact Hbank Hdn Hinc) as (da & dl & Hso & _).
    destruct (NAV_cache _ _ _ _ Hcache) as (_ & _ & _ & C1 & C2 & _).
    pose proof (hb_ok_sv _ Hok') as Hsv3. cbn [mk_hb set_hb_b hb_b] in Hsv3.
    split; [rewrite E6; exact Hpf|]. split.
    + eapply (eff1_ledger w w' a b hb _ ac _ bk1 true i la1 bl bl2 da dl true); [exact L|exact E|exact Hloc|exact Hbl| |reflexivity].
      cbn [mk_hb set_hb_b hb_b]. eapply slot_ok_frame; eauto.
    + eapply banks_ok_set; [exact Hb|exact E3|exact Hok'|].
      cbn [mk_hb set_hb_b hb_b]. eapply fees_rep_gp; [|eapply gp_cache; eauto]. eapply fees_rep_gp; [exact Hfr1|eapply gp_increase; eauto].
Qed.

(* ---------------------------------------------------------------- withdraw *)
Lemma withdraw_core_HOk2 w w' a b amount all hb hb' ac ac' :
  0 <= amount -> HOk2 w -> eff1 w w' a b hb hb' ac ac' -> withdraw_core w b amount all hb hb' ac ac' -> HOk2 w'.
Proof.
  intros Hamt H2 E F. pose proof H2 as (Hpf & L & Hb). pose proof (HOk2_HOk _ H2) as (_ & _ & Ha).
  pose proof E as (E1 & E2 & E3 & E4 & E5 & E6 & E7).
  destruct (Hb _ _ E1) as (Hok & Hfr). destruct (Ha _ _ E2) as (Wac & Pac).
  destruct (withdraw_core_gap _ _ _ _ _ _ _ _ Hamt F Hok Wac (Pac _ _ E1)) as (Hok' & _ & _).
  destruct F as (bk1 & i & bl & bk2 & bl2 & pre & paid & bk3 & Hacc & Hi & Hbl & Hprim & _ & _ & Hcache & -> & ->).
  destruct (accrue_tot _ _ _ _ Hok Hacc) as (T1 & T2 & Hsv1).
  pose proof (fees_rep_accrue _ _ _ _ Hok Hfr Hacc) as Hfr1.
  destruct (slot_located _ bk1 _ (hw_now w) false _ _ _ (find_as_located _ _ _ Hi) Hbl Wac) as (Hact & Hbank & Wbl & _ & _).
  destruct (NAV_cache _ _ _ _ Hcache) as (_ & _ & _ & C1 & C2 & _).
  pose proof (hb_ok_sv _ Hok') as Hsv3. cbn [mk_hb set_hb_b hb_b] in Hsv3.
  pose proof Hok as (_ & _ & _ & _ & Hb1 & Hb2).
  assert (Hx : exists da dl, slot_ok (bank_pk b) bk1 bl bk2 bl2 da dl /\ gp_same bk1 bk2).
  { destruct all.
    - destruct (wall_slot_ok (bank_pk b) _ _ _ _ _ _ Hsv1 Wbl Hact Hbank Hprim) as (da & dl & Hso & _).
      exists da, dl. split; [exact Hso|eapply gp_withdraw_all; eauto].
    - destruct Hprim as (Hpre & Hdec). pose proof (pre_fee_nonneg _ _ _ Hb1 Hb2 Hamt Hpre) as Hp0.
      assert (Hdn : 0 <= of_int pre) by (unfold of_int; pose proof ONE_pos; nia).
      destruct (dec_slot_ok (bank_pk b) _ _ _ _ _ _ _ Hsv1 Wbl Hact Hbank Hdn Hdec) as (da & dl & Hso & _).
      exists da, dl. split; [exact Hso|eapply gp_decrease; eauto]. }
  destruct Hx as (da & dl & Hso & Hgp).
  split; [rewrite E6; exact Hpf|]. split.
  - eapply (eff1_ledger w w' a b hb _ ac _ bk1 false i (ha_la ac) bl bl2 da dl true); [exact L|exact E|exact (find_as_located _ _ _ Hi)|exact Hbl| |reflexivity].
    cbn [mk_hb set_hb_b hb_b]. eapply slot_ok_frame; eauto.
  - eapply banks_ok_set; [exact Hb|exact E3|exact Hok'|].
    cbn [mk_hb set_hb_b hb_b]. eapply fees_rep_gp; [|eapply gp_cache; eauto]. eapply fees_rep_gp; [exact Hfr1|exact Hgp].
Qed.
Lemma withdraw_HOk2 w w' a b amount all hb hb' ac ac' :
  0 <= amount -> HOk2 w -> eff1 w w' a b hb hb' ac ac' -> withdraw_facts w w' a b amount all hb hb' ac ac' -> HOk2 w'.
Proof. intros Hamt H2 E F. eapply withdraw_core_HOk2; [exact Hamt | exact H2 | exact E | eapply withdraw_facts_core; exact F]. Qed.


(* ---------------------------------------------------------------- borrow *)
Lemma borrow_HOk2 w w' a b amount hb hb' ac ac' :
  0 <= amount -> HOk2 w -> eff1 w w' a b hb hb' ac ac' -> borrow_facts w w' a b amount hb hb' ac ac' -> HOk2 w'.
Proof.
  intros Hamt H2 E F. pose proof H2 as (Hpf & L & Hb). pose proof (HOk2_HOk _ H2) as (_ & _ & Ha).
  pose proof E as (E1 & E2 & E3 & E4 & E5 & E6 & E7).
  destruct (Hb _ _ E1) as (Hok & Hfr). destruct (Ha _ _ E2) as (Wac & Pac).
  destruct (borrow_gap _ _ _ _ _ _ _ _ _ Hamt F Hok Hfr Hpf Wac (Pac _ _ E1)) as (Hok' & Hfr' & _ & _).
  destruct F as (bk1 & i & la1 & bl & pre & delta & ofee & bk2 & bl2 & bk4 & bk5 & Hacc & _ & _ & _ & Hloc & Hbl & Hpre & Hof & Hdec & _ & Hbook & Hcache & -> & -> & _).
  destruct (accrue_tot _ _ _ _ Hok Hacc) as (T1 & T2 & Hsv1).
  destruct (slot_located _ _ _ _ true _ _ _ Hloc Hbl Wac) as (Hact & Hbank & Wbl & _ & _).
  pose proof Hok as (_ & _ & _ & _ & Hb1 & Hb2).
  pose proof (pre_fee_nonneg _ _ _ Hb1 Hb2 Hamt Hpre) as Hp0.
  destruct (orig_fee_inv _ _ _ _ Hp0 Hof) as (-> & Ho0).
  assert (Hdn : 0 <= of_int pre + ofee) by (unfold of_int; pose proof ONE_pos; nia).
  destruct (dec_slot_ok (bank_pk b) _ _ _ _ _ _ _ Hsv1 Wbl Hact Hbank Hdn Hdec) as (da & dl & Hso & _).
  pose proof (fees_rep_accrue _ _ _ _ Hok Hfr Hacc) as Hfr1.
  pose proof (fees_rep_gp _ _ Hfr1 (gp_decrease _ _ _ _ _ _ _ Hdec)) as Hfr2.
  destruct (book_orig_fee_inv _ _ _ _ Hpf Ho0 Hfr2 Hbook) as (_ & _ & _ & _ & B1 & B2 & _).
  destruct (NAV_cache _ _ _ _ Hcache) as (_ & _ & _ & C1 & C2 & _).
  pose proof (hb_ok_sv _ Hok') as Hsv3. cbn [mk_hb set_hb_b hb_b] in Hsv3.
  split; [rewrite E6; exact Hpf|]. split.
  - eapply (eff1_ledger w w' a b hb _ ac _ bk1 true i la1 bl bl2 da dl true); [exact L|exact E|exact Hloc|exact Hbl| |reflexivity].
    cbn [mk_hb set_hb_b hb_b]. eapply slot_ok_frame; eauto; congruence.
  - eapply banks_ok_set; [exact Hb|exact E3|exact Hok'|exact Hfr'].
Qed.

(* ---------------------------------------------------------------- repay *)
Lemma repay_HOk2 w w' a b amount all hb hb' ac ac' :
  0 <= amount -> HOk2 w -> eff1 w w' a b hb hb' ac ac' -> repay_facts w a b amount all hb hb' ac ac' -> HOk2 w'.
Proof.
  intros Hamt H2 E F. pose proof H2 as (Hpf & L & Hb). pose proof (HOk2_HOk _ H2) as (_ & _ & Ha).
  pose proof E as (E1 & E2 & E3 & E4 & E5 & E6 & E7).
  destruct (Hb _ _ E1) as (Hok & Hfr). destruct (Ha _ _ E2) as (Wac & Pac).
  destruct (repay_gap _ _ _ _ _ _ _ _ _ Hamt F Hok Wac (Pac _ _ E1)) as (Hok' & _ & _).
  destruct F as (bk1 & i & bl & bk2 & bl2 & post & V' & bk5 & Hacc & _ & Hi & Hbl & Hprim & _ & Hcache & -> & ->).
  destruct (accrue_tot _ _ _ _ Hok Hacc) as (T1 & T2 & Hsv1).
  pose proof (fees_rep_accrue _ _ _ _ Hok Hfr Hacc) as Hfr1.
  destruct (slot_located _ bk1 _ (hw_now w) false _ _ _ (find_as_located _ _ _ Hi) Hbl Wac) as (Hact & Hbank & Wbl & _ & _).
  destruct (NAV_cache _ _ _ _ Hcache) as (_ & _ & _ & C1 & C2 & _).
  pose proof (mark_core bk2) as (_ & _ & _ & M1 & M2 & _). cbv zeta in M1, M2.
  pose proof (hb_ok_sv _ Hok') as Hsv3. cbn [mk_hb set_hb_b hb_b] in Hsv3.
  assert (Hx : exists da dl, slot_ok (bank_pk b) bk1 bl bk2 bl2 da dl /\ gp_same bk1 bk2).
  { destruct all.
    - destruct (rall_slot_ok (bank_pk b) _ _ _ _ _ _ Hsv1 Wbl Hact Hbank Hprim) as (da & dl & Hso & _).
      exists da, dl. split; [exact Hso|eapply gp_repay_all; eauto].
    - destruct Hprim as (_ & Hinc).
      assert (Hdn : 0 <= of_int amount) by (unfold of_int; pose proof ONE_pos; nia).
      destruct (inc_slot_ok (bank_pk b) _ _ _ _ _ _ _ Hsv1 Wbl Hact Hbank Hdn Hinc) as (da & dl & Hso & _).
      exists da, dl. split; [exact Hso|eapply gp_increase; eauto]. }
  destruct Hx as (da & dl & Hso & Hgp).
  split; [rewrite E6; exact Hpf|]. split.
  - eapply (eff1_ledger w w' a b hb _ ac _ bk1 false i (ha_la ac) bl bl2 da dl true); [exact L|exact E|exact (find_as_located _ _ _ Hi)|exact Hbl| |reflexivity].
    cbn [mk_hb set_hb_b hb_b]. eapply slot_ok_frame; eauto; congruence.
  - eapply banks_ok_set; [exact Hb|exact E3|exact Hok'|].
    cbn [mk_hb set_hb_b hb_b]. eapply fees_rep_gp; [|eapply gp_cache; eauto]. eapply fees_rep_gp; [|apply gp_mark].
    eapply fees_rep_gp; [exact Hfr1|exact Hgp].
Qed.

(* ---------------------------------------------------------------- close_balance *)
Lemma close_HOk2 w w' a b hb hb' ac ac' :
  HOk2 w -> eff1 w w' a b hb hb' ac ac' -> close_facts w a b hb hb' ac ac' -> HOk2 w'.
Proof.
  intros H2 E F. pose proof H2 as (Hpf & L & Hb). pose proof (HOk2_HOk _ H2) as (_ & _ & Ha).
  pose proof E as (E1 & E2 & E3 & E4 & E5 & E6 & E7).
  destruct (Hb _ _ E1) as (Hok & Hfr). destruct (Ha _ _ E2) as (Wac & Pac).
  destruct (close_gap _ _ _ _ _ _ _ F Hok Wac (Pac _ _ E1)) as (Hok' & _ & _).
  destruct F as (bk1 & bk2 & i & bl & bk3 & bl3 & Hacc & _ & Hcache & Hi & Hbl & Hcl & -> & ->).
  destruct (accrue_tot _ _ _ _ Hok Hacc) as (T1 & T2 & Hsv1).
  pose proof (fees_rep_accrue _ _ _ _ Hok Hfr Hacc) as Hfr1.
  destruct (slot_located _ bk1 _ (hw_now w) false _ _ _ (find_as_located _ _ _ Hi) Hbl Wac) as (Hact & Hbank & Wbl & _ & _).
  destruct (NAV_cache _ _ _ _ Hcache) as (_ & S1 & S2 & C1 & C2 & _).
  assert (Hsv2 : wf_sv bk2) by (destruct Hsv1; unfold wf_sv; lia).
  destruct (close_slot_ok (bank_pk b) _ _ _ _ _ Hsv2 Wbl Hact Hbank Hcl) as (da & dl & Hso & _).
  pose proof (hb_ok_sv _ Hok') as Hsv3. cbn [set_hb_b hb_b] in Hsv3.
  split; [rewrite E6; exact Hpf|]. split.
  - eapply (eff1_ledger w w' a b hb _ ac _ bk1 false i (ha_la ac) bl bl3 da dl true); [exact L|exact E|exact (find_as_located _ _ _ Hi)|exact Hbl| |reflexivity].
    cbn [set_hb_b hb_b]. eapply slot_ok_frame; eauto; congruence.
  - eapply banks_ok_set; [exact Hb|exact E3|exact Hok'|].
    cbn [set_hb_b hb_b]. eapply fees_rep_gp; [|eapply gp_close_balance; eauto]. eapply fees_rep_gp; [exact Hfr1|eapply gp_cache; eauto].
Qed.

(* ---------------------------------------------------------------- accrue / collect fees *)
Lemma accrue_HOk2 w w' b hb bk1 bk2 :
  HOk2 w -> effb w w' b hb (set_hb_b bk2 hb) ->
  accrue_interest (hb_b hb) (hw_pf w) (hw_now w) = Ok bk1 -> update_bank_cache bk1 (hw_pf w) (hw_now w) = Ok bk2 -> HOk2 w'.
Proof.
  intros H2 E Hacc Hcache. pose proof H2 as (Hpf & L & Hb). pose proof E as (E1 & E3 & E4 & E5 & E6 & E7).
  destruct (Hb _ _ E1) as (Hok & Hfr).
  destruct (accrue_gap _ _ _ _ Hacc Hcache Hok) as (Hok' & _).
  destruct (accrue_tot _ _ _ _ Hok Hacc) as (T1 & T2 & Hsv1).
  destruct (NAV_cache _ _ _ _ Hcache) as (_ & _ & _ & C1 & C2 & _).
  pose proof (hb_ok_sv _ Hok') as Hsv3. cbn [set_hb_b hb_b] in Hsv3.
  split; [rewrite E6; exact Hpf|]. split.
  - eapply (effb_ledger w w' b hb (set_hb_b bk2 hb)); [exact L|exact E|exact Hsv3|cbn [set_hb_b hb_b]; congruence|cbn [set_hb_b hb_b]; congruence].
  - eapply banks_ok_set; [exact Hb|exact E3|exact Hok'|].
    cbn [set_hb_b hb_b]. eapply fees_rep_gp; [exact (fees_rep_accrue _ _ _ _ Hok Hfr Hacc)|exact (gp_cache _ _ _ _ Hcache)].
Qed.

Lemma collect_HOk2 w w' b :
  HOk2 w -> h_collect_fees w b = Ok w' -> HOk2 w'.
Proof.
  intros H2 H. pose proof H2 as (Hpf & L & Hb).
  destruct (h_collect_fees_effect _ _ _ H) as (hb & hb' & E & S1 & S2 & T1 & T2 & V1 & V2 & M & G & P).
  pose proof E as (E1 & E3 & E4 & E5 & E6 & E7). destruct (Hb _ _ E1) as (Hok & Hfr).
  destruct (collect_gap _ _ S1 S2 T1 T2 V1 V2 M Hok) as (Hok' & _).
  split; [rewrite E6; exact Hpf|]. split.
  - eapply (effb_ledger w w' b hb hb'); [exact L|exact E|exact (hb_ok_sv _ Hok')|exact T1|exact T2].
  - eapply banks_ok_set; [exact Hb|exact E3|exact Hok'|split; assumption].
Qed.

(* ---------------------------------------------------------------- bankruptcy *)
Lemma bankruptcy_HOk2 w w' a b hb hb' ac ac' :
  HOk2 w -> eff1 w w' a b hb hb' ac ac' -> bankruptcy_facts w a b hb hb' ac ac' ->
  HOk2 w' \/ b_op_state (hb_b hb') = OP_KILLED.
Proof.
  intros H2 E F. pose proof H2 as (Hpf & L & Hb). pose proof (HOk2_HOk _ H2) as (_ & _ & Ha).
  pose proof E as (E1 & E2 & E3 & E4 & E5 & E6 & E7).
  destruct (Hb _ _ E1) as (Hok & Hfr). destruct (Ha _ _ E2) as (Wac & Pac).
  destruct (bankruptcy_gap _ _ _ _ _ _ _ F Hok Wac (Pac _ _ E1)) as (_ & [(Hok' & _ & Gg & Gp)|Hk]); [|right; exact Hk].
  left.
  destruct F as (ps & A & Lq & bk1 & i & bl & bad & avail_n & covered & loss & ce & cov_n & pre & f & bk2 & kill & bk3 & bl3 & bk4 &
          _ & _ & Hacc & Hi & Hbl & Hbad & Hthr & _ & _ & _ & _ & _ & _ & _ & _ & Hsoc & Hinc & Hcache & -> & ->).
  destruct (accrue_tot _ _ _ _ Hok Hacc) as (T1 & T2 & Hsv1).
  assert (Hfind : wrapper_find (bank_pk b) (ha_la ac) = Ok i) by (unfold wrapper_find; rewrite Hi; reflexivity).
  destruct (slot_located _ bk1 _ (hw_now w) false _ _ _ (find_as_located _ _ _ Hfind) Hbl Wac) as (Hact & Hbank & Wbl & _ & _).
  destruct (hb_ok_tot _ Hok) as (Ta & Tl).
  destruct (socialize_sv _ _ _ _ Hsv1 ltac:(lia) Hsoc) as (Hsv2 & S1 & S2).
  assert (Hthr0 : 0 < ZERO_AMOUNT_THRESHOLD) by reflexivity.
  assert (Hb0 : 0 <= bad) by lia.
  destruct (inc_slot_ok (bank_pk b) _ _ _ _ _ _ _ Hsv2 Wbl Hact Hbank Hb0 Hinc) as (da & dl & Hso & _).
  destruct (NAV_cache _ _ _ _ Hcache) as (_ & _ & _ & C1 & C2 & _).
  pose proof (hb_ok_sv _ Hok') as Hsv3. cbn [set_hb_b hb_b] in Hsv3.
  split; [rewrite E6; exact Hpf|]. split.
  - eapply (eff1_ledger w w' a b hb _ ac _ bk1 false i (ha_la ac) bl bl3 da dl false); [exact L|exact E|exact (find_as_located _ _ _ Hfind)|exact Hbl| |reflexivity].
    cbn [set_hb_b hb_b]. eapply slot_ok_frame; [exact Hso| | | | |exact Hsv3]; try congruence;
      destruct kill; cbn [set_b_op_state b_tas b_tls]; congruence.
  - eapply banks_ok_set; [exact Hb|exact E3|exact Hok'|]. eapply fees_rep_ge; [exact Hfr| |]; lia.
Qed.

(* ---------------------------------------------------------------- liquidation: four legs over two banks and two accounts *)
Lemma set_nth_absorb {A} (l : list A) n m x y z : n <> m ->
  set_nth n x (set_nth m y (set_nth n z l)) = set_nth n x (set_nth m y l).
Proof. intros H. rewrite (set_nth_comm _ m n) by congruence. rewrite set_nth_set_nth. reflexivity. Qed.

Lemma nth_res_set_same {A} (l : list A) n x y : nth_res n l = Ok y -> nth_res n (set_nth n x l) = Ok x.
Proof. intros H. apply nth_res_ok in H. unfold nth_res. rewrite (nth_set_nth_same _ _ _ _ H). reflexivity. Qed.
Lemma nth_res_set_other {A} (l : list A) n m x : n <> m -> nth_res m (set_nth n x l) = nth_res m l.
Proof. intros H. unfold nth_res. rewrite nth_set_nth_other by assumption. reflexivity. Qed.

Lemma liquidate_ledger w w' liqor liqee ab lb amount ha hl ha' hl' ee er ee3 er3 :
  liqor <> liqee -> HOk2 w ->
  nth_bank w ab = Ok ha -> nth_bank w lb = Ok hl -> nth_acct w liqee = Ok ee -> nth_acct w liqor = Ok er ->
  hw_banks w' = set_nth lb hl' (set_nth ab ha' (hw_banks w)) ->
  hw_accts w' = set_nth liqor er3 (set_nth liqee ee3 (hw_accts w)) ->
  hw_now w' = hw_now w -> hw_pf w' = hw_pf w ->
  liquidate_facts w liqor liqee ab lb amount ha hl ha' hl' ee er ee3 er3 ->
  hb_ok ha' -> hb_ok hl' -> HLedger w'.
Proof.
  intros Hd H2 Ea El Eee Eer Eb Eacc En Ep F Hoka' Hokl'.
  pose proof H2 as (Hpf & L0 & Hb). destruct (Hb _ _ Ea) as (Hoka & _). destruct (Hb _ _ El) as (Hokl & _).
  destruct F as (ba1 & bl1 & er0 & q_liq & q_fin & ins_fee & i1 & la1 & b1 & bl2 & b1' & i2 & b2 & ba2 & b2' & i3 & la3 & b3 & ba3 & b3' &
          i4 & b4 & bl3 & b4' & ins_n & f & ba4 & bl5 & F).
  cbv zeta in F.
  destruct F as (Hamt & Hne & _ & Hacca & Haccl & Hr0 & Hif & Hif0 & Hqf0 & Hloc1 & Hb1 & Hdec1 & Hi2 & Hb2 & Hdec2 & Hloc3 & Hb3 & Hinc3 &
                 Hi4 & Hb4 & Hinc4 & Hinsn & Hvle & Hf & Hrange & Hca & Hcl & -> & -> & -> & ->).
  apply usub_inv in Hif as [-> _].
  destruct (accrue_tot _ _ _ _ Hoka Hacca) as (Ta1 & Ta2 & Hsva1).
  destruct (accrue_tot _ _ _ _ Hokl Haccl) as (Tl1 & Tl2 & Hsvl1).
  assert (Hq1 : 0 <= q_liq) by lia.
  assert (Ham0 : 0 <= of_int amount) by (unfold of_int; pose proof ONE_pos; nia).
  set (banks0 := map hb_b (hw_banks w)). set (accts0 := map ha_la (hw_accts w)).
  assert (Mab : nth_res ab banks0 = Ok (hb_b ha)) by (apply nth_res_map; exact Ea).
  assert (Mlb : nth_res lb banks0 = Ok (hb_b hl)) by (apply nth_res_map; exact El).
  assert (Mee : nth_res liqee accts0 = Ok (ha_la ee)) by (apply nth_res_map; exact Eee).
  (* v1: liquidatee sorted *)
  destruct (sort_ledger (bw_of w) liqee _ L0 Mee) as (L1 & _).
  cbn [bw_of bw_banks bw_accts bw_now bw_pf] in L1. fold banks0 accts0 in L1.
  set (S := sort_balances (ha_la ee)) in *.
  set (v1 := mkBW banks0 (set_nth liqee S accts0) (hw_now w) (hw_pf w)) in *.
  assert (Mer0 : nth_res liqor (bw_accts v1) = Ok (ha_la er0)).
  { unfold v1. cbn [bw_accts]. pose proof (nth_res_map ha_la _ _ _ Hr0) as X. rewrite map_set_nth in X. exact X. }
  (* leg 1 *)
  pose proof (Forall_nth_error _ _ _ _ (lg_wf _ L1) (nth_res_ok _ _ _ Mer0)) as Wer0.
  destruct (slot_located _ _ _ _ true _ _ _ Hloc1 Hb1 Wer0) as (A1 & K1 & Wb1 & _ & _).
  destruct (dec_slot_ok (bank_pk lb) _ _ _ _ _ _ _ Hsvl1 Wb1 A1 K1 Hq1 Hdec1) as (da1 & dl1 & Hso1 & _).
  assert (Hso1' : slot_ok (bank_pk lb) (hb_b hl) b1 bl2 b1' da1 dl1).
  { eapply slot_ok_frame; [exact Hso1|exact Tl1|exact Tl2|reflexivity|reflexivity|]. destruct Hso1 as (X & _). exact X. }
  destruct (put_ledger v1 liqor lb _ _ bl1 (hw_now w) true _ _ _ _ _ _ _ L1 Mlb Mer0 Hloc1 Hb1 Hso1') as (L2 & _).
  set (X1 := set_nth i1 b1' la1) in *.
  set (v2 := put v1 liqor lb bl2 X1) in *.
  (* leg 2 *)
  assert (M2ab : nth_res ab (bw_banks v2) = Ok (hb_b ha)).
  { unfold v2, put, v1. cbn [bw_banks]. rewrite nth_res_set_other by congruence. exact Mab. }
  assert (M2ee : nth_res liqee (bw_accts v2) = Ok S).
  { unfold v2, put, v1. cbn [bw_accts]. rewrite nth_res_set_other by assumption. eapply nth_res_set_same; eauto. }
  pose proof (Forall_nth_error _ _ _ _ (lg_wf _ L2) (nth_res_ok _ _ _ M2ee)) as WS.
  cbn [sort_acct ha_la] in Hi2, Hb2. fold S in Hi2, Hb2.
  destruct (slot_located _ ba1 _ (hw_now w) false _ _ _ (find_as_located _ _ _ Hi2) Hb2 WS) as (A2 & K2 & Wb2 & _ & _).
  destruct (dec_slot_ok (bank_pk ab) _ _ _ _ _ _ _ Hsva1 Wb2 A2 K2 Ham0 Hdec2) as (da2 & dl2 & Hso2 & _).
  assert (Hso2' : slot_ok (bank_pk ab) (hb_b ha) b2 ba2 b2' da2 dl2).
  { eapply slot_ok_frame; [exact Hso2|exact Ta1|exact Ta2|reflexivity|reflexivity|]. destruct Hso2 as (X & _). exact X. }
  destruct (put_ledger v2 liqee ab _ _ ba1 (hw_now w) false _ _ _ _ _ _ _ L2 M2ab M2ee (find_as_located _ _ _ Hi2) Hb2 Hso2') as (L3 & _).
  set (Y2 := set_nth i2 b2' S) in *.
  set (v3 := put v2 liqee ab ba2 Y2) in *.
  (* leg 3 *)
  assert (M3ab : nth_res ab (bw_banks v3) = Ok ba2).
  { unfold v3, put. cbn [bw_banks]. eapply nth_res_set_same; eauto. }
  assert (M3er : nth_res liqor (bw_accts v3) = Ok X1).
  { unfold v3, put. cbn [bw_accts]. rewrite nth_res_set_other by congruence.
    unfold v2, put. cbn [bw_accts]. eapply nth_res_set_same; eauto. }
  pose proof (Forall_nth_error _ _ _ _ (lg_wf _ L3) (nth_res_ok _ _ _ M3er)) as WX1.
  cbn [ha_la] in Hloc3. fold X1 in Hloc3.
  destruct (slot_located _ _ _ _ true _ _ _ Hloc3 Hb3 WX1) as (A3 & K3 & Wb3 & _ & _).
  assert (Hsva2 : wf_sv ba2) by (destruct Hso2 as (X & _); exact X).
  destruct (inc_slot_ok (bank_pk ab) _ _ _ _ _ _ _ Hsva2 Wb3 A3 K3 Ham0 Hinc3) as (da3 & dl3 & Hso3 & _).
  destruct (put_ledger v3 liqor ab _ _ ba2 (hw_now w) true _ _ _ _ _ _ _ L3 M3ab M3er Hloc3 Hb3 Hso3) as (L4 & _).
  set (X3 := set_nth i3 b3' la3) in *.
  set (v4 := put v3 liqor ab ba3 X3) in *.
  (* leg 4 *)
  assert (M4lb : nth_res lb (bw_banks v4) = Ok bl2).
  { unfold v4, put. cbn [bw_banks]. rewrite nth_res_set_other by congruence.
    unfold v3, put. cbn [bw_banks]. rewrite nth_res_set_other by congruence.
    unfold v2, put. cbn [bw_banks]. eapply nth_res_set_same; eauto. }
  assert (M4ee : nth_res liqee (bw_accts v4) = Ok Y2).
  { unfold v4, put. cbn [bw_accts]. rewrite nth_res_set_other by assumption.
    unfold v3, put. cbn [bw_accts]. eapply nth_res_set_same; eauto. }
  pose proof (Forall_nth_error _ _ _ _ (lg_wf _ L4) (nth_res_ok _ _ _ M4ee)) as WY2.
  cbn [sort_acct ha_la] in Hi4, Hb4. fold S in Hi4, Hb4. fold Y2 in Hi4, Hb4.
  destruct (slot_located _ bl2 _ (hw_now w) false _ _ _ (find_as_located _ _ _ Hi4) Hb4 WY2) as (A4 & K4 & Wb4 & _ & _).
  assert (Hsvl2 : wf_sv bl2) by (destruct Hso1 as (X & _); exact X).
  destruct (inc_slot_ok (bank_pk lb) _ _ _ _ _ _ _ Hsvl2 Wb4 A4 K4 Hqf0 Hinc4) as (da4 & dl4 & Hso4 & _).
  destruct (put_ledger v4 liqee lb _ _ bl2 (hw_now w) false _ _ _ _ _ _ _ L4 M4lb M4ee (find_as_located _ _ _ Hi4) Hb4 Hso4) as (L5 & _).
  set (Y4 := set_nth i4 b4' Y2) in *.
  set (v5 := put v4 liqee lb bl3 Y4) in *.
  (* bookkeeping on both banks *)
  assert (M5ab : nth_res ab (bw_banks v5) = Ok ba3).
  { unfold v5, put. cbn [bw_banks]. rewrite nth_res_set_other by congruence.
    unfold v4, put. cbn [bw_banks]. eapply nth_res_set_same; eauto. }
  destruct (NAV_cache _ _ _ _ Hca) as (_ & _ & _ & Ca1 & Ca2 & _).
  pose proof (hb_ok_sv _ Hoka') as Sva4. cbn [set_hb_b hb_b] in Sva4.
  destruct (put_bank_ledger v5 ab _ ba4 L5 M5ab Sva4 Ca1 Ca2) as (L6 & _).
  set (v6 := put_bank v5 ab ba4) in *.
  assert (M6lb : nth_res lb (bw_banks v6) = Ok bl3).
  { unfold v6, put_bank. cbn [bw_banks]. rewrite nth_res_set_other by congruence.
    unfold v5, put. cbn [bw_banks]. eapply nth_res_set_same; eauto. }
  destruct (NAV_cache _ _ _ _ Hcl) as (_ & _ & _ & Cl1 & Cl2 & _). cbn [set_b_ins b_tas b_tls] in Cl1, Cl2.
  pose proof (hb_ok_sv _ Hokl') as Svl5. cbn [set_hb_b set_hb_vault set_hb_insv hb_b] in Svl5.
  destruct (put_bank_ledger v6 lb _ bl5 L6 M6lb Svl5 Cl1 Cl2) as (L7 & _).
  set (v7 := put_bank v6 lb bl5) in *.
  (* liquidator sorted *)
  assert (M7er : nth_res liqor (bw_accts v7) = Ok X3).
  { unfold v7, put_bank, v6, put_bank. cbn [bw_accts]. unfold v5, put. cbn [bw_accts]. rewrite nth_res_set_other by congruence.
    unfold v4, put. cbn [bw_accts]. eapply nth_res_set_same; eauto. }
  destruct (sort_ledger v7 liqor _ L7 M7er) as (L8 & _).
  (* the final world *)
  unfold HLedger, bw_of. rewrite Eb, Eacc, En, Ep, !map_set_nth. fold banks0 accts0.
  cbn [set_hb_b set_hb_vault set_hb_insv hb_b sort_acct ha_la]. fold S. fold Y2. fold Y4. fold X1. fold X3.
  match goal with |- Ledger ?W => replace W with
     (mkBW (bw_banks v7) (set_nth liqor (sort_balances X3) (bw_accts v7)) (bw_now v7) (bw_pf v7)); [exact L8|] end.
  unfold v7, put_bank, v6, put_bank, v5, put, v4, put, v3, put, v2, put, v1. cbn [bw_banks bw_accts bw_now bw_pf].
  f_equal.
  - (* banks *)
    rewrite set_nth_set_nth. rewrite (set_nth_absorb _ lb ab) by congruence.
    rewrite set_nth_set_nth. rewrite (set_nth_absorb _ lb ab) by congruence. reflexivity.
  - (* accounts *)
    rewrite (set_nth_absorb _ liqor liqee) by assumption. rewrite set_nth_set_nth.
    rewrite (set_nth_absorb _ liqor liqee) by assumption. rewrite set_nth_set_nth. reflexivity.
Qed.

(* ---------------------------------------------------------------- every instruction keeps the world well-formed *)
(* kept as a name: instructions carry u64 amounts (a liquidator liquidating itself is refused by the handler) *)
Definition hop_ok2 (o : hop) : Prop := hop_ok o.

Lemma Ledger_frame banks accts n p n' p' : Ledger (mkBW banks accts n p) -> Ledger (mkBW banks accts n' p').
Proof. intros [L1 L2 L3]. constructor; assumption. Qed.

Lemma banks_ok_set2 w w' b1 hb1 b2 hb2 :
  (forall k hb, nth_bank w k = Ok hb -> hb_ok hb /\ fees_rep (hb_b hb)) ->
  hw_banks w' = set_nth b2 hb2 (set_nth b1 hb1 (hw_banks w)) ->
  hb_ok hb1 -> fees_rep (hb_b hb1) -> hb_ok hb2 -> fees_rep (hb_b hb2) ->
  forall k hb, nth_bank w' k = Ok hb -> hb_ok hb /\ fees_rep (hb_b hb).
Proof.
  intros Hb E O1 F1 O2 F2.
  set (wm := mkHW (set_nth b1 hb1 (hw_banks w)) (hw_accts w) (hw_now w) (hw_pf w) (hw_utok w) (hw_risk_admin_signs w)).
  assert (Hm : forall k hb, nth_bank wm k = Ok hb -> hb_ok hb /\ fees_rep (hb_b hb)).
  { eapply (banks_ok_set w wm b1 hb1); [exact Hb|reflexivity|exact O1|exact F1]. }
  eapply (banks_ok_set wm w' b2 hb2); [exact Hm|exact E|exact O2|exact F2].
Qed.

Theorem hstep_HOk2 w o w' :
  HOk2 w -> hop_ok2 o -> hstep w o = Ok w' ->
  HOk2 w' \/ exists a b hb', o = HBankruptcy a b /\ nth_bank w' b = Ok hb' /\ b_op_state (hb_b hb') = OP_KILLED.
Proof.
  intros H2 Hop H. pose proof H2 as (Hpf & L & Hb).
  destruct o; cbn [hstep hop_ok] in *.
  - (* clock *) apply Ok_inj in H. subst w'. left. split; [exact Hpf|]. split; [|exact Hb].
    unfold HLedger, bw_of in *. cbn [hw_banks hw_accts hw_now hw_pf]. eapply Ledger_frame; eauto.
  - destruct (h_deposit_effect _ _ _ _ _ _ Hop H) as (hb0 & hb0' & ac & ac' & E & F). left. eapply deposit_HOk2; eauto.
  - destruct (h_withdraw_effect _ _ _ _ _ _ H) as (hb0 & hb0' & ac & ac' & E & F). left. eapply withdraw_HOk2; eauto.
  - destruct (h_borrow_effect _ _ _ _ _ H) as (hb0 & hb0' & ac & ac' & E & F). left. eapply borrow_HOk2; eauto.
  - destruct (h_repay_effect _ _ _ _ _ _ H) as (hb0 & hb0' & ac & ac' & E & F). left. eapply repay_HOk2; eauto.
  - destruct (h_close_balance_effect _ _ _ _ H) as (hb0 & hb0' & ac & ac' & E & F). left. eapply close_HOk2; eauto.
  - destruct (h_accrue_effect _ _ _ H) as (hb0 & bk1 & bk2 & E & Hacc & Hcache). left. eapply accrue_HOk2; eauto.
  - left. eapply collect_HOk2; eauto.
  - (* liquidate *)
    left.
    destruct (h_liquidate_effect _ _ _ _ _ _ _ H) as (ha & hl & ha' & hl' & ee & er & ee3 & er3 & Ea & El & Eee & Eer & Eb & Eacc & En & Ep & Er & F).
    pose proof (liquidate_facts_ne _ _ _ _ _ _ _ _ _ _ _ _ _ _ F) as Hne.
    pose proof (liquidate_facts_distinct _ _ _ _ _ _ _ _ _ _ _ _ _ _ F) as Hop2.
    pose proof (HOk2_HOk _ H2) as (_ & _ & Haccts).
    destruct (Hb _ _ Ea) as (Hoka & Hfra). destruct (Hb _ _ El) as (Hokl & Hfrl).
    destruct (Haccts _ _ Eee) as (Wee & Pee).
    assert (Her0 : forall ac, nth_res liqor (set_nth liqee (sort_acct ee) (hw_accts w)) = Ok ac ->
              Forall wf_bal (ha_la ac) /\ pos_le (hb_b ha) (bank_pk ab) (ha_la ac) /\ pos_le (hb_b hl) (bank_pk lb) (ha_la ac)).
    { intros ac Hac. unfold nth_res in Hac. rewrite nth_set_nth_other in Hac by congruence.
      assert (Hac' : nth_acct w liqor = Ok ac) by exact Hac.
      destruct (Haccts _ _ Hac') as (W & P). split; [exact W|]. split; [exact (P _ _ Ea)|exact (P _ _ El)]. }
    destruct (liquidate_gap _ _ _ _ _ _ _ _ _ _ _ _ _ _ F Hoka Hokl Her0 Wee (Pee _ _ Ea) (Pee _ _ El)) as (Hoka' & Hokl' & _).
    split; [rewrite Ep; exact Hpf|]. split.
    + exact (liquidate_ledger w w' liqor liqee ab lb amount ha hl ha' hl' ee er ee3 er3 Hop2 H2 Ea El Eee Eer Eb Eacc En Ep F Hoka' Hokl').
    + destruct F as (ba1 & bl1 & er0 & q_liq & q_fin & ins_fee & i1 & la1 & b1 & bl2 & b1' & i2 & b2 & ba2 & b2' & i3 & la3 & b3 & ba3 & b3' &
          i4 & b4 & bl3 & b4' & ins_n & f & ba4 & bl5 & F).
      cbv zeta in F.
      destruct F as (_ & _ & _ & Hacca & Haccl & _ & _ & _ & _ & _ & _ & Hdec1 & _ & _ & Hdec2 & _ & _ & Hinc3 &
                 _ & _ & Hinc4 & _ & _ & _ & _ & Hca & Hcl & -> & -> & _ & _).
      eapply banks_ok_set2; [exact Hb|exact Eb|exact Hoka'| |exact Hokl'|].
      * cbn [set_hb_b hb_b]. eapply fees_rep_gp; [|exact (gp_cache _ _ _ _ Hca)].
        eapply fees_rep_gp; [|exact (gp_increase _ _ _ _ _ _ _ Hinc3)].
        eapply fees_rep_gp; [|exact (gp_decrease _ _ _ _ _ _ _ Hdec2)]. exact (fees_rep_accrue _ _ _ _ Hoka Hfra Hacca).
      * cbn [set_hb_b set_hb_vault set_hb_insv hb_b]. eapply fees_rep_gp; [|exact (gp_cache _ _ _ _ Hcl)].
        eapply fees_rep_gp; [|apply gp_set_ins].
        eapply fees_rep_gp; [|exact (gp_increase _ _ _ _ _ _ _ Hinc4)].
        eapply fees_rep_gp; [|exact (gp_decrease _ _ _ _ _ _ _ Hdec1)]. exact (fees_rep_accrue _ _ _ _ Hokl Hfrl Haccl).
  - (* bankruptcy *)
    destruct (h_bankruptcy_effect _ _ _ _ H) as (hb0 & hb0' & ac & ac' & E & F).
    destruct (bankruptcy_HOk2 _ _ _ _ _ _ _ _ H2 E F) as [G|G]; [left; exact G|].
    right. exists a, b, hb0'. split; [reflexivity|]. split; [|exact G].
    destruct E as (E1 & _ & E3 & _). eapply nth_bank_of_eq; eauto.
  - (* set price *)
    left. apply bind_ok in H as (hb0 & Hb0 & H). apply Ok_inj in H. subst w'.
    split; [exact Hpf|]. split.
    + unfold HLedger, bw_of, put_hbank. cbn [hw_banks hw_accts hw_now hw_pf]. rewrite map_set_nth. cbn [hb_b].
      rewrite set_nth_same_id; [exact L|]. rewrite nth_error_map. apply nth_res_ok in Hb0. unfold nth_bank in Hb0. rewrite Hb0. reflexivity.
    + destruct (Hb _ _ Hb0) as (O0 & F0).
      eapply (banks_ok_set w _ b); [exact Hb|reflexivity| |exact F0].
      exact O0.
Qed.

(* ---------------------------------------------------------------- histories *)
Definition no_kill (w : hworld) : Prop := forall b hb, nth_bank w b = Ok hb -> b_op_state (hb_b hb) <> OP_KILLED.

(* no instruction of the history wipes a bank out (the property's second sanctioned exception) *)
Fixpoint run_no_wipeout (w : hworld) (ops : list hop) : Prop :=
  match ops with
  | [] => True
  | o :: r => (forall w', hstep w o = Ok w' -> no_kill w') /\ run_no_wipeout (hstep_total w o) r
  end.

Lemma hop_ok2_hop_ok o : hop_ok2 o -> hop_ok o.
Proof. intros H. exact H. Qed.

Theorem hrun_keeps_HOk2 ops : forall w, HOk2 w -> Forall hop_ok2 ops -> run_no_wipeout w ops ->
  HOk2 (hrun w ops) /\ run_ok w ops.
Proof.
  induction ops as [|o r IH]; intros w H2 Hops Hnw; cbn [hrun fold_left run_ok].
  - split; [exact H2|]. split; [apply HOk2_HOk; exact H2|exact I].
  - inversion Hops as [|? ? Ho Hr]; subst. destruct Hnw as (Hnk & Hnw).
    assert (Hnext : HOk2 (hstep_total w o)).
    { unfold hstep_total. destruct (hstep w o) as [w'|e] eqn:E; [|exact H2].
      destruct (hstep_HOk2 _ _ _ H2 Ho E) as [G|(a & b & hb' & _ & Hb' & Hk)]; [exact G|].
      exfalso. exact (Hnk _ eq_refl _ _ Hb' Hk). }
    destruct (IH _ Hnext Hr Hnw) as (G1 & G2).
    split; [exact G1|]. split; [apply HOk2_HOk; exact H2|]. split; [apply hop_ok2_hop_ok; exact Ho|exact G2].
Qed.

Theorem hrun_gap_full ops w b hb :
  HOk2 w -> Forall hop_ok2 ops -> run_no_wipeout w ops -> nth_bank w b = Ok hb ->
  exists hb', nth_bank (hrun w ops) b = Ok hb' /\ (gap hb - run_slack w ops b <= gap hb' \/ run_exception w ops b).
Proof.
  intros H2 Hops Hnw Hb. destruct (hrun_keeps_HOk2 _ _ H2 Hops Hnw) as (_ & Hrun).
  exact (hrun_gap ops w b hb Hrun Hb).
Qed.

(* the instruction-level ledger invariant, spelled out *)
Theorem hrun_ledger ops w :
  HOk2 w -> Forall hop_ok2 ops -> run_no_wipeout w ops ->
  forall b hb, nth_bank (hrun w ops) b = Ok hb ->
  wsum (ca (bank_pk b)) (map ha_la (hw_accts (hrun w ops))) <= b_tas (hb_b hb) /\
  wsum (cl (bank_pk b)) (map ha_la (hw_accts (hrun w ops))) <= b_tls (hb_b hb).
Proof.
  intros H2 Hops Hnw b hb Hb. destruct (hrun_keeps_HOk2 _ _ H2 Hops Hnw) as ((_ & L & _) & _).
  apply (lg_tot _ L b (hb_b hb)). unfold bank_of, bw_of. cbn [bw_banks]. rewrite nth_error_map.
  apply nth_res_ok in Hb. unfold nth_bank in Hb. rewrite Hb. reflexivity.
Qed.
