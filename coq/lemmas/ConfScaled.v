(* ConfScaled.v — C20: the exchange-rate adjustment of a Pyth feed scales the confidence with the SAME rate as the
   price (both are floored products with one ratio), so the adjusted interval never shrinks relative to the price:
   the low-biased price price - 2.12 conf that values collateral never exceeds (price - 2.12 conf) x rate. *)
Require Import Base Constants XrateConsts Fixed Xrate FixedLemmas XrateLemmas.
From Coq Require Import ZifyBool.
Local Open Scope Z_scope.

(* the relation between one (price, confidence) pair before and after the adjustment *)
Definition conf_scaled (p c p' c' : Z) : Prop := c' * p - c * p' > - p.

Lemma floor_pair_scaled p c r q : 0 < q -> 0 < p -> 0 <= c ->
  conf_scaled p c (p * r / q) (c * r / q).
Proof.
  intros Hq Hp Hc. unfold conf_scaled.
  pose proof (div_mul_floor (p * r) q Hq) as H1.
  pose proof (div_mul_floor_lt (c * r) q Hq) as H2.
  assert (H3 : c * (p * r / q * q) <= c * (p * r)) by (apply Z.mul_le_mono_nonneg_l; lia).
  assert (H4 : p * (c * r) < p * ((c * r / q + 1) * q)) by (apply Z.mul_lt_mono_pos_l; lia).
  assert (H5 : (c * r / q * p - c * (p * r / q)) * q > - p * q) by nia.
  nia.
Qed.

Lemma conf_scaled_refl p c : 0 < p -> conf_scaled p c p c.
Proof. unfold conf_scaled. intros; lia. Qed.

(* Kamino / Solend arms (any scaled supplies) *)
Lemma ratio_adjust_pyth_conf_scaled ss f f' :
  ratio_adjust_pyth ss f = Ok f' ->
  (0 < py_price f -> 0 <= py_conf f -> conf_scaled (py_price f) (py_conf f) (py_price f') (py_conf f')) /\
  (0 < py_ema f -> 0 <= py_ema_conf f -> conf_scaled (py_ema f) (py_ema_conf f) (py_ema f') (py_ema_conf f')).
Proof.
  intros H. unfold ratio_adjust_pyth in H.
  apply xbind_inv in H as ([tl tc] & _ & H).
  destruct (tc >? 0).
  - apply xbind_inv in H as (r & _ & H).
    apply xbind_inv in H as (p & Hp & H). apply ok_or_inv in Hp.
    apply xbind_inv in H as (e1 & He & H). apply ok_or_inv in He.
    apply xbind_inv in H as (c & Hc & H). apply ok_or_inv in Hc.
    apply xbind_inv in H as (ec & Hec & H). apply ok_or_inv in Hec.
    apply Ok_inj in H. subst f'. cbn [py_price py_ema py_conf py_ema_conf].
    rewrite (adjust_exact _ _ _ _ in_adj_i64 Hp), (adjust_exact _ _ _ _ in_adj_i64 He),
            (adjust_exact _ _ _ _ in_adj_u64 Hc), (adjust_exact _ _ _ _ in_adj_u64 Hec).
    split; intros; apply floor_pair_scaled; auto using ONE_pos.
  - apply Ok_inj in H. subst f'. split; intros; apply conf_scaled_refl; assumption.
Qed.

Lemma kamino_pyth_conf_scaled r slot f f' : kamino_pyth r slot f = Ok f' ->
  (0 < py_price f -> 0 <= py_conf f -> conf_scaled (py_price f) (py_conf f) (py_price f') (py_conf f')) /\
  (0 < py_ema f -> 0 <= py_ema_conf f -> conf_scaled (py_ema f) (py_ema_conf f) (py_ema f') (py_ema_conf f')).
Proof.
  unfold kamino_pyth. destruct (k_is_stale r slot); [discriminate|]. apply ratio_adjust_pyth_conf_scaled.
Qed.

Lemma solend_pyth_conf_scaled r slot f f' : solend_pyth r slot f = Ok f' ->
  (0 < py_price f -> 0 <= py_conf f -> conf_scaled (py_price f) (py_conf f) (py_price f') (py_conf f')) /\
  (0 < py_ema f -> 0 <= py_ema_conf f -> conf_scaled (py_ema f) (py_ema_conf f) (py_ema f') (py_ema_conf f')).
Proof.
  unfold solend_pyth. destruct (s_is_stale r slot); [discriminate|]. apply ratio_adjust_pyth_conf_scaled.
Qed.

Lemma drift_pyth_conf_scaled m now f f' : drift_pyth m now f = Ok f' ->
  (0 < py_price f -> 0 <= py_conf f -> conf_scaled (py_price f) (py_conf f) (py_price f') (py_conf f')) /\
  (0 < py_ema f -> 0 <= py_ema_conf f -> conf_scaled (py_ema f) (py_ema_conf f) (py_ema f') (py_ema_conf f')).
Proof.
  unfold drift_pyth. destruct (d_is_stale m now); [discriminate|]. intros H.
  apply xbind_inv in H as (p & Hp & H). apply xbind_inv in H as (e1 & He & H).
  apply xbind_inv in H as (c & Hc & H). apply xbind_inv in H as (ec & Hec & H).
  apply Ok_inj in H. subst f'. cbn [py_price py_ema py_conf py_ema_conf].
  destruct (d_adjust_exact _ _ _ _ in_dadj_i64 Hp) as [-> _].
  destruct (d_adjust_exact _ _ _ _ in_dadj_i64 He) as [-> _].
  destruct (d_adjust_exact _ _ _ _ in_dadj_u64 Hc) as [-> _].
  destruct (d_adjust_exact _ _ _ _ in_dadj_u64 Hec) as [-> _].
  assert (0 < 10 ^ 10) by lia.
  split; intros; apply floor_pair_scaled; assumption.
Qed.
