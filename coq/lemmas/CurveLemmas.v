(* CurveLemmas.v — C18: the seven-point curve is total, bounded, monotone and interpolating for
   every configuration accepted by validate_seven_point. *)
Require Import Base Constants Fixed Curve FixedLemmas.
From Coq Require Import ZifyBool.
Local Open Scope Z_scope.

(* exact values of the u32 -> I80F48 conversions *)
Definition Uf (u : Z) : Z := u * ONE / U32_MAXZ.
Definition Rf (r : Z) : Z := (r * ONE / U32_MAXZ) * 10.

Ltac consts := rewrite ?ONE_val, ?U32_MAXZ_val, ?I128_MAX_val, ?I128_MIN_val in *.

Lemma Uf_range u : 0 <= u <= U32_MAXZ -> 0 <= Uf u <= ONE.
Proof. intros; unfold Uf; consts; split; [apply Z.div_pos; lia | apply Z.div_le_upper_bound; lia]. Qed.
Lemma Uf_pos u : 0 < u -> 0 < Uf u.
Proof. intros; unfold Uf; consts.
  assert (1 <= u * 281474976710656 / 4294967295) by (apply Z.div_le_lower_bound; lia). lia. Qed.
Lemma Uf_strict u v : 0 <= u -> u < v -> Uf u < Uf v.
Proof.
  intros; unfold Uf; consts.
  pose proof (Z.div_mod (u * 281474976710656) 4294967295 ltac:(lia)).
  pose proof (Z.mod_pos_bound (u * 281474976710656) 4294967295 ltac:(lia)).
  assert (u * 281474976710656 / 4294967295 + 1 <= v * 281474976710656 / 4294967295)
    by (apply Z.div_le_lower_bound; lia). lia.
Qed.
Lemma Uf_max : Uf U32_MAXZ = ONE.
Proof. reflexivity. Qed.
Lemma Rf_range r : 0 <= r <= U32_MAXZ -> 0 <= Rf r <= 10 * ONE.
Proof. intros; unfold Rf; consts.
  assert (0 <= r * 281474976710656 / 4294967295 <= 281474976710656)
    by (split; [apply Z.div_pos; lia | apply Z.div_le_upper_bound; lia]). lia. Qed.
Lemma Rf_mono r s : r <= s -> Rf r <= Rf s.
Proof. intros; unfold Rf; consts.
  assert (r * 281474976710656 / 4294967295 <= s * 281474976710656 / 4294967295)
    by (apply Z.div_le_mono; lia). lia. Qed.

Lemma util_from_u32_eq u : 0 <= u <= U32_MAXZ -> util_from_u32 u = Ok (Uf u).
Proof.
  intros H. unfold util_from_u32, of_int.
  assert (E : u * ONE * ONE / (U32_MAXZ * ONE) = Uf u).
  { unfold Uf. apply Z.div_mul_cancel_r; consts; lia. }
  rewrite wdiv_ok; [rewrite E; reflexivity | consts; lia | consts; lia |].
  rewrite E. pose proof (Uf_range u H). consts; lia.
Qed.

Lemma rate_from_u32_eq r : 0 <= r <= U32_MAXZ -> rate_from_u32 r = Ok (Rf r).
Proof.
  intros H. unfold rate_from_u32, of_int.
  assert (E : r * ONE * ONE / (U32_MAXZ * ONE) = r * ONE / U32_MAXZ).
  { apply Z.div_mul_cancel_r; consts; lia. }
  assert (Hq : 0 <= r * ONE / U32_MAXZ <= ONE) by (apply (Uf_range r H)).
  rewrite wdiv_ok; [| consts; lia | consts; lia | rewrite E; consts; lia].
  rewrite E. cbn [bind]. unfold wmul, mul_raw, Rf. f_equal.
  replace (r * ONE / U32_MAXZ * (10 * ONE)) with (r * ONE / U32_MAXZ * 10 * ONE) by ring.
  rewrite Z.div_mul by (consts; lia). apply wrap128_id. consts; lia.
Qed.

(* ---------------------------------------------------------------- lerp *)
Definition lerp_val (sx sy ex ey tx : Z) : Z :=
  sy + (ey - sy) * ((tx - sx) * ONE / (ex - sx)) / ONE.

Lemma lerp_eq sx sy ex ey tx :
  0 <= sx -> sx < ex -> ex <= ONE -> sx <= tx <= ex -> 0 <= sy <= ey -> ey <= 10 * ONE ->
  lerp sx sy ex ey tx = Ok (lerp_val sx sy ex ey tx).
Proof.
  intros H0 H1 H2 H3 H4 H5. unfold lerp, lerp_val.
  replace (ex <=? sx) with false by lia. replace (tx <? sx) with false by lia.
  replace (ex <? tx) with false by lia. replace (ey <? sy) with false by lia.
  rewrite usub_ok by (consts; lia). cbn [bind].
  replace (ex - sx =? 0) with false by lia.
  rewrite usub_ok by (consts; lia). cbn [bind].
  pose proof (div_frac_le (tx - sx) (ex - sx) ONE ltac:(lia) ltac:(consts; lia) ltac:(lia)) as Hp.
  rewrite wdiv_ok by (consts; lia). cbn [bind].
  rewrite usub_ok by (consts; lia). cbn [bind].
  pose proof (mul_div_le (ey - sy) ((tx - sx) * ONE / (ex - sx)) ONE ONE_pos ltac:(lia) Hp) as Hs.
  rewrite cmul_ok by (consts; lia). cbn [bind].
  rewrite uadd_ok by (consts; lia). reflexivity.
Qed.

Lemma lerp_val_bounds sx sy ex ey tx :
  sx < ex -> sx <= tx <= ex -> sy <= ey -> sy <= lerp_val sx sy ex ey tx <= ey.
Proof.
  intros H1 H3 H4. unfold lerp_val.
  pose proof (div_frac_le (tx - sx) (ex - sx) ONE ltac:(lia) ltac:(consts; lia) ltac:(lia)) as Hp.
  pose proof (mul_div_le (ey - sy) ((tx - sx) * ONE / (ex - sx)) ONE ONE_pos ltac:(lia) Hp). lia.
Qed.

Lemma lerp_val_mono sx sy ex ey t1 t2 :
  sx < ex -> sy <= ey -> t1 <= t2 -> lerp_val sx sy ex ey t1 <= lerp_val sx sy ex ey t2.
Proof.
  intros H1 H4 Ht. unfold lerp_val.
  pose proof (div_frac_mono (t1 - sx) (t2 - sx) (ex - sx) ONE ltac:(lia) ltac:(consts; lia) ltac:(lia)).
  pose proof (mul_div_mono (ey - sy) _ _ ONE ONE_pos ltac:(lia) H). lia.
Qed.

Lemma lerp_val_end sx sy ex ey : sx < ex -> lerp_val sx sy ex ey ex = ey.
Proof.
  intros H. unfold lerp_val.
  replace ((ex - sx) * ONE / (ex - sx)) with ONE by (rewrite Z.mul_comm, Z.div_mul; lia).
  rewrite Z.div_mul by (consts; lia). lia.
Qed.

Lemma lerp_val_start sx sy ex ey : sx < ex -> lerp_val sx sy ex ey sx = sy.
Proof.
  intros H. unfold lerp_val. rewrite Z.sub_diag, Z.mul_0_l, Z.div_0_l by lia.
  rewrite Z.mul_0_r, Z.div_0_l by (consts; lia). lia.
Qed.

(* ---------------------------------------------------------------- abstract segment walk *)
(* converted points (util, rate) as fixed-point numbers *)
Fixpoint seg (cpts : list (Z * Z)) (pu pr ur hr : Z) : res Z :=
  match cpts with
  | [] => lerp pu pr ONE hr ur
  | (u, r) :: rest => if ur <=? u then lerp pu pr u r ur else seg rest u r ur hr
  end.

Fixpoint chain (pu pr : Z) (cpts : list (Z * Z)) (hr : Z) : Prop :=
  match cpts with
  | [] => pu <= ONE /\ pr <= hr
  | (u, r) :: rest => pu < u /\ u <= ONE /\ pr <= r /\ chain u r rest hr
  end.

Lemma chain_hr pu pr cpts hr : chain pu pr cpts hr -> pr <= hr.
Proof.
  revert pu pr; induction cpts as [|[u r] rest IH]; cbn; intros pu pr H; [lia|].
  destruct H as (_ & _ & Hr & Hc). specialize (IH _ _ Hc). lia.
Qed.

Lemma seg_ok cpts : forall pu pr ur hr,
  chain pu pr cpts hr -> 0 <= pu <= ur -> ur <= ONE -> 0 <= pr -> hr <= 10 * ONE ->
  exists v, seg cpts pu pr ur hr = Ok v /\ pr <= v <= hr.
Proof.
  induction cpts as [|[u r] rest IH]; cbn [seg chain]; intros pu pr ur hr Hc Hu H1 Hpr Hhr.
  - destruct Hc as [Hc1 Hc2].
    destruct (Z.eq_dec pu ONE) as [->|Hne].
    + unfold lerp. replace (ONE <=? ONE) with true by lia. exists pr; split; [reflexivity | lia].
    + rewrite lerp_eq by lia. eexists; split; [reflexivity|].
      pose proof (lerp_val_bounds pu pr ONE hr ur ltac:(lia) ltac:(lia) Hc2). lia.
  - destruct Hc as (Hc1 & Hc2 & Hc3 & Hc4). pose proof (chain_hr _ _ _ _ Hc4) as Hrh.
    destruct (ur <=? u) eqn:E.
    + rewrite lerp_eq by lia. eexists; split; [reflexivity|].
      pose proof (lerp_val_bounds pu pr u r ur ltac:(lia) ltac:(lia) Hc3). lia.
    + destruct (IH u r ur hr Hc4 ltac:(lia) H1 ltac:(lia) Hhr) as (v & Hv & Hb).
      exists v; split; [assumption | lia].
Qed.

Lemma seg_mono cpts : forall pu pr u1 u2 hr v1 v2,
  chain pu pr cpts hr -> 0 <= pu <= u1 -> u1 <= u2 -> u2 <= ONE -> 0 <= pr -> hr <= 10 * ONE ->
  seg cpts pu pr u1 hr = Ok v1 -> seg cpts pu pr u2 hr = Ok v2 -> v1 <= v2.
Proof.
  induction cpts as [|[u r] rest IH]; cbn [seg chain]; intros pu pr u1 u2 hr v1 v2 Hc Hu H12 H2 Hpr Hhr E1 E2.
  - destruct Hc as [Hc1 Hc2].
    destruct (Z.eq_dec pu ONE) as [->|Hne].
    + unfold lerp in *. replace (ONE <=? ONE) with true in * by lia. inversion E1; inversion E2; lia.
    + rewrite lerp_eq in E1, E2 by lia. inversion E1; inversion E2; subst.
      apply lerp_val_mono; lia.
  - destruct Hc as (Hc1 & Hc2 & Hc3 & Hc4). pose proof (chain_hr _ _ _ _ Hc4) as Hrh.
    destruct (u1 <=? u) eqn:F1; destruct (u2 <=? u) eqn:F2; try lia.
    + rewrite lerp_eq in E1, E2 by lia. inversion E1; inversion E2; subst. apply lerp_val_mono; lia.
    + rewrite lerp_eq in E1 by lia. inversion E1; subst.
      pose proof (lerp_val_bounds pu pr u r u1 ltac:(lia) ltac:(lia) Hc3).
      destruct (seg_ok rest u r u2 hr Hc4 ltac:(lia) H2 ltac:(lia) Hhr) as (v & Hv & Hb).
      rewrite Hv in E2; inversion E2; subst. lia.
    + eapply (IH u r u1 u2 hr); eauto; lia.
Qed.

Lemma chain_lt cpts : forall pu pr hr u r, chain pu pr cpts hr -> In (u, r) cpts -> pu < u.
Proof.
  induction cpts as [|[a b] rest IH]; cbn [chain In]; intros pu pr hr u r Hc Hin; [tauto|].
  destruct Hc as (? & ? & ? & Hc5). destruct Hin as [Heq|Hin]; [inversion Heq; subst; lia|].
  specialize (IH _ _ _ _ _ Hc5 Hin). lia.
Qed.

Lemma seg_hits cpts : forall pu pr hr u r,
  chain pu pr cpts hr -> 0 <= pu -> 0 <= pr -> hr <= 10 * ONE ->
  In (u, r) cpts -> seg cpts pu pr u hr = Ok r.
Proof.
  induction cpts as [|[u0 r0] rest IH]; cbn [seg chain In]; intros pu pr hr u r Hc Hpu Hpr Hhr Hin; [tauto|].
  destruct Hc as (Hc1 & Hc2 & Hc3 & Hc4). pose proof (chain_hr _ _ _ _ Hc4) as Hrh.
  destruct Hin as [Heq | Hin].
  - inversion Heq; subst. replace (u <=? u) with true by lia.
    rewrite lerp_eq by lia. f_equal. apply lerp_val_end; lia.
  - assert (Hlt : u0 < u) by (eapply chain_lt; eauto).
    replace (u <=? u0) with false by lia. apply IH; auto; lia.
Qed.

Lemma seg_at_zero cpts pr hr : chain 0 pr cpts hr -> 0 <= pr -> hr <= 10 * ONE -> seg cpts 0 pr 0 hr = Ok pr.
Proof.
  destruct cpts as [|[u r] rest]; cbn [seg chain]; intros Hc Hpr Hhr.
  - destruct Hc. rewrite lerp_eq by (consts; lia). f_equal. apply lerp_val_start. consts; lia.
  - destruct Hc as (? & ? & ? & Hc4). pose proof (chain_hr _ _ _ _ Hc4). replace (0 <=? u) with true by lia.
    rewrite lerp_eq by lia. f_equal. apply lerp_val_start; lia.
Qed.

(* value at utilisation 1.0: the hundred rate unless a point sits exactly at 1.0 *)
Lemma seg_at_one cpts : forall pu pr hr,
  chain pu pr cpts hr -> 0 <= pu < ONE -> 0 <= pr -> hr <= 10 * ONE ->
  (forall u r, In (u, r) cpts -> u < ONE) -> seg cpts pu pr ONE hr = Ok hr.
Proof.
  induction cpts as [|[u r] rest IH]; cbn [seg chain]; intros pu pr hr Hc Hpu Hpr Hhr Hall.
  - destruct Hc. rewrite lerp_eq by lia. f_equal. apply lerp_val_end; lia.
  - destruct Hc as (? & ? & ? & Hc4). pose proof (Hall u r (or_introl eq_refl)).
    replace (ONE <=? u) with false by lia. apply IH; auto; try lia.
    intros; eapply Hall; right; eauto.
Qed.

(* ---------------------------------------------------------------- from validation to chain *)
Definition used_of (pts : list rate_point) := filter (fun p => negb (rp_util p =? 0)) pts.
Definition conv (used : list rate_point) : list (Z * Z) := map (fun p => (Uf (rp_util p), Rf (rp_rate p))) used.
Definition pt_ok (p : rate_point) := 0 <= rp_util p <= U32_MAXZ /\ 0 <= rp_rate p <= U32_MAXZ.

Lemma mpc_loop_seg pts : forall pu pr ur hr,
  Forall pt_ok pts -> mpc_loop pts pu pr ur hr = seg (conv (used_of pts)) pu pr ur hr.
Proof.
  induction pts as [|p rest IH]; intros pu pr ur hr Hf; cbn [mpc_loop used_of filter conv map seg]; [reflexivity|].
  inversion Hf as [|? ? [Hu Hr] Hf']; subst.
  destruct (rp_util p =? 0) eqn:E; cbn [negb].
  - apply IH; assumption.
  - cbn [conv map seg]. rewrite util_from_u32_eq, rate_from_u32_eq by assumption. cbn [bind].
    destruct (ur <=? Uf (rp_util p)); [reflexivity|]. apply IH; assumption.
Qed.

Lemma collect_used_spec pts : forall sp used,
  collect_used pts sp = Ok used -> used = used_of pts.
Proof.
  induction pts as [|p rest IH]; cbn [collect_used used_of filter]; intros sp used H.
  - inversion H; reflexivity.
  - destruct (rp_util p =? 0) eqn:E; cbn [negb].
    + destruct (negb (rp_rate p =? 0)); [discriminate|]. eapply IH; eauto.
    + destruct sp; [discriminate|].
      destruct (collect_used rest false) as [u|e] eqn:F; cbn [bind] in H; [|discriminate].
      inversion H; subst. f_equal. eapply IH; eauto.
Qed.

(* sortedness facts extracted from check_ascending + the forallb bound *)
Fixpoint asc (l : list rate_point) : Prop :=
  match l with
  | a :: ((b :: _) as tl) => rp_util a < rp_util b /\ rp_rate a <= rp_rate b /\ asc tl
  | _ => True
  end.

Lemma check_ascending_spec l : check_ascending l = Ok tt -> asc l.
Proof.
  induction l as [|a [|b tl] IH]; cbn [check_ascending asc]; intros H; auto.
  destruct (rp_util b <=? rp_util a) eqn:E1; [discriminate|].
  destruct (rp_rate b <? rp_rate a) eqn:E2; [discriminate|].
  repeat split; try lia. apply IH; assumption.
Qed.

Lemma chain_of_asc used : forall pu pr zr hr,
  asc used -> Forall pt_ok used ->
  Forall (fun p => 0 < rp_util p /\ zr <= rp_rate p <= hr) used ->
  (match used with [] => True | p :: _ => pu < Uf (rp_util p) /\ pr <= Rf (rp_rate p) end) ->
  pu <= ONE -> pr <= Rf hr ->
  chain pu pr (conv used) (Rf hr).
Proof.
  induction used as [|a tl IH]; cbn [conv map chain]; intros pu pr zr hr Hasc Hok Hb Hhd Hpu Hpr; [lia|].
  inversion Hok as [|? ? [Hau Har] Hok']; subst. inversion Hb as [|? ? [Ha0 Hab] Hb']; subst.
  destruct Hhd as [Hh1 Hh2]. pose proof (Uf_range _ Hau).
  repeat split; try lia.
  apply (IH _ _ zr hr); auto.
  - destruct tl as [|b tl']; cbn in Hasc; tauto.
  - destruct tl as [|b tl']; [exact I|]. cbn in Hasc. destruct Hasc as (H1 & H2 & _).
    split; [apply Uf_strict; lia | apply Rf_mono; lia].
  - lia.
  - apply Rf_mono; lia.
Qed.

Definition cfg_ok (c : ir_config) : Prop :=
  0 <= ir_zero c <= U32_MAXZ /\ 0 <= ir_hundred c <= U32_MAXZ /\ Forall pt_ok (ir_points c).

Lemma Forall_filter {A} (P : A -> Prop) f l : Forall P l -> Forall P (filter f l).
Proof. induction 1; cbn; [constructor|]. destruct (f x); [constructor|]; assumption. Qed.

Lemma valid_chain c :
  cfg_ok c -> validate_seven_point c = Ok tt ->
  chain 0 (Rf (ir_zero c)) (conv (used_of (ir_points c))) (Rf (ir_hundred c)).
Proof.
  intros (Hz & Hh & Hp) Hv. unfold validate_seven_point in Hv.
  destruct (collect_used (ir_points c) false) as [used|e] eqn:Ecu; cbn [bind] in Hv; [|discriminate].
  pose proof (collect_used_spec _ _ _ Ecu) as ->.
  destruct (check_ascending (used_of (ir_points c))) as [[]|e] eqn:Eca; cbn [bind] in Hv; [|discriminate].
  unfold check in Hv.
  destruct (ir_zero c <=? ir_hundred c) eqn:Ezh; cbn [bind] in Hv; [|discriminate].
  destruct (forallb _ (used_of (ir_points c))) eqn:Efa; [|discriminate].
  rewrite forallb_forall in Efa.
  apply (chain_of_asc _ _ _ (ir_zero c) (ir_hundred c)).
  - apply check_ascending_spec; assumption.
  - apply Forall_filter; assumption.
  - apply Forall_forall. intros p Hin. specialize (Efa p Hin).
    unfold used_of in Hin. apply filter_In in Hin as [Hin Hnz].
    rewrite Forall_forall in Hp. destruct (Hp p Hin) as [Hpu _]. split; lia.
  - destruct (used_of (ir_points c)) as [|p tl] eqn:Eu; [exact I|].
    specialize (Efa p (or_introl eq_refl)).
    assert (Hin : In p (used_of (ir_points c))) by (rewrite Eu; left; reflexivity).
    unfold used_of in Hin. apply filter_In in Hin as [Hin Hnz].
    rewrite Forall_forall in Hp. destruct (Hp p Hin) as [Hpu _].
    split; [apply Uf_pos; lia | apply Rf_mono; lia].
  - consts; lia.
  - apply Rf_mono; lia.
Qed.

Lemma clamp01_range ur : 0 <= clamp01 ur <= ONE.
Proof. unfold clamp01, fmin, fmax. consts. lia. Qed.
Lemma clamp01_mono a b : a <= b -> clamp01 a <= clamp01 b.
Proof. unfold clamp01, fmin, fmax. consts. lia. Qed.
Lemma clamp01_id ur : 0 <= ur <= ONE -> clamp01 ur = ur.
Proof. unfold clamp01, fmin, fmax. lia. Qed.

Lemma mpc_eq c ur : cfg_ok c ->
  mpc c ur = seg (conv (used_of (ir_points c))) 0 (Rf (ir_zero c)) (clamp01 ur) (Rf (ir_hundred c)).
Proof.
  intros (Hz & Hh & Hp). unfold mpc. rewrite !rate_from_u32_eq by assumption. cbn [bind].
  apply mpc_loop_seg; assumption.
Qed.

(* ---------------------------------------------------------------- the C18 statements *)
Lemma curve_defined_bounded c ur :
  cfg_ok c -> validate_seven_point c = Ok tt ->
  exists r, mpc c ur = Ok r /\ Rf (ir_zero c) <= r <= Rf (ir_hundred c).
Proof.
  intros Hc Hv. rewrite mpc_eq by assumption. destruct Hc as (Hz & Hh & Hp).
  pose proof (clamp01_range ur). pose proof (Rf_range _ Hz). pose proof (Rf_range _ Hh).
  apply seg_ok; try lia. apply valid_chain; [unfold cfg_ok; tauto | assumption].
Qed.

Lemma curve_monotone c u1 u2 r1 r2 :
  cfg_ok c -> validate_seven_point c = Ok tt -> u1 <= u2 ->
  mpc c u1 = Ok r1 -> mpc c u2 = Ok r2 -> r1 <= r2.
Proof.
  intros Hc Hv H12. rewrite !mpc_eq by assumption. pose proof Hc as (Hz & Hh & Hp).
  pose proof (clamp01_range u1). pose proof (clamp01_range u2). pose proof (clamp01_mono _ _ H12).
  pose proof (Rf_range _ Hz). pose proof (Rf_range _ Hh).
  apply seg_mono; try lia. apply valid_chain; assumption.
Qed.

Lemma curve_hits_points c p :
  cfg_ok c -> validate_seven_point c = Ok tt -> In p (ir_points c) -> rp_util p <> 0 ->
  mpc c (Uf (rp_util p)) = Ok (Rf (rp_rate p)).
Proof.
  intros Hc Hv Hin Hnz. rewrite mpc_eq by assumption. pose proof Hc as (Hz & Hh & Hp).
  rewrite Forall_forall in Hp. destruct (Hp p Hin) as [Hpu Hpr].
  rewrite clamp01_id by (apply Uf_range; assumption).
  pose proof (Rf_range _ Hz). pose proof (Rf_range _ Hh).
  apply seg_hits; try lia; [apply valid_chain; assumption|].
  unfold conv, used_of. apply (in_map (fun p => (Uf (rp_util p), Rf (rp_rate p)))).
  apply filter_In. split; [assumption | lia].
Qed.

Lemma curve_endpoints c :
  cfg_ok c -> validate_seven_point c = Ok tt ->
  (forall ur, ur <= 0 -> mpc c ur = Ok (Rf (ir_zero c))) /\
  ((forall p, In p (ir_points c) -> rp_util p < U32_MAXZ) ->
   forall ur, ONE <= ur -> mpc c ur = Ok (Rf (ir_hundred c))).
Proof.
  intros Hc Hv. pose proof Hc as (Hz & Hh & Hp).
  pose proof (Rf_range _ Hz). pose proof (Rf_range _ Hh). split.
  - intros ur Hur. rewrite mpc_eq by assumption.
    replace (clamp01 ur) with 0 by (unfold clamp01, fmin, fmax; consts; lia).
    apply seg_at_zero; try lia. apply valid_chain; assumption.
  - intros Hlt ur Hur. rewrite mpc_eq by assumption.
    replace (clamp01 ur) with ONE by (unfold clamp01, fmin, fmax; consts; lia).
    apply seg_at_one; try (consts; lia); [apply valid_chain; assumption|].
    intros u r Hin. unfold conv in Hin. apply in_map_iff in Hin as (p & Heq & Hin). inversion Heq; subst.
    unfold used_of in Hin. apply filter_In in Hin as [Hin _].
    rewrite Forall_forall in Hp. destruct (Hp p Hin) as [Hpu _]. specialize (Hlt p Hin).
    rewrite <- Uf_max. apply Uf_strict; lia.
Qed.

(* ---------------------------------------------------------------- rates built on the base rate *)
Definition fees_ok (c : ir_config) (pf : prog_fees) (B : Z) : Prop :=
  0 <= ir_ins_rate c <= B /\ 0 <= ir_grp_rate c <= B /\ 0 <= ir_ins_fixed c <= B /\ 0 <= ir_grp_fixed c <= B /\
  0 <= pf_rate pf <= B /\ 0 <= pf_fixed pf <= B.

Definition FEE_BOUND : Z := 2^78.     (* 2^30 as an I80F48 number *)
Definition UR_BOUND : Z := 2^64.      (* utilisation up to 65536.0 *)

Lemma calc_fee_rate_ok base rf ff :
  0 <= base <= 10 * ONE -> 0 <= rf <= FEE_BOUND -> 0 <= ff <= FEE_BOUND ->
  exists v, calc_fee_rate base rf ff = Ok v /\ 0 <= v.
Proof.
  intros Hb Hr Hf. unfold calc_fee_rate, FEE_BOUND in *. destruct (rf =? 0); [exists ff; split; [reflexivity|lia]|].
  assert (0 <= base * rf / ONE <= 10 * 2^78).
  { split; [apply Z.div_pos; [apply Z.mul_nonneg_nonneg; lia | consts; lia]|].
    apply Z.div_le_upper_bound; [consts; lia|].
    replace (ONE * (10 * 2^78)) with (10 * ONE * 2^78) by ring. apply Z.mul_le_mono_nonneg; lia. }
  rewrite cmul_ok by (consts; lia). cbn [bind]. rewrite cadd_ok by (consts; lia).
  eexists; split; [reflexivity | lia].
Qed.

Lemma calc_total_seven c pf ur :
  cfg_ok c -> validate_seven_point c = Ok tt -> ir_curve_type c = INTEREST_CURVE_SEVEN_POINT ->
  fees_ok c pf FEE_BOUND -> 0 <= ur <= UR_BOUND ->
  exists r, calc_interest_rate c pf ur = Ok r.
Proof.
  intros Hc Hv Hct (Hf1 & Hf2 & Hf3 & Hf4 & Hf5 & Hf6) Hur.
  destruct (curve_defined_bounded c ur Hc Hv) as (base & Hb & Hbb).
  pose proof Hc as (Hz & Hh & _). pose proof (Rf_range _ Hz). pose proof (Rf_range _ Hh).
  unfold calc_interest_rate, FEE_BOUND, UR_BOUND in *. rewrite Hct. cbn [Z.eqb INTEREST_CURVE_SEVEN_POINT INTEREST_CURVE_LEGACY Pos.eqb].
  set (prate := if pf_on pf then pf_rate pf else 0). set (pfix := if pf_on pf then pf_fixed pf else 0).
  assert (0 <= prate <= 2^78) by (unfold prate; destruct (pf_on pf); lia).
  assert (0 <= pfix <= 2^78) by (unfold pfix; destruct (pf_on pf); lia).
  rewrite uadd_ok by (consts; lia). cbn [bind]. rewrite uadd_ok by (consts; lia). cbn [bind].
  rewrite uadd_ok by (consts; lia). cbn [bind]. rewrite uadd_ok by (consts; lia). cbn [bind].
  rewrite Hb. cbn [bind].
  assert (0 <= base * ur / ONE <= 10 * 2^64).
  { split; [apply Z.div_pos; [apply Z.mul_nonneg_nonneg; lia | consts; lia]|].
    apply Z.div_le_upper_bound; [consts; lia|].
    replace (ONE * (10 * 2^64)) with (10 * ONE * 2^64) by ring. apply Z.mul_le_mono_nonneg; lia. }
  rewrite cmul_ok by (consts; lia). cbn [bind].
  rewrite cadd_ok by (consts; lia). cbn [bind].
  set (f := ONE + (ir_ins_rate c + ir_grp_rate c + prate)).
  assert (0 <= f <= 4 * 2^78) by (unfold f; consts; lia).
  assert (0 <= base * f / ONE <= 10 * (4 * 2^78)).
  { split; [apply Z.div_pos; [apply Z.mul_nonneg_nonneg; lia | consts; lia]|].
    apply Z.div_le_upper_bound; [consts; lia|].
    replace (ONE * (10 * (4 * 2^78))) with (10 * ONE * (4 * 2^78)) by ring. apply Z.mul_le_mono_nonneg; lia. }
  rewrite cmul_ok by (consts; lia). cbn [bind].
  rewrite cadd_ok by (consts; lia). cbn [bind].
  destruct (calc_fee_rate_ok base (ir_grp_rate c) (ir_grp_fixed c)) as (g & -> & ?); unfold FEE_BOUND; try lia.
  destruct (calc_fee_rate_ok base (ir_ins_rate c) (ir_ins_fixed c)) as (i & -> & ?); unfold FEE_BOUND; try lia.
  destruct (calc_fee_rate_ok base prate pfix) as (p & -> & ?); unfold FEE_BOUND; try lia.
  cbn [bind]. unfold assert.
  replace (0 <=? base * ur / ONE) with true by lia.
  replace (0 <=? base * f / ONE + (ir_ins_fixed c + ir_grp_fixed c + pfix)) with true by lia.
  replace (0 <=? g) with true by lia. replace (0 <=? i) with true by lia. replace (0 <=? p) with true by lia.
  cbn [bind]. eexists; reflexivity.
Qed.

(* when calc_interest_rate succeeds with non-negative fees: borrow >= base, and lend <= base on [0,1] *)

Lemma borrow_ge_lend_le c pf ur r :
  calc_interest_rate c pf ur = Ok r ->
  0 <= ir_ins_rate c -> 0 <= ir_grp_rate c -> 0 <= ir_ins_fixed c -> 0 <= ir_grp_fixed c ->
  0 <= pf_rate pf -> 0 <= pf_fixed pf -> 0 <= r_base r ->
  r_base r <= r_borrowing r /\ (0 <= ur <= ONE -> r_lending r <= r_base r).
Proof.
  intros H F1 F2 F3 F4 F5 F6. unfold calc_interest_rate in H.
  set (prate := if pf_on pf then pf_rate pf else 0) in *. set (pfix := if pf_on pf then pf_fixed pf else 0) in *.
  assert (0 <= prate) by (unfold prate; destruct (pf_on pf); lia).
  assert (0 <= pfix) by (unfold pfix; destruct (pf_on pf); lia).
  repeat (apply bind_ok in H as (? & ? & H)).
  repeat match goal with
  | H : uadd _ _ = Ok _ |- _ => apply uadd_inv in H as [-> ?]
  | H : cadd _ _ = Ok _ |- _ => apply cadd_inv in H as [-> ?]
  | H : cmul _ _ = Ok _ |- _ => apply cmul_inv in H as [-> ?]
  end.
  apply Ok_inj in H. subst r. cbn [r_base r_borrowing r_lending]. intros Hb.
  clear H6 H11 H12 H13 H14 H15 H16 H17 H18.
  set (f := ONE + (ir_ins_rate c + ir_grp_rate c + prate)) in *.
  assert (Hf : ONE <= f) by (unfold f; lia).
  assert (x3 <= x3 * f / ONE).
  { apply Z.div_le_lower_bound; [consts; lia|]. rewrite Z.mul_comm. apply Z.mul_le_mono_nonneg_l; lia. }
  split; [lia|]. intros Hur.
  apply Z.div_le_upper_bound; [consts; lia|]. rewrite Z.mul_comm. apply Z.mul_le_mono_nonneg_r; lia.
Qed.

(* ---------------------------------------------------------------- legacy three-point curve *)
Lemma legacy_ok c ur :
  validate_legacy c = Ok tt -> ir_max c <= I128_MAX / 2 -> 0 <= ur <= ONE ->
  exists r, legacy_curve c ur = Ok r /\ 0 <= r <= ir_max c /\
            (ur <= ir_optimal c -> r <= ir_plateau c) /\ (ir_optimal c < ur -> ir_plateau c <= r).
Proof.
  unfold validate_legacy, check. intros Hv Hmx Hur.
  destruct ((0 <? ir_optimal c) && (ir_optimal c <? ONE)) eqn:E1; cbn [bind] in Hv; [|discriminate].
  destruct (0 <? ir_plateau c) eqn:E2; cbn [bind] in Hv; [|discriminate].
  destruct (0 <? ir_max c) eqn:E3; cbn [bind] in Hv; [|discriminate].
  destruct (ir_plateau c <? ir_max c) eqn:E4; [|discriminate].
  assert (I128_MAX / 2 <= I128_MAX) by (consts; apply Z.div_le_upper_bound; lia).
  unfold legacy_curve. destruct (ur <=? ir_optimal c) eqn:E5.
  - pose proof (div_frac_le ur (ir_optimal c) ONE ltac:(lia) ltac:(consts; lia) ltac:(lia)) as Hq.
    rewrite cdiv_ok by (consts; lia). cbn [bind].
    pose proof (mul_div_le (ir_plateau c) (ur * ONE / ir_optimal c) ONE ONE_pos ltac:(lia) Hq) as Hm.
    rewrite Z.mul_comm in Hm.
    rewrite cmul_ok by (consts; lia). eexists; split; [reflexivity|]. lia.
  - rewrite usub_ok by (consts; lia). cbn [bind]. rewrite usub_ok by (consts; lia). cbn [bind].
    pose proof (div_frac_le (ur - ir_optimal c) (ONE - ir_optimal c) ONE ltac:(lia) ltac:(consts; lia) ltac:(lia)) as Hq.
    rewrite cdiv_ok by (consts; lia). cbn [bind]. rewrite usub_ok by (consts; lia). cbn [bind].
    pose proof (mul_div_le (ir_max c - ir_plateau c) _ ONE ONE_pos ltac:(lia) Hq) as Hm.
    rewrite Z.mul_comm in Hm.
    rewrite cmul_ok by (consts; lia). cbn [bind]. rewrite cadd_ok by (consts; lia).
    eexists; split; [reflexivity|]. lia.
Qed.

Lemma legacy_mono c u1 u2 r1 r2 :
  validate_legacy c = Ok tt -> ir_max c <= I128_MAX / 2 -> 0 <= u1 -> u1 <= u2 -> u2 <= ONE ->
  legacy_curve c u1 = Ok r1 -> legacy_curve c u2 = Ok r2 -> r1 <= r2.
Proof.
  intros Hv Hmx H0 H12 H2 E1 E2.
  destruct (legacy_ok c u1 Hv Hmx ltac:(lia)) as (a & Ea & _ & Ha1 & Ha2).
  destruct (legacy_ok c u2 Hv Hmx ltac:(lia)) as (b & Eb & _ & Hb1 & Hb2).
  rewrite Ea in E1; rewrite Eb in E2; inversion E1; inversion E2; subst.
  unfold validate_legacy, check in Hv.
  destruct ((0 <? ir_optimal c) && (ir_optimal c <? ONE)) eqn:G1; cbn [bind] in Hv; [|discriminate].
  destruct (0 <? ir_plateau c) eqn:G2; cbn [bind] in Hv; [|discriminate].
  destruct (0 <? ir_max c) eqn:G3; cbn [bind] in Hv; [|discriminate].
  destruct (ir_plateau c <? ir_max c) eqn:G4; [|discriminate].
  assert (I128_MAX / 2 <= I128_MAX) by (consts; apply Z.div_le_upper_bound; lia).
  unfold legacy_curve in Ea, Eb.
  destruct (u1 <=? ir_optimal c) eqn:F1; destruct (u2 <=? ir_optimal c) eqn:F2; try lia.
  - (* both left *)
    pose proof (div_frac_le u1 (ir_optimal c) ONE ltac:(lia) ltac:(consts; lia) ltac:(lia)) as Hq1.
    pose proof (div_frac_le u2 (ir_optimal c) ONE ltac:(lia) ltac:(consts; lia) ltac:(lia)) as Hq2.
    rewrite cdiv_ok in Ea, Eb by (consts; lia). cbn [bind] in Ea, Eb.
    apply cmul_inv in Ea as [-> _]. apply cmul_inv in Eb as [-> _].
    apply Z.div_le_mono; [consts; lia|]. apply Z.mul_le_mono_nonneg_r; [lia|].
    apply div_frac_mono; consts; lia.
  - (* both right *)
    rewrite usub_ok in Ea, Eb by (consts; lia). cbn [bind] in Ea, Eb.
    rewrite usub_ok in Ea, Eb by (consts; lia). cbn [bind] in Ea, Eb.
    pose proof (div_frac_le (u1 - ir_optimal c) (ONE - ir_optimal c) ONE ltac:(lia) ltac:(consts; lia) ltac:(lia)) as Hq1.
    pose proof (div_frac_le (u2 - ir_optimal c) (ONE - ir_optimal c) ONE ltac:(lia) ltac:(consts; lia) ltac:(lia)) as Hq2.
    rewrite cdiv_ok in Ea, Eb by (consts; lia). cbn [bind] in Ea, Eb.
    rewrite usub_ok in Ea, Eb by (consts; lia). cbn [bind] in Ea, Eb.
    apply bind_ok in Ea as (m1 & Em1 & Ea). apply bind_ok in Eb as (m2 & Em2 & Eb).
    apply cmul_inv in Em1 as [-> _]. apply cmul_inv in Em2 as [-> _].
    apply cadd_inv in Ea as [-> _]. apply cadd_inv in Eb as [-> _].
    assert ((u1 - ir_optimal c) * ONE / (ONE - ir_optimal c) * (ir_max c - ir_plateau c) / ONE <=
            (u2 - ir_optimal c) * ONE / (ONE - ir_optimal c) * (ir_max c - ir_plateau c) / ONE).
    { apply Z.div_le_mono; [consts; lia|]. apply Z.mul_le_mono_nonneg_r; [lia|].
      apply div_frac_mono; consts; lia. }
    lia.
Qed.
