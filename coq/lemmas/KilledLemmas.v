(* a killed bank stays killed under every sequence of configuration requests, and refuses every instruction kind *)
Require Import Base Constants Gate ConfigGen Fixed Curve Config Emode ConfigPaths ConfigLemmas.
Local Open Scope Z_scope.

Lemma killed_permanently g rs b k :
  op_of b = OP_KILLED ->
  opstate_of_Z (op_of (apply_reqs g b rs)) = Some KilledByBankruptcy /\
  validate_bank_state KilledByBankruptcy k = Err (E E_BankKilledByBankruptcy).
Proof.
  intros H. rewrite (killed_forever_seq g rs b H). split; [reflexivity | destruct k; reflexivity].
Qed.
