(* PanicLemmas.v — invariants of the pause state machine (C15, and the expiry half of C14). *)
Require Import Base Constants Panic.
From Coq Require Import ZifyBool.

Local Open Scope Z_scope.

Lemma grun_world g ops : g_w (grun g ops) = prun (g_w g) ops.
Proof.
  revert g; induction ops as [|o ops IH]; intros g; cbn [grun prun fold_left]; [reflexivity|].
  fold (grun (gstep g o) ops). fold (prun (fst (pstep (g_w g) o)) ops).
  rewrite IH. f_equal. unfold gstep. destruct (pstep (g_w g) o) as [w' ok] eqn:E. cbn [fst].
  destruct o; try reflexivity. destruct ok; [destruct (reset_happens _ _)|]; reflexivity.
Qed.

(* The invariant. *)
Record PInv (g : gworld) : Prop := {
  i_now   : 0 <= w_now (g_w g);
  i_flags : p_flags (w_p (g_w g)) = 0 \/ p_flags (w_p (g_w g)) = 1;
  i_off   : p_flags (w_p (g_w g)) = 0 -> p_start (w_p (g_w g)) = 0 /\ p_consec (w_p (g_w g)) = 0;
  i_on    : p_flags (w_p (g_w g)) = 1 ->
            (p_consec (w_p (g_w g)) = 1 /\ 0 <= p_start (w_p (g_w g)) <= w_now (g_w g)) \/
            (p_consec (w_p (g_w g)) = 2 /\ 0 <= p_start (w_p (g_w g)) <= w_now (g_w g) + 1800);
  i_daily : 0 <= p_daily (w_p (g_w g)) <= 3;
  i_since : g_since g = p_daily (w_p (g_w g));
  i_reset : 0 <= p_last_reset (w_p (g_w g)) <= w_now (g_w g);
  i_rhead : match g_resets g with [] => p_last_reset (w_p (g_w g)) = 0
                                | r :: _ => p_last_reset (w_p (g_w g)) = r end;
  i_spaced : spaced (g_resets g);
  i_rpos  : forall r, In r (g_resets g) -> 0 <= r;
  i_cache : (c_flags (w_c (g_w g)) = 0 \/ c_flags (w_c (g_w g)) = 1) /\
            0 <= c_start (w_c (g_w g)) <= w_now (g_w g) + 1800
}.

Lemma PInv_init now : 0 <= now -> PInv (g_init now).
Proof.
  intros H. constructor; cbn; try lia; try tauto.
Qed.

Ltac unf :=
  cbv [pstep gstep ix_panic_pause ix_panic_unpause ix_panic_unpause_permissionless ix_propagate
       p_pause p_unpause_if_expired p_unpause p_can_pause p_is_expired is_expired_raw
       reset_happens check chk chko bind in_i64 in_range sat_i64 sat_u8 clamp
       FLAG_PAUSED PAUSE_DURATION_SECONDS DAILY_RESET_INTERVAL MAX_CONSECUTIVE_PAUSES
       MAX_DAILY_PAUSES I64_MIN I64_MAX U8_MAX E_PauseLimitExceeded E_ProtocolNotPaused
       w_p w_c w_now g_w g_since g_resets p_flags p_daily p_consec p_start p_last_reset
       c_flags c_start c_last_update fst snd] in *.

Lemma fs0 : flag_set 0 = false. Proof. reflexivity. Qed.
Lemma fs1 : flag_set 1 = true. Proof. reflexivity. Qed.

Lemma land_1 : Z.land 1 (255 - 1) = 0. Proof. reflexivity. Qed.
Lemma land_0 : Z.land 0 (255 - 1) = 0. Proof. reflexivity. Qed.
Lemma lor_0 : Z.lor 0 1 = 1. Proof. reflexivity. Qed.
Lemma lor_1 : Z.lor 1 1 = 1. Proof. reflexivity. Qed.

Ltac norm := rewrite ?fs0, ?fs1, ?land_0, ?land_1, ?lor_0, ?lor_1 in *;
             cbn [negb andb orb fst snd is_ok] in *.

(* resolve one `if` whose condition is decided by linear arithmetic *)
Ltac step_if :=
  match goal with
  | |- context [if ?c then _ else _] =>
      first [ let H := fresh in assert (H : c = true) by lia; rewrite H; clear H
            | let H := fresh in assert (H : c = false) by lia; rewrite H; clear H ]
  end; norm.
Ltac steps := norm; repeat step_if.

Ltac fin_inv :=
  constructor; cbn [g_w w_p w_c w_now p_flags p_daily p_consec p_start p_last_reset c_flags c_start g_since g_resets] in *;
  unfold DAILY_RESET_INTERVAL in *;
  try lia; try tauto;
  try (intros; lia);
  try (intros r [<-|Hin]; [lia | auto]);
  try (match goal with |- spaced (_ :: ?l) => destruct l as [|r0 rs]; unfold spaced in *; cbn in *; unfold DAILY_RESET_INTERVAL in *; [tauto | split; [lia | tauto]] end).

Ltac cases_le a b := destruct (Z_le_gt_dec a b).

(* One-step preservation, for clocks below 2^62. *)
Definition tick_of (o : pop) : Z := match o with OpTick dt => Z.max 0 dt | _ => 0 end.

Lemma PInv_step' g o :
  PInv g -> w_now (g_w g) + tick_of o < TMAX -> PInv (gstep g o).
Proof.
  intros [Hnow Hfl Hoff Hon Hd Hs Hr Hrh Hsp Hrp Hc].
  destruct g as [[[fl dl cs st lr] [cf cst clu] now] since resets].
  cbn [g_w w_p w_c w_now p_flags p_daily p_consec p_start p_last_reset c_flags c_start g_since g_resets] in *.
  unfold TMAX, tick_of. intros Hlt.
  destruct o as [ | | | |dt].
  - (* pause *)
    destruct Hfl as [-> | ->].
    + destruct (Hoff eq_refl) as [-> ->]. clear Hoff Hon. unf.
      cases_le 86400 (now - lr); cases_le 3 dl; steps; fin_inv.
    + clear Hoff. specialize (Hon eq_refl). unf.
      destruct Hon as [[-> Hst] | [-> Hst]]; cases_le st now;
      cases_le 1800 (now - st); cases_le 86400 (now - lr); cases_le 3 dl; steps; fin_inv.
  - (* admin unpause *)
    destruct Hfl as [-> | ->].
    + unf. steps. fin_inv.
    + specialize (Hon eq_refl). unf.
      destruct Hon as [[-> Hst] | [-> Hst]]; cases_le st now; cases_le 1800 (now - st); steps; fin_inv.
  - (* permissionless unpause *)
    destruct Hfl as [-> | ->].
    + unf. steps. fin_inv.
    + specialize (Hon eq_refl). unf.
      destruct Hon as [[-> Hst] | [-> Hst]]; cases_le st now; cases_le 1800 (now - st); steps; fin_inv.
  - (* propagate *)
    unf. cbn. fin_inv.
    all: try (split; [tauto|]; destruct Hfl as [-> | ->];
              [destruct (Hoff eq_refl) as [-> _]; lia
              |destruct (Hon eq_refl) as [[_ ?]|[_ ?]]; lia]).
  - (* tick *)
    unf. cbn in *. fin_inv.
    all: try (intros H1; destruct (Hon H1) as [[? ?]|[? ?]]; [left|right]; lia).
Qed.

Lemma now_step g o : w_now (g_w (gstep g o)) = w_now (g_w g) + tick_of o.
Proof.
  destruct g as [[p c now] since resets]. unfold gstep. cbn [g_w].
  destruct (pstep (mkW p c now) o) as [w' ok] eqn:E.
  assert (w_now w' = now + tick_of o).
  { unfold pstep in E. destruct o; cbn [w_p w_c w_now tick_of] in *;
    repeat match type of E with
    | context [match ?x with _ => _ end] => destruct x
    end; inversion E; subst; cbn; lia. }
  destruct o; try (cbn [g_w]; assumption). destruct ok; [destruct (reset_happens _ _)|]; cbn [g_w]; assumption.
Qed.

Lemma now_mono_step g o : w_now (g_w g) <= w_now (g_w (gstep g o)).
Proof. rewrite now_step. destruct o; cbn; lia. Qed.

Lemma PInv_step g o :
  PInv g -> w_now (g_w (gstep g o)) < TMAX -> PInv (gstep g o).
Proof. intros Hi Hlt. rewrite now_step in Hlt. apply PInv_step'; assumption. Qed.

Lemma now_mono_run ops : forall g, w_now (g_w g) <= w_now (g_w (grun g ops)).
Proof.
  induction ops as [|o ops IH]; intros g; cbn [grun fold_left]; [lia|].
  fold (grun (gstep g o) ops). specialize (IH (gstep g o)). pose proof (now_mono_step g o). lia.
Qed.

Lemma PInv_run ops : forall g,
  PInv g -> w_now (g_w (grun g ops)) < TMAX -> PInv (grun g ops).
Proof.
  induction ops as [|o ops IH]; intros g Hi Hlt; cbn [grun fold_left] in *; [assumption|].
  fold (grun (gstep g o) ops) in *. apply IH; [|assumption].
  apply PInv_step; [assumption|].
  pose proof (now_mono_run ops (gstep g o)). lia.
Qed.

(* --------------------------------------------------------------------------------------------- *)
(* (a) each successful pause pushes the paused-until time forward by at most 30 minutes;
       no other instruction pushes it forward at all *)
Lemma pause_extends_le_1800 g :
  PInv g -> w_now (g_w g) < TMAX ->
  forall p', ix_panic_pause (w_p (g_w g)) (w_now (g_w g)) = Ok p' ->
  paused_until p' (w_now (g_w g)) <= paused_until (w_p (g_w g)) (w_now (g_w g)) + 1800.
Proof.
  intros [Hnow Hfl Hoff Hon Hd Hs Hr Hrh Hsp Hrp Hc].
  destruct g as [[[fl dl cs st lr] [cf cst clu] now] since resets].
  cbn [g_w w_p w_c w_now p_flags p_daily p_consec p_start p_last_reset c_flags c_start g_since g_resets] in *.
  unfold TMAX, paused_until, PAUSE_DURATION_SECONDS. intros Hlt p'.
  destruct Hfl as [-> | ->].
  - destruct (Hoff eq_refl) as [-> ->]. unf.
    cases_le 86400 (now - lr); cases_le 3 dl; steps;
    intros E; inversion E; subst; cbn [p_flags p_start]; steps; lia.
  - specialize (Hon eq_refl). unf.
    destruct Hon as [[-> Hst] | [-> Hst]]; cases_le st now;
    cases_le 1800 (now - st); cases_le 86400 (now - lr); cases_le 3 dl; steps;
    intros E; inversion E; subst; cbn [p_flags p_start]; steps; lia.
Qed.

Lemma nonpause_never_extends g o :
  PInv g -> w_now (g_w g) < TMAX ->
  match o with OpPause | OpTick _ => True | _ =>
    paused_until (w_p (fst (pstep (g_w g) o))) (w_now (g_w g))
      <= paused_until (w_p (g_w g)) (w_now (g_w g)) end.
Proof.
  intros [Hnow Hfl Hoff Hon Hd Hs Hr Hrh Hsp Hrp Hc].
  destruct g as [[[fl dl cs st lr] [cf cst clu] now] since resets].
  cbn [g_w w_p w_c w_now p_flags p_daily p_consec p_start p_last_reset c_flags c_start g_since g_resets] in *.
  unfold TMAX, paused_until, PAUSE_DURATION_SECONDS. intros Hlt.
  destruct o; try exact I.
  - destruct Hfl as [-> | ->]; unf.
    + steps. cbn [w_p p_flags p_start]. steps. lia.
    + destruct (Hon eq_refl) as [[-> Hst] | [-> Hst]]; cases_le st now; cases_le 1800 (now - st); steps;
      cbn [w_p p_flags p_start]; steps; lia.
  - destruct Hfl as [-> | ->]; unf.
    + steps. cbn [w_p p_flags p_start]. steps. lia.
    + destruct (Hon eq_refl) as [[-> Hst] | [-> Hst]]; cases_le st now; cases_le 1800 (now - st); steps;
      cbn [w_p p_flags p_start]; steps; lia.
  - cbn. lia.
Qed.

(* (b) never scheduled to stay paused more than 60 minutes beyond the present *)
Lemma horizon_3600 g : PInv g -> paused_until (w_p (g_w g)) (w_now (g_w g)) <= w_now (g_w g) + 3600.
Proof.
  intros [Hnow Hfl Hoff Hon Hd Hs Hr Hrh Hsp Hrp Hc]. unfold paused_until, PAUSE_DURATION_SECONDS.
  destruct Hfl as [H | H]; rewrite H.
  - rewrite fs0. lia.
  - rewrite fs1. destruct (Hon H) as [[_ ?]|[_ ?]]; lia.
Qed.

(* (d) an expired pause does not block: the cached state held by any group *)
Lemma expired_cache_not_paused g now' :
  PInv g -> c_start (w_c (g_w g)) + 1800 <= now' -> now' < TMAX ->
  is_protocol_paused (w_c (g_w g)) now' = Ok false.
Proof.
  intros [Hnow Hfl Hoff Hon Hd Hs Hr Hrh Hsp Hrp [Hcf Hcs]].
  destruct g as [[[fl dl cs st lr] [cf cst clu] now] since resets].
  cbn [g_w w_p w_c w_now p_flags p_daily p_consec p_start p_last_reset c_flags c_start g_since g_resets] in *.
  intros H1 H2. unfold TMAX in *.
  unfold is_protocol_paused, c_is_expired.
  destruct Hcf as [-> | ->]; unf; steps; try reflexivity; f_equal; lia.
Qed.

(* ... and within 60 minutes of any reachable moment every group's cached pause has run out *)
Lemma cache_expires_within_3600 g :
  PInv g -> w_now (g_w g) + 3600 < TMAX ->
  is_protocol_paused (w_c (g_w g)) (w_now (g_w g) + 3600) = Ok false.
Proof.
  intros Hi Hlt. apply expired_cache_not_paused; [assumption| |assumption].
  destruct Hi as [_ _ _ _ _ _ _ _ _ _ [_ ?]]. lia.
Qed.

(* (e)/(f) unpausing *)
Lemma admin_unpause_total g :
  PInv g -> w_now (g_w g) < TMAX -> p_flags (w_p (g_w g)) = 1 ->
  exists p', ix_panic_unpause (w_p (g_w g)) (w_now (g_w g)) = Ok p' /\ p_flags p' = 0.
Proof.
  intros [Hnow Hfl Hoff Hon Hd Hs Hr Hrh Hsp Hrp Hc].
  destruct g as [[[fl dl cs st lr] [cf cst clu] now] since resets].
  cbn [g_w w_p w_c w_now p_flags p_daily p_consec p_start p_last_reset c_flags c_start g_since g_resets] in *.
  unfold TMAX. intros Hlt ->. specialize (Hon eq_refl). unf.
  destruct Hon as [[-> Hst] | [-> Hst]]; cases_le st now; cases_le 1800 (now - st); steps;
  (eexists; split; [reflexivity|reflexivity]).
Qed.

Lemma perm_unpause_iff g :
  PInv g -> w_now (g_w g) < TMAX ->
  (is_ok (ix_panic_unpause_permissionless (w_p (g_w g)) (w_now (g_w g))) = true <->
   p_flags (w_p (g_w g)) = 1 /\ p_start (w_p (g_w g)) + 1800 <= w_now (g_w g)).
Proof.
  intros [Hnow Hfl Hoff Hon Hd Hs Hr Hrh Hsp Hrp Hc].
  destruct g as [[[fl dl cs st lr] [cf cst clu] now] since resets].
  cbn [g_w w_p w_c w_now p_flags p_daily p_consec p_start p_last_reset c_flags c_start g_since g_resets] in *.
  unfold TMAX. intros Hlt.
  destruct Hfl as [-> | ->].
  - unf. steps. split; [discriminate | lia].
  - specialize (Hon eq_refl). unf.
    destruct Hon as [[-> Hst] | [-> Hst]]; cases_le st now; cases_le 1800 (now - st); steps;
    (split; intros; try discriminate; try reflexivity; try lia).
Qed.

(* (c) daily limit *)
Lemma daily_limit g : PInv g -> g_since g <= 3 /\ spaced (g_resets g).
Proof. intros Hi. destruct Hi. split; [lia | assumption]. Qed.

Lemma daily_limit_lit g : PInv g -> g_since g <= 3 /\ spaced_by 86400 (g_resets g).
Proof. exact (daily_limit g). Qed.

(* `paused_until` is exactly the horizon of `blocked` *)
Lemma blocked_iff g t :
  PInv g -> w_now (g_w g) <= t < TMAX ->
  blocked (w_p (g_w g)) t = Ok (negb (p_flags (w_p (g_w g)) =? 0) && (t <? paused_until (w_p (g_w g)) (w_now (g_w g)))).
Proof.
  intros [Hnow Hfl Hoff Hon Hd Hs Hr Hrh Hsp Hrp Hc].
  destruct g as [[[fl dl cs st lr] [cf cst clu] now] since resets].
  cbn [g_w w_p w_c w_now p_flags p_daily p_consec p_start p_last_reset c_flags c_start g_since g_resets] in *.
  unfold TMAX, blocked, is_protocol_paused, c_is_expired, paused_until. intros Ht.
  destruct Hfl as [-> | ->]; unf.
  - steps. reflexivity.
  - destruct (Hon eq_refl) as [[-> Hst] | [-> Hst]]; cases_le st t; cases_le 1800 (t - st); steps;
    f_equal; lia.
Qed.

(* ---- the same facts for every reachable state (what props/C15.v pins) ---- *)
Lemma reach_inv now0 ops : 0 <= now0 -> NOW (reach now0 ops) < 2^62 -> PInv (reach now0 ops).
Proof. intros H0 Hlt. exact (PInv_run ops _ (PInv_init _ H0) Hlt). Qed.

Lemma reach_cache_open now0 ops :
  0 <= now0 -> let g := reach now0 ops in NOW g + 3600 < 2^62 ->
  is_protocol_paused (w_c (g_w g)) (NOW g + 3600) = Ok false.
Proof.
  intros H0 g Hlt. assert (Hi : PInv g).
  { apply reach_inv; [assumption|]. pose proof (i_now _ (PInv_init _ H0)).
    pose proof (now_mono_run ops (g_init now0)). fold (reach now0 ops) in *. unfold NOW in *.
    cbn in H. fold g in H1 |- *. lia. }
  exact (cache_expires_within_3600 g Hi Hlt).
Qed.
