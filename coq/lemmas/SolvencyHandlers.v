(* SolvencyHandlers.v — C01 at handler level: how each successful instruction moves
   gap = vault * 2^96 - NAV of the bank it touches. *)
Require Import Base Constants Fixed Curve Bank BankOps Risk TransferFee Handlers.
Require Import FixedLemmas BankLemmas ValueLemmas CurveLemmas AccrualLemmas TransferFeeLemmas HandlerLemmas SolvencyLemmas FrameLemmas LedgerLemmas HandlerEffects.
From Coq Require Import ZifyBool.
Local Open Scope Z_scope.

(* every position of the account in bank key k is covered by the bank totals (implied by the ledger invariant) *)
Definition pos_le2 (ta tl : Z) (k : Z) (la : laccount) : Prop :=
  forall bl, In bl la -> bl_active bl = true -> bl_bank bl = k -> bl_a bl <= ta /\ bl_l bl <= tl.
Definition pos_le (bk : bank) (k : Z) (la : laccount) : Prop := pos_le2 (b_tas bk) (b_tls bk) k la.

Lemma pos_le2_mono ta tl ta' tl' k la : pos_le2 ta tl k la -> ta <= ta' -> tl <= tl' -> pos_le2 ta' tl' k la.
Proof. intros H H1 H2 bl Hin Ha Hb. destruct (H bl Hin Ha Hb). lia. Qed.

Lemma In_set_nth {A} (l : list A) i x y : In y (set_nth i x l) -> y = x \/ In y l.
Proof.
  revert i; induction l as [|a l IH]; intros [|i] H; cbn [set_nth In] in *.
  - destruct H.
  - destruct H.
  - destruct H as [H|H]; [left; congruence|right; right; exact H].
  - destruct H as [H|H]; [right; left; exact H|]. destruct (IH _ H) as [E|E]; [left; exact E|right; right; exact E].
Qed.
Lemma In_insert_desc x y l : In y (insert_desc x l) -> y = x \/ In y l.
Proof.
  induction l as [|a l IH]; cbn [insert_desc In].
  - intros [H|[]]. left. congruence.
  - destruct (bl_bank a <? bl_bank x); cbn [In].
    + intros [H|[H|H]]; [left; congruence|right; left; exact H|right; right; exact H].
    + intros [H|H]; [right; left; exact H|]. destruct (IH H) as [E|E]; [left; exact E|right; right; exact E].
Qed.
Lemma In_sort y l : In y (sort_balances l) -> In y l.
Proof.
  unfold sort_balances. induction l as [|a l IH]; cbn [fold_right In]; [tauto|].
  intros H. apply In_insert_desc in H as [->|H]; [left; reflexivity|right; apply IH; exact H].
Qed.
Lemma pos_le2_sort ta tl k la : pos_le2 ta tl k la -> pos_le2 ta tl k (sort_balances la).
Proof. intros H bl Hin. apply H. apply In_sort. exact Hin. Qed.
Lemma pos_le2_set_nth ta tl k la i x : pos_le2 ta tl k la ->
  (bl_active x = true -> bl_bank x = k -> bl_a x <= ta /\ bl_l x <= tl) -> pos_le2 ta tl k (set_nth i x la).
Proof. intros H Hx bl Hin. apply In_set_nth in Hin as [->|Hin]; [exact Hx|apply H; exact Hin]. Qed.

Definition acc_slack (w : hworld) (hb : hbank) : Z :=
  match accrue_interest (hb_b hb) (hw_pf w) (hw_now w) with Ok bk1 => accrual_slack (hb_b hb) bk1 | Err _ => 0 end.

Lemma gap_mk_hb bk V hb : gap (mk_hb bk V hb) = gapb bk V.
Proof. reflexivity. Qed.
Lemma hb_ok_mk_hb bk V hb : hb_ok (set_hb_b bk hb) -> hb_ok (mk_hb bk V hb).
Proof. intros H. exact H. Qed.

Lemma cache_static b pf now b' : update_bank_cache b pf now = Ok b' -> bank_static b b'.
Proof. intros H. apply update_bank_cache_core in H as [-> | ->]; [apply bank_static_refl|apply static_set_last_update]. Qed.

(* a primitive / bookkeeping step that keeps share values and configuration keeps the bank well-formed *)
Lemma hb_ok_step hb bk bk' :
  hb_ok (set_hb_b bk hb) -> bank_static bk bk' -> b_asv bk' = b_asv bk -> b_lsv bk' = b_lsv bk ->
  0 <= b_tas bk' -> 0 <= b_tls bk' -> hb_ok (set_hb_b bk' hb).
Proof.
  intros H (Sir & _) E1 E2 T1 T2. eapply set_b_keeps_ok; eauto.
  destruct H as ((A & L & _ & _) & _). cbn [set_hb_b hb_b] in A, L. unfold wf_bank. lia.
Qed.

Lemma hb_ok_cache hb bk pf now bk' :
  hb_ok (set_hb_b bk hb) -> update_bank_cache bk pf now = Ok bk' -> hb_ok (set_hb_b bk' hb) /\ NAV bk' = NAV bk.
Proof.
  intros H Hc. pose proof (cache_static _ _ _ _ Hc) as S. destruct (NAV_cache _ _ _ _ Hc) as (N & E1 & E2 & T1 & T2 & _).
  split; [|exact N]. destruct H as ((A & L & Ta & Tl) & R). cbn [set_hb_b hb_b] in A, L, Ta, Tl.
  eapply hb_ok_step; eauto; try lia. split; [unfold wf_bank; cbn [set_hb_b hb_b]; lia|exact R].
Qed.

Lemma hb_ok_tot hb : hb_ok hb -> 0 <= b_tas (hb_b hb) /\ 0 <= b_tls (hb_b hb).
Proof. intros ((_ & _ & ? & ?) & _). split; assumption. Qed.
Lemma hb_ok_set_b_id hb : hb_ok hb -> hb_ok (set_hb_b (hb_b hb) hb).
Proof. intros H. destruct hb; exact H. Qed.

(* the located slot is covered by the totals *)
Lemma located_le2 k bk ta tl la now (create : bool) i la1 bl :
  (if create then wrapper_find_or_create k bk la now else let* i := wrapper_find k la in Ok (i, la)) = (Ok (i, la1) : res (nat * laccount)) ->
  nth_res i la1 = Ok bl -> Forall wf_bal la -> pos_le2 ta tl k la -> 0 <= ta -> 0 <= tl ->
  wf_bal bl /\ Forall wf_bal la1 /\ bl_a bl <= ta /\ bl_l bl <= tl /\ bl_active bl = true /\ bl_bank bl = k /\
  (forall k', pos_le2 ta tl k' la -> pos_le2 ta tl k' la1).
Proof.
  intros H Hn Hf Hp Ta Tl. pose proof (nth_res_ok _ _ _ Hn) as En.
  assert (Hfound : forall j, find_active k la = Some j -> j = i -> la1 = la ->
            wf_bal bl /\ Forall wf_bal la1 /\ bl_a bl <= ta /\ bl_l bl <= tl /\ bl_active bl = true /\ bl_bank bl = k /\
            (forall k', pos_le2 ta tl k' la -> pos_le2 ta tl k' la1)).
  { intros j Hj -> ->. apply find_active_spec in Hj as (bl0 & H1 & H2 & H3). rewrite En in H1. apply Some_inj in H1 as <-.
    split; [eapply Forall_nth_error; eauto|]. split; [exact Hf|].
    destruct (Hp bl (nth_error_In _ _ En) H2 H3) as [Q1 Q2].
    split; [exact Q1|]. split; [exact Q2|]. split; [exact H2|]. split; [exact H3|]. intros k' Hk'. exact Hk'. }
  destruct create.
  - unfold wrapper_find_or_create in H. destruct (find_active k la) as [j|] eqn:Ej.
    + apply pair_ok in H as [<- <-]. eapply Hfound; eauto.
    + apply bind_ok in H as (u & _ & H). destruct (find_idx _ la 0) as [j|] eqn:Ei; [|discriminate].
      apply pair_ok in H as [<- <-]. apply find_idx_spec in Ei as (bl0 & H1 & H2 & _). rewrite Nat.sub_0_r in H1.
      rewrite (nth_set_nth_same _ _ _ _ H1) in En. apply Some_inj in En as <-.
      cbn [bl_a bl_l bl_active bl_bank]. split; [unfold wf_bal; cbn; lia|].
      split; [apply Forall_set_nth; [exact Hf|]; unfold wf_bal; cbn; lia|].
      split; [lia|]. split; [lia|]. split; [reflexivity|]. split; [reflexivity|].
      intros k' Hk'. apply pos_le2_set_nth; [exact Hk'|]. cbn [bl_a bl_l]. lia.
  - unfold wrapper_find in H. destruct (find_active k la) as [j|] eqn:Ej; [|discriminate].
    cbn [bind] in H. apply pair_ok in H as [<- <-]. eapply Hfound; eauto.
Qed.

Lemma located_le k bk bk0 la now (create : bool) i la1 bl :
  (if create then wrapper_find_or_create k bk la now else let* i := wrapper_find k la in Ok (i, la)) = (Ok (i, la1) : res (nat * laccount)) ->
  nth_res i la1 = Ok bl -> Forall wf_bal la -> pos_le bk0 k la -> 0 <= b_tas bk0 -> 0 <= b_tls bk0 ->
  wf_bal bl /\ Forall wf_bal la1 /\ bl_a bl <= b_tas bk0 /\ bl_l bl <= b_tls bk0.
Proof.
  intros H Hn Hf Hp Ta Tl. destruct (located_le2 _ _ _ _ _ _ _ _ _ _ H Hn Hf Hp Ta Tl) as (A & B & C & D & _). auto.
Qed.

Lemma find_as_located k la i : wrapper_find k la = Ok i ->
  (let* i := wrapper_find k la in Ok (i, la)) = (Ok (i, la) : res (nat * laccount)).
Proof. intros ->. reflexivity. Qed.

Lemma wf_sort_set la i bl fl : Forall wf_bal la -> wf_bal bl -> Forall wf_bal (ha_la (sort_acct (mkHA (set_nth i bl la) fl))).
Proof. intros H1 H2. unfold sort_acct. cbn [ha_la]. apply Forall_sort. apply Forall_set_nth; assumption. Qed.

(* ---------------------------------------------------------------- deposit *)
Lemma deposit_gap w a b amount hb hb' ac ac' :
  deposit_facts w a b amount hb hb' ac ac' -> hb_ok hb -> Forall wf_bal (ha_la ac) -> pos_le (hb_b hb) (bank_pk b) (ha_la ac) ->
  hb_ok hb' /\ Forall wf_bal (ha_la ac') /\ gap hb - acc_slack w hb <= gap hb'.
Proof.
  intros (bk1 & Hacc & _ & _ & Hcase) Hok Hwf Hpos. unfold acc_slack. rewrite Hacc.
  destruct (hb_ok_after_accrue _ _ _ _ Hok Hacc) as (Hok1 & Hs).
  destruct (hb_ok_tot _ Hok) as (Ta & Tl).
  pose proof (accrue_monotone (hb_b hb) _ _ _ ltac:(destruct Hok as ((?&?&?&?)&_); assumption) ltac:(destruct Hok as ((?&?&?&?)&_); assumption) Ta Tl Hacc) as (_ & _ & _ & _ & _ & _ & T1 & T2 & _).
  destruct Hcase as [[-> ->] | (dep & i & la1 & bl & bk2 & bl2 & pre & f & bk3 & Hd & Hloc & Hbl & Hinc & Hpre & Hf & Hcache & -> & ->)].
  - split; [exact Hok1|]. split; [exact Hwf|]. unfold gap, gapb. cbn [set_hb_b hb_b hb_vault]. lia.
  - assert (Hpos1 : pos_le bk1 (bank_pk b) (ha_la ac)) by (unfold pos_le; rewrite T1, T2; exact Hpos).
    destruct (located_le _ _ bk1 _ _ true _ _ _ Hloc Hbl Hwf Hpos1 ltac:(lia) ltac:(lia)) as (Wbl & Wla1 & La & Ll).
    pose proof (hb_ok_sv _ Hok1) as Hsv1. cbn [set_hb_b hb_b] in Hsv1.
    assert (Hdn : 0 <= of_int dep) by (unfold of_int; pose proof ONE_pos; nia).
    destruct (NAV_increase _ _ _ _ _ _ _ Hsv1 Wbl Hdn Hinc) as (N1 & N0 & Wbl2).
    pose proof (increase_balance_inv _ _ _ _ _ _ _ Hsv1 Wbl Hdn Hinc) as F.
    destruct (if_sv _ _ _ _ _ _ F) as [S1 S2].
    pose proof (if_a _ _ _ _ _ _ F) as Fa. pose proof (if_l _ _ _ _ _ _ F) as Fl.
    pose proof (if_tas _ _ _ _ _ _ F) as Fta. pose proof (if_tls _ _ _ _ _ _ F) as Ftl.
    destruct Wbl as [Wa Wl]. destruct Wbl2 as [Wa2 Wl2].
    assert (Hok2 : hb_ok (set_hb_b bk2 hb)).
    { eapply hb_ok_step; [exact Hok1|eapply static_increase; eauto|assumption|assumption|lia|lia]. }
    destruct (hb_ok_cache _ _ _ _ _ Hok2 Hcache) as (Hok3 & N3).
    split; [apply hb_ok_mk_hb; exact Hok3|]. split; [apply wf_sort_set; [assumption|split; assumption]|].
    rewrite gap_mk_hb. unfold gap, gapb. rewrite N3.
    destruct Hok as (_ & _ & _ & _ & Hb1 & Hb2).
    destruct (pre_fee_covers hb dep pre f Hb1 Hb2 ltac:(lia) Hpre Hf) as (Hcov & _).
    unfold of_int in N1. pose proof ONE_pos. nia.
Qed.

Lemma pre_fee_nonneg hb post pre : 0 <= hb_tf_bps hb <= 10000 -> 0 <= hb_tf_max hb -> 0 <= post -> pre_fee hb post = Ok pre -> 0 <= pre.
Proof.
  intros Hb Hm Hp. unfold pre_fee. destruct (hb_t22 hb).
  - intros H1. apply prefee_wrapper in H1. unfold calculate_pre_fee_amount in H1.
    destruct (hb_tf_bps hb =? 0); [apply Ok_inj in H1; lia|].
    destruct (post =? 0); [apply Ok_inj in H1; lia|].
    destruct (hb_tf_bps hb =? BPS_ONE); [apply chko_inv in H1 as [-> _]; lia|].
    apply bind_ok in H1 as (x1 & _ & H1). apply bind_ok in H1 as (x2 & _ & H1).
    apply bind_ok in H1 as (x3 & _ & H1). apply bind_ok in H1 as (x4 & _ & H1).
    destruct (hb_tf_max hb <=? x4); apply chko_inv in H1 as [H1 H1r]; unfold in_u64, in_range in H1r; lia.
  - intros H1. apply Ok_inj in H1. lia.
Qed.

Definition sv_slack (w : hworld) (hb : hbank) : Z :=
  match accrue_interest (hb_b hb) (hw_pf w) (hw_now w) with Ok bk1 => b_asv bk1 + b_lsv bk1 | Err _ => 0 end.

Lemma ashares_nonneg b x : 0 <= b_asv b -> 0 <= x -> 0 <= ashares b x.
Proof. intros Ha Hx. unfold ashares. destruct (b_asv b =? 0) eqn:E; [lia|]. apply Z.div_pos; [pose proof ONE_pos; nia|lia]. Qed.
Lemma lshares_nonneg b x : 0 < b_lsv b -> 0 <= x -> 0 <= lshares b x.
Proof. intros Hl Hx. unfold lshares. apply Z.div_pos; [pose proof ONE_pos; nia|lia]. Qed.

(* facts shared by every handler after the accrual step *)
Lemma after_accrue w b hb ac bk1 :
  hb_ok hb -> pos_le (hb_b hb) (bank_pk b) (ha_la ac) -> accrue_interest (hb_b hb) (hw_pf w) (hw_now w) = Ok bk1 ->
  hb_ok (set_hb_b bk1 hb) /\ NAV bk1 - NAV (hb_b hb) <= accrual_slack (hb_b hb) bk1 /\
  pos_le bk1 (bank_pk b) (ha_la ac) /\ 0 <= b_tas bk1 /\ 0 <= b_tls bk1 /\ wf_sv bk1.
Proof.
  intros Hok Hpos Hacc. destruct (hb_ok_after_accrue _ _ _ _ Hok Hacc) as (Hok1 & Hs).
  destruct (hb_ok_tot _ Hok) as (Ta & Tl).
  pose proof (accrue_monotone (hb_b hb) _ _ _ ltac:(destruct Hok as ((?&?&?&?)&_); assumption) ltac:(destruct Hok as ((?&?&?&?)&_); assumption) Ta Tl Hacc) as (_ & _ & _ & _ & _ & _ & T1 & T2 & _).
  split; [exact Hok1|]. split; [exact Hs|]. split; [unfold pos_le; rewrite T1, T2; exact Hpos|].
  split; [lia|]. split; [lia|]. pose proof (hb_ok_sv _ Hok1) as S. exact S.
Qed.

(* ---------------------------------------------------------------- withdraw *)
Lemma withdraw_core_gap w b amount all hb hb' ac ac' :
  0 <= amount -> withdraw_core w b amount all hb hb' ac ac' -> hb_ok hb -> Forall wf_bal (ha_la ac) ->
  pos_le (hb_b hb) (bank_pk b) (ha_la ac) ->
  hb_ok hb' /\ Forall wf_bal (ha_la ac') /\ gap hb - acc_slack w hb - sv_slack w hb <= gap hb'.
Proof.
  intros Hamt (bk1 & i & bl & bk2 & bl2 & pre & paid & bk3 & Hacc & Hi & Hbl & Hprim & Hpaid & Hle & Hcache & -> & ->) Hok Hwf Hpos.
  unfold acc_slack, sv_slack. rewrite Hacc.
  destruct (after_accrue _ _ _ _ _ Hok Hpos Hacc) as (Hok1 & Hs & Hpos1 & Ta1 & Tl1 & Hsv1).
  destruct (located_le _ bk1 bk1 _ (hw_now w) false _ _ _ (find_as_located _ _ _ Hi) Hbl Hwf Hpos1 Ta1 Tl1) as (Wbl & _ & La & Ll).
  assert (Hpp : paid <= pre) by (subst paid; destruct (get_flag _ _); lia).
  destruct Hok as (_ & _ & _ & _ & Hb1 & Hb2).
  destruct all.
  - destruct (NAV_withdraw_all _ _ _ _ _ _ Hsv1 Wbl Hprim) as (N1 & Hn0).
    pose proof (withdraw_all_inv _ _ _ _ _ _ Hsv1 Wbl Hprim) as F.
    destruct (wa_sv _ _ _ _ _ F) as [S1 S2]. pose proof (wa_tas _ _ _ _ _ F) as Fta. pose proof (wa_tls _ _ _ _ _ F) as Ftl.
    assert (Hok2 : hb_ok (set_hb_b bk2 hb)).
    { eapply hb_ok_step; [exact Hok1|eapply static_withdraw_all; eauto|assumption|assumption|lia|lia]. }
    destruct (hb_ok_cache _ _ _ _ _ Hok2 Hcache) as (Hok3 & N3).
    split; [apply hb_ok_mk_hb; exact Hok3|]. split.
    { apply wf_sort_set; [assumption|]. rewrite (wa_closed _ _ _ _ _ F). unfold wf_bal; cbn; lia. }
    rewrite gap_mk_hb. unfold gap, gapb. rewrite N3. destruct Hsv1. pose proof ONE_pos. nia.
  - destruct Hprim as (Hpre & Hdec).
    pose proof (pre_fee_nonneg _ _ _ Hb1 Hb2 Hamt Hpre) as Hp0.
    assert (Hdn : 0 <= of_int pre) by (unfold of_int; pose proof ONE_pos; nia).
    destruct (NAV_decrease _ _ _ _ _ _ _ Hsv1 Wbl Hdn Hdec) as (N1 & Wbl2).
    pose proof (decrease_balance_inv _ _ _ _ _ _ _ Hsv1 Wbl Hdn Hdec) as F.
    destruct (df_sv _ _ _ _ _ _ F) as [S1 S2].
    pose proof (df_a _ _ _ _ _ _ F) as Fa. pose proof (df_l _ _ _ _ _ _ F) as Fl.
    pose proof (df_tas _ _ _ _ _ _ F) as Fta. pose proof (df_tls _ _ _ _ _ _ F) as Ftl.
    destruct Wbl as [Wa Wl]. destruct Wbl2 as [Wa2 Wl2].
    assert (Hok2 : hb_ok (set_hb_b bk2 hb)).
    { eapply hb_ok_step; [exact Hok1|eapply static_decrease; eauto|assumption|assumption|lia|lia]. }
    destruct (hb_ok_cache _ _ _ _ _ Hok2 Hcache) as (Hok3 & N3).
    split; [apply hb_ok_mk_hb; exact Hok3|]. split; [apply wf_sort_set; [assumption|split; assumption]|].
    rewrite gap_mk_hb. unfold gap, gapb. rewrite N3. unfold of_int in N1. pose proof ONE_pos. nia.
Qed.
Lemma withdraw_gap w w' a b amount all hb hb' ac ac' :
  0 <= amount -> withdraw_facts w w' a b amount all hb hb' ac ac' -> hb_ok hb -> Forall wf_bal (ha_la ac) ->
  pos_le (hb_b hb) (bank_pk b) (ha_la ac) ->
  hb_ok hb' /\ Forall wf_bal (ha_la ac') /\ gap hb - acc_slack w hb - sv_slack w hb <= gap hb'.
Proof. intros Hamt F. apply (withdraw_core_gap w b amount all); [exact Hamt | eapply withdraw_facts_core; exact F]. Qed.


(* ---------------------------------------------------------------- borrow *)
Definition fees_rep (bk : bank) : Prop := I128_MIN <= b_grp bk /\ I128_MIN <= b_prog bk.
Definition pf_ok (pf : prog_fees) : Prop := 0 <= pf_rate pf <= ONE.

Lemma orig_fee_inv hb pre delta ofee : 0 <= pre -> orig_fee_of hb pre = Ok (delta, ofee) ->
  delta = of_int pre + ofee /\ 0 <= ofee.
Proof.
  intros Hp. unfold orig_fee_of. destruct (hb_orig_fee hb =? 0).
  - intros H. apply Ok_inj, pair_equal_spec in H as [<- <-]. lia.
  - intros H. apply bind_ok in H as (f & Hf & H). apply bind_ok in H as (n & Hn & H). apply bind_ok in H as (d & Hd & H).
    apply Ok_inj, pair_equal_spec in H as [<- <-]. apply uadd_inv in Hd as [-> _].
    apply math_ok, to_u64_inv in Hn as [En Hn]. split; [reflexivity|].
    pose proof ONE_pos. destruct (Z_lt_le_dec f 0) as [Hneg|]; [|lia].
    exfalso. assert (f / ONE < 0) by (apply Z.div_lt_upper_bound; lia). lia.
Qed.

Lemma clamp_le_inrange x : I128_MIN <= x -> clamp I128_MIN I128_MAX x <= x.
Proof. intros H. unfold clamp. rewrite I128_MIN_val, I128_MAX_val in *. lia. Qed.
Lemma clamp_ge_min x : I128_MIN <= clamp I128_MIN I128_MAX x.
Proof. unfold clamp. rewrite I128_MIN_val, I128_MAX_val. lia. Qed.

Lemma book_orig_fee_inv pf ofee bk bk' : pf_ok pf -> 0 <= ofee -> fees_rep bk -> book_orig_fee pf ofee bk = Ok bk' ->
  NAV bk' - NAV bk <= ofee * ONE /\ bank_static bk bk' /\ b_asv bk' = b_asv bk /\ b_lsv bk' = b_lsv bk /\
  b_tas bk' = b_tas bk /\ b_tls bk' = b_tls bk /\ fees_rep bk'.
Proof.
  intros (R0 & R1) Ho (G & P). unfold book_orig_fee. destruct (ofee =? 0) eqn:E0.
  - intros H. apply Ok_inj in H. subst bk'. split; [pose proof ONE_pos; nia|]. split; [apply bank_static_refl|].
    repeat split; try reflexivity; assumption.
  - destruct (pf_rate pf =? 0).
    + intros H. apply Ok_inj in H. subst bk'.
      pose proof (clamp_le_inrange (b_grp bk + ofee) ltac:(lia)). pose proof (clamp_ge_min (b_grp bk + ofee)).
      set (c := clamp I128_MIN I128_MAX (b_grp bk + ofee)) in *.
      split; [unfold NAV, Dv, Lv, Fv; cbn [set_b_grp b_tas b_asv b_tls b_lsv b_ins b_grp b_prog]; pose proof ONE_pos; nia|].
      split; [apply static_set_grp|].
      unfold fees_rep. cbn [set_b_grp b_tas b_asv b_tls b_lsv b_ins b_grp b_prog]. repeat split; try reflexivity; assumption.
    + intros H. apply bind_ok in H as (pfa & Hpfa & H). apply Ok_inj in H. subst bk'.
      apply math_ok, cmul_inv in Hpfa as [-> _].
      assert (0 <= ofee * pf_rate pf / ONE <= ofee) by (apply mul_div_le; [apply ONE_pos|lia|lia]).
      set (pfa := ofee * pf_rate pf / ONE) in *.
      pose proof (clamp_le_inrange (ofee - pfa) ltac:(rewrite I128_MIN_val; lia)).
      assert (0 <= clamp I128_MIN I128_MAX (ofee - pfa)) by (unfold clamp; rewrite I128_MIN_val, I128_MAX_val; lia).
      set (rest := clamp I128_MIN I128_MAX (ofee - pfa)) in *.
      pose proof (clamp_le_inrange (b_grp bk + rest) ltac:(lia)). pose proof (clamp_ge_min (b_grp bk + rest)).
      pose proof (clamp_le_inrange (b_prog bk + pfa) ltac:(lia)). pose proof (clamp_ge_min (b_prog bk + pfa)).
      set (cg := clamp I128_MIN I128_MAX (b_grp bk + rest)) in *. set (cp := clamp I128_MIN I128_MAX (b_prog bk + pfa)) in *.
      split; [unfold NAV, Dv, Lv, Fv; cbn [set_b_grp set_b_prog b_tas b_asv b_tls b_lsv b_ins b_grp b_prog]; pose proof ONE_pos; nia|].
      split; [eapply bank_static_trans; [apply static_set_grp|apply static_set_prog]|].
      unfold fees_rep. cbn [set_b_grp set_b_prog b_tas b_asv b_tls b_lsv b_ins b_grp b_prog]. repeat split; try reflexivity; assumption.
Qed.

Lemma borrow_gap w w' a b amount hb hb' ac ac' :
  0 <= amount -> borrow_facts w w' a b amount hb hb' ac ac' -> hb_ok hb -> fees_rep (hb_b hb) -> pf_ok (hw_pf w) ->
  Forall wf_bal (ha_la ac) -> pos_le (hb_b hb) (bank_pk b) (ha_la ac) ->
  hb_ok hb' /\ fees_rep (hb_b hb') /\ Forall wf_bal (ha_la ac') /\ gap hb - acc_slack w hb - sv_slack w hb <= gap hb'.
Proof.
  intros Hamt (bk1 & i & la1 & bl & pre & delta & ofee & bk2 & bl2 & bk4 & bk5 & Hacc & _ & _ & _ & Hloc & Hbl & Hpre & Hof & Hdec & Hle & Hbook & Hcache & -> & -> & _)
         Hok Hfr Hpf Hwf Hpos.
  unfold acc_slack, sv_slack. rewrite Hacc.
  destruct (after_accrue _ _ _ _ _ Hok Hpos Hacc) as (Hok1 & Hs & Hpos1 & Ta1 & Tl1 & Hsv1).
  destruct (located_le _ _ bk1 _ _ true _ _ _ Hloc Hbl Hwf Hpos1 Ta1 Tl1) as (Wbl & Wla1 & La & Ll).
  pose proof Hok as (Hwfb & _ & _ & _ & Hb1 & Hb2).
  pose proof (pre_fee_nonneg _ _ _ Hb1 Hb2 Hamt Hpre) as Hp0.
  destruct (orig_fee_inv _ _ _ _ Hp0 Hof) as (-> & Ho0).
  assert (Hdn : 0 <= of_int pre + ofee) by (unfold of_int; pose proof ONE_pos; nia).
  destruct (NAV_decrease _ _ _ _ _ _ _ Hsv1 Wbl Hdn Hdec) as (N1 & Wbl2).
  pose proof (decrease_balance_inv _ _ _ _ _ _ _ Hsv1 Wbl Hdn Hdec) as F.
  destruct (df_sv _ _ _ _ _ _ F) as [S1 S2]. destruct (df_fees _ _ _ _ _ _ F) as (_ & G2 & P2).
  pose proof (df_a _ _ _ _ _ _ F) as Fa. pose proof (df_l _ _ _ _ _ _ F) as Fl.
  pose proof (df_tas _ _ _ _ _ _ F) as Fta. pose proof (df_tls _ _ _ _ _ _ F) as Ftl.
  destruct Wbl as [Wa Wl]. destruct Wbl2 as [Wa2 Wl2].
  assert (Hok2 : hb_ok (set_hb_b bk2 hb)).
  { eapply hb_ok_step; [exact Hok1|eapply static_decrease; eauto|assumption|assumption|lia|lia]. }
  (* fee buckets after accrual are still representable *)
  destruct Hwfb as (A0 & L0 & Ta0 & Tl0).
  pose proof (accrue_monotone _ _ _ _ A0 L0 Ta0 Tl0 Hacc) as (_ & _ & _ & Mg & Mp & _).
  assert (Hfr2 : fees_rep bk2) by (destruct Hfr; unfold fees_rep; lia).
  destruct (book_orig_fee_inv _ _ _ _ Hpf Ho0 Hfr2 Hbook) as (N4 & St4 & E1 & E2 & T1 & T2 & Hfr4).
  assert (Hok4 : hb_ok (set_hb_b bk4 hb)).
  { eapply hb_ok_step; [exact Hok2|exact St4|assumption|assumption|
      rewrite T1; destruct (hb_ok_tot _ Hok2); assumption|rewrite T2; destruct (hb_ok_tot _ Hok2); assumption]. }
  destruct (hb_ok_cache _ _ _ _ _ Hok4 Hcache) as (Hok5 & N5).
  split; [apply hb_ok_mk_hb; exact Hok5|]. split.
  { cbn [mk_hb set_hb_b hb_b]. apply update_bank_cache_core in Hcache as [-> | ->]; [exact Hfr4|exact Hfr4]. }
  split; [apply wf_sort_set; [assumption|split; assumption]|].
  rewrite gap_mk_hb. unfold gap, gapb. rewrite N5. unfold of_int in N1. pose proof ONE_pos. nia.
Qed.

(* ---------------------------------------------------------------- repay *)
(* the sanctioned exception: the risk admin's token-less write-off on a bank flagged for it *)
Definition tokenless_writeoff (w : hworld) (hb : hbank) (all : bool) : Prop :=
  hw_risk_admin_signs w = true /\ get_flag (b_flags (hb_b hb)) TOKENLESS_REPAYMENTS_ALLOWED = true /\ all = true.

Lemma mark_core bk : let bk' := mark_tokenless_complete bk in
  NAV bk' = NAV bk /\ b_asv bk' = b_asv bk /\ b_lsv bk' = b_lsv bk /\ b_tas bk' = b_tas bk /\ b_tls bk' = b_tls bk /\
  b_ir bk' = b_ir bk /\ b_grp bk' = b_grp bk /\ b_prog bk' = b_prog bk.
Proof. unfold mark_tokenless_complete. destruct (_ && _); cbn; repeat split; reflexivity. Qed.

Lemma repay_gap w a b amount all hb hb' ac ac' :
  0 <= amount -> repay_facts w a b amount all hb hb' ac ac' -> hb_ok hb ->
  Forall wf_bal (ha_la ac) -> pos_le (hb_b hb) (bank_pk b) (ha_la ac) ->
  hb_ok hb' /\ Forall wf_bal (ha_la ac') /\
  (gap hb - acc_slack w hb - (if all then ONE else 0) <= gap hb' \/ tokenless_writeoff w hb all).
Proof.
  intros Hamt (bk1 & i & bl & bk2 & bl2 & post & V' & bk5 & Hacc & _ & Hi & Hbl & Hprim & Htok & Hcache & -> & ->) Hok Hwf Hpos.
  unfold acc_slack. rewrite Hacc.
  destruct (after_accrue _ _ _ _ _ Hok Hpos Hacc) as (Hok1 & Hs & Hpos1 & Ta1 & Tl1 & Hsv1).
  destruct (located_le _ bk1 bk1 _ (hw_now w) false _ _ _ (find_as_located _ _ _ Hi) Hbl Hwf Hpos1 Ta1 Tl1) as (Wbl & _ & La & Ll).
  pose proof Hok as (_ & _ & _ & _ & Hb1 & Hb2).
  pose proof (mark_core bk2) as (Nm & Em1 & Em2 & Tm1 & Tm2 & Im & _). cbv zeta in *.
  (* the primitive *)
  assert (Hp : hb_ok (set_hb_b bk2 hb) /\ wf_bal bl2 /\ 0 <= post /\ NAV bk2 - NAV bk1 < post * ONE * ONE + (if all then ONE else 0) + (if all then 0 else 1) /\
               b_flags bk2 = b_flags bk1).
  { destruct all.
    - destruct (NAV_repay_all _ _ _ _ _ _ Hsv1 Wbl Hprim) as (N1 & Hn0).
      pose proof (repay_all_inv _ _ _ _ _ _ Hsv1 Wbl Hprim) as F.
      destruct (ra_sv _ _ _ _ _ F) as [S1 S2]. pose proof (ra_tas _ _ _ _ _ F) as Fta. pose proof (ra_tls _ _ _ _ _ F) as Ftl.
      pose proof (static_repay_all _ _ _ _ _ _ Hprim) as St.
      split; [eapply hb_ok_step; [exact Hok1|exact St|assumption|assumption|lia|lia]|].
      split; [rewrite (ra_closed _ _ _ _ _ F); unfold wf_bal; cbn; lia|]. split; [lia|]. split; [lia|].
      destruct St as (_ & Fl & _). exact Fl.
    - destruct Hprim as (-> & Hinc).
      assert (Hdn : 0 <= of_int amount) by (unfold of_int; pose proof ONE_pos; nia).
      destruct (NAV_increase _ _ _ _ _ _ _ Hsv1 Wbl Hdn Hinc) as (N1 & N0 & Wbl2).
      pose proof (increase_balance_inv _ _ _ _ _ _ _ Hsv1 Wbl Hdn Hinc) as F.
      destruct (if_sv _ _ _ _ _ _ F) as [S1 S2].
      pose proof (if_a _ _ _ _ _ _ F) as Fa. pose proof (if_l _ _ _ _ _ _ F) as Fl.
      pose proof (if_tas _ _ _ _ _ _ F) as Fta. pose proof (if_tls _ _ _ _ _ _ F) as Ftl.
      pose proof (static_increase _ _ _ _ _ _ _ Hinc) as St.
      destruct Wbl as [Wa Wl]. pose proof Wbl2 as [Wa2 Wl2].
      split; [eapply hb_ok_step; [exact Hok1|exact St|assumption|assumption|lia|lia]|].
      split; [exact Wbl2|]. split; [lia|]. split; [unfold of_int in N1; lia|].
      destruct St as (_ & Fl' & _). exact Fl'. }
  destruct Hp as (Hok2 & Wbl2 & Hpost & N1 & Hflags).
  assert (Hokm : hb_ok (set_hb_b (mark_tokenless_complete bk2) hb)).
  { eapply set_b_keeps_ok; [exact Hok2| | | |]; try assumption.
    destruct (hb_ok_tot _ Hok2) as (X1 & X2). cbn [set_hb_b hb_b] in X1, X2.
    destruct Hok2 as ((A & L & _ & _) & _). cbn [set_hb_b hb_b] in A, L. unfold wf_bank. lia. }
  destruct (hb_ok_cache _ _ _ _ _ Hokm Hcache) as (Hok5 & N5).
  split; [apply hb_ok_mk_hb; exact Hok5|]. split; [apply wf_sort_set; assumption|].
  destruct Htok as [(Hr & Hfl & Hall & ->) | (pre & f & Hpre & Hf & ->)].
  - right. unfold tokenless_writeoff. split; [exact Hr|]. split; [|exact Hall].
    rewrite Hflags in Hfl. pose proof (accrue_frame _ _ _ _ Hacc) as (_ & _ & Ff & _). rewrite Ff in Hfl. exact Hfl.
  - left. rewrite gap_mk_hb. unfold gap, gapb. rewrite N5, Nm.
    destruct (pre_fee_covers hb post pre f Hb1 Hb2 Hpost Hpre Hf) as (Hcov & _).
    pose proof ONE_pos. destruct all; nia.
Qed.

(* ---------------------------------------------------------------- close_balance / accrue / collect fees *)
Lemma close_gap w a b hb hb' ac ac' :
  close_facts w a b hb hb' ac ac' -> hb_ok hb -> Forall wf_bal (ha_la ac) -> pos_le (hb_b hb) (bank_pk b) (ha_la ac) ->
  hb_ok hb' /\ Forall wf_bal (ha_la ac') /\ gap hb - acc_slack w hb <= gap hb'.
Proof.
  intros (bk1 & bk2 & i & bl & bk3 & bl3 & Hacc & _ & Hcache & Hi & Hbl & Hcl & -> & ->) Hok Hwf Hpos.
  unfold acc_slack. rewrite Hacc.
  destruct (after_accrue _ _ _ _ _ Hok Hpos Hacc) as (Hok1 & Hs & Hpos1 & Ta1 & Tl1 & Hsv1).
  destruct (hb_ok_cache _ _ _ _ _ Hok1 Hcache) as (Hok2 & N2).
  destruct (NAV_cache _ _ _ _ Hcache) as (_ & E1 & E2 & T1 & T2 & _).
  assert (Hpos2 : pos_le bk2 (bank_pk b) (ha_la ac)) by (unfold pos_le; rewrite T1, T2; exact Hpos1).
  destruct (located_le _ bk2 bk2 _ (hw_now w) false _ _ _ (find_as_located _ _ _ Hi) Hbl Hwf Hpos2 ltac:(lia) ltac:(lia)) as (Wbl & _ & La & Ll).
  pose proof (hb_ok_sv _ Hok2) as Hsv2. cbn [set_hb_b hb_b] in Hsv2.
  pose proof (NAV_close_balance _ _ _ _ _ Hsv2 Wbl Hcl) as N3.
  destruct (close_balance_inv _ _ _ _ _ Hsv2 Wbl Hcl) as (-> & C1 & C2 & C3 & C4 & _).
  assert (Hok3 : hb_ok (set_hb_b bk3 hb)).
  { eapply hb_ok_step; [exact Hok2|eapply static_close_balance; eauto|assumption|assumption|lia|lia]. }
  split; [exact Hok3|]. split; [apply wf_sort_set; [assumption|unfold wf_bal; cbn; lia]|].
  unfold gap, gapb. cbn [set_hb_b hb_b hb_vault]. lia.
Qed.

Lemma accrue_gap w hb bk1 bk2 :
  accrue_interest (hb_b hb) (hw_pf w) (hw_now w) = Ok bk1 -> update_bank_cache bk1 (hw_pf w) (hw_now w) = Ok bk2 ->
  hb_ok hb -> hb_ok (set_hb_b bk2 hb) /\ gap hb - acc_slack w hb <= gap (set_hb_b bk2 hb).
Proof.
  intros Hacc Hcache Hok. unfold acc_slack. rewrite Hacc.
  destruct (hb_ok_after_accrue _ _ _ _ Hok Hacc) as (Hok1 & Hs).
  destruct (hb_ok_cache _ _ _ _ _ Hok1 Hcache) as (Hok2 & N2).
  split; [exact Hok2|]. unfold gap, gapb. cbn [set_hb_b hb_b hb_vault]. lia.
Qed.

Lemma collect_gap hb hb' :
  bank_static (hb_b hb) (hb_b hb') -> hb_static hb hb' ->
  b_tas (hb_b hb') = b_tas (hb_b hb) -> b_tls (hb_b hb') = b_tls (hb_b hb) ->
  b_asv (hb_b hb') = b_asv (hb_b hb) -> b_lsv (hb_b hb') = b_lsv (hb_b hb) ->
  (exists m, hb_vault hb' * ONE = hb_vault hb * ONE - m /\ Fv (hb_b hb') = Fv (hb_b hb) - m) ->
  hb_ok hb -> hb_ok hb' /\ gap hb' = gap hb.
Proof.
  intros (Sir & _) (H1 & H2 & H3 & _) T1 T2 E1 E2 (m & Hv & Hf) (Hw & Hp & Hl & (V1 & V2 & V3) & Hf1 & Hf2).
  split.
  - destruct Hw as (W1 & W2 & W3 & W4). unfold hb_ok, valid_curve, wf_bank. rewrite T1, T2, E1, E2, Sir, H2, H3.
    split; [repeat split; assumption|]. split; [exact Hp|]. split; [exact Hl|]. split; [exact (conj V1 (conj V2 V3))|]. split; assumption.
  - unfold gap, gapb, NAV, Dv, Lv. rewrite T1, T2, E1, E2, Hf. pose proof ONE_pos. nia.
Qed.

(* ---------------------------------------------------------------- bankruptcy *)
Lemma socialize_alive b loss b' : wf_sv b -> 0 <= b_tas b -> 0 <= loss -> socialize_loss b loss = Ok (b', false) ->
  0 < b_asv b' /\ NAV b' - NAV b <= - loss * ONE /\ b_lsv b' = b_lsv b /\ b_tas b' = b_tas b /\ b_tls b' = b_tls b /\
  b_grp b' = b_grp b /\ b_prog b' = b_prog b.
Proof.
  intros [Ha Hl] Ht Hloss H. unfold socialize_loss in H. apply bind_ok in H as (total & Htot & H).
  apply math_ok, cmul_inv in Htot as [Htot _].
  destruct (total <=? loss) eqn:E.
  - apply Ok_inj, pair_equal_spec in H as [_ H]. discriminate.
  - apply bind_ok in H as (d & Hd & H). apply usub_inv in Hd as [Hd _].
    apply bind_ok in H as (nsv & Hn & H). apply Ok_inj, pair_equal_spec in H as [<- Hk].
    assert (Hd0 : 0 < d) by lia.
    assert (Htp : 0 < b_tas b).
    { destruct (Z.eq_dec (b_tas b) 0) as [E0|]; [|lia]. exfalso.
      apply math_ok in Hn. unfold cdiv in Hn. rewrite E0 in Hn. cbn in Hn. discriminate. }
    apply math_ok in Hn. apply cdiv_inv_nonneg in Hn as [Hn Hr]; [|lia|lia].
    pose proof ONE_pos as HO.
    assert (Hq : b_tas b * nsv <= d * ONE).
    { rewrite Hn. apply Z.mul_div_le. exact Htp. }
    assert (Ht2 : total * ONE <= b_tas b * b_asv b).
    { rewrite Htot. rewrite Z.mul_comm. apply Z.mul_div_le. exact HO. }
    cbn [set_b_asv b_asv b_lsv b_tas b_tls b_grp b_prog].
    split; [lia|]. split; [|repeat split; reflexivity].
    unfold NAV, Dv, Lv, Fv. cbn [set_b_asv b_asv b_lsv b_tas b_tls b_ins b_grp b_prog]. nia.
Qed.

Lemma bankruptcy_gap w a b hb hb' ac ac' :
  bankruptcy_facts w a b hb hb' ac ac' -> hb_ok hb -> Forall wf_bal (ha_la ac) -> pos_le (hb_b hb) (bank_pk b) (ha_la ac) ->
  Forall wf_bal (ha_la ac') /\
  ((hb_ok hb' /\ gap hb - acc_slack w hb <= gap hb' /\ b_grp (hb_b hb') >= b_grp (hb_b hb) /\ b_prog (hb_b hb') >= b_prog (hb_b hb))
   \/ b_op_state (hb_b hb') = OP_KILLED).
Proof.
  intros (ps & A & L & bk1 & i & bl & bad & avail_n & covered & loss & ce & cov_n & pre & f & bk2 & kill & bk3 & bl3 & bk4 &
          _ & _ & Hacc & Hi & Hbl & Hbad & Hthr & _ & Hcov & Hloss & Hce & Hcn & Hpre & _ & Hf & Hsoc & Hinc & Hcache & -> & ->) Hok Hwf Hpos.
  unfold acc_slack. rewrite Hacc.
  destruct (after_accrue _ _ _ _ _ Hok Hpos Hacc) as (Hok1 & Hs & Hpos1 & Ta1 & Tl1 & Hsv1).
  assert (Hfind : wrapper_find (bank_pk b) (ha_la ac) = Ok i) by (unfold wrapper_find; rewrite Hi; reflexivity).
  destruct (located_le _ bk1 bk1 _ (hw_now w) false _ _ _ (find_as_located _ _ _ Hfind) Hbl Hwf Hpos1 Ta1 Tl1) as (Wbl & _ & La & Ll).
  assert (Hthr0 : 0 < ZERO_AMOUNT_THRESHOLD) by reflexivity.
  assert (Hb0 : 0 <= bad) by lia.
  assert (Hl0 : 0 <= loss) by (subst loss; unfold fmax; lia).
  assert (Hcb : covered <= bad) by (subst covered; unfold fmin; lia).
  assert (Hlc : loss = bad - covered) by (subst loss; unfold fmax; lia).
  destruct kill.
  - (* the bank is wiped out *)
    destruct (socialize_sv _ _ _ _ Hsv1 Ta1 Hsoc) as (Hsv2 & T1 & T2).
    assert (Wbl3 : wf_bal bl3).
    { destruct (NAV_increase _ _ _ _ _ _ _ Hsv2 Wbl Hb0 Hinc) as (_ & _ & X). exact X. }
    split; [cbn [ha_la]; apply Forall_set_nth; assumption|]. right. reflexivity.
  - destruct (socialize_alive _ _ _ Hsv1 Ta1 Hl0 Hsoc) as (Hasv2 & N2 & E2 & T1 & T2 & G2 & P2).
    pose proof (static_socialize _ _ _ _ Hsoc) as St2.
    assert (Hsv2 : wf_sv bk2) by (destruct Hsv1; unfold wf_sv; lia).
    destruct (NAV_increase _ _ _ _ _ _ _ Hsv2 Wbl Hb0 Hinc) as (N3 & _ & Wbl3).
    pose proof (increase_balance_inv _ _ _ _ _ _ _ Hsv2 Wbl Hb0 Hinc) as F.
    destruct (if_sv _ _ _ _ _ _ F) as [S1 S2]. destruct (if_fees _ _ _ _ _ _ F) as (_ & G3 & P3).
    pose proof (if_l _ _ _ _ _ _ F) as Fl. pose proof (if_tas _ _ _ _ _ _ F) as Fta. pose proof (if_tls _ _ _ _ _ _ F) as Ftl.
    pose proof (if_a _ _ _ _ _ _ F) as Fa.
    destruct Wbl as [Wa Wl]. pose proof Wbl3 as [Wa3 Wl3].
    assert (Hok2 : hb_ok (set_hb_b bk2 hb)).
    { destruct Hok1 as ((A1 & L1 & _ & _) & P1 & Lp1 & (V1 & V2 & V3) & Hf1 & Hf2). cbn [set_hb_b hb_b hb_tf_bps hb_tf_max] in *.
      destruct St2 as (Sir & _). unfold hb_ok, valid_curve, wf_bank. cbn [set_hb_b hb_b hb_tf_bps hb_tf_max]. rewrite Sir, E2, T1, T2.
      split; [repeat split; lia|]. split; [exact Hasv2|]. split; [exact Lp1|]. split; [exact (conj V1 (conj V2 V3))|]. split; assumption. }
    assert (Hok3 : hb_ok (set_hb_b bk3 hb)).
    { eapply hb_ok_step; [exact Hok2|eapply static_increase; eauto|assumption|assumption|lia|lia]. }
    destruct (hb_ok_cache _ _ _ _ _ Hok3 Hcache) as (Hok4 & N4).
    split; [cbn [ha_la]; apply Forall_set_nth; assumption|]. left.
    split; [exact Hok4|].
    destruct Hok as (Hwfb & _ & _ & _ & Hb1 & Hb2).
    apply cceil_inv in Hce. apply to_u64_inv in Hcn as (Hcn & Hcr).
    destruct (pre_fee_covers hb cov_n pre f Hb1 Hb2 ltac:(lia) Hpre Hf) as (Hcover & _).
    pose proof ONE_pos as HO.
    assert (Hce2 : covered <= ce /\ cov_n * ONE = ce).
    { pose proof (Z.div_mod covered ONE ltac:(lia)). pose proof (Z.mod_pos_bound covered ONE HO).
      destruct (covered mod ONE =? 0) eqn:Em.
      - subst ce. split; [lia|]. rewrite Hcn. lia.
      - subst ce. split; [lia|]. rewrite Hcn. rewrite Z.div_add_l by lia. rewrite Z.div_same by lia. lia. }
    destruct Hce2 as (Hce2 & Hce3).
    split.
    + unfold gap, gapb. cbn [set_hb_b set_hb_vault set_hb_insv hb_b hb_vault]. rewrite N4. nia.
    + cbn [set_hb_b hb_b]. destruct Hwfb as (A0 & L0 & Ta0 & Tl0).
      pose proof (accrue_monotone _ _ _ _ A0 L0 Ta0 Tl0 Hacc) as (_ & _ & _ & Mg & Mp & _).
      apply update_bank_cache_core in Hcache as [-> | ->]; cbn [set_b_last_update b_grp b_prog]; lia.
Qed.

(* ---------------------------------------------------------------- liquidation *)
Lemma ffrac_split x n : 0 <= x -> to_u64_checked x = Ok n -> x = n * ONE + ffrac x /\ 0 <= ffrac x /\ 0 <= n.
Proof.
  intros Hx H. apply to_u64_inv in H as (-> & Hr). pose proof ONE_pos as HO.
  unfold ffrac. pose proof (Z.div_mod x ONE ltac:(lia)). pose proof (Z.mod_pos_bound x ONE HO). lia.
Qed.

(* a primitive on a located slot keeps the bank well-formed; the two flavours *)
Lemma dec_step hb bk bl now delta t bk' bl' :
  hb_ok (set_hb_b bk hb) -> wf_bal bl -> 0 <= delta -> bl_a bl <= b_tas bk ->
  decrease_balance bk bl now delta t = Ok (bk', bl') ->
  hb_ok (set_hb_b bk' hb) /\ wf_bal bl' /\ delta * ONE - b_asv bk - b_lsv bk < NAV bk - NAV bk' /\
  b_asv bk' = b_asv bk /\ b_lsv bk' = b_lsv bk /\ b_tls bk <= b_tls bk' /\ b_tas bk' <= b_tas bk /\
  b_ins bk' = b_ins bk /\ b_grp bk' = b_grp bk /\ b_prog bk' = b_prog bk /\
  bl_active bl' = bl_active bl /\ bl_bank bl' = bl_bank bl.
Proof.
  intros Hok Wbl Hd La Hdec. pose proof (hb_ok_sv _ Hok) as Hsv. cbn [set_hb_b hb_b] in Hsv.
  destruct (NAV_decrease _ _ _ _ _ _ _ Hsv Wbl Hd Hdec) as (N1 & Wbl2).
  pose proof (decrease_balance_inv _ _ _ _ _ _ _ Hsv Wbl Hd Hdec) as F.
  destruct (df_sv _ _ _ _ _ _ F) as [S1 S2]. destruct (df_fees _ _ _ _ _ _ F) as (I2 & G2 & P2).
  destruct (df_meta _ _ _ _ _ _ F) as (M1 & M2 & _).
  pose proof (df_a _ _ _ _ _ _ F) as Fa. pose proof (df_l _ _ _ _ _ _ F) as Fl.
  pose proof (df_tas _ _ _ _ _ _ F) as Fta. pose proof (df_tls _ _ _ _ _ _ F) as Ftl.
  destruct Wbl as [Wa Wl]. pose proof Wbl2 as [Wa2 Wl2]. destruct (hb_ok_tot _ Hok) as (T1 & T2). cbn [set_hb_b hb_b] in T1, T2.
  assert (0 <= lshares bk (dec_l_inc bk bl delta)) by (apply lshares_nonneg; [destruct Hsv; assumption|unfold dec_l_inc; lia]).
  assert (0 <= ashares bk (dec_a_dec bk bl delta)).
  { apply ashares_nonneg; [destruct Hsv; assumption|]. unfold dec_a_dec.
    assert (0 <= bl_a bl * b_asv bk / ONE) by (apply Z.div_pos; [destruct Hsv; nia|apply ONE_pos]). lia. }
  split; [eapply hb_ok_step; [exact Hok|eapply static_decrease; eauto|assumption|assumption|lia|lia]|].
  split; [exact Wbl2|]. split; [exact N1|]. repeat split; try assumption; lia.
Qed.
Lemma inc_step hb bk bl now delta t bk' bl' :
  hb_ok (set_hb_b bk hb) -> wf_bal bl -> 0 <= delta -> bl_l bl <= b_tls bk ->
  increase_balance bk bl now delta t = Ok (bk', bl') ->
  hb_ok (set_hb_b bk' hb) /\ wf_bal bl' /\ NAV bk' - NAV bk <= delta * ONE /\
  b_asv bk' = b_asv bk /\ b_lsv bk' = b_lsv bk /\ b_tls bk' <= b_tls bk /\ b_tas bk <= b_tas bk' /\
  b_ins bk' = b_ins bk /\ b_grp bk' = b_grp bk /\ b_prog bk' = b_prog bk /\
  bl_active bl' = bl_active bl /\ bl_bank bl' = bl_bank bl.
Proof.
  intros Hok Wbl Hd Ll Hinc. pose proof (hb_ok_sv _ Hok) as Hsv. cbn [set_hb_b hb_b] in Hsv.
  destruct (NAV_increase _ _ _ _ _ _ _ Hsv Wbl Hd Hinc) as (N1 & _ & Wbl2).
  pose proof (increase_balance_inv _ _ _ _ _ _ _ Hsv Wbl Hd Hinc) as F.
  destruct (if_sv _ _ _ _ _ _ F) as [S1 S2]. destruct (if_fees _ _ _ _ _ _ F) as (I2 & G2 & P2).
  destruct (if_meta _ _ _ _ _ _ F) as (M1 & M2 & _).
  pose proof (if_a _ _ _ _ _ _ F) as Fa. pose proof (if_l _ _ _ _ _ _ F) as Fl.
  pose proof (if_tas _ _ _ _ _ _ F) as Fta. pose proof (if_tls _ _ _ _ _ _ F) as Ftl.
  destruct Wbl as [Wa Wl]. pose proof Wbl2 as [Wa2 Wl2]. destruct (hb_ok_tot _ Hok) as (T1 & T2). cbn [set_hb_b hb_b] in T1, T2.
  assert (0 <= ashares bk (inc_a_inc bk bl delta)) by (apply ashares_nonneg; [destruct Hsv; assumption|unfold inc_a_inc; lia]).
  assert (0 <= lshares bk (inc_l_dec bk bl delta)).
  { apply lshares_nonneg; [destruct Hsv; assumption|]. unfold inc_l_dec.
    assert (0 <= bl_l bl * b_lsv bk / ONE) by (apply Z.div_pos; [destruct Hsv; nia|apply ONE_pos]). lia. }
  split; [eapply hb_ok_step; [exact Hok|eapply static_increase; eauto|assumption|assumption|lia|lia]|].
  split; [exact Wbl2|]. split; [exact N1|]. repeat split; try assumption; lia.
Qed.

Lemma bank_pk_neq a b : a <> b -> bank_pk a <> bank_pk b.
Proof. intros H E. apply bank_pk_inj in E. congruence. Qed.

Lemma find_or_create_pos_le2 k bk la now i la1 ta tl k' :
  wrapper_find_or_create k bk la now = Ok (i, la1) -> pos_le2 ta tl k' la -> 0 <= ta -> 0 <= tl -> pos_le2 ta tl k' la1.
Proof.
  unfold wrapper_find_or_create. intros H Hp Ta Tl. destruct (find_active k la).
  - apply pair_ok in H as [_ <-]. exact Hp.
  - apply bind_ok in H as (u & _ & H). destruct (find_idx _ la 0); [|discriminate].
    apply pair_ok in H as [_ <-]. apply pos_le2_set_nth; [exact Hp|]. cbn [bl_a bl_l]. lia.
Qed.

Lemma liquidate_gap w liqor liqee ab lb amount ha hl ha' hl' ee er ee3 er3 :
  liquidate_facts w liqor liqee ab lb amount ha hl ha' hl' ee er ee3 er3 ->
  hb_ok ha -> hb_ok hl ->
  (forall ac, nth_res liqor (set_nth liqee (sort_acct ee) (hw_accts w)) = Ok ac ->
      Forall wf_bal (ha_la ac) /\ pos_le (hb_b ha) (bank_pk ab) (ha_la ac) /\ pos_le (hb_b hl) (bank_pk lb) (ha_la ac)) ->
  Forall wf_bal (ha_la ee) -> pos_le (hb_b ha) (bank_pk ab) (ha_la ee) -> pos_le (hb_b hl) (bank_pk lb) (ha_la ee) ->
  hb_ok ha' /\ hb_ok hl' /\ Forall wf_bal (ha_la ee3) /\ Forall wf_bal (ha_la er3) /\
  gap ha - acc_slack w ha - sv_slack w ha <= gap ha' /\
  gap hl - acc_slack w hl - sv_slack w hl <= gap hl'.
Proof.
  intros (ba1 & bl1 & er0 & q_liq & q_fin & ins_fee & i1 & la1 & b1 & bl2 & b1' & i2 & b2 & ba2 & b2' & i3 & la3 & b3 & ba3 & b3' &
          i4 & b4 & bl3 & b4' & ins_n & f & ba4 & bl5 & F) Hoka Hokl Her0 Wee Pea Pel.
  cbv zeta in F.
  destruct F as (Hamt & Hne & Hdist & Hacca & Haccl & Hr0 & Hif & Hif0 & Hqf0 & Hloc1 & Hb1 & Hdec1 & Hi2 & Hb2 & Hdec2 & Hloc3 & Hb3 & Hinc3 &
                 Hi4 & Hb4 & Hinc4 & Hinsn & Hvle & Hf & Hrange & Hca & Hcl & -> & -> & -> & ->).
  destruct (Her0 _ Hr0) as (Wer0 & Pra & Prl).
  unfold acc_slack, sv_slack. rewrite Hacca, Haccl.
  destruct (after_accrue _ _ _ _ _ Hoka Pea Hacca) as (Hoka1 & Hsa & Pea1 & Taa & Tla & Hsva).
  destruct (after_accrue _ _ _ _ _ Hokl Pel Haccl) as (Hokl1 & Hsl & Pel1 & Tal & Tll & Hsvl).
  destruct (after_accrue _ _ _ _ _ Hoka Pra Hacca) as (_ & _ & Pra1 & _).
  destruct (after_accrue _ _ _ _ _ Hokl Prl Haccl) as (_ & _ & Prl1 & _).
  apply usub_inv in Hif as [-> _].
  assert (Hq1 : 0 <= q_liq) by lia.
  assert (Ham0 : 0 <= of_int amount) by (unfold of_int; pose proof ONE_pos; nia).
  assert (Wee1 : Forall wf_bal (ha_la (sort_acct ee))) by (unfold sort_acct; cbn [ha_la]; apply Forall_sort; exact Wee).
  assert (Pea1s : pos_le ba1 (bank_pk ab) (ha_la (sort_acct ee))) by (unfold sort_acct; cbn [ha_la]; apply pos_le2_sort; exact Pea1).
  assert (Pel1s : pos_le bl1 (bank_pk lb) (ha_la (sort_acct ee))) by (unfold sort_acct; cbn [ha_la]; apply pos_le2_sort; exact Pel1).
  pose proof (bank_pk_neq _ _ Hne) as Hpkne.
  (* leg 1: liquidator's position in the liability bank decreases by q_liq *)
  destruct (located_le2 _ _ _ _ _ _ true _ _ _ Hloc1 Hb1 Wer0 Prl1 Tal Tll) as (Wb1 & Wla1 & L1a & L1l & A1 & K1 & _).
  destruct (dec_step _ _ _ _ _ _ _ _ Hokl1 Wb1 Hq1 L1a Hdec1) as (Hokl2 & Wb1' & Nl2 & El2a & El2l & Tl2 & Ta2 & Il2 & Gl2 & Pl2 & Ab1 & Kb1).
  (* leg 2: liquidatee's asset position decreases by the seized amount *)
  destruct (located_le2 _ ba1 _ _ _ (hw_now w) false _ _ _ (find_as_located _ _ _ Hi2) Hb2 Wee1 Pea1s Taa Tla) as (Wb2 & _ & L2a & L2l & A2 & K2 & _).
  destruct (dec_step _ _ _ _ _ _ _ _ Hoka1 Wb2 Ham0 L2a Hdec2) as (Hoka2 & Wb2' & Na2 & Ea2a & Ea2l & Tla2 & Taa2 & Ia2 & Ga2 & Pa2 & Ab2 & Kb2).
  (* leg 3: liquidator's position in the asset bank increases by the seized amount *)
  assert (Wer1 : Forall wf_bal (set_nth i1 b1' la1)) by (apply Forall_set_nth; assumption).
  assert (Pr3 : pos_le2 (b_tas ba1) (b_tls ba1) (bank_pk ab) (set_nth i1 b1' la1)).
  { apply pos_le2_set_nth; [eapply find_or_create_pos_le2; [exact Hloc1|exact Pra1|exact Taa|exact Tla]|].
    intros _ Hk. exfalso. rewrite Kb1, K1 in Hk. congruence. }
  destruct (located_le2 _ _ _ _ _ _ true _ _ _ Hloc3 Hb3 Wer1 Pr3 Taa Tla) as (Wb3 & Wla3 & L3a & L3l & A3 & K3 & _).
  destruct (inc_step _ _ _ _ _ _ _ _ Hoka2 Wb3 Ham0 ltac:(lia) Hinc3) as (Hoka3 & Wb3' & Na3 & Ea3a & Ea3l & Tla3 & Taa3 & Ia3 & Ga3 & Pa3 & _).
  (* leg 4: liquidatee's liability decreases by q_fin *)
  assert (Wee2 : Forall wf_bal (set_nth i2 b2' (ha_la (sort_acct ee)))) by (apply Forall_set_nth; assumption).
  assert (Pe4 : pos_le2 (b_tas bl1) (b_tls bl1) (bank_pk lb) (set_nth i2 b2' (ha_la (sort_acct ee)))).
  { apply pos_le2_set_nth; [exact Pel1s|]. intros _ Hk. exfalso. rewrite Kb2, K2 in Hk. congruence. }
  cbn [ha_la] in Hi4, Hb4.
  destruct (located_le2 _ bl2 _ _ _ (hw_now w) false _ _ _ (find_as_located _ _ _ Hi4) Hb4 Wee2 Pe4 Tal Tll) as (Wb4 & _ & L4a & L4l & _).
  destruct (inc_step _ _ _ _ _ _ _ _ Hokl2 Wb4 Hqf0 ltac:(lia) Hinc4) as (Hokl3 & Wb4' & Nl3 & El3a & El3l & Tll3 & Tal3 & Il3 & Gl3 & Pl3 & _).
  (* bookkeeping *)
  destruct (hb_ok_cache _ _ _ _ _ Hoka3 Hca) as (Hoka4 & Na4).
  assert (Hokl4 : hb_ok (set_hb_b (set_b_ins (b_ins bl3 + ffrac (q_liq - q_fin)) bl3) hl)).
  { destruct (hb_ok_tot _ Hokl3) as (X1 & X2). cbn [set_hb_b hb_b] in X1, X2.
    eapply hb_ok_step; [exact Hokl3|apply static_set_ins|reflexivity|reflexivity|exact X1|exact X2]. }
  destruct (hb_ok_cache _ _ _ _ _ Hokl4 Hcl) as (Hokl5 & Nl5).
  destruct (ffrac_split _ _ Hif0 Hinsn) as (Hsplit & Hfr0 & Hn0).
  split; [exact Hoka4|]. split; [exact Hokl5|].
  split; [cbn [ha_la]; apply Forall_set_nth; assumption|].
  split; [unfold sort_acct; cbn [ha_la]; apply Forall_sort; apply Forall_set_nth; assumption|].
  pose proof ONE_pos as HO.
  split.
  - unfold gap, gapb. cbn [set_hb_b hb_b hb_vault]. rewrite Na4. lia.
  - unfold gap, gapb. cbn [set_hb_b set_hb_vault set_hb_insv hb_b hb_vault]. rewrite Nl5.
    assert (NAV (set_b_ins (b_ins bl3 + ffrac (q_liq - q_fin)) bl3) = NAV bl3 + ffrac (q_liq - q_fin) * ONE).
    { unfold NAV, Dv, Lv, Fv. cbn [set_b_ins b_tas b_asv b_tls b_lsv b_ins b_grp b_prog]. lia. }
    nia.
Qed.
