(* SolvencyHandlers.v — C01 at handler level: how each successful instruction moves
   gap = vault * 2^96 - NAV of the bank it touches. *)
Require Import Base Constants Fixed Curve Bank BankOps Risk TransferFee Handlers.
Require Import FixedLemmas BankLemmas ValueLemmas CurveLemmas AccrualLemmas TransferFeeLemmas HandlerLemmas SolvencyLemmas FrameLemmas LedgerLemmas HandlerEffects.
From Coq Require Import ZifyBool.
Local Open Scope Z_scope.

(* every position of the account in bank key k is covered by the bank totals (implied by the ledger invariant) *)
Definition pos_le (bk : bank) (k : Z) (la : laccount) : Prop :=
  forall i bl, nth_error la i = Some bl -> bl_active bl = true -> bl_bank bl = k ->
  bl_a bl <= b_tas bk /\ bl_l bl <= b_tls bk.

Definition acc_slack (w : hworld) (hb : hbank) : Z :=
  match accrue_interest (hb_b hb) (hw_pf w) (hw_now w) with Ok bk1 => accrual_slack (hb_b hb) bk1 | Err _ => 0 end.

Lemma gap_mk_hb bk V hb : gap (mk_hb bk V hb) = gapb bk V.
Proof. reflexivity. Qed.
Lemma hb_ok_mk_hb bk V hb : hb_ok (set_hb_b bk hb) -> hb_ok (mk_hb bk V hb).
Proof. intros H. exact H. Qed.

Lemma cache_static b pf now b' : update_bank_cache b pf now = Ok b' -> bank_static b b'.
Proof. intros H. apply update_bank_cache_core in H as [-> | ->]; [apply bank_static_refl|apply static_set_last_update]. Qed.

(* a primitive / bookkeeping step that keeps share values and configuration keeps the bank well-formed *)
Lemma hb_ok_step hb bk bk' :
  hb_ok (set_hb_b bk hb) -> bank_static bk bk' -> b_asv bk' = b_asv bk -> b_lsv bk' = b_lsv bk ->
  0 <= b_tas bk' -> 0 <= b_tls bk' -> hb_ok (set_hb_b bk' hb).
Proof.
  intros H (Sir & _) E1 E2 T1 T2. eapply set_b_keeps_ok; eauto.
  destruct H as ((A & L & _ & _) & _). cbn [set_hb_b hb_b] in A, L. unfold wf_bank. lia.
Qed.

Lemma hb_ok_cache hb bk pf now bk' :
  hb_ok (set_hb_b bk hb) -> update_bank_cache bk pf now = Ok bk' -> hb_ok (set_hb_b bk' hb) /\ NAV bk' = NAV bk.
Proof.
  intros H Hc. pose proof (cache_static _ _ _ _ Hc) as S. destruct (NAV_cache _ _ _ _ Hc) as (N & E1 & E2 & T1 & T2 & _).
  split; [|exact N]. destruct H as ((A & L & Ta & Tl) & R). cbn [set_hb_b hb_b] in A, L, Ta, Tl.
  eapply hb_ok_step; eauto; try lia. split; [unfold wf_bank; cbn [set_hb_b hb_b]; lia|exact R].
Qed.

Lemma hb_ok_tot hb : hb_ok hb -> 0 <= b_tas (hb_b hb) /\ 0 <= b_tls (hb_b hb).
Proof. intros ((_ & _ & ? & ?) & _). split; assumption. Qed.
Lemma hb_ok_set_b_id hb : hb_ok hb -> hb_ok (set_hb_b (hb_b hb) hb).
Proof. intros H. destruct hb; exact H. Qed.

(* the located slot is covered by the totals *)
Lemma located_le k bk bk0 la now (create : bool) i la1 bl :
  (if create then wrapper_find_or_create k bk la now else let* i := wrapper_find k la in Ok (i, la)) = (Ok (i, la1) : res (nat * laccount)) ->
  nth_res i la1 = Ok bl -> Forall wf_bal la -> pos_le bk0 k la -> 0 <= b_tas bk0 -> 0 <= b_tls bk0 ->
  wf_bal bl /\ Forall wf_bal la1 /\ bl_a bl <= b_tas bk0 /\ bl_l bl <= b_tls bk0.
Proof.
  intros H Hn Hf Hp Ta Tl. pose proof (nth_res_ok _ _ _ Hn) as En.
  assert (Hfound : forall j, find_active k la = Some j -> j = i -> la1 = la ->
            wf_bal bl /\ Forall wf_bal la1 /\ bl_a bl <= b_tas bk0 /\ bl_l bl <= b_tls bk0).
  { intros j Hj -> ->. apply find_active_spec in Hj as (bl0 & H1 & H2 & H3). rewrite En in H1. apply Some_inj in H1 as <-.
    split; [eapply Forall_nth_error; eauto|]. split; [exact Hf|]. eapply Hp; eauto. }
  destruct create.
  - unfold wrapper_find_or_create in H. destruct (find_active k la) as [j|] eqn:Ej.
    + apply pair_ok in H as [<- <-]. eapply Hfound; eauto.
    + apply bind_ok in H as (u & _ & H). destruct (find_idx _ la 0) as [j|] eqn:Ei; [|discriminate].
      apply pair_ok in H as [<- <-]. apply find_idx_spec in Ei as (bl0 & H1 & H2 & _). rewrite Nat.sub_0_r in H1.
      rewrite (nth_set_nth_same _ _ _ _ H1) in En. apply Some_inj in En as <-.
      cbn [bl_a bl_l]. split; [unfold wf_bal; cbn; lia|]. split; [|lia].
      apply Forall_set_nth; [exact Hf|]. unfold wf_bal; cbn; lia.
  - unfold wrapper_find in H. destruct (find_active k la) as [j|] eqn:Ej; [|discriminate].
    cbn [bind] in H. apply pair_ok in H as [<- <-]. eapply Hfound; eauto.
Qed.

Lemma find_as_located k la i : wrapper_find k la = Ok i ->
  (let* i := wrapper_find k la in Ok (i, la)) = (Ok (i, la) : res (nat * laccount)).
Proof. intros ->. reflexivity. Qed.

Lemma wf_sort_set la i bl fl : Forall wf_bal la -> wf_bal bl -> Forall wf_bal (ha_la (sort_acct (mkHA (set_nth i bl la) fl))).
Proof. intros H1 H2. unfold sort_acct. cbn [ha_la]. apply Forall_sort. apply Forall_set_nth; assumption. Qed.

(* ---------------------------------------------------------------- deposit *)
Lemma deposit_gap w a b amount hb hb' ac ac' :
  deposit_facts w a b amount hb hb' ac ac' -> hb_ok hb -> Forall wf_bal (ha_la ac) -> pos_le (hb_b hb) (bank_pk b) (ha_la ac) ->
  hb_ok hb' /\ Forall wf_bal (ha_la ac') /\ gap hb - acc_slack w hb <= gap hb'.
Proof.
  intros (bk1 & Hacc & _ & _ & Hcase) Hok Hwf Hpos. unfold acc_slack. rewrite Hacc.
  destruct (hb_ok_after_accrue _ _ _ _ Hok Hacc) as (Hok1 & Hs).
  destruct (hb_ok_tot _ Hok) as (Ta & Tl).
  pose proof (accrue_monotone (hb_b hb) _ _ _ ltac:(destruct Hok as ((?&?&?&?)&_); assumption) ltac:(destruct Hok as ((?&?&?&?)&_); assumption) Ta Tl Hacc) as (_ & _ & _ & _ & _ & _ & T1 & T2 & _).
  destruct Hcase as [[-> ->] | (dep & i & la1 & bl & bk2 & bl2 & pre & f & bk3 & Hd & Hloc & Hbl & Hinc & Hpre & Hf & Hcache & -> & ->)].
  - split; [exact Hok1|]. split; [exact Hwf|]. unfold gap, gapb. cbn [set_hb_b hb_b hb_vault]. lia.
  - assert (Hpos1 : pos_le bk1 (bank_pk b) (ha_la ac)) by (intros j x Hx Hax Hbx; rewrite T1, T2; eapply Hpos; eauto).
    destruct (located_le _ _ bk1 _ _ true _ _ _ Hloc Hbl Hwf Hpos1 ltac:(lia) ltac:(lia)) as (Wbl & Wla1 & La & Ll).
    pose proof (hb_ok_sv _ Hok1) as Hsv1. cbn [set_hb_b hb_b] in Hsv1.
    assert (Hdn : 0 <= of_int dep) by (unfold of_int; pose proof ONE_pos; nia).
    destruct (NAV_increase _ _ _ _ _ _ _ Hsv1 Wbl Hdn Hinc) as (N1 & N0 & Wbl2).
    pose proof (increase_balance_inv _ _ _ _ _ _ _ Hsv1 Wbl Hdn Hinc) as F.
    destruct (if_sv _ _ _ _ _ _ F) as [S1 S2].
    pose proof (if_a _ _ _ _ _ _ F) as Fa. pose proof (if_l _ _ _ _ _ _ F) as Fl.
    pose proof (if_tas _ _ _ _ _ _ F) as Fta. pose proof (if_tls _ _ _ _ _ _ F) as Ftl.
    destruct Wbl as [Wa Wl]. destruct Wbl2 as [Wa2 Wl2].
    assert (Hok2 : hb_ok (set_hb_b bk2 hb)).
    { eapply hb_ok_step; [exact Hok1|eapply static_increase; eauto|assumption|assumption|lia|lia]. }
    destruct (hb_ok_cache _ _ _ _ _ Hok2 Hcache) as (Hok3 & N3).
    split; [apply hb_ok_mk_hb; exact Hok3|]. split; [apply wf_sort_set; [assumption|split; assumption]|].
    rewrite gap_mk_hb. unfold gap, gapb. rewrite N3.
    destruct Hok as (_ & _ & _ & _ & Hb1 & Hb2).
    destruct (pre_fee_covers hb dep pre f Hb1 Hb2 ltac:(lia) Hpre Hf) as (Hcov & _).
    unfold of_int in N1. pose proof ONE_pos. nia.
Qed.

Lemma pre_fee_nonneg hb post pre : 0 <= hb_tf_bps hb <= 10000 -> 0 <= hb_tf_max hb -> 0 <= post -> pre_fee hb post = Ok pre -> 0 <= pre.
Proof.
  intros Hb Hm Hp. unfold pre_fee. destruct (hb_t22 hb).
  - intros H1. apply prefee_wrapper in H1. unfold calculate_pre_fee_amount in H1.
    destruct (hb_tf_bps hb =? 0); [apply Ok_inj in H1; lia|].
    destruct (post =? 0); [apply Ok_inj in H1; lia|].
    destruct (hb_tf_bps hb =? BPS_ONE); [apply chko_inv in H1 as [-> _]; lia|].
    apply bind_ok in H1 as (x1 & _ & H1). apply bind_ok in H1 as (x2 & _ & H1).
    apply bind_ok in H1 as (x3 & _ & H1). apply bind_ok in H1 as (x4 & _ & H1).
    destruct (hb_tf_max hb <=? x4); apply chko_inv in H1 as [H1 H1r]; unfold in_u64, in_range in H1r; lia.
  - intros H1. apply Ok_inj in H1. lia.
Qed.

Definition sv_slack (w : hworld) (hb : hbank) : Z :=
  match accrue_interest (hb_b hb) (hw_pf w) (hw_now w) with Ok bk1 => b_asv bk1 + b_lsv bk1 | Err _ => 0 end.

Lemma ashares_nonneg b x : 0 <= b_asv b -> 0 <= x -> 0 <= ashares b x.
Proof. intros Ha Hx. unfold ashares. destruct (b_asv b =? 0) eqn:E; [lia|]. apply Z.div_pos; [pose proof ONE_pos; nia|lia]. Qed.
Lemma lshares_nonneg b x : 0 < b_lsv b -> 0 <= x -> 0 <= lshares b x.
Proof. intros Hl Hx. unfold lshares. apply Z.div_pos; [pose proof ONE_pos; nia|lia]. Qed.

(* facts shared by every handler after the accrual step *)
Lemma after_accrue w b hb ac bk1 :
  hb_ok hb -> pos_le (hb_b hb) (bank_pk b) (ha_la ac) -> accrue_interest (hb_b hb) (hw_pf w) (hw_now w) = Ok bk1 ->
  hb_ok (set_hb_b bk1 hb) /\ NAV bk1 - NAV (hb_b hb) <= accrual_slack (hb_b hb) bk1 /\
  pos_le bk1 (bank_pk b) (ha_la ac) /\ 0 <= b_tas bk1 /\ 0 <= b_tls bk1 /\ wf_sv bk1.
Proof.
  intros Hok Hpos Hacc. destruct (hb_ok_after_accrue _ _ _ _ Hok Hacc) as (Hok1 & Hs).
  destruct (hb_ok_tot _ Hok) as (Ta & Tl).
  pose proof (accrue_monotone (hb_b hb) _ _ _ ltac:(destruct Hok as ((?&?&?&?)&_); assumption) ltac:(destruct Hok as ((?&?&?&?)&_); assumption) Ta Tl Hacc) as (_ & _ & _ & _ & _ & _ & T1 & T2 & _).
  split; [exact Hok1|]. split; [exact Hs|]. split; [intros j x Hx Hax Hbx; rewrite T1, T2; eapply Hpos; eauto|].
  split; [lia|]. split; [lia|]. pose proof (hb_ok_sv _ Hok1) as S. exact S.
Qed.

(* ---------------------------------------------------------------- withdraw *)
Lemma withdraw_gap w w' a b amount all hb hb' ac ac' :
  0 <= amount -> withdraw_facts w w' a b amount all hb hb' ac ac' -> hb_ok hb -> Forall wf_bal (ha_la ac) ->
  pos_le (hb_b hb) (bank_pk b) (ha_la ac) ->
  hb_ok hb' /\ Forall wf_bal (ha_la ac') /\ gap hb - acc_slack w hb - sv_slack w hb <= gap hb'.
Proof.
  intros Hamt (bk1 & i & bl & bk2 & bl2 & pre & paid & bk3 & Hacc & _ & Hi & Hbl & Hprim & Hpaid & Hle & Hcache & -> & -> & _) Hok Hwf Hpos.
  unfold acc_slack, sv_slack. rewrite Hacc.
  destruct (after_accrue _ _ _ _ _ Hok Hpos Hacc) as (Hok1 & Hs & Hpos1 & Ta1 & Tl1 & Hsv1).
  destruct (located_le _ bk1 bk1 _ (hw_now w) false _ _ _ (find_as_located _ _ _ Hi) Hbl Hwf Hpos1 Ta1 Tl1) as (Wbl & _ & La & Ll).
  assert (Hpp : paid <= pre) by (subst paid; destruct (get_flag _ _); lia).
  destruct Hok as (_ & _ & _ & _ & Hb1 & Hb2).
  destruct all.
  - destruct (NAV_withdraw_all _ _ _ _ _ _ Hsv1 Wbl Hprim) as (N1 & Hn0).
    pose proof (withdraw_all_inv _ _ _ _ _ _ Hsv1 Wbl Hprim) as F.
    destruct (wa_sv _ _ _ _ _ F) as [S1 S2]. pose proof (wa_tas _ _ _ _ _ F) as Fta. pose proof (wa_tls _ _ _ _ _ F) as Ftl.
    assert (Hok2 : hb_ok (set_hb_b bk2 hb)).
    { eapply hb_ok_step; [exact Hok1|eapply static_withdraw_all; eauto|assumption|assumption|lia|lia]. }
    destruct (hb_ok_cache _ _ _ _ _ Hok2 Hcache) as (Hok3 & N3).
    split; [apply hb_ok_mk_hb; exact Hok3|]. split.
    { apply wf_sort_set; [assumption|]. rewrite (wa_closed _ _ _ _ _ F). unfold wf_bal; cbn; lia. }
    rewrite gap_mk_hb. unfold gap, gapb. rewrite N3. destruct Hsv1. pose proof ONE_pos. nia.
  - destruct Hprim as (Hpre & Hdec).
    pose proof (pre_fee_nonneg _ _ _ Hb1 Hb2 Hamt Hpre) as Hp0.
    assert (Hdn : 0 <= of_int pre) by (unfold of_int; pose proof ONE_pos; nia).
    destruct (NAV_decrease _ _ _ _ _ _ _ Hsv1 Wbl Hdn Hdec) as (N1 & Wbl2).
    pose proof (decrease_balance_inv _ _ _ _ _ _ _ Hsv1 Wbl Hdn Hdec) as F.
    destruct (df_sv _ _ _ _ _ _ F) as [S1 S2].
    pose proof (df_a _ _ _ _ _ _ F) as Fa. pose proof (df_l _ _ _ _ _ _ F) as Fl.
    pose proof (df_tas _ _ _ _ _ _ F) as Fta. pose proof (df_tls _ _ _ _ _ _ F) as Ftl.
    destruct Wbl as [Wa Wl]. destruct Wbl2 as [Wa2 Wl2].
    assert (Hok2 : hb_ok (set_hb_b bk2 hb)).
    { eapply hb_ok_step; [exact Hok1|eapply static_decrease; eauto|assumption|assumption|lia|lia]. }
    destruct (hb_ok_cache _ _ _ _ _ Hok2 Hcache) as (Hok3 & N3).
    split; [apply hb_ok_mk_hb; exact Hok3|]. split; [apply wf_sort_set; [assumption|split; assumption]|].
    rewrite gap_mk_hb. unfold gap, gapb. rewrite N3. unfold of_int in N1. pose proof ONE_pos. nia.
Qed.
