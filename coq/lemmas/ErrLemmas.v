(* ErrLemmas.v — error provenance: which computations of the handler model can end with the
   error code RiskEngineInitRejected.  Used by the converse half of C04 ("a borrow / withdrawal is
   rejected with RiskEngineInitRejected only by the health comparison of the risk engine").
     simple r : r never ends with a program error code (only abort / None)
     ng r     : r never ends with Err (E E_RiskEngineInitRejected) *)
Require Import Base Constants Fixed Curve Bank BankOps Risk TransferFee Handlers FixedLemmas BankLemmas.
From Coq Require Import ZifyBool.
Local Open Scope Z_scope.

Lemma bind_err {A B} (r : res A) (f : A -> res B) e :
  bind r f = Err e -> r = Err e \/ exists a, r = Ok a /\ f a = Err e.
Proof. destruct r as [a|e']; cbn; intros H; [right; eauto | left; congruence]. Qed.

Definition simple {A} (r : res A) : Prop := forall c, r <> Err (E c).
Definition ng {A} (r : res A) : Prop := r <> Err (E E_RiskEngineInitRejected).

Lemma simple_ng {A} (r : res A) : simple r -> ng r.
Proof. intros H. apply H. Qed.

Lemma simple_ok {A} (a : A) : simple (Ok a).
Proof. intros c H; discriminate. Qed.
Lemma simple_panic {A} : simple (@Err A EPanic).
Proof. intros c H; discriminate. Qed.
Lemma simple_none {A} : simple (@Err A ENone).
Proof. intros c H; discriminate. Qed.
Lemma simple_bind {A B} (r : res A) (f : A -> res B) :
  simple r -> (forall a, simple (f a)) -> simple (bind r f).
Proof. intros Hr Hf c H. apply bind_err in H as [H | (a & _ & H)]; [exact (Hr c H) | exact (Hf a c H)]. Qed.
Lemma simple_chko inr z : simple (chko inr z).
Proof. unfold chko. destruct (inr z); [apply simple_ok | apply simple_none]. Qed.
Lemma simple_chk inr z : simple (chk inr z).
Proof. unfold chk. destruct (inr z); [apply simple_ok | apply simple_panic]. Qed.
Lemma simple_assert b : simple (assert b).
Proof. unfold assert. destruct b; [apply simple_ok | apply simple_panic]. Qed.
Lemma simple_nth_res {A} n (l : list A) : simple (nth_res n l).
Proof. unfold nth_res. destruct (nth_error l n); [apply simple_ok | apply simple_panic]. Qed.

Lemma ng_ok {A} (a : A) : ng (Ok a).
Proof. intros H; discriminate. Qed.
Lemma ng_bind {A B} (r : res A) (f : A -> res B) :
  ng r -> (forall a, ng (f a)) -> ng (bind r f).
Proof. intros Hr Hf H. apply bind_err in H as [H | (a & _ & H)]; [exact (Hr H) | exact (Hf a H)]. Qed.
Lemma ng_bind_ok {A B} (r : res A) (f : A -> res B) :
  ng r -> (forall a, r = Ok a -> ng (f a)) -> ng (bind r f).
Proof. intros Hr Hf H. apply bind_err in H as [H | (a & Ha & H)]; [exact (Hr H) | exact (Hf a Ha H)]. Qed.
Lemma ng_math {A} (r : res A) : ng r -> ng (math r).
Proof.
  unfold ng, math, ok_or. intros Hr H. destruct r as [a|[| |c]]; try discriminate; try (exact (Hr H)).
Qed.
Lemma ng_ok_or {A} (r : res A) e : ng r -> e <> E E_RiskEngineInitRejected -> ng (ok_or r e).
Proof.
  unfold ng, ok_or. intros Hr He H. destruct r as [a|[| |c]]; try discriminate; try (exact (Hr H)).
  apply He. congruence.
Qed.
Lemma ng_check c e : e <> E E_RiskEngineInitRejected -> ng (check c e).
Proof. unfold ng, check. intros Hk H. destruct c; [discriminate|]. apply Hk. congruence. Qed.
Lemma ng_err {A} e : e <> E E_RiskEngineInitRejected -> ng (@Err A e).
Proof. unfold ng. intros Hk H. apply Hk. congruence. Qed.
Lemma ng_panic {A} : ng (@Err A EPanic).
Proof. intros H; discriminate. Qed.

(* ---------------------------------------------------------------- tactics *)
(* all dispatch is syntactic (lazymatch on the head of the computation): `apply` must never be
   allowed to unify `bind _ _` with some other definition by unfolding *)
Ltac ne_err := (let Hne := fresh "Hne" in intros Hne; vm_compute in Hne; discriminate Hne).

Create HintDb simple_db.
Ltac simple_step :=
  lazymatch goal with
  | |- simple (Ok _) => apply simple_ok
  | |- simple (Err EPanic) => apply simple_panic
  | |- simple (Err ENone) => apply simple_none
  | |- simple (bind _ _) => apply simple_bind; [ | intros ? ]
  | |- simple (chko _ _) => apply simple_chko
  | |- simple (chk _ _) => apply simple_chk
  | |- simple (assert _) => apply simple_assert
  | |- simple (nth_res _ _) => apply simple_nth_res
  | |- simple (if ?c then _ else _) => destruct c
  | |- simple (match ?x with _ => _ end) => destruct x
  | |- simple _ => solve [auto with simple_db]
  end.
Ltac simple_go := repeat simple_step.

(* fixed-point primitives *)
Lemma simple_cadd a b : simple (cadd a b). Proof. apply simple_chko. Qed.
Lemma simple_csub a b : simple (csub a b). Proof. apply simple_chko. Qed.
Lemma simple_cmul a b : simple (cmul a b). Proof. apply simple_chko. Qed.
Lemma simple_cdiv a b : simple (cdiv a b). Proof. unfold cdiv. simple_go. Qed.
Lemma simple_uadd a b : simple (uadd a b). Proof. apply simple_chk. Qed.
Lemma simple_usub a b : simple (usub a b). Proof. apply simple_chk. Qed.
Lemma simple_uneg a : simple (uneg a). Proof. apply simple_chk. Qed.
Lemma simple_wdiv a b : simple (wdiv a b). Proof. unfold wdiv. simple_go. Qed.
Lemma simple_cfloor a : simple (cfloor a). Proof. apply simple_chko. Qed.
Lemma simple_cceil a : simple (cceil a). Proof. apply simple_chko. Qed.
Lemma simple_to_u64 a : simple (to_u64_checked a). Proof. apply simple_chko. Qed.
Lemma simple_exp10 i : simple (exp10_fx i). Proof. unfold exp10_fx. simple_go. Qed.

#[export] Hint Resolve simple_cadd simple_csub simple_cmul simple_cdiv simple_uadd simple_usub simple_uneg
  simple_wdiv simple_cfloor simple_cceil simple_to_u64 simple_exp10 simple_ok simple_panic simple_none
  simple_chko simple_chk simple_assert simple_nth_res : simple_db.

Ltac simple_auto := repeat simple_step.

(* curve *)
Lemma simple_lerp sx sy ex ey tx : simple (lerp sx sy ex ey tx).
Proof. unfold lerp. simple_auto. Qed.
Lemma simple_rate_from_u32 r : simple (rate_from_u32 r).
Proof. unfold rate_from_u32. simple_auto. Qed.
Lemma simple_util_from_u32 r : simple (util_from_u32 r).
Proof. unfold util_from_u32. simple_auto. Qed.
#[export] Hint Resolve simple_lerp simple_rate_from_u32 simple_util_from_u32 : simple_db.
Lemma simple_mpc_loop pts : forall pu pr ur hr, simple (mpc_loop pts pu pr ur hr).
Proof.
  induction pts as [|p rest IH]; intros; cbn [mpc_loop]; [auto with simple_db|].
  destruct (rp_util p =? 0); [apply IH|].
  apply simple_bind; [auto with simple_db|intros pu']. apply simple_bind; [auto with simple_db|intros pr'].
  destruct (ur <=? pu'); [auto with simple_db | apply IH].
Qed.
#[export] Hint Resolve simple_mpc_loop : simple_db.
Lemma simple_mpc c ur : simple (mpc c ur).
Proof. unfold mpc. simple_auto. Qed.
Lemma simple_legacy c ur : simple (legacy_curve c ur).
Proof. unfold legacy_curve. simple_auto. Qed.
Lemma simple_calc_fee_rate a b c : simple (calc_fee_rate a b c).
Proof. unfold calc_fee_rate. simple_auto. Qed.
#[export] Hint Resolve simple_mpc simple_legacy simple_calc_fee_rate : simple_db.
Lemma simple_calc_interest_rate c pf ur : simple (calc_interest_rate c pf ur).
Proof. unfold calc_interest_rate. simple_auto. Qed.
#[export] Hint Resolve simple_calc_interest_rate : simple_db.

Lemma simple_accrued a b c : simple (accrued_per_period a b c).
Proof. unfold accrued_per_period. simple_auto. Qed.
Lemma simple_payment a b c : simple (payment_for_period a b c).
Proof. unfold payment_for_period. simple_auto. Qed.
#[export] Hint Resolve simple_accrued simple_payment : simple_db.
Lemma simple_accrual_state_changes dt a l c pf asv lsv : simple (accrual_state_changes dt a l c pf asv lsv).
Proof. unfold accrual_state_changes. simple_auto. Qed.
#[export] Hint Resolve simple_accrual_state_changes : simple_db.

(* transfer fee *)
Lemma simple_ceil_div n d : simple (ceil_div n d).
Proof. unfold ceil_div. simple_auto. Qed.
#[export] Hint Resolve simple_ceil_div : simple_db.
Lemma simple_calculate_fee a b c : simple (calculate_fee a b c).
Proof. unfold calculate_fee. simple_auto. Qed.
Lemma simple_tfee hb n : simple (tfee hb n).
Proof. unfold tfee. destruct (hb_t22 hb); [|apply simple_ok]. destruct (calculate_fee _ _ _); [apply simple_ok | apply simple_panic]. Qed.
Lemma simple_pre_fee hb n : simple (pre_fee hb n).
Proof.
  unfold pre_fee, pre_fee_deposit_amount. destruct (hb_t22 hb); [|apply simple_ok].
  destruct (calculate_pre_fee_amount _ _ _); [apply simple_ok | apply simple_panic].
Qed.
#[export] Hint Resolve simple_calculate_fee simple_tfee simple_pre_fee : simple_db.

(* ---------------------------------------------------------------- ng for the bank / wrapper layer *)
Create HintDb ng_db.
Lemma ng_math_simple {A} (r : res A) : simple r -> ng (math r).
Proof. intros H. apply ng_math, simple_ng, H. Qed.

Ltac ng_step :=
  lazymatch goal with
  | |- ng (Ok _) => apply ng_ok
  | |- ng (Err _) => apply ng_err; ne_err
  | |- ng (bind _ _) => apply ng_bind; [ | intros ? ]
  | |- ng (math _) => first [ solve [apply ng_math_simple; auto with simple_db] | apply ng_math ]
  | |- ng (ok_or _ _) => apply ng_ok_or; [ | ne_err ]
  | |- ng (check _ _) => apply ng_check; ne_err
  | |- ng (assert _) => apply simple_ng, simple_assert
  | |- ng (if ?c then _ else _) => destruct c
  | |- ng (match ?x with _ => _ end) => destruct x
  | |- ng _ => first [ solve [auto with ng_db] | solve [apply simple_ng; auto with simple_db] ]
  end.
Ltac ng_auto := repeat ng_step.

Lemma ng_get_asset_amount b s : ng (get_asset_amount b s).
Proof. unfold get_asset_amount. ng_auto. Qed.
Lemma ng_get_liability_amount b s : ng (get_liability_amount b s).
Proof. unfold get_liability_amount. ng_auto. Qed.
Lemma ng_get_liability_shares b s : ng (get_liability_shares b s).
Proof. unfold get_liability_shares. ng_auto. Qed.
Lemma ng_get_asset_shares b s : ng (get_asset_shares b s).
Proof. unfold get_asset_shares. ng_auto. Qed.
#[export] Hint Resolve ng_get_asset_amount ng_get_liability_amount ng_get_liability_shares ng_get_asset_shares : ng_db.

Lemma ng_bank_scale l d : ng (bank_scale_drift_deposit_limit l d).
Proof. unfold bank_scale_drift_deposit_limit. ng_auto. Qed.
#[export] Hint Resolve ng_bank_scale : ng_db.
Lemma ng_deposit_limit_fx b : ng (deposit_limit_fx b).
Proof. unfold deposit_limit_fx. ng_auto. Qed.
#[export] Hint Resolve ng_deposit_limit_fx : ng_db.
Lemma ng_change_asset_shares b s y : ng (change_asset_shares b s y).
Proof. unfold change_asset_shares. ng_auto. Qed.
Lemma ng_change_liability_shares b s y : ng (change_liability_shares b s y).
Proof. unfold change_liability_shares. ng_auto. Qed.
Lemma ng_check_utilization b : ng (check_utilization_ratio b).
Proof. unfold check_utilization_ratio. ng_auto. Qed.
#[export] Hint Resolve ng_change_asset_shares ng_change_liability_shares ng_check_utilization : ng_db.

Lemma ng_accrue b pf now : ng (accrue_interest b pf now).
Proof. unfold accrue_interest. ng_auto. Qed.
Lemma ng_update_bank_cache b pf now : ng (update_bank_cache b pf now).
Proof. unfold update_bank_cache. ng_auto. Qed.
#[export] Hint Resolve ng_accrue ng_update_bank_cache : ng_db.

Lemma ng_get_side bl : ng (get_side bl).
Proof. unfold get_side. ng_auto. Qed.
#[export] Hint Resolve ng_get_side : ng_db.
Lemma ng_calc_emissions a b c d : ng (calc_emissions a b c d).
Proof. unfold calc_emissions. ng_auto. Qed.
#[export] Hint Resolve ng_calc_emissions : ng_db.
Lemma ng_claim_emissions b bl now : ng (claim_emissions b bl now).
Proof. unfold claim_emissions. ng_auto. Qed.
#[export] Hint Resolve ng_claim_emissions : ng_db.
Lemma ng_increase_balance b bl now d t : ng (increase_balance b bl now d t).
Proof. unfold increase_balance. ng_auto. Qed.
Lemma ng_decrease_balance b bl now d t : ng (decrease_balance b bl now d t).
Proof. unfold decrease_balance. ng_auto. Qed.
Lemma ng_balance_close bl : ng (balance_close bl).
Proof. unfold balance_close. ng_auto. Qed.
#[export] Hint Resolve ng_increase_balance ng_decrease_balance ng_balance_close : ng_db.
Lemma ng_withdraw_all b bl now : ng (withdraw_all b bl now).
Proof. unfold withdraw_all. ng_auto. Qed.
Lemma ng_wrapper_find k la : ng (wrapper_find k la).
Proof. unfold wrapper_find. ng_auto. Qed.
Lemma ng_wrapper_find_or_create k b la now : ng (wrapper_find_or_create k b la now).
Proof. unfold wrapper_find_or_create. ng_auto. Qed.
#[export] Hint Resolve ng_withdraw_all ng_wrapper_find ng_wrapper_find_or_create : ng_db.

(* handler-level helpers *)
Lemma ng_validate_bank_state b k : ng (validate_bank_state b k).
Proof. unfold validate_bank_state. ng_auto. Qed.
Lemma ng_validate_asset_tags b la : ng (validate_asset_tags b la).
Proof. unfold validate_asset_tags. ng_auto. Qed.
Lemma ng_nth_bank w b : ng (nth_bank w b).
Proof. apply simple_ng, simple_nth_res. Qed.
Lemma ng_nth_acct w b : ng (nth_acct w b).
Proof. apply simple_ng, simple_nth_res. Qed.
Lemma ng_utok w a b : ng (utok w a b).
Proof. unfold utok. ng_auto. Qed.
#[export] Hint Resolve ng_validate_bank_state ng_validate_asset_tags ng_nth_bank ng_nth_acct ng_utok : ng_db.
Lemma ng_xfer_out w a b n : ng (xfer_out w a b n).
Proof. unfold xfer_out, E_TOKEN_INSUFFICIENT. ng_auto. Qed.
#[export] Hint Resolve ng_xfer_out : ng_db.
