(* LifecycleLedger.v — C02 for account transfer and account close (model AcctLifecycle.v): a transfer keeps the sum of
   the positions of every bank over all accounts; closing an account removes only positions the code treats as
   empty (both sides below one share-unit). *)
Require Import Base Constants TxConstants Fixed Curve Bank BankOps AcctLifecycle.
Require Import FixedLemmas BankLemmas LedgerLemmas.
From Coq Require Import ZifyBool.
Local Open Scope Z_scope.

Lemma nth_set_other {A} (l : list A) n k v : n <> k -> nth_error (set_nth n v l) k = nth_error l k.
Proof.
  revert n k; induction l as [|a l IH]; intros [|n] [|k] H; cbn; try reflexivity; try congruence. apply IH. congruence.
Qed.

Definition osum (f : balance -> Z) (accts : list (option macct)) : Z :=
  fold_right (fun o acc => (match o with Some a => lsum f (ma_la a) | None => 0 end) + acc) 0 accts.

Definition oval (f : balance -> Z) (o : option macct) : Z := match o with Some a => lsum f (ma_la a) | None => 0 end.

Lemma osum_set_nth f accts n old v : nth_error accts n = Some old ->
  osum f (set_nth n v accts) = osum f accts - oval f old + oval f v.
Proof.
  revert n; induction accts as [|x r IH]; intros [|n] H; cbn [nth_error] in H; try discriminate.
  - inversion H; subst. unfold osum, oval. cbn [set_nth fold_right]. lia.
  - specialize (IH _ H). unfold osum in *. cbn [set_nth fold_right]. rewrite IH. lia.
Qed.

Lemma lsum_zeroed f : f (mkBal false 0 0 0 0 0 0) = 0 -> lsum f la_zeroed = 0.
Proof. intros H. unfold la_zeroed. cbn [repeat lsum]. rewrite !H. reflexivity. Qed.

Lemma ca_zeroed k : ca k (mkBal false 0 0 0 0 0 0) = 0 /\ cl k (mkBal false 0 0 0 0 0 0) = 0.
Proof. split; reflexivity. Qed.

(* transfer_to_new_account keeps, for every bank key, the sum of recorded asset and liability shares *)
Theorem transfer_keeps_position_sums w old new signer na fw w' k :
  h_transfer w old new signer na fw = Ok w' ->
  osum (ca k) (lw_accts w') = osum (ca k) (lw_accts w) /\ osum (cl k) (lw_accts w') = osum (cl k) (lw_accts w).
Proof.
  unfold h_transfer. intros H. apply bind_ok in H as (A & HA & H).
  apply bind_ok in H as (u0 & Hfresh & H).
  destruct (nth_error (lw_accts w) new) as [[x|]|] eqn:En; try discriminate.
  apply bind_ok in H as (u1 & _ & H). apply bind_ok in H as (u2 & _ & H). apply bind_ok in H as (u3 & _ & H).
  apply bind_ok in H as (u4 & _ & H). apply bind_ok in H as (u5 & _ & H). apply bind_ok in H as (u6 & _ & H).
  apply bind_ok in H as (u7 & _ & H). apply bind_ok in H as (u8 & _ & H). apply Ok_inj in H. subst w'.
  unfold get_macct in HA. destruct (nth_error (lw_accts w) old) as [[a0|]|] eqn:Eo; try discriminate.
  apply Ok_inj in HA. subst a0.
  assert (Hne : old <> new) by (intros ->; rewrite Eo in En; discriminate).
  unfold set_macct. cbn [lw_accts].
  split.
  - erewrite osum_set_nth; [|rewrite nth_set_other by assumption; exact En].
    rewrite (osum_set_nth _ _ _ _ _ Eo). unfold oval. cbn [ma_la].
    rewrite (lsum_zeroed _ (proj1 (ca_zeroed k))). lia.
  - erewrite osum_set_nth; [|rewrite nth_set_other by assumption; exact En].
    rewrite (osum_set_nth _ _ _ _ _ Eo). unfold oval. cbn [ma_la].
    rewrite (lsum_zeroed _ (proj2 (ca_zeroed k))). lia.
Qed.

(* the PDA variant of the transfer instruction *)
Lemma keep_last_update_sums f w0 w old : osum f (lw_accts (keep_last_update w0 w old)) = osum f (lw_accts w).
Proof.
  unfold keep_last_update. destruct (get_macct w0 old) as [A0|e0]; [|reflexivity].
  destruct (get_macct w old) as [A|e] eqn:EA; [|reflexivity].
  unfold get_macct in EA. destruct (nth_error (lw_accts w) old) as [[a0|]|] eqn:Eo; try discriminate.
  apply Ok_inj in EA. subst a0.
  unfold set_macct. cbn [lw_accts]. rewrite (osum_set_nth _ _ _ _ _ Eo). unfold oval. cbn [ma_la]. lia.
Qed.

Theorem transfer_pda_keeps_position_sums w old new signer na fw w' k :
  h_transfer_pda w old new signer na fw = Ok w' ->
  osum (ca k) (lw_accts w') = osum (ca k) (lw_accts w) /\ osum (cl k) (lw_accts w') = osum (cl k) (lw_accts w).
Proof.
  unfold h_transfer_pda. intros H. apply bind_ok in H as (w1 & H1 & H). apply Ok_inj in H. subst w'.
  rewrite !keep_last_update_sums. exact (transfer_keeps_position_sums _ _ _ _ _ _ _ k H1).
Qed.

(* close: all_empty = every slot has both sides below one share-unit (EMPTY_BALANCE_THRESHOLD) *)
Lemma all_empty_small la : all_empty la = Ok true -> Forall (fun bl => bl_a bl < EMPTY_BALANCE_THRESHOLD /\ bl_l bl < EMPTY_BALANCE_THRESHOLD) la.
Proof.
  induction la as [|x r IH]; intros H; [constructor|]. cbn [all_empty] in H.
  apply bind_ok in H as (sd & Hs & H).
  destruct sd as [s|]; [destruct s; apply Ok_inj in H; discriminate|].
  constructor; [|apply IH; exact H].
  unfold get_side in Hs. apply bind_ok in Hs as (u & _ & Hs).
  destruct (EMPTY_BALANCE_THRESHOLD <=? bl_l x) eqn:El; [apply Ok_inj in Hs; discriminate|].
  destruct (EMPTY_BALANCE_THRESHOLD <=? bl_a x) eqn:Ea; [apply Ok_inj in Hs; discriminate|]. lia.
Qed.

Theorem close_removes_only_empty_positions w a signer w' :
  h_close w a signer = Ok w' ->
  exists A, get_macct w a = Ok A /\
    Forall (fun bl => bl_a bl < EMPTY_BALANCE_THRESHOLD /\ bl_l bl < EMPTY_BALANCE_THRESHOLD) (ma_la A) /\
    lw_accts w' = set_nth a None (lw_accts w).
Proof.
  unfold h_close. intros H. apply bind_ok in H as (A & HA & H). apply bind_ok in H as (u & _ & H).
  destruct (mflag A ACCOUNT_FROZEN); [discriminate|].
  apply bind_ok in H as (ok & Hok & H). apply bind_ok in H as (u2 & Hc & H). apply check_ok in Hc. subst ok.
  apply Ok_inj in H. subst w'. exists A. split; [exact HA|]. split; [|reflexivity].
  unfold can_be_closed in Hok. apply bind_ok in Hok as (oe & Hoe & Hok). apply Ok_inj in Hok.
  destruct oe; [apply all_empty_small; exact Hoe|].
  exfalso. destruct (mflag A ACCOUNT_DISABLED), (mflag A ACCOUNT_IN_FLASHLOAN), (mflag A ACCOUNT_IN_RECEIVERSHIP); cbn in Hok; discriminate.
Qed.
