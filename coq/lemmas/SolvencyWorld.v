(* SolvencyWorld.v — C01 over the handler world: one successful instruction moves the gap of every bank
   by at most the stated rounding allowance (or is one of the two sanctioned exceptions). *)
Require Import Base Constants Fixed Curve Bank BankOps Risk TransferFee Handlers.
Require Import FixedLemmas BankLemmas ValueLemmas CurveLemmas AccrualLemmas TransferFeeLemmas HandlerLemmas SolvencyLemmas FrameLemmas LedgerLemmas HandlerEffects SolvencyHandlers.
From Coq Require Import ZifyBool.
Local Open Scope Z_scope.

(* well-formedness of a world, as far as solvency needs it *)
Definition HOk (w : hworld) : Prop :=
  pf_ok (hw_pf w) /\
  (forall b hb, nth_bank w b = Ok hb -> hb_ok hb /\ fees_rep (hb_b hb)) /\
  (forall a ac, nth_acct w a = Ok ac -> Forall wf_bal (ha_la ac) /\
      forall b hb, nth_bank w b = Ok hb -> pos_le (hb_b hb) (bank_pk b) (ha_la ac)).

Definition hop_ok (o : hop) : Prop :=
  match o with
  | HDeposit _ _ n _ | HWithdraw _ _ n _ | HBorrow _ _ n | HRepay _ _ n _ | HLiquidate _ _ _ _ n => 0 <= n
  | _ => True
  end.

(* rounding allowance of one instruction for bank b (scale 2^96: divide by 2^96 for native token units) *)
Definition step_slack (w : hworld) (o : hop) (b : nat) (hb : hbank) : Z :=
  match o with
  | HDeposit _ b' _ _ | HCloseBalance _ b' | HAccrue b' | HBankruptcy _ b' => if (b' =? b)%nat then acc_slack w hb else 0
  | HWithdraw _ b' _ _ | HBorrow _ b' _ => if (b' =? b)%nat then acc_slack w hb + sv_slack w hb else 0
  | HRepay _ b' _ all => if (b' =? b)%nat then acc_slack w hb + (if all then ONE else 0) else 0
  | HLiquidate _ _ ab lb _ => if (ab =? b)%nat || (lb =? b)%nat then acc_slack w hb + sv_slack w hb else 0
  | HClock _ | HCollectFees _ | HSetPrice _ _ => 0
  end.

(* the two sanctioned exceptions of the property *)
Definition sanctioned (w : hworld) (o : hop) (b : nat) (hb hb' : hbank) : Prop :=
  match o with
  | HRepay _ b' _ all => b' = b /\ tokenless_writeoff w hb all
  | HBankruptcy _ b' => b' = b /\ b_op_state (hb_b hb') = OP_KILLED
  | _ => False
  end.

Lemma nth_bank_eq_other w w' b hb' k : hw_banks w' = set_nth b hb' (hw_banks w) -> b <> k -> nth_bank w' k = nth_bank w k.
Proof. intros E H. unfold nth_bank. rewrite E. unfold nth_res. rewrite nth_set_nth_other by assumption. reflexivity. Qed.


Theorem hstep_gap w o w' :
  HOk w -> hop_ok o -> hstep w o = Ok w' ->
  forall b hb, nth_bank w b = Ok hb ->
  exists hb', nth_bank w' b = Ok hb' /\
    (gap hb - step_slack w o b hb <= gap hb' \/ sanctioned w o b hb hb').
Proof.
  intros (Hpf & Hbanks & Haccts) Hop H b hb Hb.
  assert (Hsame : forall b0 hb0', hw_banks w' = set_nth b0 hb0' (hw_banks w) -> (b0 =? b)%nat = false ->
            exists hb', nth_bank w' b = Ok hb' /\ (gap hb - 0 <= gap hb' \/ sanctioned w o b hb hb')).
  { intros b0 hb0' E Hne. exists hb. split; [|left; lia]. rewrite (nth_bank_eq_other _ _ _ _ _ E) by lia. exact Hb. }
  destruct o; cbn [hstep hop_ok step_slack] in *.
  - (* clock *) apply Ok_inj in H. subst w'. exists hb. split; [exact Hb|left; lia].
  - (* deposit *)
    destruct (h_deposit_effect _ _ _ _ _ _ Hop H) as (hb0 & hb0' & ac & ac' & (E1 & E2 & E3 & E4 & _) & F).
    destruct (b0 =? b)%nat eqn:Eb; [|eapply Hsame; eauto].
    assert (b0 = b) by lia. subst b0. rewrite Hb in E1. apply Ok_inj in E1. subst hb0.
    destruct (Hbanks _ _ Hb) as (Hok & _). destruct (Haccts _ _ E2) as (Wac & Pac).
    destruct (deposit_gap _ _ _ _ _ _ _ _ F Hok Wac (Pac _ _ Hb)) as (_ & _ & G).
    exists hb0'. split; [eapply nth_bank_of_eq; eauto|left; exact G].
  - (* withdraw *)
    destruct (h_withdraw_effect _ _ _ _ _ _ H) as (hb0 & hb0' & ac & ac' & (E1 & E2 & E3 & E4 & _) & F).
    destruct (b0 =? b)%nat eqn:Eb; [|eapply Hsame; eauto].
    assert (b0 = b) by lia. subst b0. rewrite Hb in E1. apply Ok_inj in E1. subst hb0.
    destruct (Hbanks _ _ Hb) as (Hok & _). destruct (Haccts _ _ E2) as (Wac & Pac).
    destruct (withdraw_gap _ _ _ _ _ _ _ _ _ _ Hop F Hok Wac (Pac _ _ Hb)) as (_ & _ & G).
    exists hb0'. split; [eapply nth_bank_of_eq; eauto|left; lia].
  - (* borrow *)
    destruct (h_borrow_effect _ _ _ _ _ H) as (hb0 & hb0' & ac & ac' & (E1 & E2 & E3 & E4 & _) & F).
    destruct (b0 =? b)%nat eqn:Eb; [|eapply Hsame; eauto].
    assert (b0 = b) by lia. subst b0. rewrite Hb in E1. apply Ok_inj in E1. subst hb0.
    destruct (Hbanks _ _ Hb) as (Hok & Hfr). destruct (Haccts _ _ E2) as (Wac & Pac).
    destruct (borrow_gap _ _ _ _ _ _ _ _ _ Hop F Hok Hfr Hpf Wac (Pac _ _ Hb)) as (_ & _ & _ & G).
    exists hb0'. split; [eapply nth_bank_of_eq; eauto|left; lia].
  - (* repay *)
    destruct (h_repay_effect _ _ _ _ _ _ H) as (hb0 & hb0' & ac & ac' & (E1 & E2 & E3 & E4 & _) & F).
    destruct (b0 =? b)%nat eqn:Eb; [|eapply Hsame; eauto].
    assert (b0 = b) by lia. subst b0. rewrite Hb in E1. apply Ok_inj in E1. subst hb0.
    destruct (Hbanks _ _ Hb) as (Hok & _). destruct (Haccts _ _ E2) as (Wac & Pac).
    destruct (repay_gap _ _ _ _ _ _ _ _ _ Hop F Hok Wac (Pac _ _ Hb)) as (_ & _ & G).
    exists hb0'. split; [eapply nth_bank_of_eq; eauto|].
    destruct G as [G|G]; [left; lia|right; split; [reflexivity|exact G]].
  - (* close balance *)
    destruct (h_close_balance_effect _ _ _ _ H) as (hb0 & hb0' & ac & ac' & (E1 & E2 & E3 & E4 & _) & F).
    destruct (b0 =? b)%nat eqn:Eb; [|eapply Hsame; eauto].
    assert (b0 = b) by lia. subst b0. rewrite Hb in E1. apply Ok_inj in E1. subst hb0.
    destruct (Hbanks _ _ Hb) as (Hok & _). destruct (Haccts _ _ E2) as (Wac & Pac).
    destruct (close_gap _ _ _ _ _ _ _ F Hok Wac (Pac _ _ Hb)) as (_ & _ & G).
    exists hb0'. split; [eapply nth_bank_of_eq; eauto|left; exact G].
  - (* accrue *)
    destruct (h_accrue_effect _ _ _ H) as (hb0 & bk1 & bk2 & (E1 & E3 & _) & Hacc & Hcache).
    destruct (b0 =? b)%nat eqn:Eb; [|eapply Hsame; eauto].
    assert (b0 = b) by lia. subst b0. rewrite Hb in E1. apply Ok_inj in E1. subst hb0.
    destruct (Hbanks _ _ Hb) as (Hok & _).
    destruct (accrue_gap _ _ _ _ Hacc Hcache Hok) as (_ & G).
    eexists. split; [eapply nth_bank_of_eq; eauto|left; exact G].
  - (* collect fees *)
    destruct (h_collect_fees_effect _ _ _ H) as (hb0 & hb0' & (E1 & E3 & _) & S1 & S2 & T1 & T2 & V1 & V2 & M & _).
    destruct (b0 =? b)%nat eqn:Eb; [|eapply Hsame; eauto].
    assert (b0 = b) by lia. subst b0. rewrite Hb in E1. apply Ok_inj in E1. subst hb0.
    destruct (Hbanks _ _ Hb) as (Hok & _).
    destruct (collect_gap _ _ S1 S2 T1 T2 V1 V2 M Hok) as (_ & G).
    exists hb0'. split; [eapply nth_bank_of_eq; eauto|left; lia].
  - (* liquidate *)
    destruct (h_liquidate_effect _ _ _ _ _ _ _ H) as (ha & hl & ha' & hl' & ee & er & ee3 & er3 & Ea & El & Eee & Eer & Eb & _ & _ & _ & _ & F).
    pose proof (liquidate_facts_ne _ _ _ _ _ _ _ _ _ _ _ _ _ _ F) as Hne.
    destruct (Hbanks _ _ Ea) as (Hoka & _). destruct (Hbanks _ _ El) as (Hokl & _).
    destruct (Haccts _ _ Eee) as (Wee & Pee).
    assert (Her0 : forall ac, nth_res liqor (set_nth liqee (sort_acct ee) (hw_accts w)) = Ok ac ->
              Forall wf_bal (ha_la ac) /\ pos_le (hb_b ha) (bank_pk ab) (ha_la ac) /\ pos_le (hb_b hl) (bank_pk lb) (ha_la ac)).
    { intros ac Hac. destruct (Nat.eq_dec liqee liqor) as [<-|Hd].
      - apply nth_res_ok in Eee. unfold nth_res in Hac. rewrite (nth_set_nth_same _ _ _ _ Eee) in Hac. apply Ok_inj in Hac. subst ac.
        unfold sort_acct. cbn [ha_la]. split; [apply Forall_sort; exact Wee|]. split; apply pos_le2_sort; [exact (Pee _ _ Ea)|exact (Pee _ _ El)].
      - unfold nth_res in Hac. rewrite nth_set_nth_other in Hac by assumption.
        assert (Hac' : nth_acct w liqor = Ok ac) by exact Hac.
        destruct (Haccts _ _ Hac') as (W & P). split; [exact W|]. split; [exact (P _ _ Ea)|exact (P _ _ El)]. }
    destruct (liquidate_gap _ _ _ _ _ _ _ _ _ _ _ _ _ _ F Hoka Hokl Her0 Wee (Pee _ _ Ea) (Pee _ _ El)) as (_ & _ & _ & _ & Ga & Gl).
    destruct (Nat.eq_dec lb b) as [<-|Hlb].
    + rewrite Hb in El. apply Ok_inj in El. subst hl. exists hl'.
      split; [unfold nth_bank; rewrite Eb; unfold nth_res; apply nth_res_ok in Hb;
              assert (X : nth_error (set_nth ab ha' (hw_banks w)) lb = Some hb) by (rewrite nth_set_nth_other by assumption; exact Hb);
              rewrite (nth_set_nth_same _ _ _ _ X); reflexivity|].
      left. replace ((ab =? lb)%nat || (lb =? lb)%nat) with true by lia. lia.
    + destruct (Nat.eq_dec ab b) as [<-|Hab].
      * rewrite Hb in Ea. apply Ok_inj in Ea. subst ha. exists ha'.
        split; [unfold nth_bank; rewrite Eb; unfold nth_res; rewrite nth_set_nth_other by assumption;
                apply nth_res_ok in Hb; rewrite (nth_set_nth_same _ _ _ _ Hb); reflexivity|].
        left. replace ((ab =? ab)%nat || (lb =? ab)%nat) with true by lia. lia.
      * exists hb. split; [unfold nth_bank; rewrite Eb; unfold nth_res; rewrite !nth_set_nth_other by assumption; exact Hb|].
        left. replace ((ab =? b)%nat || (lb =? b)%nat) with false by lia. lia.
  - (* bankruptcy *)
    destruct (h_bankruptcy_effect _ _ _ _ H) as (hb0 & hb0' & ac & ac' & (E1 & E2 & E3 & E4 & _) & F).
    destruct (b0 =? b)%nat eqn:Eb; [|eapply Hsame; eauto].
    assert (b0 = b) by lia. subst b0. rewrite Hb in E1. apply Ok_inj in E1. subst hb0.
    destruct (Hbanks _ _ Hb) as (Hok & _). destruct (Haccts _ _ E2) as (Wac & Pac).
    destruct (bankruptcy_gap _ _ _ _ _ _ _ F Hok Wac (Pac _ _ Hb)) as (_ & G).
    exists hb0'. split; [eapply nth_bank_of_eq; eauto|].
    destruct G as [(_ & G & _)|G]; [left; exact G|right; split; [reflexivity|exact G]].
  - (* set price *)
    apply bind_ok in H as (hb0 & Hb0 & H). apply Ok_inj in H. subst w'.
    destruct (Nat.eq_dec b0 b) as [->|Hd].
    + rewrite Hb in Hb0. apply Ok_inj in Hb0. subst hb0. eexists. split; [eapply put_hbank_get; eauto|].
      left. unfold gap, gapb. cbn [hb_b hb_vault]. lia.
    + exists hb. split; [rewrite nth_bank_put_other by assumption; exact Hb|left; lia].
Qed.

(* ------------------------------------------------------------------------------------------ *)
(* histories: failed instructions roll back (hstep_total) *)
Fixpoint run_slack (w : hworld) (ops : list hop) (b : nat) : Z :=
  match ops with
  | [] => 0
  | o :: r =>
      (match hstep w o, nth_bank w b with Ok _, Ok hb => step_slack w o b hb | _, _ => 0 end)
      + run_slack (hstep_total w o) r b
  end.

(* a sanctioned exception (token-less write-off / wipe-out) hit bank b somewhere in the history *)
Fixpoint run_exception (w : hworld) (ops : list hop) (b : nat) : Prop :=
  match ops with
  | [] => False
  | o :: r =>
      (exists w' hb hb', hstep w o = Ok w' /\ nth_bank w b = Ok hb /\ nth_bank w' b = Ok hb' /\ sanctioned w o b hb hb')
      \/ run_exception (hstep_total w o) r b
  end.

(* every state along the history is well-formed, every instruction carries u64 amounts *)
Fixpoint run_ok (w : hworld) (ops : list hop) : Prop :=
  HOk w /\ match ops with [] => True | o :: r => hop_ok o /\ run_ok (hstep_total w o) r end.

Theorem hrun_gap ops : forall w b hb, run_ok w ops -> nth_bank w b = Ok hb ->
  exists hb', nth_bank (hrun w ops) b = Ok hb' /\ (gap hb - run_slack w ops b <= gap hb' \/ run_exception w ops b).
Proof.
  induction ops as [|o r IH]; intros w b hb Hrun Hb; cbn [hrun fold_left run_slack run_exception].
  - exists hb. split; [exact Hb|left; lia].
  - destruct Hrun as (Hok & Hop & Hrest). unfold hstep_total in *.
    destruct (hstep w o) as [w'|e] eqn:E.
    + destruct (hstep_gap _ _ _ Hok Hop E _ _ Hb) as (hb1 & Hb1 & G1).
      destruct (IH _ _ _ Hrest Hb1) as (hb2 & Hb2 & G2).
      exists hb2. split; [exact Hb2|]. rewrite Hb.
      destruct G1 as [G1|G1]; [|right; left; exists w', hb, hb1; repeat split; assumption].
      destruct G2 as [G2|G2]; [left; lia|right; right; exact G2].
    + destruct (IH _ _ _ Hrest Hb) as (hb2 & Hb2 & G2).
      exists hb2. split; [exact Hb2|]. destruct G2 as [G2|G2]; [left; lia|right; right; exact G2].
Qed.
