(* GateLemmas.v — C14: operational-state gate, handler kinds (generated facts), protocol pause and its expiry,
   reduce-only valuation rule. *)
Require Import Base Constants Panic AnchorTypes AnchorSem Gate AccountsTable HandlerFacts Spec
               AnchorSemLemmas AuthLemmas PanicLemmas.
From Coq Require Import ZifyBool.
Local Open Scope string_scope.
Local Open Scope Z_scope.

(* ---------------------------------------------------------------------------------------------
   validate_bank_state against the property's table *)
Lemma bank_state_table st k :
  validate_bank_state st k =
  match st, k with
  | KilledByBankruptcy, _ => Err (E E_BankKilledByBankruptcy)
  | Paused, (FailsInPausedState | FailsIfPausedOrReduceState) => Err (E E_BankPaused)
  | ReduceOnly, (FailsInReduceState | FailsIfPausedOrReduceState) => Err (E E_BankReduceOnly)
  | _, _ => Ok tt
  end.
Proof. destruct st, k; reflexivity. Qed.

(* the kind deposit / borrow pass: only an Operational bank is let through *)
Lemma deposit_kind_ok st : is_ok (validate_bank_state st FailsIfPausedOrReduceState) = true <-> st = Operational.
Proof. destruct st; cbn; split; intros H; try reflexivity; try discriminate. Qed.

(* the kind withdraw / repay / liquidate / bankruptcy pass: Operational or ReduceOnly *)
Lemma withdraw_kind_ok st :
  is_ok (validate_bank_state st FailsInPausedState) = true <-> st = Operational \/ st = ReduceOnly.
Proof. destruct st; cbn; split; intros H; auto; try discriminate; destruct H; discriminate. Qed.

Lemma killed_refuses_all k : validate_bank_state KilledByBankruptcy k = Err (E E_BankKilledByBankruptcy).
Proof. destruct k; reflexivity. Qed.

Lemma paused_refuses_gated k :
  k = FailsInPausedState \/ k = FailsIfPausedOrReduceState -> validate_bank_state Paused k = Err (E E_BankPaused).
Proof. intros [->| ->]; reflexivity. Qed.

Lemma bank_gate_ok l : is_ok (bank_gate l) = true <-> forall c, In c l -> is_ok (validate_bank_state (fst c) (snd c)) = true.
Proof.
  induction l as [|[st k] l IH]; cbn [bank_gate].
  - split; [intros _ c []|reflexivity].
  - destruct (validate_bank_state st k) as [[]|er] eqn:E; cbn [bind].
    + rewrite IH. split.
      * intros H c [<-|Hc]; [cbn; rewrite E; reflexivity|auto].
      * intros H c Hc. apply H. right. exact Hc.
    + split; [discriminate|]. intros H. specialize (H (st, k) (or_introl eq_refl)). cbn in H. rewrite E in H. exact H.
Qed.

(* ---------------------------------------------------------------------------------------------
   handler kinds, from the generated facts *)
Lemma handler_kinds_checked : check_handler_kinds = true.
Proof. vm_compute. reflexivity. Qed.

Lemma ikind_eqb_eq a b : ikind_eqb a b = true -> a = b.
Proof. destruct a, b; cbn; intros H; try reflexivity; discriminate. Qed.

Lemma handler_kind_sound k ix e f w b :
  check_handler_kind k ix = true -> find_entry ix accounts_table = Some e ->
  In f (e_fields e) -> wrap_is_loader "Bank" f = true ->
  is_ok (handler_bank_gate ix w b) = true ->
  is_ok (validate_bank_state (bank_state_of w b (f_name f)) k) = true.
Proof.
  unfold check_handler_kind. intros Hc He Hf Hw Hg. rewrite He in Hc.
  apply Bool.andb_true_iff in Hc. destruct Hc as [Hc Hall].
  apply Bool.andb_true_iff in Hc. destruct Hc as [_ Hcalls].
  pose proof (proj1 (forallb_forall _ _) Hall f Hf) as F. cbv beta in F. rewrite Hw in F. cbn [negb orb] in F.
  apply existsb_exists in F. destruct F as [c [Hcin Hcn]]. apply seqb_eq in Hcn.
  pose proof (proj1 (forallb_forall _ _) Hcalls c Hcin) as Kc. cbv beta in Kc.
  apply Bool.andb_true_iff in Kc. destruct Kc as [Kc _]. apply Bool.andb_true_iff in Kc. destruct Kc as [Kk _].
  apply ikind_eqb_eq in Kk.
  unfold handler_bank_gate in Hg. rewrite bank_gate_ok in Hg.
  specialize (Hg (bank_state_of w b (fst (fst c)), snd (fst c))). cbn [fst snd] in Hg.
  rewrite <- Hcn, <- Kk. apply Hg. apply in_map_iff. exists c. auto.
Qed.

Lemma in_forallb {A} (P : A -> bool) l x : forallb P l = true -> In x l -> P x = true.
Proof. intros H. exact (proj1 (forallb_forall _ _) H x). Qed.

Lemma deposit_family_kind ix : In ix DepositBorrowFamily -> check_handler_kind FailsIfPausedOrReduceState ix = true.
Proof.
  intros H. pose proof handler_kinds_checked as A. unfold check_handler_kinds in A.
  apply Bool.andb_true_iff in A. destruct A as [A _]. apply Bool.andb_true_iff in A. destruct A as [A _].
  apply Bool.andb_true_iff in A. destruct A as [A _]. exact (in_forallb _ _ _ A H).
Qed.

Lemma withdraw_family_kind ix : In ix WithdrawRepayLiqFamily -> check_handler_kind FailsInPausedState ix = true.
Proof.
  intros H. pose proof handler_kinds_checked as A. unfold check_handler_kinds in A.
  apply Bool.andb_true_iff in A. destruct A as [A _]. apply Bool.andb_true_iff in A. destruct A as [A _].
  apply Bool.andb_true_iff in A. destruct A as [_ A]. exact (in_forallb _ _ _ A H).
Qed.

Lemma family_has_entry k ix : check_handler_kind k ix = true -> exists e, find_entry ix accounts_table = Some e.
Proof. unfold check_handler_kind. destruct (find_entry ix accounts_table) as [e|]; [eauto|discriminate]. Qed.

(* deposit / borrow / integration deposits: the handler lets only Operational banks through *)
Lemma deposit_family_gate ix e f w b :
  In ix DepositBorrowFamily -> find_entry ix accounts_table = Some e ->
  In f (e_fields e) -> wrap_is_loader "Bank" f = true ->
  is_ok (handler_bank_gate ix w b) = true -> bank_state_of w b (f_name f) = Operational.
Proof.
  intros Hix He Hf Hw Hg. apply deposit_kind_ok.
  exact (handler_kind_sound _ ix e f w b (deposit_family_kind ix Hix) He Hf Hw Hg).
Qed.

(* withdraw / repay / liquidate / bankruptcy: Operational or ReduceOnly, for every bank involved *)
Lemma withdraw_family_gate ix e f w b :
  In ix WithdrawRepayLiqFamily -> find_entry ix accounts_table = Some e ->
  In f (e_fields e) -> wrap_is_loader "Bank" f = true ->
  is_ok (handler_bank_gate ix w b) = true ->
  bank_state_of w b (f_name f) = Operational \/ bank_state_of w b (f_name f) = ReduceOnly.
Proof.
  intros Hix He Hf Hw Hg. apply withdraw_kind_ok.
  exact (handler_kind_sound _ ix e f w b (withdraw_family_kind ix Hix) He Hf Hw Hg).
Qed.

(* ... and the gate does let them through in those states (withdrawals and repayments still work on a
   reduce-only bank) *)
Lemma withdraw_family_gate_open ix w b :
  In ix WithdrawRepayLiqFamily ->
  (forall c, In c (calls_of ix) ->
     bank_state_of w b (fst (fst c)) = Operational \/ bank_state_of w b (fst (fst c)) = ReduceOnly) ->
  handler_bank_gate ix w b = Ok tt.
Proof.
  intros Hix Hst. pose proof (withdraw_family_kind ix Hix) as K. unfold check_handler_kind in K.
  destruct (find_entry ix accounts_table) as [e|]; [|discriminate].
  apply Bool.andb_true_iff in K. destruct K as [K _]. apply Bool.andb_true_iff in K. destruct K as [_ Kc].
  assert (G : is_ok (handler_bank_gate ix w b) = true).
  { unfold handler_bank_gate. apply bank_gate_ok. intros c Hc. apply in_map_iff in Hc. destruct Hc as [c0 [<- Hc0]].
    cbn [fst snd]. pose proof (in_forallb _ _ _ Kc Hc0) as Kk. cbv beta in Kk.
    apply Bool.andb_true_iff in Kk. destruct Kk as [Kk _]. apply Bool.andb_true_iff in Kk. destruct Kk as [Kk _].
    apply ikind_eqb_eq in Kk. rewrite Kk. apply withdraw_kind_ok. exact (Hst c0 Hc0). }
  destruct (handler_bank_gate ix w b) as [[]|]; [reflexivity|discriminate].
Qed.

(* ---------------------------------------------------------------------------------------------
   protocol pause *)
Lemma financial_checked : check_financial = true.
Proof. vm_compute. reflexivity. Qed.

Section P.
Context (pda : key -> list seed_val -> key).
Context (opq : string -> world -> binding -> bool).

(* every financial instruction is refused while the group's cached pause is in force *)
Lemma financial_not_paused e :
  In e accounts_table -> In (e_ix e) FinancialIx ->
  exists g, group_field_of e = Some g /\
    forall w b sg, accepts pda opq e w b sg = true ->
      exists kg, bkey b g = Some kg /\
        is_protocol_paused (group_cache (acct_of w kg)) (w_now w) = Ok false.
Proof.
  intros He Hix. pose proof financial_checked as A. unfold check_financial in A.
  apply Bool.andb_true_iff in A. destruct A as [A _].
  pose proof (in_forallb _ _ _ A He) as F. unfold check_financial_entry in F.
  rewrite (proj2 (smem_In _ _) Hix) in F.
  destruct (group_field_of e) as [g|] eqn:G; [|discriminate]. exists g. split; [reflexivity|].
  intros w b sg Ha. apply with_field_some in F. destruct F as [f [Hf [Hn Hp]]].
  apply Bool.andb_true_iff in Hp. destruct Hp as [Hpl Hc]. apply plain_spec in Hpl. destruct Hpl as [Ho Hi].
  destruct (accepts_bound pda opq e w b sg f Ha Hf) as [kg Hk].
  destruct (has_cons_In _ f Hc) as [c [err [Hcin Hm]]].
  pose proof (accepts_cons pda opq e w b sg f kg c err Ha Hf Hi Ho Hk Hcin) as E.
  destruct c; try discriminate Hm. cbn in Hm. apply seqb_eq in Hm. subst g0.
  rewrite Hn in Hk. exists kg. split; [exact Hk|].
  cbn [eval_cons] in E. rewrite (bound_acct_eq w b g kg Hk) in E.
  destruct (is_protocol_paused (group_cache (acct_of w kg)) (w_now w)) as [p|]; [|discriminate].
  destruct p; [discriminate|reflexivity].
Qed.

End P.

(* every name of FinancialIx is an instruction of the program *)
Lemma financial_names_exist ix : In ix FinancialIx -> exists e, In e accounts_table /\ e_ix e = ix.
Proof.
  intros H. pose proof financial_checked as A. unfold check_financial in A.
  apply Bool.andb_true_iff in A. destruct A as [_ A]. pose proof (in_forallb _ _ _ A H) as F. cbv beta in F.
  destruct (find_entry ix accounts_table) as [e|] eqn:E; [|discriminate].
  exists e. exact (find_entry_some _ _ _ E).
Qed.

(* is_protocol_paused = flag /\ not expired, expiry exactly 1800 s after the cached start *)
Lemma is_protocol_paused_spec c now :
  - 2^62 <= c_start c <= 2^62 -> 0 <= now < 2^62 ->
  is_protocol_paused c now = Ok (flag_set (c_flags c) && negb (c_start c + 1800 <=? now)).
Proof.
  intros Hs Hn. unfold is_protocol_paused, c_is_expired, is_expired_raw.
  change (2^62) with 4611686018427387904 in Hs, Hn.
  destruct (flag_set (c_flags c)); cbn [negb andb]; [|reflexivity].
  destruct (Z.ltb_spec now (c_start c)).
  - cbn [bind negb]. f_equal. symmetry. apply Bool.negb_true_iff. lia.
  - unfold chk, in_i64, in_range, I64_MIN, I64_MAX. step_if.
    cbn [bind]. unfold PAUSE_DURATION_SECONDS. f_equal. f_equal. lia.
Qed.

(* the group is open again as soon as 1800 s have passed since the cached start — whatever the cached flag
   says, i.e. without anybody updating the cache *)
Lemma pause_expired_not_paused c now :
  - 2^62 <= c_start c <= 2^62 -> 0 <= now < 2^62 -> now - c_start c >= 1800 ->
  is_protocol_paused c now = Ok false.
Proof.
  intros Hs Hn Hd. rewrite (is_protocol_paused_spec c now Hs Hn).
  replace (c_start c + 1800 <=? now) with true by lia. rewrite Bool.andb_false_r. reflexivity.
Qed.

Lemma pause_in_force c now :
  - 2^62 <= c_start c <= 2^62 -> 0 <= now < 2^62 -> flag_set (c_flags c) = true -> now - c_start c < 1800 ->
  is_protocol_paused c now = Ok true.
Proof.
  intros Hs Hn Hf Hd. rewrite (is_protocol_paused_spec c now Hs Hn), Hf.
  replace (c_start c + 1800 <=? now) with false by lia. reflexivity.
Qed.

(* the CNotPaused constraint is satisfied again after expiry with the cache untouched *)
Lemma not_paused_constraint_after_expiry opq w b g kg :
  bkey b g = Some kg ->
  - 2^62 <= c_start (group_cache (acct_of w kg)) <= 2^62 -> 0 <= w_now w < 2^62 ->
  w_now w - c_start (group_cache (acct_of w kg)) >= 1800 ->
  eval_cons opq w b (CNotPaused g) = true.
Proof.
  intros Hk Hs Hn Hd. cbn [eval_cons]. rewrite (bound_acct_eq w b g kg Hk).
  rewrite (pause_expired_not_paused _ _ Hs Hn Hd). reflexivity.
Qed.

(* ---------------------------------------------------------------------------------------------
   reduce-only deposits: worth nothing for new borrowing, unchanged for liquidation purposes *)
Lemma reduce_only_initial_zero rest : weighted_asset_value_rule Collateral ReduceOnly Initial rest = Ok 0.
Proof. reflexivity. Qed.

Lemma reduce_only_maintenance_full rest :
  weighted_asset_value_rule Collateral ReduceOnly Maintenance rest = rest /\
  weighted_asset_value_rule Collateral ReduceOnly Maintenance rest =
  weighted_asset_value_rule Collateral Operational Maintenance rest.
Proof. split; reflexivity. Qed.

Lemma valuation_rule_only_reduce_only_initial t st r rest :
  weighted_asset_value_rule t st r rest =
  match t, st, r with
  | Isolated, _, _ => Ok 0
  | Collateral, ReduceOnly, Initial => Ok 0
  | Collateral, _, _ => rest
  end.
Proof. destruct t, st, r; reflexivity. Qed.
