(* AcctLifecycleLemmas.v — C16: closing and transferring a marginfi account (model AcctLifecycle.v);
   a disabled account cannot start a flash loan (model Tx.v). *)
Require Import Base Constants TxConstants Fixed Curve Bank AcctLifecycle FixedLemmas BankLemmas.
Require Tx.
From Coq Require Import ZifyBool.
Local Open Scope Z_scope.

Lemma Some_inj_l {A} (x y : A) : Some x = Some y -> x = y.
Proof. congruence. Qed.

(* a slot is empty: fewer than EMPTY_BALANCE_THRESHOLD (= 1.0) shares on both sides *)
Definition slot_empty (bl : balance) : Prop :=
  bl_a bl < EMPTY_BALANCE_THRESHOLD /\ bl_l bl < EMPTY_BALANCE_THRESHOLD.

Lemma get_side_none bl : get_side bl = Ok None <-> slot_empty bl.
Proof.
  unfold get_side, slot_empty, assert. split.
  - intros H. destruct ((bl_a bl <? EMPTY_BALANCE_THRESHOLD) || (bl_l bl <? EMPTY_BALANCE_THRESHOLD)) eqn:E; [|discriminate].
    cbn [bind] in H. destruct (EMPTY_BALANCE_THRESHOLD <=? bl_l bl) eqn:E1; [discriminate|].
    destruct (EMPTY_BALANCE_THRESHOLD <=? bl_a bl) eqn:E2; [discriminate|]. lia.
  - intros [Ha Hl]. replace ((bl_a bl <? EMPTY_BALANCE_THRESHOLD) || (bl_l bl <? EMPTY_BALANCE_THRESHOLD)) with true by lia.
    cbn [bind]. replace (EMPTY_BALANCE_THRESHOLD <=? bl_l bl) with false by lia.
    replace (EMPTY_BALANCE_THRESHOLD <=? bl_a bl) with false by lia. reflexivity.
Qed.

Lemma all_empty_true la : all_empty la = Ok true <-> Forall slot_empty la.
Proof.
  induction la as [|bl r IH]; cbn [all_empty].
  - split; [constructor | reflexivity].
  - split.
    + intros H. apply bind_ok in H as (s & Hs & H). destruct s as [sd|]; [discriminate|].
      constructor; [apply get_side_none; exact Hs | apply IH; exact H].
    + intros H. inversion H; subst. apply get_side_none in H2. rewrite H2. cbn [bind]. apply IH. assumption.
Qed.

Definition closable (A : macct) (signer : Z) : Prop :=
  ma_authority A = signer /\ mflag A ACCOUNT_FROZEN = false /\ mflag A ACCOUNT_DISABLED = false /\
  mflag A ACCOUNT_IN_FLASHLOAN = false /\ mflag A ACCOUNT_IN_RECEIVERSHIP = false /\
  Forall slot_empty (ma_la A).

(* close succeeds exactly when the account exists, the signer is its authority, it is not frozen,
   disabled, in a flash loan or in receivership, and every slot is empty; it removes that account *)
Lemma close_iff w a signer w' :
  h_close w a signer = Ok w' <->
  exists A, get_macct w a = Ok A /\ closable A signer /\ w' = set_macct w a None.
Proof.
  unfold h_close, closable. split.
  - intros H. apply bind_ok in H as (A & HA & H). exists A. split; [exact HA|].
    apply bind_ok in H as (u & Hu & H). apply check_ok in Hu.
    destruct (mflag A ACCOUNT_FROZEN) eqn:Ef; [discriminate|].
    apply bind_ok in H as (ok & Hok & H). apply bind_ok in H as (u2 & Hc & H). apply check_ok in Hc. subst ok.
    apply Ok_inj in H. unfold can_be_closed in Hok. cbv zeta in Hok. apply bind_ok in Hok as (e & He & Hok).
    apply Ok_inj in Hok.
    destruct (mflag A ACCOUNT_DISABLED), e, (mflag A ACCOUNT_IN_FLASHLOAN), (mflag A ACCOUNT_IN_RECEIVERSHIP); try discriminate.
    apply all_empty_true in He. repeat split; auto. lia.
  - intros (A & HA & (Hs & Hf & Hd & Hfl & Hr & He) & ->). rewrite HA. cbn [bind].
    replace (ma_authority A =? signer) with true by lia. cbn [check bind]. rewrite Hf.
    unfold can_be_closed. cbv zeta. apply all_empty_true in He. rewrite He. cbn [bind]. rewrite Hd, Hfl, Hr. reflexivity.
Qed.

(* ------------------------------------------------------------------------------------------ *)
Lemma get_set_same w n v A : get_macct w n = Ok A -> get_macct (set_macct w n (Some v)) n = Ok v.
Proof.
  unfold get_macct, set_macct. cbn [lw_accts]. intros H.
  destruct (nth_error (lw_accts w) n) as [o|] eqn:E; [|discriminate].
  assert (nth_error (set_nth n (Some v) (lw_accts w)) n = Some (Some v)).
  { clear H. revert n E. induction (lw_accts w) as [|x l IH]; intros [|n] E; cbn in *; try discriminate; auto. }
  rewrite H0. reflexivity.
Qed.
Lemma nth_set_same_l {A} (l : list A) n v x : nth_error l n = Some x -> nth_error (set_nth n v l) n = Some v.
Proof. revert n; induction l as [|a l IH]; intros [|n] H; cbn in *; try discriminate; auto. Qed.
Lemma nth_set_other_l {A} (l : list A) n m v : n <> m -> nth_error (set_nth n v l) m = nth_error l m.
Proof. revert n m; induction l as [|a l IH]; intros [|n] [|m] H; cbn; auto; congruence. Qed.

Lemma acct_key_nonzero n : acct_key n <> 0.
Proof. unfold acct_key. lia. Qed.

Lemma mflag_lor_disabled f : negb (Z.land (Z.lor f ACCOUNT_DISABLED) ACCOUNT_DISABLED =? 0) = true.
Proof.
  change ACCOUNT_DISABLED with 1. rewrite Z.land_lor_distr_l. change (Z.land 1 1) with 1.
  change 1 with (Z.ones 1) at 1. rewrite Z.land_ones by lia. change (2 ^ 1) with 2.
  pose proof (Z.mod_pos_bound f 2 ltac:(lia)) as B.
  assert (C : f mod 2 = 0 \/ f mod 2 = 1) by lia. destruct C as [-> | ->]; reflexivity.
Qed.

Record transferred (w w' : lworld) (old new : nat) (new_auth : Z) : Prop := {
  tr_distinct : old <> new;
  tr_fresh : nth_error (lw_accts w) new = Some None;
  tr_src : exists A A' N, get_macct w old = Ok A /\ get_macct w' old = Ok A' /\ get_macct w' new = Ok N /\
     (* the new account holds the whole lending account and the flags of the old one *)
     ma_la N = ma_la A /\ ma_flags N = ma_flags A /\ ma_authority N = new_auth /\ ma_group N = ma_group A /\
     ma_migrated_from N = acct_key old /\ ma_migrated_to N = 0 /\
     (* the old account is emptied, disabled and marked migrated *)
     ma_la A' = la_empty /\ mflag A' ACCOUNT_DISABLED = true /\ ma_migrated_to A' = acct_key new /\
     ma_authority A' = ma_authority A /\
     (* it was neither in a flash loan nor in receivership nor migrated before *)
     mflag A ACCOUNT_IN_FLASHLOAN = false /\ mflag A ACCOUNT_IN_RECEIVERSHIP = false /\ ma_migrated_to A = 0;
  (* exactly one new account: every other address is untouched *)
  tr_frame : forall k, k <> old -> k <> new -> nth_error (lw_accts w') k = nth_error (lw_accts w) k;
  tr_len : length (lw_accts w') = length (lw_accts w)
}.

Lemma set_nth_len {A} (l : list A) n v : length (set_nth n v l) = length l.
Proof. revert n; induction l as [|a l IH]; intros [|n]; cbn; auto. Qed.

Lemma transfer_spec w old new signer na fw w' :
  h_transfer w old new signer na fw = Ok w' -> transferred w w' old new na.
Proof.
  unfold h_transfer. intros H. apply bind_ok in H as (A & HA & H).
  apply bind_ok in H as (u0 & Hfresh & H).
  destruct (nth_error (lw_accts w) new) as [[x|]|] eqn:En; try discriminate.
  apply bind_ok in H as (u1 & _ & H). apply bind_ok in H as (u2 & _ & H).
  apply bind_ok in H as (u3 & _ & H). apply bind_ok in H as (u4 & _ & H).
  apply bind_ok in H as (u5 & _ & H).
  apply bind_ok in H as (u6 & Hfl & H). apply check_ok in Hfl.
  apply bind_ok in H as (u7 & Hrc & H). apply check_ok in Hrc.
  apply bind_ok in H as (u8 & Hmg & H). apply check_ok in Hmg. cbv zeta in H. apply Ok_inj in H. subst w'.
  assert (Hne : old <> new).
  { intros ->. unfold get_macct in HA. rewrite En in HA. discriminate. }
  assert (Eo : exists x, nth_error (lw_accts w) old = Some x).
  { unfold get_macct in HA. destruct (nth_error (lw_accts w) old); [eauto | discriminate]. }
  destruct Eo as (xo & Eo).
  constructor.
  - exact Hne.
  - exact En.
  - eexists A, _, _. split; [exact HA|]. split.
    + unfold get_macct, set_macct. cbn [lw_accts]. rewrite nth_set_other_l by auto.
      rewrite (nth_set_same_l _ _ _ _ Eo). reflexivity.
    + split.
      * unfold get_macct, set_macct. cbn [lw_accts].
        erewrite nth_set_same_l; [reflexivity|]. rewrite nth_set_other_l by auto. exact En.
      * cbn [ma_la ma_flags ma_authority ma_group ma_migrated_from ma_migrated_to].
        repeat split; try reflexivity; try lia. unfold mflag. cbn [ma_flags]. apply mflag_lor_disabled.
  - intros k Ko Kn. unfold set_macct. cbn [lw_accts]. rewrite !nth_set_other_l by auto. reflexivity.
  - unfold set_macct. cbn [lw_accts]. rewrite !set_nth_len. reflexivity.
Qed.

(* a migrated account cannot be transferred again, a disabled one cannot be closed *)
Lemma migrated_no_transfer w old A new signer na fw :
  get_macct w old = Ok A -> ma_migrated_to A <> 0 -> exists e, h_transfer w old new signer na fw = Err e.
Proof.
  intros HA Hm. destruct (h_transfer w old new signer na fw) as [w'|e] eqn:H; [exfalso | eexists; reflexivity].
  apply transfer_spec in H. destruct H as [_ _ (A0 & A1 & N1 & HA0 & Hx) _ _]. rewrite HA in HA0. apply Ok_inj in HA0. subst A0.
  destruct Hx as (_ & _ & _ & _ & _ & _ & _ & _ & _ & _ & _ & _ & _ & _ & Hx). lia.
Qed.
Lemma disabled_no_close w a A signer : get_macct w a = Ok A -> mflag A ACCOUNT_DISABLED = true ->
  exists e, h_close w a signer = Err e.
Proof.
  intros HA Hd. destruct (h_close w a signer) as [w'|e] eqn:H; [exfalso | eexists; reflexivity].
  apply close_iff in H as (A0 & HA0 & (_ & _ & Hd0 & _) & _). rewrite HA in HA0. apply Ok_inj in HA0. subst A0. congruence.
Qed.

Lemma transfer_once w old new signer na fw w' :
  h_transfer w old new signer na fw = Ok w' ->
  forall new2 signer2 na2 fw2, exists e, h_transfer w' old new2 signer2 na2 fw2 = Err e.
Proof.
  intros H new2 s2 na2 fw2. apply transfer_spec in H. destruct H as [_ _ (A & A' & N & _ & HA' & _ & Hx) _ _].
  destruct Hx as (_ & _ & _ & _ & _ & _ & _ & _ & Hm & _). eapply migrated_no_transfer; [exact HA'|].
  rewrite Hm. apply acct_key_nonzero.
Qed.

(* ... and stays so for every later sequence of instructions (LSetFlags is test scaffolding) *)
Definition real_op (o : lop) : Prop := match o with LSetFlags _ _ => False | _ => True end.
Definition retired (w : lworld) (a : nat) : Prop :=
  exists A, get_macct w a = Ok A /\ ma_migrated_to A <> 0 /\ mflag A ACCOUNT_DISABLED = true.

Lemma retired_step w a o : real_op o -> retired w a -> retired (lstep_total w o) a.
Proof.
  intros Hr (A & HA & Hm & Hd). unfold lstep_total. destruct (lstep w o) as [w'|e] eqn:H; [|exists A; auto].
  destruct o; cbn [lstep real_op] in *.
  - apply close_iff in H as (B & HB & Hc & ->). destruct (Nat.eq_dec a0 a) as [->|Hne].
    + rewrite HA in HB. apply Ok_inj in HB. subst B. destruct Hc as (_ & _ & Hd0 & _). congruence.
    + exists A. split; [|auto]. unfold get_macct, set_macct in *. cbn [lw_accts]. rewrite nth_set_other_l by auto. exact HA.
  - pose proof H as Hs. apply transfer_spec in Hs. destruct Hs as [Hdist Hfresh (B & B' & N & HB & _ & _ & Hrest) Hframe _].
    destruct (Nat.eq_dec old a) as [->|Hno].
    + rewrite HA in HB. apply Ok_inj in HB. subst B.
      destruct Hrest as (_ & _ & _ & _ & _ & _ & _ & _ & _ & _ & _ & _ & Hz). contradiction.
    + destruct (Nat.eq_dec new a) as [->|Hnn].
      * unfold get_macct in HA. rewrite Hfresh in HA. discriminate.
      * exists A. split; [|auto]. unfold get_macct in *. rewrite (Hframe a) by auto. exact HA.
  - contradiction.
  - apply Ok_inj in H. subst w'. exists A. auto.
  - apply Ok_inj in H. subst w'. exists A. auto.
Qed.

Lemma retired_run ops : Forall real_op ops -> forall w a, retired w a -> retired (lrun w ops) a.
Proof.
  induction 1 as [|o ops Ho _ IH]; intros w a Hr; cbn [lrun fold_left]; [exact Hr|].
  apply IH. apply retired_step; assumption.
Qed.

Lemma transfer_retires w old new signer na fw w' :
  h_transfer w old new signer na fw = Ok w' -> retired w' old.
Proof.
  intros H. apply transfer_spec in H. destruct H as [_ _ (A & A' & N & _ & HA' & _ & Hx) _ _].
  destruct Hx as (_ & _ & _ & _ & _ & _ & _ & Hd & Hm & _). exists A'. split; [exact HA'|].
  split; [rewrite Hm; apply acct_key_nonzero | exact Hd].
Qed.

Lemma retired_forever w old new signer na fw w' ops :
  h_transfer w old new signer na fw = Ok w' -> Forall real_op ops ->
  (forall new2 s2 na2 fw2, exists e, h_transfer (lrun w' ops) old new2 s2 na2 fw2 = Err e) /\
  (forall s2, exists e, h_close (lrun w' ops) old s2 = Err e).
Proof.
  intros H Hops. apply transfer_retires in H. pose proof (retired_run ops Hops w' old H) as (A & HA & Hm & Hd).
  split; intros; [eapply migrated_no_transfer | eapply disabled_no_close]; eauto.
Qed.

(* ------------------------------------------------------------------------------------------ *)
(* flash loans: check_flashloan_can_start (Tx.v) refuses a disabled account *)
Lemma disabled_no_flashloan fl key ixes cur end_idx cpi :
  Tx.f_disabled fl = true -> Tx.check_flashloan_can_start fl key ixes cur end_idx cpi <> Ok tt.
Proof.
  intros Hd H. unfold Tx.check_flashloan_can_start in H.
  apply bind_ok in H as (ci & _ & H). apply bind_ok in H as (u1 & _ & H). apply bind_ok in H as (u2 & _ & H).
  destruct (Tx.nth_z ixes end_idx) as [e|]; [|discriminate].
  destruct (Tx.d_len e <? 8); [discriminate|].
  apply bind_ok in H as (u3 & _ & H). apply bind_ok in H as (u4 & _ & H).
  destruct (Tx.d_accts e) as [|k0 r]; [discriminate|].
  apply bind_ok in H as (u5 & _ & H). apply bind_ok in H as (u6 & Hc & H). apply check_ok in Hc.
  rewrite Hd in Hc. discriminate.
Qed.
