(* HandlerEffects.v — inversion of the instruction-handler models: what a SUCCESSFUL handler did,
   expressed as the chain of primitives it ran and the final bank / account entries.
   Consumers: solvency (C01), handler-level ledger, structure. *)
Require Import Base Constants Fixed Curve Bank BankOps Risk TransferFee Handlers.
Require Import FixedLemmas BankLemmas ValueLemmas CurveLemmas AccrualLemmas TransferFeeLemmas HandlerLemmas SolvencyLemmas FrameLemmas.
From Coq Require Import ZifyBool.
Local Open Scope Z_scope.

(* ---------------------------------------------------------------- list plumbing *)
Lemma set_nth_set_nth {A} (l : list A) n x y : set_nth n x (set_nth n y l) = set_nth n x l.
Proof. revert n; induction l as [|a l IH]; intros [|n]; cbn; try reflexivity. f_equal. apply IH. Qed.
Lemma set_nth_comm {A} (l : list A) n m x y : n <> m -> set_nth n x (set_nth m y l) = set_nth m y (set_nth n x l).
Proof. revert n m; induction l as [|a l IH]; intros [|n] [|m] H; cbn; try reflexivity; try congruence. f_equal. apply IH. congruence. Qed.
Lemma set_nth_same_id {A} (l : list A) n x : nth_error l n = Some x -> set_nth n x l = l.
Proof. revert n; induction l as [|a l IH]; intros [|n] H; cbn in *; try discriminate; [congruence|]. f_equal. apply IH. exact H. Qed.

Lemma hw_accts_put_utok w a b v : hw_accts (put_utok w a b v) = hw_accts w.
Proof. unfold put_utok. destruct (nth_error (hw_utok w) a); reflexivity. Qed.
Lemma hw_banks_put_utok w a b v : hw_banks (put_utok w a b v) = hw_banks w.
Proof. unfold put_utok. destruct (nth_error (hw_utok w) a); reflexivity. Qed.
Lemma hw_now_put_utok w a b v : hw_now (put_utok w a b v) = hw_now w /\ hw_pf (put_utok w a b v) = hw_pf w /\
  hw_risk_admin_signs (put_utok w a b v) = hw_risk_admin_signs w.
Proof. unfold put_utok. destruct (nth_error (hw_utok w) a); repeat split; reflexivity. Qed.

(* the final bank entry: accounting state bk, liquidity vault V, everything else as in hb *)
Definition mk_hb (bk : bank) (V : Z) (hb : hbank) : hbank := set_hb_b bk (set_hb_vault V hb).

(* token transfers as list equations *)
Lemma xfer_in_eq w a b n w' hb :
  xfer_in w a b n = Ok w' -> nth_bank w b = Ok hb ->
  exists f, tfee hb n = Ok f /\ 0 <= 0 /\
    hw_banks w' = set_nth b (set_hb_vault (hb_vault hb + n - f) hb) (hw_banks w) /\
    hw_accts w' = hw_accts w /\ hw_now w' = hw_now w /\ hw_pf w' = hw_pf w /\ hw_risk_admin_signs w' = hw_risk_admin_signs w.
Proof.
  unfold xfer_in. intros H Hb. rewrite Hb in H. cbn [bind] in H.
  apply bind_ok in H as (u & _ & H). apply bind_ok in H as (c & _ & H). apply bind_ok in H as (f & Hf & H).
  apply Ok_inj in H. subst w'. exists f. split; [exact Hf|]. split; [lia|].
  rewrite hw_banks_put_utok, hw_accts_put_utok. destruct (hw_now_put_utok (put_hbank w b (set_hb_vault (hb_vault hb + n - f) hb)) a b (u - n)) as (-> & -> & ->).
  repeat split; reflexivity.
Qed.
Lemma xfer_out_eq w a b n w' hb :
  xfer_out w a b n = Ok w' -> nth_bank w b = Ok hb ->
  n <= hb_vault hb /\
    hw_banks w' = set_nth b (set_hb_vault (hb_vault hb - n) hb) (hw_banks w) /\
    hw_accts w' = hw_accts w /\ hw_now w' = hw_now w /\ hw_pf w' = hw_pf w /\ hw_risk_admin_signs w' = hw_risk_admin_signs w.
Proof.
  unfold xfer_out. intros H Hb. rewrite Hb in H. cbn [bind] in H.
  apply bind_ok in H as (u & _ & H). apply bind_ok in H as (c & Hc & H). apply bind_ok in H as (f & Hf & H).
  apply Ok_inj in H. subst w'. apply check_ok in Hc. split; [lia|].
  rewrite hw_banks_put_utok, hw_accts_put_utok. destruct (hw_now_put_utok (put_hbank w b (set_hb_vault (hb_vault hb - n) hb)) a b (u + n - f)) as (-> & -> & ->).
  repeat split; reflexivity.
Qed.

Lemma nth_bank_of_eq w w' b hb hb0 : hw_banks w' = set_nth b hb (hw_banks w) -> nth_bank w b = Ok hb0 -> nth_bank w' b = Ok hb.
Proof. intros E H. unfold nth_bank in *. rewrite E. apply nth_res_ok in H. unfold nth_res. rewrite (nth_set_nth_same _ _ _ _ H). reflexivity. Qed.
Lemma nth_acct_of_eq w w' a ac ac0 : hw_accts w' = set_nth a ac (hw_accts w) -> nth_acct w a = Ok ac0 -> nth_acct w' a = Ok ac.
Proof. intros E H. unfold nth_acct in *. rewrite E. apply nth_res_ok in H. unfold nth_res. rewrite (nth_set_nth_same _ _ _ _ H). reflexivity. Qed.

(* the frame every single-bank single-account handler leaves *)
Definition eff1 (w w' : hworld) (a b : nat) (hb hb' : hbank) (ac ac' : hacct) : Prop :=
  nth_bank w b = Ok hb /\ nth_acct w a = Ok ac /\
  hw_banks w' = set_nth b hb' (hw_banks w) /\ hw_accts w' = set_nth a ac' (hw_accts w) /\
  hw_now w' = hw_now w /\ hw_pf w' = hw_pf w /\ hw_risk_admin_signs w' = hw_risk_admin_signs w.

Lemma capacity_nonneg b c : remaining_deposit_capacity b = Ok c -> 0 <= c.
Proof.
  unfold remaining_deposit_capacity. destruct (negb (dep_limit_active b)).
  - intros H. apply Ok_inj in H. subst. rewrite U64_MAX_val. lia.
  - intros H. apply bind_ok in H as (cur & _ & H). apply bind_ok in H as (lim & _ & H).
    destruct (lim <=? cur); [apply Ok_inj in H; lia|].
    apply bind_ok in H as (r1 & _ & H). apply bind_ok in H as (r2 & _ & H). apply bind_ok in H as (r3 & _ & H).
    apply math_ok, to_u64_inv in H. lia.
Qed.

(* ---------------------------------------------------------------- deposit *)
Definition deposit_facts (w : hworld) (a b : nat) (amount : Z) (hb hb' : hbank) (ac ac' : hacct) : Prop :=
  exists bk1, accrue_interest (hb_b hb) (hw_pf w) (hw_now w) = Ok bk1 /\
    validate_asset_tags (hb_b hb) (ha_la ac) = Ok tt /\ aflag ac ACCOUNT_DISABLED = false /\
    ( (hb' = set_hb_b bk1 hb /\ ac' = ac)
      \/ exists dep i la1 bl bk2 bl2 pre f bk3,
           0 < dep <= amount /\
           wrapper_find_or_create (bank_pk b) bk1 (ha_la ac) (hw_now w) = Ok (i, la1) /\ nth_res i la1 = Ok bl /\
           increase_balance bk1 bl (t64 w) (of_int dep) IncDepositOnly = Ok (bk2, bl2) /\
           pre_fee hb dep = Ok pre /\ tfee hb pre = Ok f /\
           update_bank_cache bk2 (hw_pf w) (hw_now w) = Ok bk3 /\
           hb' = mk_hb bk3 (hb_vault hb + pre - f) hb /\
           ac' = sort_acct (mkHA (set_nth i bl2 la1) (ha_flags ac)) ).

Lemma h_deposit_effect w a b amount up w' :
  0 <= amount -> h_deposit w a b amount up = Ok w' ->
  exists hb hb' ac ac', eff1 w w' a b hb hb' ac ac' /\ deposit_facts w a b amount hb hb' ac ac'.
Proof.
  intros Hamt H. unfold h_deposit in H.
  apply bind_ok in H as (hb & Hhb & H). apply bind_ok in H as (ac & Hac & H).
  apply bind_ok in H as (u1 & _ & H). apply bind_ok in H as (u2 & _ & H).
  apply bind_ok in H as (u3 & Htags & H). destruct u3. apply bind_ok in H as (u4 & _ & H).
  apply bind_ok in H as (u5 & Hfl & H). apply check_ok in Hfl.
  apply bind_ok in H as (bk1 & Hacc & H). apply bind_ok in H as (dep & Hdep & H).
  assert (Hdis : aflag ac ACCOUNT_DISABLED = false) by (destruct (aflag ac ACCOUNT_DISABLED); [discriminate|reflexivity]).
  assert (Hd : 0 <= dep <= amount).
  { destruct up.
    - apply bind_ok in Hdep as (c & Hc & Hdep). apply Ok_inj in Hdep. apply capacity_nonneg in Hc. lia.
    - apply Ok_inj in Hdep. lia. }
  exists hb. destruct (dep =? 0) eqn:Ed.
  - apply Ok_inj in H. subst w'. exists (set_hb_b bk1 hb), ac, ac.
    split.
    + unfold eff1, put_hbank. cbn [hw_banks hw_accts hw_now hw_pf hw_risk_admin_signs].
      repeat split; try assumption; try reflexivity.
      symmetry. apply set_nth_same_id. apply nth_res_ok. exact Hac.
    + exists bk1. repeat split; try assumption. left. split; reflexivity.
  - apply bind_ok in H as ([i la1] & Hloc & H). apply bind_ok in H as (bl & Hbl & H).
    apply bind_ok in H as ([bk2 bl2] & Hinc & H). apply bind_ok in H as (pre & Hpre & H).
    set (w1 := put_hacct (put_hbank w b (set_hb_b bk2 hb)) a (mkHA (set_nth i bl2 la1) (ha_flags ac))) in H.
    apply bind_ok in H as (w2 & Hx & H). apply bind_ok in H as (hb2 & Hhb2 & H).
    apply bind_ok in H as (bk3 & Hcache & H). apply bind_ok in H as (ac2 & Hac2 & H).
    apply Ok_inj in H. subst w'.
    assert (Hb1 : nth_bank w1 b = Ok (set_hb_b bk2 hb)) by (unfold w1; eapply put_hbank_get; eauto).
    destruct (xfer_in_eq _ _ _ _ _ _ Hx Hb1) as (f & Hf & _ & Eb & Ea & En & Ep & Er).
    assert (Ehb2 : hb2 = set_hb_vault (hb_vault hb + pre - f) (set_hb_b bk2 hb)).
    { pose proof (nth_bank_of_eq _ _ _ _ _ Eb Hb1) as E2. rewrite Hhb2 in E2. apply Ok_inj in E2. exact E2. }
    assert (Eac2 : ac2 = mkHA (set_nth i bl2 la1) (ha_flags ac)).
    { unfold nth_acct in Hac2. rewrite Ea in Hac2. unfold w1, put_hacct in Hac2. cbn [hw_accts] in Hac2.
      apply nth_res_ok in Hac. unfold nth_res in Hac2. rewrite (nth_set_nth_same _ _ _ _ Hac) in Hac2.
      apply Ok_inj in Hac2. symmetry. exact Hac2. }
    exists (mk_hb bk3 (hb_vault hb + pre - f) hb), ac, (sort_acct (mkHA (set_nth i bl2 la1) (ha_flags ac))).
    split.
    + unfold eff1, put_hacct, put_hbank. cbn [hw_banks hw_accts hw_now hw_pf hw_risk_admin_signs].
      rewrite Eb, Ea, En, Ep, Er. unfold w1, put_hacct, put_hbank. cbn [hw_banks hw_accts hw_now hw_pf hw_risk_admin_signs].
      rewrite !set_nth_set_nth, Ehb2, Eac2. repeat split; try assumption; reflexivity.
    + exists bk1. repeat split; try assumption. right.
      exists dep, i, la1, bl, bk2, bl2, pre, f, bk3. subst hb2.
      repeat split; try assumption; try lia; try reflexivity.
Qed.

(* ---------------------------------------------------------------- withdraw *)
Definition withdraw_facts (w w' : hworld) (a b : nat) (amount : Z) (all : bool) (hb hb' : hbank) (ac ac' : hacct) : Prop :=
  exists bk1 i bl bk2 bl2 pre paid bk3,
    accrue_interest (hb_b hb) (hw_pf w) (hw_now w) = Ok bk1 /\ aflag ac ACCOUNT_DISABLED = false /\
    wrapper_find (bank_pk b) (ha_la ac) = Ok i /\ nth_res i (ha_la ac) = Ok bl /\
    (if all then withdraw_all bk1 bl (t64 w) = Ok (bk2, bl2, pre)
     else pre_fee hb amount = Ok pre /\ decrease_balance bk1 bl (t64 w) (of_int pre) DecWithdrawOnly = Ok (bk2, bl2)) /\
    paid = (if get_flag (b_flags bk2) TOKENLESS_REPAYMENTS_COMPLETE then Z.min pre (hb_vault hb) else pre) /\
    paid <= hb_vault hb /\
    update_bank_cache bk2 (hw_pf w) (hw_now w) = Ok bk3 /\
    hb' = mk_hb bk3 (hb_vault hb - paid) hb /\
    ac' = sort_acct (mkHA (set_nth i bl2 (ha_la ac)) (ha_flags ac)) /\
    init_health_check w' ac' = Ok tt.

Lemma h_withdraw_effect w a b amount all w' :
  h_withdraw w a b amount all = Ok w' ->
  exists hb hb' ac ac', eff1 w w' a b hb hb' ac ac' /\ withdraw_facts w w' a b amount all hb hb' ac ac'.
Proof.
  intros H. unfold h_withdraw in H.
  apply bind_ok in H as (hb & Hhb & H). apply bind_ok in H as (ac & Hac & H).
  apply bind_ok in H as (u1 & _ & H). apply bind_ok in H as (u2 & Hfl & H). apply check_ok in Hfl.
  apply bind_ok in H as (u3 & _ & H). apply bind_ok in H as (bk1 & Hacc & H).
  apply bind_ok in H as (i & Hi & H). apply bind_ok in H as (bl & Hbl & H).
  apply bind_ok in H as ([[bk2 bl2] pre] & Hprim & H).
  set (paid := if get_flag (b_flags bk2) TOKENLESS_REPAYMENTS_COMPLETE then Z.min pre (hb_vault hb) else pre) in H.
  set (w1 := put_hacct (put_hbank w b (set_hb_b bk2 hb)) a (mkHA (set_nth i bl2 (ha_la ac)) (ha_flags ac))) in H.
  apply bind_ok in H as (w2 & Hx & H). apply bind_ok in H as (hb2 & Hhb2 & H).
  apply bind_ok in H as (bk3 & Hcache & H). apply bind_ok in H as (ac2 & Hac2 & H).
  apply bind_ok in H as (u4 & Hhealth & H). destruct u4. apply Ok_inj in H. subst w'.
  assert (Hdis : aflag ac ACCOUNT_DISABLED = false) by (destruct (aflag ac ACCOUNT_DISABLED); [discriminate|reflexivity]).
  assert (Hb1 : nth_bank w1 b = Ok (set_hb_b bk2 hb)) by (unfold w1; eapply put_hbank_get; eauto).
  destruct (xfer_out_eq _ _ _ _ _ _ Hx Hb1) as (Hle & Eb & Ea & En & Ep & Er).
  assert (Ehb2 : hb2 = set_hb_vault (hb_vault hb - paid) (set_hb_b bk2 hb)).
  { pose proof (nth_bank_of_eq _ _ _ _ _ Eb Hb1) as E2. rewrite Hhb2 in E2. apply Ok_inj in E2. exact E2. }
  assert (Eac2 : ac2 = mkHA (set_nth i bl2 (ha_la ac)) (ha_flags ac)).
  { unfold nth_acct in Hac2. rewrite Ea in Hac2. unfold w1, put_hacct in Hac2. cbn [hw_accts] in Hac2.
    apply nth_res_ok in Hac. unfold nth_res in Hac2. rewrite (nth_set_nth_same _ _ _ _ Hac) in Hac2.
    apply Ok_inj in Hac2. symmetry. exact Hac2. }
  exists hb, (mk_hb bk3 (hb_vault hb - paid) hb), ac, (sort_acct (mkHA (set_nth i bl2 (ha_la ac)) (ha_flags ac))).
  split.
  - unfold eff1, put_hacct, put_hbank. cbn [hw_banks hw_accts hw_now hw_pf hw_risk_admin_signs].
    rewrite Eb, Ea, En, Ep, Er. unfold w1, put_hacct, put_hbank. cbn [hw_banks hw_accts hw_now hw_pf hw_risk_admin_signs].
    rewrite !set_nth_set_nth, Ehb2, Eac2. repeat split; try assumption; reflexivity.
  - exists bk1, i, bl, bk2, bl2, pre, paid, bk3. subst hb2 ac2.
    split; [exact Hacc|]. split; [exact Hdis|]. split; [exact Hi|]. split; [exact Hbl|].
    split.
    { destruct all; [exact Hprim|].
      apply bind_ok in Hprim as (pre0 & Hpre & Hprim). apply bind_ok in Hprim as ([bk2' bl2'] & Hdec & Hprim).
      apply Ok_inj in Hprim. apply pair_equal_spec in Hprim as [Hp1 <-]. apply pair_equal_spec in Hp1 as [<- <-].
      split; assumption. }
    split; [reflexivity|]. split; [exact Hle|]. split; [exact Hcache|]. split; [reflexivity|]. split; [reflexivity|].
    exact Hhealth.
Qed.

(* what the ledger / solvency arguments need of a withdrawal: everything except the account-flag test and the health
   check (shared with the deleverage withdrawal, which has no health check) *)
Definition withdraw_core (w : hworld) (b : nat) (amount : Z) (all : bool) (hb hb' : hbank) (ac ac' : hacct) : Prop :=
  exists bk1 i bl bk2 bl2 pre paid bk3,
    accrue_interest (hb_b hb) (hw_pf w) (hw_now w) = Ok bk1 /\
    wrapper_find (bank_pk b) (ha_la ac) = Ok i /\ nth_res i (ha_la ac) = Ok bl /\
    (if all then withdraw_all bk1 bl (t64 w) = Ok (bk2, bl2, pre)
     else pre_fee hb amount = Ok pre /\ decrease_balance bk1 bl (t64 w) (of_int pre) DecWithdrawOnly = Ok (bk2, bl2)) /\
    paid = (if get_flag (b_flags bk2) TOKENLESS_REPAYMENTS_COMPLETE then Z.min pre (hb_vault hb) else pre) /\
    paid <= hb_vault hb /\
    update_bank_cache bk2 (hw_pf w) (hw_now w) = Ok bk3 /\
    hb' = mk_hb bk3 (hb_vault hb - paid) hb /\
    ac' = sort_acct (mkHA (set_nth i bl2 (ha_la ac)) (ha_flags ac)).

Lemma withdraw_facts_core w w' a b amount all hb hb' ac ac' :
  withdraw_facts w w' a b amount all hb hb' ac ac' -> withdraw_core w b amount all hb hb' ac ac'.
Proof.
  intros (bk1 & i & bl & bk2 & bl2 & pre & paid & bk3 & H1 & _ & H2 & H3 & H4 & H5 & H6 & H7 & H8 & H9 & _).
  exists bk1, i, bl, bk2, bl2, pre, paid, bk3. repeat split; assumption.
Qed.

(* ---------------------------------------------------------------- borrow *)
(* the origination fee is booked to the group / program fee buckets *)
Definition book_orig_fee (pf : prog_fees) (ofee : fx) (bk3 : bank) : res bank :=
  if ofee =? 0 then Ok bk3 else
  if pf_rate pf =? 0 then Ok (set_b_grp (clamp I128_MIN I128_MAX (b_grp bk3 + ofee)) bk3)
  else
    let* pfa := math (cmul ofee (pf_rate pf)) in
    let rest := clamp I128_MIN I128_MAX (ofee - pfa) in
    Ok (set_b_prog (clamp I128_MIN I128_MAX (b_prog bk3 + pfa))
                   (set_b_grp (clamp I128_MIN I128_MAX (b_grp bk3 + rest)) bk3)).
Definition orig_fee_of (hb : hbank) (pre : Z) : res (fx * fx) :=
  if hb_orig_fee hb =? 0 then Ok (of_int pre, 0)
  else let* f := math (cmul (of_int pre) (hb_orig_fee hb)) in
       let* _ := math (to_u64_checked f) in
       let* d := uadd (of_int pre) f in Ok (d, f).

Definition borrow_facts (w w' : hworld) (a b : nat) (amount : Z) (hb hb' : hbank) (ac ac' : hacct) : Prop :=
  exists bk1 i la1 bl pre delta ofee bk2 bl2 bk4 bk5,
    accrue_interest (hb_b hb) (hw_pf w) (hw_now w) = Ok bk1 /\ aflag ac ACCOUNT_DISABLED = false /\
    validate_asset_tags bk1 (ha_la ac) = Ok tt /\
    get_flag (b_flags (hb_b hb)) TOKENLESS_REPAYMENTS_ALLOWED = false /\
    wrapper_find_or_create (bank_pk b) bk1 (ha_la ac) (hw_now w) = Ok (i, la1) /\ nth_res i la1 = Ok bl /\
    pre_fee hb amount = Ok pre /\ orig_fee_of hb pre = Ok (delta, ofee) /\
    decrease_balance bk1 bl (t64 w) delta DecBorrowOnly = Ok (bk2, bl2) /\
    pre <= hb_vault hb /\
    book_orig_fee (hw_pf w) ofee bk2 = Ok bk4 /\
    update_bank_cache bk4 (hw_pf w) (hw_now w) = Ok bk5 /\
    hb' = mk_hb bk5 (hb_vault hb - pre) hb /\
    ac' = sort_acct (mkHA (set_nth i bl2 la1) (ha_flags ac)) /\
    init_health_check (put_hbank w' b (mk_hb bk4 (hb_vault hb - pre) hb)) ac' = Ok tt.

Lemma h_borrow_effect w a b amount w' :
  h_borrow w a b amount = Ok w' ->
  exists hb hb' ac ac', eff1 w w' a b hb hb' ac ac' /\ borrow_facts w w' a b amount hb hb' ac ac'.
Proof.
  intros H. unfold h_borrow in H.
  apply bind_ok in H as (hb & Hhb & H). apply bind_ok in H as (ac & Hac & H).
  apply bind_ok in H as (u1 & _ & H). apply bind_ok in H as (u2 & Htl & H). apply check_ok in Htl.
  apply bind_ok in H as (u3 & Hfl & H). apply check_ok in Hfl.
  apply bind_ok in H as (bk1 & Hacc & H). apply bind_ok in H as (u4 & Htags & H). destruct u4.
  apply bind_ok in H as (u5 & _ & H).
  apply bind_ok in H as ([i la1] & Hloc & H). apply bind_ok in H as (bl & Hbl & H).
  apply bind_ok in H as (pre & Hpre & H). apply bind_ok in H as ([delta ofee] & Hof & H).
  apply bind_ok in H as ([bk2 bl2] & Hdec & H).
  set (w1 := put_hacct (put_hbank w b (set_hb_b bk2 hb)) a (mkHA (set_nth i bl2 la1) (ha_flags ac))) in H.
  apply bind_ok in H as (w2 & Hx & H). apply bind_ok in H as (hb2 & Hhb2 & H).
  apply bind_ok in H as (bk4 & Hbook & H). apply bind_ok in H as (ac2 & Hac2 & H).
  set (w3 := put_hacct (put_hbank w2 b (set_hb_b bk4 hb2)) a (sort_acct ac2)) in H.
  apply bind_ok in H as (u6 & Hhealth & H). destruct u6.
  apply bind_ok in H as (hb3 & Hhb3 & H). apply bind_ok in H as (bk5 & Hcache & H).
  apply Ok_inj in H. subst w'.
  assert (Hdis : aflag ac ACCOUNT_DISABLED = false) by (destruct (aflag ac ACCOUNT_DISABLED); [discriminate|reflexivity]).
  assert (Hb1 : nth_bank w1 b = Ok (set_hb_b bk2 hb)) by (unfold w1; eapply put_hbank_get; eauto).
  destruct (xfer_out_eq _ _ _ _ _ _ Hx Hb1) as (Hle & Eb & Ea & En & Ep & Er).
  assert (Ehb2 : hb2 = set_hb_vault (hb_vault hb - pre) (set_hb_b bk2 hb)).
  { pose proof (nth_bank_of_eq _ _ _ _ _ Eb Hb1) as E2. rewrite Hhb2 in E2. apply Ok_inj in E2. exact E2. }
  assert (Eac2 : ac2 = mkHA (set_nth i bl2 la1) (ha_flags ac)).
  { unfold nth_acct in Hac2. rewrite Ea in Hac2. unfold w1, put_hacct in Hac2. cbn [hw_accts] in Hac2.
    apply nth_res_ok in Hac. unfold nth_res in Hac2. rewrite (nth_set_nth_same _ _ _ _ Hac) in Hac2.
    apply Ok_inj in Hac2. symmetry. exact Hac2. }
  assert (Ehb3 : hb3 = set_hb_b bk4 hb2).
  { assert (E3 : nth_bank w3 b = Ok (set_hb_b bk4 hb2)) by (unfold w3; eapply put_hbank_get; eauto).
    rewrite Hhb3 in E3. apply Ok_inj in E3. exact E3. }
  exists hb, (mk_hb bk5 (hb_vault hb - pre) hb), ac, (sort_acct (mkHA (set_nth i bl2 la1) (ha_flags ac))).
  assert (Ebanks : hw_banks (put_hbank w3 b (set_hb_b bk5 hb3)) = set_nth b (mk_hb bk5 (hb_vault hb - pre) hb) (hw_banks w)).
  { unfold put_hbank, w3, put_hacct, put_hbank. cbn [hw_banks]. rewrite Eb. unfold w1, put_hacct, put_hbank. cbn [hw_banks].
    rewrite !set_nth_set_nth, Ehb3, Ehb2. reflexivity. }
  split.
  - unfold eff1. split; [exact Hhb|]. split; [exact Hac|]. split; [exact Ebanks|].
    unfold put_hbank, w3, put_hacct, put_hbank. cbn [hw_banks hw_accts hw_now hw_pf hw_risk_admin_signs].
    rewrite Ea, En, Ep, Er. unfold w1, put_hacct, put_hbank. cbn [hw_banks hw_accts hw_now hw_pf hw_risk_admin_signs].
    rewrite !set_nth_set_nth, Eac2. repeat split; reflexivity.
  - exists bk1, i, la1, bl, pre, delta, ofee, bk2, bl2, bk4, bk5. subst hb3 hb2 ac2.
    split; [exact Hacc|]. split; [exact Hdis|]. split; [exact Htags|].
    split; [destruct (get_flag (b_flags (hb_b hb)) TOKENLESS_REPAYMENTS_ALLOWED); [discriminate|reflexivity]|].
    split; [exact Hloc|]. split; [exact Hbl|]. split; [exact Hpre|]. split; [exact Hof|]. split; [exact Hdec|].
    split; [exact Hle|]. split; [exact Hbook|]. split; [exact Hcache|]. split; [reflexivity|]. split; [reflexivity|].
    match goal with |- init_health_check ?W _ = _ => replace W with w3 end; [exact Hhealth|].
    unfold put_hbank. cbn [hw_banks hw_accts hw_now hw_pf hw_utok hw_risk_admin_signs].
    rewrite set_nth_set_nth. unfold w3, put_hacct, put_hbank. cbn [hw_banks hw_accts hw_now hw_pf hw_utok hw_risk_admin_signs].
    rewrite set_nth_set_nth. reflexivity.
Qed.

(* ---------------------------------------------------------------- repay *)
Definition mark_tokenless_complete (bk3 : bank) : bank :=
  if get_flag (b_flags bk3) TOKENLESS_REPAYMENTS_ALLOWED
     && (fabs_w (b_tls bk3) <? wmul ZERO_AMOUNT_THRESHOLD (of_int 10))
  then set_b_flags (Z.lor (b_flags bk3) TOKENLESS_REPAYMENTS_COMPLETE) bk3 else bk3.

Definition repay_facts (w : hworld) (a b : nat) (amount : Z) (all : bool) (hb hb' : hbank) (ac ac' : hacct) : Prop :=
  exists bk1 i bl bk2 bl2 post V' bk5,
    accrue_interest (hb_b hb) (hw_pf w) (hw_now w) = Ok bk1 /\ aflag ac ACCOUNT_DISABLED = false /\
    wrapper_find (bank_pk b) (ha_la ac) = Ok i /\ nth_res i (ha_la ac) = Ok bl /\
    (if all then repay_all bk1 bl (t64 w) = Ok (bk2, bl2, post)
     else post = amount /\ increase_balance bk1 bl (t64 w) (of_int amount) IncRepayOnly = Ok (bk2, bl2)) /\
    (* tokens: either the sanctioned token-less write-off, or the pre-fee amount is pulled in *)
    ( (hw_risk_admin_signs w = true /\ get_flag (b_flags bk2) TOKENLESS_REPAYMENTS_ALLOWED = true /\ all = true /\ V' = hb_vault hb)
      \/ exists pre f, pre_fee hb post = Ok pre /\ tfee hb pre = Ok f /\ V' = hb_vault hb + pre - f ) /\
    update_bank_cache (mark_tokenless_complete bk2) (hw_pf w) (hw_now w) = Ok bk5 /\
    hb' = mk_hb bk5 V' hb /\
    ac' = sort_acct (mkHA (set_nth i bl2 (ha_la ac)) (ha_flags ac)).

Lemma h_repay_effect w a b amount all w' :
  h_repay w a b amount all = Ok w' ->
  exists hb hb' ac ac', eff1 w w' a b hb hb' ac ac' /\ repay_facts w a b amount all hb hb' ac ac'.
Proof.
  intros H. unfold h_repay in H.
  apply bind_ok in H as (hb & Hhb & H). apply bind_ok in H as (ac & Hac & H).
  apply bind_ok in H as (u1 & _ & H). apply bind_ok in H as (u2 & Hfl & H). apply check_ok in Hfl.
  apply bind_ok in H as (u3 & _ & H). apply bind_ok in H as (bk1 & Hacc & H).
  apply bind_ok in H as (i & Hi & H). apply bind_ok in H as (bl & Hbl & H).
  apply bind_ok in H as ([[bk2 bl2] post] & Hprim & H).
  set (w1 := put_hacct (put_hbank w b (set_hb_b bk2 hb)) a (mkHA (set_nth i bl2 (ha_la ac)) (ha_flags ac))) in H.
  apply bind_ok in H as (w2 & Hx & H). apply bind_ok in H as (hb2 & Hhb2 & H).
  fold (mark_tokenless_complete (hb_b hb2)) in H.
  apply bind_ok in H as (bk5 & Hcache & H). apply bind_ok in H as (ac2 & Hac2 & H).
  apply Ok_inj in H. subst w'.
  assert (Hdis : aflag ac ACCOUNT_DISABLED = false) by (destruct (aflag ac ACCOUNT_DISABLED); [discriminate|reflexivity]).
  assert (Hb1 : nth_bank w1 b = Ok (set_hb_b bk2 hb)) by (unfold w1; eapply put_hbank_get; eauto).
  assert (Hprim' : if all then repay_all bk1 bl (t64 w) = Ok (bk2, bl2, post)
     else post = amount /\ increase_balance bk1 bl (t64 w) (of_int amount) IncRepayOnly = Ok (bk2, bl2)).
  { destruct all; [exact Hprim|].
    apply bind_ok in Hprim as ([bk2' bl2'] & Hinc & Hprim).
    apply Ok_inj in Hprim. apply pair_equal_spec in Hprim as [Hp1 <-]. apply pair_equal_spec in Hp1 as [<- <-].
    split; [reflexivity|exact Hinc]. }
  (* the two token cases give the same shape: banks of w2 = set_nth b (set_hb_vault V' (set_hb_b bk2 hb)) (banks w1) *)
  assert (Hw2 : exists V', hw_banks w2 = set_nth b (set_hb_vault V' (set_hb_b bk2 hb)) (hw_banks w1) /\
                  hw_accts w2 = hw_accts w1 /\ hw_now w2 = hw_now w1 /\ hw_pf w2 = hw_pf w1 /\
                  hw_risk_admin_signs w2 = hw_risk_admin_signs w1 /\
                  ( (hw_risk_admin_signs w = true /\ get_flag (b_flags bk2) TOKENLESS_REPAYMENTS_ALLOWED = true /\ all = true /\ V' = hb_vault hb)
                    \/ exists pre f, pre_fee hb post = Ok pre /\ tfee hb pre = Ok f /\ V' = hb_vault hb + pre - f )).
  { destruct (hw_risk_admin_signs w && get_flag (b_flags bk2) TOKENLESS_REPAYMENTS_ALLOWED && all) eqn:Etl.
    - apply Ok_inj in Hx. subst w2. exists (hb_vault hb).
      split.
      { symmetry. apply set_nth_same_id. apply nth_res_ok in Hb1.
        replace (set_hb_vault (hb_vault hb) (set_hb_b bk2 hb)) with (set_hb_b bk2 hb) by (destruct hb; reflexivity). exact Hb1. }
      repeat (split; [reflexivity|]). left.
      destruct (hw_risk_admin_signs w); [|discriminate]. destruct (get_flag (b_flags bk2) TOKENLESS_REPAYMENTS_ALLOWED); [|discriminate].
      destruct all; [|discriminate]. repeat split; reflexivity.
    - apply bind_ok in Hx as (pre & Hpre & Hx).
      destruct (xfer_in_eq _ _ _ _ _ _ Hx Hb1) as (f & Hf & _ & Eb & Ea & En & Ep & Er).
      exists (hb_vault hb + pre - f). repeat (split; [assumption|]). right. exists pre, f. repeat split; assumption. }
  destruct Hw2 as (V' & Eb & Ea & En & Ep & Er & Htok).
  assert (Ehb2 : hb2 = set_hb_vault V' (set_hb_b bk2 hb)).
  { pose proof (nth_bank_of_eq _ _ _ _ _ Eb Hb1) as E2. rewrite Hhb2 in E2. apply Ok_inj in E2. exact E2. }
  assert (Eac2 : ac2 = mkHA (set_nth i bl2 (ha_la ac)) (ha_flags ac)).
  { unfold nth_acct in Hac2. rewrite Ea in Hac2. unfold w1, put_hacct in Hac2. cbn [hw_accts] in Hac2.
    apply nth_res_ok in Hac. unfold nth_res in Hac2. rewrite (nth_set_nth_same _ _ _ _ Hac) in Hac2.
    apply Ok_inj in Hac2. symmetry. exact Hac2. }
  exists hb, (mk_hb bk5 V' hb), ac, (sort_acct (mkHA (set_nth i bl2 (ha_la ac)) (ha_flags ac))).
  split.
  - unfold eff1, put_hacct, put_hbank. cbn [hw_banks hw_accts hw_now hw_pf hw_risk_admin_signs].
    rewrite Eb, Ea, En, Ep, Er. unfold w1, put_hacct, put_hbank. cbn [hw_banks hw_accts hw_now hw_pf hw_risk_admin_signs].
    rewrite !set_nth_set_nth, Ehb2, Eac2. repeat split; try assumption; reflexivity.
  - exists bk1, i, bl, bk2, bl2, post, V', bk5. subst hb2 ac2.
    split; [exact Hacc|]. split; [exact Hdis|]. split; [exact Hi|]. split; [exact Hbl|]. split; [exact Hprim'|].
    split; [exact Htok|]. split; [exact Hcache|]. split; reflexivity.
Qed.

(* ---------------------------------------------------------------- close_balance / accrue *)
Definition close_facts (w : hworld) (a b : nat) (hb hb' : hbank) (ac ac' : hacct) : Prop :=
  exists bk1 bk2 i bl bk3 bl3,
    accrue_interest (hb_b hb) (hw_pf w) (hw_now w) = Ok bk1 /\ aflag ac ACCOUNT_DISABLED = false /\
    update_bank_cache bk1 (hw_pf w) (hw_now w) = Ok bk2 /\
    wrapper_find (bank_pk b) (ha_la ac) = Ok i /\ nth_res i (ha_la ac) = Ok bl /\
    close_balance bk2 bl (t64 w) = Ok (bk3, bl3) /\
    hb' = set_hb_b bk3 hb /\ ac' = sort_acct (mkHA (set_nth i bl3 (ha_la ac)) (ha_flags ac)).

Lemma h_close_balance_effect w a b w' :
  h_close_balance w a b = Ok w' ->
  exists hb hb' ac ac', eff1 w w' a b hb hb' ac ac' /\ close_facts w a b hb hb' ac ac'.
Proof.
  intros H. unfold h_close_balance in H.
  apply bind_ok in H as (hb & Hhb & H). apply bind_ok in H as (ac & Hac & H).
  apply bind_ok in H as (u1 & _ & H). apply bind_ok in H as (u2 & Hfl & H). apply check_ok in Hfl.
  apply bind_ok in H as (bk1 & Hacc & H). apply bind_ok in H as (bk2 & Hcache & H).
  apply bind_ok in H as (i & Hi & H). apply bind_ok in H as (bl & Hbl & H).
  apply bind_ok in H as ([bk3 bl3] & Hcl & H). apply Ok_inj in H. subst w'.
  assert (Hdis : aflag ac ACCOUNT_DISABLED = false) by (destruct (aflag ac ACCOUNT_DISABLED); [discriminate|reflexivity]).
  exists hb, (set_hb_b bk3 hb), ac, (sort_acct (mkHA (set_nth i bl3 (ha_la ac)) (ha_flags ac))).
  split.
  - unfold eff1, put_hacct, put_hbank. cbn [hw_banks hw_accts hw_now hw_pf hw_risk_admin_signs].
    repeat split; try assumption; reflexivity.
  - exists bk1, bk2, i, bl, bk3, bl3. repeat split; assumption || reflexivity.
Qed.

(* bank-only handlers *)
Definition effb (w w' : hworld) (b : nat) (hb hb' : hbank) : Prop :=
  nth_bank w b = Ok hb /\ hw_banks w' = set_nth b hb' (hw_banks w) /\ hw_accts w' = hw_accts w /\
  hw_now w' = hw_now w /\ hw_pf w' = hw_pf w /\ hw_risk_admin_signs w' = hw_risk_admin_signs w.

Lemma h_accrue_effect w b w' :
  h_accrue w b = Ok w' ->
  exists hb bk1 bk2, effb w w' b hb (set_hb_b bk2 hb) /\
    accrue_interest (hb_b hb) (hw_pf w) (hw_now w) = Ok bk1 /\ update_bank_cache bk1 (hw_pf w) (hw_now w) = Ok bk2.
Proof.
  intros H. unfold h_accrue in H.
  apply bind_ok in H as (hb & Hhb & H). apply bind_ok in H as (bk1 & Hacc & H). apply bind_ok in H as (bk2 & Hcache & H).
  apply Ok_inj in H. subst w'. exists hb, bk1, bk2. split; [|split; assumption].
  unfold effb, put_hbank. cbn [hw_banks hw_accts hw_now hw_pf hw_risk_admin_signs]. repeat split; try assumption; reflexivity.
Qed.

(* ---------------------------------------------------------------- collect fees *)
Definition hb_static (hb hb' : hbank) : Prop :=
  hb_t22 hb' = hb_t22 hb /\ hb_tf_bps hb' = hb_tf_bps hb /\ hb_tf_max hb' = hb_tf_max hb /\
  hb_orig_fee hb' = hb_orig_fee hb /\ hb_c hb' = hb_c hb /\ hb_feed hb' = hb_feed hb.

Lemma h_collect_fees_effect w b w' :
  h_collect_fees w b = Ok w' ->
  exists hb hb', effb w w' b hb hb' /\ bank_static (hb_b hb) (hb_b hb') /\ hb_static hb hb' /\
    b_tas (hb_b hb') = b_tas (hb_b hb) /\ b_tls (hb_b hb') = b_tls (hb_b hb) /\
    b_asv (hb_b hb') = b_asv (hb_b hb) /\ b_lsv (hb_b hb') = b_lsv (hb_b hb) /\
    (exists m, hb_vault hb' * ONE = hb_vault hb * ONE - m /\
              Fv (hb_b hb') = Fv (hb_b hb) - m) /\
    I128_MIN <= b_grp (hb_b hb') /\ I128_MIN <= b_prog (hb_b hb').
Proof.
  intros H. pose proof H as H0. unfold h_collect_fees in H.
  apply bind_ok in H as (hb & Hhb & H).
  destruct (collect_fees_inv _ _ _ _ Hhb H0) as (hb' & Hhb' & F). cbv zeta in F.
  destruct F as (F1 & F2 & F3 & FV & _ & T1 & T2 & S1 & S2).
  apply bind_ok in H as (ins_new & _ & H). apply bind_ok in H as (avail1 & _ & H).
  apply bind_ok in H as (grp_new & Hgn & H). apply math_ok, csub_inv in Hgn as [_ Hgn]. apply bind_ok in H as (avail2 & _ & H).
  apply bind_ok in H as (u1 & _ & H). apply bind_ok in H as (grp_n & _ & H). apply bind_ok in H as (ins_n & _ & H).
  apply bind_ok in H as (prog_new & Hpn & H). apply math_ok, csub_inv in Hpn as [_ Hpn]. apply bind_ok in H as (avail3 & _ & H).
  apply bind_ok in H as (u2 & _ & H). apply bind_ok in H as (prog_n & _ & H).
  apply bind_ok in H as (u3 & _ & H). apply bind_ok in H as (f1 & _ & H).
  apply bind_ok in H as (u4 & _ & H). apply bind_ok in H as (f2 & _ & H).
  apply bind_ok in H as (u5 & _ & H). apply bind_ok in H as (f3 & _ & H).
  apply Ok_inj in H.
  match type of H with put_hbank w b ?X = w' => set (hbf := X) in * end.
  assert (E : hb' = hbf).
  { subst w'. assert (E2 : nth_bank (put_hbank w b hbf) b = Ok hbf) by (eapply put_hbank_get; eauto).
    rewrite Hhb' in E2. apply Ok_inj in E2. exact E2. }
  exists hb, hb'. split.
  - subst w'. unfold effb, put_hbank. cbn [hw_banks hw_accts hw_now hw_pf hw_risk_admin_signs]. rewrite E.
    repeat split; try assumption; reflexivity.
  - split; [rewrite E; unfold hbf; bs_refl|]. split; [rewrite E; unfold hbf, hb_static; cbn; repeat split; reflexivity|].
    repeat (split; [assumption|]).
    split; [eexists; split; [exact FV|]; unfold Fv; rewrite F1, F2, F3; lia|].
    rewrite E. unfold hbf. cbn [hb_b set_hb_feeata set_hb_insv set_hb_feev set_hb_vault set_hb_b set_b_prog set_b_grp set_b_ins b_grp b_prog]. lia.
Qed.

(* ---------------------------------------------------------------- bankruptcy *)
Definition bankruptcy_facts (w : hworld) (a b : nat) (hb hb' : hbank) (ac ac' : hacct) : Prop :=
  exists ps A L bk1 i bl bad avail_n covered loss ce cov_n pre f bk2 kill bk3 bl3 bk4,
    positions w (ha_la ac) = Ok ps /\ check_bankrupt ps false = Ok (A, L) /\
    accrue_interest (hb_b hb) (hw_pf w) (hw_now w) = Ok bk1 /\
    find_active (bank_pk b) (ha_la ac) = Some i /\ nth_res i (ha_la ac) = Ok bl /\
    get_liability_amount bk1 (bl_l bl) = Ok bad /\ ZERO_AMOUNT_THRESHOLD < bad /\
    (if hb_t22 hb then exists f0, tfee hb (hb_insv hb) = Ok f0 /\ avail_n = hb_insv hb - f0 else avail_n = hb_insv hb) /\
    covered = fmin bad (of_int avail_n) /\ loss = fmax (bad - covered) 0 /\
    cceil covered = Ok ce /\ to_u64_checked ce = Ok cov_n /\
    pre_fee hb cov_n = Ok pre /\ pre <= hb_insv hb /\ tfee hb pre = Ok f /\
    socialize_loss bk1 loss = Ok (bk2, kill) /\
    increase_balance bk2 bl (t64 w) bad IncRepayOnly = Ok (bk3, bl3) /\
    update_bank_cache bk3 (hw_pf w) (hw_now w) = Ok bk4 /\
    hb' = set_hb_b (if kill then set_b_op_state OP_KILLED bk4 else bk4)
                   (set_hb_vault (hb_vault hb + pre - f) (set_hb_insv (hb_insv hb - pre) hb)) /\
    ac' = mkHA (set_nth i bl3 (ha_la ac)) (Z.lor (ha_flags ac) ACCOUNT_DISABLED).

Lemma h_bankruptcy_effect w a b w' :
  h_bankruptcy w a b = Ok w' ->
  exists hb hb' ac ac', eff1 w w' a b hb hb' ac ac' /\ bankruptcy_facts w a b hb hb' ac ac'.
Proof.
  intros H. unfold h_bankruptcy in H.
  apply bind_ok in H as (hb & Hhb & H). apply bind_ok in H as (ac & Hac & H).
  apply bind_ok in H as (u1 & _ & H). apply bind_ok in H as (u2 & _ & H).
  apply bind_ok in H as (ps & Hps & H). apply bind_ok in H as ([A L] & Hbk & H).
  apply bind_ok in H as (bk1 & Hacc & H).
  apply bind_ok in H as (i & Hi & H). apply bind_ok in H as (bl & Hbl & H).
  apply bind_ok in H as (bad & Hbad & H). apply bind_ok in H as (u3 & Hthr & H). apply check_ok in Hthr.
  apply bind_ok in H as (avail_n & Hav & H).
  apply bind_ok in H as (d & Hd & H). apply usub_inv in Hd as [-> _].
  apply bind_ok in H as (ce & Hce & H). apply math_ok in Hce.
  apply bind_ok in H as (cov_n & Hcn & H). apply math_ok in Hcn.
  apply bind_ok in H as (pre & Hpre & H). apply bind_ok in H as (u4 & Hle & H). apply check_ok in Hle.
  apply bind_ok in H as (f & Hf & H). apply bind_ok in H as ([bk2 kill] & Hsoc & H).
  apply bind_ok in H as (i2 & _ & H). apply bind_ok in H as ([bk3 bl3] & Hinc & H).
  apply bind_ok in H as (bk4 & Hcache & H). apply Ok_inj in H. subst w'.
  exists hb. eexists. exists ac. eexists. split.
  - unfold eff1, put_hacct, put_hbank. cbn [hw_banks hw_accts hw_now hw_pf hw_risk_admin_signs].
    repeat split; try assumption; reflexivity.
  - exists ps, A, L, bk1, i, bl, bad, avail_n, (fmin bad (of_int avail_n)), (fmax (bad - fmin bad (of_int avail_n)) 0), ce, cov_n, pre, f, bk2, kill, bk3, bl3, bk4.
    split; [exact Hps|]. split; [exact Hbk|]. split; [exact Hacc|].
    split; [destruct (find_active (bank_pk b) (ha_la ac)); [apply Ok_inj in Hi; congruence|discriminate]|].
    split; [exact Hbl|]. split; [exact Hbad|]. split; [lia|].
    split.
    { destruct (hb_t22 hb).
      - apply bind_ok in Hav as (f0 & Hf0 & Hav). apply math_ok, chko_inv in Hav as [-> _]. exists f0. split; [exact Hf0|reflexivity].
      - apply Ok_inj in Hav. symmetry. exact Hav. }
    split; [reflexivity|]. split; [reflexivity|]. split; [exact Hce|]. split; [exact Hcn|].
    split; [exact Hpre|]. split; [lia|]. split; [exact Hf|]. split; [exact Hsoc|]. split; [exact Hinc|].
    split; [exact Hcache|]. split; [destruct kill; reflexivity|reflexivity].
Qed.

(* ---------------------------------------------------------------- value arithmetic is non-negative *)
Lemma exp10_pos i s : exp10_fx i = Ok s -> 0 < s.
Proof.
  unfold exp10_fx. destruct ((0 <=? i) && (i <? Z.of_nat (length EXP_10_I80F48))) eqn:E; [|discriminate].
  intros H. apply Ok_inj in H. subst s.
  assert (Hall : forallb (fun x => 0 <? x) EXP_10_I80F48 = true) by (vm_compute; reflexivity).
  rewrite forallb_forall in Hall.
  assert (Hin : In (nth (Z.to_nat i) EXP_10_I80F48 0) EXP_10_I80F48) by (apply nth_In; lia).
  specialize (Hall _ Hin). lia.
Qed.

Lemma calc_value_nonneg amount price dec w v :
  0 <= amount -> 0 <= price -> 0 <= w -> calc_value amount price dec (Some w) = Ok v -> 0 <= v.
Proof.
  intros Ha Hp Hw. unfold calc_value. destruct (amount =? 0); [intros H; apply Ok_inj in H; lia|].
  intros H. apply bind_ok in H as (sf & Hsf & H). apply exp10_pos in Hsf.
  apply bind_ok in H as (wa & Hwa & H).
  destruct (cmul amount w) as [x|e] eqn:E; [|discriminate]. apply Ok_inj in Hwa. subst x.
  apply cmul_inv in E as [-> _].
  apply bind_ok in H as (v1 & Hv1 & H). apply math_ok, cmul_inv in Hv1 as [-> _].
  pose proof ONE_pos as HO.
  assert (0 <= amount * w / ONE) by (apply Z.div_pos; nia).
  assert (0 <= amount * w / ONE * price / ONE) by (apply Z.div_pos; nia).
  apply math_ok, cdiv_inv_nonneg in H as [_ H]; lia.
Qed.
Lemma calc_amount_nonneg value price dec v :
  0 <= value -> 0 < price -> calc_amount value price dec = Ok v -> 0 <= v.
Proof.
  intros Hv Hp. unfold calc_amount. intros H. apply bind_ok in H as (sf & Hsf & H). apply exp10_pos in Hsf.
  apply bind_ok in H as (v1 & Hv1 & H). apply math_ok, cmul_inv in Hv1 as [-> _].
  pose proof ONE_pos as HO. assert (0 <= value * sf / ONE) by (apply Z.div_pos; nia).
  apply math_ok, cdiv_inv_nonneg in H as [_ H]; lia.
Qed.

(* ---------------------------------------------------------------- liquidation *)
Definition liquidate_facts (w : hworld) (liqor liqee ab lb : nat) (amount : Z)
    (ha hl ha' hl' : hbank) (ee er ee3 er3 : hacct) : Prop :=
  exists ba1 bl1 er0 q_liq q_fin ins_fee i1 la1 b1 bl2 b1' i2 b2 ba2 b2' i3 la3 b3 ba3 b3' i4 b4 bl3 b4' ins_n f ba4 bl5,
    let am := of_int amount in
    let ee1 := sort_acct ee in
    let er1 := mkHA (set_nth i1 b1' la1) (ha_flags er0) in
    let ee2 := mkHA (set_nth i2 b2' (ha_la ee1)) (ha_flags ee1) in
    0 < amount /\ ab <> lb /\ liqor <> liqee /\
    accrue_interest (hb_b ha) (hw_pf w) (hw_now w) = Ok ba1 /\
    accrue_interest (hb_b hl) (hw_pf w) (hw_now w) = Ok bl1 /\
    nth_res liqor (set_nth liqee ee1 (hw_accts w)) = Ok er0 /\
    usub q_liq q_fin = Ok ins_fee /\ 0 <= ins_fee /\ 0 <= q_fin /\
    (* leg 1: liquidator pays the liability *)
    wrapper_find_or_create (bank_pk lb) bl1 (ha_la er0) (hw_now w) = Ok (i1, la1) /\ nth_res i1 la1 = Ok b1 /\
    decrease_balance bl1 b1 (t64 w) q_liq DecBypassBorrowLimit = Ok (bl2, b1') /\
    (* leg 2: liquidatee gives up the asset *)
    wrapper_find (bank_pk ab) (ha_la ee1) = Ok i2 /\ nth_res i2 (ha_la ee1) = Ok b2 /\
    decrease_balance ba1 b2 (t64 w) am DecBypassBorrowLimit = Ok (ba2, b2') /\
    (* leg 3: liquidator receives the asset *)
    wrapper_find_or_create (bank_pk ab) ba2 (ha_la er1) (hw_now w) = Ok (i3, la3) /\ nth_res i3 la3 = Ok b3 /\
    increase_balance ba2 b3 (t64 w) am IncBypassDepositLimit = Ok (ba3, b3') /\
    (* leg 4: liquidatee's debt is repaid; insurance fee leaves the liquidity vault *)
    wrapper_find (bank_pk lb) (ha_la ee2) = Ok i4 /\ nth_res i4 (ha_la ee2) = Ok b4 /\
    increase_balance bl2 b4 (t64 w) q_fin IncRepayOnly = Ok (bl3, b4') /\
    to_u64_checked ins_fee = Ok ins_n /\ ins_n <= hb_vault hl /\ tfee hl ins_n = Ok f /\
    I128_MIN <= b_ins bl3 + ffrac ins_fee <= I128_MAX /\
    update_bank_cache ba3 (hw_pf w) (hw_now w) = Ok ba4 /\
    update_bank_cache (set_b_ins (b_ins bl3 + ffrac ins_fee) bl3) (hw_pf w) (hw_now w) = Ok bl5 /\
    ha' = set_hb_b ba4 ha /\
    hl' = set_hb_insv (hb_insv hl + ins_n - f) (set_hb_vault (hb_vault hl - ins_n) (set_hb_b bl5 hl)) /\
    ee3 = mkHA (set_nth i4 b4' (ha_la ee2)) (ha_flags ee2) /\
    er3 = sort_acct (mkHA (set_nth i3 b3' la3) (ha_flags er1)).

Lemma h_liquidate_effect w liqor liqee ab lb amount w' :
  h_liquidate w liqor liqee ab lb amount = Ok w' ->
  exists ha hl ha' hl' ee er ee3 er3,
    nth_bank w ab = Ok ha /\ nth_bank w lb = Ok hl /\ nth_acct w liqee = Ok ee /\ nth_acct w liqor = Ok er /\
    hw_banks w' = set_nth lb hl' (set_nth ab ha' (hw_banks w)) /\
    hw_accts w' = set_nth liqor er3 (set_nth liqee ee3 (hw_accts w)) /\
    hw_now w' = hw_now w /\ hw_pf w' = hw_pf w /\ hw_risk_admin_signs w' = hw_risk_admin_signs w /\
    liquidate_facts w liqor liqee ab lb amount ha hl ha' hl' ee er ee3 er3.
Proof.
  intros H. unfold h_liquidate, h_liquidate_gen in H.
  apply bind_ok in H as (ha & Hha & H). apply bind_ok in H as (hl & Hhl & H).
  apply bind_ok in H as (u3 & _ & H).
  apply bind_ok in H as (u1 & Hamt & H). apply check_ok in Hamt.
  apply bind_ok in H as (u2 & Hne & H). apply check_ok in Hne.
  apply bind_ok in H as (ee & Hee & H). apply bind_ok in H as (er & Her & H).
  apply bind_ok in H as (u4 & _ & H). apply bind_ok in H as (u5 & _ & H). apply bind_ok in H as (u6 & _ & H).
  apply bind_ok in H as (u7 & _ & H). apply bind_ok in H as (u8 & _ & H). apply bind_ok in H as (u9 & _ & H).
  apply bind_ok in H as (u10 & _ & H).
  apply bind_ok in H as (u10b & Hself & H). apply check_ok in Hself.
  apply bind_ok in H as (ba1 & Hacca & H). apply bind_ok in H as (bl1 & Haccl & H).
  set (w1 := put_hacct (put_hbank (put_hbank w ab (set_hb_b ba1 ha)) lb (set_hb_b bl1 hl)) liqee (sort_acct ee)) in H.
  apply bind_ok in H as (u11 & _ & H). apply bind_ok in H as (ps & _ & H).
  apply bind_ok in H as ([[pre_health x1] x2] & _ & H).
  apply bind_ok in H as (u12 & _ & H). apply bind_ok in H as (ap & _ & H). apply bind_ok in H as (u13 & Hap & H). apply check_ok in Hap.
  apply bind_ok in H as (u14 & _ & H). apply bind_ok in H as (lp & _ & H). apply bind_ok in H as (u15 & Hlp & H). apply check_ok in Hlp.
  apply bind_ok in H as (fsum & Hfsum & H). apply bind_ok in H as (final_d & Hfd & H). apply bind_ok in H as (liq_d & _ & H).
  apply bind_ok in H as (v1 & _ & H). apply bind_ok in H as (q_liq & _ & H).
  apply bind_ok in H as (v2 & Hv2 & H). apply bind_ok in H as (q_fin & Hqf & H).
  assert (Hqf0 : 0 <= q_fin).
  { apply uadd_inv in Hfsum as [-> _]. apply usub_inv in Hfd as [-> _].
    assert (Hfd0 : 0 <= ONE - (LIQUIDATION_INSURANCE_FEE + LIQUIDATION_LIQUIDATOR_FEE)) by (vm_compute; discriminate).
    assert (Ham0 : 0 <= of_int amount) by (unfold of_int; pose proof ONE_pos; nia).
    assert (Hap0 : 0 <= ap) by lia.
    pose proof (calc_value_nonneg _ _ _ _ _ Ham0 Hap0 Hfd0 Hv2) as Hv20.
    eapply calc_amount_nonneg; [exact Hv20| |exact Hqf]. lia. }
  apply bind_ok in H as (ins_fee & Hif & H). apply bind_ok in H as (u16 & Hif0 & H). apply assert_ok in Hif0.
  apply bind_ok in H as (er0 & Her0 & H).
  apply bind_ok in H as ([i1 la1] & Hloc1 & H). apply bind_ok in H as (b1 & Hb1 & H).
  apply bind_ok in H as ([bl2 b1'] & Hdec1 & H).
  apply bind_ok in H as (i2 & Hi2 & H). apply bind_ok in H as (b2 & Hb2 & H).
  apply bind_ok in H as (pre_bal & _ & H). apply bind_ok in H as (u17 & _ & H).
  apply bind_ok in H as ([ba2 b2'] & Hdec2 & H).
  apply bind_ok in H as ([i3 la3] & Hloc3 & H). apply bind_ok in H as (b3 & Hb3 & H).
  apply bind_ok in H as ([ba3 b3'] & Hinc3 & H).
  apply bind_ok in H as (ins_n & Hinsn & H).
  apply bind_ok in H as (i4 & Hi4 & H). apply bind_ok in H as (b4 & Hb4 & H).
  apply bind_ok in H as ([bl3 b4'] & Hinc4 & H).
  apply bind_ok in H as (hl0 & Hhl0 & H).
  apply bind_ok in H as (u18 & Hvle & H). apply check_ok in Hvle.
  apply bind_ok in H as (f & Hf & H).
  apply bind_ok in H as (ins' & Hins' & H).
  apply bind_ok in H as (ba4 & Hca & H). apply bind_ok in H as (bl5 & Hcl & H).
  apply bind_ok in H as (ha0 & Hha0 & H).
  apply bind_ok in H as (u19 & _ & H). apply bind_ok in H as (ps2 & _ & H). apply bind_ok in H as (h2 & _ & H).
  apply bind_ok in H as (u20 & _ & H). apply Ok_inj in H. subst w'.
  assert (Hnelb : ab <> lb) by (destruct (Nat.eqb_spec ab lb); [discriminate|assumption]).
  (* the two bank entries of w1 *)
  assert (Ehl0 : hl0 = set_hb_b bl1 hl).
  { unfold w1 in Hhl0. unfold nth_bank, put_hacct in Hhl0. cbn [hw_banks] in Hhl0.
    assert (X : nth_bank (put_hbank w ab (set_hb_b ba1 ha)) lb = Ok hl) by (rewrite nth_bank_put_other by assumption; exact Hhl).
    pose proof (put_hbank_get _ lb (set_hb_b bl1 hl) _ X) as Y. unfold nth_bank in Y. rewrite Hhl0 in Y. apply Ok_inj in Y. exact Y. }
  assert (Eha0 : ha0 = set_hb_b ba1 ha).
  { unfold w1 in Hha0. unfold nth_bank, put_hacct in Hha0. cbn [hw_banks] in Hha0.
    pose proof (nth_bank_put_other (put_hbank w ab (set_hb_b ba1 ha)) lb (set_hb_b bl1 hl) ab ltac:(congruence)) as X.
    unfold nth_bank in X. rewrite X in Hha0. pose proof (put_hbank_get w ab (set_hb_b ba1 ha) _ Hha) as Y.
    unfold nth_bank in Y. rewrite Hha0 in Y. apply Ok_inj in Y. exact Y. }
  assert (Eins : ins' = b_ins bl3 + ffrac ins_fee /\ I128_MIN <= b_ins bl3 + ffrac ins_fee <= I128_MAX).
  { destruct (cadd (b_ins bl3) (ffrac ins_fee)) as [v|e] eqn:E; [|discriminate]. apply Ok_inj in Hins'. subst v.
    apply cadd_inv in E as [-> R]. split; [reflexivity|exact R]. }
  destruct Eins as (-> & Hrange).
  assert (Hinsn' : to_u64_checked ins_fee = Ok ins_n).
  { destruct (to_u64_checked ins_fee) as [v|e]; [apply Ok_inj in Hinsn; congruence|discriminate]. }
  subst hl0 ha0.
  exists ha, hl. eexists. eexists. exists ee, er. eexists. eexists.
  split; [exact Hha|]. split; [exact Hhl|]. split; [exact Hee|]. split; [exact Her|].
  split.
  { unfold put_hacct, put_hbank. cbn [hw_banks]. unfold w1, put_hacct, put_hbank. cbn [hw_banks].
    rewrite (set_nth_comm _ lb ab) by congruence. rewrite set_nth_set_nth.
    rewrite (set_nth_comm _ ab lb) by congruence. rewrite set_nth_set_nth. reflexivity. }
  split.
  { unfold put_hacct, put_hbank. cbn [hw_accts]. unfold w1, put_hacct, put_hbank. cbn [hw_accts].
    rewrite !set_nth_set_nth. reflexivity. }
  split; [reflexivity|]. split; [reflexivity|]. split; [reflexivity|].
  exists ba1, bl1, er0, q_liq, q_fin, ins_fee, i1, la1, b1, bl2, b1', i2, b2, ba2, b2', i3, la3, b3, ba3, b3', i4, b4, bl3, b4', ins_n, f, ba4, bl5.
  cbv zeta.
  split; [lia|]. split; [exact Hnelb|]. split; [destruct (Nat.eqb_spec liqor liqee); [discriminate|assumption]|]. split; [exact Hacca|]. split; [exact Haccl|].
  split; [exact Her0|]. split; [exact Hif|]. split; [lia|]. split; [exact Hqf0|].
  split; [exact Hloc1|]. split; [exact Hb1|]. split; [exact Hdec1|].
  split; [exact Hi2|]. split; [exact Hb2|]. split; [exact Hdec2|].
  split; [exact Hloc3|]. split; [exact Hb3|]. split; [exact Hinc3|].
  split; [exact Hi4|]. split; [exact Hb4|]. split; [exact Hinc4|].
  split; [exact Hinsn'|]. split; [cbn [set_hb_b hb_vault] in Hvle; lia|]. split; [exact Hf|]. split; [exact Hrange|].
  split; [exact Hca|]. split; [exact Hcl|]. repeat split; reflexivity.
Qed.

Lemma liquidate_facts_ne w liqor liqee ab lb amount ha hl ha' hl' ee er ee3 er3 :
  liquidate_facts w liqor liqee ab lb amount ha hl ha' hl' ee er ee3 er3 -> ab <> lb.
Proof.
  intros (ba1 & bl1 & er0 & q_liq & q_fin & ins_fee & i1 & la1 & b1 & bl2 & b1' & i2 & b2 & ba2 & b2' & i3 & la3 & b3 & ba3 & b3' &
          i4 & b4 & bl3 & b4' & ins_n & f & ba4 & bl5 & F).
  cbv zeta in F. destruct F as (_ & Hne & _). exact Hne.
Qed.

Lemma liquidate_facts_distinct w liqor liqee ab lb amount ha hl ha' hl' ee er ee3 er3 :
  liquidate_facts w liqor liqee ab lb amount ha hl ha' hl' ee er ee3 er3 -> liqor <> liqee.
Proof.
  intros (ba1 & bl1 & er0 & q_liq & q_fin & ins_fee & i1 & la1 & b1 & bl2 & b1' & i2 & b2 & ba2 & b2' & i3 & la3 & b3 & ba3 & b3' &
          i4 & b4 & bl3 & b4' & ins_n & f & ba4 & bl5 & F).
  cbv zeta in F. destruct F as (_ & _ & Hd & _). exact Hd.
Qed.
