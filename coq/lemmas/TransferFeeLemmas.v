(* TransferFeeLemmas.v — the pre-fee amount computed for a Token-2022 transfer-fee mint always
   covers the requested post-fee amount: pre - fee(pre) >= post. *)
Require Import Base TransferFee FixedLemmas.
From Coq Require Import ZifyBool.
Local Open Scope Z_scope.

Lemma ceil_div_inv n d r : 0 <= n -> 0 < d -> ceil_div n d = Ok r -> r = (n + d - 1) / d.
Proof.
  unfold ceil_div. intros Hn Hd H.
  apply bind_ok in H as (a & Ha & H). apply chko_inv in Ha as [-> _].
  apply bind_ok in H as (b & Hb & H). apply chko_inv in Hb as [-> _].
  replace (d =? 0) with false in H by lia. apply Ok_inj in H. auto.
Qed.

(* ceil(n/d) * d >= n *)
Lemma ceil_mul_ge n d : 0 <= n -> 0 < d -> n <= (n + d - 1) / d * d.
Proof.
  intros Hn Hd. pose proof (Z.div_mod (n + d - 1) d ltac:(lia)). pose proof (Z.mod_pos_bound (n + d - 1) d Hd). nia.
Qed.

Lemma prefee_covers bps maxfee post pre fee :
  0 <= bps <= BPS_ONE -> 0 <= maxfee -> 0 <= post -> 0 <= pre ->
  calculate_pre_fee_amount bps maxfee post = Ok pre -> calculate_fee bps maxfee pre = Ok fee ->
  post <= pre - fee /\ 0 <= fee.
Proof.
  unfold BPS_ONE. intros Hb Hm Hp Hpre0 Hpre Hfee. unfold calculate_pre_fee_amount, BPS_ONE in Hpre.
  unfold calculate_fee, BPS_ONE in Hfee.
  destruct (bps =? 0) eqn:E0.
  { apply Ok_inj in Hpre. cbn [orb] in Hfee. apply Ok_inj in Hfee. lia. }
  destruct (post =? 0) eqn:Ep.
  { apply Ok_inj in Hpre. subst pre. cbn in Hfee. apply Ok_inj in Hfee. lia. }
  cbn [orb] in Hfee.
  destruct (pre =? 0) eqn:Epre.
  { (* pre = 0 with post > 0 is impossible *)
    apply Ok_inj in Hfee. subst fee. exfalso.
    destruct (bps =? 10000) eqn:E1.
    - apply chko_inv in Hpre as [-> _]. lia.
    - apply bind_ok in Hpre as (num & Hn & Hpre). apply chko_inv in Hn as [-> _].
      apply bind_ok in Hpre as (den & Hd & Hpre). apply chko_inv in Hd as [-> _].
      apply bind_ok in Hpre as (raw & Hr & Hpre). apply ceil_div_inv in Hr; try lia.
      apply bind_ok in Hpre as (diff & Hdf & Hpre). apply chko_inv in Hdf as [-> _].
      pose proof (ceil_mul_ge (post * 10000) (10000 - bps) ltac:(lia) ltac:(lia)).
      destruct (maxfee <=? raw - post); apply chko_inv in Hpre as [Hpre _]; subst; nia. }
  apply bind_ok in Hfee as (fnum & Hfn & Hfee). apply chko_inv in Hfn as [-> _].
  apply bind_ok in Hfee as (fraw & Hfr & Hfee). apply ceil_div_inv in Hfr; try nia.
  apply bind_ok in Hfee as (fraw64 & Hf64 & Hfee). apply chko_inv in Hf64 as [-> _].
  apply Ok_inj in Hfee.
  assert (Hfraw0 : 0 <= fraw) by (subst fraw; apply Z.div_pos; nia).
  destruct (bps =? 10000) eqn:E1.
  - apply chko_inv in Hpre as [-> _]. lia.
  - apply bind_ok in Hpre as (num & Hn & Hpre). apply chko_inv in Hn as [-> _].
    apply bind_ok in Hpre as (den & Hd & Hpre). apply chko_inv in Hd as [-> _].
    apply bind_ok in Hpre as (raw & Hr & Hpre). apply ceil_div_inv in Hr; try lia.
    apply bind_ok in Hpre as (diff & Hdf & Hpre). apply chko_inv in Hdf as [-> _].
    pose proof (ceil_mul_ge (post * 10000) (10000 - bps) ltac:(lia) ltac:(lia)) as Hce. rewrite <- Hr in Hce.
    destruct (maxfee <=? raw - post) eqn:Em; apply chko_inv in Hpre as [Hpre _].
    + subst pre. lia.
    + subst pre. split; [|lia].
      (* fee <= ceil(raw*bps/10000) and raw - ceil(raw*bps/10000) >= post *)
      assert (fraw < raw - post + 1); [|lia].
      subst fraw. apply Z.div_lt_upper_bound; [lia|]. lia.
Qed.

Lemma prefee_wrapper bps maxfee post pre :
  pre_fee_deposit_amount bps maxfee post = Ok pre -> calculate_pre_fee_amount bps maxfee post = Ok pre.
Proof. unfold pre_fee_deposit_amount. destruct (calculate_pre_fee_amount bps maxfee post); intros H; [assumption | discriminate]. Qed.

(* with a pending fee change: the schedule used for the gross-up is the one charged in that epoch *)
Lemma prefee_covers_every_epoch :
  forall s epoch post pre fee,
  0 <= fs_old_bps s <= 10000 -> 0 <= fs_new_bps s <= 10000 -> 0 <= fs_old_max s -> 0 <= fs_new_max s ->
  0 <= post -> 0 <= pre ->
  pre_fee_deposit_amount_at s epoch post = Ok pre -> calculate_epoch_fee s epoch pre = Ok fee ->
  post <= pre - fee /\ 0 <= fee.
Proof.
  intros s epoch post pre fee Ho Hn Hom Hnm Hp Hpre H1 H2.
  unfold pre_fee_deposit_amount_at, pre_fee_deposit_amount, calculate_epoch_fee, get_epoch_fee in H1, H2.
  destruct (fs_new_epoch s <=? epoch); cbn [fst snd] in H1, H2.
  - destruct (calculate_pre_fee_amount (fs_new_bps s) (fs_new_max s) post) as [v|e] eqn:E; [|discriminate].
    apply Ok_inj in H1; subst v. exact (prefee_covers _ _ _ _ _ Hn Hnm Hp Hpre E H2).
  - destruct (calculate_pre_fee_amount (fs_old_bps s) (fs_old_max s) post) as [v|e] eqn:E; [|discriminate].
    apply Ok_inj in H1; subst v. exact (prefee_covers _ _ _ _ _ Ho Hom Hp Hpre E H2).
Qed.

Lemma prefee_nonneg bps maxfee post pre : 0 <= post ->
  calculate_pre_fee_amount bps maxfee post = Ok pre -> 0 <= pre.
Proof.
  intros Hp H. unfold calculate_pre_fee_amount in H.
  destruct (bps =? 0); [apply Ok_inj in H; lia|].
  destruct (post =? 0); [apply Ok_inj in H; lia|].
  destruct (bps =? BPS_ONE).
  { apply chko_inv in H as [-> Hr]. unfold in_u64, in_range in Hr. lia. }
  apply bind_ok in H as (num & _ & H). apply bind_ok in H as (den & _ & H).
  apply bind_ok in H as (raw & _ & H). apply bind_ok in H as (diff & _ & H).
  destruct (maxfee <=? diff); apply chko_inv in H as [-> Hr]; unfold in_u64, in_range in Hr; lia.
Qed.

(* the emissions vault receives at least what the bank records as funded, and never more than was sent *)
Lemma fund_emissions_covers has_fee s epoch balance amount sent recv :
  0 <= fs_old_bps s <= 10000 -> 0 <= fs_new_bps s <= 10000 -> 0 <= fs_old_max s -> 0 <= fs_new_max s ->
  0 <= amount ->
  fund_emissions has_fee s epoch balance amount = Ok (sent, recv) ->
  amount <= recv /\ recv <= sent /\ sent <= balance.
Proof.
  intros Ho Hn Hom Hnm Ha H. unfold fund_emissions in H.
  apply bind_ok in H as (pre & Hpre & H).
  destruct (balance <? pre) eqn:Eb; [discriminate|].
  apply bind_ok in H as (fee & Hfee & H). apply Ok_inj in H.
  assert (sent = pre /\ recv = pre - fee) as [-> ->] by (inversion H; auto).
  destruct has_fee.
  - destruct (calculate_epoch_fee s epoch pre) as [f|e] eqn:Ef; [|discriminate].
    apply Ok_inj in Hfee; subst f.
    assert (0 <= pre).
    { unfold pre_fee_deposit_amount_at in Hpre. apply prefee_wrapper in Hpre. eapply prefee_nonneg; eauto. }
    destruct (prefee_covers_every_epoch s epoch amount pre fee Ho Hn Hom Hnm Ha H0 Hpre Ef). lia.
  - apply Ok_inj in Hpre. apply Ok_inj in Hfee. lia.
Qed.
