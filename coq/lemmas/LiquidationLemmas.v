(* LiquidationLemmas.v — C05: classic liquidation (Handlers.h_liquidate, Risk.pre_liquidation /
   post_liquidation): eligibility, improvement, bounds, fee split. *)
Require Import Base Constants Fixed Curve Bank BankOps Risk TransferFee Handlers.
Require Import FixedLemmas BankLemmas ValueLemmas CurveLemmas AccrualLemmas HandlerLemmas SolvencyLemmas LedgerLemmas.
Require Import ErrLemmas RiskGateLemmas.
From Coq Require Import ZifyBool.
Local Open Scope Z_scope.

(* ---------------------------------------------------------------- constants of the fee split *)
(* LIQUIDATION_LIQUIDATOR_FEE = LIQUIDATION_INSURANCE_FEE = 0.025 as I80F48 (rounded down) *)
Lemma liq_fee_val : LIQUIDATION_LIQUIDATOR_FEE = 25 * 2^48 / 1000.
Proof. reflexivity. Qed.
Lemma ins_fee_val : LIQUIDATION_INSURANCE_FEE = 25 * 2^48 / 1000.
Proof. reflexivity. Qed.

(* 1 - 0.025 and 1 - 0.05 as the program computes them *)
Definition D_LIQ : Z := 2^48 - 25 * 2^48 / 1000.
Definition D_FIN : Z := 2^48 - (25 * 2^48 / 1000 + 25 * 2^48 / 1000).
Lemma D_LIQ_is_0975 : 975 * 2^48 / 1000 <= D_LIQ <= 975 * 2^48 / 1000 + 1.
Proof. unfold D_LIQ. split; vm_compute; discriminate. Qed.
Lemma D_FIN_is_095 : 95 * 2^48 / 100 <= D_FIN <= 95 * 2^48 / 100 + 1.
Proof. unfold D_FIN. split; vm_compute; discriminate. Qed.

(* ---------------------------------------------------------------- the two health checks *)
Lemma pre_liquidation_inv ps k h A L :
  pre_liquidation ps (Some k) false = Ok (h, A, L) ->
  (exists p, find_pos ps k = Some p /\ liab_nonempty (ps_bal p) = true /\ asset_nonempty (ps_bal p) = false) /\
  health_components ps RqMaint = Ok (A, L) /\ h = A - L /\ h <= 0.
Proof.
  unfold pre_liquidation. intros H.
  apply bind_ok in H as (u & Hk & H).
  apply bind_ok in H as ([A' L'] & Hc & H). apply bind_ok in H as (h' & Hh & H).
  apply math_ok, csub_inv in Hh as [-> _].
  apply bind_ok in H as (u2 & Hck & H). apply check_ok in Hck. apply Ok_inj in H. inversion H; subst.
  split; [|split; [exact Hc | split; [reflexivity | cbn [negb andb] in Hck; lia]]].
  destruct (find_pos ps k) as [p|]; [|discriminate]. exists p.
  apply bind_ok in Hk as (u3 & H1 & H2). apply check_ok in H1. apply check_ok in H2.
  split; [reflexivity|]. split; [exact H1 | destruct (asset_nonempty (ps_bal p)); [discriminate | reflexivity]].
Qed.

Lemma post_liquidation_inv ps k h0 h1 :
  post_liquidation ps k h0 = Ok h1 ->
  (exists p, find_pos ps k = Some p /\ liab_nonempty (ps_bal p) = true /\ asset_nonempty (ps_bal p) = false) /\
  (exists A L, health_components ps RqMaint = Ok (A, L) /\ h1 = A - L) /\ h0 < h1 <= 0.
Proof.
  unfold post_liquidation. intros H. destruct (find_pos ps k) as [p|]; [|discriminate].
  apply bind_ok in H as (u1 & H1 & H). apply check_ok in H1.
  apply bind_ok in H as (u2 & H2 & H). apply check_ok in H2.
  apply bind_ok in H as ([A L] & Hc & H). apply bind_ok in H as (h & Hh & H). apply math_ok, csub_inv in Hh as [-> _].
  apply bind_ok in H as (u3 & H3 & H). apply check_ok in H3.
  apply bind_ok in H as (u4 & H4 & H). apply check_ok in H4. apply Ok_inj in H. subst h1.
  split; [exists p; split; [reflexivity|]; split; [exact H1 | destruct (asset_nonempty (ps_bal p)); [discriminate | reflexivity]]|].
  split; [exists A, L; split; [exact Hc | reflexivity] | lia].
Qed.

(* ---------------------------------------------------------------- slots *)
Lemma find_idx_set_same (f : balance -> bool) la : forall n i bl',
  find_idx f la n = Some i -> f bl' = true ->
  find_idx f (set_nth (i - n) bl' la) n = Some i.
Proof.
  induction la as [|x r IH]; intros n i bl' H Hf; cbn [find_idx] in H; [discriminate|].
  destruct (f x) eqn:E.
  - inversion H; subst. replace (i - i)%nat with 0%nat by lia. cbn [set_nth find_idx]. rewrite Hf. reflexivity.
  - pose proof (find_idx_spec _ _ _ _ H) as (_ & _ & _ & Hle).
    replace (i - n)%nat with (S (i - S n))%nat by lia. cbn [set_nth find_idx]. rewrite E. apply IH; assumption.
Qed.

Lemma find_active_set_same k la i bl' :
  find_active k la = Some i -> bl_active bl' = true -> bl_bank bl' = k ->
  find_active k (set_nth i bl' la) = Some i.
Proof.
  unfold find_active. intros H Ha Hb.
  pose proof (find_idx_set_same _ la 0 i bl' H) as F. rewrite Nat.sub_0_r in F. apply F. lia.
Qed.

(* the engine's lookup of a bank's position agrees with the wrapper's *)
Lemma find_pos_of_find_active w : forall la ps k i,
  positions w la = Ok ps -> find_active k la = Some i ->
  exists p bl, nth_error la i = Some bl /\ find_pos ps k = Some p /\ ps_bal p = bl.
Proof.
  unfold positions, find_active, find_pos.
  assert (G : forall la n ps k i,
    mapM (fun bl => let* hb := nth_res (Z.to_nat (bl_bank bl - 1)) (hw_banks w) in
                    Ok (mkPos bl (hb_b hb) (hb_c hb) (hb_feed hb))) (filter bl_active la) = Ok ps ->
    find_idx (fun bl => bl_active bl && (bl_bank bl =? k)) la n = Some i ->
    exists p bl, nth_error la (i - n) = Some bl /\
      find (fun p => bl_bank (ps_bal p) =? k) ps = Some p /\ ps_bal p = bl).
  { induction la as [|x r IH]; intros n ps k i Hm Hf; cbn [find_idx] in Hf; [discriminate|].
    cbn [filter] in Hm. destruct (bl_active x) eqn:Ea; cbn [andb] in Hf.
    - cbn [mapM] in Hm. apply bind_ok in Hm as (p & Hp & Hm). apply bind_ok in Hm as (ps' & Hps' & Hm).
      apply Ok_inj in Hm. subst ps. apply bind_ok in Hp as (hb & _ & Hp). apply Ok_inj in Hp. subst p.
      cbn [find ps_bal]. destruct (bl_bank x =? k) eqn:Ek.
      + inversion Hf; subst. replace (i - i)%nat with 0%nat by lia. eexists _, x. repeat split.
      + pose proof (find_idx_spec _ _ _ _ Hf) as (_ & _ & _ & Hle).
        destruct (IH _ _ _ _ Hps' Hf) as (p & bl & H1 & H2 & H3). exists p, bl.
        replace (i - n)%nat with (S (i - S n))%nat by lia. cbn [nth_error]. repeat split; assumption.
    - pose proof (find_idx_spec _ _ _ _ Hf) as (_ & _ & _ & Hle).
      destruct (IH _ _ _ _ Hm Hf) as (p & bl & H1 & H2 & H3). exists p, bl.
      replace (i - n)%nat with (S (i - S n))%nat by lia. cbn [nth_error]. repeat split; assumption. }
  intros la ps k i Hm Hf. destruct (G la 0%nat ps k i Hm Hf) as (p & bl & H1 & H2 & H3).
  rewrite Nat.sub_0_r in H1. exists p, bl. repeat split; assumption.
Qed.

Lemma In_insert_desc x y l : In x (insert_desc y l) <-> x = y \/ In x l.
Proof.
  induction l as [|z r IH]; cbn [insert_desc]; [cbn; intuition|].
  destruct (bl_bank z <? bl_bank y); cbn [In]; [intuition|]. rewrite IH. intuition.
Qed.
Lemma In_sort x l : In x (sort_balances l) <-> In x l.
Proof.
  unfold sort_balances. induction l as [|y r IH]; cbn [fold_right]; [reflexivity|].
  rewrite In_insert_desc, IH. cbn [In]. intuition.
Qed.

Lemma nth_error_set_nth_In {A} (l : list A) i v x : nth_error l i = Some x -> In v (set_nth i v l).
Proof.
  revert i; induction l as [|a r IH]; intros [|i] H; cbn in *; try discriminate; [left; reflexivity|].
  right. eapply IH; eauto.
Qed.
Lemma set_nth_In_other {A} (l : list A) i j v x : i <> j -> nth_error l j = Some x -> In x (set_nth i v l).
Proof.
  intros Hne H. apply (nth_error_In _ j). rewrite nth_set_nth_other by assumption. exact H.
Qed.

(* world well-formedness needed by the wrapper inversion lemmas (an invariant of the ledger, C02) *)
Definition hw_ok (w : hworld) : Prop :=
  Forall (fun hb => wf_sv (hb_b hb) /\ 0 <= b_tas (hb_b hb) /\ 0 <= b_tls (hb_b hb)) (hw_banks w) /\ accts_ok w.

Lemma accrue_keeps_sv bk pf now bk' :
  wf_sv bk -> 0 <= b_tas bk -> 0 <= b_tls bk -> accrue_interest bk pf now = Ok bk' -> wf_sv bk'.
Proof.
  intros [Ha Hl] Hta Htl H. apply accrue_monotone in H as (M1 & M2 & _); try lia. unfold wf_sv. lia.
Qed.

(* ---------------------------------------------------------------- amounts *)
Lemma calc_amount_inv v p d q :
  0 <= v -> 0 < p -> calc_amount v p d = Ok q ->
  0 <= d < 24 /\ q = (v * (10 ^ d * ONE) / ONE) * ONE / p /\ 0 <= q.
Proof.
  intros Hv Hp. unfold calc_amount. intros H.
  apply bind_ok in H as (sf & Hsf & H). apply exp10_fx_inv in Hsf as [Hd ->].
  apply bind_ok in H as (x & Hx & H). apply math_ok, cmul_inv in Hx as [-> _].
  pose proof ONE_pos as HO. pose proof (pow10_pos d ltac:(lia)) as H10.
  assert (Hx0 : 0 <= v * (10 ^ d * ONE) / ONE) by (apply Z.div_pos; nia).
  apply math_ok in H. apply cdiv_inv_nonneg in H; [|exact Hx0|exact Hp]. destruct H as [-> Hq].
  split; [exact Hd|]. split; [reflexivity | lia].
Qed.

(* creating / finding a slot for bank k leaves every active slot of another bank where it is *)
Lemma foc_keeps k bk la now i la' j x :
  wrapper_find_or_create k bk la now = Ok (i, la') -> nth_error la j = Some x ->
  bl_active x = true -> bl_bank x <> k -> nth_error la' j = Some x /\ i <> j.
Proof.
  unfold wrapper_find_or_create. intros H Hj Ha Hb.
  destruct (find_active k la) as [i0|] eqn:Ef.
  - apply pair_ok in H as [<- <-]. split; [exact Hj|]. intros ->.
    apply find_active_spec in Ef as (bl & H1 & _ & H3). rewrite Hj in H1. inversion H1; subst. congruence.
  - apply bind_ok in H as (u & _ & H). destruct (find_idx _ la 0) as [i0|] eqn:Ei; [|discriminate].
    apply pair_ok in H as [<- <-]. apply find_idx_spec in Ei as (bl0 & H1 & H2 & _). rewrite Nat.sub_0_r in H1.
    assert (i0 <> j). { intros ->. rewrite Hj in H1. inversion H1; subst. rewrite Ha in H2. discriminate. }
    split; [|assumption]. rewrite nth_set_nth_other by assumption. exact Hj.
Qed.

(* everything a successful classic liquidation did; all witnesses explicit *)
Record liq_facts (w : hworld) (r e ab lb : nat) (n : Z) (w' : hworld)
  (ha hl : hbank) (ee er : hacct) (ba1 bl1 : bank) (ps0 ps1 : list rpos) (h0 A0 L0 h1 : fx)
  (ap lp v1 v2 q_liq q_fin : fx) (i1 i2 i3 i4 : nat) (la1 la3 : laccount)
  (b1 b1' b2 b2' b3 b3' b4 b4' : balance) (bl2 ba2 ba3 bl3 : bank)
  (ee3 er3 : hacct) (ha' hl' : hbank) (f : Z) : Prop := {
  lq_args : 0 < n /\ ab <> lb;
  lq_banks : nth_bank w ab = Ok ha /\ nth_bank w lb = Ok hl;
  lq_accts : nth_acct w e = Ok ee /\ nth_acct w r = Ok er;
  lq_accrued : accrue_interest (hb_b ha) (hw_pf w) (hw_now w) = Ok ba1 /\
               accrue_interest (hb_b hl) (hw_pf w) (hw_now w) = Ok bl1;
  lq_noflash : aflag ee ACCOUNT_IN_FLASHLOAN = false;
  (* eligibility: the liquidatee's sorted positions in the world with both banks accrued *)
  lq_pre : positions (put_hbank (put_hbank w ab (set_hb_b ba1 ha)) lb (set_hb_b bl1 hl)) (sort_balances (ha_la ee)) = Ok ps0 /\
           pre_liquidation ps0 (Some (bank_pk lb)) false = Ok (h0, A0, L0);
  lq_prices : fd_load (hb_feed ha) = Ok tt /\ fd_low_rt (hb_feed ha) = Ok ap /\ 0 < ap /\
              fd_load (hb_feed hl) = Ok tt /\ fd_high_rt (hb_feed hl) = Ok lp /\ 0 < lp;
  lq_qty : calc_value (of_int n) ap (balance_decimals ba1) (Some D_LIQ) = Ok v1 /\
           calc_amount v1 lp (balance_decimals bl1) = Ok q_liq /\
           calc_value (of_int n) ap (balance_decimals ba1) (Some D_FIN) = Ok v2 /\
           calc_amount v2 lp (balance_decimals bl1) = Ok q_fin /\ 0 <= q_fin <= q_liq;
  (* leg 1: the liquidator's position in the debt bank decreases by q_liq *)
  lq_leg1 : wrapper_find_or_create (bank_pk lb) bl1 (ha_la er) (hw_now w) = Ok (i1, la1) /\
            nth_error la1 i1 = Some b1 /\ dec_facts bl1 b1 q_liq DecBypassBorrowLimit bl2 b1';
  (* leg 2: the liquidatee gives up `n` of the collateral (over-liquidation guard first) *)
  lq_leg2 : find_active (bank_pk ab) (sort_balances (ha_la ee)) = Some i2 /\
            nth_error (sort_balances (ha_la ee)) i2 = Some b2 /\
            of_int n <= bl_a b2 * b_asv ba1 / ONE /\
            dec_facts ba1 b2 (of_int n) DecBypassBorrowLimit ba2 b2';
  (* leg 3: the liquidator receives it *)
  lq_leg3 : wrapper_find_or_create (bank_pk ab) ba2 (set_nth i1 b1' la1) (hw_now w) = Ok (i3, la3) /\
            nth_error la3 i3 = Some b3 /\ inc_facts ba2 b3 (of_int n) IncBypassDepositLimit ba3 b3';
  (* leg 4: the liquidatee's debt is repaid by q_fin *)
  lq_leg4 : find_active (bank_pk lb) (set_nth i2 b2' (sort_balances (ha_la ee))) = Some i4 /\
            nth_error (set_nth i2 b2' (sort_balances (ha_la ee))) i4 = Some b4 /\ i4 <> i2 /\
            inc_facts bl2 b4 q_fin IncRepayOnly bl3 b4';
  (* final accounts *)
  lq_ee3 : ee3 = mkHA (set_nth i4 b4' (set_nth i2 b2' (sort_balances (ha_la ee)))) (ha_flags ee) /\
           nth_acct w' e = Ok ee3;
  lq_er3 : er3 = mkHA (sort_balances (set_nth i3 b3' la3)) (ha_flags er) /\ nth_acct w' r = Ok er3 /\
           In b1' (ha_la er3) /\ In b3' (ha_la er3);
  (* final banks: the insurance fee q_liq - q_fin leaves the liquidity vault as whole tokens, the
     fraction is booked to the outstanding insurance fees *)
  lq_hl' : nth_bank w' lb = Ok hl' /\ tfee hl ((q_liq - q_fin) / ONE) = Ok f /\
           (q_liq - q_fin) / ONE <= hb_vault hl /\
           hb_vault hl' = hb_vault hl - (q_liq - q_fin) / ONE /\
           hb_insv hl' = hb_insv hl + (q_liq - q_fin) / ONE - f /\
           hb_feev hl' = hb_feev hl /\ hb_feeata hl' = hb_feeata hl /\
           b_ins (hb_b hl') = b_ins bl1 + (q_liq - q_fin) mod ONE /\
           b_tas (hb_b hl') = b_tas bl3 /\ b_tls (hb_b hl') = b_tls bl3 /\
           b_asv (hb_b hl') = b_asv bl1 /\ b_lsv (hb_b hl') = b_lsv bl1;
  lq_ha' : nth_bank w' ab = Ok ha' /\
           hb_vault ha' = hb_vault ha /\ hb_insv ha' = hb_insv ha /\ hb_feev ha' = hb_feev ha /\ hb_feeata ha' = hb_feeata ha /\
           b_tas (hb_b ha') = b_tas ba3 /\ b_tls (hb_b ha') = b_tls ba3 /\
           b_asv (hb_b ha') = b_asv ba1 /\ b_lsv (hb_b ha') = b_lsv ba1 /\ b_ins (hb_b ha') = b_ins ba1;
  (* post conditions *)
  lq_post : positions w' (ha_la ee3) = Ok ps1 /\ post_liquidation ps1 (bank_pk lb) h0 = Ok h1;
  lq_liqor : init_health_check w' er3 = Ok tt;
  lq_wf : wf_sv ba1 /\ wf_sv bl1 /\ wf_bal b1 /\ wf_bal b2 /\ wf_bal b3 /\ wf_bal b4 /\
          (bl_active b1 = true /\ bl_bank b1 = bank_pk lb) /\ (bl_active b2 = true /\ bl_bank b2 = bank_pk ab) /\
          (bl_active b3 = true /\ bl_bank b3 = bank_pk ab) /\ (bl_active b4 = true /\ bl_bank b4 = bank_pk lb)
}.

Lemma positions_put_hacct w a x la : positions (put_hacct w a x) la = positions w la.
Proof. reflexivity. Qed.

Lemma cache_fields b pf now b' : update_bank_cache b pf now = Ok b' ->
  b_tas b' = b_tas b /\ b_tls b' = b_tls b /\ b_asv b' = b_asv b /\ b_lsv b' = b_lsv b /\ b_ins b' = b_ins b.
Proof. intros H. apply update_bank_cache_core in H as [-> | ->]; cbn; repeat split; reflexivity. Qed.

Theorem h_liquidate_inv w r e ab lb n w' :
  hw_ok w -> r <> e -> h_liquidate w r e ab lb n = Ok w' ->
  exists ha hl ee er ba1 bl1 ps0 ps1 h0 A0 L0 h1 ap lp v1 v2 q_liq q_fin i1 i2 i3 i4 la1 la3
         b1 b1' b2 b2' b3 b3' b4 b4' bl2 ba2 ba3 bl3 ee3 er3 ha' hl' f,
    liq_facts w r e ab lb n w' ha hl ee er ba1 bl1 ps0 ps1 h0 A0 L0 h1 ap lp v1 v2 q_liq q_fin i1 i2 i3 i4 la1 la3
              b1 b1' b2 b2' b3 b3' b4 b4' bl2 ba2 ba3 bl3 ee3 er3 ha' hl' f.
Proof.
  intros [Hbanks Haccts] Hre H. unfold h_liquidate, h_liquidate_gen in H.
  apply bind_ok in H as (ha & Hha & H). apply bind_ok in H as (hl & Hhl & H).
  apply bind_ok in H as (u3 & _ & H).
  apply bind_ok in H as (u1 & Hn & H). apply check_ok in Hn.
  apply bind_ok in H as (u2 & Hne & H). apply check_ok in Hne.
  apply bind_ok in H as (ee & Hee & H). apply bind_ok in H as (er & Her & H).
  apply bind_ok in H as (u4 & _ & H).
  apply bind_ok in H as (u5 & _ & H).
  apply bind_ok in H as (u6 & _ & H). apply bind_ok in H as (u7 & _ & H).
  apply bind_ok in H as (u8 & _ & H). apply bind_ok in H as (u9 & _ & H). apply bind_ok in H as (u10 & _ & H).
  apply bind_ok in H as (u10b & _ & H).
  apply bind_ok in H as (ba1 & Hba1 & H). apply bind_ok in H as (bl1 & Hbl1 & H).
  cbv zeta in H.
  set (wA := put_hbank (put_hbank w ab (set_hb_b ba1 ha)) lb (set_hb_b bl1 hl)) in H.
  set (ee1 := sort_acct ee) in H.
  set (w0 := put_hacct wA e ee1) in H.
  apply bind_ok in H as (u11 & Hfl & H). apply check_ok in Hfl.
  apply bind_ok in H as (ps0 & Hps0 & H).
  apply bind_ok in H as ([[h0 A0] L0] & Hpre & H).
  apply bind_ok in H as (u12 & Hla & H). apply bind_ok in H as (ap & Hap & H).
  apply bind_ok in H as (u13 & Hap0 & H). apply check_ok in Hap0.
  apply bind_ok in H as (u14 & Hll & H). apply bind_ok in H as (lp & Hlp & H).
  apply bind_ok in H as (u15 & Hlp0 & H). apply check_ok in Hlp0.
  apply bind_ok in H as (fsum & Hfs & H). apply bind_ok in H as (final_d & Hfd & H). apply bind_ok in H as (liq_d & Hld & H).
  apply bind_ok in H as (v1 & Hv1 & H). apply bind_ok in H as (q_liq & Hql & H).
  apply bind_ok in H as (v2 & Hv2 & H). apply bind_ok in H as (q_fin & Hqf & H).
  apply bind_ok in H as (ins_fee & Hif & H). apply bind_ok in H as (u16 & Hif0 & H). apply assert_ok in Hif0.
  apply bind_ok in H as (er0 & Her0 & H).
  apply bind_ok in H as ([i1 la1] & Hfc1 & H). apply bind_ok in H as (b1 & Hb1 & H).
  apply bind_ok in H as ([bl2 b1'] & Hdec1 & H).
  apply bind_ok in H as (i2 & Hf2 & H). apply bind_ok in H as (b2 & Hb2 & H).
  apply bind_ok in H as (pre_bal & Hpb & H). apply bind_ok in H as (u17 & Hover & H). apply check_ok in Hover.
  apply bind_ok in H as ([ba2 b2'] & Hdec2 & H).
  cbn [ha_la ha_flags] in H.
  apply bind_ok in H as ([i3 la3] & Hfc3 & H). apply bind_ok in H as (b3 & Hb3 & H).
  apply bind_ok in H as ([ba3 b3'] & Hinc3 & H).
  apply bind_ok in H as (ins_n & Hinsn & H).
  apply bind_ok in H as (i4 & Hf4 & H). apply bind_ok in H as (b4 & Hb4 & H).
  apply bind_ok in H as ([bl3 b4'] & Hinc4 & H).
  apply bind_ok in H as (hl0 & Hhl0 & H).
  apply bind_ok in H as (u18 & Hvault & H). apply check_ok in Hvault.
  apply bind_ok in H as (f & Hf & H).
  apply bind_ok in H as (ins' & Hins' & H).
  apply bind_ok in H as (ba4 & Hba4 & H). apply bind_ok in H as (bl5 & Hbl5 & H).
  apply bind_ok in H as (ha0 & Hha0 & H).
  set (ee3 := mkHA (set_nth i4 b4' (set_nth i2 b2' (ha_la ee1))) (ha_flags ee1)) in H.
  set (er2 := mkHA (set_nth i3 b3' la3) (ha_flags er0)) in H.
  set (hl' := set_hb_insv (hb_insv hl0 + ins_n - f) (set_hb_vault (hb_vault hl0 - ins_n) (set_hb_b bl5 hl0))) in H.
  set (wB := put_hbank (put_hbank w0 ab (set_hb_b ba4 ha0)) lb hl') in H.
  apply bind_ok in H as (u19 & Hfl2 & H).
  apply bind_ok in H as (ps1 & Hps1 & H).
  apply bind_ok in H as (h1 & Hpost & H).
  apply bind_ok in H as (u20 & Hgate & H). destruct u20. apply Ok_inj in H.
  (* ---- bookkeeping ---- *)
  destruct u12, u14.
  assert (Hablb : ab <> lb) by (destruct (Nat.eqb_spec ab lb); [discriminate | assumption]).
  assert (EhlA : nth_bank wA lb = Ok (set_hb_b bl1 hl)).
  { unfold wA. apply (put_hbank_get _ _ _ hl). rewrite nth_bank_put_other by exact Hablb. exact Hhl. }
  assert (EhaA : nth_bank wA ab = Ok (set_hb_b ba1 ha)).
  { unfold wA. rewrite nth_bank_put_other by (intros E; apply Hablb; symmetry; exact E). apply (put_hbank_get _ _ _ ha). exact Hha. }
  assert (Ehl0 : hl0 = set_hb_b bl1 hl).
  { unfold w0 in Hhl0. rewrite nth_bank_put_hacct, EhlA in Hhl0. apply Ok_inj in Hhl0. auto. }
  assert (Eha0 : ha0 = set_hb_b ba1 ha).
  { unfold w0 in Hha0. rewrite nth_bank_put_hacct, EhaA in Hha0. apply Ok_inj in Hha0. auto. }
  assert (Eer0 : er0 = er).
  { unfold w0 in Her0. rewrite nth_acct_put_other in Her0 by (intros E; apply Hre; symmetry; exact E).
    unfold wA in Her0. rewrite !nth_acct_put_hbank, Her in Her0. apply Ok_inj in Her0. auto. }
  subst hl0 ha0 er0.
  change (hw_now w0) with (hw_now w) in *. change (hw_pf w0) with (hw_pf w) in *. change (t64 w0) with (t64 w) in *.
  (* well-formedness *)
  pose proof (nth_res_Forall _ _ _ _ Hha Hbanks) as (Sva & Taa & Tla).
  pose proof (nth_res_Forall _ _ _ _ Hhl Hbanks) as (Svl & Tal & Tll).
  pose proof (accrue_keeps_sv _ _ _ _ Sva Taa Tla Hba1) as Sva1.
  pose proof (accrue_keeps_sv _ _ _ _ Svl Tal Tll Hbl1) as Svl1.
  pose proof (accts_ok_nth _ _ _ Haccts Her) as Wer. pose proof (accts_ok_nth _ _ _ Haccts Hee) as Wee.
  assert (Wee1 : Forall wf_bal (ha_la ee1)) by (unfold ee1; cbn [sort_acct ha_la]; apply Forall_sort; exact Wee).
  (* quantities *)
  apply uadd_inv in Hfs as [-> _]. apply usub_inv in Hfd as [-> _]. apply usub_inv in Hld as [-> _].
  change (ONE - LIQUIDATION_LIQUIDATOR_FEE) with D_LIQ in *.
  change (ONE - (LIQUIDATION_INSURANCE_FEE + LIQUIDATION_LIQUIDATOR_FEE)) with D_FIN in *.
  assert (Hn0 : 0 <= of_int n) by (unfold of_int; pose proof ONE_pos; nia).
  assert (HDL : 0 <= D_LIQ) by (vm_compute; discriminate). assert (HDF : 0 <= D_FIN) by (vm_compute; discriminate).
  assert (Hap1 : 0 <= ap) by lia. assert (Hlp1 : 0 < lp) by lia.
  destruct (calc_value_bound _ _ _ _ _ Hn0 HDL Hap1 Hv1) as (Hv10 & _).
  destruct (calc_value_bound _ _ _ _ _ Hn0 HDF Hap1 Hv2) as (Hv20 & _).
  destruct (calc_amount_inv _ _ _ _ Hv10 Hlp1 Hql) as (_ & _ & Hql0).
  destruct (calc_amount_inv _ _ _ _ Hv20 Hlp1 Hqf) as (_ & _ & Hqf0).
  apply usub_inv in Hif as [-> _].
  (* leg 1 *)
  destruct (slot_located (bank_pk lb) bl1 (ha_la er) (hw_now w) true i1 la1 b1 Hfc1 Hb1 Wer) as (Ab1 & Bb1 & Wb1 & Wla1 & _).
  pose proof (decrease_balance_inv _ _ _ _ _ _ _ Svl1 Wb1 Hql0 Hdec1) as F1.
  destruct (decrease_value _ _ _ _ _ _ _ Svl1 Wb1 Hql0 Hdec1) as (_ & Wb1').
  assert (Svl2 : wf_sv bl2) by (destruct (df_sv _ _ _ _ _ _ F1) as [S1 S2]; unfold wf_sv in *; lia).
  (* leg 2 *)
  assert (Hloc2 : (let* i := wrapper_find (bank_pk ab) (ha_la ee1) in Ok (i, ha_la ee1)) = Ok (i2, ha_la ee1))
    by (rewrite Hf2; reflexivity).
  destruct (slot_located (bank_pk ab) ba1 (ha_la ee1) (hw_now w) false i2 (ha_la ee1) b2 Hloc2 Hb2 Wee1) as (Ab2 & Bb2 & Wb2 & _ & _).
  pose proof (decrease_balance_inv _ _ _ _ _ _ _ Sva1 Wb2 Hn0 Hdec2) as F2.
  destruct (decrease_value _ _ _ _ _ _ _ Sva1 Wb2 Hn0 Hdec2) as (_ & Wb2').
  assert (Sva2 : wf_sv ba2) by (destruct (df_sv _ _ _ _ _ _ F2) as [S1 S2]; unfold wf_sv in *; lia).
  apply get_asset_amount_inv in Hpb.
  (* leg 3 *)
  assert (Wla2 : Forall wf_bal (set_nth i1 b1' la1)) by (apply Forall_set_nth; assumption).
  destruct (slot_located (bank_pk ab) ba2 (set_nth i1 b1' la1) (hw_now w) true i3 la3 b3 Hfc3 Hb3 Wla2) as (Ab3 & Bb3 & Wb3 & Wla3 & _).
  pose proof (increase_balance_inv _ _ _ _ _ _ _ Sva2 Wb3 Hn0 Hinc3) as F3.
  (* leg 4 *)
  assert (Wla4 : Forall wf_bal (set_nth i2 b2' (ha_la ee1))) by (apply Forall_set_nth; assumption).
  assert (Hloc4 : (let* i := wrapper_find (bank_pk lb) (set_nth i2 b2' (ha_la ee1)) in Ok (i, set_nth i2 b2' (ha_la ee1))) = Ok (i4, set_nth i2 b2' (ha_la ee1)))
    by (rewrite Hf4; reflexivity).
  destruct (slot_located (bank_pk lb) bl2 _ (hw_now w) false i4 _ b4 Hloc4 Hb4 Wla4) as (Ab4 & Bb4 & Wb4 & _ & _).
  pose proof (increase_balance_inv _ _ _ _ _ _ _ Svl2 Wb4 Hqf0 Hinc4) as F4.
  (* derived *)
  assert (Eins_n : ins_n = (q_liq - q_fin) / ONE /\ 0 <= ins_n).
  { destruct (to_u64_checked (q_liq - q_fin)) as [x|] eqn:E; [|discriminate]. apply Ok_inj in Hinsn. subst x.
    apply to_u64_inv in E as [-> ?]. split; [reflexivity | lia]. }
  destruct Eins_n as [Eins_n Hins_n0].
  assert (Eins' : ins' = b_ins bl3 + (q_liq - q_fin) mod ONE).
  { destruct (cadd (b_ins bl3) (ffrac (q_liq - q_fin))) as [x|] eqn:E; [|discriminate]. apply Ok_inj in Hins'. subst x.
    apply cadd_inv in E as [-> _]. reflexivity. }
  pose proof (nth_res_ok _ _ _ Hb1) as Nb1. pose proof (nth_res_ok _ _ _ Hb2) as Nb2.
  pose proof (nth_res_ok _ _ _ Hb3) as Nb3. pose proof (nth_res_ok _ _ _ Hb4) as Nb4.
  destruct (df_meta _ _ _ _ _ _ F1) as (M1a & M1b & _). destruct (df_meta _ _ _ _ _ _ F2) as (M2a & M2b & _).
  assert (Hpk : bank_pk lb <> bank_pk ab) by (intros E; apply bank_pk_inj in E; congruence).
  assert (Hi42 : i4 <> i2).
  { intros ->. rewrite (nth_set_nth_same _ _ _ _ Nb2) in Nb4. inversion Nb4; subst b4. congruence. }
  assert (Hkeep : nth_error la3 i1 = Some b1' /\ i3 <> i1).
  { apply (foc_keeps _ _ _ _ _ _ _ _ Hfc3); [apply (nth_set_nth_same _ _ _ _ Nb1) | congruence | congruence]. }
  destruct Hkeep as [Nb1' Hi31].
  assert (Hf2' : find_active (bank_pk ab) (ha_la ee1) = Some i2).
  { unfold wrapper_find in Hf2. destruct (find_active (bank_pk ab) (ha_la ee1)); [apply Ok_inj in Hf2; congruence | discriminate]. }
  assert (Hf4' : find_active (bank_pk lb) (set_nth i2 b2' (ha_la ee1)) = Some i4).
  { unfold wrapper_find in Hf4. destruct (find_active (bank_pk lb) _); [apply Ok_inj in Hf4; congruence | discriminate]. }
  destruct (cache_fields _ _ _ _ Hba4) as (Ca1 & Ca2 & Ca3 & Ca4 & Ca5).
  destruct (cache_fields _ _ _ _ Hbl5) as (Cl1 & Cl2 & Cl3 & Cl4 & Cl5).
  destruct (df_sv _ _ _ _ _ _ F1) as [S1a S1l]. destruct (df_sv _ _ _ _ _ _ F2) as [S2a S2l].
  destruct (if_sv _ _ _ _ _ _ F3) as [S3a S3l]. destruct (if_sv _ _ _ _ _ _ F4) as [S4a S4l].
  destruct (df_fees _ _ _ _ _ _ F1) as (I1 & _). destruct (df_fees _ _ _ _ _ _ F2) as (I2 & _).
  destruct (if_fees _ _ _ _ _ _ F3) as (I3 & _). destruct (if_fees _ _ _ _ _ _ F4) as (I4 & _).
  assert (Ee : nth_acct w0 e = Ok ee1).
  { unfold w0. apply (put_hacct_get _ _ _ ee). unfold wA. rewrite !nth_acct_put_hbank. exact Hee. }
  assert (Er2 : nth_acct (put_hacct (put_hacct wB e ee3) r er2) r = Ok er2).
  { apply (put_hacct_get _ _ _ er). rewrite nth_acct_put_other by (intros E; apply Hre; symmetry; exact E).
    unfold wB. rewrite !nth_acct_put_hbank. exact Her0. }
  assert (Hn' : 0 < n) by (clear - Hn; lia).
  assert (Hap' : 0 < ap) by (clear - Hap0; lia).
  assert (Hq' : 0 <= q_fin <= q_liq) by (clear - Hif0 Hqf0; lia).
  assert (Hov' : of_int n <= bl_a b2 * b_asv ba1 / ONE) by (clear - Hover Hpb; lia).
  assert (Hvault' : ins_n <= hb_vault hl) by (clear - Hvault; cbn [set_hb_b hb_vault] in Hvault; lia).
  subst w'.
  exists ha, hl, ee, er, ba1, bl1, ps0, ps1, h0, A0, L0, h1, ap, lp, v1, v2, q_liq, q_fin, i1, i2, i3, i4, la1, la3.
  exists b1, b1', b2, b2', b3, b3', b4, b4', bl2, ba2, ba3, bl3, ee3, (sort_acct er2), (set_hb_b ba4 (set_hb_b ba1 ha)), hl', f.
  constructor.
  - split; [exact Hn' | exact Hablb].
  - split; assumption.
  - split; assumption.
  - split; assumption.
  - change (aflag ee1 ACCOUNT_IN_FLASHLOAN) with (aflag ee ACCOUNT_IN_FLASHLOAN) in Hfl.
    destruct (aflag ee ACCOUNT_IN_FLASHLOAN); [discriminate | reflexivity].
  - split; [exact Hps0 | exact Hpre].
  - repeat split; assumption.
  - destruct Hq'. repeat split; assumption.
  - split; [exact Hfc1|]. split; [exact Nb1 | exact F1].
  - split; [exact Hf2'|]. split; [exact Nb2|]. split; [exact Hov' | exact F2].
  - split; [exact Hfc3|]. split; [exact Nb3 | exact F3].
  - split; [exact Hf4'|]. split; [exact Nb4|]. split; [exact Hi42 | exact F4].
  - split; [reflexivity|]. rewrite !nth_acct_put_other by exact Hre.
    apply (put_hacct_get _ _ _ ee1). unfold wB. rewrite !nth_acct_put_hbank. exact Ee.
  - split; [reflexivity|]. split; [apply (put_hacct_get _ _ _ er2); exact Er2|].
    cbn [sort_acct ha_la er2]. rewrite !In_sort. split.
    + apply (set_nth_In_other _ _ i1 _ _ Hi31 Nb1').
    + apply (nth_error_set_nth_In _ _ _ _ Nb3).
  - rewrite !nth_bank_put_hacct. rewrite <- Eins_n.
    split; [unfold wB; apply (put_hbank_get _ _ _ (set_hb_b bl1 hl)); rewrite nth_bank_put_other by exact Hablb; exact Hhl0|].
    split; [exact Hf|]. cbn [hl' set_hb_b set_hb_vault set_hb_insv hb_vault hb_insv hb_feev hb_feeata hb_b] in *.
    split; [exact Hvault'|]. split; [reflexivity|]. split; [reflexivity|]. split; [reflexivity|]. split; [reflexivity|].
    rewrite Cl1, Cl2, Cl3, Cl4, Cl5. cbn [set_b_ins b_ins b_tas b_tls b_asv b_lsv].
    repeat split; congruence.
  - rewrite !nth_bank_put_hacct.
    split; [unfold wB; rewrite nth_bank_put_other by (intros E; apply Hablb; symmetry; exact E);
            apply (put_hbank_get _ _ _ (set_hb_b ba1 ha)); exact Hha0|].
    cbn [set_hb_b hb_vault hb_insv hb_feev hb_feeata hb_b].
    repeat split; try reflexivity; try congruence.
  - split; [exact Hps1 | exact Hpost].
  - exact Hgate.
  - exact (conj Sva1 (conj Svl1 (conj Wb1 (conj Wb2 (conj Wb3 (conj Wb4 (conj (conj Ab1 Bb1) (conj (conj Ab2 Bb2) (conj (conj Ab3 Bb3) (conj Ab4 Bb4)))))))))).
Qed.

(* ================================================================================================
   The statements of C05, derived from the inversion *)

(* the world the eligibility check is evaluated on *)
Definition accrued_world (w : hworld) (ab lb : nat) (ha hl : hbank) (ba1 bl1 : bank) : hworld :=
  put_hbank (put_hbank w ab (set_hb_b ba1 ha)) lb (set_hb_b bl1 hl).

(* 1. eligibility, improvement, bound *)
Theorem liquidation_health w r e ab lb n w' :
  hw_ok w -> r <> e -> h_liquidate w r e ab lb n = Ok w' ->
  exists ha hl ee ba1 bl1 ps0 h0 A0 L0 ee3 ps1 h1 A1 L1,
    nth_bank w ab = Ok ha /\ nth_bank w lb = Ok hl /\ nth_acct w e = Ok ee /\
    accrue_interest (hb_b ha) (hw_pf w) (hw_now w) = Ok ba1 /\
    accrue_interest (hb_b hl) (hw_pf w) (hw_now w) = Ok bl1 /\
    positions (accrued_world w ab lb ha hl ba1 bl1) (sort_balances (ha_la ee)) = Ok ps0 /\
    pre_liquidation ps0 (Some (bank_pk lb)) false = Ok (h0, A0, L0) /\
    health_components ps0 RqMaint = Ok (A0, L0) /\ h0 = A0 - L0 /\
    nth_acct w' e = Ok ee3 /\ positions w' (ha_la ee3) = Ok ps1 /\
    post_liquidation ps1 (bank_pk lb) h0 = Ok h1 /\
    health_components ps1 RqMaint = Ok (A1, L1) /\ h1 = A1 - L1 /\
    h0 < h1 <= 0 /\ h0 < 0.
Proof.
  intros Hw Hre H.
  destruct (h_liquidate_inv _ _ _ _ _ _ _ Hw Hre H) as
    (ha & hl & ee & er & ba1 & bl1 & ps0 & ps1 & h0 & A0 & L0 & h1 & ap & lp & v1 & v2 & q_liq & q_fin & i1 & i2 & i3 & i4 & la1 & la3 &
     b1 & b1' & b2 & b2' & b3 & b3' & b4 & b4' & bl2 & ba2 & ba3 & bl3 & ee3 & er3 & ha' & hl' & f & F).
  destruct (lq_banks _ _ _ _ _ _ _ _ _ _ _ _ _ _ _ _ _ _ _ _ _ _ _ _ _ _ _ _ _ _ _ _ _ _ _ _ _ _ _ _ _ _ _ _ _ _ _ _ F) as [Hha Hhl].
  destruct (lq_accts _ _ _ _ _ _ _ _ _ _ _ _ _ _ _ _ _ _ _ _ _ _ _ _ _ _ _ _ _ _ _ _ _ _ _ _ _ _ _ _ _ _ _ _ _ _ _ _ F) as [Hee _].
  destruct (lq_accrued _ _ _ _ _ _ _ _ _ _ _ _ _ _ _ _ _ _ _ _ _ _ _ _ _ _ _ _ _ _ _ _ _ _ _ _ _ _ _ _ _ _ _ _ _ _ _ _ F) as [Hba1 Hbl1].
  destruct (lq_pre _ _ _ _ _ _ _ _ _ _ _ _ _ _ _ _ _ _ _ _ _ _ _ _ _ _ _ _ _ _ _ _ _ _ _ _ _ _ _ _ _ _ _ _ _ _ _ _ F) as [Hps0 Hpre].
  destruct (lq_ee3 _ _ _ _ _ _ _ _ _ _ _ _ _ _ _ _ _ _ _ _ _ _ _ _ _ _ _ _ _ _ _ _ _ _ _ _ _ _ _ _ _ _ _ _ _ _ _ _ F) as [_ Hee3].
  destruct (lq_post _ _ _ _ _ _ _ _ _ _ _ _ _ _ _ _ _ _ _ _ _ _ _ _ _ _ _ _ _ _ _ _ _ _ _ _ _ _ _ _ _ _ _ _ _ _ _ _ F) as [Hps1 Hpost].
  destruct (pre_liquidation_inv _ _ _ _ _ Hpre) as (_ & Hc0 & Eh0 & _).
  destruct (post_liquidation_inv _ _ _ _ Hpost) as (_ & (A1 & L1 & Hc1 & Eh1) & Hlt).
  exists ha, hl, ee, ba1, bl1, ps0, h0, A0, L0, ee3, ps1, h1, A1, L1.
  repeat split; try assumption; lia.
Qed.

(* the pre-check alone rejects only h0 > 0 *)
Lemma pre_liquidation_accepts_zero ps k A L :
  health_components ps RqMaint = Ok (A, L) -> A - L = 0 -> I128_MIN <= A - L <= I128_MAX ->
  (exists p, find_pos ps k = Some p /\ liab_nonempty (ps_bal p) = true /\ asset_nonempty (ps_bal p) = false) ->
  pre_liquidation ps (Some k) false = Ok (0, A, L).
Proof.
  intros Hc Hz Hr (p & Hp & H1 & H2). unfold pre_liquidation. rewrite Hp, H1, H2. cbn [check negb bind].
  rewrite Hc. cbn [bind]. rewrite csub_ok by exact Hr. cbn [math ok_or bind]. rewrite Hz. reflexivity.
Qed.

Lemma lshares_zero b : lshares b 0 = 0.
Proof. unfold lshares. reflexivity. Qed.

(* 2. nothing flipped: the liquidatee's debt position is still a debt, the seized position got no debt *)
Theorem liquidation_no_flip w r e ab lb n w' :
  hw_ok w -> r <> e -> h_liquidate w r e ab lb n = Ok w' ->
  exists ee ee3 ba1 i2 i4 b2 b2' b4',
    nth_acct w e = Ok ee /\ nth_acct w' e = Ok ee3 /\
    find_active (bank_pk lb) (ha_la ee3) = Some i4 /\ nth_error (ha_la ee3) i4 = Some b4' /\
    liab_nonempty b4' = true /\ asset_nonempty b4' = false /\
    find_active (bank_pk ab) (sort_balances (ha_la ee)) = Some i2 /\
    nth_error (sort_balances (ha_la ee)) i2 = Some b2 /\ nth_error (ha_la ee3) i2 = Some b2' /\
    bl_l b2' = bl_l b2 /\ 0 <= bl_a b2' <= bl_a b2 /\
    (* over-liquidation guard: the seized amount is at most the position's asset amount *)
    of_int n <= bl_a b2 * b_asv ba1 / ONE.
Proof.
  intros Hw Hre H.
  destruct (h_liquidate_inv _ _ _ _ _ _ _ Hw Hre H) as
    (ha & hl & ee & er & ba1 & bl1 & ps0 & ps1 & h0 & A0 & L0 & h1 & ap & lp & v1 & v2 & q_liq & q_fin & i1 & i2 & i3 & i4 & la1 & la3 &
     b1 & b1' & b2 & b2' & b3 & b3' & b4 & b4' & bl2 & ba2 & ba3 & bl3 & ee3 & er3 & ha' & hl' & f & F).
  destruct (lq_accts _ _ _ _ _ _ _ _ _ _ _ _ _ _ _ _ _ _ _ _ _ _ _ _ _ _ _ _ _ _ _ _ _ _ _ _ _ _ _ _ _ _ _ _ _ _ _ _ F) as [Hee _].
  destruct (lq_ee3 _ _ _ _ _ _ _ _ _ _ _ _ _ _ _ _ _ _ _ _ _ _ _ _ _ _ _ _ _ _ _ _ _ _ _ _ _ _ _ _ _ _ _ _ _ _ _ _ F) as [Eee3 Hee3].
  destruct (lq_post _ _ _ _ _ _ _ _ _ _ _ _ _ _ _ _ _ _ _ _ _ _ _ _ _ _ _ _ _ _ _ _ _ _ _ _ _ _ _ _ _ _ _ _ _ _ _ _ F) as [Hps1 Hpost].
  destruct (lq_leg2 _ _ _ _ _ _ _ _ _ _ _ _ _ _ _ _ _ _ _ _ _ _ _ _ _ _ _ _ _ _ _ _ _ _ _ _ _ _ _ _ _ _ _ _ _ _ _ _ F) as (Hf2 & Nb2 & Hov & F2).
  destruct (lq_leg4 _ _ _ _ _ _ _ _ _ _ _ _ _ _ _ _ _ _ _ _ _ _ _ _ _ _ _ _ _ _ _ _ _ _ _ _ _ _ _ _ _ _ _ _ _ _ _ _ F) as (Hf4 & Nb4 & Hi42 & F4).
  destruct (lq_wf _ _ _ _ _ _ _ _ _ _ _ _ _ _ _ _ _ _ _ _ _ _ _ _ _ _ _ _ _ _ _ _ _ _ _ _ _ _ _ _ _ _ _ _ _ _ _ _ F)
    as (Sva1 & _ & _ & Wb2 & _ & _ & _ & _ & _ & (Ab4 & Bb4)).
  destruct (if_meta _ _ _ _ _ _ F4) as (M4a & M4b & _).
  assert (Hfa : find_active (bank_pk lb) (ha_la ee3) = Some i4).
  { rewrite Eee3. cbn [ha_la]. apply find_active_set_same; [exact Hf4 | congruence | congruence]. }
  assert (Nb4' : nth_error (ha_la ee3) i4 = Some b4').
  { rewrite Eee3. cbn [ha_la]. apply (nth_set_nth_same _ _ _ _ Nb4). }
  destruct (find_pos_of_find_active _ _ _ _ _ Hps1 Hfa) as (p & bl & Hn4 & Hfp & Ebl).
  rewrite Nb4' in Hn4. apply Some_inj in Hn4. rewrite <- Hn4 in Ebl.
  destruct (post_liquidation_inv _ _ _ _ Hpost) as ((p' & Hfp' & Hl & Ha) & _).
  rewrite Hfp in Hfp'. apply Some_inj in Hfp'. rewrite <- Hfp', Ebl in Hl, Ha.
  assert (Nb2' : nth_error (ha_la ee3) i2 = Some b2').
  { rewrite Eee3. cbn [ha_la]. rewrite nth_set_nth_other by exact Hi42. apply (nth_set_nth_same _ _ _ _ Nb2). }
  pose proof (df_l _ _ _ _ _ _ F2) as Dl. pose proof (df_a _ _ _ _ _ _ F2) as Da.
  assert (Hz : dec_l_inc ba1 b2 (of_int n) = 0) by (unfold dec_l_inc; lia).
  rewrite Hz, lshares_zero in Dl.
  destruct Sva1 as [Hasv Hlsv]. destruct Wb2 as [Hb2a Hb2l]. pose proof ONE_pos as HO.
  assert (Hn0 : 0 <= of_int n) by (destruct (lq_args _ _ _ _ _ _ _ _ _ _ _ _ _ _ _ _ _ _ _ _ _ _ _ _ _ _ _ _ _ _ _ _ _ _ _ _ _ _ _ _ _ _ _ _ _ _ _ _ F); unfold of_int; nia).
  assert (Hd : dec_a_dec ba1 b2 (of_int n) = of_int n) by (unfold dec_a_dec; lia).
  rewrite Hd in Da.
  destruct (ashares_le ba1 (of_int n) Hn0 Hasv) as [As0 As1].
  assert (Hle : ashares ba1 (of_int n) <= bl_a b2).
  { unfold ashares in *. destruct (b_asv ba1 =? 0) eqn:E0; [lia|]. apply Z.div_le_upper_bound; [lia|].
    pose proof (Z.mul_div_le (bl_a b2 * b_asv ba1) ONE HO). nia. }
  exists ee, ee3, ba1, i2, i4, b2, b2', b4'. repeat split; try assumption; lia.
Qed.

(* 3. the liquidator passed the initial-health gate on the final world *)
Theorem liquidation_liquidator_healthy w r e ab lb n w' :
  hw_ok w -> r <> e -> h_liquidate w r e ab lb n = Ok w' ->
  exists er er3, nth_acct w r = Ok er /\ nth_acct w' r = Ok er3 /\ ha_flags er3 = ha_flags er /\
    init_health_check w' er3 = Ok tt /\
    (aflag er ACCOUNT_IN_FLASHLOAN = false ->
     exists ps A L, positions w' (ha_la er3) = Ok ps /\ health_components ps RqInitial = Ok (A, L) /\
       L <= A /\ risk_tiers_ok ps = true).
Proof.
  intros Hw Hre H.
  destruct (h_liquidate_inv _ _ _ _ _ _ _ Hw Hre H) as
    (ha & hl & ee & er & ba1 & bl1 & ps0 & ps1 & h0 & A0 & L0 & h1 & ap & lp & v1 & v2 & q_liq & q_fin & i1 & i2 & i3 & i4 & la1 & la3 &
     b1 & b1' & b2 & b2' & b3 & b3' & b4 & b4' & bl2 & ba2 & ba3 & bl3 & ee3 & er3 & ha' & hl' & f & F).
  destruct (lq_accts _ _ _ _ _ _ _ _ _ _ _ _ _ _ _ _ _ _ _ _ _ _ _ _ _ _ _ _ _ _ _ _ _ _ _ _ _ _ _ _ _ _ _ _ _ _ _ _ F) as [_ Her].
  destruct (lq_er3 _ _ _ _ _ _ _ _ _ _ _ _ _ _ _ _ _ _ _ _ _ _ _ _ _ _ _ _ _ _ _ _ _ _ _ _ _ _ _ _ _ _ _ _ _ _ _ _ F) as (Eer3 & Her3 & _).
  pose proof (lq_liqor _ _ _ _ _ _ _ _ _ _ _ _ _ _ _ _ _ _ _ _ _ _ _ _ _ _ _ _ _ _ _ _ _ _ _ _ _ _ _ _ _ _ _ _ _ _ _ _ F) as Hg.
  exists er, er3. split; [exact Her|]. split; [exact Her3|].
  assert (Efl : ha_flags er3 = ha_flags er) by (rewrite Eer3; reflexivity).
  split; [exact Efl|]. split; [exact Hg|]. intros Hfl.
  assert (Hfl3 : aflag er3 ACCOUNT_IN_FLASHLOAN = false) by (rewrite (aflag_flags _ _ _ Efl); exact Hfl).
  destruct (init_health_check_ok _ _ Hg Hfl3) as (ps & Hp & Hc).
  apply check_init_health_ok in Hc as (A & L & HAL & HLA & Ht). exists ps, A, L. repeat split; assumption.
Qed.

(* calc_amount is exact up to one floor: q = floor(value * 10^dec * 2^48 / price) *)
Theorem calc_amount_bound v p d q :
  0 <= v -> 0 < p -> calc_amount v p d = Ok q ->
  0 <= q /\ q * p <= v * 10 ^ d * 2^48 < (q + 1) * p.
Proof.
  intros Hv Hp H. destruct (calc_amount_inv _ _ _ _ Hv Hp H) as (Hd & -> & Hq). change (2^48) with ONE.
  pose proof ONE_pos as HO. replace (v * (10 ^ d * ONE) / ONE) with (v * 10 ^ d) in *
    by (rewrite Z.mul_assoc, Z.div_mul by lia; reflexivity).
  split; [exact Hq|].
  pose proof (Z.div_mod (v * 10 ^ d * ONE) p ltac:(lia)). pose proof (Z.mod_pos_bound (v * 10 ^ d * ONE) p Hp). nia.
Qed.

(* a liquidation quantity against the exact rational n * p_asset * discount * 10^dl / (10^da * p_liab)
   (raw I80F48 bits): never above it, below it by less than 1 + (2^48 + (2^48 + p_asset)/10^da) * 10^dl / p_liab *)
Theorem liquidation_quantity_bound n ap lp da dl D v q :
  0 < n -> 0 <= D -> 0 <= ap -> 0 < lp ->
  calc_value (of_int n) ap da (Some D) = Ok v -> calc_amount v lp dl = Ok q ->
  q * lp * 10 ^ da <= n * D * ap * 10 ^ dl /\
  n * D * ap * 10 ^ dl < (q + 1) * lp * 10 ^ da + (10 ^ da * 2^48 + 2^48 + ap) * 10 ^ dl.
Proof.
  intros Hn HD Hap Hlp Hv Hq. pose proof ONE_pos as HO.
  assert (Hn0 : 0 <= of_int n) by (unfold of_int; nia).
  destruct (calc_value_bound _ _ _ _ _ Hn0 HD Hap Hv) as (Hv0 & Hlo & Hhi).
  destruct (calc_amount_bound _ _ _ _ Hv0 Hlp Hq) as (Hq0 & Hqlo & Hqhi).
  destruct (calc_amount_inv _ _ _ _ Hv0 Hlp Hq) as (Hdl & _ & _).
  assert (Hda : 0 <= da < 24) by (apply calc_value_inv in Hv as [Hd _]; [exact Hd | unfold of_int; nia]).
  change (2^48) with ONE in *. unfold of_int in *.
  pose proof (pow10_pos da ltac:(lia)) as HX. pose proof (pow10_pos dl ltac:(lia)) as HY.
  set (X := 10 ^ da) in *. set (Y := 10 ^ dl) in *.
  assert (L1 : v * X * ONE <= n * D * ap).
  { apply (Z.mul_le_mono_pos_r _ _ ONE HO). nia. }
  assert (H1 : n * D * ap < (v + 1) * X * ONE + ONE + ap).
  { apply (Z.mul_lt_mono_pos_r ONE _ _ HO). nia. }
  split.
  - assert (q * lp * X <= v * Y * ONE * X) by (apply Z.mul_le_mono_nonneg_r; lia).
    assert (v * X * ONE * Y <= n * D * ap * Y) by (apply Z.mul_le_mono_nonneg_r; lia). nia.
  - assert (n * D * ap * Y < ((v + 1) * X * ONE + ONE + ap) * Y) by (apply Z.mul_lt_mono_pos_r; lia).
    assert (v * Y * ONE * X < (q + 1) * lp * X) by (apply Z.mul_lt_mono_pos_r; lia). nia.
Qed.

(* 4. quantities and the fee split, spelled out *)
Theorem liquidation_fee_split w r e ab lb n w' :
  hw_ok w -> r <> e -> h_liquidate w r e ab lb n = Ok w' ->
  exists ha hl er ee ba1 bl1 ap lp v1 v2 q_liq q_fin i1 la1 b1 b1' i2 b2' i4 b4 b4' bl2 bl3 er3 hl' f,
    nth_bank w ab = Ok ha /\ nth_bank w lb = Ok hl /\ nth_acct w r = Ok er /\ nth_acct w e = Ok ee /\
    accrue_interest (hb_b ha) (hw_pf w) (hw_now w) = Ok ba1 /\
    accrue_interest (hb_b hl) (hw_pf w) (hw_now w) = Ok bl1 /\
    (* prices: collateral at the low-biased, debt at the high-biased real-time price, both positive *)
    fd_low_rt (hb_feed ha) = Ok ap /\ 0 < ap /\ fd_high_rt (hb_feed hl) = Ok lp /\ 0 < lp /\
    (* quantities *)
    calc_value (of_int n) ap (balance_decimals ba1) (Some (2^48 - 25 * 2^48 / 1000)) = Ok v1 /\
    calc_amount v1 lp (balance_decimals bl1) = Ok q_liq /\
    calc_value (of_int n) ap (balance_decimals ba1) (Some (2^48 - (25 * 2^48 / 1000 + 25 * 2^48 / 1000))) = Ok v2 /\
    calc_amount v2 lp (balance_decimals bl1) = Ok q_fin /\
    0 <= q_fin <= q_liq /\
    (* the liquidator's position b1 in the debt bank becomes b1': decreased by q_liq *)
    wrapper_find_or_create (bank_pk lb) bl1 (ha_la er) (hw_now w) = Ok (i1, la1) /\ nth_error la1 i1 = Some b1 /\
    dec_facts bl1 b1 q_liq DecBypassBorrowLimit bl2 b1' /\
    nth_acct w' r = Ok er3 /\ In b1' (ha_la er3) /\
    (* the liquidatee's debt position b4 becomes b4': repaid by q_fin (repay-only: it cannot overshoot) *)
    find_active (bank_pk lb) (set_nth i2 b2' (sort_balances (ha_la ee))) = Some i4 /\
    nth_error (set_nth i2 b2' (sort_balances (ha_la ee))) i4 = Some b4 /\
    inc_facts bl2 b4 q_fin IncRepayOnly bl3 b4' /\
    (* insurance: whole tokens vault -> insurance vault, fraction -> outstanding insurance fees *)
    nth_bank w' lb = Ok hl' /\ tfee hl ((q_liq - q_fin) / 2^48) = Ok f /\
    (q_liq - q_fin) / 2^48 <= hb_vault hl /\
    hb_vault hl' = hb_vault hl - (q_liq - q_fin) / 2^48 /\
    hb_insv hl' = hb_insv hl + (q_liq - q_fin) / 2^48 - f /\
    hb_feev hl' = hb_feev hl /\ hb_feeata hl' = hb_feeata hl /\
    b_ins (hb_b hl') = b_ins bl1 + (q_liq - q_fin) mod 2^48.
Proof.
  intros Hw Hre H.
  destruct (h_liquidate_inv _ _ _ _ _ _ _ Hw Hre H) as
    (ha & hl & ee & er & ba1 & bl1 & ps0 & ps1 & h0 & A0 & L0 & h1 & ap & lp & v1 & v2 & q_liq & q_fin & i1 & i2 & i3 & i4 & la1 & la3 &
     b1 & b1' & b2 & b2' & b3 & b3' & b4 & b4' & bl2 & ba2 & ba3 & bl3 & ee3 & er3 & ha' & hl' & f & F).
  destruct F as [_ [Hha Hhl] [Hee Her] [Hba1 Hbl1] _ _ (_ & Hap & Hap0 & _ & Hlp & Hlp0) (Hv1 & Hq1 & Hv2 & Hq2 & Hq)
                 (Hfc1 & Nb1 & F1) _ _ (Hf4 & Nb4 & _ & F4) _ (_ & Her3 & In1 & _)
                 (Hhl' & Hf & Hv & V1 & V2 & V3 & V4 & V5 & _) _ _ _ _].
  exists ha, hl, er, ee, ba1, bl1, ap, lp, v1, v2, q_liq, q_fin, i1, la1, b1, b1', i2, b2', i4, b4, b4', bl2, bl3, er3, hl', f.
  change (2^48) with ONE. change (ONE - 25 * ONE / 1000) with D_LIQ. change (ONE - (25 * ONE / 1000 + 25 * ONE / 1000)) with D_FIN.
  repeat (split; [assumption|]). assumption.
Qed.

(* packaged constants statement for props/C05.v *)
Lemma fee_constants :
  LIQUIDATION_LIQUIDATOR_FEE = 25 * 2^48 / 1000 /\ LIQUIDATION_INSURANCE_FEE = 25 * 2^48 / 1000 /\
  975 * 2^48 / 1000 <= 2^48 - 25 * 2^48 / 1000 <= 975 * 2^48 / 1000 + 1 /\
  95 * 2^48 / 100 <= 2^48 - (25 * 2^48 / 1000 + 25 * 2^48 / 1000) <= 95 * 2^48 / 100 + 1.
Proof. split; [reflexivity|]. split; [reflexivity|]. split; [exact D_LIQ_is_0975 | exact D_FIN_is_095]. Qed.
