(* RiskFeedLemmas.v — the feeds built from the oracle-adapter model (RiskFeed.feed_of_oracle: Fixed
   and Pyth push set-ups as used by the correspondence suite `risk`) never return the code
   RiskEngineInitRejected: the hypothesis `feeds_ng` of the converse half of C04 holds for them. *)
Require Import Base Constants Fixed Curve Bank BankOps Risk TransferFee Handlers Price RiskFeed.
Require Import FixedLemmas BankLemmas ErrLemmas RiskGateLemmas.
From Coq Require Import ZifyBool.
Local Open Scope Z_scope.

Lemma ng_okor {A} (r : res A) e : simple r -> e <> E E_RiskEngineInitRejected -> ng (ok_or r e).
Proof. intros Hs He. apply ng_ok_or; [apply simple_ng; exact Hs | exact He]. Qed.

Lemma simple_px_exp10 n : simple (px_exp10 n).
Proof. unfold px_exp10. destruct (px_exp10_opt n); [apply simple_ok | apply simple_panic]. Qed.
#[export] Hint Resolve simple_px_exp10 : simple_db.
Lemma simple_px_assert b : simple (px_assert b).
Proof. unfold px_assert. destruct b; [apply simple_ok | apply simple_panic]. Qed.
#[export] Hint Resolve simple_px_assert : simple_db.

Lemma ng_pyth_components p e : ng (px_pyth_components p e).
Proof. unfold px_pyth_components, Price.EMath. ng_auto. Qed.
#[export] Hint Resolve ng_pyth_components : ng_db.

Lemma ng_px_price f t : ng (px_price f t).
Proof. unfold px_price, Price.EMath. destruct f; ng_auto. Qed.
Lemma ng_px_scaled_conf f t : ng (px_scaled_conf f t).
Proof. unfold px_scaled_conf, Price.EMath. destruct f; ng_auto. Qed.
#[export] Hint Resolve ng_px_price ng_px_scaled_conf : ng_db.
Lemma ng_px_conf_check ci p omc : ng (px_conf_check_and_cap ci p omc).
Proof. unfold px_conf_check_and_cap, Price.EMath. ng_auto. Qed.
#[export] Hint Resolve ng_px_conf_check : ng_db.
Lemma ng_px_conf_interval f t omc : ng (px_conf_interval f t omc).
Proof. unfold px_conf_interval. destruct f; ng_auto. Qed.
#[export] Hint Resolve ng_px_conf_interval : ng_db.
Lemma ng_px_price_of_type f t b omc : ng (px_price_of_type f t b omc).
Proof. unfold px_price_of_type, Price.EMath. destruct f; ng_auto. Qed.
#[export] Hint Resolve ng_px_price_of_type : ng_db.

Lemma ng_px_pyth_account a : ng (px_pyth_account a).
Proof. unfold px_pyth_account. ng_auto. Qed.
#[export] Hint Resolve ng_px_pyth_account : ng_db.
Lemma ng_px_pyth_load_checked a now ma : ng (px_pyth_load_checked a now ma).
Proof. unfold px_pyth_load_checked. ng_auto. Qed.
#[export] Hint Resolve ng_px_pyth_load_checked : ng_db.

(* Fixed and Pyth push set-ups *)
Lemma ng_try_from_bank c ais vn sk ck :
  oc_setup c = OS_Fixed \/ oc_setup c = OS_PythPushOracle ->
  ng (px_try_from_bank c ais vn sk ck).
Proof.
  intros Hs. unfold px_try_from_bank, px_try_from_bank_with_max_age, ENum, EKeys.
  destruct Hs as [-> | ->]; cbn [Z.eqb OS_None OS_Fixed OS_PythPushOracle OS_SwitchboardPull OS_StakedWithPythPush
    OS_KaminoPythPush OS_KaminoSwitchboardPull Pos.eqb]; ng_auto.
Qed.

Theorem feed_of_oracle_ng c ais now :
  oc_setup c = OS_Fixed \/ oc_setup c = OS_PythPushOracle -> feed_ng (feed_of_oracle c ais now).
Proof.
  intros Hs. pose proof (ng_try_from_bank c ais no_venue no_staking (mkCK now 0) Hs) as Hpf.
  unfold feed_ng, feed_of_oracle. cbn [fd_load fd_low_rt fd_high_rt fd_low_tw fd_high_tw].
  set (pf := px_try_from_bank c ais no_venue no_staking (mkCK now 0)) in *.
  assert (Hq : forall t b, ng (let* f := pf in px_price_of_type f t b (oc_max_conf c))).
  { intros t b. apply ng_bind; [exact Hpf | intros f; apply ng_px_price_of_type]. }
  split; [|repeat split; apply Hq].
  destruct pf as [f|e] eqn:E; [apply ng_ok|]. intros H. apply Hpf. unfold ng in *. congruence.
Qed.
