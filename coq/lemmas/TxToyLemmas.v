(* TxToyLemmas.v — facts about the concrete (toy) engine used for the level-D correspondence *)
Require Import Base Fixed Constants TxConstants Tx TxSpec TxToy TxLemmas TxWorldLemmas.
Local Open Scope Z_scope.

(* an end_flashloan that omits its risk accounts succeeds only on an account without any active balance, for which
   the full check passes as well: omitting the accounts never lets an indebted account through *)
Lemma toy_norem_only_empty pf : toy_init_check_norem pf = Ok tt -> pf = [].
Proof. unfold toy_init_check_norem, check. destruct pf; [reflexivity | discriminate]. Qed.

Theorem end_fl_norem_only_empty cpi (w : world tbw tpf) a auth w' :
  h_end_fl toy_env cpi w a auth true = Ok w' ->
  exists A, w_accts w a = Some A /\ a_pf A = [] /\ toy_init_check (w_bw w) (a_pf A) = Ok tt.
Proof.
  intros H. apply end_fl_facts in H as (_ & A & EA & _ & Hn & _).
  cbn [e_init_check_norem toy_env] in Hn. apply toy_norem_only_empty in Hn.
  exists A. split; [exact EA|]. split; [exact Hn|]. rewrite Hn. reflexivity.
Qed.
