open Drv_common
module M = struct
  include Drv_common.M
  include Ascii
  include String
  include AnchorTypes
  include AnchorSem
  include Gate
  include AccountsTable
  include HandlerFacts
  include Spec
  include AuthCell
  include AuthFixture
end
(* ------------------------------------------------------------------ auth (C08 / C14 matrices)
   Evaluates the extracted `Spec.cell` (account validation of the generated table entry + hand-modelled
   handler guards) on the generated abstract fixture world, for the same case lines as
   harness/src/suites/auth.rs.  The abstract `pda` is instantiated with an injective encoding. *)

let ascii_of_char (c : char) : M.ascii =
  let n = Char.code c in
  let b i = (n lsr i) land 1 = 1 in
  M.Ascii (b 0, b 1, b 2, b 3, b 4, b 5, b 6, b 7)

let coq_string (s : string) : M.string =
  let n = Stdlib.String.length s in
  let rec go i = if i = n then M.EmptyString else M.String (ascii_of_char (Stdlib.String.get s (i)), go (i + 1)) in
  go 0

let char_of_ascii (a : M.ascii) : char =
  match a with
  | M.Ascii (b0, b1, b2, b3, b4, b5, b6, b7) ->
    let v b i = if b then 1 lsl i else 0 in
    Char.chr (v b0 0 + v b1 1 + v b2 2 + v b3 3 + v b4 4 + v b5 5 + v b6 6 + v b7 7)

let rec ocaml_string (s : M.string) : string =
  match s with
  | M.EmptyString -> ""
  | M.String (a, r) -> Stdlib.String.make 1 (char_of_ascii a) ^ ocaml_string r

(* injective: the byte string determines the result, results are >= 2^40 (fixture keys are small) *)
let key_of_bytes (s : string) : M.z =
  z_of_big (Z.add (Z.shift_left (Z.of_bits (s ^ "\001")) 40) Z.one)

let pda (prog : M.z) (seeds : M.seed_val list) : M.z =
  let b = Buffer.create 64 in
  Buffer.add_string b ("pda:" ^ zs prog);
  Stdlib.List.iter (fun s ->
      Buffer.add_char b '|';
      match s with
      | M.VStr t -> Buffer.add_string b ("s:" ^ ocaml_string t)
      | M.VKey k -> Buffer.add_string b ("k:" ^ zs k)
      | M.VNum n -> Buffer.add_string b ("n:" ^ zs n)) seeds;
  key_of_bytes (Buffer.contents b)

let opq (_ : M.string) (_ : M.world) (_ : M.binding) : bool = true

let names : (string, M.z) Hashtbl.t =
  let h = Hashtbl.create 256 in
  Stdlib.List.iter (fun (n, k) -> Hashtbl.replace h (ocaml_string n) k) (M.fixture_names pda);
  h

let prog (n : string) : M.z =
  match n with
  | "marginfi" -> M.coq_PROG_MARGINFI | "system" -> M.coq_PROG_SYSTEM | "token" -> M.coq_PROG_TOKEN
  | "token22" -> M.coq_PROG_TOKEN22 | "ata" -> M.coq_PROG_ATA | "kamino" -> M.coq_PROG_KAMINO | "farms" -> M.coq_PROG_FARMS
  | "drift" -> M.coq_PROG_DRIFT | "solend" -> M.coq_PROG_SOLEND | "stranger" -> M.coq_PROG_STRANGER
  | _ -> failwith ("unknown program " ^ n)

let starts (p : string) (s : string) : bool =
  Stdlib.String.length s >= Stdlib.String.length p && Stdlib.String.sub s 0 (Stdlib.String.length p) = p
let after (p : string) (s : string) : string = Stdlib.String.sub s (Stdlib.String.length p) (Stdlib.String.length s - Stdlib.String.length p)

(* case-local aliases (al=name=obj|...) *)
let aliases : (string, M.z) Hashtbl.t = Hashtbl.create 8

(* resolve an object name; clones extend the world *)
let rec resolve (w : M.world ref) (o : string) : M.z =
  match Hashtbl.find_opt aliases o with
  | Some k -> k
  | None ->
  match Hashtbl.find_opt names o with
  | Some k -> k
  | None ->
    if o = "NONE" then M.coq_PROG_MARGINFI
    else if starts "PROG:" o then prog (after "PROG:" o)
    else if o = "SYSVAR:ix" then M.coq_SYSVAR_INSTRUCTIONS
    else if o = "SYSVAR:rent" then M.coq_SYSVAR_RENT
    else if starts "new:" o then key_of_bytes o
    else if starts "~" o then begin
      let src = resolve w (after "~" o) in
      let dst = key_of_bytes ("clone:" ^ after "~" o) in
      w := M.tw_clone !w src dst; dst
    end
    else if starts "pda[" o then begin
      let body = Stdlib.String.sub o 4 (Stdlib.String.length o - 5) in
      match Stdlib.String.split_on_char ';' body with
      | [] -> failwith "pda"
      | p :: seeds ->
        let sv s =
          if starts "s:" s then M.VStr (coq_string (after "s:" s))
          else if starts "k:" s then M.VKey (resolve w (after "k:" s))
          else if starts "n8:" s then M.VNum (z_of_big (Z.of_string (after "n8:" s)))
          else if starts "n2:" s then M.VNum (z_of_big (Z.of_string (after "n2:" s)))
          else if starts "n1:" s then M.VNum (z_of_big (Z.of_string (after "n1:" s)))
          else failwith ("bad seed " ^ s) in
        pda (prog p) (Stdlib.List.map sv seeds)
    end
    else failwith ("unknown object " ^ o)

let zint (s : string) : M.z = z_of_big (Z.of_string s)

let apply_tweak (w : M.world ref) (t : string) : unit =
  match Stdlib.String.split_on_char ':' t with
  | "own" :: rest -> w := M.tw_owner !w (resolve w (Stdlib.String.concat ":" rest))
  | "disc" :: rest -> w := M.tw_disc !w (resolve w (Stdlib.String.concat ":" rest))
  | ["aflag"; o; mask; on] -> w := M.tw_flag !w (resolve w o) (coq_string "account_flags") (zint mask) (on = "1")
  | ["bflag"; o; mask; on] -> w := M.tw_flag !w (resolve w o) (coq_string "flags") (zint mask) (on = "1")
  | ["bstate"; o; n] -> w := M.tw_setnum !w (resolve w o) (coq_string "operational_state") (zint n)
  | ["gcache"; o; fl; d] ->
    let k = resolve w o in
    w := M.tw_setnum !w k (coq_string "pause_flags") (zint fl);
    w := M.tw_setnum !w k (coq_string "pause_start") (z_of_big (Z.add (big_of_z M.fixture_now0) (Z.of_string d)))
  | "fspause" :: _ -> ()   (* the fee state's own panic state is not read by any account constraint *)
  | "del" :: rest -> w := M.tw_del !w (resolve w (Stdlib.String.concat ":" rest))
  | ["recv"; r; o] -> w := M.tw_setkey !w (resolve w r) (coq_string "liquidation_receiver") (resolve w o)
  | _ -> failwith ("unknown tweak " ^ t)

let kv (line : string) : (string, string) Hashtbl.t =
  let h = Hashtbl.create 16 in
  Stdlib.List.iter (fun tok ->
      match Stdlib.String.index_opt tok '=' with
      | Some i -> Hashtbl.replace h (Stdlib.String.sub tok 0 i) (Stdlib.String.sub tok (i + 1) (Stdlib.String.length tok - i - 1))
      | None -> ()) (Stdlib.String.split_on_char ' ' line);
  h

let err_code (e : M.err) : string =
  match e with M.EPanic -> "PANIC" | M.ENone -> "NONE" | M.E c -> zs c

let suite_auth (line : string) : string =
  let line = Stdlib.String.trim line in
  if line = "W" then "W"
  else if Stdlib.String.length line > 2 && (Stdlib.String.get line (0)) = 'S' && (Stdlib.String.get line (1)) = ' ' then begin
    let t = toks_of_line (Stdlib.String.sub line 2 (Stdlib.String.length line - 2)) in
    let fl = nz t in let au = nz t in let ad = nz t in let sg = nz t in let allow = nb t in
    bit (M.is_signer_authorized fl au ad sg allow) ^ " " ^ bit (M.account_not_frozen_for_authority fl au sg)
  end
  else if Stdlib.String.length line > 2 && (Stdlib.String.get line (0)) = 'G' && (Stdlib.String.get line (1)) = ' ' then begin
    let t = toks_of_line (Stdlib.String.sub line 2 (Stdlib.String.length line - 2)) in
    let st = match ni t with 0 -> M.Paused | 1 -> M.Operational | 2 -> M.ReduceOnly | _ -> M.KilledByBankruptcy in
    let k = match ni t with 0 -> M.Unrestricted | 1 -> M.FailsInReduceState | 2 -> M.FailsInPausedState
                          | _ -> M.FailsIfPausedOrReduceState in
    match M.validate_bank_state st k with M.Ok _ -> "OK" | M.Err e -> err_s e
  end
  else begin
    let h = kv line in
    let get k = match Hashtbl.find_opt h k with Some v -> v | None -> failwith ("case lacks " ^ k) in
    let now = Z.add (big_of_z M.fixture_now0) (Z.of_string (get "t")) in
    let w = ref { M.w_accts = M.fixture_accounts pda; w_now = z_of_big now } in
    Hashtbl.reset aliases;
    (if get "al" <> "-" then
       Stdlib.List.iter (fun a ->
           let i = Stdlib.String.index a '=' in
           let n = Stdlib.String.sub a 0 i and o = Stdlib.String.sub a (i + 1) (Stdlib.String.length a - i - 1) in
           let k = resolve w o in
           Hashtbl.replace aliases n k) (Stdlib.String.split_on_char '|' (get "al")));
    (if get "tw" <> "-" then Stdlib.List.iter (apply_tweak w) (Stdlib.String.split_on_char ';' (get "tw")));
    (* model-side pre-state: projection of what the real companion instruction leaves *)
    (if get "mtw" <> "-" then Stdlib.List.iter (apply_tweak w) (Stdlib.String.split_on_char ';' (get "mtw")));
    let sg = get "sg" and wr = get "wr" in
    let fields = Stdlib.String.split_on_char ',' (get "a") in
    let keys = Stdlib.List.mapi (fun i fo ->
        let j = Stdlib.String.index fo ':' in
        let f = Stdlib.String.sub fo 0 j and o = Stdlib.String.sub fo (j + 1) (Stdlib.String.length fo - j - 1) in
        (f, resolve w o, (Stdlib.String.get sg (i)) = '1', (Stdlib.String.get wr (i)) = '1')) fields in
    let args =
      if get "ar" = "-" then []
      else Stdlib.List.map (fun a ->
          match Stdlib.String.split_on_char ':' a with
          | [n; v] -> (coq_string n, zint v)
          | _ -> failwith "bad ar") (Stdlib.String.split_on_char ',' (get "ar")) in
    let b = { M.b_keys = Stdlib.List.map (fun (f, k, _, _) -> (coq_string f, k)) keys;
              b_args = args;
              b_writable = Stdlib.List.filter_map (fun (_, k, _, wflag) -> if wflag then Some k else None) keys } in
    let signers = Stdlib.List.filter_map (fun (_, k, s, _) -> if s then Some k else None) keys in
    let mode = get "m" in
    let pass = match mode with "full" | "risk" -> "OK" | "gate" -> "PASSB" | _ -> "PASSV" in
    let guarded = mode <> "val" in
    match M.cell pda opq guarded (coq_string (get "ix")) !w b signers with
    | M.COk ->
      if mode = "risk" then begin
        (* scenario cells of the reduce-only valuation rule (calc_weighted_asset_value): the account's only
           collateral is in bank `rb`; `rq` = I: an Initial-requirement check (borrow) passes iff that collateral
           is worth something; `rq` = M: the account is healthy at Maintenance iff it is, and liquidating a
           healthy account is refused with `rc` *)
        let st = match M.opstate_of_Z (M.num_field (M.acct_of !w (resolve w (get "rb"))) (coq_string "operational_state")) with
          | Some s -> s | None -> M.Operational in
        let req = if get "rq" = "I" then M.Initial else M.Maintenance in
        let worth = match M.weighted_asset_value_rule M.Collateral st req (M.Ok (zi 1)) with
          | M.Ok v -> Z.sign (big_of_z v) > 0 | M.Err _ -> false in
        if get "rq" = "I" then (if worth then "OK" else "B " ^ get "rc")
        else (if worth then "B " ^ get "rc" else "OK")
      end else pass
    | M.CVal (f, c) -> "V " ^ ocaml_string f ^ " " ^ zs c
    | M.CBody e -> "B " ^ err_code e
    | M.CNoEntry -> "NO-TABLE-ENTRY"
  end

let () = register "auth" suite_auth
