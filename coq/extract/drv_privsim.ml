open Drv_common
module M = struct
  include Drv_common.M
  include ConfigGen
  include PrivGen
  include Config
  include Emode
  include ConfigPaths
  include Privilege
end
module C = Drv_config
(* ------------------------------------------------------------------ privsim (level C) for C12 *)
let role_of_int (i : int) : M.role =
  match i with
  | 0 -> M.RAdmin | 1 -> M.REmodeAdmin | 2 -> M.RCurveAdmin | 3 -> M.RLimitAdmin | 4 -> M.REmissionsAdmin
  | 5 -> M.RMetadataAdmin | 6 -> M.RRiskAdmin | 7 -> M.RStranger
  | _ -> failwith "bad role"

let funding0 = z_of_big (Z.shift_left Z.one 62)

let pdump (i : int) (b : M.pbank) : string =
  Stdlib.String.concat " " ["B" ^ string_of_int i; C.dump_bank b.M.pb_c; zs b.M.pb_osetup; zs b.M.pb_fixed_price;
                     zs b.M.pb_em_rate; zs b.M.pb_em_remaining; zs b.M.pb_em_mint]

(* names of the modelled bank fields that differ, in the order of the harness' byte table *)
let diff_bank (a : M.pbank) (b : M.pbank) : string list =
  let ca = a.M.pb_c.M.cb_cfg and cb = b.M.pb_c.M.cb_cfg in
  let ea = a.M.pb_c.M.cb_emode and eb = b.M.pb_c.M.cb_emode in
  let l = [
    ("cfg.awi", ca.M.bc_awi = cb.M.bc_awi); ("cfg.awm", ca.M.bc_awm = cb.M.bc_awm);
    ("cfg.lwi", ca.M.bc_lwi = cb.M.bc_lwi); ("cfg.lwm", ca.M.bc_lwm = cb.M.bc_lwm);
    ("cfg.dep", ca.M.bc_deposit_limit = cb.M.bc_deposit_limit);
    ("cfg.ir", ca.M.bc_ir = cb.M.bc_ir && ca.M.bc_orig_fee = cb.M.bc_orig_fee);
    ("cfg.op", ca.M.bc_op_state = cb.M.bc_op_state);
    ("cfg.osetup", a.M.pb_osetup = b.M.pb_osetup);
    ("cfg.okey0", ca.M.bc_oracle_key = cb.M.bc_oracle_key);
    ("cfg.bor", ca.M.bc_borrow_limit = cb.M.bc_borrow_limit);
    ("cfg.tier", ca.M.bc_risk_tier = cb.M.bc_risk_tier); ("cfg.tag", ca.M.bc_asset_tag = cb.M.bc_asset_tag);
    ("cfg.lim", ca.M.bc_init_limit = cb.M.bc_init_limit); ("cfg.age", ca.M.bc_max_age = cb.M.bc_max_age);
    ("cfg.conf", ca.M.bc_max_conf = cb.M.bc_max_conf);
    ("cfg.fixed_price", a.M.pb_fixed_price = b.M.pb_fixed_price);
    ("flags", a.M.pb_c.M.cb_flags = b.M.pb_c.M.cb_flags);
    ("emissions_rate", a.M.pb_em_rate = b.M.pb_em_rate);
    ("emissions_remaining", a.M.pb_em_remaining = b.M.pb_em_remaining);
    ("emissions_mint", a.M.pb_em_mint = b.M.pb_em_mint);
    ("emode.tag", ea.M.es_tag = eb.M.es_tag); ("emode.ts", ea.M.es_timestamp = eb.M.es_timestamp);
    ("emode.flags", ea.M.es_flags = eb.M.es_flags); ("emode.entries", ea.M.es_entries = eb.M.es_entries);
    ("<rest>", a.M.pb_rest = b.M.pb_rest) ] in
  Stdlib.List.filter_map (fun (n, same) -> if same then None else Some n) l

let lst (l : string list) : string = if l = [] then "-" else Stdlib.String.concat " " l

let hex_of (l : M.z list) : string =
  Stdlib.String.concat "" (Stdlib.List.map (fun z -> Printf.sprintf "%02x" (Z.to_int (big_of_z z))) l)
let bytes_of_hex (s : string) : M.z list =
  if s = "-" then [] else Stdlib.List.init (Stdlib.String.length s / 2) (fun k -> zi (int_of_string ("0x" ^ Stdlib.String.sub s (2 * k) 2)))

(* EXTERNAL INPUT of the model: what validate_oracle_setup answers in the privsim world for
   (oracle setup, oracle key identity, pyth fixture account passed?) -- read off the real handler in the
   sim runtime (key 3 = the pyth fixture feed; setups 1 and 2 are the deprecated ones that panic) *)
let oracle_table (setup : int) (key : int) (rem : int) : unit M.res =
  let e c = M.Err (M.E (zi c)) in
  match setup with
  | 0 -> e 6031
  | 1 | 2 -> M.Err M.EPanic
  | 3 | 5 -> if rem = 0 then e 6051 else if key = 3 then M.Ok () else e 6052
  | 4 -> if rem = 0 then e 6051 else if key = 3 then e 6059 else e 6052
  | 8 -> M.Ok ()
  | _ -> e 6051

let suite_privsim (line : string) : string =
  let t = toks_of_line line in
  let now = nz t in
  let hdr () =
    let c = C.parse_cfg t in let os = nz t in let fp = nz t in let fl = nz t in (c, os, fp, fl) in
  let (c0, os0, fp0, fl0) = hdr () in
  let em0 = ni t in let rate0 = nz t in let rem0 = nz t in
  let (c1, os1, fp1, fl1) = hdr () in
  let n = ni t in
  let mk c os fp fl =
    { M.pb_c = { M.cb_cfg = c; cb_flags = fl; cb_emode = M.es_zeroed }; pb_osetup = os; pb_fixed_price = fp;
      pb_em_rate = zi 0; pb_em_remaining = zi 0; pb_em_mint = zi 0; pb_rest = zi 0 } in
  let b0 = mk c0 os0 fp0 fl0 in
  let b0 = if em0 = 1 then { b0 with M.pb_em_rate = rate0; pb_em_remaining = rem0; pb_em_mint = zi 1 } else b0 in
  let banks = [| b0; mk c1 os1 fp1 fl1 |] in
  let meta0 = { M.pm_ticker = M.zeros (zi 64); pm_end_ticker = zi 0; pm_desc = M.zeros (zi 128); pm_end_desc = zi 0 } in
  let metas = [| meta0; meta0 |] in
  (* emissions vault of (bank i, mint A); the vaults of mint B exist and never change *)
  let vaults : M.z option array = [| (if em0 = 1 then Some (zi 0) else None); None |] in
  let funding = ref funding0 in
  let caps = match M.ix_group_set_caps None None with M.Ok c -> c | M.Err _ -> failwith "default caps" in
  let settings : M.staked_settings option ref = ref None in
  let world i = { M.px_bank = banks.(i); px_meta = metas.(i); px_funding = !funding; px_emvault = vaults.(i);
                  px_vaults = zi 0; px_users = zi 0; px_group = zi 0; px_others = zi 0 } in
  let run (i : int) (signer : M.role) (ix : M.pix) : string =
    let w = world i in
    match M.pstep caps signer w ix with
    | M.Err e -> err_s e
    | M.Ok w' ->
        let d = diff_bank w.M.px_bank w'.M.px_bank in
        let a = ref [] in
        if w'.M.px_emvault <> w.M.px_emvault then a := ("emvault" ^ string_of_int i ^ "0") :: !a;
        if w'.M.px_funding <> w.M.px_funding then a := "funding0" :: !a;
        (* the payer of the vault's rent is the signer (the emissions admin) *)
        if w.M.px_emvault = None && w'.M.px_emvault <> None then a := "wallet:emissions" :: !a;
        let m = w.M.px_meta and m' = w'.M.px_meta in
        let md = Stdlib.List.filter_map (fun (n, same) -> if same then None else Some n)
            [ ("ticker", m.M.pm_ticker = m'.M.pm_ticker); ("description", m.M.pm_desc = m'.M.pm_desc);
              ("end_description_byte", m.M.pm_end_desc = m'.M.pm_end_desc);
              ("end_ticker_byte", m.M.pm_end_ticker = m'.M.pm_end_ticker) ] in
        if md <> [] then a := ("meta" ^ string_of_int i ^ ":" ^ Stdlib.String.concat "+" md) :: !a;
        if w'.M.px_vaults <> w.M.px_vaults then a := "<vaults>" :: !a;
        if w'.M.px_users <> w.M.px_users then a := "<users>" :: !a;
        if w'.M.px_group <> w.M.px_group then a := "<group>" :: !a;
        if w'.M.px_others <> w.M.px_others then a := "<others>" :: !a;
        banks.(i) <- w'.M.px_bank; metas.(i) <- w'.M.px_meta; vaults.(i) <- w'.M.px_emvault; funding := w'.M.px_funding;
        "OK " ^ pdump i banks.(i) ^ " D " ^ lst d ^ " A " ^ lst (Stdlib.List.sort compare !a) in
  let out = ref [pdump 1 banks.(1); pdump 0 banks.(0)] in
  for _ = 1 to n do
    let op = next t in
    let s =
      match op with
      | "SSI" ->
          let s = C.parse_staked t in
          (match !settings with
           | Some _ -> "EXISTS"
           | None -> (match M.ix_init_staked_settings s with
                      | M.Ok s' -> settings := Some s'; "OK"
                      | M.Err e -> err_s e))
      | "PR" ->
          let i = ni t in
          (match !settings with
           | None -> "ABSENT"
           | Some s ->
               let b = banks.(i) in
               let oc = oracle_table (Z.to_int (big_of_z b.M.pb_osetup)) (Z.to_int (big_of_z s.M.ss_oracle)) 0 in
               run i M.RStranger (M.PPropagate (s, oc)))
      | _ ->
          let signer = role_of_int (ni t) in
          let i = ni t in
          (match op with
           | "CFG" -> let o = C.parse_opt t in run i signer (M.PConfigure o)
           | "IRO" -> let o = C.parse_ir_opt t in run i signer (M.PInterestOnly o)
           | "LIM" -> let d = C.opt t nz in let b = C.opt t nz in let l = C.opt t nz in run i signer (M.PLimitsOnly (d, b, l))
           | "EM" -> let tag = nz t in let es = C.parse_entries t in run i signer (M.PEmode (now, tag, es))
           | "CL" -> let j = ni t in run j signer (M.PCloneEmode banks.(i).M.pb_c)
           | "ORA" ->
               let setup = ni t in let key = ni t in let rem = ni t in
               run i signer (M.POracle (zi setup, zi key, oracle_table setup key rem))
           | "FIX" -> let p = nz t in run i signer (M.PFixedPrice p)
           | "ESET" ->
               let flags = nz t in let rate = nz t in let total = nz t in
               (* mint A when the bank has no emissions mint, else the fresh mint C *)
               let mint = if banks.(i).M.pb_em_mint = zi 0 then zi 1 else zi 3 in
               run i signer (M.PSetupEmissions (mint, flags, rate, total))
           | "EUPD" ->
               let m = ni t in
               let fl = C.opt t nz in let ra = C.opt t nz in let ad = C.opt t nz in
               (* account validation: the emissions vault PDA of (bank, mint) must be an existing token
                  account (AccountNotInitialized = 3012); B's exists by fixture, A's once set up *)
               let ac = if m = 1 && vaults.(i) = None then M.Err (M.E (zi 3012)) else M.Ok () in
               run i signer (M.PUpdateEmissions (ac, zi m, fl, ra, ad))
           | "META" ->
               let tk = C.opt t (fun t -> bytes_of_hex (next t)) in
               let ds = C.opt t (fun t -> bytes_of_hex (next t)) in
               let r = run i signer (M.PWriteMetadata (tk, ds)) in
               if Stdlib.String.length r >= 2 && Stdlib.String.sub r 0 2 = "OK" then
                 let m = metas.(i) in
                 r ^ " M " ^ hex_of m.M.pm_ticker ^ " " ^ zs m.M.pm_end_ticker ^ " " ^ hex_of m.M.pm_desc ^ " " ^ zs m.M.pm_end_desc
               else r
           | "FTC" -> run i signer M.PForceTokenlessComplete
           | x -> failwith ("unknown step " ^ x)) in
    out := s :: !out
  done;
  Stdlib.String.concat " | " (Stdlib.List.rev !out)

let () = register "privsim" suite_privsim

(* ------------------------------------------------------------------ delevsim (level C/D) for C12 *)
module D = struct
  include Drv_common.M
  include Bank
  include BankOps
  include Risk
  include Handlers
  include Deleverage
end

let suite_delevsim (line : string) : string =
  let t = toks_of_line line in
  let nb = ni t in let na = ni t in
  let pf = parse_pf t in
  let now0 = nz t in
  let banks = Stdlib.List.init nb (fun _ -> Drv_hops.parse_hbank t) in
  let accts = Stdlib.List.init na (fun _ -> { D.ha_la = D.la_empty; ha_flags = zi 0 }) in
  (* token rows: one per marginfi account, then the risk admin's *)
  let utok = Stdlib.List.init (na + 1) (fun _ -> Stdlib.List.init nb (fun _ -> Drv_hops.two62)) in
  let w = ref { D.hw_banks = banks; hw_accts = accts; hw_now = now0; hw_pf = pf; hw_utok = utok;
                hw_risk_admin_signs = false } in
  let c = ref { D.wc_limit = zi 0; wc_withdrawn = zi 0; wc_last_reset = zi 0 } in
  let rec nat_of (k : int) : D.nat = if k = 0 then D.O else D.S (nat_of (k - 1)) in
  let nn () = nat_of (ni t) in
  let nops = ni t in
  let out = ref [] in
  let dump () =
    (* Drv_hops.dump_hworld prints the account rows; the extra token row is the risk admin's *)
    let r = Stdlib.List.nth !w.D.hw_utok na in
    Drv_hops.dump_hworld !w ^ " # R " ^ Stdlib.String.concat " " (Stdlib.List.map zs r)
    ^ " # G " ^ zs !c.D.wc_limit ^ " " ^ zs !c.D.wc_withdrawn ^ " " ^ zs !c.D.wc_last_reset in
  for _ = 1 to nops do
    let op = ni t in
    let c0 = !c in
    let step (o : D.hop) : string =
      match D.hstep !w o with D.Ok w' -> w := w'; "OK" | D.Err e -> err_s e in
    let res =
      match op with
      | 0 -> step (D.HClock (nz t))
      | 1 -> let a = nn () in let b = nn () in let n = nz t in let f = nb_ t in step (D.HDeposit (a, b, n, f))
      | 2 -> let a = nn () in let b = nn () in let n = nz t in let f = nb_ t in step (D.HWithdraw (a, b, n, f))
      | 3 -> let a = nn () in let b = nn () in let n = nz t in step (D.HBorrow (a, b, n))
      | 4 -> let a = nn () in let b = nn () in let n = nz t in let f = nb_ t in step (D.HRepay (a, b, n, f))
      | 19 -> let b = nn () in let p = nz t in step (D.HSetPrice (b, p))
      | 30 ->
          let s = ni t in let limit = nz t in
          (* has_one = admin @ Unauthorized *)
          if s <> 0 then "E6042"
          else (match D.configure_withdrawal_limit !c limit !w.D.hw_now with
                | D.Ok c' -> c := c'; "OK" | D.Err e -> err_s e)
      | 31 ->
          let who = ni t in let a = ni t in
          let nw = ni t in
          let ws = Stdlib.List.init nw (fun _ -> let b = nn () in let n = nz t in let f = nb_ t in D.DWithdraw (b, n, f)) in
          let nr = ni t in
          let rs = Stdlib.List.init nr (fun _ -> let b = nn () in let n = nz t in let f = nb_ t in D.DRepay (b, n, f)) in
          let row = if who = 0 then na else a in
          let w0 = { !w with D.hw_risk_admin_signs = (who = 0) } in
          (match D.dv_tx w0 !c (nat_of a) (nat_of row) (who = 0) (ws @ rs) with
           | D.Err e -> err_s e
           | D.Ok (w', c') ->
               (* the numbers start_deleverage snapshots and end_deleverage caches *)
               let comps ww =
                 match Stdlib.List.nth_opt ww.D.hw_accts a with
                 | None -> "? ?"
                 | Some ac ->
                     (match D.positions ww ac.D.ha_la with
                      | D.Ok ps -> (match D.health_components ps D.RqMaint with D.Ok (x, y) -> zs x ^ " " ^ zs y | D.Err _ -> "? ?")
                      | D.Err _ -> "? ?") in
               let h = "OK H " ^ comps w0 ^ " " ^ comps w' in
               w := { w' with D.hw_risk_admin_signs = false }; c := c'; h)
      | 33 ->
          let who = ni t in let a = ni t in let b = ni t in
          (match D.dv_purge !w (nat_of a) (nat_of b) (who = 0) with
           | D.Ok w' -> w := w'; "OK" | D.Err e -> err_s e)
      | 32 ->
          let b = ni t in let f = nz t in
          let bs = Stdlib.List.mapi (fun i (hb : D.hbank) ->
            if i = b then { hb with D.hb_b = { hb.D.hb_b with D.b_flags = f } } else hb) !w.D.hw_banks in
          w := { !w with D.hw_banks = bs }; "OK"
      | _ -> failwith "bad op" in
    let gd = Stdlib.List.filter_map (fun (n, same) -> if same then None else Some n)
        [ ("g.win.limit", c0.D.wc_limit = !c.D.wc_limit); ("g.win.withdrawn", c0.D.wc_withdrawn = !c.D.wc_withdrawn);
          ("g.win.last_reset", c0.D.wc_last_reset = !c.D.wc_last_reset) ] in
    out := (res ^ " # " ^ dump () ^ " # D " ^ lst gd) :: !out
  done;
  Stdlib.String.concat " | " (Stdlib.List.rev !out)

let () = register "delevsim" suite_delevsim
