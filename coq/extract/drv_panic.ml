open Drv_common
module M = struct
  include Drv_common.M
  include Panic
end
(* ------------------------------------------------------------------ panic *)
let pst (p : M.pstate) : string =
  Stdlib.String.concat " " [zs p.M.p_flags; zs p.M.p_daily; zs p.M.p_consec; zs p.M.p_start; zs p.M.p_last_reset]

let suite_panic (line : string) : string =
  let t = toks_of_line line in
  let fl = nz t in let dl = nz t in let cs = nz t in let st = nz t in let lr = nz t in
  let p = ref { M.p_flags = fl; p_daily = dl; p_consec = cs; p_start = st; p_last_reset = lr } in
  let n = ni t in
  let c = ref { M.c_flags = zi 0; c_start = zi 0; c_last_update = zi 0 } in
  let out = ref [] in
  for _ = 1 to n do
    let op = ni t in
    let now = nz t in
    let r =
      match op with
      | 0 -> (match M.p_pause !p now with M.Ok p' -> p := p'; "OK" | M.Err e -> err_s e)
      | 1 -> p := M.p_unpause !p; "OK"
      | 2 -> (match M.p_unpause_if_expired !p now with M.Ok p' -> p := p'; "OK" | M.Err e -> err_s e)
      | 3 -> res_s bs (M.p_is_expired !p now)
      | 4 -> res_s bs (M.p_can_pause !p now)
      | 5 -> c := M.ix_propagate !p now; res_s bs (M.c_is_expired !c now)
      | 6 -> res_s bs (M.c_is_expired !c now)
      | 7 -> (match M.ix_panic_pause !p now with M.Ok p' -> p := p'; "OK" | M.Err e -> err_s e)
      | 8 -> (match M.ix_panic_unpause !p now with M.Ok p' -> p := p'; "OK" | M.Err e -> err_s e)
      | 9 -> (match M.ix_panic_unpause_permissionless !p now with M.Ok p' -> p := p'; "OK" | M.Err e -> err_s e)
      | _ -> failwith "bad op" in
    out := (r ^ " " ^ pst !p ^ " " ^ zs !c.M.c_flags ^ " " ^ zs !c.M.c_start ^ " " ^ zs !c.M.c_last_update) :: !out
  done;
  Stdlib.String.concat " | " (Stdlib.List.rev !out)


let () = register "panic" suite_panic
