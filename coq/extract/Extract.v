(* Extraction of the executable model for the correspondence driver.
   Directives used: those of ExtrOcamlBasic only (bool, option, unit, list, prod, sumbool, sumor);
   no Extract Constant; Z / positive stay as extracted inductives. *)
Require Import ExtrOcamlBasic.
Require Import Base Fixed Panic Curve.
Require Import AnchorTypes AnchorSem Gate AccountsTable HandlerFacts Spec AuthCell AuthFixture.
Extraction Language OCaml.
Extraction "extract/model.ml"
  p_pause p_unpause p_unpause_if_expired p_is_expired p_can_pause c_is_expired ix_propagate
  ix_panic_pause ix_panic_unpause ix_panic_unpause_permissionless is_protocol_paused mkP
  ir_validate calc_interest_rate mpc legacy_curve
  cell fixture_names fixture_accounts fixture_now0 accounts_table
  tw_owner tw_disc tw_setnum tw_flag tw_setkey tw_del tw_clone tw_now mkWorld mkBinding
  PROG_MARGINFI PROG_SYSTEM PROG_TOKEN PROG_TOKEN22 PROG_KAMINO PROG_FARMS PROG_DRIFT PROG_SOLEND PROG_ATA
  PROG_STRANGER SYSVAR_INSTRUCTIONS SYSVAR_RENT
  validate_bank_state weighted_asset_value_rule opstate_of_Z num_field acct_of is_signer_authorized account_not_frozen_for_authority.
