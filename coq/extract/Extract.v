(* Extraction of the executable model for the correspondence driver (one OCaml module per Coq file,
   written next to the Makefile as <Module>.ml/.mli; name clashes between areas cannot occur).
   Directives used: those of ExtrOcamlBasic only (bool, option, unit, list, prod, sumbool, sumor);
   no Extract Constant; Z / positive stay as extracted inductives. *)
Require Import ExtrOcamlBasic WorldCheck.
Require Import Base Fixed Panic Curve Bank BankOps Risk Handlers TransferFee XrateConsts Xrate Price ConfigGen Config Emode ConfigPaths ConfigHealth PrivGen Privilege Deleverage AnchorTypes AnchorSem Gate AccountsTable HandlerFacts Spec AuthCell AuthFixture TxConstants Tx TxToy AcctLifecycle RiskFeed Payout GroupRoles.
Extraction Language OCaml.
Separate Extraction
  feed_of_oracle_venue gr_trace gr_fixture
  ix_group_configure role_accepts role_keys gr_run mkGR mkGC
  pay_step pay_run tok_amt mkPayW MINT_BANK MINT_EM pay_fixture pay_obs pay_trace
  p_pause p_unpause p_unpause_if_expired p_is_expired p_can_pause c_is_expired ix_propagate
  ix_panic_pause ix_panic_unpause ix_panic_unpause_permissionless is_protocol_paused mkP
  ir_validate calc_interest_rate mpc legacy_curve
  bstep brun la_empty mkBW accrual_state_changes remaining_deposit_capacity pre_fee_deposit_amount
  calculate_fee get_epoch_fee pre_fee_deposit_amount_at calculate_epoch_fee fund_emissions mkFS urun hstep hrun fixed_feed mkHW health_components check_init_health
  i80_from_i128_checked adjust_i128 adjust_i64 adjust_u64 collateral_to_liquidity_from_scaled
  liquidity_to_collateral_from_scaled liq_to_col_ratio col_to_liq_ratio scale_supplies
  convert_decimals u68f60_to_i80f48 k_total_supply k_scaled_supplies k_collateral_to_liquidity
  k_liquidity_to_collateral k_is_stale decimal_to_i80f48 s_total_liquidity s_scaled_supplies
  s_collateral_to_liquidity s_liquidity_to_collateral s_is_stale s_rate_from_reserve
  s_rate_collateral_to_liquidity s_rate_liquidity_to_collateral get_precision_increase
  d_scaled_balance_increment d_scaled_balance_decrement d_withdraw_token_amount d_adjust_i64
  d_adjust_u64 d_adjust_i128 d_is_stale scale_drift_deposit_limit kamino_pyth kamino_swb solend_pyth
  solend_swb drift_pyth drift_swb of_int E_Drift_ScalingOverflow E_Drift_MathError
  E_Kamino_MathError E_Solend_MathError E_Solend_ReserveStale E_Anchor_InvalidNumericConversion
  DRIFT_SCALED_BALANCE_DECIMALS DRIFT_EXP_10_I80F48 PE_BORSH_IO px_scale_supplies px_try_from_bank
  px_try_from_bank_with_max_age px_price_of_type px_price_and_conf px_try_get_price_feed
  px_single_balance_components px_liquidation_prices px_receivership_withdraw_price bc_validate
  ss_validate calc_max_leverage em_validate u32_to_basis basis_to_u32 bank_configure
  bank_configure_unfrozen reconcile_emode_configs calc_value_dec ix_add_bank
  ix_add_bank_permissionless ix_configure_bank ix_configure_interest_only ix_configure_limits_only
  ix_configure_emode ix_clone_emode ix_propagate_staked ix_migrate_curve ix_group_set_caps
  ix_init_staked_settings ix_edit_staked_settings es_zeroed account_health account_health_no_emode
  probe_position apply_reqs OP_KILLED DEFAULT_INIT_MAX_EMODE_LEVERAGE
  DEFAULT_MAINT_MAX_EMODE_LEVERAGE pstep zeros dv_tx dv_purge configure_withdrawal_limit positions
  wrun cell fixture_names fixture_accounts fixture_now0 accounts_table tw_owner tw_disc tw_setnum
  tw_flag tw_setkey tw_del tw_clone tw_now mkWorld mkBinding PROG_MARGINFI PROG_SYSTEM PROG_TOKEN
  PROG_TOKEN22 PROG_KAMINO PROG_FARMS PROG_DRIFT PROG_SOLEND PROG_ATA PROG_STRANGER
  SYSVAR_INSTRUCTIONS SYSVAR_RENT validate_bank_state weighted_asset_value_rule opstate_of_Z
  num_field acct_of is_signer_authorized account_not_frozen_for_authority validate_ix_first
  validate_ix_last validate_ixes_exclusive validate_instructions check_flashloan_can_start
  flags_of_Z Z_of_flags toy_exec_tx_r toy_h_end toy_init toy_maint toy_equity toy_world top proxy
  mk_CB mk_FG mk_SL mk_EL mk_SD mk_ED mk_SF mk_EF mk_EFX mk_EFN mk_WD mk_RP mk_BR mk_DP mk_IR mk_LQ mk_HB mk_TR
  IX_IR IX_SL IX_EL IX_WD IX_RP IX_SE IX_WE IX_KW IX_DW IX_SF IX_EF IX_SD IX_ED IX_BR IX_DP IX_LQ
  IX_HB IX_TR IX_SW IX_PH IX_KRR IX_KRO IX_DUS
  lstep lrun h_transfer_pda mkLW feed_of_oracle hok2b h_collect_fees_foreign_ata h_borrow_norem h_withdraw_norem h_close_bank_probe h_liquidate_norem.
