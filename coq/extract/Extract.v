(* Extraction of the executable model for the correspondence driver.
   Directives used: those of ExtrOcamlBasic only (bool, option, unit, list, prod, sumbool, sumor);
   no Extract Constant; Z / positive stay as extracted inductives. *)
Require Import ExtrOcamlBasic.
Require Import Base Fixed Panic Curve TxConstants Tx TxToy.
Extraction Language OCaml.
Extraction "extract/model.ml"
  p_pause p_unpause p_unpause_if_expired p_is_expired p_can_pause c_is_expired ix_propagate
  ix_panic_pause ix_panic_unpause ix_panic_unpause_permissionless is_protocol_paused mkP
  ir_validate calc_interest_rate mpc legacy_curve
  validate_ix_first validate_ix_last validate_ixes_exclusive validate_instructions check_flashloan_can_start
  flags_of_Z Z_of_flags toy_exec_tx_r toy_h_end toy_init toy_maint toy_equity toy_world top proxy
  mk_CB mk_FG mk_SL mk_EL mk_SD mk_ED mk_SF mk_EF mk_WD mk_RP mk_BR mk_DP mk_IR mk_LQ mk_HB mk_TR
  IX_IR IX_SL IX_EL IX_WD IX_RP IX_SE IX_WE IX_KW IX_DW IX_SF IX_EF IX_SD IX_ED IX_BR IX_DP IX_LQ IX_HB IX_TR
  IX_SW IX_PH IX_KRR IX_KRO IX_DUS.
