(* Extraction of the executable model for the correspondence driver.
   Directives used: those of ExtrOcamlBasic only (bool, option, unit, list, prod, sumbool, sumor);
   no Extract Constant; Z / positive stay as extracted inductives. *)
Require Import ExtrOcamlBasic.
Require Import Base Fixed Panic Curve Bank BankOps TransferFee.
Extraction Language OCaml.
Extraction "extract/model.ml"
  p_pause p_unpause p_unpause_if_expired p_is_expired p_can_pause c_is_expired ix_propagate
  ix_panic_pause ix_panic_unpause ix_panic_unpause_permissionless is_protocol_paused mkP
  ir_validate calc_interest_rate mpc legacy_curve
  bstep brun la_empty mkBW accrual_state_changes remaining_deposit_capacity
  pre_fee_deposit_amount calculate_fee urun.
