(* Extraction of the executable model for the correspondence driver.
   Directives used: those of ExtrOcamlBasic only (bool, option, unit, list, prod, sumbool, sumor);
   no Extract Constant; Z / positive stay as extracted inductives. *)
Require Import ExtrOcamlBasic.
Require Import Base Fixed Panic Curve Price.
Extraction Language OCaml.
Extraction "extract/model.ml"
  p_pause p_unpause p_unpause_if_expired p_is_expired p_can_pause c_is_expired ix_propagate
  ix_panic_pause ix_panic_unpause ix_panic_unpause_permissionless is_protocol_paused mkP
  ir_validate calc_interest_rate mpc legacy_curve
  of_int PE_BORSH_IO px_scale_supplies px_try_from_bank px_try_from_bank_with_max_age px_price_of_type
  px_price_and_conf px_try_get_price_feed px_single_balance_components px_liquidation_prices px_receivership_withdraw_price.
