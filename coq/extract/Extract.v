(* Extraction of the executable model for the correspondence driver.
   Directives used: those of ExtrOcamlBasic only (bool, option, unit, list, prod, sumbool, sumor);
   no Extract Constant; Z / positive stay as extracted inductives. *)
Require Import ExtrOcamlBasic.
Require Import Base Fixed Panic Curve.
Require Import ConfigGen Config Emode ConfigPaths ConfigHealth.
Extraction Language OCaml.
Extraction "extract/model.ml"
  p_pause p_unpause p_unpause_if_expired p_is_expired p_can_pause c_is_expired ix_propagate
  ix_panic_pause ix_panic_unpause ix_panic_unpause_permissionless is_protocol_paused mkP
  ir_validate calc_interest_rate mpc legacy_curve
  bc_validate ss_validate calc_max_leverage em_validate u32_to_basis basis_to_u32 bank_configure
  bank_configure_unfrozen reconcile_emode_configs calc_value_dec ix_add_bank ix_add_bank_permissionless
  ix_configure_bank ix_configure_interest_only ix_configure_limits_only ix_configure_emode ix_clone_emode
  ix_propagate_staked ix_migrate_curve ix_group_set_caps ix_init_staked_settings ix_edit_staked_settings es_zeroed
  account_health account_health_no_emode probe_position apply_reqs OP_KILLED DEFAULT_INIT_MAX_EMODE_LEVERAGE
  DEFAULT_MAINT_MAX_EMODE_LEVERAGE.
