open Drv_common
module M = struct
  include Drv_common.M
  include Price
end
(* ------------------------------------------------------------------ oracle / oraclerisk (C09) *)
(* builtin ProgramErrors are negative codes in the model: printed PE<n> like util::err_tok *)
let oerr_s (e : M.err) : string =
  match e with
  | M.EPanic -> "PANIC" | M.ENone -> "NONE"
  | M.E c -> let b = big_of_z c in if Z.sign b < 0 then "PE" ^ Z.to_string (Z.neg b) else "E" ^ Z.to_string b
let ores_s (f : 'a -> string) (r : 'a M.res) : string =
  match r with M.Ok a -> f a | M.Err e -> oerr_s e

type ocase = { cfg : M.ocfg; over : bool; over_age : M.z; ck : M.oclock; ais : M.oacct list;
               vn : M.venue; sk : M.staking }

let parse_body (kind : int) (f : M.z array) : M.obody =
  match kind with
  | 0 -> M.BShort
  | 1 -> M.BForeign
  | 2 -> M.BPythTrunc
  | 3 -> M.BPyth { M.pm_full = (big_of_z f.(0) <> Z.zero); pm_price = f.(1); pm_conf = f.(2); pm_expo = f.(3);
                   pm_publish = f.(4); pm_ema_price = f.(5); pm_ema_conf = f.(6) }
  | 4 -> M.BSwbTrunc
  | 5 -> M.BSwb { M.sm_value = f.(0); sm_std_dev = f.(1); sm_last_update = f.(2) }
  | _ -> failwith "bad body kind"

let parse_ocase (t : toks) : ocase =
  let setup = nz t in
  let k0 = nz t in let k1 = nz t in let k2 = nz t in
  let max_age = nz t in let max_conf = nz t in let fixed = nz t in
  let over = nb t in let over_age = nz t in
  let now = nz t in let slot = nz t in
  let n = ni t in
  let ais = Stdlib.List.init n (fun _ ->
    let key = nz t in let owner = nz t in let kind = ni t in
    let f = Array.init 7 (fun _ -> nz t) in
    { M.oa_key = key; oa_owner = owner; oa_body = parse_body kind f }) in
  let loader = ni t in let last = nz t in let avail = nz t in let supply = nz t in let dec = nz t in
  let cum = nz t in
  let mint_ok = nb t in let lst_supply = nz t in let stake_kind = ni t in let stake = nz t in
  let vn = { M.vn_loader = (match loader with 0 -> M.VLOk | 1 -> M.VLInvalid | _ -> M.VLPanic);
             vn_last = last; vn_supplies = M.px_scale_supplies (M.of_int avail) supply dec; vn_cum = cum } in
  let sk = { M.sk_supply = (if mint_ok then M.Ok lst_supply else M.Err M.EPanic);
             sk_stake = (match stake_kind with 0 -> M.Ok stake | 1 -> M.Err (M.E M.coq_PE_BORSH_IO) | _ -> M.Err M.EPanic) } in
  { cfg = { M.oc_setup = setup; oc_key0 = k0; oc_key1 = k1; oc_key2 = k2; oc_max_age = max_age;
            oc_max_conf = max_conf; oc_fixed_price = fixed };
    over; over_age; ck = { M.ck_now = now; ck_slot = slot }; ais; vn; sk }

let load (c : ocase) (ais : M.oacct list) : M.feed M.res =
  if c.over then M.px_try_from_bank_with_max_age c.cfg ais c.vn c.sk c.ck c.over_age
  else M.px_try_from_bank c.cfg ais c.vn c.sk c.ck

let suite_oracle (line : string) : string =
  let t = toks_of_line line in
  let c = parse_ocase t in
  let m = ni t in
  let omcs = Stdlib.List.init m (fun _ -> nz t) in
  match load c c.ais with
  | M.Err e -> oerr_s e
  | M.Ok f ->
    let head = (match f with M.FPyth _ -> "OKP" | M.FSwb _ -> "OKS" | M.FFixed _ -> "OKF") in
    let seg omc =
      let q ty b = ores_s zs (M.px_price_of_type f ty b omc) in
      let pc ty = ores_s (fun (p, ci) -> zs p ^ " " ^ zs ci) (M.px_price_and_conf f ty omc) in
      Stdlib.String.concat " " [
        q M.TimeWeighted None; q M.TimeWeighted (Some M.PLow); q M.TimeWeighted (Some M.PHigh);
        q M.RealTime None; q M.RealTime (Some M.PLow); q M.RealTime (Some M.PHigh);
        ";"; pc M.TimeWeighted; ";"; pc M.RealTime ] in
    Stdlib.String.concat " | " (head :: Stdlib.List.map seg omcs)

let rec firstn n l = if n <= 0 then [] else match l with [] -> [] | x :: r -> x :: firstn (n - 1) r

let suite_oraclerisk (line : string) : string =
  let t = toks_of_line line in
  let c = parse_ocase t in
  let side = ni t in let isolated = nb t in let reduce_only = nb t in
  let setup = Z.to_int (big_of_z c.cfg.M.oc_setup) in
  (* get_remaining_accounts_per_bank - 1: Fixed 0, staked 3, venue 2, others 1 *)
  let expected = (match setup with 8 -> 0 | 5 -> 3 | 6 | 7 | 9 | 10 | 11 | 12 -> 2 | _ -> 1) in
  if Stdlib.List.length c.ais < expected then Stdlib.String.concat " | " ["NEW:E6051"; "NEW:E6051"; "NEW:E6051"]
  else
    let pf = load c (firstn expected c.ais) in
    let one req =
      ores_s (fun (a, l) -> zs a ^ " " ^ zs l)
        (M.px_single_balance_components (side <> 0) isolated reduce_only req pf c.cfg.M.oc_max_conf
           (zi (match setup with 9 | 10 -> 9 | _ -> 0))) in
    Stdlib.String.concat " | " [one M.RInitial; one M.RMaintenance; one M.REquity]

(* the real liquidate / receivership handlers with one doctored oracle: a feed error surfaces through the
   liquidatee's maintenance health check (try_get_price_feed mapping), otherwise the price guards decide *)
let suite_oracleliq (line : string) : string =
  let t = toks_of_line line in
  let op = ni t in let role = ni t in
  let c = parse_ocase t in
  let omc = c.cfg.M.oc_max_conf in
  let pf = load c c.ais in
  match pf with
  | M.Err M.EPanic -> "PANIC"
  | M.Err _ -> (match fst (M.px_try_get_price_feed pf) with M.Err e -> oerr_s e | M.Ok _ -> "?")
  | M.Ok _ ->
    let good = M.Ok (M.FFixed (zi 1)) in
    if op = 0 then
      ores_s (fun _ -> "OK")
        (if role = 0 then M.px_liquidation_prices pf good omc (zi 0) else M.px_liquidation_prices good pf (zi 0) omc)
    else ores_s (fun _ -> "OK") (M.px_receivership_withdraw_price pf omc)

let () = register "oracleliq" suite_oracleliq
let () = register "oracle" suite_oracle
let () = register "oraclerisk" suite_oraclerisk
