open Drv_common
module M = struct
  include Drv_common.M
  include TxConstants
  include Tx
  include TxToy
end
(* ------------------------------------------------------------------ tx: C10 / C11 suites
   txval  level A: validators, validate_instructions, check_flashloan_can_start
   txsim  level D: whole transactions on the toy instance (model/TxToy.v)
   txend  level C: end_liquidation / end_deleverage on arbitrary snapshots
   Formats: see harness/src/suites/tx.rs. *)

let prog_of (c : int) : M.prog =
  match c with
  | 0 -> M.PCompute | 1 -> M.PMfi | 2 -> M.PKamino | 3 -> M.PDrift | 4 -> M.PJup | 5 -> M.PTitan | 6 -> M.PAta
  | k -> M.PForeign (zi k)

let disc_of (s : string) : M.z =
  match s with
  | "IR" -> M.coq_IX_IR | "SL" -> M.coq_IX_SL | "EL" -> M.coq_IX_EL | "WD" -> M.coq_IX_WD | "RP" -> M.coq_IX_RP
  | "SE" -> M.coq_IX_SE | "WE" -> M.coq_IX_WE | "KW" -> M.coq_IX_KW | "DW" -> M.coq_IX_DW | "SF" -> M.coq_IX_SF
  | "EF" -> M.coq_IX_EF | "SD" -> M.coq_IX_SD | "ED" -> M.coq_IX_ED | "BR" -> M.coq_IX_BR | "DP" -> M.coq_IX_DP
  | "LQ" -> M.coq_IX_LQ | "HB" -> M.coq_IX_HB | "TR" -> M.coq_IX_TR | "SW" -> M.coq_IX_SW | "PH" -> M.coq_IX_PH
  | "KRR" -> M.coq_IX_KRR | "KRO" -> M.coq_IX_KRO | "DUS" -> M.coq_IX_DUS
  | n -> z_of_big (Z.of_string n)

let ures (r : unit M.res) : string = res_s (fun () -> "OK") r

(* ---- txval *)
let suite_txval (line : string) : string =
  let t = toks_of_line line in
  let pid = prog_of (ni t) in
  let exp = disc_of (next t) in
  let en = disc_of (next t) in
  let na = ni t in
  let allowed = Stdlib.List.init na (fun _ -> let p = prog_of (ni t) in let d = disc_of (next t) in (p, d)) in
  let nx = ni t in
  let excl = Stdlib.List.init nx (fun _ -> disc_of (next t)) in
  let flags = nz t in
  let n = ni t in
  let ixes = Stdlib.List.init n (fun _ ->
    let p = prog_of (ni t) in let d = disc_of (next t) in let len = nz t in let a0 = ni t in
    { M.d_prog = p; d_len = len; d_disc = d; d_accts = (if a0 = 0 then [] else if a0 < 100 then [zi a0] else [zi (a0 mod 100); zi (a0 / 100)]); d_args = [] }) in
  let out = ref [] in
  let push s = out := s :: !out in
  push (ures (M.validate_ix_first ixes pid exp allowed));
  push (ures (M.validate_ix_last ixes pid en));
  push (ures (M.validate_ixes_exclusive ixes pid excl));
  push "|";
  Stdlib.List.iter (fun k ->
    for cur = 0 to n - 1 do push (ures (M.validate_instructions ixes (zi cur) false k)) done;
    push "|") [M.KLiq; M.KDelev];
  let fl = M.flags_of_Z flags in
  for cur = 0 to n - 1 do
    for e = 0 to n + 1 do
      push (ures (M.check_flashloan_can_start fl (zi 1) ixes (zi cur) (zi e) false))
    done
  done;
  if n > 0 then
    push (ures (M.check_flashloan_can_start fl (zi 1) ixes (zi 0) (z_of_big (Z.of_string "18446744073709551615")) false));
  Stdlib.String.concat " " (Stdlib.List.rev !out)

(* ---- the toy world of the level-D fixture *)
let one = z_of_big (Z.shift_left Z.one 48)
let frac (num : int) (den : int) : M.z = z_of_big (Z.div (Z.mul (Z.of_int num) (Z.shift_left Z.one 48)) (Z.of_int den))
let u = 1_000_000

let mk_world (pc : M.z) (fee : M.z) (flags : M.z list) (recs : (M.z * M.cache4) list) : (M.tbw, M.tpf) M.world =
  let tb price ai am li lm =
    { M.tb_price = price; tb_aw_init = ai; tb_aw_maint = am; tb_lw_init = li; tb_lw_maint = lm; tb_dec = zi 6 } in
  let bw = [ (zi 31, tb pc (frac 1 2) (frac 3 4) one one);
             (zi 32, tb one one one (frac 5 4) one);
             (zi 33, tb (frac 10 1) (zi 0) (zi 0) one one);
             (zi 34, tb (zi 0) (frac 1 2) (frac 3 4) one one) ] in
  let c0 = { M.c_am = zi 0; c_lm = zi 0; c_ae = zi 0; c_le = zi 0 } in
  let acct i auth record pf =
    let (rv, ca) = (match Stdlib.List.nth_opt recs i with Some x -> x | None -> (zi 0, c0)) in
    { M.a_fl = M.flags_of_Z (Stdlib.List.nth flags i); a_auth = zi auth; a_migrated = false; a_record = record;
      a_recv = rv; a_cache = ca; a_pf = pf; a_unchk = false } in
  let b k a l = (zi k, (zi a, zi l)) in
  let accts = [
    (zi 1, acct 0 11 true [b 31 (100 * u) 0; b 32 0 (800 * u); b 33 (50 * u) 0; b 34 (50 * u) 0]);
    (zi 2, acct 1 12 true [b 31 (100 * u) 0; b 32 0 (100 * u)]);
    (zi 3, acct 2 13 false [b 31 (100 * u) 0; b 32 0 0]);
    (zi 4, acct 3 14 true [b 31 400_000 0; b 32 0 3_200_000]) ] in
  M.toy_world accts bw (zi 21) (zi 21) fee

let rec parse_ix (t : toks) : M.top_ix =
  M.top (parse_ixd t)
and parse_ixd (t : toks) : M.ixd =
  match next t with
  | "CB" -> M.mk_CB
  | "FG" -> let p = prog_of (ni t) in let d = disc_of (next t) in let len = nz t in M.mk_FG p d len
  | "SL" -> let a = nz t in let r = nz t in M.mk_SL a r
  | "EL" -> let a = nz t in let r = nz t in M.mk_EL a r
  | "SD" -> let a = nz t in let r = nz t in M.mk_SD a r
  | "ED" -> let a = nz t in let r = nz t in M.mk_ED a r
  | "SF" -> let a = nz t in let s = nz t in let e = nz t in M.mk_SF a s e
  | "EF" -> let a = nz t in let s = nz t in M.mk_EF a s
  | "EFX" -> let a = nz t in let s = nz t in let x = nz t in M.mk_EFX a s x
  | "EFN" -> let a = nz t in let s = nz t in M.mk_EFN a s
  | "WD" -> let a = nz t in let s = nz t in let b = nz t in let m = nz t in M.mk_WD a s b m
  | "RP" -> let a = nz t in let s = nz t in let b = nz t in let m = nz t in M.mk_RP a s b m
  | "BR" -> let a = nz t in let s = nz t in let b = nz t in let m = nz t in M.mk_BR a s b m
  | "DP" -> let a = nz t in let s = nz t in let b = nz t in let m = nz t in M.mk_DP a s b m
  | "IR" -> let a = nz t in M.mk_IR a
  | "LQ" -> let l = nz t in let s = nz t in let v = nz t in M.mk_LQ l s v (zi 31) (zi 32) (zi u)
  | "HB" -> let a = nz t in let s = nz t in M.mk_HB a s (zi 32)
  | "TR" -> let o = nz t in let s = nz t in M.mk_TR o (zi 9) s
  | k -> failwith ("bad ix token " ^ k)

let parse_top (t : toks) : M.top_ix =
  match t.l with
  | "PX" :: _ -> ignore (next t); let p = prog_of (ni t) in M.proxy p (parse_ixd t)
  | _ -> parse_ix t

let dump_account (w : (M.tbw, M.tpf) M.world) (code : int) : string =
  match w.M.w_accts (zi code) with
  | None -> Printf.sprintf "a%d:-" code
  | Some a ->
    let c = a.M.a_cache in
    let bals = Stdlib.List.filter_map (fun bc ->
      match Stdlib.List.find_opt (fun (k, _) -> zs k = string_of_int bc) a.M.a_pf with
      | Some (_, (au, lu)) -> Some (Printf.sprintf "%d=%s/%s" bc (zs au) (zs lu))
      | None -> None) [31; 32; 33; 34] in
    let comp f = (match f w.M.w_bw a.M.a_pf with M.Ok (x, y) -> zs x ^ "," ^ zs y | M.Err _ -> "x,x") in
    let refh = if a.M.a_fl.M.f_fl then "-" else comp M.toy_init ^ "," ^ comp M.toy_maint ^ "," ^ comp M.toy_equity in
    Printf.sprintf "a%d:%s:%s:%s:%s,%s,%s,%s:%s:%s" code (zs (M.coq_Z_of_flags a.M.a_fl)) (zs a.M.a_recv)
      (if a.M.a_record then "1" else "0") (zs c.M.c_am) (zs c.M.c_lm) (zs c.M.c_ae) (zs c.M.c_le)
      (Stdlib.String.concat "," bals) refh

let suite_txsim (line : string) : string =
  let parts = Stdlib.String.split_on_char ';' line in
  let cfg = toks_of_line (Stdlib.List.hd parts) in
  let pc = nz cfg in let fee = nz cfg in
  let flags = Stdlib.List.init 4 (fun _ -> nz cfg) in
  let w0 = mk_world pc fee flags [] in
  let tx = Stdlib.List.filter_map (fun p -> if Stdlib.String.trim p = "" then None else Some (parse_top (toks_of_line p))) (Stdlib.List.tl parts) in
  let (head, wf) =
    match M.toy_exec_tx_r w0 tx with
    | M.Committed w' -> ("OK", w')
    | M.Aborted (i, e) -> ("ERR " ^ zs i ^ " " ^ err_s e, w0) in
  Stdlib.String.concat " " (head :: Stdlib.List.map (dump_account wf) [1; 2; 3; 4; 9])

(* ---- txend *)
let suite_txend (line : string) : string =
  let t = toks_of_line line in
  let kind = ni t in
  let pc = nz t in let fee = nz t in
  let am = nz t in let lm = nz t in let ae = nz t in let le = nz t in
  let (k, signer, fl) = if kind = 0 then (M.KLiq, 20, 16) else (M.KDelev, 21, 48) in
  let cache = { M.c_am = am; c_lm = lm; c_ae = ae; c_le = le } in
  let w0 = mk_world pc fee [zi fl; zi 0; zi 0; zi 0] [(zi signer, cache)] in
  let pf = (match w0.M.w_accts (zi 1) with Some a -> a.M.a_pf | None -> []) in
  let show w = (match w.M.w_accts (zi 1) with
                | Some a -> zs (M.coq_Z_of_flags a.M.a_fl) ^ " " ^ zs a.M.a_recv | None -> "- -") in
  match M.toy_h_end k false w0 (zi 1) (zi signer) with
  | M.Ok w' ->
    let pr r = (match r with M.Ok (a, l) -> zs a ^ " " ^ zs l | M.Err e -> err_s e ^ " " ^ err_s e) in
    "OK " ^ show w' ^ " " ^ pr (M.toy_maint w0.M.w_bw pf) ^ " " ^ pr (M.toy_equity w0.M.w_bw pf)
  | M.Err e -> "ERR " ^ err_s e ^ " " ^ show w0 ^ " - - - -"

let () = register "txval" suite_txval
let () = register "txsim" suite_txsim
let () = register "txend" suite_txend
