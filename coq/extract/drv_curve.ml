open Drv_common
module M = struct
  include Drv_common.M
end
(* ------------------------------------------------------------------ curve *)
let rates_s (r : M.rates) : string =
  Stdlib.String.concat " " [zs r.M.r_base; zs r.M.r_lending; zs r.M.r_borrowing; zs r.M.r_group; zs r.M.r_insurance; zs r.M.r_protocol]

let suite_curve (line : string) : string =
  let t = toks_of_line line in
  let c = parse_ir t in
  let pf = parse_pf t in
  let n = ni t in
  let v = res_s (fun () -> "OK") (M.ir_validate c) in
  let outs = Stdlib.List.init n (fun _ -> let ur = nz t in res_s rates_s (M.calc_interest_rate c pf ur)) in
  Stdlib.String.concat " | " (v :: outs)


let () = register "curve" suite_curve
