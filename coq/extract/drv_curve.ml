open Drv_common
(* ------------------------------------------------------------------ curve *)
let parse_ir (t : toks) : M.ir_config =
  let ct = nz t in
  let opt = nz t in let pl = nz t in let mx = nz t in
  let insf = nz t in let insr = nz t in let grpf = nz t in let grpr = nz t in
  let zero = nz t in let hundred = nz t in
  let pts = List.init 5 (fun _ -> let u = nz t in let r = nz t in { M.rp_util = u; rp_rate = r }) in
  { M.ir_optimal = opt; ir_plateau = pl; ir_max = mx; ir_ins_fixed = insf; ir_ins_rate = insr;
    ir_grp_fixed = grpf; ir_grp_rate = grpr; ir_zero = zero; ir_hundred = hundred; ir_points = pts;
    ir_curve_type = ct }

let parse_pf (t : toks) : M.prog_fees =
  let on = nb t in let f = nz t in let r = nz t in
  { M.pf_on = on; pf_fixed = f; pf_rate = r }

let rates_s (r : M.rates) : string =
  String.concat " " [zs r.M.r_base; zs r.M.r_lending; zs r.M.r_borrowing; zs r.M.r_group; zs r.M.r_insurance; zs r.M.r_protocol]

let suite_curve (line : string) : string =
  let t = toks_of_line line in
  let c = parse_ir t in
  let pf = parse_pf t in
  let n = ni t in
  let v = res_s (fun () -> "OK") (M.ir_validate c) in
  let outs = List.init n (fun _ -> let ur = nz t in res_s rates_s (M.calc_interest_rate c pf ur)) in
  String.concat " | " (v :: outs)


let () = register "curve" suite_curve
