open Drv_common
module M = struct
  include Drv_common.M
  include Bank
  include Payout
end
(* ------------------------------------------------------------------ payout (C19: fee / insurance / emissions vault drawdowns) *)
(* case: emprog emdec dep rate total fee0 ins0 t0 nops <op>*   (see harness/src/suites/payout.rs)
   out : initial state, then per op `<res> <state>` *)
let one48 = Z.shift_left Z.one 48
let suite_payout (line : string) : string =
  let t = toks_of_line line in
  let _emprog = ni t in let _emdec = ni t in
  let dep = nz t in let rate = nz t in let total = nz t in let fee0 = nz t in let ins0 = nz t in let t0 = nz t in
  let nops = ni t in
  let z0 = zi 0 in
  let sh v = z_of_big (Z.mul (big_of_z v) one48) in
  let ir = { M.ir_optimal = z0; ir_plateau = z0; ir_max = z0; ir_ins_fixed = z0; ir_ins_rate = z0; ir_grp_fixed = z0;
             ir_grp_rate = z0; ir_zero = z0; ir_hundred = z0; ir_points = []; ir_curve_type = z0 } in
  let u64max = z_of_big (Z.of_string "18446744073709551615") in
  let bank = { M.b_asv = sh (zi 1); b_lsv = sh (zi 1); b_tas = sh dep; b_tls = z0; b_ins = z0; b_grp = z0; b_prog = z0;
               b_last_update = t0; b_dep_limit = u64max; b_bor_limit = u64max; b_asset_tag = z0; b_decimals = zi 6;
               b_flags = zi 2; b_em_rate = rate; b_em_rem = sh total; b_lend_cnt = zi 1; b_bor_cnt = z0;
               b_op_state = zi 1; b_ir = ir } in
  let bal = { M.bl_active = true; bl_bank = zi 1; bl_tag = z0; bl_a = sh dep; bl_l = z0; bl_em = z0; bl_last = t0 } in
  let ids = [10; 11; 12; 20; 1000; 1001; 1002] in
  let toks = Stdlib.List.map (fun i -> { M.tk_key = zi i; tk_mint = (if i < 20 then M.coq_MINT_BANK else M.coq_MINT_EM); tk_amt = z0 }) ids in
  let w = ref { M.y_admin = zi 1; y_auth = zi 2; y_aflags = z0; y_fee_dest = z0; y_em_wallet = z0;
                y_fee_vault = fee0; y_ins_vault = ins0; y_em_vault = total; y_toks = toks; y_bank = bank; y_bal = bal;
                y_now = t0; y_acct_last = t0 } in
  let state () =
    let w = !w in
    let base = [zs w.M.y_fee_vault; zs w.M.y_ins_vault; zs w.M.y_em_vault; zs w.M.y_fee_dest; zs w.M.y_em_wallet;
                zs w.M.y_acct_last; zs w.M.y_bal.M.bl_em; zs w.M.y_bank.M.b_em_rem; zs w.M.y_bal.M.bl_last] in
    Stdlib.String.concat " " (base @ Stdlib.List.map (fun i -> zs (M.tok_amt w.M.y_toks (zi i))) ids) in
  let out = ref [state ()] in
  for _ = 1 to nops do
    let code = ni t in
    let (signer, op) : M.z * M.pay_op =
      match code with
      | 1 -> let s = nz t in let d = nz t in let a = nz t in (s, M.YWithdrawFees (d, a))
      | 2 -> let d = nz t in let a = nz t in (zi 3, M.YWithdrawFeesPermissionless (d, a))
      | 3 -> let s = nz t in let d = nz t in (s, M.YUpdateFeesDest d)
      | 4 -> let s = nz t in let d = nz t in let a = nz t in (s, M.YWithdrawInsurance (d, a))
      | 5 -> let s = nz t in let d = nz t in (s, M.YWithdrawEmissions d)
      | 6 -> let d = nz t in (zi 3, M.YWithdrawEmissionsPermissionless d)
      | 7 -> (zi 3, M.YSettle)
      | 8 -> let s = nz t in let wl = nz t in (s, M.YUpdateEmissionsDest wl)
      | 9 -> let dt = nz t in (z0, M.YTick dt)
      | 10 -> let f = nz t in (z0, M.YSetFlags f)
      | _ -> failwith "bad op" in
    let res = match M.pay_step !w signer op with
      | M.Ok w' -> w := w'; "OK"
      | M.Err e -> err_s e in
    out := (res ^ " " ^ state ()) :: !out
  done;
  Stdlib.String.concat " | " (Stdlib.List.rev !out)
let () = register "payout" suite_payout
