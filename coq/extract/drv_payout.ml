open Drv_common
module M = struct
  include Drv_common.M
  include Bank
  include Payout
end
(* ------------------------------------------------------------------ payout (C19: fee / insurance / emissions vault drawdowns) *)
(* case: emprog emdec dep rate total fee0 ins0 t0 nops <op>*   (see harness/src/suites/payout.rs)
   out : initial state, then per op `<res> <state>` *)
let suite_payout (line : string) : string =
  let t = toks_of_line line in
  let _emprog = ni t in let _emdec = ni t in
  let dep = nz t in let rate = nz t in let total = nz t in let fee0 = nz t in let ins0 = nz t in let t0 = nz t in
  let nops = ni t in
  let z0 = zi 0 in
  let ids = [10; 11; 12; 20; 1000; 1001; 1002] in
  let w = ref (M.pay_fixture dep rate total fee0 ins0 t0) in
  let state () =
    let w = !w in
    let base = [zs w.M.y_fee_vault; zs w.M.y_ins_vault; zs w.M.y_em_vault; zs w.M.y_fee_dest; zs w.M.y_em_wallet;
                zs w.M.y_acct_last; zs w.M.y_bal.M.bl_em; zs w.M.y_bank.M.b_em_rem; zs w.M.y_bal.M.bl_last] in
    Stdlib.String.concat " " (base @ Stdlib.List.map (fun i -> zs (M.tok_amt w.M.y_toks (zi i))) ids) in
  let out = ref [state ()] in
  for _ = 1 to nops do
    let code = ni t in
    let (signer, op) : M.z * M.pay_op =
      match code with
      | 1 -> let s = nz t in let d = nz t in let a = nz t in (s, M.YWithdrawFees (d, a))
      | 2 -> let d = nz t in let a = nz t in (zi 3, M.YWithdrawFeesPermissionless (d, a))
      | 3 -> let s = nz t in let d = nz t in (s, M.YUpdateFeesDest d)
      | 4 -> let s = nz t in let d = nz t in let a = nz t in (s, M.YWithdrawInsurance (d, a))
      | 5 -> let s = nz t in let d = nz t in (s, M.YWithdrawEmissions d)
      | 6 -> let d = nz t in (zi 3, M.YWithdrawEmissionsPermissionless d)
      | 7 -> (zi 3, M.YSettle)
      | 8 -> let s = nz t in let wl = nz t in (s, M.YUpdateEmissionsDest wl)
      | 9 -> let dt = nz t in (z0, M.YTick dt)
      | 10 -> let f = nz t in (z0, M.YSetFlags f)
      | _ -> failwith "bad op" in
    let res = match M.pay_step !w signer op with
      | M.Ok w' -> w := w'; "OK"
      | M.Err e -> err_s e in
    out := (res ^ " " ^ state ()) :: !out
  done;
  Stdlib.String.concat " | " (Stdlib.List.rev !out)
let () = register "payout" suite_payout
