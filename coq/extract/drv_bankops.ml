open Drv_common
module M = struct
  include Drv_common.M
  include Bank
  include BankOps
end
(* ------------------------------------------------------------------ bankops (level B) *)
let nn (t : toks) : M.nat =
  let rec go k = if k = 0 then M.O else M.S (go (k - 1)) in go (ni t)

let parse_bank (t : toks) : M.bank =
  let asv = nz t in let lsv = nz t in let tas = nz t in let tls = nz t in
  let ins = nz t in let grp = nz t in let prog = nz t in let lu = nz t in
  let dl = nz t in let bl = nz t in let tag = nz t in let dec = nz t in
  let flags = nz t in let er = nz t in let erem = nz t in let lc = nz t in let bc = nz t in
  let ops = nz t in
  let ir = parse_ir t in
  { M.b_asv = asv; b_lsv = lsv; b_tas = tas; b_tls = tls; b_ins = ins; b_grp = grp; b_prog = prog;
    b_last_update = lu; b_dep_limit = dl; b_bor_limit = bl; b_asset_tag = tag; b_decimals = dec;
    b_flags = flags; b_em_rate = er; b_em_rem = erem; b_lend_cnt = lc; b_bor_cnt = bc;
    b_op_state = ops; b_ir = ir }

let dump_bank (b : M.bank) : string =
  Stdlib.String.concat " " [zs b.M.b_asv; zs b.M.b_lsv; zs b.M.b_tas; zs b.M.b_tls; zs b.M.b_ins; zs b.M.b_grp;
                     zs b.M.b_prog; zs b.M.b_last_update; zs b.M.b_em_rem; zs b.M.b_lend_cnt; zs b.M.b_bor_cnt]

let dump_la (la : M.balance list) : string =
  let parts = Stdlib.List.filter_map (fun x -> x)
    (Stdlib.List.mapi (fun i (bl : M.balance) ->
       if bl.M.bl_active then
         Some (Stdlib.String.concat ":" [string_of_int i; zs bl.M.bl_bank; zs bl.M.bl_tag; zs bl.M.bl_a; zs bl.M.bl_l; zs bl.M.bl_em; zs bl.M.bl_last])
       else None) la) in
  if parts = [] then "-" else Stdlib.String.concat "," parts

let rec nat_to_int (n : M.nat) : int = match n with M.O -> 0 | M.S k -> 1 + nat_to_int k

let suite_bankops (line : string) : string =
  let t = toks_of_line line in
  let nb = ni t in let na = ni t in
  let pf = parse_pf t in
  let now0 = nz t in
  let banks = Stdlib.List.init nb (fun _ -> parse_bank t) in
  let accts = Stdlib.List.init na (fun _ -> M.la_empty) in
  let w = ref { M.bw_banks = banks; bw_accts = accts; bw_now = now0; bw_pf = pf } in
  let nops = ni t in
  let out = ref [] in
  for _ = 1 to nops do
    let op = ni t in
    let (o, bi, ai) : M.bop * M.nat option * M.nat option =
      match op with
      | 0 -> let x = nz t in (M.BSetClock x, None, None)
      | k when k >= 1 && k <= 9 ->
          let a = nn t in let b = nn t in let amt = nz t in
          ((match k with
            | 1 -> M.BDeposit (a, b, amt) | 2 -> M.BWithdraw (a, b, amt) | 3 -> M.BBorrow (a, b, amt)
            | 4 -> M.BRepay (a, b, amt) | 5 -> M.BWithdrawAll (a, b) | 6 -> M.BRepayAll (a, b)
            | 7 -> M.BCloseBalance (a, b) | 8 -> M.BDepositIgnoreCap (a, b, amt)
            | _ -> M.BWithdrawIgnoreCap (a, b, amt)), Some b, Some a)
      | 10 -> let b = nn t in (M.BAccrue b, Some b, None)
      | 11 -> let b = nn t in let amt = nz t in (M.BSocialize (b, amt), Some b, None)
      | 12 -> let a = nn t in let b = nn t in (M.BClaim (a, b), Some b, Some a)
      | 13 -> let a = nn t in let b = nn t in (M.BSettle (a, b), Some b, Some a)
      | 14 -> let a = nn t in (M.BSort a, None, Some a)
      | 15 -> let b = nn t in (M.BCapacity b, Some b, None)
      | _ -> failwith "bad op" in
    let res =
      match M.bstep !w o with
      | M.Ok (w', r) -> w := w'; (match r with None -> "OK" | Some v -> "OK " ^ zs v)
      | M.Err e -> err_s e in
    let bd = match bi with Some b -> dump_bank (Stdlib.List.nth !w.M.bw_banks (nat_to_int b)) | None -> "-" in
    let ad = match ai with Some a -> dump_la (Stdlib.List.nth !w.M.bw_accts (nat_to_int a)) | None -> "-" in
    out := (res ^ " # " ^ bd ^ " # " ^ ad) :: !out
  done;
  Stdlib.String.concat " | " (Stdlib.List.rev !out)

let () = register "bankops" suite_bankops
