open Drv_common
module M = struct
  include Drv_common.M
  include XrateConsts
  include Xrate
end
(* ------------------------------------------------------------------ xrate (C20) *)
let zz (r : M.z M.res) : string = res_s zs r
let pair_s (r : (M.z * M.z) M.res) : string = res_s (fun (a, b) -> zs a ^ " " ^ zs b) r
let then_z (first : M.z M.res) (g : M.z -> M.z M.res) : string =
  match first with M.Ok v -> zz (g v) | M.Err _ -> "-"
let zlist (l : M.z list) : string = Stdlib.String.concat " " (Stdlib.List.map zs l)

let parse_k (t : toks) : M.kreserve =
  let slot = nz t in let avail = nz t in let b = nz t in let p = nz t in let r = nz t in let pe = nz t in
  let d = nz t in let s = nz t in
  { M.kr_slot = slot; kr_available = avail; kr_borrowed_sf = b; kr_prot_fees_sf = p; kr_ref_fees_sf = r;
    kr_pend_fees_sf = pe; kr_decimals = d; kr_col_supply = s }

let parse_s (t : toks) : M.sreserve =
  let slot = nz t in let d = nz t in let avail = nz t in let b = nz t in let f = nz t in let s = nz t in
  { M.sr_slot = slot; sr_decimals = d; sr_available = avail; sr_borrowed_wads = b; sr_fees_wads = f; sr_col_supply = s }

let parse_d (t : toks) : M.dmarket =
  let ci = nz t in let ts = nz t in let d = nz t in
  { M.dm_cum_interest = ci; dm_last_ts = ts; dm_decimals = d }

let parse_pyth (t : toks) : M.pyth_px =
  let p = nz t in let e = nz t in let c = nz t in let ec = nz t in
  { M.py_price = p; py_ema = e; py_conf = c; py_ema_conf = ec }
let parse_swb (t : toks) : M.swb_px =
  let v = nz t in let s = nz t in { M.sw_value = v; sw_std_dev = s }

(* the harness observes a Pyth feed through get_price_of_type (exponent 0): I80F48 bits of the i64 *)
let pyth_s (r : M.pyth_px M.res) : string =
  res_s (fun f ->
    let feed = Price.FPyth (f.M.py_price, f.M.py_conf, M.Z0, f.M.py_ema, f.M.py_ema_conf) in
    let low ty = res_s zs (Price.px_price_of_type feed ty (Some Price.PLow) M.Z0) in
    zs (M.of_int f.M.py_price) ^ " " ^ zs (M.of_int f.M.py_ema) ^ " " ^ low Price.RealTime ^ " " ^ low Price.TimeWeighted) r
let swb_s (r : M.swb_px M.res) : string =
  res_s (fun f -> zs f.M.sw_value ^ " " ^ zs f.M.sw_std_dev) r

let suite_xrate (line : string) : string =
  let t = toks_of_line line in
  let op = next t in
  let out =
    match op with
    | "consts" ->
      [ Stdlib.String.concat " " [zs M.coq_SPOT_CUMULATIVE_INTEREST_PRECISION; zs M.coq_DRIFT_PRECISION_EXP; zs M.coq_DRIFT_SCALED_BALANCE_DECIMALS];
        zlist M.coq_DRIFT_EXP_10; zlist M.coq_DRIFT_EXP_10_I80F48;
        Stdlib.String.concat " " [zs M.coq_E_Drift_ScalingOverflow; zs M.coq_E_Drift_MathError; zs M.coq_E_Kamino_MathError;
                           zs M.coq_E_Solend_MathError; zs M.coq_E_Solend_ReserveStale; zs M.coq_E_Anchor_InvalidNumericConversion];
        zlist M.coq_EXP_10_I80F48 ]
    | "i80" -> let x = nz t in [zz (M.i80_from_i128_checked x)]
    | "adj" ->
      let kind = next t in
      let n = ni t in
      Stdlib.List.init n (fun _ ->
        let raw = nz t in let r = nz t in
        match kind with
        | "i128" -> zz (M.adjust_i128 raw r)
        | "i64" -> zz (M.adjust_i64 raw r)
        | "u64" -> zz (M.adjust_u64 raw r)
        | _ -> failwith "bad kind")
    | "c2l" | "l2c" ->
      let n = ni t in
      Stdlib.List.init n (fun _ ->
        let a = nz t in let tl = nz t in let tc = nz t in
        if op = "c2l" then zz (M.collateral_to_liquidity_from_scaled a tl tc)
        else zz (M.liquidity_to_collateral_from_scaled a tl tc))
    | "ratio" -> let tl = nz t in let tc = nz t in [zz (M.liq_to_col_ratio tl tc); zz (M.col_to_liq_ratio tl tc)]
    | "scale" -> let tl = nz t in let tc = nz t in let d = nz t in [pair_s (M.scale_supplies tl tc d)]
    | "convdec" -> let n = nz t in let f = nz t in let d = nz t in [zz (M.convert_decimals n f d)]
    | "u68" -> let b = nz t in [zs (M.u68f60_to_i80f48 b)]
    | "dec2fx" -> let b = nz t in [zz (M.decimal_to_i80f48 b)]
    | "k" ->
      let r = parse_k t in let cur = nz t in let col = nz t in let liq = nz t in
      [ zz (M.k_total_supply r); pair_s (M.k_scaled_supplies r);
        zz (M.k_collateral_to_liquidity r col); zz (M.k_liquidity_to_collateral r liq);
        then_z (M.k_liquidity_to_collateral r liq) (M.k_collateral_to_liquidity r);
        then_z (M.k_collateral_to_liquidity r col) (M.k_liquidity_to_collateral r);
        bs (M.k_is_stale r cur) ]
    | "s" ->
      let r = parse_s t in let cur = nz t in let col = nz t in let liq = nz t in
      let rate = M.s_rate_from_reserve r in
      [ zz (M.s_total_liquidity r); pair_s (M.s_scaled_supplies r);
        zz (M.s_collateral_to_liquidity r col); zz (M.s_liquidity_to_collateral r liq);
        then_z (M.s_liquidity_to_collateral r liq) (M.s_collateral_to_liquidity r);
        then_z (M.s_collateral_to_liquidity r col) (M.s_liquidity_to_collateral r);
        bs (M.s_is_stale r cur); zz rate ]
      @ (match rate with
         | M.Ok x ->
           [ zz (M.s_rate_collateral_to_liquidity x col); zz (M.s_rate_liquidity_to_collateral x liq);
             then_z (M.s_rate_liquidity_to_collateral x liq) (M.s_rate_collateral_to_liquidity x);
             then_z (M.s_rate_collateral_to_liquidity x col) (M.s_rate_liquidity_to_collateral x) ]
         | M.Err _ -> ["-"; "-"; "-"; "-"])
    | "d" ->
      let m = parse_d t in let now = nz t in let amount = nz t in let sb = nz t in
      [ zz (M.d_scaled_balance_increment m amount); zz (M.d_scaled_balance_decrement m amount);
        zz (M.d_withdraw_token_amount m sb);
        then_z (M.d_scaled_balance_increment m amount) (M.d_withdraw_token_amount m);
        then_z (M.d_withdraw_token_amount m sb) (M.d_scaled_balance_decrement m);
        bs (M.d_is_stale m now) ]
    | "dadj" ->
      let kind = next t in
      let n = ni t in
      Stdlib.List.init n (fun _ ->
        let ci = nz t in let raw = nz t in
        let m = { M.dm_cum_interest = ci; dm_last_ts = M.Z0; dm_decimals = M.Z0 } in
        match kind with
        | "i128" -> zz (M.d_adjust_i128 m raw)
        | "i64" -> zz (M.d_adjust_i64 m raw)
        | "u64" -> zz (M.d_adjust_u64 m raw)
        | _ -> failwith "bad kind")
    | "dprec" -> let d = nz t in [zz (M.get_precision_increase d)]
    | "dlimit" -> let l = nz t in let d = nz t in [zz (M.scale_drift_deposit_limit l d)]
    | "kpyth" -> let r = parse_k t in let cur = nz t in let f = parse_pyth t in [pyth_s (M.kamino_pyth r cur f)]
    | "kswb" -> let r = parse_k t in let cur = nz t in let f = parse_swb t in [swb_s (M.kamino_swb r cur f)]
    | "spyth" -> let r = parse_s t in let cur = nz t in let f = parse_pyth t in [pyth_s (M.solend_pyth r cur f)]
    | "sswb" -> let r = parse_s t in let cur = nz t in let f = parse_swb t in [swb_s (M.solend_swb r cur f)]
    | "dpyth" -> let m = parse_d t in let now = nz t in let f = parse_pyth t in [pyth_s (M.drift_pyth m now f)]
    | "dswb" -> let m = parse_d t in let now = nz t in let f = parse_swb t in [swb_s (M.drift_swb m now f)]
    | _ -> failwith "bad op" in
  Stdlib.String.concat " | " out

let () = register "xrate" suite_xrate
