open Drv_common
module M = struct
  include Drv_common.M
  include Bank
  include BankOps
  include Risk
  include Handlers
end
(* ------------------------------------------------------------------ hops (level C: handlers) *)
let nn (t : toks) : M.nat =
  let rec go k = if k = 0 then M.O else M.S (go (k - 1)) in go (ni t)
let rec nat_to_int (n : M.nat) : int = match n with M.O -> 0 | M.S k -> 1 + nat_to_int k

let two62 = z_of_big (Z.shift_left Z.one 62)

(* which parsed banks have a Token-2022 mint WITH the TransferFeeConfig extension (tokprog = 2), in parse order *)
let fee_ext : bool list ref = ref []
let parse_hbank (t : toks) : M.hbank =
  let b = Drv_bankops.parse_bank t in
  let awi = nz t in let awm = nz t in let lwi = nz t in let lwm = nz t in
  let tier = nz t in let tavil = nz t in let price = nz t in
  let tokprog = ni t in let bps = nz t in let mx = nz t in let orig = nz t in
  let etag = nz t in let n_em = ni t in
  fee_ext := !fee_ext @ [tokprog = 2];
  let entries = Stdlib.List.init n_em (fun _ ->
    let tag = nz t in let fl = nz t in let wi = nz t in let wm = nz t in
    { M.re_tag = tag; re_flags = fl; re_wi = wi; re_wm = wm }) in
  let c = { M.rc_awi = awi; rc_awm = awm; rc_lwi = lwi; rc_lwm = lwm; rc_tier = tier; rc_tavil = tavil;
            rc_emode_tag = etag; rc_emode = entries } in
  { M.hb_b = b; hb_c = c; hb_feed = M.fixed_feed price; hb_vault = zi 0; hb_insv = zi 0; hb_feev = zi 0;
    hb_feeata = zi 0; hb_t22 = (tokprog <> 0);
    hb_tf_bps = (if tokprog = 2 then bps else zi 0); hb_tf_max = (if tokprog = 2 then mx else zi 0);
    hb_orig_fee = orig }

let dump_hworld (w : M.hworld) : string =
  let bs = Stdlib.List.map (fun (hb : M.hbank) ->
    Stdlib.String.concat " " [Drv_bankops.dump_bank hb.M.hb_b; zs hb.M.hb_b.M.b_flags; zs hb.M.hb_b.M.b_op_state;
                       zs hb.M.hb_vault; zs hb.M.hb_insv; zs hb.M.hb_feev; zs hb.M.hb_feeata]) w.M.hw_banks in
  let accs = Stdlib.List.mapi (fun i (a : M.hacct) ->
    let toks = Stdlib.List.nth w.M.hw_utok i in
    Stdlib.String.concat " " ([Drv_bankops.dump_la a.M.ha_la; zs a.M.ha_flags] @ Stdlib.List.map zs toks)) w.M.hw_accts in
  Stdlib.String.concat " ; " bs ^ " # " ^ Stdlib.String.concat " ; " accs

let suite_hops (line : string) : string =
  let t = toks_of_line line in
  let nb = ni t in let na = ni t in
  let pf = parse_pf t in
  let now0 = nz t in
  fee_ext := [];
  let banks = Stdlib.List.init nb (fun _ -> parse_hbank t) in
  let has_fee_ext = Stdlib.Array.of_list !fee_ext in
  let accts = Stdlib.List.init na (fun _ -> { M.ha_la = M.la_empty; ha_flags = zi 0 }) in
  let utok = Stdlib.List.init na (fun _ -> Stdlib.List.init nb (fun _ -> two62)) in
  let w = ref { M.hw_banks = banks; hw_accts = accts; hw_now = now0; hw_pf = pf; hw_utok = utok;
                hw_risk_admin_signs = false } in
  let nops = ni t in
  let out = ref [] in
  let rotated = ref false in
  let ra = ref (-1) in        (* account whose authority is the group's risk admin (fixture op 30) *)
  for _ = 1 to nops do
    let op = ni t in
    if op = 30 then begin
      let a = ni t in ra := (if a < na then a else -1);
      out := ("OK # " ^ dump_hworld !w) :: !out
    end else if op = 31 then begin
      let b = ni t in let fl = nz t in
      let banks' = Stdlib.List.mapi (fun i (hb : M.hbank) ->
        if i = b then M.set_hb_b (M.set_b_flags fl hb.M.hb_b) hb else hb) !w.M.hw_banks in
      w := { !w with M.hw_banks = banks' };
      out := ("OK # " ^ dump_hworld !w) :: !out
    end else if op = 34 then begin
      let a = nn t in let b = nn t in let n = nz t in
      let res = match M.h_borrow_norem !w a b n with M.Ok w' -> w := w'; "OK" | M.Err e -> err_s e in
      out := (res ^ " # " ^ dump_hworld !w) :: !out
    end else if op = 35 then begin
      let a = nn t in let b = nn t in let n = nz t in let f = nb_ t in
      let res = match M.h_withdraw_norem !w a b n f with M.Ok w' -> w := w'; "OK" | M.Err e -> err_s e in
      out := (res ^ " # " ^ dump_hworld !w) :: !out
    end else if op = 33 then begin
      let a = ni t in let fl = nz t in
      let upd (old : Z.t) : Z.t = if Z.equal (big_of_z fl) Z.zero then Z.logand old (Z.lognot (Z.of_int 48)) else Z.logor old (big_of_z fl) in
      let accts' = Stdlib.List.mapi (fun i (ac : M.hacct) -> if i = a then { ac with M.ha_flags = z_of_big (upd (big_of_z ac.M.ha_flags)) } else ac) !w.M.hw_accts in
      w := { !w with M.hw_accts = accts' };
      out := ("OK # " ^ dump_hworld !w) :: !out
    end else if op = 38 then begin
      (* fixture: pending Token-2022 fee change on bank b's mint + clock epoch; the model bank keeps the schedule in force *)
      let b = ni t in let ob = nz t in let om = nz t in let nb_ = nz t in let nm = nz t in let en = nz t in let ce = nz t in
      let (bps, mx) = TransferFee.get_epoch_fee { TransferFee.fs_old_bps = ob; fs_old_max = om; fs_new_bps = nb_; fs_new_max = nm; fs_new_epoch = en } ce in
      let banks' = Stdlib.List.mapi (fun i (hb : M.hbank) ->
        if i = b && has_fee_ext.(i) then { hb with M.hb_tf_bps = bps; hb_tf_max = mx } else hb) !w.M.hw_banks in
      w := { !w with M.hw_banks = banks' };
      out := ("OK # " ^ dump_hworld !w) :: !out
    end else if op = 36 then begin
      let b = nn t in
      let res = match M.h_close_bank_probe !w b with M.Ok _ -> "OK" | M.Err e -> err_s e in
      out := (res ^ " # " ^ dump_hworld !w) :: !out
    end else if op = 37 then begin
      let r = nn t in let e = nn t in let ab = nn t in let lb = nn t in let n = nz t in
      let res = match M.h_liquidate_norem !w r e ab lb n with M.Ok w' -> w := w'; "OK" | M.Err e -> err_s e in
      out := (res ^ " # " ^ dump_hworld !w) :: !out
    end else if op = 39 then begin
      (* the global fee wallet is rotated (real edit_global_fee_state, not propagated): the fee ATA that op 16 passes from
         now on is the NEW wallet's, an empty account *)
      rotated := true;
      w := { !w with M.hw_banks = Stdlib.List.map (fun hb -> M.set_hb_feeata (zi 0) hb) !w.M.hw_banks };
      out := ("OK # " ^ dump_hworld !w) :: !out
    end else if op = 40 then begin
      let b = nn t in
      let res = match (if !rotated then M.h_collect_fees_foreign_ata !w b else M.hstep !w (M.HCollectFees b)) with
        | M.Ok w' -> w := w'; "OK" | M.Err e -> err_s e in
      out := (res ^ " # " ^ dump_hworld !w) :: !out
    end else if op = 32 then begin
      let b = nn t in let _a = ni t in
      let res = match M.h_collect_fees_foreign_ata !w b with M.Ok w' -> w := w'; "OK" | M.Err e -> err_s e in
      out := (res ^ " # " ^ dump_hworld !w) :: !out
    end else begin
    let o : M.hop =
      match op with
      | 0 -> M.HClock (nz t)
      | 1 -> let a = nn t in let b = nn t in let n = nz t in let f = nb_ t in M.HDeposit (a, b, n, f)
      | 2 -> let a = nn t in let b = nn t in let n = nz t in let f = nb_ t in M.HWithdraw (a, b, n, f)
      | 3 -> let a = nn t in let b = nn t in let n = nz t in M.HBorrow (a, b, n)
      | 4 -> let a = nn t in let b = nn t in let n = nz t in let f = nb_ t in
             (* the signer of a repay is the account authority: it is the risk admin iff fixture op 30 said so *)
             w := { !w with M.hw_risk_admin_signs = (nat_to_int a = !ra) };
             M.HRepay (a, b, n, f)
      | 7 -> let a = nn t in let b = nn t in M.HCloseBalance (a, b)
      | 10 -> M.HAccrue (nn t)
      | 16 -> M.HCollectFees (nn t)
      | 17 -> let r = nn t in let e = nn t in let ab = nn t in let lb = nn t in let n = nz t in M.HLiquidate (r, e, ab, lb, n)
      | 18 -> let a = nn t in let b = nn t in M.HBankruptcy (a, b)
      | 19 -> let b = nn t in let p = nz t in M.HSetPrice (b, p)
      | _ -> failwith "bad op" in
    let res = match M.hstep !w o with
      | M.Ok w' -> w := w'; "OK"
      | M.Err e -> err_s e in
    out := (res ^ " # " ^ dump_hworld !w) :: !out
    end
  done;
  Stdlib.String.concat " | " (Stdlib.List.rev !out)

(* model-only: does the initial world of a hops case satisfy the hypotheses (HOk2) of the C01/C02/C06/C17 theorems?
   Also evaluated on the final world (the theorems say it is preserved unless a bank is wiped out). *)
let suite_hokcheck (line : string) : string =
  let t = toks_of_line line in
  let nb = ni t in let na = ni t in
  let pf = parse_pf t in
  let now0 = nz t in
  let banks = Stdlib.List.init nb (fun _ -> parse_hbank t) in
  let accts = Stdlib.List.init na (fun _ -> { M.ha_la = M.la_empty; ha_flags = zi 0 }) in
  let utok = Stdlib.List.init na (fun _ -> Stdlib.List.init nb (fun _ -> two62)) in
  let w = { M.hw_banks = banks; hw_accts = accts; hw_now = now0; hw_pf = pf; hw_utok = utok; hw_risk_admin_signs = false } in
  if WorldCheck.hok2b w then "1" else "0"

let () = register "hops" suite_hops
let () = register "hokcheck" suite_hokcheck
