(* drv_common.ml — shared helpers of the model driver: runs the extracted Coq model on the same case files as the Rust harness.
   usage: driver <suite> <cases> <out>.  Zarith is used ONLY to parse/print decimal numbers;
   all arithmetic is done by the extracted code on Coq's own Z. *)
(* M = the extracted modules every suite needs; a suite adds its own area modules on top *)
module M = struct
  include BinNums
  type z = coq_Z
  type n = coq_N
  include Datatypes
  include Base
  include Constants
  include Fixed
  include Curve
end

let rec pos_of_big (n : Z.t) : M.positive =
  if Z.equal n Z.one then M.Coq_xH
  else if Z.is_even n then M.Coq_xO (pos_of_big (Z.shift_right n 1))
  else M.Coq_xI (pos_of_big (Z.shift_right n 1))

let z_of_big (n : Z.t) : M.z =
  let s = Z.sign n in
  if s = 0 then M.Z0 else if s > 0 then M.Zpos (pos_of_big n) else M.Zneg (pos_of_big (Z.neg n))

let rec big_of_pos (p : M.positive) : Z.t =
  match p with
  | M.Coq_xH -> Z.one
  | M.Coq_xO q -> Z.shift_left (big_of_pos q) 1
  | M.Coq_xI q -> Z.succ (Z.shift_left (big_of_pos q) 1)

let big_of_z (z : M.z) : Z.t =
  match z with M.Z0 -> Z.zero | M.Zpos p -> big_of_pos p | M.Zneg p -> Z.neg (big_of_pos p)

let zs (z : M.z) : string = Z.to_string (big_of_z z)
let zi (i : int) : M.z = z_of_big (Z.of_int i)

(* token stream *)
type toks = { mutable l : string list }
let toks_of_line (s : string) : toks =
  { l = Stdlib.List.filter (fun x -> x <> "") (Stdlib.String.split_on_char ' ' (Stdlib.String.trim s)) }
let next (t : toks) : string =
  match t.l with [] -> failwith "missing token" | x :: r -> t.l <- r; x
let nz (t : toks) : M.z = z_of_big (Z.of_string (next t))
let ni (t : toks) : int = int_of_string (next t)
let nb (t : toks) : bool = ni t <> 0
let nb_ (t : toks) : bool = ni t <> 0
let at_end (t : toks) : bool = t.l = []

let err_s (e : M.err) : string =
  match e with M.EPanic -> "PANIC" | M.ENone -> "NONE"
  | M.E c -> let s = zs c in if s = "-3" then "PE:AccountBorrowFailed" else "E" ^ s

let res_s (f : 'a -> string) (r : 'a M.res) : string =
  match r with M.Ok a -> f a | M.Err e -> err_s e

let bs (b : bool) : string = if b then "B1" else "B0"
let bit (b : bool) : string = if b then "1" else "0"


(* parsers shared by several suites *)
let parse_ir (t : toks) : M.ir_config =
  let ct = nz t in
  let opt = nz t in let pl = nz t in let mx = nz t in
  let insf = nz t in let insr = nz t in let grpf = nz t in let grpr = nz t in
  let zero = nz t in let hundred = nz t in
  let pts = Stdlib.List.init 5 (fun _ -> let u = nz t in let r = nz t in { M.rp_util = u; rp_rate = r }) in
  { M.ir_optimal = opt; ir_plateau = pl; ir_max = mx; ir_ins_fixed = insf; ir_ins_rate = insr;
    ir_grp_fixed = grpf; ir_grp_rate = grpr; ir_zero = zero; ir_hundred = hundred; ir_points = pts;
    ir_curve_type = ct }

let parse_pf (t : toks) : M.prog_fees =
  let on = nb t in let f = nz t in let r = nz t in
  { M.pf_on = on; pf_fixed = f; pf_rate = r }


(* suite registry *)
let suites : (string, string -> string) Hashtbl.t = Hashtbl.create 16
let register (name : string) (f : string -> string) : unit = Hashtbl.replace suites name f
