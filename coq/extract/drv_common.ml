(* drv_common.ml — shared helpers of the model driver: runs the extracted Coq model on the same case files as the Rust harness.
   usage: driver <suite> <cases> <out>.  Zarith is used ONLY to parse/print decimal numbers;
   all arithmetic is done by the extracted code on Coq's own Z. *)
module M = Model

let rec pos_of_big (n : Z.t) : M.positive =
  if Z.equal n Z.one then M.XH
  else if Z.is_even n then M.XO (pos_of_big (Z.shift_right n 1))
  else M.XI (pos_of_big (Z.shift_right n 1))

let z_of_big (n : Z.t) : M.z =
  let s = Z.sign n in
  if s = 0 then M.Z0 else if s > 0 then M.Zpos (pos_of_big n) else M.Zneg (pos_of_big (Z.neg n))

let rec big_of_pos (p : M.positive) : Z.t =
  match p with
  | M.XH -> Z.one
  | M.XO q -> Z.shift_left (big_of_pos q) 1
  | M.XI q -> Z.succ (Z.shift_left (big_of_pos q) 1)

let big_of_z (z : M.z) : Z.t =
  match z with M.Z0 -> Z.zero | M.Zpos p -> big_of_pos p | M.Zneg p -> Z.neg (big_of_pos p)

let zs (z : M.z) : string = Z.to_string (big_of_z z)
let zi (i : int) : M.z = z_of_big (Z.of_int i)

(* token stream *)
type toks = { mutable l : string list }
let toks_of_line (s : string) : toks =
  { l = List.filter (fun x -> x <> "") (String.split_on_char ' ' (String.trim s)) }
let next (t : toks) : string =
  match t.l with [] -> failwith "missing token" | x :: r -> t.l <- r; x
let nz (t : toks) : M.z = z_of_big (Z.of_string (next t))
let ni (t : toks) : int = int_of_string (next t)
let nb (t : toks) : bool = ni t <> 0
let at_end (t : toks) : bool = t.l = []

let err_s (e : M.err) : string =
  match e with M.EPanic -> "PANIC" | M.ENone -> "NONE" | M.E c -> "E" ^ zs c

let res_s (f : 'a -> string) (r : 'a M.res) : string =
  match r with M.Ok a -> f a | M.Err e -> err_s e

let bs (b : bool) : string = if b then "B1" else "B0"
let bit (b : bool) : string = if b then "1" else "0"


(* suite registry *)
let suites : (string, string -> string) Hashtbl.t = Hashtbl.create 16
let register (name : string) (f : string -> string) : unit = Hashtbl.replace suites name f
