open Drv_common
module M = struct
  include Drv_common.M
  include Bank
  include AcctLifecycle
end
(* ------------------------------------------------------------------ acctlife (C16: close / transfer) *)
let nn (t : toks) : M.nat =
  let rec go k = if k = 0 then M.O else M.S (go (k - 1)) in go (ni t)

let rec set_at (l : 'a list) (i : int) (v : 'a) : 'a list =
  match l with
  | [] -> []
  | x :: r -> if i = 0 then v :: r else x :: set_at r (i - 1) v

let zero_bal : M.balance =
  { M.bl_active = false; bl_bank = zi 0; bl_tag = zi 0; bl_a = zi 0; bl_l = zi 0; bl_em = zi 0; bl_last = zi 0 }

let parse_acct (t : toks) : M.macct option =
  if not (nb t) then None else begin
    let flags = nz t in let auth = nz t in let group = nz t in let mto = nz t in let mfrom = nz t in
    let emis = nz t in let last = nz t in
    let nbal = ni t in
    let la = ref (Stdlib.List.init 16 (fun _ -> zero_bal)) in
    for _ = 1 to nbal do
      let idx = ni t in
      let act = nb t in let bank = nz t in let tag = nz t in let a = nz t in let l = nz t in
      let em = nz t in let lst = nz t in
      la := set_at !la idx { M.bl_active = act; bl_bank = bank; bl_tag = tag; bl_a = a; bl_l = l; bl_em = em; bl_last = lst }
    done;
    Some { M.ma_la = !la; ma_flags = flags; ma_authority = auth; ma_group = group; ma_migrated_to = mto;
           ma_migrated_from = mfrom; ma_emissions_dest = emis; ma_last_update = last }
  end

let dump_bal (b : M.balance) : string =
  Stdlib.String.concat ":" [(if b.M.bl_active then "1" else "0"); zs b.M.bl_bank; zs b.M.bl_tag; zs b.M.bl_a; zs b.M.bl_l;
                            zs b.M.bl_em; zs b.M.bl_last]

let dump_acct (o : M.macct option) : string =
  match o with
  | None -> "X"
  | Some a ->
      Stdlib.String.concat " " [zs a.M.ma_flags; zs a.M.ma_authority; zs a.M.ma_group; zs a.M.ma_migrated_to;
                                zs a.M.ma_migrated_from; zs a.M.ma_emissions_dest; zs a.M.ma_last_update;
                                Stdlib.String.concat "," (Stdlib.List.map dump_bal a.M.ma_la)]

let dump_lw (w : M.lworld) : string = Stdlib.String.concat ";" (Stdlib.List.map dump_acct w.M.lw_accts)

let suite_acctlife (line : string) : string =
  let t = toks_of_line line in
  let na = ni t in
  let now = nz t in
  let paused = nb t in
  let accts = Stdlib.List.init na (fun _ -> parse_acct t) in
  let w = ref { M.lw_accts = accts; lw_group = zi 1; lw_admin = zi 9; lw_paused = paused; lw_fee_wallet = zi 20; lw_now = now } in
  let nops = ni t in
  let out = ref [] in
  for _ = 1 to nops do
    let op = ni t in
    if op = 6 then begin
      (* transfer_to_new_account_pda *)
      let o = nn t in let n = nn t in let s = nz t in let na_ = nz t in let fw = nz t in
      let res = match M.h_transfer_pda !w o n s na_ fw with
        | M.Ok w' -> w := w'; "OK"
        | M.Err e -> err_s e in
      out := (res ^ " # " ^ dump_lw !w) :: !out
    end else begin
    let o : M.lop =
      match op with
      | 1 -> let a = nn t in let s = nz t in M.LClose (a, s)
      | 2 -> let o = nn t in let n = nn t in let s = nz t in let na_ = nz t in let fw = nz t in M.LTransfer (o, n, s, na_, fw)
      | 3 -> let a = nn t in let f = nz t in M.LSetFlags (a, f)
      | 4 -> M.LSetClock (nz t)
      | 5 -> M.LSetPaused (nb t)
      | _ -> failwith "bad op" in
    let res = match M.lstep !w o with
      | M.Ok w' -> w := w'; "OK"
      | M.Err e -> err_s e in
    out := (res ^ " # " ^ dump_lw !w) :: !out
    end
  done;
  Stdlib.String.concat " | " (Stdlib.List.rev !out)

let () = register "acctlife" suite_acctlife
