open Drv_common
module M = struct
  include Drv_common.M
  include ConfigGen
  include Config
  include Emode
  include ConfigPaths
  include ConfigHealth
end
(* ------------------------------------------------------------------ config (level A) and cfgsim (level C) for C13 *)
let parse_ir13 (t : toks) : M.ir_config =
  let ct = nz t in
  let opt = nz t in let pl = nz t in let mx = nz t in
  let insf = nz t in let insr = nz t in let grpf = nz t in let grpr = nz t in
  let zero = nz t in let hundred = nz t in
  let pts = Stdlib.List.init 5 (fun _ -> let u = nz t in let r = nz t in { M.rp_util = u; rp_rate = r }) in
  { M.ir_optimal = opt; ir_plateau = pl; ir_max = mx; ir_ins_fixed = insf; ir_ins_rate = insr;
    ir_grp_fixed = grpf; ir_grp_rate = grpr; ir_zero = zero; ir_hundred = hundred; ir_points = pts;
    ir_curve_type = ct }

let parse_cfg (t : toks) : M.bank_cfg =
  let awi = nz t in let awm = nz t in let lwi = nz t in let lwm = nz t in
  let dep = nz t in let bor = nz t in
  let ir = parse_ir13 t in
  let orig = nz t in let op = nz t in let tier = nz t in let tag = nz t in let lim = nz t in
  let age = nz t in let conf = nz t in let ok = nz t in
  { M.bc_awi = awi; bc_awm = awm; bc_lwi = lwi; bc_lwm = lwm; bc_deposit_limit = dep; bc_borrow_limit = bor;
    bc_ir = ir; bc_orig_fee = orig; bc_op_state = op; bc_risk_tier = tier; bc_asset_tag = tag;
    bc_init_limit = lim; bc_max_age = age; bc_max_conf = conf; bc_oracle_key = ok }

let dump_ir (c : M.ir_config) : string =
  Stdlib.String.concat " "
    ([zs c.M.ir_curve_type; zs c.M.ir_optimal; zs c.M.ir_plateau; zs c.M.ir_max; zs c.M.ir_ins_fixed;
      zs c.M.ir_ins_rate; zs c.M.ir_grp_fixed; zs c.M.ir_grp_rate; zs c.M.ir_zero; zs c.M.ir_hundred]
     @ Stdlib.List.concat_map (fun p -> [zs p.M.rp_util; zs p.M.rp_rate]) c.M.ir_points)

let dump_cfg (c : M.bank_cfg) : string =
  Stdlib.String.concat " "
    [zs c.M.bc_awi; zs c.M.bc_awm; zs c.M.bc_lwi; zs c.M.bc_lwm; zs c.M.bc_deposit_limit; zs c.M.bc_borrow_limit;
     dump_ir c.M.bc_ir; zs c.M.bc_orig_fee; zs c.M.bc_op_state; zs c.M.bc_risk_tier; zs c.M.bc_asset_tag;
     zs c.M.bc_init_limit; zs c.M.bc_max_age; zs c.M.bc_max_conf; zs c.M.bc_oracle_key]

let dump_entries (l : M.emode_entry list) : string =
  Stdlib.String.concat " " (Stdlib.List.map (fun e -> Stdlib.String.concat " " [zs e.M.ee_tag; zs e.M.ee_flags; zs e.M.ee_init; zs e.M.ee_maint]) l)

let dump_emode (e : M.emode_settings) : string =
  Stdlib.String.concat " " [zs e.M.es_tag; zs e.M.es_timestamp; zs e.M.es_flags; dump_entries e.M.es_entries]

let dump_bank (b : M.cbank) : string =
  Stdlib.String.concat " " [dump_cfg b.M.cb_cfg; zs b.M.cb_flags; dump_emode b.M.cb_emode]

let opt (t : toks) (f : toks -> 'a) : 'a option =
  match next t with "N" -> None | "S" -> Some (f t) | x -> failwith ("bad option token " ^ x)

let parse_ir_opt (t : toks) : M.ir_opt =
  let a = opt t nz in let b = opt t nz in let c = opt t nz in let d = opt t nz in let o = opt t nz in
  let z = opt t nz in let h = opt t nz in
  let p = opt t (fun t -> Stdlib.List.init 5 (fun _ -> let u = nz t in let r = nz t in { M.rp_util = u; rp_rate = r })) in
  { M.io_ins_fixed = a; io_ins_rate = b; io_grp_fixed = c; io_grp_rate = d; io_orig = o; io_zero = z;
    io_hundred = h; io_points = p }

let parse_opt (t : toks) : M.cfg_opt =
  let awi = opt t nz in let awm = opt t nz in let lwi = opt t nz in let lwm = opt t nz in
  let dep = opt t nz in let bor = opt t nz in let op = opt t nz in
  let ir = opt t parse_ir_opt in
  let tier = opt t nz in let tag = opt t nz in let lim = opt t nz in let conf = opt t nz in let age = opt t nz in
  let pbd = opt t nb in let fr = opt t nb in let tl = opt t nb in
  { M.o_awi = awi; o_awm = awm; o_lwi = lwi; o_lwm = lwm; o_deposit = dep; o_borrow = bor; o_op_state = op;
    o_ir = ir; o_risk_tier = tier; o_asset_tag = tag; o_init_limit = lim; o_max_conf = conf; o_max_age = age;
    o_pbd = pbd; o_freeze = fr; o_tokenless = tl }

let parse_entries (t : toks) : M.emode_entry list =
  Stdlib.List.init 10 (fun _ ->
    let tag = nz t in let fl = nz t in let i = nz t in let m = nz t in
    { M.ee_tag = tag; ee_flags = fl; ee_init = i; ee_maint = m })

let parse_staked (t : toks) : M.staked_settings =
  let o = nz t in let awi = nz t in let awm = nz t in let dep = nz t in let lim = nz t in
  let age = nz t in let tier = nz t in
  { M.ss_oracle = o; ss_awi = awi; ss_awm = awm; ss_deposit_limit = dep; ss_init_limit = lim; ss_max_age = age;
    ss_risk_tier = tier }

let dump_staked (s : M.staked_settings) : string =
  Stdlib.String.concat " " [zs s.M.ss_oracle; zs s.M.ss_awi; zs s.M.ss_awm; zs s.M.ss_deposit_limit; zs s.M.ss_init_limit;
                     zs s.M.ss_max_age; zs s.M.ss_risk_tier]

let ok_s (r : unit M.res) : string = res_s (fun () -> "OK") r

let suite_config (line : string) : string =
  let t = toks_of_line line in
  match next t with
  | "V" -> ok_s (M.bc_validate (parse_cfg t))
  | "SV" -> ok_s (M.ss_validate (parse_staked t))
  | "LEV" -> let cw = nz t in let lw = nz t in res_s zs (M.calc_max_leverage cw lw)
  | "EV" ->
      let lwi = nz t in let lwm = nz t in let ci = nz t in let cm = nz t in
      let es = parse_entries t in
      let c = { M.bc_awi = zi 0; bc_awm = zi 0; bc_lwi = lwi; bc_lwm = lwm; bc_deposit_limit = zi 0;
                bc_borrow_limit = zi 0; bc_ir = M.permissionless_ir; bc_orig_fee = zi 0; bc_op_state = zi 0;
                bc_risk_tier = zi 0; bc_asset_tag = zi 0; bc_init_limit = zi 0; bc_max_age = zi 0;
                bc_max_conf = zi 0; bc_oracle_key = zi 0 } in
      ok_s (M.em_validate { M.es_tag = zi 0; es_timestamp = zi 0; es_flags = zi 0; es_entries = es } c ci cm)
  | "U2B" -> res_s zs (M.u32_to_basis (nz t))
  | "B2U" -> res_s zs (M.basis_to_u32 (nz t))
  | "CONF" ->
      let c = parse_cfg t in let fl = nz t in let o = parse_opt t in
      res_s (fun b -> "OK " ^ dump_cfg b.M.cb_cfg ^ " " ^ zs b.M.cb_flags)
        (M.bank_configure { M.cb_cfg = c; cb_flags = fl; cb_emode = M.es_zeroed } o)
  | "UNF" ->
      let c = parse_cfg t in let fl = nz t in let o = parse_opt t in
      let b = M.bank_configure_unfrozen { M.cb_cfg = c; cb_flags = fl; cb_emode = M.es_zeroed } o in
      "OK " ^ dump_cfg b.M.cb_cfg ^ " " ^ zs b.M.cb_flags
  | "REC" ->
      let k = ni t in
      let cfgs = Stdlib.List.init k (fun _ -> parse_entries t) in
      res_s (fun l -> "OK " ^ dump_entries l) (M.reconcile_emode_configs cfgs)
  | "CV" ->
      let a = nz t in let p = nz t in let d = nz t in let w = nz t in
      res_s zs (M.calc_value_dec a p d w)
  | x -> failwith ("unknown op " ^ x)

let () = register "config" suite_config

(* ------------------------------------------------------------------ cfgsim *)
let parse_compact (t : toks) : M.cfg_compact =
  let awi = nz t in let awm = nz t in let lwi = nz t in let lwm = nz t in let dep = nz t in
  let insf = nz t in let insr = nz t in let grpf = nz t in let grpr = nz t in let orig = nz t in
  let zero = nz t in let hundred = nz t in
  let pts = Stdlib.List.init 5 (fun _ -> let u = nz t in let r = nz t in { M.rp_util = u; rp_rate = r }) in
  let op = nz t in let bor = nz t in let tier = nz t in let tag = nz t in let lim = nz t in
  let age = nz t in let conf = nz t in
  { M.cc_awi = awi; cc_awm = awm; cc_lwi = lwi; cc_lwm = lwm; cc_deposit = dep;
    cc_ir = { M.ic_ins_fixed = insf; ic_ins_rate = insr; ic_grp_fixed = grpf; ic_grp_rate = grpr; ic_orig = orig;
              ic_zero = zero; ic_hundred = hundred; ic_points = pts };
    cc_op_state = op; cc_borrow = bor; cc_risk_tier = tier; cc_asset_tag = tag; cc_init_limit = lim;
    cc_max_age = age; cc_max_conf = conf }

(* the result of validate_oracle_setup for a staked bank when propagate passes no oracle accounts:
   an external input of the model (see ConfigPaths.ix_propagate_staked); the number is what the real
   handler returns in the sim runtime for that situation *)
let oracle_check_no_accounts : unit M.res = M.Err (M.E (zi 6051))

let suite_cfgsim (line : string) : string =
  let t = toks_of_line line in
  let now = nz t in
  let cfg2 = parse_cfg t in
  let flags2 = nz t in
  let n = ni t in
  let staked_tag = zi 2 in
  let cfg2 = { cfg2 with M.bc_oracle_key = zi 1; bc_asset_tag = staked_tag } in
  let banks : M.cbank option array = [| None; None; Some { M.cb_cfg = cfg2; cb_flags = flags2; cb_emode = M.es_zeroed } |] in
  let caps = ref (match M.ix_group_set_caps None None with M.Ok c -> c | M.Err _ -> failwith "default caps") in
  let settings : M.staked_settings option ref = ref None in
  let caps_s () = "G " ^ zs !caps.M.cap_init ^ " " ^ zs !caps.M.cap_maint in
  let dump i = match banks.(i) with Some b -> "B" ^ string_of_int i ^ " " ^ dump_bank b | None -> failwith "no bank" in
  let on_bank i (f : M.cbank -> M.cbank M.res) : string =
    match banks.(i) with
    | None -> "ABSENT"
    | Some b -> (match f b with M.Ok b' -> banks.(i) <- Some b'; "OK " ^ dump i | M.Err e -> err_s e) in
  let out = ref [caps_s () ^ " " ^ dump 2] in
  for _ = 1 to n do
    let s =
      match next t with
      | "ADD" | "ADS" ->
          let i = ni t in let cc = parse_compact t in
          (match banks.(i) with
           | Some _ -> "EXISTS"
           | None -> (match M.ix_add_bank cc with M.Ok b -> banks.(i) <- Some b; "OK " ^ dump i | M.Err e -> err_s e))
      | "CFG" -> let i = ni t in let o = parse_opt t in on_bank i (fun b -> M.ix_configure_bank !caps b o)
      | "IRO" -> let i = ni t in let o = parse_ir_opt t in on_bank i (fun b -> M.ix_configure_interest_only b o)
      | "LIM" ->
          let i = ni t in let d = opt t nz in let bo = opt t nz in let l = opt t nz in
          on_bank i (fun b -> M.ix_configure_limits_only b d bo l)
      | "EM" ->
          let i = ni t in let tag = nz t in let es = parse_entries t in
          on_bank i (fun b -> M.ix_configure_emode !caps now b tag es)
      | "CL" ->
          let i = ni t in let j = ni t in
          (match banks.(i), banks.(j) with
           | Some src, Some _ -> on_bank j (fun dst -> M.ix_clone_emode !caps src dst)
           | _ -> "ABSENT")
      | "GC" ->
          let oi = opt t nz in let om = opt t nz in
          (match M.ix_group_set_caps oi om with M.Ok c -> caps := c; "OK " ^ caps_s () | M.Err e -> err_s e)
      | "SSI" ->
          let s = parse_staked t in
          (match !settings with
           | Some _ -> "EXISTS"
           | None -> (match M.ix_init_staked_settings s with
                      | M.Ok s' -> settings := Some s'; "OK S " ^ dump_staked s'
                      | M.Err e -> err_s e))
      | "SSE" ->
          let o = opt t nz in let awi = opt t nz in let awm = opt t nz in let dep = opt t nz in
          let lim = opt t nz in let age = opt t nz in let tier = opt t nz in
          let so = { M.so_oracle = o; so_awi = awi; so_awm = awm; so_deposit_limit = dep; so_init_limit = lim;
                     so_max_age = age; so_risk_tier = tier } in
          (match !settings with
           | None -> "ABSENT"
           | Some s -> (match M.ix_edit_staked_settings s so with
                        | M.Ok s' -> settings := Some s'; "OK S " ^ dump_staked s'
                        | M.Err e -> err_s e))
      | "PR" ->
          (match !settings with
           | None -> "ABSENT"
           | Some s -> on_bank 2 (fun b -> M.ix_propagate_staked s oracle_check_no_accounts b))
      | "KILL" ->
          (* external event: the bankruptcy handler (not a configuration request) moves the bank to
             KilledByBankruptcy; the fixture that prepares the debt also installs a Fixed oracle (key 0) *)
          let i = ni t in
          on_bank i (fun b -> M.Ok { b with M.cb_cfg = { b.M.cb_cfg with M.bc_op_state = M.coq_OP_KILLED; bc_oracle_key = zi 0 } })
      | "MIG" -> let i = ni t in on_bank i (fun b -> M.ix_migrate_curve b)
      | "HP" ->
          let k = ni t in
          let raw = Stdlib.List.init k (fun _ -> let i = ni t in let liab = nb t in let sh = nz t in let pr = nz t in (i, liab, sh, pr)) in
          if Stdlib.List.exists (fun (i, _, _, _) -> banks.(i) = None) raw then "ABSENT"
          else begin
            (* the probe's fixture: unit share values (amount = shares), the probed balance is the bank's
               only deposit, mint decimals 6 *)
            let ps = Stdlib.List.map (fun (i, liab, sh, pr) ->
              match banks.(i) with
              | Some b -> M.probe_position liab sh pr (zi 6) b (if liab then zi 0 else sh)
              | None -> failwith "absent") raw in
            if Stdlib.List.exists (function M.Err _ -> true | M.Ok _ -> false) ps then "PROBE-ERR"
            else begin
              let l = Stdlib.List.map (function M.Ok p -> p | M.Err _ -> failwith "unreachable") ps in
              let hi = M.account_health M.CRInitial l in
              let hm = M.account_health M.CRMaint l in
              match hi, hm with
              | M.Err M.EPanic, _ | _, M.Err M.EPanic -> "PANIC"
              | _ ->
                  let pr = function M.Ok (a, b) -> zs a ^ " " ^ zs b | M.Err _ -> "0 0" in
                  "H " ^ pr hi ^ " " ^ pr hm
            end
          end
      | x -> failwith ("unknown step " ^ x) in
    out := s :: !out
  done;
  Stdlib.String.concat " | " (Stdlib.List.rev !out)

let () = register "cfgsim" suite_cfgsim
