(* driver.ml — main of the model driver: driver <suite> <cases> <out>.
   Suites live in drv_<name>.ml and register themselves in Drv_common.suites. *)
open Drv_common

let () =
  let suite = Sys.argv.(1) in
  let f =
    match Hashtbl.find_opt suites suite with
    | Some f -> f
    | None -> prerr_endline ("unknown suite " ^ suite); exit 2 in
  let ic = open_in Sys.argv.(2) in
  let oc = open_out Sys.argv.(3) in
  (try
    while true do
      let line = input_line ic in
      if Stdlib.String.trim line <> "" then begin
        let r = (try f line with Failure m -> "DRIVER-FAIL " ^ m | Stack_overflow -> "DRIVER-STACK") in
        output_string oc r; output_char oc '\n'
      end
    done
  with End_of_file -> ());
  close_in ic; close_out oc
