(* driver.ml — runs the extracted Coq model on the same case files as the Rust harness.
   usage: driver <suite> <cases> <out>.  Zarith is used ONLY to parse/print decimal numbers;
   all arithmetic is done by the extracted code on Coq's own Z. *)
module M = Model

let rec pos_of_big (n : Z.t) : M.positive =
  if Z.equal n Z.one then M.XH
  else if Z.is_even n then M.XO (pos_of_big (Z.shift_right n 1))
  else M.XI (pos_of_big (Z.shift_right n 1))

let z_of_big (n : Z.t) : M.z =
  let s = Z.sign n in
  if s = 0 then M.Z0 else if s > 0 then M.Zpos (pos_of_big n) else M.Zneg (pos_of_big (Z.neg n))

let rec big_of_pos (p : M.positive) : Z.t =
  match p with
  | M.XH -> Z.one
  | M.XO q -> Z.shift_left (big_of_pos q) 1
  | M.XI q -> Z.succ (Z.shift_left (big_of_pos q) 1)

let big_of_z (z : M.z) : Z.t =
  match z with M.Z0 -> Z.zero | M.Zpos p -> big_of_pos p | M.Zneg p -> Z.neg (big_of_pos p)

let zs (z : M.z) : string = Z.to_string (big_of_z z)
let zi (i : int) : M.z = z_of_big (Z.of_int i)

(* token stream *)
type toks = { mutable l : string list }
let toks_of_line (s : string) : toks =
  { l = List.filter (fun x -> x <> "") (String.split_on_char ' ' (String.trim s)) }
let next (t : toks) : string =
  match t.l with [] -> failwith "missing token" | x :: r -> t.l <- r; x
let nz (t : toks) : M.z = z_of_big (Z.of_string (next t))
let ni (t : toks) : int = int_of_string (next t)
let nb (t : toks) : bool = ni t <> 0
let at_end (t : toks) : bool = t.l = []

let err_s (e : M.err) : string =
  match e with M.EPanic -> "PANIC" | M.ENone -> "NONE" | M.E c -> "E" ^ zs c

let res_s (f : 'a -> string) (r : 'a M.res) : string =
  match r with M.Ok a -> f a | M.Err e -> err_s e

let bs (b : bool) : string = if b then "B1" else "B0"
let bit (b : bool) : string = if b then "1" else "0"

(* ------------------------------------------------------------------ panic *)
let pst (p : M.pstate) : string =
  String.concat " " [zs p.M.p_flags; zs p.M.p_daily; zs p.M.p_consec; zs p.M.p_start; zs p.M.p_last_reset]

let suite_panic (line : string) : string =
  let t = toks_of_line line in
  let fl = nz t in let dl = nz t in let cs = nz t in let st = nz t in let lr = nz t in
  let p = ref { M.p_flags = fl; p_daily = dl; p_consec = cs; p_start = st; p_last_reset = lr } in
  let n = ni t in
  let out = ref [] in
  for _ = 1 to n do
    let op = ni t in
    let now = nz t in
    let r =
      match op with
      | 0 -> (match M.p_pause !p now with M.Ok p' -> p := p'; "OK" | M.Err e -> err_s e)
      | 1 -> p := M.p_unpause !p; "OK"
      | 2 -> (match M.p_unpause_if_expired !p now with M.Ok p' -> p := p'; "OK" | M.Err e -> err_s e)
      | 3 -> res_s bs (M.p_is_expired !p now)
      | 4 -> res_s bs (M.p_can_pause !p now)
      | 5 -> res_s bs (M.c_is_expired (M.ix_propagate !p now) now)
      | _ -> failwith "bad op" in
    out := (r ^ " " ^ pst !p) :: !out
  done;
  String.concat " | " (List.rev !out)

(* ------------------------------------------------------------------ curve *)
let parse_ir (t : toks) : M.ir_config =
  let ct = nz t in
  let opt = nz t in let pl = nz t in let mx = nz t in
  let insf = nz t in let insr = nz t in let grpf = nz t in let grpr = nz t in
  let zero = nz t in let hundred = nz t in
  let pts = List.init 5 (fun _ -> let u = nz t in let r = nz t in { M.rp_util = u; rp_rate = r }) in
  { M.ir_optimal = opt; ir_plateau = pl; ir_max = mx; ir_ins_fixed = insf; ir_ins_rate = insr;
    ir_grp_fixed = grpf; ir_grp_rate = grpr; ir_zero = zero; ir_hundred = hundred; ir_points = pts;
    ir_curve_type = ct }

let parse_pf (t : toks) : M.prog_fees =
  let on = nb t in let f = nz t in let r = nz t in
  { M.pf_on = on; pf_fixed = f; pf_rate = r }

let rates_s (r : M.rates) : string =
  String.concat " " [zs r.M.r_base; zs r.M.r_lending; zs r.M.r_borrowing; zs r.M.r_group; zs r.M.r_insurance; zs r.M.r_protocol]

let suite_curve (line : string) : string =
  let t = toks_of_line line in
  let c = parse_ir t in
  let pf = parse_pf t in
  let n = ni t in
  let v = res_s (fun () -> "OK") (M.ir_validate c) in
  let outs = List.init n (fun _ -> let ur = nz t in res_s rates_s (M.calc_interest_rate c pf ur)) in
  String.concat " | " (v :: outs)

(* ------------------------------------------------------------------ main *)
let () =
  let suite = Sys.argv.(1) in
  let f =
    match suite with
    | "panic" -> suite_panic
    | "curve" -> suite_curve
    | _ -> prerr_endline ("unknown suite " ^ suite); exit 2 in
  let ic = open_in Sys.argv.(2) in
  let oc = open_out Sys.argv.(3) in
  (try
    while true do
      let line = input_line ic in
      if String.trim line <> "" then begin
        let r = (try f line with Failure m -> "DRIVER-FAIL " ^ m | Stack_overflow -> "DRIVER-STACK") in
        output_string oc r; output_char oc '\n'
      end
    done
  with End_of_file -> ());
  close_in ic; close_out oc
