open Drv_common
module M = struct
  include Drv_common.M
  include TransferFee
end
let suite_prefee (line : string) : string =
  let t = toks_of_line line in
  let bps = nz t in let maxfee = nz t in let post = nz t in
  match M.pre_fee_deposit_amount bps maxfee post with
  | M.Err e -> err_s e
  | M.Ok pre ->
      (match M.calculate_fee bps maxfee pre with
       | M.Ok fee -> zs pre ^ " " ^ zs fee
       | M.Err e -> err_s e)
let () = register "prefee" suite_prefee
