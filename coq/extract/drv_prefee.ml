open Drv_common
module M = struct
  include Drv_common.M
  include TransferFee
end
let suite_prefee (line : string) : string =
  let t = toks_of_line line in
  let bps = nz t in let maxfee = nz t in let post = nz t in
  (* optional: a pending fee change (older schedule, epoch of the newer one) and the current epoch *)
  let (s, epoch) =
    if at_end t then ({ TransferFee.fs_old_bps = bps; fs_old_max = maxfee; fs_new_bps = bps; fs_new_max = maxfee; fs_new_epoch = zi 0 }, zi 0)
    else begin
      let ob = nz t in let om = nz t in let en = nz t in let e = nz t in
      ({ TransferFee.fs_old_bps = ob; fs_old_max = om; fs_new_bps = bps; fs_new_max = maxfee; fs_new_epoch = en }, e)
    end in
  match TransferFee.pre_fee_deposit_amount_at s epoch post with
  | M.Err e -> err_s e
  | M.Ok pre ->
      (match TransferFee.calculate_epoch_fee s epoch pre with
       | M.Ok fee -> zs pre ^ " " ^ zs fee
       | M.Err e -> err_s e)
let () = register "prefee" suite_prefee
