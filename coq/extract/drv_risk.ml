open Drv_common
module M = struct
  include Drv_common.M
  include Bank
  include BankOps
  include Risk
  include Handlers
end
(* ------------------------------------------------------------------ risk (level C with Pyth push oracles: C04 / C05)
   Same as suite hops, plus one oracle descriptor per bank and ops 20 / 21. The per-bank `feed` of a
   Pyth bank is RiskFeed.feed_of_oracle (Price.v adapter model) and is recomputed whenever the clock,
   the oracle account or the presented account changes; nothing else is computed here. *)
type ostate = { kind : int; mutable cfg : Price.ocfg; mutable msg : Price.pyth_msg; mutable bogus : bool;
                mutable drift : (M.z * M.z) option (* Drift spot market of the bank: cumulative_deposit_interest, last_interest_ts *) }

let pyth_key (i : int) : M.z = zi (1000 + i)
let decoy_key : M.z = zi 999

let parse_oracle (i : int) (t : toks) : ostate =
  let kind = ni t in
  let max_age = nz t in let max_conf = nz t in
  let price = nz t in let conf = nz t in let expo = nz t in
  let ema = nz t in let ema_conf = nz t in let publish = nz t in
  { kind;
    cfg = { Price.oc_setup = Price.coq_OS_PythPushOracle; oc_key0 = pyth_key i; oc_key1 = zi 0; oc_key2 = zi 0;
            oc_max_age = max_age; oc_max_conf = max_conf; oc_fixed_price = zi 0 };
    msg = { Price.pm_full = true; pm_price = price; pm_conf = conf; pm_expo = expo; pm_publish = publish;
            pm_ema_price = ema; pm_ema_conf = ema_conf };
    bogus = false; drift = None }

let spot_key (i : int) : M.z = zi (2000 + i)

let decoy_msg (now0 : M.z) : Price.pyth_msg =
  { Price.pm_full = true; pm_price = zi 1; pm_conf = zi 0; pm_expo = zi 0; pm_publish = now0;
    pm_ema_price = zi 1; pm_ema_conf = zi 0 }

let refresh (os : ostate array) (now0 : M.z) (w : M.hworld) : M.hworld =
  let banks = Stdlib.List.mapi (fun i (hb : M.hbank) ->
    let o = os.(i) in
    if o.kind = 1 then begin
      let acct =
        if o.bogus then { Price.oa_key = decoy_key; oa_owner = Price.coq_PYTH_RECEIVER_ID; oa_body = Price.BPyth (decoy_msg now0) }
        else { Price.oa_key = pyth_key i; oa_owner = Price.coq_PYTH_RECEIVER_ID; oa_body = Price.BPyth o.msg } in
      (match o.drift with
       | None -> { hb with M.hb_feed = RiskFeed.feed_of_oracle o.cfg [acct] w.M.hw_now }
       | Some (cum, last) ->
           (* DriftPythPull: the Pyth account followed by the bank's spot market (exchange rate = cumulative deposit interest) *)
           let spot = { Price.oa_key = spot_key i; oa_owner = zi 0; oa_body = Price.BForeign } in
           let vn = { Price.vn_loader = Price.VLOk; vn_last = last; vn_supplies = M.Err M.ENone; vn_cum = cum } in
           { hb with M.hb_feed = RiskFeed.feed_of_oracle_venue o.cfg [acct; spot] vn w.M.hw_now })
    end else hb) w.M.hw_banks in
  { w with M.hw_banks = banks }

let suite_risk (line : string) : string =
  let t = toks_of_line line in
  let nb = ni t in let na = ni t in
  let pf = parse_pf t in
  let now0 = nz t in
  let banks = Stdlib.List.init nb (fun _ -> Drv_hops.parse_hbank t) in
  let os = Array.init nb (fun i -> parse_oracle i t) in
  let accts = Stdlib.List.init na (fun _ -> { M.ha_la = M.la_empty; ha_flags = zi 0 }) in
  let utok = Stdlib.List.init na (fun _ -> Stdlib.List.init nb (fun _ -> Drv_hops.two62)) in
  let w = ref (refresh os now0 { M.hw_banks = banks; hw_accts = accts; hw_now = now0; hw_pf = pf; hw_utok = utok;
                                 hw_risk_admin_signs = false }) in
  let nops = ni t in
  let out = ref [] in
  let nn = Drv_hops.nn in
  for _ = 1 to nops do
    let op = ni t in
    let res =
      if op = 20 then begin
        let b = ni t in
        let price = nz t in let conf = nz t in let ema = nz t in let ema_conf = nz t in let publish = nz t in
        let o = os.(b) in
        o.msg <- { o.msg with Price.pm_price = price; pm_conf = conf; pm_ema_price = ema; pm_ema_conf = ema_conf;
                              pm_publish = publish };
        w := refresh os now0 !w; "OK"
      end else if op = 21 then begin
        let b = ni t in let mode = ni t in
        os.(b).bogus <- (mode = 1);
        w := refresh os now0 !w; "OK"
      end else if op = 22 then begin
        let b = ni t in let st = nz t in
        let banks = Stdlib.List.mapi (fun i (hb : M.hbank) ->
          if i = b then { hb with M.hb_b = { hb.M.hb_b with M.b_op_state = st } } else hb) !w.M.hw_banks in
        w := { !w with M.hw_banks = banks }; "OK"
      end else if op = 23 then begin
        (* fixture: the bank's asset tag becomes `tag` (a bank of a third-party venue that already holds positions) *)
        let b = ni t in let tg = nz t in let cum = nz t in let last = nz t in
        let banks = Stdlib.List.mapi (fun i (hb : M.hbank) ->
          if i = b then { hb with M.hb_b = { hb.M.hb_b with M.b_asset_tag = tg } } else hb) !w.M.hw_banks in
        w := { !w with M.hw_banks = banks };
        if os.(b).kind = 1 && zs tg = "4" then begin
          os.(b).cfg <- { os.(b).cfg with Price.oc_setup = Price.coq_OS_DriftPythPull; oc_key1 = spot_key b };
          os.(b).drift <- Some (cum, last);
          w := refresh os now0 !w
        end;
        "OK"
      end else begin
        let o : M.hop =
          match op with
          | 0 -> M.HClock (nz t)
          | 1 -> let a = nn t in let b = nn t in let n = nz t in let f = nb_ t in M.HDeposit (a, b, n, f)
          | 2 -> let a = nn t in let b = nn t in let n = nz t in let f = nb_ t in M.HWithdraw (a, b, n, f)
          | 3 -> let a = nn t in let b = nn t in let n = nz t in M.HBorrow (a, b, n)
          | 4 -> let a = nn t in let b = nn t in let n = nz t in let f = nb_ t in M.HRepay (a, b, n, f)
          | 7 -> let a = nn t in let b = nn t in M.HCloseBalance (a, b)
          | 10 -> M.HAccrue (nn t)
          | 16 -> M.HCollectFees (nn t)
          | 17 -> let r = nn t in let e = nn t in let ab = nn t in let lb = nn t in let n = nz t in M.HLiquidate (r, e, ab, lb, n)
          | 18 -> let a = nn t in let b = nn t in M.HBankruptcy (a, b)
          | 19 -> let b = nn t in let p = nz t in M.HSetPrice (b, p)
          | _ -> failwith "bad op" in
        match M.hstep !w o with
        | M.Ok w' -> w := (if op = 0 then refresh os now0 w' else w'); "OK"
        | M.Err e -> err_s e
      end in
    out := (res ^ " # " ^ Drv_hops.dump_hworld !w) :: !out
  done;
  Stdlib.String.concat " | " (Stdlib.List.rev !out)

let () = register "risk" suite_risk
