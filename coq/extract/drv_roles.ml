open Drv_common
module M = struct
  include Drv_common.M
  include ConfigPaths
  include GroupRoles
end
(* ------------------------------------------------------------------ roles (C12: assignment of the administrator roles) *)
(* case: t0 nops <op>*  (see harness/src/suites/roles.rs) *)
let suite_roles (line : string) : string =
  let t = toks_of_line line in
  let t0 = nz t in
  let nops = ni t in
  let opt t f = match next t with "N" -> None | "S" -> Some (f t) | x -> failwith ("bad option token " ^ x) in
  let one = zi 1 in
  let caps0 = match M.ix_group_set_caps None None with M.Ok c -> c | M.Err _ -> failwith "default caps" in
  let g = ref { M.gr_admin = one; gr_emode = one; gr_curve = one; gr_limit = one; gr_emissions = one; gr_metadata = one;
                gr_risk = one; gr_caps = caps0; gr_fee_last = t0 } in
  let now = ref t0 in
  let out = ref [] in
  for _ = 1 to nops do
    let r =
      match ni t with
      | 1 ->
          let s = nz t in
          let a = nz t in let e = nz t in let c = nz t in let l = nz t in let em = nz t in let m = nz t in let rk = nz t in
          let oi = opt t nz in let om = opt t nz in
          let args = { M.gc_admin = a; gc_emode = e; gc_curve = c; gc_limit = l; gc_emissions = em; gc_metadata = m;
                       gc_risk = rk; gc_init = oi; gc_maint = om } in
          let res = match M.ix_group_configure !g s args !now with
            | M.Ok g' -> g := g'; "OK"
            | M.Err e -> err_s e in
          let g = !g in
          Stdlib.String.concat " " (res :: Stdlib.List.map zs (M.role_keys g @ [g.M.gr_caps.M.cap_init; g.M.gr_caps.M.cap_maint; g.M.gr_fee_last]))
      | 2 ->
          let role = match ni t with
            | 0 -> M.GAdmin | 1 -> M.GEmode | 2 -> M.GCurve | 3 -> M.GLimit | 4 -> M.GEmissions | 5 -> M.GMetadata
            | 6 -> M.GRisk | _ -> failwith "bad role" in
          let s = nz t in
          if M.role_accepts !g role s then "1" else "0"
      | 3 -> let dt = nz t in now := z_of_big (Z.add (big_of_z !now) (big_of_z dt)); "OK"
      | _ -> failwith "bad op" in
    out := r :: !out
  done;
  Stdlib.String.concat " | " (Stdlib.List.rev !out)
let () = register "roles" suite_roles
