open Drv_common
(* ------------------------------------------------------------------ emfund (C19: funding of emissions) *)
(* case: tokprog bps max_fee old_bps old_max epoch_new epoch decimals total rate add
   out : `<res> <sent> <received> <recorded>` for setup_emissions(total) | update_emissions_parameters(add) *)
let suite_emfund (line : string) : string =
  let t = toks_of_line line in
  let tokprog = ni t in let bps = nz t in let mx = nz t in let ob = nz t in let om = nz t in
  let en = nz t in let epoch = nz t in let _dec = ni t in let total = nz t in let _rate = nz t in let add = nz t in
  let zero = zi 0 in
  let is0 z = Z.equal (big_of_z z) Z.zero in
  let pending = not (is0 ob && is0 om && is0 en) in
  let s = if pending then { TransferFee.fs_old_bps = ob; fs_old_max = om; fs_new_bps = bps; fs_new_max = mx; fs_new_epoch = en }
          else { TransferFee.fs_old_bps = bps; fs_old_max = mx; fs_new_bps = bps; fs_new_max = mx; fs_new_epoch = zero } in
  let has_fee = tokprog >= 2 in
  let balance = ref (z_of_big (Z.of_string "18446744073709551615")) in
  let step amount =
    match TransferFee.fund_emissions has_fee s epoch !balance amount with
    | M.Ok (sent, recv) ->
        balance := z_of_big (Z.sub (big_of_z !balance) (big_of_z sent));
        "OK " ^ zs sent ^ " " ^ zs recv ^ " " ^ zs amount
    | M.Err e -> err_s e ^ " 0 0 0" in
  let a = step total in
  (* the top-up needs the bank's emissions vault, which only a successful setup creates: Anchor AccountNotInitialized *)
  let b = if Stdlib.String.length a >= 2 && Stdlib.String.sub a 0 2 = "OK" then step add else "E3012 0 0 0" in
  a ^ " | " ^ b
let () = register "emfund" suite_emfund
