#!/bin/sh
# regenerate _CoqProject (file list) and Makefile
cd "$(dirname "$0")"
{ cat _CoqProject.in; ls gen/*.v model/*.v lemmas/*.v props/*.v extract/*.v 2>/dev/null; } > _CoqProject.new
if ! cmp -s _CoqProject.new _CoqProject; then mv _CoqProject.new _CoqProject; coq_makefile -f _CoqProject -o Makefile >/dev/null; else rm _CoqProject.new; fi
[ -f Makefile ] || coq_makefile -f _CoqProject -o Makefile >/dev/null
