(* Config.v — model of the bank configuration record and its validators:
     programs/marginfi/src/state/bank_config.rs   BankConfig::validate
     programs/marginfi/src/state/staked_settings.rs StakedSettings::validate
     programs/marginfi/src/state/interest_rate.rs InterestRateConfig::update   (validate is Curve.ir_validate)
     type-crate/src/types/bank_config.rs          BankConfig, BankConfigOpt, BankConfigCompact -> BankConfig
     type-crate/src/types/interest_rate.rs        InterestRateConfigOpt, InterestRateConfigCompact -> InterestRateConfig
   Numbers are raw I80F48 bits / machine integers in Z.  Fields that no validator and no weight
   computation reads (oracle keys 1..4, config_flags, paddings, fixed_price) are not modelled; the
   identity of oracle_keys[0] is kept as an opaque integer because propagate_staked_settings compares it. *)
Require Import Base Constants ConfigGen Fixed Curve.

Record bank_cfg := mkBC {
  bc_awi : fx; bc_awm : fx;            (* asset_weight_init / maint *)
  bc_lwi : fx; bc_lwm : fx;            (* liability_weight_init / maint *)
  bc_deposit_limit : Z;                (* u64 *)
  bc_borrow_limit : Z;                 (* u64 *)
  bc_ir : ir_config;
  bc_orig_fee : fx;                    (* interest_rate_config.protocol_origination_fee (not in Curve.ir_config) *)
  bc_op_state : Z;                     (* BankOperationalState as u8 *)
  bc_risk_tier : Z;                    (* RiskTier as u8 *)
  bc_asset_tag : Z;                    (* u8 *)
  bc_init_limit : Z;                   (* total_asset_value_init_limit, u64 *)
  bc_max_age : Z;                      (* oracle_max_age, u16 *)
  bc_max_conf : Z;                     (* oracle_max_confidence, u32 *)
  bc_oracle_key : Z                    (* opaque identity of oracle_keys[0] *)
}.

Definition EInvalidOracleSetup : err := E E_InvalidOracleSetup.
Definition EUnauthorized : err := E E_Unauthorized.
Definition EBadEmodeConfig : err := E E_BadEmodeConfig.
Definition EMathError : err := E E_MathError.
Definition EWrongAssetTagStd : err := E E_WrongAssetTagForStandardInstructions.

(* the asset-weight part shared by BankConfig::validate and StakedSettings::validate is NOT shared in
   the code: the two functions order their checks differently, so they are modelled separately. *)

(* BankConfig::validate *)
Definition bc_validate (c : bank_cfg) : res unit :=
  let* _ := check ((0 <=? bc_awi c) && (bc_awi c <=? ONE)) EInvalidConfig in
  let* two := uadd ONE ONE in
  let* _ := check (bc_awm c <=? two) EInvalidConfig in
  let* _ := check (bc_awi c <=? bc_awm c) EInvalidConfig in
  let* _ := check (ONE <=? bc_lwi c) EInvalidConfig in
  let* _ := check ((bc_lwm c <=? bc_lwi c) && (ONE <=? bc_lwm c)) EInvalidConfig in
  let* _ := ir_validate (bc_ir c) in
  let* _ :=
    if bc_risk_tier c =? RISK_ISOLATED then
      let* _ := check (bc_awi c =? 0) EInvalidConfig in
      check (bc_awm c =? 0) EInvalidConfig
    else Ok tt in
  check (ORACLE_MIN_AGE <=? bc_max_age c) EInvalidOracleSetup.

(* ---------------------------------------------------------------- interest-rate option update *)
Record ir_opt := mkIRO {
  io_ins_fixed : option fx; io_ins_rate : option fx;
  io_grp_fixed : option fx; io_grp_rate : option fx;
  io_orig : option fx;
  io_zero : option Z; io_hundred : option Z;
  io_points : option (list rate_point)
}.

Definition set_if_some {A} (cur : A) (o : option A) : A := match o with Some v => v | None => cur end.

(* InterestRateConfig::update — always forces the seven-point curve type *)
Definition ir_update (c : ir_config) (o : ir_opt) : ir_config :=
  mkIR (ir_optimal c) (ir_plateau c) (ir_max c)
       (set_if_some (ir_ins_fixed c) (io_ins_fixed o)) (set_if_some (ir_ins_rate c) (io_ins_rate o))
       (set_if_some (ir_grp_fixed c) (io_grp_fixed o)) (set_if_some (ir_grp_rate c) (io_grp_rate o))
       (set_if_some (ir_zero c) (io_zero o)) (set_if_some (ir_hundred c) (io_hundred o))
       (set_if_some (ir_points c) (io_points o)) INTEREST_CURVE_SEVEN_POINT.

Definition orig_update (cur : fx) (o : ir_opt) : fx := set_if_some cur (io_orig o).

(* ---------------------------------------------------------------- BankConfigOpt *)
Record cfg_opt := mkCO {
  o_awi : option fx; o_awm : option fx; o_lwi : option fx; o_lwm : option fx;
  o_deposit : option Z; o_borrow : option Z;
  o_op_state : option Z;
  o_ir : option ir_opt;
  o_risk_tier : option Z;
  o_asset_tag : option Z;
  o_init_limit : option Z;
  o_max_conf : option Z;
  o_max_age : option Z;
  o_pbd : option bool;          (* permissionless_bad_debt_settlement *)
  o_freeze : option bool;       (* freeze_settings *)
  o_tokenless : option bool     (* tokenless_repayments_allowed *)
}.

(* ---------------------------------------------------------------- BankConfigCompact -> BankConfig *)
Record ir_compact := mkIRC {
  ic_ins_fixed : fx; ic_ins_rate : fx; ic_grp_fixed : fx; ic_grp_rate : fx; ic_orig : fx;
  ic_zero : Z; ic_hundred : Z; ic_points : list rate_point }.

Record cfg_compact := mkCC {
  cc_awi : fx; cc_awm : fx; cc_lwi : fx; cc_lwm : fx;
  cc_deposit : Z; cc_ir : ir_compact; cc_op_state : Z; cc_borrow : Z;
  cc_risk_tier : Z; cc_asset_tag : Z; cc_init_limit : Z; cc_max_age : Z; cc_max_conf : Z }.

(* From<InterestRateConfigCompact> for InterestRateConfig: legacy fields zero, seven-point type *)
Definition ir_of_compact (i : ir_compact) : ir_config :=
  mkIR 0 0 0 (ic_ins_fixed i) (ic_ins_rate i) (ic_grp_fixed i) (ic_grp_rate i)
       (ic_zero i) (ic_hundred i) (ic_points i) INTEREST_CURVE_SEVEN_POINT.

(* From<BankConfigCompact> for BankConfig: oracle setup None, all oracle keys default (= key 0) *)
Definition cfg_of_compact (c : cfg_compact) : bank_cfg :=
  mkBC (cc_awi c) (cc_awm c) (cc_lwi c) (cc_lwm c) (cc_deposit c) (cc_borrow c)
       (ir_of_compact (cc_ir c)) (ic_orig (cc_ir c)) (cc_op_state c) (cc_risk_tier c) (cc_asset_tag c)
       (cc_init_limit c) (cc_max_age c) (cc_max_conf c) 0.

(* ---------------------------------------------------------------- staked settings *)
Record staked_settings := mkSS {
  ss_oracle : Z;                (* opaque key identity *)
  ss_awi : fx; ss_awm : fx;
  ss_deposit_limit : Z; ss_init_limit : Z; ss_max_age : Z; ss_risk_tier : Z }.

(* StakedSettings::validate *)
Definition ss_validate (s : staked_settings) : res unit :=
  let* _ := check ((0 <=? ss_awi s) && (ss_awi s <=? ONE)) EInvalidConfig in
  let* _ := check (ss_awi s <=? ss_awm s) EInvalidConfig in
  let* two := uadd ONE ONE in
  let* _ := check (ss_awm s <=? two) EInvalidConfig in
  if ss_risk_tier s =? RISK_ISOLATED then
    let* _ := check (ss_awi s =? 0) EInvalidConfig in
    check (ss_awm s =? 0) EInvalidConfig
  else Ok tt.

Record ss_opt := mkSSO {
  so_oracle : option Z; so_awi : option fx; so_awm : option fx;
  so_deposit_limit : option Z; so_init_limit : option Z; so_max_age : option Z; so_risk_tier : option Z }.

(* initialize_staked_settings: StakedSettings::new + validate *)
Definition ix_init_staked_settings (s : staked_settings) : res staked_settings :=
  let* _ := ss_validate s in Ok s.

(* edit_staked_settings *)
Definition ix_edit_staked_settings (s : staked_settings) (o : ss_opt) : res staked_settings :=
  let s' := mkSS (set_if_some (ss_oracle s) (so_oracle o)) (set_if_some (ss_awi s) (so_awi o))
                 (set_if_some (ss_awm s) (so_awm o)) (set_if_some (ss_deposit_limit s) (so_deposit_limit o))
                 (set_if_some (ss_init_limit s) (so_init_limit o)) (set_if_some (ss_max_age s) (so_max_age o))
                 (set_if_some (ss_risk_tier s) (so_risk_tier o)) in
  let* _ := ss_validate s' in Ok s'.
