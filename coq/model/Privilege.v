(* Privilege.v — every delegated-administrator instruction that writes a bank (or its metadata), as a
   function on the part of the world it can reach, for C12 (least privilege):
     marginfi_group/configure_bank.rs        lending_pool_configure_bank, lending_pool_setup_emissions,
                                             lending_pool_update_emissions_parameters
     marginfi_group/configure_bank_lite.rs   ..._interest_only, ..._limits_only,
                                             lending_pool_force_tokenless_repay_complete
     marginfi_group/config_bank_emode.rs     lending_pool_configure_bank_emode
     marginfi_group/emode_clone.rs           lending_pool_clone_emode
     marginfi_group/config_bank_oracle.rs    lending_pool_configure_bank_oracle
     marginfi_group/set_fixed_oracle_price.rs lending_pool_set_fixed_oracle_price
     marginfi_group/write_bank_metadata.rs   write_bank_metadata
     marginfi_group/propagate_staked_settings.rs (permissionless; reported, not claimed by C12)
     state/bank.rs                           get_flag, update_flag, override_emissions_flag,
                                             verify_emissions_flags, verify_group_flags
   The configuration record, the flag word and the e-mode settings are those of ConfigPaths.v (C13);
   this file adds the oracle setup, the fixed price, the emissions fields and — as opaque tokens that
   no function below reads or writes — everything else a bank account holds and the accounts around
   it (vaults, user accounts, group).  The level-C suite `privsim` compares, field by field, the bytes
   the real handlers change with the fields these functions change, paddings included.
   The signer's role is an argument: the `has_one` / signer checks of the Accounts structs are the
   first thing each function does. *)
Require Import Base Constants ConfigGen PrivGen Fixed Curve Config Emode ConfigPaths.

Inductive role := RAdmin | REmodeAdmin | RCurveAdmin | RLimitAdmin | REmissionsAdmin | RMetadataAdmin | RRiskAdmin | RStranger.

Definition role_eqb (a b : role) : bool :=
  match a, b with
  | RAdmin, RAdmin | REmodeAdmin, REmodeAdmin | RCurveAdmin, RCurveAdmin | RLimitAdmin, RLimitAdmin
  | REmissionsAdmin, REmissionsAdmin | RMetadataAdmin, RMetadataAdmin | RRiskAdmin, RRiskAdmin
  | RStranger, RStranger => true
  | _, _ => false
  end.

Record pbank := mkPB {
  pb_c : cbank;               (* config (modelled part), flags, e-mode settings *)
  pb_osetup : Z;              (* config.oracle_setup as u8 *)
  pb_fixed_price : fx;        (* config.fixed_price *)
  pb_em_rate : Z;             (* emissions_rate, u64 *)
  pb_em_remaining : fx;       (* emissions_remaining *)
  pb_em_mint : Z;             (* opaque identity of emissions_mint; 0 = Pubkey::default() *)
  pb_rest : Z                 (* opaque: mint, group, share values, vault keys and bumps, outstanding fees,
                                 share totals, last_update, oracle keys 1..4, config_flags, cache, position
                                 counts, integration keys, every padding *)
}.

(* write_bank_metadata's account *)
Record pmeta := mkPM { pm_ticker : list Z; pm_end_ticker : Z; pm_desc : list Z; pm_end_desc : Z }.

(* what surrounds the bank.  px_funding / px_emvault are token balances (the emissions admin's funding
   account, the bank's emissions vault: None = the token account does not exist); the others are opaque *)
Record pworld := mkPX {
  px_bank : pbank;
  px_meta : pmeta;
  px_funding : Z;
  px_emvault : option Z;
  px_vaults : Z;              (* opaque: liquidity / insurance / fee vault token accounts *)
  px_users : Z;               (* opaque: every marginfi account (user balances) *)
  px_group : Z;               (* opaque: the group account *)
  px_others : Z               (* opaque: every other bank and account *)
}.

Definition set_bank (w : pworld) (b : pbank) : pworld :=
  mkPX b (px_meta w) (px_funding w) (px_emvault w) (px_vaults w) (px_users w) (px_group w) (px_others w).

Definition pb_flags (b : pbank) : Z := cb_flags (pb_c b).
Definition pb_frozen (b : pbank) : bool := cb_get_flag (pb_c b) FREEZE_SETTINGS.
Definition flag_set (flags flag : Z) : bool := Z.land flags flag =? flag.

Definition with_c (b : pbank) (c : cbank) : pbank :=
  mkPB c (pb_osetup b) (pb_fixed_price b) (pb_em_rate b) (pb_em_remaining b) (pb_em_mint b) (pb_rest b).
Definition with_flags (b : pbank) (f : Z) : pbank :=
  with_c b (mkCBank (cb_cfg (pb_c b)) f (cb_emode (pb_c b))).

Definition cfg_with_oracle_key (c : bank_cfg) (k : Z) : bank_cfg :=
  mkBC (bc_awi c) (bc_awm c) (bc_lwi c) (bc_lwm c) (bc_deposit_limit c) (bc_borrow_limit c) (bc_ir c) (bc_orig_fee c)
       (bc_op_state c) (bc_risk_tier c) (bc_asset_tag c) (bc_init_limit c) (bc_max_age c) (bc_max_conf c) k.

Definition EUnauthorizedP : err := E E_Unauthorized.
Definition EHasOne : err := E 2001.             (* anchor ErrorCode::ConstraintHasOne (has_one without a custom error) *)
Definition ETokenInsufficient : err := E 1.     (* spl_token::error::TokenError::InsufficientFunds *)

Definition require_role (signer want : role) (e : err) : res unit := check (role_eqb signer want) e.

(* ---------------------------------------------------------------- oracle *)
(* lending_pool_configure_bank_oracle; oracle_check = result of validate_oracle_setup on the passed accounts *)
Definition ix_configure_oracle (b : pbank) (setup key : Z) (oracle_check : res unit) : res pbank :=
  if pb_frozen b then Err EPanic else
  if negb ((0 <=? setup) && (setup <? ORACLE_SETUP_COUNT)) then Err EPanic else
  if setup =? ORACLE_SETUP_FIXED then Err EPanic else
  let* _ := oracle_check in
  let c := pb_c b in
  Ok (mkPB (mkCBank (cfg_with_oracle_key (cb_cfg c) key) (cb_flags c) (cb_emode c)) setup (pb_fixed_price b)
           (pb_em_rate b) (pb_em_remaining b) (pb_em_mint b) (pb_rest b)).

(* lending_pool_set_fixed_oracle_price (validate_oracle_setup(&[]) accepts OracleSetup::Fixed) *)
Definition ix_set_fixed_price (b : pbank) (price : fx) : res pbank :=
  if pb_frozen b then Err EPanic else
  let c := pb_c b in
  let* _ := check (negb (bc_asset_tag (cb_cfg c) =? ASSET_TAG_STAKED)) EUnauthorizedP in
  let* _ := check (0 <=? price) (E E_FixedOraclePriceNegative) in
  Ok (mkPB (mkCBank (cfg_with_oracle_key (cb_cfg c) 0) (cb_flags c) (cb_emode c)) ORACLE_SETUP_FIXED price
           (pb_em_rate b) (pb_em_remaining b) (pb_em_mint b) (pb_rest b)).

(* ---------------------------------------------------------------- emissions *)
(* Bank::override_emissions_flag: assert!(verify_emissions_flags(flag));
   self.flags = (self.flags & !EMISSION_FLAGS) | flag *)
Definition override_emissions_flag (flags flag : Z) : res Z :=
  if Z.land flag EMISSION_FLAGS =? flag then Ok (Z.lor (Z.ldiff flags EMISSION_FLAGS) flag) else Err EPanic.

(* transfer_checked(funding -> emissions vault, amount) of a classic SPL mint (no transfer fee) *)
Definition em_transfer (w : pworld) (amount : Z) : res pworld :=
  let* _ := check (amount <=? px_funding w) ETokenInsufficient in
  Ok (mkPX (px_bank w) (px_meta w) (px_funding w - amount)
           (match px_emvault w with Some v => Some (v + amount) | None => None end)
           (px_vaults w) (px_users w) (px_group w) (px_others w)).

(* lending_pool_setup_emissions; the emissions vault is created (Anchor `init`) before the handler runs *)
Definition ix_setup_emissions (w : pworld) (mint flags rate total : Z) : res pworld :=
  let b := px_bank w in
  let* _ := check (pb_em_mint b =? 0) (E E_EmissionsAlreadySetup) in
  let* f := override_emissions_flag (pb_flags b) flags in
  let b' := mkPB (mkCBank (cb_cfg (pb_c b)) f (cb_emode (pb_c b))) (pb_osetup b) (pb_fixed_price b)
                 rate (of_int total) mint (pb_rest b) in
  em_transfer (mkPX b' (px_meta w) (px_funding w) (Some 0) (px_vaults w) (px_users w) (px_group w) (px_others w)) total.

(* lending_pool_update_emissions_parameters *)
Definition ix_update_emissions (w : pworld) (mint : Z) (oflags orate oadd : option Z) : res pworld :=
  let b := px_bank w in
  let* _ := check (negb (pb_em_mint b =? 0)) (E E_EmissionsUpdateError) in
  let* _ := check (pb_em_mint b =? mint) (E E_EmissionsUpdateError) in
  (* check!(Bank::verify_emissions_flags(flags), IllegalFlag); bank.override_emissions_flag(flags) *)
  let* f := match oflags with
            | Some x =>
                let* _ := check (Z.land x EMISSION_FLAGS =? x) (E E_IllegalFlag) in
                override_emissions_flag (pb_flags b) x
            | None => Ok (pb_flags b)
            end in
  let r := match orate with Some x => x | None => pb_em_rate b end in
  match oadd with
  | None =>
      Ok (set_bank w (mkPB (mkCBank (cb_cfg (pb_c b)) f (cb_emode (pb_c b))) (pb_osetup b) (pb_fixed_price b)
                           r (pb_em_remaining b) (pb_em_mint b) (pb_rest b)))
  | Some a =>
      let* rem := ok_or (cadd (pb_em_remaining b) (of_int a)) EMathError in
      em_transfer (set_bank w (mkPB (mkCBank (cb_cfg (pb_c b)) f (cb_emode (pb_c b))) (pb_osetup b) (pb_fixed_price b)
                                    r rem (pb_em_mint b) (pb_rest b))) a
  end.

(* ---------------------------------------------------------------- metadata *)
Definition zeros (n : Z) : list Z := repeat 0 (Z.to_nat n).
Definition fill_with (cap : Z) (bytes : list Z) : list Z := bytes ++ zeros (cap - Z.of_nat (length bytes)).
Definition end_byte (bytes : list Z) : Z := match bytes with [] => 0 | _ => Z.of_nat (length bytes) - 1 end.

Definition ix_write_metadata (m : pmeta) (ticker desc : option (list Z)) : res pmeta :=
  let* m1 :=
    match ticker with
    | None => Ok m
    | Some bytes =>
        let* _ := check (Z.of_nat (length bytes) <=? METADATA_TICKER_LEN) (E E_MetadataTooLong) in
        Ok (mkPM (fill_with METADATA_TICKER_LEN bytes) (end_byte bytes) (pm_desc m) (pm_end_desc m))
    end in
  match desc with
  | None => Ok m1
  | Some bytes =>
      let* _ := check (Z.of_nat (length bytes) <=? METADATA_DESCRIPTION_LEN) (E E_MetadataTooLong) in
      Ok (mkPM (pm_ticker m1) (pm_end_ticker m1) (fill_with METADATA_DESCRIPTION_LEN bytes) (end_byte bytes))
  end.

(* ---------------------------------------------------------------- risk admin *)
(* lending_pool_force_tokenless_repay_complete *)
Definition ix_force_tokenless_complete (b : pbank) : res pbank :=
  if flag_set (pb_flags b) TOKENLESS_REPAYMENTS_ALLOWED then
    let* f := cb_update_flag (pb_flags b) true TOKENLESS_REPAYMENTS_COMPLETE in
    Ok (with_flags b f)
  else Ok b.

(* ---------------------------------------------------------------- the instructions as data *)
Inductive pix :=
| PConfigure (o : cfg_opt)
| PInterestOnly (io : ir_opt)
| PLimitsOnly (dep bor lim : option Z)
| PEmode (now tag : Z) (entries : list emode_entry)
| PCloneEmode (src : cbank)
| POracle (setup key : Z) (oracle_check : res unit)
| PFixedPrice (price : fx)
| PSetupEmissions (mint flags rate total : Z)
| PUpdateEmissions (acct_check : res unit) (mint : Z) (oflags orate oadd : option Z)
| PWriteMetadata (ticker desc : option (list Z))
| PForceTokenlessComplete
| PPropagate (s : staked_settings) (oracle_check : res unit).

Definition lift_c (w : pworld) (r : res cbank) : res pworld :=
  let* c := r in Ok (set_bank w (with_c (px_bank w) c)).
Definition lift_b (w : pworld) (r : res pbank) : res pworld :=
  let* b := r in Ok (set_bank w b).

(* one instruction by `signer` on the world around one bank *)
Definition pstep (g : caps) (signer : role) (w : pworld) (ix : pix) : res pworld :=
  let b := px_bank w in
  match ix with
  | PConfigure o =>
      let* _ := require_role signer RAdmin EUnauthorizedP in lift_c w (ix_configure_bank g (pb_c b) o)
  | PInterestOnly io =>
      let* _ := require_role signer RCurveAdmin EUnauthorizedP in lift_c w (ix_configure_interest_only (pb_c b) io)
  | PLimitsOnly d bo l =>
      let* _ := require_role signer RLimitAdmin EUnauthorizedP in lift_c w (ix_configure_limits_only (pb_c b) d bo l)
  | PEmode now tag es =>
      let* _ := require_role signer REmodeAdmin EUnauthorizedP in lift_c w (ix_configure_emode g now (pb_c b) tag es)
  | PCloneEmode src =>
      let* _ := check (role_eqb signer RAdmin || role_eqb signer REmodeAdmin) EUnauthorizedP in
      lift_c w (ix_clone_emode g src (pb_c b))
  | POracle setup key oc =>
      let* _ := require_role signer RAdmin EUnauthorizedP in lift_b w (ix_configure_oracle b setup key oc)
  | PFixedPrice p =>
      let* _ := require_role signer RAdmin EHasOne in lift_b w (ix_set_fixed_price b p)
  | PSetupEmissions mint flags rate total =>
      let* _ := require_role signer REmissionsAdmin EUnauthorizedP in ix_setup_emissions w mint flags rate total
  | PUpdateEmissions ac mint oflags orate oadd =>
      (* the emissions token account is deserialised before the has_one constraint is evaluated *)
      let* _ := ac in
      let* _ := require_role signer REmissionsAdmin EUnauthorizedP in ix_update_emissions w mint oflags orate oadd
  | PWriteMetadata t d =>
      let* _ := require_role signer RMetadataAdmin EHasOne in
      let* m := ix_write_metadata (px_meta w) t d in
      Ok (mkPX b m (px_funding w) (px_emvault w) (px_vaults w) (px_users w) (px_group w) (px_others w))
  | PForceTokenlessComplete =>
      let* _ := require_role signer RRiskAdmin EUnauthorizedP in lift_b w (ix_force_tokenless_complete b)
  | PPropagate s oc => lift_c w (ix_propagate_staked s oc (pb_c b))
  end.

(* the roles whose signature an instruction accepts ([] = permissionless) *)
Definition accepted_signers (ix : pix) : list role :=
  match ix with
  | PConfigure _ | POracle _ _ _ | PFixedPrice _ => [RAdmin]
  | PInterestOnly _ => [RCurveAdmin]
  | PLimitsOnly _ _ _ => [RLimitAdmin]
  | PEmode _ _ _ => [REmodeAdmin]
  | PCloneEmode _ => [RAdmin; REmodeAdmin]
  | PSetupEmissions _ _ _ _ | PUpdateEmissions _ _ _ _ _ => [REmissionsAdmin]
  | PWriteMetadata _ _ => [RMetadataAdmin]
  | PForceTokenlessComplete => [RRiskAdmin]
  | PPropagate _ _ => []
  end.

(* a sequence of instructions by various signers; a failing instruction is rolled back *)
Fixpoint prun (g : caps) (w : pworld) (l : list (role * pix)) : pworld :=
  match l with
  | [] => w
  | (s, ix) :: rest => prun g (match pstep g s w ix with Ok w' => w' | Err _ => w end) rest
  end.

(* ---------------------------------------------------------------- what each role may change *)
(* erasers: the fields in a role's remit are overwritten by constants; "nothing else changes" is then
   `erase b' = erase b` *)
Definition dummy_ir : ir_config := mkIR 0 0 0 0 0 0 0 0 0 [] 0.

Definition erase_ir (b : pbank) : pbank :=
  with_c b (mkCBank (cfg_with_ir (cb_cfg (pb_c b)) dummy_ir 0) (cb_flags (pb_c b)) (cb_emode (pb_c b))).
Definition erase_limits (b : pbank) : pbank :=
  with_c b (mkCBank (cfg_with_limits (cb_cfg (pb_c b)) 0 0 0) (cb_flags (pb_c b)) (cb_emode (pb_c b))).
Definition erase_dep_bor (b : pbank) : pbank :=
  with_c b (mkCBank (cfg_with_limits (cb_cfg (pb_c b)) 0 0 (bc_init_limit (cb_cfg (pb_c b)))) (cb_flags (pb_c b)) (cb_emode (pb_c b))).
Definition erase_emode (b : pbank) : pbank :=
  with_c b (mkCBank (cb_cfg (pb_c b)) (cb_flags (pb_c b)) es_zeroed).
Definition erase_flag_bits (b : pbank) (mask : Z) : pbank := with_flags b (Z.ldiff (pb_flags b) mask).
Definition erase_emissions_fields (b : pbank) : pbank :=
  mkPB (pb_c b) (pb_osetup b) (pb_fixed_price b) 0 0 0 (pb_rest b).
(* emissions rate, mint, remaining amount and the two emissions flags *)
Definition erase_emissions (b : pbank) : pbank := erase_emissions_fields (erase_flag_bits b EMISSION_FLAGS).
Definition erase_risk (b : pbank) : pbank := erase_flag_bits b TOKENLESS_REPAYMENTS_COMPLETE.

(* the world outside the bank, with the accounts an emissions instruction moves tokens between erased *)
Definition outside (w : pworld) : pmeta * Z * option Z * Z * Z * Z * Z :=
  (px_meta w, px_funding w, px_emvault w, px_vaults w, px_users w, px_group w, px_others w).
Definition outside_emissions (w : pworld) : pmeta * Z * Z * Z * Z :=
  (px_meta w, px_vaults w, px_users w, px_group w, px_others w).
Definition outside_metadata (w : pworld) : Z * option Z * Z * Z * Z * Z :=
  (px_funding w, px_emvault w, px_vaults w, px_users w, px_group w, px_others w).

(* the per-bank configuration instructions the freeze is about *)
Definition is_bank_config_ix (ix : pix) : bool :=
  match ix with
  | PConfigure _ | PInterestOnly _ | PLimitsOnly _ _ _ | POracle _ _ _ | PFixedPrice _ => true
  | _ => false
  end.
