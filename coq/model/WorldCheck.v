(* WorldCheck.v — an executable (boolean) version of the world well-formedness HOk2 that the C01 / C02 / C06 / C17
   theorems assume, so that the correspondence check can report how many of the generated initial worlds satisfy
   the hypotheses of the theorems (non-vacuity at scale).  Soundness (hok2b w = true -> HOk2 w) is proved in
   lemmas/WorldCheckLemmas.v. *)
Require Import Base Constants Fixed Curve Bank BankOps Risk TransferFee Handlers.

Definition caZ (k : Z) (bl : balance) : Z := if bl_active bl && (bl_bank bl =? k) then bl_a bl else 0.
Definition clZ (k : Z) (bl : balance) : Z := if bl_active bl && (bl_bank bl =? k) then bl_l bl else 0.
Definition lsumb (f : balance -> Z) (la : laccount) : Z := fold_right (fun x acc => f x + acc) 0 la.
Definition wsumb (f : balance -> Z) (accts : list laccount) : Z := fold_right (fun la acc => lsumb f la + acc) 0 accts.

Definition wf_balb (bl : balance) : bool := (0 <=? bl_a bl) && (0 <=? bl_l bl).
Definition pt_okb (p : rate_point) : bool :=
  (0 <=? rp_util p) && (rp_util p <=? U32_MAXZ) && (0 <=? rp_rate p) && (rp_rate p <=? U32_MAXZ).
Definition res_is_ok_tt (r : res unit) : bool := match r with Ok _ => true | Err _ => false end.
Definition valid_curveb (c : ir_config) : bool :=
  (0 <=? ir_zero c) && (ir_zero c <=? U32_MAXZ) && (0 <=? ir_hundred c) && (ir_hundred c <=? U32_MAXZ) &&
  forallb pt_okb (ir_points c) && res_is_ok_tt (validate_seven_point c) && (ir_curve_type c =? INTEREST_CURVE_SEVEN_POINT).

Definition hb_okb (hb : hbank) : bool :=
  let b := hb_b hb in
  (0 <? b_asv b) && (0 <? b_lsv b) && (0 <=? b_tas b) && (0 <=? b_tls b) && valid_curveb (b_ir b) &&
  (0 <=? hb_tf_bps hb) && (hb_tf_bps hb <=? 10000) && (0 <=? hb_tf_max hb) &&
  (I128_MIN <=? b_grp b) && (I128_MIN <=? b_prog b).

Fixpoint ledger_okb (banks : list hbank) (k : nat) (accts : list laccount) : bool :=
  match banks with
  | [] => true
  | hb :: r =>
      (wsumb (caZ (bank_pk k)) accts <=? b_tas (hb_b hb)) && (wsumb (clZ (bank_pk k)) accts <=? b_tls (hb_b hb)) &&
      ledger_okb r (S k) accts
  end.

Definition hok2b (w : hworld) : bool :=
  (0 <=? pf_rate (hw_pf w)) && (pf_rate (hw_pf w) <=? ONE) &&
  forallb hb_okb (hw_banks w) &&
  forallb (fun ac => forallb wf_balb (ha_la ac)) (hw_accts w) &&
  ledger_okb (hw_banks w) 0 (map ha_la (hw_accts w)).
