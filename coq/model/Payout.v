(* Payout.v — instruction-level model of everything that draws down a bank's FEE vault, INSURANCE vault and
   EMISSIONS vault outside bankruptcy cover, and of the two instructions that fix the destinations:
     instructions/marginfi_group/collect_bank_fees.rs   lending_pool_withdraw_fees, lending_pool_withdraw_fees_permissionless,
                                                         lending_pool_update_fees_destination_account,
                                                         lending_pool_withdraw_insurance
     instructions/marginfi_account/emissions.rs          lending_account_withdraw_emissions,
                                                         lending_account_withdraw_emissions_permissionless,
                                                         lending_account_settle_emissions,
                                                         marginfi_account_update_emissions_destination_account
     state/bank.rs                                       withdraw_spl_transfer (plain transfer out of a vault)
     state/marginfi_account.rs                           is_signer_authorized(.., false), account_not_frozen_for_authority,
                                                         settle_emissions_and_get_transfer_amount (Bank.v)
   One bank (mint MINT_BANK), its emissions mint MINT_EM, one marginfi account with one position in the bank, and a table
   of ordinary token accounts (key, mint, amount). Anchor constraints are written in the order Anchor checks them; the
   token program's refusals are the SPL codes (1 = InsufficientFunds, 3 = MintMismatch).
   Abstracted: protocol pause (C15), Token-2022 transfer fees on payouts (the destination then receives less than the vault
   pays; not exercised by this model), lamports, events. `ata` stands for get_associated_token_address_with_program_id for
   the emissions mint (an injective function of the wallet; the driver uses the same numbering).  Definitions only. *)
Require Import Base Constants TxConstants Fixed Curve Bank.

Definition MINT_BANK : Z := 1.
Definition MINT_EM : Z := 2.
Definition TOK_INSUFFICIENT : Z := 1.
Definition TOK_MINT_MISMATCH : Z := 3.

Record tokacct := mkTok { tk_key : Z; tk_mint : Z; tk_amt : Z }.

Record payw := mkPayW {
  y_admin : Z;            (* MarginfiGroup.admin *)
  y_auth : Z;             (* MarginfiAccount.authority *)
  y_aflags : Z;           (* MarginfiAccount.account_flags *)
  y_fee_dest : Z;         (* Bank.fees_destination_account (a token account key; 0 = Pubkey::default()) *)
  y_em_wallet : Z;        (* MarginfiAccount.emissions_destination_account (a WALLET key; 0 = default) *)
  y_fee_vault : Z;
  y_ins_vault : Z;
  y_em_vault : Z;
  y_toks : list tokacct;
  y_bank : bank;
  y_bal : balance;        (* the account's position in the bank *)
  y_now : Z;              (* Clock::unix_timestamp *)
  y_acct_last : Z         (* MarginfiAccount.last_update *)
}.

Definition ata (wallet : Z) : Z := 1000 + wallet.

Definition find_tok (ts : list tokacct) (k : Z) : option tokacct := find (fun t => tk_key t =? k) ts.
Definition credit (ts : list tokacct) (k amt : Z) : list tokacct :=
  map (fun t => if tk_key t =? k then mkTok (tk_key t) (tk_mint t) (tk_amt t + amt) else t) ts.

(* a token transfer of `amount` out of a vault of mint `mint` holding `vault` into the token account `dst` *)
Definition vault_pay (vault amount mint : Z) (ts : list tokacct) (dst : Z) : res (Z * list tokacct) :=
  match find_tok ts dst with
  | None => Err (E 3012)                                   (* Anchor AccountNotInitialized *)
  | Some t =>
      let* _ := check (amount <=? vault) (E TOK_INSUFFICIENT) in
      let* _ := check (tk_mint t =? mint) (E TOK_MINT_MISMATCH) in
      Ok (vault - amount, credit ts dst amount)
  end.

Definition aflag (w : payw) (f : Z) : bool := get_flag (y_aflags w) f.
(* account_not_frozen_for_authority / is_signer_authorized(.., allow_receivership = false) *)
Definition not_frozen_for (w : payw) (signer : Z) : bool := negb (aflag w ACCOUNT_FROZEN && (y_auth w =? signer)).
Definition authorized (w : payw) (signer : Z) : bool :=
  if aflag w ACCOUNT_FROZEN then y_admin w =? signer else y_auth w =? signer.

Definition set_fee_vault v w := mkPayW (y_admin w) (y_auth w) (y_aflags w) (y_fee_dest w) (y_em_wallet w) v (y_ins_vault w) (y_em_vault w) (y_toks w) (y_bank w) (y_bal w) (y_now w) (y_acct_last w).
Definition set_ins_vault v w := mkPayW (y_admin w) (y_auth w) (y_aflags w) (y_fee_dest w) (y_em_wallet w) (y_fee_vault w) v (y_em_vault w) (y_toks w) (y_bank w) (y_bal w) (y_now w) (y_acct_last w).
Definition set_em_vault v w := mkPayW (y_admin w) (y_auth w) (y_aflags w) (y_fee_dest w) (y_em_wallet w) (y_fee_vault w) (y_ins_vault w) v (y_toks w) (y_bank w) (y_bal w) (y_now w) (y_acct_last w).
Definition set_toks v w := mkPayW (y_admin w) (y_auth w) (y_aflags w) (y_fee_dest w) (y_em_wallet w) (y_fee_vault w) (y_ins_vault w) (y_em_vault w) v (y_bank w) (y_bal w) (y_now w) (y_acct_last w).
Definition set_fee_dest v w := mkPayW (y_admin w) (y_auth w) (y_aflags w) v (y_em_wallet w) (y_fee_vault w) (y_ins_vault w) (y_em_vault w) (y_toks w) (y_bank w) (y_bal w) (y_now w) (y_acct_last w).
Definition set_em_wallet v w := mkPayW (y_admin w) (y_auth w) (y_aflags w) (y_fee_dest w) v (y_fee_vault w) (y_ins_vault w) (y_em_vault w) (y_toks w) (y_bank w) (y_bal w) (y_now w) (y_acct_last w).
Definition set_bank_bal bk bl w := mkPayW (y_admin w) (y_auth w) (y_aflags w) (y_fee_dest w) (y_em_wallet w) (y_fee_vault w) (y_ins_vault w) (y_em_vault w) (y_toks w) bk bl (y_now w) (y_acct_last w).
Definition set_acct_last v w := mkPayW (y_admin w) (y_auth w) (y_aflags w) (y_fee_dest w) (y_em_wallet w) (y_fee_vault w) (y_ins_vault w) (y_em_vault w) (y_toks w) (y_bank w) (y_bal w) (y_now w) v.
Definition set_now v w := mkPayW (y_admin w) (y_auth w) (y_aflags w) (y_fee_dest w) (y_em_wallet w) (y_fee_vault w) (y_ins_vault w) (y_em_vault w) (y_toks w) (y_bank w) (y_bal w) v (y_acct_last w).
Definition set_aflags v w := mkPayW (y_admin w) (y_auth w) v (y_fee_dest w) (y_em_wallet w) (y_fee_vault w) (y_ins_vault w) (y_em_vault w) (y_toks w) (y_bank w) (y_bal w) (y_now w) (y_acct_last w).

(* lending_pool_withdraw_fees: group has_one admin; transfer fee_vault -> dst *)
Definition ix_withdraw_fees (w : payw) (signer dst amount : Z) : res payw :=
  let* _ := check (y_admin w =? signer) (E E_Unauthorized) in
  let* (v, ts) := vault_pay (y_fee_vault w) amount MINT_BANK (y_toks w) dst in
  Ok (set_toks ts (set_fee_vault v w)).

(* lending_pool_withdraw_insurance: the same out of the insurance vault *)
Definition ix_withdraw_insurance (w : payw) (signer dst amount : Z) : res payw :=
  let* _ := check (y_admin w =? signer) (E E_Unauthorized) in
  let* (v, ts) := vault_pay (y_ins_vault w) amount MINT_BANK (y_toks w) dst in
  Ok (set_toks ts (set_ins_vault v w)).

(* lending_pool_withdraw_fees_permissionless: no signer rule; bank has_one fees_destination_account; the destination's
   mint is the bank's; amount = min(amount, fee_vault.amount) *)
Definition ix_withdraw_fees_permissionless (w : payw) (dst amount : Z) : res payw :=
  match find_tok (y_toks w) dst with
  | None => Err (E 3012)
  | Some t =>
      let* _ := check (y_fee_dest w =? dst) (E E_InvalidFeesDestinationAccount) in
      let* _ := check (tk_mint t =? MINT_BANK) (E E_InvalidFeesDestinationAccount) in
      let amt := Z.min amount (y_fee_vault w) in
      let* (v, ts) := vault_pay (y_fee_vault w) amt MINT_BANK (y_toks w) dst in
      Ok (set_toks ts (set_fee_vault v w))
  end.

(* lending_pool_update_fees_destination_account: group has_one admin; destination_account.mint == bank.mint *)
Definition ix_update_fees_destination (w : payw) (signer dst : Z) : res payw :=
  match find_tok (y_toks w) dst with
  | None => Err (E 3012)
  | Some t =>
      let* _ := check (y_admin w =? signer) (E E_Unauthorized) in
      let* _ := check (tk_mint t =? MINT_BANK) (E E_InvalidFeesDestinationAccount) in
      Ok (set_fee_dest dst w)
  end.

(* the common tail of the two emission payouts: settle, stamp the account, transfer the whole tokens *)
Definition pay_emissions (w : payw) (dst : Z) : res payw :=
  let* r := settle_emissions (y_bank w) (y_bal w) (y_now w) in
  let '(bk, bl, n) := r in
  let w1 := set_bank_bal bk bl w in
  if 0 <? n then
    let* (v, ts) := vault_pay (y_em_vault w) n MINT_EM (y_toks w) dst in
    Ok (set_toks ts (set_em_vault v (set_acct_last (y_now w) w1)))
  else Ok w1.

(* lending_account_withdraw_emissions *)
Definition ix_withdraw_emissions (w : payw) (signer dst : Z) : res payw :=
  match find_tok (y_toks w) dst with
  | None => Err (E 3012)
  | Some _ =>
      let* _ := check (not_frozen_for w signer) (E E_AccountFrozen) in
      let* _ := check (authorized w signer) (E E_Unauthorized) in
      let* _ := check (negb (aflag w ACCOUNT_DISABLED)) (E E_AccountDisabled) in
      pay_emissions w dst
  end.

(* lending_account_withdraw_emissions_permissionless *)
Definition ix_withdraw_emissions_permissionless (w : payw) (dst : Z) : res payw :=
  match find_tok (y_toks w) dst with
  | None => Err (E 3012)
  | Some _ =>
      let* _ := check (negb (aflag w ACCOUNT_DISABLED)) (E E_AccountDisabled) in
      let* _ := check (negb (aflag w ACCOUNT_FROZEN)) (E E_AccountFrozen) in
      let* _ := check (negb (y_em_wallet w =? 0)) (E E_InvalidEmissionsDestinationAccount) in
      let* _ := check (ata (y_em_wallet w) =? dst) (E E_InvalidEmissionsDestinationAccount) in
      pay_emissions w dst
  end.

(* lending_account_settle_emissions (permissionless crank) *)
Definition ix_settle_emissions (w : payw) : res payw :=
  let* (bk, bl) := claim_emissions (y_bank w) (y_bal w) (y_now w) in
  Ok (set_acct_last (y_now w) (set_bank_bal bk bl w)).

(* marginfi_account_update_emissions_destination_account: has_one authority; not disabled; not frozen *)
Definition ix_update_emissions_destination (w : payw) (signer wallet : Z) : res payw :=
  let* _ := check (y_auth w =? signer) (E E_Unauthorized) in
  let* _ := check (negb (aflag w ACCOUNT_DISABLED)) (E E_AccountDisabled) in
  let* _ := check (negb (aflag w ACCOUNT_FROZEN)) (E E_AccountFrozen) in
  Ok (set_acct_last (y_now w) (set_em_wallet wallet w)).

Inductive pay_op :=
| YWithdrawFees (dst amount : Z)
| YWithdrawFeesPermissionless (dst amount : Z)
| YUpdateFeesDest (dst : Z)
| YWithdrawInsurance (dst amount : Z)
| YWithdrawEmissions (dst : Z)
| YWithdrawEmissionsPermissionless (dst : Z)
| YSettle
| YUpdateEmissionsDest (wallet : Z)
| YTick (dt : Z)                (* the clock advances; not an instruction *)
| YSetFlags (flags : Z).        (* stands for whatever sets / clears account flags (freeze by the admin, disabling by
                                   bankruptcy, …): the account flag word becomes `flags` *)

Definition pay_step (w : payw) (signer : Z) (op : pay_op) : res payw :=
  match op with
  | YWithdrawFees d a => ix_withdraw_fees w signer d a
  | YWithdrawFeesPermissionless d a => ix_withdraw_fees_permissionless w d a
  | YUpdateFeesDest d => ix_update_fees_destination w signer d
  | YWithdrawInsurance d a => ix_withdraw_insurance w signer d a
  | YWithdrawEmissions d => ix_withdraw_emissions w signer d
  | YWithdrawEmissionsPermissionless d => ix_withdraw_emissions_permissionless w d
  | YSettle => ix_settle_emissions w
  | YUpdateEmissionsDest wl => ix_update_emissions_destination w signer wl
  | YTick dt => Ok (set_now (y_now w + Z.max 0 dt) w)
  | YSetFlags f => Ok (set_aflags f w)
  end.

(* a failed instruction leaves the state as it was (transaction atomicity) *)
Definition pay_apply (w : payw) (so : Z * pay_op) : payw :=
  match pay_step w (fst so) (snd so) with Ok w' => w' | Err _ => w end.
Definition pay_run (w : payw) (ops : list (Z * pay_op)) : payw := fold_left pay_apply ops w.

Definition tok_total (mint : Z) (ts : list tokacct) : Z :=
  fold_right (fun t acc => (if tk_mint t =? mint then tk_amt t else 0) + acc) 0 ts.
Definition tok_amt (ts : list tokacct) (k : Z) : Z := match find_tok ts k with Some t => tk_amt t | None => 0 end.

(* ---------------------------------------------------------------- the fixture and the observation of the correspondence
   (used by the extracted driver AND by the in-Coq evaluation of sampled cases, so that both run the same definitions):
   a bank with asset share value 1 holding one deposit of `dep` native units made at t0, emissions set up at t0
   (lending side active, `rate`, `total` funded), fee / insurance vaults holding fee0 / ins0, seven empty token accounts *)
Definition PAY_TOK_IDS : list Z := [10; 11; 12; 20; 1000; 1001; 1002].
Definition pay_fixture (dep rate total fee0 ins0 t0 : Z) : payw :=
  mkPayW 1 2 0 0 0 fee0 ins0 total
    (map (fun i => mkTok i (if i <? 20 then MINT_BANK else MINT_EM) 0) PAY_TOK_IDS)
    (mkBank ONE ONE (dep * ONE) 0 0 0 0 t0 U64_MAX U64_MAX 0 6 2 rate (total * ONE) 1 0 1 (mkIR 0 0 0 0 0 0 0 0 0 [] 0))
    (mkBal true 1 0 (dep * ONE) 0 0 t0) t0 t0.
Definition pay_obs (w : payw) : list Z :=
  [y_fee_vault w; y_ins_vault w; y_em_vault w; y_fee_dest w; y_em_wallet w; y_acct_last w; bl_em (y_bal w);
   b_em_rem (y_bank w); bl_last (y_bal w)] ++ map (tok_amt (y_toks w)) PAY_TOK_IDS.
Definition err_code (e : err) : Z := match e with EPanic => -1 | ENone => -2 | E c => c end.
Fixpoint pay_trace (w : payw) (ops : list (Z * pay_op)) : list (Z * list Z) :=
  match ops with
  | [] => []
  | (s, o) :: r =>
      match pay_step w s o with
      | Ok w' => (0, pay_obs w') :: pay_trace w' r
      | Err e => (err_code e, pay_obs w) :: pay_trace w r
      end
  end.
