(* Handlers.v — model of the instruction handlers that move funds or positions
   (instructions/marginfi_account/{deposit,withdraw,borrow,repay,close_balance,liquidate}.rs,
   instructions/marginfi_group/{accrue_bank_interest,collect_bank_fees,handle_bankruptcy}.rs)
   over a world of banks (with their three vault balances), marginfi accounts and user token
   balances.  Token movement = arithmetic on balances with the Token-2022 transfer-fee function;
   the oracle of every bank is given as a `feed` (Risk.v).  Account-constraint failures
   (authorization, wrong group ...) are outside this file (AnchorSem / C08): here the signer is
   the account authority and all accounts belong to one group. *)
Require Import Base Constants Fixed Curve Bank BankOps Risk TransferFee.

Record hbank := mkHB {
  hb_b : bank;
  hb_c : rcfg;
  hb_feed : feed;
  hb_vault : Z; hb_insv : Z; hb_feev : Z; hb_feeata : Z;     (* token balances *)
  hb_t22 : bool; hb_tf_bps : Z; hb_tf_max : Z;                (* Token-2022 mint? transfer fee config *)
  hb_orig_fee : fx                                            (* protocol_origination_fee *)
}.
Definition set_hb_b (v : bank) (x : hbank) : hbank :=
  mkHB v (hb_c x) (hb_feed x) (hb_vault x) (hb_insv x) (hb_feev x) (hb_feeata x) (hb_t22 x) (hb_tf_bps x) (hb_tf_max x) (hb_orig_fee x).
Definition set_hb_vault (v : Z) (x : hbank) : hbank :=
  mkHB (hb_b x) (hb_c x) (hb_feed x) v (hb_insv x) (hb_feev x) (hb_feeata x) (hb_t22 x) (hb_tf_bps x) (hb_tf_max x) (hb_orig_fee x).
Definition set_hb_insv (v : Z) (x : hbank) : hbank :=
  mkHB (hb_b x) (hb_c x) (hb_feed x) (hb_vault x) v (hb_feev x) (hb_feeata x) (hb_t22 x) (hb_tf_bps x) (hb_tf_max x) (hb_orig_fee x).
Definition set_hb_feev (v : Z) (x : hbank) : hbank :=
  mkHB (hb_b x) (hb_c x) (hb_feed x) (hb_vault x) (hb_insv x) v (hb_feeata x) (hb_t22 x) (hb_tf_bps x) (hb_tf_max x) (hb_orig_fee x).
Definition set_hb_feeata (v : Z) (x : hbank) : hbank :=
  mkHB (hb_b x) (hb_c x) (hb_feed x) (hb_vault x) (hb_insv x) (hb_feev x) v (hb_t22 x) (hb_tf_bps x) (hb_tf_max x) (hb_orig_fee x).

Record hacct := mkHA { ha_la : laccount; ha_flags : Z }.

Record hworld := mkHW {
  hw_banks : list hbank; hw_accts : list hacct; hw_now : Z; hw_pf : prog_fees;
  hw_utok : list (list Z);             (* user token balance per account per bank *)
  hw_risk_admin_signs : bool           (* is the signer the group's risk admin (tokenless repay) *)
}.

Definition ACCOUNT_DISABLED : Z := 1.
Definition ACCOUNT_IN_FLASHLOAN : Z := 2.
Definition ACCOUNT_IN_RECEIVERSHIP : Z := 16.
Definition ACCOUNT_IN_DELEVERAGE : Z := 32.
Definition aflag (a : hacct) (f : Z) : bool := Z.land (ha_flags a) f =? f.

Inductive ikind := KUnrestricted | KFailsInReduce | KFailsInPaused | KFailsIfPausedOrReduce.

(* utils::validate_bank_state *)
Definition validate_bank_state (b : bank) (k : ikind) : res unit :=
  if b_op_state b =? OP_KILLED then Err (E E_BankKilledByBankruptcy) else
  match k with
  | KFailsInReduce => if b_op_state b =? OP_REDUCE_ONLY then Err (E E_BankReduceOnly) else Ok tt
  | KFailsInPaused => if b_op_state b =? OP_PAUSED then Err (E E_BankPaused) else Ok tt
  | KFailsIfPausedOrReduce =>
      if b_op_state b =? OP_PAUSED then Err (E E_BankPaused)
      else if b_op_state b =? OP_REDUCE_ONLY then Err (E E_BankReduceOnly) else Ok tt
  | KUnrestricted => Ok tt
  end.

Definition is_default_like (t : Z) : bool :=
  (t =? ASSET_TAG_DEFAULT) || (t =? ASSET_TAG_KAMINO) || (t =? ASSET_TAG_DRIFT) || (t =? ASSET_TAG_SOLEND).
Definition known_tag (t : Z) : bool := is_default_like t || (t =? ASSET_TAG_SOL) || (t =? ASSET_TAG_STAKED).

(* utils::validate_asset_tags *)
Definition validate_asset_tags (b : bank) (la : laccount) : res unit :=
  let act := filter bl_active la in
  let* _ := assert (forallb (fun bl => known_tag (bl_tag bl)) act) in
  let has_default := existsb (fun bl => is_default_like (bl_tag bl)) act in
  let has_staked := existsb (fun bl => bl_tag bl =? ASSET_TAG_STAKED) act in
  if is_default_like (b_asset_tag b) && has_staked then Err (E E_AssetTagMismatch)
  else if (b_asset_tag b =? ASSET_TAG_STAKED) && has_default then Err (E E_AssetTagMismatch)
  else Ok tt.

(* utils::validate_bank_asset_tags *)
Definition validate_bank_asset_tags (a b : bank) : res unit :=
  let ad := is_default_like (b_asset_tag a) in let as_ := b_asset_tag a =? ASSET_TAG_STAKED in
  let bd := is_default_like (b_asset_tag b) in let bs := b_asset_tag b =? ASSET_TAG_STAKED in
  if (ad && bs) || (as_ && bd) then Err (E E_AssetTagMismatch) else Ok tt.

Definition is_marginfi_tag (t : Z) : bool :=
  (t =? ASSET_TAG_DEFAULT) || (t =? ASSET_TAG_SOL) || (t =? ASSET_TAG_STAKED).

(* Bank::update_bank_cache: only its ability to fail and its write to last_update are modelled *)
Definition update_bank_cache (b : bank) (pf : prog_fees) (now : Z) : res bank :=
  let* ta := get_asset_amount b (b_tas b) in
  let* tl := get_liability_amount b (b_tls b) in
  if (ta =? 0) || (tl =? 0) then Ok b else
  let* ur := math (cdiv tl ta) in
  let* _ := math (calc_interest_rate (b_ir b) pf ur) in
  Ok (set_b_last_update now b).

(* token transfers *)
Definition tfee (hb : hbank) (amount : Z) : res Z :=
  if hb_t22 hb then
    match calculate_fee (hb_tf_bps hb) (hb_tf_max hb) amount with Ok f => Ok f | Err _ => Err EPanic end
  else Ok 0.
Definition pre_fee (hb : hbank) (post : Z) : res Z :=
  if hb_t22 hb then pre_fee_deposit_amount (hb_tf_bps hb) (hb_tf_max hb) post else Ok post.
Definition E_TOKEN_INSUFFICIENT : err := E 1.

Definition nth_bank (w : hworld) (b : nat) := nth_res b (hw_banks w).
Definition nth_acct (w : hworld) (a : nat) := nth_res a (hw_accts w).
Definition utok (w : hworld) (a b : nat) : res Z := let* r := nth_res a (hw_utok w) in nth_res b r.

Definition put_hbank (w : hworld) (b : nat) (hb : hbank) : hworld :=
  mkHW (set_nth b hb (hw_banks w)) (hw_accts w) (hw_now w) (hw_pf w) (hw_utok w) (hw_risk_admin_signs w).
Definition put_hacct (w : hworld) (a : nat) (ac : hacct) : hworld :=
  mkHW (hw_banks w) (set_nth a ac (hw_accts w)) (hw_now w) (hw_pf w) (hw_utok w) (hw_risk_admin_signs w).
Definition put_utok (w : hworld) (a b : nat) (v : Z) : hworld :=
  match nth_error (hw_utok w) a with
  | Some r => mkHW (hw_banks w) (hw_accts w) (hw_now w) (hw_pf w) (set_nth a (set_nth b v r) (hw_utok w)) (hw_risk_admin_signs w)
  | None => w end.

(* user -> liquidity vault *)
Definition xfer_in (w : hworld) (a b : nat) (amount : Z) : res hworld :=
  let* hb := nth_bank w b in
  let* u := utok w a b in
  let* _ := check (amount <=? u) E_TOKEN_INSUFFICIENT in
  let* f := tfee hb amount in
  Ok (put_utok (put_hbank w b (set_hb_vault (hb_vault hb + amount - f) hb)) a b (u - amount)).
(* liquidity vault -> user *)
Definition xfer_out (w : hworld) (a b : nat) (amount : Z) : res hworld :=
  let* hb := nth_bank w b in
  let* u := utok w a b in
  let* _ := check (amount <=? hb_vault hb) E_TOKEN_INSUFFICIENT in
  let* f := tfee hb amount in
  Ok (put_utok (put_hbank w b (set_hb_vault (hb_vault hb - amount) hb)) a b (u + amount - f)).

(* the risk engine's view of an account: active balances in slot order *)
Definition positions (w : hworld) (la : laccount) : res (list rpos) :=
  mapM (fun bl =>
          let* hb := nth_res (Z.to_nat (bl_bank bl - 1)) (hw_banks w) in
          Ok (mkPos bl (hb_b hb) (hb_c hb) (hb_feed hb)))
       (filter bl_active la).

Definition init_health_check (w : hworld) (ac : hacct) : res unit :=
  if aflag ac ACCOUNT_IN_FLASHLOAN then Ok tt else
  let* ps := positions w (ha_la ac) in check_init_health ps.

Definition t64 (w : hworld) : Z := wrap_u 64 (hw_now w).

Definition sort_acct (ac : hacct) : hacct := mkHA (sort_balances (ha_la ac)) (ha_flags ac).

(* ------------------------------------------------------------------------------------------ *)
(* lending_account_deposit *)
Definition h_deposit (w : hworld) (a b : nat) (amount : Z) (up_to_limit : bool) : res hworld :=
  let* hb := nth_bank w b in let* ac := nth_acct w a in
  let bk := hb_b hb in
  let* _ := check (is_marginfi_tag (b_asset_tag bk)) (E E_WrongAssetTagForStandardInstructions) in
  let* _ := check (negb (get_flag (b_flags bk) TOKENLESS_REPAYMENTS_ALLOWED)) (E E_BankReduceOnly) in
  let* _ := validate_asset_tags bk (ha_la ac) in
  let* _ := validate_bank_state bk KFailsIfPausedOrReduce in
  let* _ := check (negb (aflag ac ACCOUNT_DISABLED) && negb (aflag ac ACCOUNT_IN_RECEIVERSHIP)) (E E_AccountDisabled) in
  let* bk1 := accrue_interest bk (hw_pf w) (hw_now w) in
  let* dep := if up_to_limit then let* c := remaining_deposit_capacity bk1 in Ok (Z.min amount c) else Ok amount in
  if dep =? 0 then Ok (put_hbank w b (set_hb_b bk1 hb)) else
  let* (i, la1) := wrapper_find_or_create (bank_pk b) bk1 (ha_la ac) (hw_now w) in
  let* bl := nth_res i la1 in
  let* (bk2, bl2) := increase_balance bk1 bl (t64 w) (of_int dep) IncDepositOnly in
  let* pre := pre_fee hb dep in
  let w1 := put_hacct (put_hbank w b (set_hb_b bk2 hb)) a (mkHA (set_nth i bl2 la1) (ha_flags ac)) in
  let* w2 := xfer_in w1 a b pre in
  let* hb2 := nth_bank w2 b in
  let* bk3 := update_bank_cache (hb_b hb2) (hw_pf w) (hw_now w) in
  let* ac2 := nth_acct w2 a in
  Ok (put_hacct (put_hbank w2 b (set_hb_b bk3 hb2)) a (sort_acct ac2)).

(* lending_account_withdraw (outside receivership / deleverage) *)
Definition h_withdraw (w : hworld) (a b : nat) (amount : Z) (all : bool) : res hworld :=
  let* hb := nth_bank w b in let* ac := nth_acct w a in
  let bk := hb_b hb in
  let* _ := check (is_marginfi_tag (b_asset_tag bk)) (E E_WrongAssetTagForStandardInstructions) in
  let* _ := check (negb (aflag ac ACCOUNT_DISABLED)) (E E_AccountDisabled) in
  let* _ := validate_bank_state bk KFailsInPaused in
  let* bk1 := accrue_interest bk (hw_pf w) (hw_now w) in
  let* i := wrapper_find (bank_pk b) (ha_la ac) in
  let* bl := nth_res i (ha_la ac) in
  let* (bk2, bl2, pre) :=
    if all then withdraw_all bk1 bl (t64 w)
    else let* pre := pre_fee hb amount in
         let* (bk2, bl2) := decrease_balance bk1 bl (t64 w) (of_int pre) DecWithdrawOnly in Ok (bk2, bl2, pre) in
  let pre := if get_flag (b_flags bk2) TOKENLESS_REPAYMENTS_COMPLETE then Z.min pre (hb_vault hb) else pre in
  let w1 := put_hacct (put_hbank w b (set_hb_b bk2 hb)) a (mkHA (set_nth i bl2 (ha_la ac)) (ha_flags ac)) in
  let* w2 := xfer_out w1 a b pre in
  let* hb2 := nth_bank w2 b in
  let* bk3 := update_bank_cache (hb_b hb2) (hw_pf w) (hw_now w) in
  let* ac2 := nth_acct w2 a in
  let ac3 := sort_acct ac2 in
  let w3 := put_hacct (put_hbank w2 b (set_hb_b bk3 hb2)) a ac3 in
  let* _ := init_health_check w3 ac3 in
  Ok w3.

(* lending_account_borrow *)
Definition h_borrow (w : hworld) (a b : nat) (amount : Z) : res hworld :=
  let* hb := nth_bank w b in let* ac := nth_acct w a in
  let bk := hb_b hb in
  let* _ := check (is_marginfi_tag (b_asset_tag bk)) (E E_WrongAssetTagForStandardInstructions) in
  let* _ := check (negb (get_flag (b_flags bk) TOKENLESS_REPAYMENTS_ALLOWED)) (E E_ForbiddenIx) in
  let* _ := check (negb (aflag ac ACCOUNT_DISABLED) && negb (aflag ac ACCOUNT_IN_RECEIVERSHIP)) (E E_AccountDisabled) in
  let* bk1 := accrue_interest bk (hw_pf w) (hw_now w) in
  let* _ := validate_asset_tags bk1 (ha_la ac) in
  let* _ := validate_bank_state bk1 KFailsIfPausedOrReduce in
  let* (i, la1) := wrapper_find_or_create (bank_pk b) bk1 (ha_la ac) (hw_now w) in
  let* bl := nth_res i la1 in
  let* pre := pre_fee hb amount in
  let* (delta, ofee) :=
    if hb_orig_fee hb =? 0 then Ok (of_int pre, 0)
    else let* f := math (cmul (of_int pre) (hb_orig_fee hb)) in
         let* _ := math (to_u64_checked f) in
         let* d := uadd (of_int pre) f in Ok (d, f) in
  let* (bk2, bl2) := decrease_balance bk1 bl (t64 w) delta DecBorrowOnly in
  let w1 := put_hacct (put_hbank w b (set_hb_b bk2 hb)) a (mkHA (set_nth i bl2 la1) (ha_flags ac)) in
  let* w2 := xfer_out w1 a b pre in
  let* hb2 := nth_bank w2 b in
  let bk3 := hb_b hb2 in
  let* bk4 :=
    if ofee =? 0 then Ok bk3 else
    if pf_rate (hw_pf w) =? 0 then Ok (set_b_grp (clamp I128_MIN I128_MAX (b_grp bk3 + ofee)) bk3)
    else
      let* pfa := math (cmul ofee (pf_rate (hw_pf w))) in
      let rest := clamp I128_MIN I128_MAX (ofee - pfa) in
      Ok (set_b_prog (clamp I128_MIN I128_MAX (b_prog bk3 + pfa))
                     (set_b_grp (clamp I128_MIN I128_MAX (b_grp bk3 + rest)) bk3)) in
  let* ac2 := nth_acct w2 a in
  let ac3 := sort_acct ac2 in
  let w3 := put_hacct (put_hbank w2 b (set_hb_b bk4 hb2)) a ac3 in
  let* _ := init_health_check w3 ac3 in
  let* hb3 := nth_bank w3 b in
  let* bk5 := update_bank_cache (hb_b hb3) (hw_pf w) (hw_now w) in
  Ok (put_hbank w3 b (set_hb_b bk5 hb3)).

(* ------------------------------------------------------------------------------------------ *)
(* The same two instructions called WITHOUT their risk (bank / oracle) remaining accounts: everything up to the health
   check is identical; RiskEngine::new cannot load the first active balance and answers InvalidBankAccount, unless the
   account is inside a flash loan (check skipped) or has no active balance left (nothing to load). *)
Definition init_health_check_norem (ac : hacct) : res unit :=
  if aflag ac ACCOUNT_IN_FLASHLOAN then Ok tt else
  if existsb bl_active (ha_la ac) then Err (E E_InvalidBankAccount) else Ok tt.

Definition h_borrow_norem (w : hworld) (a b : nat) (amount : Z) : res hworld :=
  let* hb := nth_bank w b in let* ac := nth_acct w a in
  let bk := hb_b hb in
  let* _ := check (is_marginfi_tag (b_asset_tag bk)) (E E_WrongAssetTagForStandardInstructions) in
  let* _ := check (negb (get_flag (b_flags bk) TOKENLESS_REPAYMENTS_ALLOWED)) (E E_ForbiddenIx) in
  let* _ := check (negb (aflag ac ACCOUNT_DISABLED) && negb (aflag ac ACCOUNT_IN_RECEIVERSHIP)) (E E_AccountDisabled) in
  let* bk1 := accrue_interest bk (hw_pf w) (hw_now w) in
  let* _ := validate_asset_tags bk1 (ha_la ac) in
  let* _ := validate_bank_state bk1 KFailsIfPausedOrReduce in
  let* (i, la1) := wrapper_find_or_create (bank_pk b) bk1 (ha_la ac) (hw_now w) in
  let* bl := nth_res i la1 in
  let* pre := pre_fee hb amount in
  let* (delta, ofee) :=
    if hb_orig_fee hb =? 0 then Ok (of_int pre, 0)
    else let* f := math (cmul (of_int pre) (hb_orig_fee hb)) in
         let* _ := math (to_u64_checked f) in
         let* d := uadd (of_int pre) f in Ok (d, f) in
  let* (bk2, bl2) := decrease_balance bk1 bl (t64 w) delta DecBorrowOnly in
  let w1 := put_hacct (put_hbank w b (set_hb_b bk2 hb)) a (mkHA (set_nth i bl2 la1) (ha_flags ac)) in
  let* w2 := xfer_out w1 a b pre in
  let* hb2 := nth_bank w2 b in
  let bk3 := hb_b hb2 in
  let* bk4 :=
    if ofee =? 0 then Ok bk3 else
    if pf_rate (hw_pf w) =? 0 then Ok (set_b_grp (clamp I128_MIN I128_MAX (b_grp bk3 + ofee)) bk3)
    else
      let* pfa := math (cmul ofee (pf_rate (hw_pf w))) in
      let rest := clamp I128_MIN I128_MAX (ofee - pfa) in
      Ok (set_b_prog (clamp I128_MIN I128_MAX (b_prog bk3 + pfa))
                     (set_b_grp (clamp I128_MIN I128_MAX (b_grp bk3 + rest)) bk3)) in
  let* ac2 := nth_acct w2 a in
  let ac3 := sort_acct ac2 in
  let w3 := put_hacct (put_hbank w2 b (set_hb_b bk4 hb2)) a ac3 in
  let* _ := init_health_check_norem ac3 in
  let* hb3 := nth_bank w3 b in
  let* bk5 := update_bank_cache (hb_b hb3) (hw_pf w) (hw_now w) in
  Ok (put_hbank w3 b (set_hb_b bk5 hb3)).

Definition h_withdraw_norem (w : hworld) (a b : nat) (amount : Z) (all : bool) : res hworld :=
  let* hb := nth_bank w b in let* ac := nth_acct w a in
  let bk := hb_b hb in
  let* _ := check (is_marginfi_tag (b_asset_tag bk)) (E E_WrongAssetTagForStandardInstructions) in
  let* _ := check (negb (aflag ac ACCOUNT_DISABLED)) (E E_AccountDisabled) in
  let* _ := validate_bank_state bk KFailsInPaused in
  let* bk1 := accrue_interest bk (hw_pf w) (hw_now w) in
  let* i := wrapper_find (bank_pk b) (ha_la ac) in
  let* bl := nth_res i (ha_la ac) in
  let* (bk2, bl2, pre) :=
    if all then withdraw_all bk1 bl (t64 w)
    else let* pre := pre_fee hb amount in
         let* (bk2, bl2) := decrease_balance bk1 bl (t64 w) (of_int pre) DecWithdrawOnly in Ok (bk2, bl2, pre) in
  let pre := if get_flag (b_flags bk2) TOKENLESS_REPAYMENTS_COMPLETE then Z.min pre (hb_vault hb) else pre in
  let w1 := put_hacct (put_hbank w b (set_hb_b bk2 hb)) a (mkHA (set_nth i bl2 (ha_la ac)) (ha_flags ac)) in
  let* w2 := xfer_out w1 a b pre in
  let* hb2 := nth_bank w2 b in
  let* bk3 := update_bank_cache (hb_b hb2) (hw_pf w) (hw_now w) in
  let* ac2 := nth_acct w2 a in
  let ac3 := sort_acct ac2 in
  let w3 := put_hacct (put_hbank w2 b (set_hb_b bk3 hb2)) a ac3 in
  let* _ := init_health_check_norem ac3 in
  Ok w3.

(* lending_pool_close_bank as a yes / no question (the instruction itself deletes the bank account): the four guards *)
Definition h_close_bank_probe (w : hworld) (b : nat) : res unit :=
  let* hb := nth_bank w b in
  let bk := hb_b hb in
  let* _ := check (get_flag (b_flags bk) CLOSE_ENABLED_FLAG) (E E_BankCannotClose) in
  let* _ := check ((b_lend_cnt bk =? 0) && (b_bor_cnt bk =? 0)) (E E_BankCannotClose) in
  let* _ := check (is_zero_tol (b_tas bk) && is_zero_tol (b_tls bk)) (E E_BankCannotClose) in
  check (is_zero_tol (b_em_rem bk)) (E E_BankCannotClose).

(* lending_account_repay *)
Definition h_repay (w : hworld) (a b : nat) (amount : Z) (all : bool) : res hworld :=
  let* hb := nth_bank w b in let* ac := nth_acct w a in
  let bk := hb_b hb in
  let* _ := check (is_marginfi_tag (b_asset_tag bk)) (E E_WrongAssetTagForStandardInstructions) in
  let* _ := check (negb (aflag ac ACCOUNT_DISABLED)) (E E_AccountDisabled) in
  let* _ := validate_bank_state bk KFailsInPaused in
  let* bk1 := accrue_interest bk (hw_pf w) (hw_now w) in
  let* i := wrapper_find (bank_pk b) (ha_la ac) in
  let* bl := nth_res i (ha_la ac) in
  let* (bk2, bl2, post) :=
    if all then repay_all bk1 bl (t64 w)
    else let* (bk2, bl2) := increase_balance bk1 bl (t64 w) (of_int amount) IncRepayOnly in Ok (bk2, bl2, amount) in
  let w1 := put_hacct (put_hbank w b (set_hb_b bk2 hb)) a (mkHA (set_nth i bl2 (ha_la ac)) (ha_flags ac)) in
  let* w2 :=
    if hw_risk_admin_signs w && get_flag (b_flags bk2) TOKENLESS_REPAYMENTS_ALLOWED && all then Ok w1
    else let* pre := pre_fee hb post in xfer_in w1 a b pre in
  let* hb2 := nth_bank w2 b in
  let bk3 := hb_b hb2 in
  let bk4 := if get_flag (b_flags bk3) TOKENLESS_REPAYMENTS_ALLOWED
                && (fabs_w (b_tls bk3) <? wmul ZERO_AMOUNT_THRESHOLD (of_int 10))
             then set_b_flags (Z.lor (b_flags bk3) TOKENLESS_REPAYMENTS_COMPLETE) bk3 else bk3 in
  let* bk5 := update_bank_cache bk4 (hw_pf w) (hw_now w) in
  let* ac2 := nth_acct w2 a in
  Ok (put_hacct (put_hbank w2 b (set_hb_b bk5 hb2)) a (sort_acct ac2)).

(* lending_account_close_balance *)
Definition h_close_balance (w : hworld) (a b : nat) : res hworld :=
  let* hb := nth_bank w b in let* ac := nth_acct w a in
  let bk := hb_b hb in
  let* _ := check (is_marginfi_tag (b_asset_tag bk)) (E E_WrongAssetTagForStandardInstructions) in
  let* _ := check (negb (aflag ac ACCOUNT_DISABLED)) (E E_AccountDisabled) in
  let* bk1 := accrue_interest bk (hw_pf w) (hw_now w) in
  let* bk2 := update_bank_cache bk1 (hw_pf w) (hw_now w) in
  let* i := wrapper_find (bank_pk b) (ha_la ac) in
  let* bl := nth_res i (ha_la ac) in
  let* (bk3, bl3) := close_balance bk2 bl (t64 w) in
  Ok (put_hacct (put_hbank w b (set_hb_b bk3 hb)) a (sort_acct (mkHA (set_nth i bl3 (ha_la ac)) (ha_flags ac)))).

(* lending_pool_accrue_bank_interest *)
Definition h_accrue (w : hworld) (b : nat) : res hworld :=
  let* hb := nth_bank w b in
  let* bk1 := accrue_interest (hb_b hb) (hw_pf w) (hw_now w) in
  let* bk2 := update_bank_cache bk1 (hw_pf w) (hw_now w) in
  Ok (put_hbank w b (set_hb_b bk2 hb)).

(* lending_pool_collect_bank_fees *)
Definition h_collect_fees (w : hworld) (b : nat) : res hworld :=
  let* hb := nth_bank w b in
  let bk := hb_b hb in
  let avail0 := of_int (hb_vault hb) in
  let ins_t := fint (fmin (b_ins bk) avail0) in
  let* ins_new := math (csub (b_ins bk) ins_t) in
  let* avail1 := math (csub avail0 ins_t) in
  let grp_t := fint (fmin (b_grp bk) avail1) in
  let* grp_new := math (csub (b_grp bk) grp_t) in
  let* avail2 := math (csub avail1 grp_t) in
  let* _ := assert (0 <=? avail2) in
  let* grp_n := math (to_u64_checked grp_t) in
  let* ins_n := math (to_u64_checked ins_t) in
  let prog_t := fint (fmin (b_prog bk) avail2) in
  let* prog_new := math (csub (b_prog bk) prog_t) in
  let* avail3 := math (csub avail2 prog_t) in
  let* _ := assert (0 <=? avail3) in
  let* prog_n := math (to_u64_checked prog_t) in
  (* three transfers out of the liquidity vault: fee vault, insurance vault, fee ATA *)
  let* _ := check (grp_n <=? hb_vault hb) E_TOKEN_INSUFFICIENT in
  let* f1 := tfee hb grp_n in
  let v1 := hb_vault hb - grp_n in
  let* _ := check (ins_n <=? v1) E_TOKEN_INSUFFICIENT in
  let* f2 := tfee hb ins_n in
  let v2 := v1 - ins_n in
  let* _ := check (prog_n <=? v2) E_TOKEN_INSUFFICIENT in
  let* f3 := tfee hb prog_n in
  let v3 := v2 - prog_n in
  let bk' := set_b_prog prog_new (set_b_grp grp_new (set_b_ins ins_new bk)) in
  Ok (put_hbank w b (set_hb_feeata (hb_feeata hb + prog_n - f3)
                    (set_hb_insv (hb_insv hb + ins_n - f2)
                    (set_hb_feev (hb_feev hb + grp_n - f1)
                    (set_hb_vault v3 (set_hb_b bk' hb)))))).

(* lending_pool_collect_bank_fees called with a fee ATA that is not the canonical token account of the global fee
   wallet for the bank's mint: always refused, whatever the fee parameters and the buckets *)
Definition h_collect_fees_foreign_ata (w : hworld) (b : nat) : res hworld :=
  let* _ := nth_bank w b in Err (E E_InvalidFeeAta).

(* lending_pool_handle_bankruptcy (signer entitled: admin / risk admin / permissionless flag) *)
Definition h_bankruptcy (w : hworld) (a b : nat) : res hworld :=
  let* hb := nth_bank w b in let* ac := nth_acct w a in
  let bk := hb_b hb in
  let* _ := validate_bank_state bk KFailsInPaused in
  let* _ := check (negb (aflag ac ACCOUNT_IN_FLASHLOAN)) (E E_AccountInFlashloan) in
  let* ps := positions w (ha_la ac) in
  let* _ := check_bankrupt ps false in
  let* bk1 := accrue_interest bk (hw_pf w) (hw_now w) in
  let* i := match find_active (bank_pk b) (ha_la ac) with
            | Some i => Ok i | None => Err (E E_LendingAccountBalanceNotFound) end in
  let* bl := nth_res i (ha_la ac) in
  let* bad := get_liability_amount bk1 (bl_l bl) in
  let* _ := check (ZERO_AMOUNT_THRESHOLD <? bad) (E E_BalanceNotBadDebt) in
  let* avail_n :=
    if hb_t22 hb then
      let* f := tfee hb (hb_insv hb) in math (chko in_u64 (hb_insv hb - f))
    else Ok (hb_insv hb) in
  let avail := of_int avail_n in
  let covered := fmin bad avail in
  let* d := usub bad covered in
  let loss := fmax d 0 in
  let* ce := math (cceil covered) in
  let* cov_n := math (to_u64_checked ce) in
  let* pre := pre_fee hb cov_n in
  (* insurance vault -> liquidity vault *)
  let* _ := check (pre <=? hb_insv hb) E_TOKEN_INSUFFICIENT in
  let* f := tfee hb pre in
  let hb1 := set_hb_vault (hb_vault hb + pre - f) (set_hb_insv (hb_insv hb - pre) hb) in
  let* (bk2, kill) := socialize_loss bk1 loss in
  let* i2 := wrapper_find (bank_pk b) (ha_la ac) in
  let* (bk3, bl3) := increase_balance bk2 bl (t64 w) bad IncRepayOnly in
  let* bk4 := update_bank_cache bk3 (hw_pf w) (hw_now w) in
  let bk5 := if kill then set_b_op_state OP_KILLED bk4 else bk4 in
  Ok (put_hacct (put_hbank w b (set_hb_b bk5 hb1)) a
        (mkHA (set_nth i bl3 (ha_la ac)) (Z.lor (ha_flags ac) ACCOUNT_DISABLED))).

(* ProgramError::AccountBorrowFailed (not a custom code): printed by the driver as PE:AccountBorrowFailed *)
Definition E_ACCOUNT_BORROW_FAILED : err := E (-3).

(* lending_account_liquidate (classic liquidation) *)
(* `load` = how the risk engine obtains the liquidatee's positions (Handlers.positions with the risk accounts the caller
   passed; positions_norem when the caller passed none) *)
Definition h_liquidate_gen (load : hworld -> laccount -> res (list rpos)) (w : hworld) (liqor liqee ab lb : nat) (amount : Z) : res hworld :=
  let* ha := nth_bank w ab in let* hl := nth_bank w lb in
  (* account constraint on the liability bank: evaluated by Anchor before the handler body *)
  let* _ := check (is_marginfi_tag (b_asset_tag (hb_b hl))) (E E_WrongAssetTagForStandardInstructions) in
  let* _ := check (0 <? amount) (E E_ZeroLiquidationAmount) in
  let* _ := check (negb (Nat.eqb ab lb)) (E E_SameAssetAndLiabilityBanks) in
  let* ee := nth_acct w liqee in let* er := nth_acct w liqor in
  let* _ := check (negb (aflag er ACCOUNT_IN_RECEIVERSHIP) && negb (aflag ee ACCOUNT_IN_RECEIVERSHIP)) (E E_ForbiddenIx) in
  let* _ := validate_bank_asset_tags (hb_b ha) (hb_b hl) in
  let* _ := validate_bank_state (hb_b ha) KFailsInPaused in
  let* _ := validate_bank_state (hb_b hl) KFailsInPaused in
  let* _ := validate_asset_tags (hb_b hl) (ha_la ee) in
  let* _ := validate_asset_tags (hb_b hl) (ha_la er) in
  let* _ := validate_asset_tags (hb_b ha) (ha_la er) in
  (* both marginfi accounts are then loaded mutably: the same account twice fails with AccountBorrowFailed *)
  let* _ := check (negb (Nat.eqb liqor liqee)) E_ACCOUNT_BORROW_FAILED in
  let* ba1 := accrue_interest (hb_b ha) (hw_pf w) (hw_now w) in
  let* bl1 := accrue_interest (hb_b hl) (hw_pf w) (hw_now w) in
  let w := put_hbank (put_hbank w ab (set_hb_b ba1 ha)) lb (set_hb_b bl1 hl) in
  let ee1 := sort_acct ee in
  let w := put_hacct w liqee ee1 in
  let* _ := check (negb (aflag ee1 ACCOUNT_IN_FLASHLOAN)) (E E_AccountInFlashloan) in
  let* ps := load w (ha_la ee1) in
  let* (pre_health, _, _) := pre_liquidation ps (Some (bank_pk lb)) false in
  let* _ := fd_load (hb_feed ha) in
  let* ap := fd_low_rt (hb_feed ha) in
  let* _ := check (0 <? ap) (E E_ZeroAssetPrice) in
  let* _ := fd_load (hb_feed hl) in
  let* lp := fd_high_rt (hb_feed hl) in
  let* _ := check (0 <? lp) (E E_ZeroLiabilityPrice) in
  let* fsum := uadd LIQUIDATION_INSURANCE_FEE LIQUIDATION_LIQUIDATOR_FEE in
  let* final_d := usub ONE fsum in
  let* liq_d := usub ONE LIQUIDATION_LIQUIDATOR_FEE in
  let am := of_int amount in
  let adec := balance_decimals ba1 in let ldec := balance_decimals bl1 in
  let* v1 := calc_value am ap adec (Some liq_d) in
  let* q_liq := calc_amount v1 lp ldec in
  let* v2 := calc_value am ap adec (Some final_d) in
  let* q_fin := calc_amount v2 lp ldec in
  let* ins_fee := usub q_liq q_fin in
  let* _ := assert (0 <=? ins_fee) in
  (* 1. liquidator pays the liability: its balance in the liability bank decreases by q_liq *)
  let* er0 := nth_acct w liqor in
  let* (i1, la1) := wrapper_find_or_create (bank_pk lb) bl1 (ha_la er0) (hw_now w) in
  let* b1 := nth_res i1 la1 in
  let* (bl2, b1') := decrease_balance bl1 b1 (t64 w) q_liq DecBypassBorrowLimit in
  let er1 := mkHA (set_nth i1 b1' la1) (ha_flags er0) in
  (* 2. liquidatee gives up the asset *)
  let* i2 := wrapper_find (bank_pk ab) (ha_la ee1) in
  let* b2 := nth_res i2 (ha_la ee1) in
  let* pre_bal := get_asset_amount ba1 (bl_a b2) in
  let* _ := check (am <=? pre_bal) (E E_OverliquidationAttempt) in
  let* (ba2, b2') := decrease_balance ba1 b2 (t64 w) am DecBypassBorrowLimit in
  let ee2 := mkHA (set_nth i2 b2' (ha_la ee1)) (ha_flags ee1) in
  (* 3. liquidator receives the asset *)
  let* (i3, la3) := wrapper_find_or_create (bank_pk ab) ba2 (ha_la er1) (hw_now w) in
  let* b3 := nth_res i3 la3 in
  let* (ba3, b3') := increase_balance ba2 b3 (t64 w) am IncBypassDepositLimit in
  let er2 := mkHA (set_nth i3 b3' la3) (ha_flags er1) in
  let* ins_n := match to_u64_checked ins_fee with Ok n => Ok n | Err _ => Err (E E_MathError) end in
  let dust := ffrac ins_fee in
  (* 4. liquidatee's debt is repaid by q_fin; insurance fee moves vault -> insurance vault *)
  let* i4 := wrapper_find (bank_pk lb) (ha_la ee2) in
  let* b4 := nth_res i4 (ha_la ee2) in
  let* (bl3, b4') := increase_balance bl2 b4 (t64 w) q_fin IncRepayOnly in
  let ee3 := mkHA (set_nth i4 b4' (ha_la ee2)) (ha_flags ee2) in
  let* hl0 := nth_bank w lb in
  let* _ := check (ins_n <=? hb_vault hl0) E_TOKEN_INSUFFICIENT in
  let* f := tfee hl0 ins_n in
  let* ins' := match cadd (b_ins bl3) dust with Ok v => Ok v | Err _ => Err (E E_MathError) end in
  let bl4 := set_b_ins ins' bl3 in
  let* ba4 := update_bank_cache ba3 (hw_pf w) (hw_now w) in
  let* bl5 := update_bank_cache bl4 (hw_pf w) (hw_now w) in
  let* ha0 := nth_bank w ab in
  let w := put_hbank w ab (set_hb_b ba4 ha0) in
  let w := put_hbank w lb (set_hb_insv (hb_insv hl0 + ins_n - f) (set_hb_vault (hb_vault hl0 - ins_n) (set_hb_b bl5 hl0))) in
  let w := put_hacct (put_hacct w liqee ee3) liqor er2 in
  (* post checks *)
  let* _ := check (negb (aflag ee3 ACCOUNT_IN_FLASHLOAN)) (E E_AccountInFlashloan) in
  let* ps2 := load w (ha_la ee3) in
  let* _ := post_liquidation ps2 (bank_pk lb) pre_health in
  let er3 := sort_acct er2 in
  let w := put_hacct w liqor er3 in
  let* _ := init_health_check w er3 in
  Ok w.

Definition h_liquidate (w : hworld) (liqor liqee ab lb : nat) (amount : Z) : res hworld :=
  h_liquidate_gen positions w liqor liqee ab lb amount.

(* the liquidation instruction sent WITHOUT the risk (bank / oracle) accounts of either party: the engine cannot load the
   liquidatee's first active balance *)
Definition positions_norem (w : hworld) (la : laccount) : res (list rpos) :=
  if existsb bl_active la then Err (E E_InvalidBankAccount) else Ok [].
Definition h_liquidate_norem (w : hworld) (liqor liqee ab lb : nat) (amount : Z) : res hworld :=
  h_liquidate_gen positions_norem w liqor liqee ab lb amount.

(* ---------------------------------------------------------------------------------------------
   operations of the level-C suite `hops` *)
Inductive hop :=
| HClock (t : Z)
| HDeposit (a b : nat) (amount : Z) (up_to : bool)
| HWithdraw (a b : nat) (amount : Z) (all : bool)
| HBorrow (a b : nat) (amount : Z)
| HRepay (a b : nat) (amount : Z) (all : bool)
| HCloseBalance (a b : nat)
| HAccrue (b : nat)
| HCollectFees (b : nat)
| HLiquidate (liqor liqee ab lb : nat) (amount : Z)
| HBankruptcy (a b : nat)
| HSetPrice (b : nat) (p : fx).

Definition fixed_feed (p : fx) : feed := mkFeed (Ok tt) (Ok p) (Ok p) (Ok p) (Ok p) (Ok p).

Definition hstep (w : hworld) (o : hop) : res hworld :=
  match o with
  | HClock t => Ok (mkHW (hw_banks w) (hw_accts w) t (hw_pf w) (hw_utok w) (hw_risk_admin_signs w))
  | HDeposit a b n u => h_deposit w a b n u
  | HWithdraw a b n all => h_withdraw w a b n all
  | HBorrow a b n => h_borrow w a b n
  | HRepay a b n all => h_repay w a b n all
  | HCloseBalance a b => h_close_balance w a b
  | HAccrue b => h_accrue w b
  | HCollectFees b => h_collect_fees w b
  | HLiquidate r e ab lb n => h_liquidate w r e ab lb n
  | HBankruptcy a b => h_bankruptcy w a b
  | HSetPrice b p =>
      let* hb := nth_bank w b in
      Ok (put_hbank w b (mkHB (hb_b hb) (hb_c hb) (fixed_feed p) (hb_vault hb) (hb_insv hb) (hb_feev hb) (hb_feeata hb)
                              (hb_t22 hb) (hb_tf_bps hb) (hb_tf_max hb) (hb_orig_fee hb)))
  end.

Definition hstep_total (w : hworld) (o : hop) : hworld :=
  match hstep w o with Ok w' => w' | Err _ => w end.
Definition hrun (w : hworld) (ops : list hop) : hworld := fold_left hstep_total ops w.
