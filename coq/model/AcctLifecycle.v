(* AcctLifecycle.v — model of the two instructions that end a marginfi account's life:
     instructions/marginfi_account/close.rs            marginfi_account_close  (close_account)
     instructions/marginfi_account/transfer_account.rs transfer_to_new_account
     state/marginfi_account.rs                         can_be_closed, get_flag / set_flag, initialize,
                                                       is_signer_authorized, account_not_frozen_for_authority
     type-crate/src/types/user_account.rs              Balance::get_side (contains an assert!), LendingAccount::zeroed
   including the Anchor account constraints of the two `Accounts` structs in the order Anchor runs
   them (non-init fields are deserialised first, then `init` fields are created, then the
   constraints of the non-init fields are checked in declaration order, then the handler body).
   Accounts live in numbered slots; `None` = no marginfi account at that address (never created,
   or closed). The key of slot n is n+1 (0 is Pubkey::default()).
   Abstracted: lamports (payer is funded), the health cache, PDA variant (transfer_to_new_account_pda
   has the same body plus seeds / third-party id), events. `lw_paused` is the value of
   MarginfiGroup::is_protocol_paused (C15). Definitions only. *)
Require Import Base Constants TxConstants Fixed Curve Bank.

Record macct := mkMA {
  ma_la : laccount;            (* lending_account.balances, 16 slots *)
  ma_flags : Z;                (* account_flags : u64 *)
  ma_authority : Z;
  ma_group : Z;
  ma_migrated_to : Z;          (* 0 = Pubkey::default() *)
  ma_migrated_from : Z;
  ma_emissions_dest : Z;
  ma_last_update : Z
}.

Record lworld := mkLW {
  lw_accts : list (option macct);
  lw_group : Z;                (* key of the group passed to the instruction *)
  lw_admin : Z;                (* group.admin *)
  lw_paused : bool;            (* group.is_protocol_paused() *)
  lw_fee_wallet : Z;           (* group.fee_state_cache.global_fee_wallet *)
  lw_now : Z
}.

(* MarginfiAccountImpl::get_flag : account_flags & flag != 0 *)
Definition mflag (ac : macct) (f : Z) : bool := negb (Z.land (ma_flags ac) f =? 0).

Definition acct_key (n : nat) : Z := Z.of_nat n + 1.

(* balances.iter().all(|b| b.get_side().is_none()) : stops at the first non-empty slot; get_side
   aborts when both sides hold at least EMPTY_BALANCE_THRESHOLD *)
Fixpoint all_empty (la : laccount) : res bool :=
  match la with
  | [] => Ok true
  | bl :: r => let* s := get_side bl in
               match s with None => all_empty r | Some _ => Ok false end
  end.

(* MarginfiAccountImpl::can_be_closed *)
Definition can_be_closed (ac : macct) : res bool :=
  let is_disabled := mflag ac ACCOUNT_DISABLED in
  let is_in_flashloan := mflag ac ACCOUNT_IN_FLASHLOAN in
  let is_in_receivership := mflag ac ACCOUNT_IN_RECEIVERSHIP in
  let* only_empty := all_empty (ma_la ac) in
  Ok (negb is_disabled && only_empty && negb is_in_flashloan && negb is_in_receivership).

Definition get_macct (w : lworld) (n : nat) : res macct :=
  match nth_error (lw_accts w) n with
  | Some (Some a) => Ok a
  | _ => Err (E AE_ACCOUNT_OWNED_BY_WRONG_PROGRAM)       (* AccountLoader::try_from on a system-owned address *)
  end.

Definition set_macct (w : lworld) (n : nat) (v : option macct) : lworld :=
  mkLW (set_nth n v (lw_accts w)) (lw_group w) (lw_admin w) (lw_paused w) (lw_fee_wallet w) (lw_now w).

(* marginfi_account_close: `has_one = authority`, handler, `close = fee_payer` *)
Definition h_close (w : lworld) (a : nat) (signer : Z) : res lworld :=
  let* A := get_macct w a in
  let* _ := check (ma_authority A =? signer) (E E_Unauthorized) in
  if mflag A ACCOUNT_FROZEN then Err (E E_AccountFrozen) else
  let* ok := can_be_closed A in
  let* _ := check ok (E E_IllegalAction) in
  Ok (set_macct w a None).

(* state::marginfi_account::account_not_frozen_for_authority / is_signer_authorized(.., false) *)
Definition not_frozen_for_authority (A : macct) (signer : Z) : bool :=
  negb (mflag A ACCOUNT_FROZEN && (ma_authority A =? signer)).
Definition signer_authorized (A : macct) (admin signer : Z) : bool :=
  if mflag A ACCOUNT_FROZEN then admin =? signer else ma_authority A =? signer.

(* LendingAccount::zeroed() *)
Definition la_zeroed : laccount := repeat (mkBal false 0 0 0 0 0 0) 16.

(* transfer_to_new_account(old -> new); `fee_wallet` is the global_fee_wallet account passed *)
Definition h_transfer (w : lworld) (old new : nat) (signer new_auth fee_wallet : Z) : res lworld :=
  let* A := get_macct w old in
  (* #[account(init)] new_marginfi_account: system create_account fails if the address is in use *)
  let* _ := match nth_error (lw_accts w) new with
            | Some None => Ok tt
            | _ => Err (E 0)
            end in
  let* _ := check (negb (lw_paused w)) (E E_ProtocolPaused) in
  let* _ := check (ma_group A =? lw_group w) (E E_InvalidGroup) in
  let* _ := check (not_frozen_for_authority A signer) (E E_AccountFrozen) in
  let* _ := check (signer_authorized A (lw_admin w) signer) (E E_Unauthorized) in
  (* handler *)
  let* _ := check (fee_wallet =? lw_fee_wallet w) (E E_InvalidFeeAta) in
  let* _ := check (negb (mflag A ACCOUNT_IN_FLASHLOAN)) (E E_AccountInFlashloan) in
  let* _ := check (negb (mflag A ACCOUNT_IN_RECEIVERSHIP)) (E E_ForbiddenIx) in
  let* _ := check (ma_migrated_to A =? 0) (E E_AccountAlreadyMigrated) in
  let ts := wrap_u 64 (lw_now w) in
  let N := mkMA (ma_la A) (ma_flags A) new_auth (ma_group A) 0 (acct_key old) (ma_emissions_dest A) ts in
  let A' := mkMA la_zeroed (Z.lor (ma_flags A) ACCOUNT_DISABLED) (ma_authority A) (ma_group A)
                 (acct_key new) (ma_migrated_from A) (ma_emissions_dest A) ts in
  Ok (set_macct (set_macct w old (Some A')) new (Some N)).

(* transfer_to_new_account_pda: the same constraints and the same handler body, except that the SOURCE's last_update is left
   alone (the new account lives at a PDA, which the slot-based world does not distinguish from a fresh keypair account) *)
Definition keep_last_update (w0 w : lworld) (old : nat) : lworld :=
  match get_macct w0 old, get_macct w old with
  | Ok A0, Ok A =>
      set_macct w old (Some (mkMA (ma_la A) (ma_flags A) (ma_authority A) (ma_group A) (ma_migrated_to A)
                                  (ma_migrated_from A) (ma_emissions_dest A) (ma_last_update A0)))
  | _, _ => w
  end.
Definition h_transfer_pda (w : lworld) (old new : nat) (signer new_auth fee_wallet : Z) : res lworld :=
  let* w' := h_transfer w old new signer new_auth fee_wallet in Ok (keep_last_update w w' old).

(* operations of the correspondence suite `acctlife` *)
Inductive lop :=
| LClose (a : nat) (signer : Z)
| LTransfer (old new : nat) (signer new_auth fee_wallet : Z)
| LSetFlags (a : nat) (flags : Z)          (* test scaffolding: poke account_flags *)
| LSetClock (t : Z)
| LSetPaused (p : bool).

Definition lstep (w : lworld) (o : lop) : res lworld :=
  match o with
  | LClose a s => h_close w a s
  | LTransfer old new s na fw => h_transfer w old new s na fw
  | LSetFlags a f =>
      let* A := get_macct w a in
      Ok (set_macct w a (Some (mkMA (ma_la A) f (ma_authority A) (ma_group A) (ma_migrated_to A) (ma_migrated_from A)
                                    (ma_emissions_dest A) (ma_last_update A))))
  | LSetClock t => Ok (mkLW (lw_accts w) (lw_group w) (lw_admin w) (lw_paused w) (lw_fee_wallet w) t)
  | LSetPaused p => Ok (mkLW (lw_accts w) (lw_group w) (lw_admin w) p (lw_fee_wallet w) (lw_now w))
  end.

Definition lstep_total (w : lworld) (o : lop) : lworld :=
  match lstep w o with Ok w' => w' | Err _ => w end.
Definition lrun (w : lworld) (ops : list lop) : lworld := fold_left lstep_total ops w.
