(* Deleverage.v — the forced deleverage of the risk admin, for C12:
     state/marginfi_group.rs                      MarginfiGroup::update_withdrawn_equity (WithdrawWindowCache)
     marginfi_group/configure_withdrawal_limit.rs configure_deleverage_withdrawal_limit
     marginfi_account/liquidate_start.rs          start_deleverage + start_receivership
     marginfi_account/liquidate_end.rs            end_deleverage + end_receivership
     marginfi_account/withdraw.rs                 the receivership / ACCOUNT_IN_DELEVERAGE branch
     marginfi_account/repay.rs                    (as Handlers.h_repay, tokens from the signer's account)
   over the world of Handlers.v (banks with Fixed-price feeds, marginfi accounts, token balances).
   The transaction shape [start_deleverage, withdraw*, repay*, end_deleverage] that validate_instructions
   enforces by introspection is built into dv_tx; a failing instruction rolls the whole transaction back. *)
Require Import Base Constants PrivGen Fixed Curve Bank BankOps Risk Handlers TransferFee.

(* MarginfiGroup.deleverage_withdraw_window_cache *)
Record wcache := mkWC { wc_limit : Z; wc_withdrawn : Z; wc_last_reset : Z }.   (* u32, u32, i64 *)

(* the daily window is over: current_timestamp.saturating_sub(last_daily_reset_timestamp) >= DAILY_RESET_INTERVAL *)
Definition reset_due (c : wcache) (now : Z) : bool := DAILY_RESET_INTERVAL <=? sat_i64 (now - wc_last_reset c).

(* MarginfiGroup::update_withdrawn_equity: whole dollars in u64 (a value that does not fit counts as
   u64::MAX), saturating u64 sum, comparison with the limit BEFORE the clamp to u32 *)
Definition withdrawn_u64 (eq : fx) : Z := match to_u64_checked eq with Ok n => n | Err _ => U64_MAX end.

Definition update_withdrawn_equity (c : wcache) (eq : fx) (now : Z) : res wcache :=
  let c1 := if reset_due c now then mkWC (wc_limit c) 0 now else c in
  let total := Z.min U64_MAX (wc_withdrawn c1 + withdrawn_u64 eq) in
  if negb (wc_limit c1 =? 0) && (wc_limit c1 <? total) then Err (E E_DailyWithdrawalLimitExceeded)
  else Ok (mkWC (wc_limit c1) (Z.min U32_MAXZ total) (wc_last_reset c1)).

(* configure_deleverage_withdrawal_limit (group admin): the amount withdrawn so far is kept *)
Definition configure_withdrawal_limit (c : wcache) (limit now : Z) : res wcache :=
  let* _ := check (0 <? limit) (E E_ZeroWithdrawalLimit) in
  Ok (mkWC limit (wc_withdrawn c) now).

(* ---------------------------------------------------------------- account flags *)
Definition set_aflag (ac : hacct) (f : Z) : hacct := mkHA (ha_la ac) (Z.lor (ha_flags ac) f).
Definition unset_aflag (ac : hacct) (f : Z) : hacct := mkHA (ha_la ac) (Z.ldiff (ha_flags ac) f).

(* snapshot kept in the liquidation record between start and end *)
Record dsnap := mkSnap { sn_assets_maint : fx; sn_liabs_maint : fx; sn_assets_eq : fx; sn_liabs_eq : fx }.

Definition EHasOneD : err := E 2001.   (* anchor ConstraintHasOne: `has_one = risk_admin` carries no custom error *)

(* start_deleverage *)
Definition dv_start (w : hworld) (a : nat) (risk_admin_signs : bool) : res (hworld * dsnap) :=
  let* ac := nth_acct w a in
  let* _ := check (negb (aflag ac G_ACCOUNT_IN_RECEIVERSHIP) && negb (aflag ac G_ACCOUNT_IN_FLASHLOAN)
                   && negb (aflag ac G_ACCOUNT_DISABLED)) (E E_UnexpectedLiquidationState) in
  let* _ := check risk_admin_signs EHasOneD in
  let ac1 := set_aflag ac G_ACCOUNT_IN_DELEVERAGE in
  let* ps := positions w (ha_la ac1) in
  let* (_, am, lm) := pre_liquidation ps None true in
  let* (ae, le) := health_components ps RqEquity in
  let ac2 := set_aflag ac1 G_ACCOUNT_IN_RECEIVERSHIP in
  Ok (put_hacct w a ac2, mkSnap am lm ae le).

(* lending_account_withdraw on an account in receivership: low-biased price first, the daily window
   when ACCOUNT_IN_DELEVERAGE, no health check; tokens go to the signer's token account (row r) *)
Definition dv_withdraw (w : hworld) (c : wcache) (a r b : nat) (amount : Z) (all : bool) : res (hworld * wcache) :=
  let* hb := nth_bank w b in let* ac := nth_acct w a in
  let bk := hb_b hb in
  let* _ := check (is_marginfi_tag (b_asset_tag bk)) (E E_WrongAssetTagForStandardInstructions) in
  (* account constraint: assets without initial weight cannot be taken out of an account in receivership *)
  let* _ := check (negb (aflag ac G_ACCOUNT_IN_RECEIVERSHIP && (rc_awi (hb_c hb) =? 0))) (E E_LiquidationPremiumTooHigh) in
  let* _ := check (negb (aflag ac G_ACCOUNT_DISABLED)) (E E_AccountDisabled) in
  let* _ := validate_bank_state bk KFailsInPaused in
  let* _ := fd_load (hb_feed hb) in
  let* price := fd_low_rt (hb_feed hb) in
  let* _ := check (0 <? price) (E E_ZeroAssetPrice) in
  let* bk1 := accrue_interest bk (hw_pf w) (hw_now w) in
  let* i := wrapper_find (bank_pk b) (ha_la ac) in
  let* bl := nth_res i (ha_la ac) in
  let* (bk2, bl2, pre) :=
    if all then withdraw_all bk1 bl (t64 w)
    else let* pre := pre_fee hb amount in
         let* (bk2, bl2) := decrease_balance bk1 bl (t64 w) (of_int pre) DecWithdrawOnly in Ok (bk2, bl2, pre) in
  let pre := if get_flag (b_flags bk2) TOKENLESS_REPAYMENTS_COMPLETE then Z.min pre (hb_vault hb) else pre in
  let* c' :=
    if aflag ac G_ACCOUNT_IN_DELEVERAGE then
      let* eq := calc_value (of_int pre) price (balance_decimals bk2) None in
      update_withdrawn_equity c eq (hw_now w)
    else Ok c in
  let w1 := put_hacct (put_hbank w b (set_hb_b bk2 hb)) a (mkHA (set_nth i bl2 (ha_la ac)) (ha_flags ac)) in
  let* w2 := xfer_out w1 r b pre in
  let* hb2 := nth_bank w2 b in
  let* bk3 := update_bank_cache (hb_b hb2) (hw_pf w) (hw_now w) in
  let* ac2 := nth_acct w2 a in
  Ok (put_hacct (put_hbank w2 b (set_hb_b bk3 hb2)) a (sort_acct ac2), c').

(* lending_account_repay by the receiver: Handlers.h_repay with the tokens taken from row r *)
Definition dv_repay (w : hworld) (a r b : nat) (amount : Z) (all : bool) : res hworld :=
  let* hb := nth_bank w b in let* ac := nth_acct w a in
  let bk := hb_b hb in
  let* _ := check (is_marginfi_tag (b_asset_tag bk)) (E E_WrongAssetTagForStandardInstructions) in
  let* _ := check (negb (aflag ac G_ACCOUNT_DISABLED)) (E E_AccountDisabled) in
  let* _ := validate_bank_state bk KFailsInPaused in
  let* bk1 := accrue_interest bk (hw_pf w) (hw_now w) in
  let* i := wrapper_find (bank_pk b) (ha_la ac) in
  let* bl := nth_res i (ha_la ac) in
  let* (bk2, bl2, post) :=
    if all then repay_all bk1 bl (t64 w)
    else let* (bk2, bl2) := increase_balance bk1 bl (t64 w) (of_int amount) IncRepayOnly in Ok (bk2, bl2, amount) in
  let w1 := put_hacct (put_hbank w b (set_hb_b bk2 hb)) a (mkHA (set_nth i bl2 (ha_la ac)) (ha_flags ac)) in
  let* w2 :=
    if hw_risk_admin_signs w && get_flag (b_flags bk2) TOKENLESS_REPAYMENTS_ALLOWED && all then Ok w1
    else let* pre := pre_fee hb post in xfer_in w1 r b pre in
  let* hb2 := nth_bank w2 b in
  let bk3 := hb_b hb2 in
  let bk4 := if get_flag (b_flags bk3) TOKENLESS_REPAYMENTS_ALLOWED
                && (fabs_w (b_tls bk3) <? wmul ZERO_AMOUNT_THRESHOLD (of_int 10))
             then set_b_flags (Z.lor (b_flags bk3) TOKENLESS_REPAYMENTS_COMPLETE) bk3 else bk3 in
  let* bk5 := update_bank_cache bk4 (hw_pf w) (hw_now w) in
  let* ac2 := nth_acct w2 a in
  Ok (put_hacct (put_hbank w2 b (set_hb_b bk5 hb2)) a (sort_acct ac2)).

(* end_receivership's comparison: `pre_assets - pre_liabs` aborts on overflow *)
Definition health_not_worse (s : dsnap) (post_health : fx) : res unit :=
  let* pre_health := usub (sn_assets_maint s) (sn_liabs_maint s) in
  check (negb (post_health <? pre_health)) (E E_WorseHealthPostLiquidation).

(* end_deleverage *)
Definition dv_end (w : hworld) (a : nat) (risk_admin_signs : bool) (s : dsnap) : res hworld :=
  let* ac := nth_acct w a in
  let* _ := check (aflag ac G_ACCOUNT_IN_RECEIVERSHIP && negb (aflag ac G_ACCOUNT_IN_FLASHLOAN)
                   && negb (aflag ac G_ACCOUNT_DISABLED)) (E E_UnexpectedLiquidationState) in
  let* _ := check risk_admin_signs (E E_Unauthorized) in
  let ac1 := unset_aflag ac G_ACCOUNT_IN_DELEVERAGE in
  let* ps := positions w (ha_la ac1) in
  let* (post, _, _) := pre_liquidation ps None true in
  let* (ae, le) := health_components ps RqEquity in
  let* _ := health_not_worse s post in
  let* _ := usub (sn_assets_eq s) ae in        (* seized  = pre_assets_equity - post_assets_equity *)
  let* _ := usub (sn_liabs_eq s) le in         (* repaid  = pre_liabs_equity - post_liabilities_equity *)
  Ok (put_hacct w a (unset_aflag ac1 G_ACCOUNT_IN_RECEIVERSHIP)).

Inductive dstep :=
| DWithdraw (b : nat) (amount : Z) (all : bool)
| DRepay (b : nat) (amount : Z) (all : bool).

Definition dv_step (a r : nat) (wc : hworld * wcache) (s : dstep) : res (hworld * wcache) :=
  match s with
  | DWithdraw b n all => dv_withdraw (fst wc) (snd wc) a r b n all
  | DRepay b n all => let* w' := dv_repay (fst wc) a r b n all in Ok (w', snd wc)
  end.

(* the transaction [start_deleverage, steps..., end_deleverage] on account a, signed by the owner of token row r *)
Definition dv_tx (w : hworld) (c : wcache) (a r : nat) (risk_admin_signs : bool) (steps : list dstep) : res (hworld * wcache) :=
  let* (w1, snap) := dv_start w a risk_admin_signs in
  let* (w2, c2) := foldM (dv_step a r) steps (w1, c) in
  let* w3 := dv_end w2 a risk_admin_signs snap in
  Ok (w3, c2).

(* lending_account_purge_delev_balance (risk admin, bank with TOKENLESS_REPAYMENTS_COMPLETE): the lender's
   balance is closed and its shares leave the bank's total; no token moves *)
Definition dv_purge (w : hworld) (a b : nat) (risk_admin_signs : bool) : res hworld :=
  let* _ := check risk_admin_signs (E E_Unauthorized) in
  let* hb := nth_bank w b in let* ac := nth_acct w a in
  let bk := hb_b hb in
  let* _ := check (is_marginfi_tag (b_asset_tag bk)) (E E_WrongAssetTagForStandardInstructions) in
  let* _ := check (get_flag (b_flags bk) TOKENLESS_REPAYMENTS_COMPLETE) (E E_ForbiddenIx) in
  let* i := match find_active (bank_pk b) (ha_la ac) with Some i => Ok i | None => Err (E E_BankAccountNotFound) end in
  let* bl := nth_res i (ha_la ac) in
  let* _ := check (negb (ZERO_AMOUNT_THRESHOLD <? fabs_w (bl_l bl))) (E E_OperationWithdrawOnly) in
  let* neg := uneg (bl_a bl) in
  let* bk2 := change_asset_shares (dec_lend bk) neg false in
  Ok (put_hacct (put_hbank w b (set_hb_b bk2 hb)) a
        (mkHA (sort_balances (set_nth i bal_empty (ha_la ac))) (ha_flags ac))).

(* maintenance health of account a as the two receivership instructions compute it *)
Definition maint_health (w : hworld) (a : nat) : res fx :=
  let* ac := nth_acct w a in
  let* ps := positions w (ha_la ac) in
  let* (h, _, _) := pre_liquidation ps None true in
  Ok h.

(* ---------------------------------------------------------------- the daily window as a trace *)
(* a day's withdrawals: (timestamp, withdrawn equity); a refused withdrawal fails its transaction and
   leaves the cache as it was.  The ghost list `window` records the accepted withdrawals since the last reset. *)
Record wtrace := mkWT { wt_cache : wcache; wt_window : list fx; wt_resets : list Z }.

Definition wstep (s : wtrace) (ev : Z * fx) : wtrace :=
  let (now, eq) := ev in
  match update_withdrawn_equity (wt_cache s) eq now with
  | Err _ => s
  | Ok c' =>
      if reset_due (wt_cache s) now then mkWT c' [eq] (now :: wt_resets s)
      else mkWT c' (eq :: wt_window s) (wt_resets s)
  end.

Definition wrun (s : wtrace) (evs : list (Z * fx)) : wtrace := fold_left wstep evs s.

(* whole dollars of a withdrawn equity *)
Definition dollars (eq : fx) : Z := to_int eq.
Definition window_dollars (l : list fx) : Z := fold_right (fun e acc => dollars e + acc) 0 l.

(* consecutive entries of a newest-first list of reset times are at least d apart *)
Fixpoint spaced_by (d : Z) (l : list Z) : Prop :=
  match l with
  | a :: ((b :: _) as tl) => d <= a - b /\ spaced_by d tl
  | _ => True
  end.

(* the equities a transaction feeds into the window, as a fold *)
Definition window_fold (now : Z) (c : wcache) (eqs : list fx) : res wcache :=
  foldM (fun c e => update_withdrawn_equity c e now) eqs c.
