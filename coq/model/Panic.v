(* Panic.v — model of PanicState / PanicStateCache (type-crate/src/types/panic_state_cache.rs,
   programs/marginfi/src/state/panic_state.rs) and of the four pause instructions
   (panic_pause.rs, panic_unpause.rs, panic_unpause_permissionless.rs, propagate_fee_state.rs)
   and MarginfiGroup::is_protocol_paused. *)
Require Import Base.
Require Import Constants.

Record pstate := mkP {
  p_flags : Z;        (* u8 *)
  p_daily : Z;        (* u8 *)
  p_consec : Z;       (* u8 *)
  p_start : Z;        (* i64 *)
  p_last_reset : Z    (* i64 *)
}.

Record pcache := mkC {
  c_flags : Z;        (* u8 *)
  c_start : Z;        (* i64 *)
  c_last_update : Z   (* i64 *)
}.

Definition p_zero : pstate := mkP 0 0 0 0 0.
Definition c_zero : pcache := mkC 0 0 0.

Definition flag_set (flags : Z) : bool := negb (Z.land flags FLAG_PAUSED =? 0).

(* is_expired, identical for PanicState and PanicStateCache *)
Definition is_expired_raw (flags start now : Z) : res bool :=
  if negb (flag_set flags) then Ok true
  else if now <? start then Ok false
  else let* d := chk in_i64 (now - start) in Ok (PAUSE_DURATION_SECONDS <=? d).

Definition p_is_expired (p : pstate) (now : Z) := is_expired_raw (p_flags p) (p_start p) now.
Definition c_is_expired (c : pcache) (now : Z) := is_expired_raw (c_flags c) (c_start c) now.

Definition p_unpause (p : pstate) : pstate :=
  mkP (Z.land (p_flags p) (255 - FLAG_PAUSED)) (p_daily p) 0 0 (p_last_reset p).

Definition p_unpause_if_expired (p : pstate) (now : Z) : res pstate :=
  if flag_set (p_flags p) then
    let* e := p_is_expired p now in Ok (if e then p_unpause p else p)
  else Ok p.

Definition p_can_pause (p : pstate) (now : Z) : res bool :=
  let* d := chk in_i64 (now - p_last_reset p) in
  let daily := if DAILY_RESET_INTERVAL <=? d then 0 else p_daily p in
  Ok ((p_consec p <? MAX_CONSECUTIVE_PAUSES) && (daily <? MAX_DAILY_PAUSES)).

(* PanicStateImpl::pause *)
Definition p_pause (p0 : pstate) (now : Z) : res pstate :=
  let* p := p_unpause_if_expired p0 now in
  let p :=
    if DAILY_RESET_INTERVAL <=? sat_i64 (now - p_last_reset p)
    then mkP (p_flags p) 0 (p_consec p) (p_start p) now
    else p in
  let* ok := p_can_pause p now in
  let* _ := check ok (E E_PauseLimitExceeded) in
  let* e := (if flag_set (p_flags p) then p_is_expired p now else Ok true) in
  let start' :=
    if flag_set (p_flags p) && negb e
    then sat_i64 (p_start p + PAUSE_DURATION_SECONDS)
    else now in
  Ok (mkP (Z.lor (p_flags p) FLAG_PAUSED)
          (sat_u8 (p_daily p + 1))
          (sat_u8 (p_consec p + 1))
          start'
          (p_last_reset p)).

(* instruction handlers, on fee_state.panic_state *)
Definition ix_panic_pause (p : pstate) (now : Z) : res pstate :=
  let* p1 := p_unpause_if_expired p now in
  p_pause p1 now.

Definition ix_panic_unpause (p : pstate) (now : Z) : res pstate :=
  let* _ := check (flag_set (p_flags p)) (E E_ProtocolNotPaused) in
  let* p1 := p_unpause_if_expired p now in
  Ok (if flag_set (p_flags p1) then p_unpause p1 else p1).

Definition ix_panic_unpause_permissionless (p : pstate) (now : Z) : res pstate :=
  let* _ := check (flag_set (p_flags p)) (E E_ProtocolNotPaused) in
  let* e := p_is_expired p now in
  let* _ := check e (E E_PauseLimitExceeded) in
  let* _ := chk in_i64 (now - p_start p) in   (* msg! argument: unchecked i64 subtraction *)
  Ok (p_unpause p).

Definition ix_propagate (p : pstate) (now : Z) : pcache :=
  mkC (p_flags p) (p_start p) now.

(* MarginfiGroup::is_protocol_paused *)
Definition is_protocol_paused (c : pcache) (now : Z) : res bool :=
  if flag_set (c_flags c) then
    let* e := c_is_expired c now in Ok (negb e)
  else Ok false.

(* ---------------------------------------------------------------------------------------------
   State machine used by C15: global fee state + one group's cache + clock. Failed instructions
   leave the world unchanged (transaction rollback). *)
Inductive pop := OpPause | OpAdminUnpause | OpPermUnpause | OpPropagate | OpTick (dt : Z).

Record pworld := mkW { w_p : pstate; w_c : pcache; w_now : Z }.

Definition pw_init (now : Z) : pworld := mkW p_zero c_zero now.

(* returns the new world and whether the op succeeded *)
Definition pstep (w : pworld) (o : pop) : pworld * bool :=
  match o with
  | OpPause =>
      match ix_panic_pause (w_p w) (w_now w) with
      | Ok p' => (mkW p' (w_c w) (w_now w), true) | Err _ => (w, false) end
  | OpAdminUnpause =>
      match ix_panic_unpause (w_p w) (w_now w) with
      | Ok p' => (mkW p' (w_c w) (w_now w), true) | Err _ => (w, false) end
  | OpPermUnpause =>
      match ix_panic_unpause_permissionless (w_p w) (w_now w) with
      | Ok p' => (mkW p' (w_c w) (w_now w), true) | Err _ => (w, false) end
  | OpPropagate => (mkW (w_p w) (ix_propagate (w_p w) (w_now w)) (w_now w), true)
  | OpTick dt => (mkW (w_p w) (w_c w) (w_now w + Z.max 0 dt), true)
  end.

Definition prun (w : pworld) (ops : list pop) : pworld :=
  fold_left (fun w o => fst (pstep w o)) ops w.

(* ---------------------------------------------------------------------------------------------
   Ghost instrumentation and observables used in the statements of C15. *)
Definition TMAX : Z := 2^62.

(* ghost-instrumented world: successes since the last daily reset, and the times of all resets
   (most recent first) *)
Record gworld := mkG { g_w : pworld; g_since : Z; g_resets : list Z }.

Definition reset_happens (p : pstate) (now : Z) : bool :=
  (* evaluated on the state after the initial unpause_if_expired; that step does not touch
     last_reset, so it can be evaluated on the pre-state *)
  DAILY_RESET_INTERVAL <=? sat_i64 (now - p_last_reset p).

Definition gstep (g : gworld) (o : pop) : gworld :=
  let '(w', ok) := pstep (g_w g) o in
  match o with
  | OpPause =>
      if ok then
        if reset_happens (w_p (g_w g)) (w_now (g_w g))
        then mkG w' 1 (w_now (g_w g) :: g_resets g)
        else mkG w' (g_since g + 1) (g_resets g)
      else mkG w' (g_since g) (g_resets g)
  | _ => mkG w' (g_since g) (g_resets g)
  end.

Definition grun (g : gworld) (ops : list pop) : gworld := fold_left gstep ops g.
Definition g_init (now : Z) : gworld := mkG (pw_init now) 0 [].

(* consecutive entries of a (most-recent-first) list of times are at least d apart *)
Fixpoint spaced_by (d : Z) (l : list Z) : Prop :=
  match l with
  | a :: ((b :: _) as tl) => d <= a - b /\ spaced_by d tl
  | _ => True
  end.
Definition spaced := spaced_by DAILY_RESET_INTERVAL.

(* Would a group holding an up-to-date copy of this state refuse user instructions at time t? *)
Definition blocked (p : pstate) (t : Z) : res bool :=
  is_protocol_paused (ix_propagate p t) t.

(* Time until which the protocol is paused, as seen at time now (the code's own notion:
   start + PAUSE_DURATION_SECONDS; `blocked_iff` in PanicLemmas ties it to `blocked`). *)
Definition paused_until (p : pstate) (now : Z) : Z :=
  if flag_set (p_flags p) then Z.max now (p_start p + PAUSE_DURATION_SECONDS) else now.


Definition reach (now0 : Z) (ops : list pop) : gworld := grun (g_init now0) ops.
Definition P (g : gworld) := w_p (g_w g).
Definition NOW (g : gworld) := w_now (g_w g).
