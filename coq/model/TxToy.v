(* TxToy.v — a small concrete instance of Tx.env, used (a) by the extracted driver for the level-D
   correspondence and (b) by the non-vacuity examples of C10 / C11.

   It is the risk engine and the balance bookkeeping specialised to the scenario family the
   level-D harness builds: banks with OracleSetup::Fixed prices (no confidence band, same price
   for every requirement type), share values exactly 1, Collateral risk tier, no e-mode, no
   init-limit discount, no fees, ample liquidity.  Under these conditions
     value = calc_value(units, price, decimals, weight)             (state/marginfi_account.rs)
   and the wrapper operations reduce to integer arithmetic on native units.  Every account keeps a
   fixed set of ACTIVE balances (possibly with zero shares), as the harness fixture arranges.
   Definitions only. *)
Require Import Base Fixed Constants TxConstants Tx.
Local Open Scope Z_scope.

Record tbank := mkTB {
  tb_price : Z;       (* config.fixed_price, raw bits *)
  tb_aw_init : Z; tb_aw_maint : Z; tb_lw_init : Z; tb_lw_maint : Z;
  tb_dec : Z
}.

Definition tbw := list (Z * tbank).                (* bank key -> parameters *)
Definition tpf := list (Z * (Z * Z)).              (* active balances: bank key -> (asset units, liability units) *)

Fixpoint assoc {A} (k : Z) (l : list (Z * A)) : option A :=
  match l with [] => None | (k', v) :: tl => if k' =? k then Some v else assoc k tl end.

Fixpoint assoc_set {A} (k : Z) (v : A) (l : list (Z * A)) : list (Z * A) :=
  match l with
  | [] => [(k, v)]
  | (k', v') :: tl => if k' =? k then (k, v) :: tl else (k', v') :: assoc_set k v tl
  end.

(* calc_value *)
Definition calc_value (amount price dec : Z) (weight : option Z) : res Z :=
  if amount =? 0 then Ok 0 else
  let scaling := nth (Z.to_nat dec) EXP_10_I80F48 0 in
  let* wa := match weight with
             | Some wt => match cmul amount wt with Ok v => Ok v | Err _ => Err EPanic end   (* .unwrap() *)
             | None => Ok amount
             end in
  let* v := ok_or (cmul wa price) (E E_MathError) in
  ok_or (cdiv v scaling) (E E_MathError).

Inductive req := RInit | RMaint | REquity.

Definition aw (b : tbank) (r : req) := match r with RInit => tb_aw_init b | RMaint => tb_aw_maint b | REquity => ONE end.
Definition lw (b : tbank) (r : req) := match r with RInit => tb_lw_init b | RMaint => tb_lw_maint b | REquity => ONE end.

(* get_account_health_components *)
Fixpoint components (bw : tbw) (r : req) (pf : tpf) (acc : Z * Z) : res (Z * Z) :=
  match pf with
  | [] => Ok acc
  | (bk, (au, lu)) :: tl =>
      match assoc bk bw with
      | None => Err (E E_InvalidBankAccount)
      | Some b =>
          let* vals :=
            (if 1 <=? lu then
               let* v := calc_value (of_int lu) (tb_price b) (tb_dec b) (Some (lw b r)) in Ok (0, v)
             else if 1 <=? au then
               let* v := calc_value (of_int au) (tb_price b) (tb_dec b) (Some (aw b r)) in Ok (v, 0)
             else Ok (0, 0)) in
          let* a' := ok_or (cadd (fst acc) (fst vals)) (E E_MathError) in
          let* l' := ok_or (cadd (snd acc) (snd vals)) (E E_MathError) in
          components bw r tl (a', l')
      end
  end.

Definition toy_init_check (bw : tbw) (pf : tpf) : res unit :=
  let* c := components bw RInit pf (0, 0) in
  check (snd c <=? fst c) (E E_RiskEngineInitRejected).

Definition toy_init (bw : tbw) (pf : tpf) := components bw RInit pf (0, 0).
Definition toy_maint (bw : tbw) (pf : tpf) := components bw RMaint pf (0, 0).
Definition toy_equity (bw : tbw) (pf : tpf) := components bw REquity pf (0, 0).

(* BankAccountWrapper::{withdraw, repay, borrow, deposit}(+_all) on integer units at share value 1 *)
Definition toy_op (k : opk) (bank amount : Z) (all delev : bool) (bw : tbw) (pf : tpf) : res (tbw * tpf) :=
  match assoc bank pf with
  | None => Err (E E_BankAccountNotFound)
  | Some (au, lu) =>
      match k with
      | OpWithdraw =>
          if all then Err EPanic                                 (* withdraw_all closes the balance: outside the toy family *)
          else let* _ := check (amount <=? au) (E E_OperationWithdrawOnly) in
               Ok (bw, assoc_set bank (au - amount, lu) pf)
      | OpRepay =>
          if all then Err EPanic
          else let* _ := check (amount <=? lu) (E E_OperationRepayOnly) in
               Ok (bw, assoc_set bank (au, lu - amount) pf)
      | OpBorrow =>
          let* _ := check ((au =? 0) || (amount =? 0)) (E E_OperationBorrowOnly) in
          Ok (bw, assoc_set bank (au, lu + amount) pf)
      | OpDeposit =>
          let* _ := check ((lu =? 0) || (amount =? 0)) (E E_OperationDepositOnly) in
          Ok (bw, assoc_set bank (au + amount, lu) pf)
      end
  end.

Definition toy_w_init (bw : tbw) (bank : Z) : Z :=
  match assoc bank bw with Some b => tb_aw_init b | None => 0 end.

Definition toy_price_low (bw : tbw) (bank : Z) : res Z :=
  match assoc bank bw with Some b => Ok (tb_price b) | None => Err (E E_InvalidBankAccount) end.

(* classic liquidation up to the pre-liquidation check (check_pre_liquidation_condition_and_get_account_health
   with the liability bank given); the toy family only contains liquidatees that fail it *)
Definition toy_liquidate (abank lbank amount : Z) (bw : tbw) (pl pv : tpf) : res (tbw * tpf * tpf) :=
  match assoc lbank pv with
  | None => Err (E E_LendingAccountBalanceNotFound)
  | Some (au, lu) =>
      let* _ := check (1 <=? lu) (E E_NoLiabilitiesInLiabilityBank) in
      let* _ := check (au <? 1) (E E_AssetsInLiabilityBank) in
      let* c := toy_maint bw pv in
      let* h := ok_or (csub (fst c) (snd c)) (E E_MathError) in
      if 0 <? h then Err (E E_HealthyAccount) else Err EPanic
  end.

(* bankruptcy: the toy family only contains accounts that are not bankrupt *)
Definition toy_bankrupt (signer bank : Z) (bw : tbw) (pf : tpf) : res (tbw * tpf) :=
  let* c := toy_equity bw pf in
  if (fst c <? snd c) && (fst c <? BANKRUPT_THRESHOLD) && (ZERO_AMOUNT_THRESHOLD <? snd c)
  then Err EPanic else Err (E E_AccountNotBankrupt).

Definition toy_other (d : ixd) (w : world tbw tpf) : res (tbw * list (patch tpf)) :=
  Err (E AE_INSTRUCTION_FALLBACK_NOT_FOUND).

(* the engine handed no remaining accounts: the first active balance cannot be loaded (InvalidBankAccount);
   an account without active balances passes (nothing to value); every entry of a tpf is an active balance *)
Definition toy_init_check_norem (pf : tpf) : res unit :=
  check (match pf with [] => true | _ => false end) (E E_InvalidBankAccount).

Definition toy_env : env tbw tpf :=
  mkEnv toy_init_check toy_maint toy_equity toy_op toy_w_init toy_price_low toy_liquidate toy_bankrupt
        [] toy_other toy_init_check_norem.

Definition toy_exec_tx_r := @exec_tx_r tbw tpf toy_env.
Definition toy_exec_tx := @exec_tx tbw tpf toy_env.
Definition toy_h_end := @h_end tbw tpf toy_env.

(* ------------------------------------------------------------------------------------------ *)
(* Builders: the serialized form of each instruction kind, with the account order of its Anchor
   accounts struct (only the positions the dispatcher model reads carry meaning; the other
   entries are placeholders).  Used by the extracted driver and by the examples in props/.      *)
(* ------------------------------------------------------------------------------------------ *)
Definition K_RECORD := 9001. Definition K_SYSVAR := 9002. Definition K_FEESTATE := 9003.
Definition K_FEEWALLET := 9004. Definition K_SYSTEM := 9005. Definition K_GROUP := 9006.
Definition K_MISC := 9007.

Definition ix_mfi (disc len : Z) (accts args : list Z) : ixd := mkIxd PMfi len disc accts args.

Definition mk_CB : ixd := mkIxd PCompute 5 2 [] [].
Definition mk_FG (p : prog) (disc len : Z) : ixd := mkIxd p len disc [] [].
Definition mk_SL (a r : Z) := ix_mfi DISP_SL 8 [a; K_RECORD; r; K_SYSVAR] [].
Definition mk_EL (a r : Z) := ix_mfi DISP_EL 8 [a; K_RECORD; r; K_FEESTATE; K_FEEWALLET; K_SYSTEM] [].
Definition mk_SD (a r : Z) := ix_mfi DISP_SD 8 [a; K_RECORD; K_GROUP; r; K_SYSVAR] [].
Definition mk_ED (a r : Z) := ix_mfi DISP_ED 8 [a; K_RECORD; K_GROUP; r] [].
Definition mk_SF (a s e : Z) := ix_mfi DISP_SF 16 [a; s; K_SYSVAR] [e].
Definition mk_EF (a s : Z) := ix_mfi DISP_EF 8 [a; s] [].
(* end_flashloan of account a that also lists account x among its trailing (remaining) accounts *)
Definition mk_EFX (a s x : Z) := ix_mfi DISP_EF 8 [a; s; x] [].
(* end_flashloan WITHOUT remaining accounts (the marker argument is a modelling device: the real instruction has no arguments,
   what differs is its account list) *)
Definition mk_EFN (a s : Z) := ix_mfi DISP_EF 8 [a; s] [1].
Definition mk_WD (a s b m : Z) := ix_mfi DISP_WD 17 [K_GROUP; a; s; b; K_MISC; K_MISC; K_MISC; K_MISC] [m; 0].
Definition mk_RP (a s b m : Z) := ix_mfi DISP_RP 17 [K_GROUP; a; s; b; K_MISC; K_MISC; K_MISC] [m; 0].
Definition mk_BR (a s b m : Z) := ix_mfi IX_BR 16 [K_GROUP; a; s; b; K_MISC; K_MISC; K_MISC; K_MISC] [m].
Definition mk_DP (a s b m : Z) := ix_mfi IX_DP 17 [K_GROUP; a; s; b; K_MISC; K_MISC; K_MISC] [m; 0].
Definition mk_IR (a : Z) := ix_mfi DISP_IR 8 [a; K_MISC; K_RECORD; K_SYSTEM] [].
Definition mk_LQ (l s v ab lb m : Z) := ix_mfi IX_LQ 18 [K_GROUP; ab; lb; l; s; v; K_MISC; K_MISC; K_MISC; K_MISC] [m].
Definition mk_HB (a s b : Z) := ix_mfi IX_HB 8 [K_GROUP; s; b; a; K_MISC; K_MISC; K_MISC; K_MISC] [].
Definition mk_TR (o n s : Z) := ix_mfi IX_TR 8 [K_GROUP; o; n; s; K_MISC; s; K_FEEWALLET; K_SYSTEM] [].

Definition top (d : ixd) : top_ix := mkTop d [].
(* an instruction of program p that invokes `inner` by CPI *)
Definition proxy (p : prog) (inner : ixd) : top_ix :=
  mkTop (mkIxd p (40 + d_len inner) PROXY_DISC (d_accts inner ++ [K_MISC]) []) [inner].

Definition toy_world (accts : list (Z * acct tpf)) (bw : tbw) (admin risk_admin fee : Z) : world tbw tpf :=
  mkW (fun k => assoc k accts) bw admin risk_admin fee.
