(* ConfigHealth.v — how the configured weights enter account health:
     programs/marginfi/src/state/marginfi_account.rs  calc_value, calc_weighted_asset_value,
        calc_weighted_liab_value, calc_weighted_value, RiskEngine::get_account_health_components,
        RiskEngine::new_no_flashloan_check (reconciled e-mode config of the borrowed banks)
   What is abstracted (stated here once, used by the C13 buffer theorem):
   * a position carries the token amount (result of get_asset_amount / get_liability_amount), the
     biased oracle price used for it and the scaling factor EXP_10_I80F48[decimals] as given numbers;
     "equal prices" = the same price is used for the Initial and the Maintenance evaluation
     (the code uses a time-weighted price for Initial and the real-time price for Maintenance);
   * the oracle of every position is readable (a stale collateral oracle values the collateral at 0
     in the Initial check and is an error in the Maintenance check);
   * the init-only discount of maybe_get_asset_weight_init_discount is a given optional factor.
   The weight selection (max of bank and e-mode weight, ReduceOnly and Isolated rules), the order and
   rounding of the multiplications and the checked additions are as in the code. *)
Require Import Base Constants ConfigGen Fixed Curve Config Emode ConfigPaths.

Inductive req_type := CRInitial | CRMaint.

Record position := mkPos {
  p_is_liab : bool;            (* balance.get_side() *)
  p_amount : fx;               (* token amount of the active side *)
  p_price : fx;                (* low-biased (asset) / high-biased (liability) price *)
  p_scale : fx;                (* EXP_10_I80F48[bank.get_balance_decimals()] *)
  p_bank : cbank;
  p_discount : option fx       (* Some d when the bank is over its total_asset_value_init_limit *)
}.

(* calc_value(amount, price, decimals, Some(weight)) *)
Definition calc_value_w (amount price scale w : fx) : res fx :=
  if amount =? 0 then Ok 0 else
  let* wa := match cmul amount w with Ok v => Ok v | Err _ => Err EPanic end in
  let* v := ok_or (cmul wa price) EMathError in
  ok_or (cdiv v scale) EMathError.

Definition bank_asset_weight (rt : req_type) (c : bank_cfg) : fx :=
  match rt with CRInitial => bc_awi c | CRMaint => bc_awm c end.
Definition bank_liab_weight (rt : req_type) (c : bank_cfg) : fx :=
  match rt with CRInitial => bc_lwi c | CRMaint => bc_lwm c end.
Definition entry_weight (rt : req_type) (e : emode_entry) : fx :=
  match rt with CRInitial => ee_init e | CRMaint => ee_maint e end.

(* the weight chosen in calc_weighted_asset_value before the init discount *)
Definition asset_weight (rt : req_type) (b : cbank) (recon : list emode_entry) : fx :=
  match find_with_tag recon (es_tag (cb_emode b)) with
  | Some e => fmax (bank_asset_weight rt (cb_cfg b)) (entry_weight rt e)
  | None => bank_asset_weight rt (cb_cfg b)
  end.

(* calc_weighted_asset_value *)
Definition weighted_asset_value (rt : req_type) (recon : list emode_entry) (p : position) : res fx :=
  let c := cb_cfg (p_bank p) in
  if bc_risk_tier c =? RISK_COLLATERAL then
    if (bc_op_state c =? OP_REDUCE_ONLY) && (match rt with CRInitial => true | CRMaint => false end) then Ok 0
    else
      let w := asset_weight rt (p_bank p) recon in
      let* w' := match rt, p_discount p with
                 | CRInitial, Some d => ok_or (cmul w d) EMathError
                 | _, _ => Ok w
                 end in
      calc_value_w (p_amount p) (p_price p) (p_scale p) w'
  else Ok 0.

(* calc_weighted_liab_value *)
Definition weighted_liab_value (rt : req_type) (p : position) : res fx :=
  calc_value_w (p_amount p) (p_price p) (p_scale p) (bank_liab_weight rt (cb_cfg (p_bank p))).

(* get_account_health_components: (total_assets, total_liabilities) with checked additions *)
Fixpoint health_components (rt : req_type) (recon : list emode_entry) (l : list position) (acc : fx * fx)
  : res (fx * fx) :=
  match l with
  | [] => Ok acc
  | p :: rest =>
      let* av := if p_is_liab p then Ok 0 else weighted_asset_value rt recon p in
      let* lv := if p_is_liab p then weighted_liab_value rt p else Ok 0 in
      let* a' := ok_or (cadd (fst acc) av) EMathError in
      let* l' := ok_or (cadd (snd acc) lv) EMathError in
      health_components rt recon rest (a', l')
  end.

(* RiskEngine: reconcile the e-mode configs of the banks the account borrows from, then sum *)
Definition account_health (rt : req_type) (l : list position) : res (fx * fx) :=
  let* recon := reconcile_emode_configs
                  (map (fun p => es_entries (cb_emode (p_bank p))) (filter p_is_liab l)) in
  health_components rt recon l (0, 0).

(* the same evaluation with e-mode switched off (empty reconciled config) *)
Definition account_health_no_emode (rt : req_type) (l : list position) : res (fx * fx) :=
  health_components rt [] l (0, 0).

(* calc_value with the scaling factor looked up as the code does (index out of range aborts) *)
Definition calc_value_dec (amount price : fx) (decimals : Z) (w : fx) : res fx :=
  match nth_error EXP_10_I80F48 (Z.to_nat decimals) with
  | Some s => calc_value_w amount price s w
  | None => Err EPanic
  end.

(* calc_value(amount, price, decimals, None) *)
Definition calc_value_nw (amount price scale : fx) : res fx :=
  if amount =? 0 then Ok 0 else
  let* v := ok_or (cmul amount price) EMathError in
  ok_or (cdiv v scale) EMathError.

(* Bank::maybe_get_asset_weight_init_discount: `total_amount` = get_asset_amount(total_asset_shares) *)
Definition init_discount (limit : Z) (total_amount price scale : fx) : res (option fx) :=
  if limit =? TOTAL_ASSET_VALUE_INIT_LIMIT_INACTIVE then Ok None else
  let* tv := calc_value_nw total_amount price scale in
  let lim := of_int limit in
  if lim <? tv then let* d := ok_or (cdiv lim tv) EMathError in Ok (Some d) else Ok None.

(* a position as the risk engine sees it for a balance of `amount` tokens in bank `b` whose total
   deposits are `total_amount`, priced at `price` (used by the level-C health probe) *)
Definition probe_position (is_liab : bool) (amount price : fx) (decimals : Z) (b : cbank) (total_amount : fx)
  : res position :=
  match nth_error EXP_10_I80F48 (Z.to_nat decimals) with
  | None => Err EPanic
  | Some scale =>
      let* d := if is_liab then Ok None else init_discount (bc_init_limit (cb_cfg b)) total_amount price scale in
      Ok (mkPos is_liab amount price scale b d)
  end.
