(* AnchorTypes.v — syntax of the generated table of Anchor account constraints (coq/gen/AccountsTable.v,
   written by gen/coqgen_accounts.py).  Definitions only; semantics in AnchorSem.v. *)
Require Import Base.
From Coq Require Export String.

Definition key := Z.   (* abstract public key *)

(* account wrapper type of a field of a #[derive(Accounts)] struct (Box<..> is transparent) *)
Inductive wrapper :=
| WSigner                       (* Signer<'info> *)
| WLoader (ty : string)         (* AccountLoader<'info, T> *)
| WTokenAccount                 (* InterfaceAccount<'info, TokenAccount> *)
| WMint                         (* InterfaceAccount<'info, Mint> *)
| WProgram (p : string)         (* Program<'info, System | Token> *)
| WTokenInterface               (* Interface<'info, TokenInterface> *)
| WSysvar (s : string)          (* Sysvar<'info, Rent> *)
| WSystemAccount                (* SystemAccount<'info> *)
| WUnchecked.                   (* UncheckedAccount<'info> / AccountInfo<'info> *)

(* one element of `seeds = [ ... ]` *)
Inductive seed :=
| SLit (s : string)             (* CONST.as_bytes(), resolved to the literal *)
| SKeyOf (f : string)           (* f.key().as_ref() *)
| SArg (a : string)             (* &arg.to_le_bytes() (or arg.unwrap_or(0)) — an instruction argument *)
| SNum (n : Z)                  (* &[0u8], &0u16.to_le_bytes() *)
| SDataKey (f fld : string)     (* f.load()?.fld.as_ref() *)
| SConstKey (c : string).       (* system_program::ID.as_ref() *)

(* pubkey-valued expression *)
Inductive kexpr :=
| KField (f : string)           (* f.key() / the account bound to field f *)
| KData (f fld : string)        (* f.load()?.fld  /  f.fld for a deserialised token account *)
| KConst (c : string).          (* a program-id / sysvar-id constant *)

(* classified `constraint = <expr>` *)
Inductive cons :=
| CNotPaused (g : string)                                   (* !g.load()?.is_protocol_paused() *)
| CSignerAuthorized (acct grp signer : string) (allow_receivership : bool)
| CNotFrozenForAuthority (acct signer : string)
| CAcctFlags (acct : string) (l : list (bool * Z))          (* conjunction of (!)acct.get_flag(MASK) *)
| CBankFlag (bank : string) (want : bool) (mask : Z)        (* (!)bank.get_flag(MASK) *)
| CBankTag (bank : string) (fn : string)                    (* is_*_asset_tag(bank.config.asset_tag) *)
| CBankTagIs (bank : string) (tag : Z)                      (* bank.config.asset_tag == TAG *)
| CRecvZeroWeight (acct bank : string)                      (* !(acct in receivership && bank.asset_weight_init == 0) *)
| COwnerIs (f : string) (prog : string)                     (* f.owner == &PROG *)
| CKeyEq (a b : kexpr)
| CKeyNe (a b : kexpr)
| CAnd (a b : cons)
| COpaque (text : string).                                  (* not in the vocabulary: uninterpreted *)

Record field := mkField {
  f_name : string;
  f_wrap : wrapper;
  f_opt : bool;                                   (* Option<..> *)
  f_mut : bool;
  f_init : bool;
  f_close : option string;
  f_has_one : list (string * option Z);           (* target, custom error code *)
  f_address : option (kexpr * option Z);
  f_seeds : option (list seed * option string);   (* seeds, seeds::program constant *)
  f_owner : option string;                        (* owner = CONST *)
  f_token : list (string * kexpr);                (* token::mint / token::authority / associated_token::.. *)
  f_cons : list (cons * option Z)
}.

Record entry := mkEntry {
  e_ix : string;              (* instruction name (fn in lib.rs) *)
  e_struct : string;          (* Accounts struct *)
  e_args : list string;       (* instruction arguments *)
  e_fields : list field
}.
