(* AnchorSem.v — semantics of one entry of the generated accounts table: what Anchor's generated
   `try_accounts` checks before the handler runs (anchor-syn 0.31.1 codegen/accounts/{try_accounts,constraints}.rs),
   over an abstract account store.  Definitions only.

   Order of evaluation (as generated): (1) every non-`init` field is deserialised in field order (wrapper
   type checks); (2) the constraints of `init` fields in field order; (3) the constraints of the other fields
   in field order, each field's group linearised as seeds, associated_token, mut, has_one*, raw constraint*,
   owner, close, address, token.  The first failing check determines the error; the instruction is
   accepted by the validation phase iff all checks pass.

   Also here: the models of `is_signer_authorized` / `account_not_frozen_for_authority`
   (programs/marginfi/src/state/marginfi_account.rs) and of the two `get_flag`s. *)
Require Import Base Constants Panic AnchorTypes.
Local Open Scope string_scope.
Local Open Scope Z_scope.

(* ---------------------------------------------------------------------------------------------
   abstract keys of programs / sysvars *)
Definition PROG_MARGINFI : key := 1.
Definition PROG_SYSTEM : key := 2.
Definition PROG_TOKEN : key := 3.
Definition PROG_TOKEN22 : key := 4.
Definition PROG_KAMINO : key := 5.
Definition PROG_FARMS : key := 6.
Definition PROG_DRIFT : key := 7.
Definition PROG_SOLEND : key := 8.
Definition SYSVAR_INSTRUCTIONS : key := 9.
Definition SYSVAR_RENT : key := 10.
Definition PROG_ATA : key := 11.

Definition seqb := String.eqb.

Fixpoint sassoc {A} (k : string) (l : list (string * A)) : option A :=
  match l with
  | [] => None
  | (k', v) :: tl => if seqb k k' then Some v else sassoc k tl
  end.

Fixpoint zassoc {A} (k : Z) (l : list (Z * A)) : option A :=
  match l with
  | [] => None
  | (k', v) :: tl => if k =? k' then Some v else zassoc k tl
  end.

Fixpoint zmem (k : Z) (l : list Z) : bool :=
  match l with [] => false | x :: tl => (k =? x) || zmem k tl end.

Fixpoint smem (k : string) (l : list string) : bool :=
  match l with [] => false | x :: tl => seqb k x || smem k tl end.

Definition const_key (c : string) : option key :=
  sassoc c [("KAMINO_PROGRAM_ID", PROG_KAMINO); ("FARMS_PROGRAM_ID", PROG_FARMS); ("DRIFT_PROGRAM_ID", PROG_DRIFT);
            ("SOLEND_PROGRAM_ID", PROG_SOLEND); ("SYSVAR_INSTRUCTIONS_ID", SYSVAR_INSTRUCTIONS);
            ("system_program_ID", PROG_SYSTEM)].

(* T::owner() of the zero-copy account types (marginfi's own types: the program; the venue mocks: the venue) *)
Definition type_owner (ty : string) : option key :=
  sassoc ty [("MarginfiGroup", PROG_MARGINFI); ("Bank", PROG_MARGINFI); ("MarginfiAccount", PROG_MARGINFI);
             ("FeeState", PROG_MARGINFI); ("LiquidationRecord", PROG_MARGINFI); ("StakedSettings", PROG_MARGINFI);
             ("BankMetadata", PROG_MARGINFI);
             ("MinimalReserve", PROG_KAMINO); ("MinimalObligation", PROG_KAMINO);
             ("MinimalUser", PROG_DRIFT); ("MinimalUserStats", PROG_DRIFT); ("MinimalSpotMarket", PROG_DRIFT);
             ("SolendMinimalReserve", PROG_SOLEND)].

(* ---------------------------------------------------------------------------------------------
   abstract account store *)
Record account := mkAcct {
  a_owner : key;                    (* owning program *)
  a_disc : string;                  (* the type whose discriminator the data carries; "" = no data;
                                       "TokenAccount" / "Mint" for SPL accounts *)
  a_keys : list (string * key);     (* pubkey-valued data fields by name *)
  a_nums : list (string * Z)        (* numeric data fields by name *)
}.

Record world := mkWorld { w_accts : list (key * account); w_now : Z }.

Definition lookup_acct (w : world) (k : key) : option account := zassoc k (w_accts w).
(* a key without an account behaves as an empty system-owned account *)
Definition acct_of (w : world) (k : key) : account :=
  match lookup_acct w k with Some a => a | None => mkAcct PROG_SYSTEM "" [] [] end.

Definition key_field (a : account) (f : string) : option key := sassoc f (a_keys a).
Definition num_field (a : account) (f : string) : Z := match sassoc f (a_nums a) with Some z => z | None => 0 end.

(* what the client supplies *)
Record binding := mkBinding {
  b_keys : list (string * key);     (* field name -> account key; an absent Option account is the program id *)
  b_args : list (string * Z);       (* instruction arguments used in seeds *)
  b_writable : list key             (* keys passed as writable *)
}.
Definition bkey (b : binding) (f : string) : option key := sassoc f (b_keys b).

(* ---------------------------------------------------------------------------------------------
   marginfi_account.rs *)
Definition acct_get_flag (flags mask : Z) : bool := negb (Z.land flags mask =? 0).     (* account_flags & flag != 0 *)
Definition bank_get_flag (flags mask : Z) : bool := Z.land flags mask =? mask.          (* (flags & flag) == flag *)

Definition FL_RECEIVERSHIP : Z := 16.   (* ACCOUNT_IN_RECEIVERSHIP = 1 << 4; tied to the generated value in Spec.v *)
Definition FL_FROZEN : Z := 64.         (* ACCOUNT_FROZEN = 1 << 6 *)

Definition is_signer_authorized (flags : Z) (authority group_admin signer : key) (allow_receivership : bool) : bool :=
  if allow_receivership && acct_get_flag flags FL_RECEIVERSHIP then true
  else if acct_get_flag flags FL_FROZEN then group_admin =? signer
  else authority =? signer.

Definition account_not_frozen_for_authority (flags : Z) (authority signer : key) : bool :=
  negb (acct_get_flag flags FL_FROZEN && (authority =? signer)).

(* is_*_asset_tag (utils/general.rs) *)
Definition asset_tag_fn (fn : string) (tag : Z) : bool :=
  if seqb fn "is_marginfi_asset_tag" then (tag =? ASSET_TAG_DEFAULT) || (tag =? ASSET_TAG_SOL) || (tag =? ASSET_TAG_STAKED)
  else if seqb fn "is_kamino_asset_tag" then tag =? ASSET_TAG_KAMINO
  else if seqb fn "is_drift_asset_tag" then tag =? ASSET_TAG_DRIFT
  else if seqb fn "is_solend_asset_tag" then tag =? ASSET_TAG_SOLEND
  else false.

(* ---------------------------------------------------------------------------------------------
   PDA derivation is abstract: `pda program seeds`.  Uninterpreted constraints are abstract: `opq`. *)
Inductive seed_val := VStr (s : string) | VKey (k : key) | VNum (z : Z).

Section Sem.
Context (pda : key -> list seed_val -> key).
Context (opq : string -> world -> binding -> bool).

Definition opt_key_eqb (a b : option key) : bool :=
  match a, b with Some x, Some y => x =? y | _, _ => false end.

Definition eval_kexpr (w : world) (b : binding) (e : kexpr) : option key :=
  match e with
  | KField f => bkey b f
  | KData f fld => match bkey b f with Some k => key_field (acct_of w k) fld | None => None end
  | KConst c => const_key c
  end.

Definition eval_seed (w : world) (b : binding) (s : seed) : option seed_val :=
  match s with
  | SLit t => Some (VStr t)
  | SKeyOf f => option_map VKey (bkey b f)
  | SArg a => option_map VNum (sassoc a (b_args b))
  | SNum n => Some (VNum n)
  | SDataKey f fld => option_map VKey (eval_kexpr w b (KData f fld))
  | SConstKey c => option_map VKey (const_key c)
  end.

Fixpoint eval_seeds (w : world) (b : binding) (l : list seed) : option (list seed_val) :=
  match l with
  | [] => Some []
  | s :: tl =>
    match eval_seed w b s, eval_seeds w b tl with
    | Some v, Some vs => Some (v :: vs)
    | _, _ => None
    end
  end.

Definition group_cache (a : account) : pcache :=
  mkC (num_field a "pause_flags") (num_field a "pause_start") (num_field a "pause_last_update").

Definition bound_acct (w : world) (b : binding) (f : string) : account :=
  match bkey b f with Some k => acct_of w k | None => mkAcct PROG_SYSTEM "" [] [] end.

Fixpoint eval_cons (w : world) (b : binding) (c : cons) : bool :=
  match c with
  | CNotPaused g =>
      match is_protocol_paused (group_cache (bound_acct w b g)) (w_now w) with
      | Ok p => negb p
      | Err _ => false
      end
  | CSignerAuthorized acct grp signer allow =>
      let a := bound_acct w b acct in
      match key_field a "authority", key_field (bound_acct w b grp) "admin", bkey b signer with
      | Some au, Some ad, Some s => is_signer_authorized (num_field a "account_flags") au ad s allow
      | _, _, _ => false
      end
  | CNotFrozenForAuthority acct signer =>
      let a := bound_acct w b acct in
      match key_field a "authority", bkey b signer with
      | Some au, Some s => account_not_frozen_for_authority (num_field a "account_flags") au s
      | _, _ => false
      end
  | CAcctFlags acct l =>
      let fl := num_field (bound_acct w b acct) "account_flags" in
      forallb (fun wm => Bool.eqb (acct_get_flag fl (snd wm)) (fst wm)) l
  | CBankFlag bank want mask => Bool.eqb (bank_get_flag (num_field (bound_acct w b bank) "flags") mask) want
  | CBankTag bank fn => asset_tag_fn fn (num_field (bound_acct w b bank) "asset_tag")
  | CBankTagIs bank tag => num_field (bound_acct w b bank) "asset_tag" =? tag
  | CRecvZeroWeight acct bank =>
      negb (acct_get_flag (num_field (bound_acct w b acct) "account_flags") FL_RECEIVERSHIP
            && (num_field (bound_acct w b bank) "asset_weight_init" =? 0))
  | COwnerIs f prog => opt_key_eqb (Some (a_owner (bound_acct w b f))) (const_key prog)
  | CKeyEq x y => opt_key_eqb (eval_kexpr w b x) (eval_kexpr w b y)
  | CKeyNe x y =>
      match eval_kexpr w b x, eval_kexpr w b y with
      | Some p, Some q => negb (p =? q)
      | _, _ => false
      end
  | CAnd x y => eval_cons w b x && eval_cons w b y
  | COpaque t => opq t w b
  end.

(* Anchor framework error numbers (anchor-lang 0.31.1 error.rs) *)
Definition A_ConstraintMut : Z := 2000.
Definition A_ConstraintHasOne : Z := 2001.
Definition A_ConstraintRaw : Z := 2003.
Definition A_ConstraintOwner : Z := 2004.
Definition A_ConstraintSeeds : Z := 2006.
Definition A_ConstraintClose : Z := 2011.
Definition A_ConstraintAddress : Z := 2012.
Definition A_ConstraintTokenMint : Z := 2014.
Definition A_ConstraintTokenOwner : Z := 2015.
Definition A_ConstraintTokenTokenProgram : Z := 2021.
Definition A_ConstraintAssociated : Z := 2009.
Definition A_ConstraintAssociatedTokenTokenProgram : Z := 2023.
Definition A_AccountDiscriminatorNotFound : Z := 3001.
Definition A_AccountDiscriminatorMismatch : Z := 3002.
Definition A_AccountDidNotDeserialize : Z := 3003.
Definition A_AccountNotEnoughKeys : Z := 3005.
Definition A_AccountOwnedByWrongProgram : Z := 3007.
Definition A_InvalidProgramId : Z := 3008.
Definition A_AccountNotSigner : Z := 3010.
Definition A_AccountNotSystemOwned : Z := 3011.
Definition A_AccountNotInitialized : Z := 3012.
(* not Anchor errors: a system-program failure inside `init` (account already in use, Custom(0)), a missing
   signature for a non-PDA `init` account, Sysvar::from_account_info (ProgramError::InvalidArgument) *)
Definition X_AlreadyInUse : Z := 0.
Definition X_MissingSignature : Z := -2.
Definition X_InvalidArgument : Z := -3.

Definition code_or (o : option Z) (d : Z) : Z := match o with Some c => c | None => d end.

(* one check: (field it is attributed to, error number when it fails, does it hold) *)
Definition vcheck := (string * Z * bool)%type.
Definition vcheck_ok (c : vcheck) : bool := snd c.

Definition absent (f : field) (k : key) : bool := f_opt f && (k =? PROG_MARGINFI).

(* (1) wrapper type checks of `Accounts::try_accounts` for one non-init field bound to key k *)
Definition deser_checks (w : world) (signers : list key) (f : field) (k : key) : list (Z * bool) :=
  let a := acct_of w k in
  match f_wrap f with
  | WSigner => [(A_AccountNotSigner, zmem k signers)]
  | WLoader ty =>
      [(A_AccountOwnedByWrongProgram, opt_key_eqb (Some (a_owner a)) (type_owner ty));
       (A_AccountDiscriminatorNotFound, negb (seqb (a_disc a) ""));
       (A_AccountDiscriminatorMismatch, seqb (a_disc a) ty)]
  | WTokenAccount =>
      [(A_AccountNotInitialized, match lookup_acct w k with Some _ => true | None => false end);
       (A_AccountOwnedByWrongProgram, (a_owner a =? PROG_TOKEN) || (a_owner a =? PROG_TOKEN22));
       (A_AccountDidNotDeserialize, seqb (a_disc a) "TokenAccount")]
  | WMint =>
      [(A_AccountNotInitialized, match lookup_acct w k with Some _ => true | None => false end);
       (A_AccountOwnedByWrongProgram, (a_owner a =? PROG_TOKEN) || (a_owner a =? PROG_TOKEN22));
       (A_AccountDidNotDeserialize, seqb (a_disc a) "Mint")]
  | WProgram p =>
      [(A_InvalidProgramId, if seqb p "System" then k =? PROG_SYSTEM else if seqb p "Token" then k =? PROG_TOKEN else false)]
  | WTokenInterface => [(A_InvalidProgramId, (k =? PROG_TOKEN) || (k =? PROG_TOKEN22))]
  | WSysvar s => [(X_InvalidArgument, if seqb s "Rent" then k =? SYSVAR_RENT else false)]
  | WSystemAccount => [(A_AccountNotSystemOwned, a_owner a =? PROG_SYSTEM)]
  | WUnchecked => []
  end.

Definition name_checks (f : field) (l : list (Z * bool)) : list vcheck :=
  map (fun cb => (f_name f, fst cb, snd cb)) l.

Definition phase1_field (w : world) (b : binding) (signers : list key) (f : field) : list vcheck :=
  if f_init f then
    match bkey b (f_name f) with Some _ => [] | None => [(f_name f, A_AccountNotEnoughKeys, false)] end
  else
    match bkey b (f_name f) with
    | None => [(f_name f, A_AccountNotEnoughKeys, false)]
    | Some k => if absent f k then [] else name_checks f (deser_checks w signers f k)
    end.

Definition seeds_check (w : world) (b : binding) (f : field) (k : key) : list (Z * bool) :=
  match f_seeds f with
  | None => []
  | Some (sl, prog) =>
      let p := match prog with None => Some PROG_MARGINFI | Some c => const_key c end in
      [(A_ConstraintSeeds,
        match p, eval_seeds w b sl with
        | Some pk, Some vs => k =? pda pk vs
        | _, _ => false
        end)]
  end.

(* (2) constraints of an `init` field: seeds, then the system-program create (fails if the address is
   already in use); an address that is not a PDA must sign *)
Definition phase2_field (w : world) (b : binding) (signers : list key) (f : field) : list vcheck :=
  if f_init f then
    match bkey b (f_name f) with
    | None => []
    | Some k =>
      if absent f k then [] else
      name_checks f
        (seeds_check w b f k ++
         [(X_AlreadyInUse, match lookup_acct w k with Some _ => false | None => true end)] ++
         match f_seeds f with Some _ => [] | None => [(X_MissingSignature, zmem k signers)] end)
    end
  else [].

(* token::{authority, mint, token_program} of an existing token account, in the generated order *)
Definition token_checks (w : world) (b : binding) (f : field) (k : key) : list (Z * bool) :=
  let a := acct_of w k in
  match sassoc "token::authority" (f_token f) with
  | Some e => [(A_ConstraintTokenOwner, opt_key_eqb (key_field a "owner") (eval_kexpr w b e))] | None => [] end ++
  match sassoc "token::mint" (f_token f) with
  | Some e => [(A_ConstraintTokenMint, opt_key_eqb (key_field a "mint") (eval_kexpr w b e))] | None => [] end ++
  match sassoc "token::token_program" (f_token f) with
  | Some e => [(A_ConstraintTokenTokenProgram, opt_key_eqb (Some (a_owner a)) (eval_kexpr w b e))] | None => [] end.

(* associated_token::{mint, authority, token_program} of an existing account: owning token program,
   token owner = wallet, address = ATA(wallet, token program, mint) *)
Definition ata_checks (w : world) (b : binding) (f : field) (k : key) : list (Z * bool) :=
  match sassoc "associated_token::authority" (f_token f), sassoc "associated_token::mint" (f_token f) with
  | Some wa, Some mi =>
      let a := acct_of w k in
      let tpe := sassoc "associated_token::token_program" (f_token f) in
      let tp := match tpe with Some e => eval_kexpr w b e | None => Some PROG_TOKEN end in
      match tpe with Some _ => [(A_ConstraintAssociatedTokenTokenProgram, opt_key_eqb (Some (a_owner a)) tp)] | None => [] end ++
      [(A_ConstraintTokenOwner, opt_key_eqb (key_field a "owner") (eval_kexpr w b wa));
       (A_ConstraintAssociated,
        match eval_kexpr w b wa, tp, eval_kexpr w b mi with
        | Some wk, Some tk, Some mk => k =? pda PROG_ATA [VKey wk; VKey tk; VKey mk]
        | _, _, _ => false
        end)]
  | _, _ => []
  end.

(* (3) constraints of a non-init field *)
Definition phase3_field (w : world) (b : binding) (f : field) : list vcheck :=
  if f_init f then [] else
  match bkey b (f_name f) with
  | None => []
  | Some k =>
    if absent f k then [] else
    let a := acct_of w k in
    name_checks f
      (seeds_check w b f k ++
       ata_checks w b f k ++
       (if f_mut f then [(A_ConstraintMut, zmem k (b_writable b))] else []) ++
       map (fun h => (code_or (snd h) A_ConstraintHasOne, opt_key_eqb (key_field a (fst h)) (bkey b (fst h)))) (f_has_one f) ++
       map (fun c => (code_or (snd c) A_ConstraintRaw, eval_cons w b (fst c))) (f_cons f) ++
       match f_owner f with Some c => [(A_ConstraintOwner, opt_key_eqb (Some (a_owner a)) (const_key c))] | None => [] end ++
       match f_close f with
       | Some t => [(A_ConstraintClose, match bkey b t with Some tk => negb (k =? tk) | None => false end)]
       | None => [] end ++
       match f_address f with
       | Some (e, c) => [(code_or c A_ConstraintAddress, opt_key_eqb (Some k) (eval_kexpr w b e))]
       | None => [] end) ++
    (* Anchor raises the token::* constraint errors without naming the account *)
    map (fun cb => ("?", fst cb, snd cb)) (token_checks w b f k)
  end.

Definition checks (e : entry) (w : world) (b : binding) (signers : list key) : list vcheck :=
  flat_map (phase1_field w b signers) (e_fields e) ++
  flat_map (phase2_field w b signers) (e_fields e) ++
  flat_map (phase3_field w b) (e_fields e).

Inductive verdict := VOk | VRej (fld : string) (code : Z).

Fixpoint first_fail (l : list vcheck) : verdict :=
  match l with
  | [] => VOk
  | (f, c, ok) :: tl => if ok then first_fail tl else VRej f c
  end.

Definition validate (e : entry) (w : world) (b : binding) (signers : list key) : verdict :=
  first_fail (checks e w b signers).

(* accepted by the account-validation phase *)
Definition accepts (e : entry) (w : world) (b : binding) (signers : list key) : bool :=
  forallb vcheck_ok (checks e w b signers).

End Sem.

Fixpoint find_entry (name : string) (t : list entry) : option entry :=
  match t with
  | [] => None
  | e :: tl => if seqb name (e_ix e) then Some e else find_entry name tl
  end.

Fixpoint find_field (name : string) (l : list field) : option field :=
  match l with
  | [] => None
  | f :: tl => if seqb name (f_name f) then Some f else find_field name tl
  end.
