(* Curve.v — model of programs/marginfi/src/state/interest_rate.rs:
   InterestRateConfig::{validate, validate_legacy, validate_seven_point},
   InterestRateCalc::{calc_interest_rate, interest_rate_curve, interest_rate_multipoint_curve, lerp,
   rate_from_u32, util_from_u32, get_fees}, calc_fee_rate. *)
Require Import Base Constants Fixed.

Record rate_point := mkRP { rp_util : Z; rp_rate : Z }.   (* u32, u32 *)

Record ir_config := mkIR {
  ir_optimal : fx; ir_plateau : fx; ir_max : fx;              (* legacy curve *)
  ir_ins_fixed : fx; ir_ins_rate : fx;                        (* insurance fee *)
  ir_grp_fixed : fx; ir_grp_rate : fx;                        (* group ("protocol_*" in the code) fee *)
  ir_zero : Z; ir_hundred : Z;                                (* u32 *)
  ir_points : list rate_point;                                (* [RatePoint; 5] *)
  ir_curve_type : Z                                           (* u8 *)
}.

(* program-fee part of the calculator: (add_program_fees, program_fee_fixed, program_fee_rate) *)
Record prog_fees := mkPF { pf_on : bool; pf_fixed : fx; pf_rate : fx }.

Definition INTEREST_CURVE_LEGACY : Z := 0.
Definition INTEREST_CURVE_SEVEN_POINT : Z := 1.

Definition EInvalidConfig : err := E E_InvalidConfig.

(* ---------------------------------------------------------------- validation *)
Definition validate_legacy (c : ir_config) : res unit :=
  let* _ := check ((0 <? ir_optimal c) && (ir_optimal c <? ONE)) EInvalidConfig in
  let* _ := check (0 <? ir_plateau c) EInvalidConfig in
  let* _ := check (0 <? ir_max c) EInvalidConfig in
  check (ir_plateau c <? ir_max c) EInvalidConfig.

(* first loop: collect used points, enforce trailing padding *)
Fixpoint collect_used (pts : list rate_point) (seen_padding : bool) : res (list rate_point) :=
  match pts with
  | [] => Ok []
  | p :: rest =>
      if rp_util p =? 0 then
        if negb (rp_rate p =? 0) then Err EInvalidConfig
        else collect_used rest true
      else
        if seen_padding then Err EInvalidConfig
        else let* u := collect_used rest false in Ok (p :: u)
  end.

(* second loop: strictly increasing util, non-decreasing rate *)
Fixpoint check_ascending (used : list rate_point) : res unit :=
  match used with
  | prev :: ((curr :: _) as tl) =>
      if curr.(rp_util) <=? prev.(rp_util) then Err EInvalidConfig
      else if curr.(rp_rate) <? prev.(rp_rate) then Err EInvalidConfig
      else check_ascending tl
  | _ => Ok tt
  end.

Definition validate_seven_point (c : ir_config) : res unit :=
  let* used := collect_used (ir_points c) false in
  let* _ := check_ascending used in
  let* _ := check (ir_zero c <=? ir_hundred c) EInvalidConfig in
  check (forallb (fun p => (ir_zero c <=? rp_rate p) && (rp_rate p <=? ir_hundred c)) used) EInvalidConfig.

Definition ir_validate (c : ir_config) : res unit :=
  if ir_curve_type c =? INTEREST_CURVE_LEGACY then validate_legacy c
  else if ir_curve_type c =? INTEREST_CURVE_SEVEN_POINT then validate_seven_point c
  else Err EPanic.

(* ---------------------------------------------------------------- curve evaluation *)
Definition rate_from_u32 (r : Z) : res fx :=
  let* q := wdiv (of_int r) (of_int U32_MAXZ) in Ok (wmul q (of_int 10)).

Definition util_from_u32 (u : Z) : res fx := wdiv (of_int u) (of_int U32_MAXZ).

Definition lerp (sx sy ex ey tx : fx) : res fx :=
  if ex <=? sx then Ok sy
  else if tx <? sx then Err ENone
  else if ex <? tx then Err ENone
  else if ey <? sy then Err ENone
  else
    let* dx := usub ex sx in
    if dx =? 0 then Ok sy else
    let* off := usub tx sx in
    let* prop := wdiv off dx in
    let* dy := usub ey sy in
    let* sc := cmul dy prop in
    uadd sy sc.

Fixpoint mpc_loop (pts : list rate_point) (pu pr ur hr : fx) : res fx :=
  match pts with
  | [] => lerp pu pr ONE hr ur
  | p :: rest =>
      if rp_util p =? 0 then mpc_loop rest pu pr ur hr
      else
        let* pu' := util_from_u32 (rp_util p) in
        let* pr' := rate_from_u32 (rp_rate p) in
        if ur <=? pu' then lerp pu pr pu' pr' ur
        else mpc_loop rest pu' pr' ur hr
  end.

Definition clamp01 (ur : fx) : fx := fmin (fmax ur 0) ONE.

(* interest_rate_multipoint_curve *)
Definition mpc (c : ir_config) (ur : fx) : res fx :=
  let* zr := rate_from_u32 (ir_zero c) in
  let* hr := rate_from_u32 (ir_hundred c) in
  mpc_loop (ir_points c) 0 zr (clamp01 ur) hr.

(* interest_rate_curve (legacy) *)
Definition legacy_curve (c : ir_config) (ur : fx) : res fx :=
  if ur <=? ir_optimal c then
    let* q := cdiv ur (ir_optimal c) in cmul q (ir_plateau c)
  else
    let* a := usub ur (ir_optimal c) in
    let* b := usub ONE (ir_optimal c) in
    let* q := cdiv a b in
    let* d := usub (ir_max c) (ir_plateau c) in
    let* m := cmul q d in
    cadd m (ir_plateau c).

Definition calc_fee_rate (base rate_fees fixed_fees : fx) : res fx :=
  if rate_fees =? 0 then Ok fixed_fees
  else let* m := cmul base rate_fees in cadd m fixed_fees.

Record rates := mkRates {
  r_base : fx; r_lending : fx; r_borrowing : fx; r_group : fx; r_insurance : fx; r_protocol : fx }.

Definition assert (b : bool) : res unit := if b then Ok tt else Err EPanic.

(* InterestRateCalc::calc_interest_rate *)
Definition calc_interest_rate (c : ir_config) (pf : prog_fees) (ur : fx) : res rates :=
  let prot_rate := if pf_on pf then pf_rate pf else 0 in
  let prot_fixed := if pf_on pf then pf_fixed pf else 0 in
  let* fee_ir0 := uadd (ir_ins_rate c) (ir_grp_rate c) in
  let* fee_ir := uadd fee_ir0 prot_rate in
  let* fee_fixed0 := uadd (ir_ins_fixed c) (ir_grp_fixed c) in
  let* fee_fixed := uadd fee_fixed0 prot_fixed in
  let* base :=
    if ir_curve_type c =? INTEREST_CURVE_LEGACY then legacy_curve c ur
    else if ir_curve_type c =? INTEREST_CURVE_SEVEN_POINT then mpc c ur
    else Err EPanic in
  let* lending := cmul base ur in
  let* one_fee := cadd ONE fee_ir in
  let* b0 := cmul base one_fee in
  let* borrowing := cadd b0 fee_fixed in
  let* grp := calc_fee_rate base (ir_grp_rate c) (ir_grp_fixed c) in
  let* ins := calc_fee_rate base (ir_ins_rate c) (ir_ins_fixed c) in
  let* prot := calc_fee_rate base prot_rate prot_fixed in
  let* _ := assert (0 <=? lending) in
  let* _ := assert (0 <=? borrowing) in
  let* _ := assert (0 <=? grp) in
  let* _ := assert (0 <=? ins) in
  let* _ := assert (0 <=? prot) in
  Ok (mkRates base lending borrowing grp ins prot).
