(* Base.v — result monad, machine-integer ranges, saturating/aborting integer ops.
   Definitions only (the model must keep running when a proof breaks). *)
From Coq Require Export ZArith List Bool Lia.
Export ListNotations.
Open Scope Z_scope.

(* How a Rust computation can end other than by returning a value.
   EPanic  : abort (panic!, overflow check, assert!, unwrap on None, division by zero)
   ENone   : an Option-returning function returned None
   E code  : a MarginfiError / Anchor error with that number (6000-based for MarginfiError) *)
Inductive err : Set := EPanic | ENone | E (code : Z).

Inductive res (A : Type) : Type := Ok (a : A) | Err (e : err).
Arguments Ok {A} a.
Arguments Err {A} e.

Definition bind {A B} (r : res A) (f : A -> res B) : res B :=
  match r with Ok a => f a | Err e => Err e end.
Notation "'let*' x ':=' r 'in' k" := (bind r (fun x => k))
  (at level 200, x pattern, r at level 100, k at level 200, right associativity).

Definition ret {A} (a : A) : res A := Ok a.

(* `opt.ok_or(err)?` / `ok_or_else(math_error!())?` : ENone becomes the given error *)
Definition ok_or {A} (r : res A) (e : err) : res A :=
  match r with Err ENone => Err e | _ => r end.

(* `check!(cond, err)` / `require!(cond, err)` *)
Definition check (c : bool) (e : err) : res unit := if c then Ok tt else Err e.

Definition is_ok {A} (r : res A) : bool := match r with Ok _ => true | Err _ => false end.

(* Machine integer ranges *)
Definition U8_MAX  : Z := 2^8 - 1.
Definition U16_MAX : Z := 2^16 - 1.
Definition U32_MAXZ : Z := 2^32 - 1.
Definition U64_MAX : Z := 2^64 - 1.
Definition U128_MAX : Z := 2^128 - 1.
Definition I64_MIN : Z := - 2^63.
Definition I64_MAX : Z := 2^63 - 1.
Definition I128_MIN : Z := - 2^127.
Definition I128_MAX : Z := 2^127 - 1.

Definition in_range (lo hi z : Z) : bool := (lo <=? z) && (z <=? hi).
Definition in_u8 := in_range 0 U8_MAX.
Definition in_u16 := in_range 0 U16_MAX.
Definition in_u32 := in_range 0 U32_MAXZ.
Definition in_u64 := in_range 0 U64_MAX.
Definition in_u128 := in_range 0 U128_MAX.
Definition in_i64 := in_range I64_MIN I64_MAX.
Definition in_i128 := in_range I128_MIN I128_MAX.

Definition clamp (lo hi z : Z) : Z := Z.max lo (Z.min hi z).

(* saturating ops *)
Definition sat_i64 (z : Z) : Z := clamp I64_MIN I64_MAX z.
Definition sat_u8 (z : Z) : Z := clamp 0 U8_MAX z.
Definition sat_u64 (z : Z) : Z := clamp 0 U64_MAX z.

(* unchecked `+`/`-`/`*` on primitive integers under overflow-checks = true: abort when out of range *)
Definition chk (inr : Z -> bool) (z : Z) : res Z := if inr z then Ok z else Err EPanic.
(* checked_* on primitive integers: None when out of range *)
Definition chko (inr : Z -> bool) (z : Z) : res Z := if inr z then Ok z else Err ENone.

(* two's-complement wrap to a signed / unsigned width *)
Definition wrap_s (bits : Z) (z : Z) : Z := (z + 2^(bits-1)) mod 2^bits - 2^(bits-1).
Definition wrap_u (bits : Z) (z : Z) : Z := z mod 2^bits.

Fixpoint mapM {A B} (f : A -> res B) (l : list A) : res (list B) :=
  match l with
  | [] => Ok []
  | x :: xs => let* y := f x in let* ys := mapM f xs in Ok (y :: ys)
  end.

Fixpoint foldM {A S} (f : S -> A -> res S) (l : list A) (s : S) : res S :=
  match l with
  | [] => Ok s
  | x :: xs => let* s' := f s x in foldM f xs s'
  end.
