(* TransferFee.v — model of spl-token-2022 7.0.0 TransferFee::{calculate_fee, calculate_pre_fee_amount}
   (library code called by marginfi::utils::calculate_pre_fee_spl_deposit_amount with `.unwrap()`). *)
Require Import Base.

Definition BPS_ONE : Z := 10000.

Definition ceil_div (n d : Z) : res Z :=
  let* a := chko in_u128 (n + d) in
  let* b := chko in_u128 (a - 1) in
  if d =? 0 then Err ENone else Ok (b / d).

Definition calculate_fee (bps maxfee pre : Z) : res Z :=
  if (bps =? 0) || (pre =? 0) then Ok 0 else
  let* num := chko in_u128 (pre * bps) in
  let* raw := ceil_div num BPS_ONE in
  let* raw64 := chko in_u64 raw in
  Ok (Z.min raw64 maxfee).

Definition calculate_pre_fee_amount (bps maxfee post : Z) : res Z :=
  if bps =? 0 then Ok post
  else if post =? 0 then Ok 0
  else if bps =? BPS_ONE then chko in_u64 (maxfee + post)
  else
    let* num := chko in_u128 (post * BPS_ONE) in
    let* den := chko in_u128 (BPS_ONE - bps) in
    let* raw := ceil_div num den in
    let* diff := chko in_u128 (raw - post) in
    if maxfee <=? diff then chko in_u64 (post + maxfee) else chko in_u64 raw.

(* marginfi's wrapper: unwrap() turns None into an abort *)
Definition pre_fee_deposit_amount (bps maxfee post : Z) : res Z :=
  match calculate_pre_fee_amount bps maxfee post with
  | Ok v => Ok v | Err _ => Err EPanic end.

(* A mint with a PENDING fee change holds two schedules (TransferFeeConfig::{older,newer}_transfer_fee); the token program
   charges, and marginfi must gross up with, the one in force in the CURRENT epoch:
     get_epoch_fee(epoch) = if epoch >= newer.epoch { newer } else { older } *)
Record fee_schedule := mkFS { fs_old_bps : Z; fs_old_max : Z; fs_new_bps : Z; fs_new_max : Z; fs_new_epoch : Z }.

Definition get_epoch_fee (s : fee_schedule) (epoch : Z) : Z * Z :=
  if fs_new_epoch s <=? epoch then (fs_new_bps s, fs_new_max s) else (fs_old_bps s, fs_old_max s).

(* calculate_pre_fee_spl_deposit_amount(mint, post, epoch) *)
Definition pre_fee_deposit_amount_at (s : fee_schedule) (epoch post : Z) : res Z :=
  pre_fee_deposit_amount (fst (get_epoch_fee s epoch)) (snd (get_epoch_fee s epoch)) post.

(* TransferFeeConfig::calculate_epoch_fee: what the token program withholds from a transfer in `epoch` *)
Definition calculate_epoch_fee (s : fee_schedule) (epoch pre : Z) : res Z :=
  calculate_fee (fst (get_epoch_fee s epoch)) (snd (get_epoch_fee s epoch)) pre.

(* lending_pool_setup_emissions(total) / lending_pool_update_emissions_parameters(additional): the bank records `amount`
   as funded emissions and pulls the grossed-up amount from the funding account (balance `balance`; the token program
   refuses with InsufficientFunds = Custom(1)); the emissions vault receives what is left after the mint's fee.
   Result: (sent, received). *)
Definition SPL_INSUFFICIENT_FUNDS : Z := 1.
Definition fund_emissions (has_fee : bool) (s : fee_schedule) (epoch balance amount : Z) : res (Z * Z) :=
  let* pre := if has_fee then pre_fee_deposit_amount_at s epoch amount else Ok amount in
  if balance <? pre then Err (E SPL_INSUFFICIENT_FUNDS) else
  let* fee := if has_fee then (match calculate_epoch_fee s epoch pre with Ok f => Ok f | Err _ => Err EPanic end) else Ok 0 in
  Ok (pre, pre - fee).
