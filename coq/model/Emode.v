(* Emode.v — model of the e-mode configuration code:
     programs/marginfi/src/state/emode.rs   calculate_max_leverage, validate_entries_with_liability_weights,
                                            check_dupes, update_emode_enabled
     type-crate/src/types/emode.rs          EmodeEntry, EmodeSettings, EmodeConfig::{from_entries, find_with_tag,
                                            has_entries}, reconcile_emode_configs
     type-crate/src/types/interest_rate.rs  u32_to_basis, basis_to_u32
   An EmodeConfig ([EmodeEntry; 10]) is a list of entries; nothing below depends on the length 10
   except from_entries' overflow abort.  EmodeEntry.pad0 is not modelled. *)
Require Import Base Constants ConfigGen Fixed Curve Config.

Record emode_entry := mkEE { ee_tag : Z; ee_flags : Z; ee_init : fx; ee_maint : fx }.   (* u16, u8, I80F48 x2 *)

Record emode_settings := mkES {
  es_tag : Z;                 (* emode_tag, u16 *)
  es_timestamp : Z;           (* i64 *)
  es_flags : Z;               (* u64 *)
  es_entries : list emode_entry }.

Definition ee_zero : emode_entry := mkEE 0 0 0 0.
Definition ee_is_empty (e : emode_entry) : bool := ee_tag e =? EMODE_TAG_EMPTY.
Definition es_zeroed : emode_settings := mkES 0 0 0 (repeat ee_zero (Z.to_nat MAX_EMODE_ENTRIES)).

(* u32_to_basis: (v / u32::MAX) * 100 with the wrapping operators *)
Definition u32_to_basis (v : Z) : res fx :=
  let* q := wdiv (of_int v) (of_int U32_MAXZ) in Ok (wmul q (of_int 100)).

(* basis_to_u32: clamp to [0,100], / 100, * u32::MAX, to_num::<u32>() *)
Definition basis_to_u32 (v : fx) : res Z :=
  let clamped := fmax (fmin v (of_int 100)) 0 in
  let* ratio := wdiv clamped (of_int 100) in
  Ok (to_u32_wrapping (wmul ratio (of_int U32_MAXZ))).

(* calculate_max_leverage *)
Definition calc_max_leverage (cw lw : fx) : res fx :=
  let* _ := check (0 <? lw) EBadEmodeConfig in
  let* _ := check (cw <? lw) EBadEmodeConfig in
  let* ratio := ok_or (cdiv cw lw) EMathError in
  let* den := usub ONE ratio in
  let* _ := check (0 <? den) EBadEmodeConfig in
  ok_or (cdiv ONE den) EMathError.

(* body of the loop in validate_entries_with_liability_weights *)
Definition em_validate_entry (lwi lwm capi capm : fx) (e : emode_entry) : res unit :=
  if ee_is_empty e then Ok tt else
  let* _ := check (0 <=? ee_init e) EBadEmodeConfig in
  let* _ := check (ee_init e <=? ee_maint e) EBadEmodeConfig in
  let* li := calc_max_leverage (ee_init e) lwi in
  let* _ := check (li <=? capi) EBadEmodeConfig in
  let* lm := calc_max_leverage (ee_maint e) lwm in
  check (lm <=? capm) EBadEmodeConfig.

Fixpoint em_validate_loop (lwi lwm capi capm : fx) (l : list emode_entry) : res unit :=
  match l with
  | [] => Ok tt
  | e :: r => let* _ := em_validate_entry lwi lwm capi capm e in em_validate_loop lwi lwm capi capm r
  end.

Definition nonempty_tags (l : list emode_entry) : list Z :=
  map ee_tag (filter (fun e => negb (ee_is_empty e)) l).

(* windows(2).any(|w| w[0] == w[1]) *)
Fixpoint has_adjacent_dup (l : list Z) : bool :=
  match l with
  | a :: ((b :: _) as tl) => (a =? b) || has_adjacent_dup tl
  | _ => false
  end.

Definition em_check_dupes (l : list emode_entry) : res unit :=
  if has_adjacent_dup (nonempty_tags l) then Err EBadEmodeConfig else Ok tt.

(* EmodeSettings::validate_entries_with_liability_weights(&bank_config, cap_init_u32, cap_maint_u32) *)
Definition em_validate (es : emode_settings) (c : bank_cfg) (cap_i cap_m : Z) : res unit :=
  let* capi := u32_to_basis cap_i in
  let* capm := u32_to_basis cap_m in
  let* _ := em_validate_loop (bc_lwi c) (bc_lwm c) capi capm (es_entries es) in
  em_check_dupes (es_entries es).

(* slice::sort_by_key(|e| e.collateral_bank_emode_tag) is a stable sort: stable insertion sort *)
Fixpoint ee_insert (x : emode_entry) (l : list emode_entry) : list emode_entry :=
  match l with
  | [] => [x]
  | y :: r => if ee_tag x <=? ee_tag y then x :: y :: r else y :: ee_insert x r
  end.
Definition ee_sort (l : list emode_entry) : list emode_entry := fold_right ee_insert [] l.

Definition has_entries (l : list emode_entry) : bool := existsb (fun e => negb (ee_is_empty e)) l.

(* update_emode_enabled *)
Definition update_emode_enabled (es : emode_settings) : emode_settings :=
  mkES (es_tag es) (es_timestamp es)
       (if has_entries (es_entries es) then Z.lor (es_flags es) EMODE_ON else Z.ldiff (es_flags es) EMODE_ON)
       (es_entries es).

(* EmodeConfig::find_with_tag *)
Definition find_with_tag (l : list emode_entry) (tag : Z) : option emode_entry :=
  if tag =? EMODE_TAG_EMPTY then None else find (fun e => ee_tag e =? tag) l.

(* ---------------------------------------------------------------- reconcile_emode_configs *)
(* BTreeMap<u16, (EmodeEntry, usize)> as an association list kept sorted by tag *)
Definition merge_into (cur new : emode_entry) : emode_entry :=
  mkEE (ee_tag cur) (Z.min (ee_flags cur) (ee_flags new))
       (if ee_init new <? ee_init cur then ee_init new else ee_init cur)
       (if ee_maint new <? ee_maint cur then ee_maint new else ee_maint cur).

Fixpoint merge_entry (m : list (emode_entry * Z)) (e : emode_entry) : list (emode_entry * Z) :=
  match m with
  | [] => [(e, 1)]
  | (x, c) :: r =>
      if ee_tag e =? ee_tag x then (merge_into x e, c + 1) :: r
      else if ee_tag e <? ee_tag x then (e, 1) :: (x, c) :: r
      else (x, c) :: merge_entry r e
  end.

Definition merge_cfg (m : list (emode_entry * Z)) (cfg : list emode_entry) : list (emode_entry * Z) :=
  fold_left (fun m e => if ee_is_empty e then m else merge_entry m e) cfg m.

(* EmodeConfig::from_entries: abort if more than MAX_EMODE_ENTRIES, stable sort by tag, zero padding *)
Definition from_entries (l : list emode_entry) : res (list emode_entry) :=
  if MAX_EMODE_ENTRIES <? Z.of_nat (length l) then Err EPanic
  else Ok (ee_sort l ++ repeat ee_zero (Z.to_nat MAX_EMODE_ENTRIES - length l)).

Definition reconcile_emode_configs (cfgs : list (list emode_entry)) : res (list emode_entry) :=
  match cfgs with
  | [] => Ok (repeat ee_zero (Z.to_nat MAX_EMODE_ENTRIES))
  | _ =>
      let m := fold_left merge_cfg cfgs [] in
      let n := Z.of_nat (length cfgs) in
      from_entries (map fst (filter (fun xc => snd xc =? n) m))
  end.
