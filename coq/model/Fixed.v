(* Fixed.v — model of fixed::types::I80F48 (crate `fixed` 1.28.0) as raw i128 bits in Z.
   Semantics read from fixed-1.28.0/src/arith.rs + int256.rs:
     mul : floor (a*b / 2^48)   (arithmetic shift of the 256-bit product), overflow flag if not in i128
     div : trunc ((a*2^48) / b) (sign-magnitude 256/128 division),        overflow flag if not in i128
   checked_* return None on overflow (and on zero divisor); the operators `*` `/` only
   debug_assert!(!overflow) and therefore WRAP under the on-chain profile (debug-assertions off),
   while `+`/`-` are plain i128 `+`/`-` and ABORT under overflow-checks = true. *)
Require Import Base.

Definition fx := Z.

Definition FRAC : Z := 48.
Definition ONE : Z := 2^48.

Definition wrap128 (z : Z) : Z := wrap_s 128 z.

(* exact mathematical results, before fitting into i128 *)
Definition mul_raw (a b : Z) : Z := (a * b) / ONE.          (* Z.div = floor *)
Definition div_raw (a b : Z) : Z := Z.quot (a * ONE) b.     (* Z.quot = truncation *)

(* checked_add / checked_sub / checked_mul / checked_div *)
Definition cadd (a b : fx) : res fx := chko in_i128 (a + b).
Definition csub (a b : fx) : res fx := chko in_i128 (a - b).
Definition cmul (a b : fx) : res fx := chko in_i128 (mul_raw a b).
Definition cdiv (a b : fx) : res fx :=
  if b =? 0 then Err ENone else chko in_i128 (div_raw a b).

(* operators: + - abort on overflow; * / wrap; / aborts on zero divisor *)
Definition uadd (a b : fx) : res fx := chk in_i128 (a + b).
Definition usub (a b : fx) : res fx := chk in_i128 (a - b).
Definition wmul (a b : fx) : fx := wrap128 (mul_raw a b).
Definition wdiv (a b : fx) : res fx :=
  if b =? 0 then Err EPanic else Ok (wrap128 (div_raw a b)).
Definition uneg (a : fx) : res fx := chk in_i128 (- a).
Definition cneg (a : fx) : res fx := chko in_i128 (- a).

(* I80F48::from_num(n) for an integer n that fits (u64, u32, i64, u8, ...): exact *)
Definition of_int (n : Z) : fx := n * ONE.
(* checked_from_num for wide integers (u128/i128): None if it does not fit *)
Definition of_int_checked (n : Z) : res fx := chko in_i128 (n * ONE).

(* floor / ceil / int / frac *)
Definition ffloor_raw (a : fx) : Z := (a / ONE) * ONE.
Definition ffrac (a : fx) : fx := a mod ONE.
Definition fint (a : fx) : fx := ffloor_raw a.            (* .int(): rounds toward -inf *)
Definition cfloor (a : fx) : res fx := chko in_i128 (ffloor_raw a).
Definition cceil (a : fx) : res fx :=
  chko in_i128 (if ffrac a =? 0 then a else ffloor_raw a + ONE).
(* .floor() / .ceil() operators: debug_assert only -> wrap *)
Definition wfloor (a : fx) : fx := wrap128 (ffloor_raw a).
Definition wceil (a : fx) : fx := wrap128 (if ffrac a =? 0 then a else ffloor_raw a + ONE).

(* to_num::<uN/iN>() : floor to integer, then wrap into the target type (debug_assert only);
   checked_to_num : None when the floored value does not fit *)
Definition to_int (a : fx) : Z := a / ONE.
Definition to_u64_checked (a : fx) : res Z := chko in_u64 (to_int a).
Definition to_u64_wrapping (a : fx) : Z := wrap_u 64 (to_int a).
Definition to_i64_checked (a : fx) : res Z := chko in_i64 (to_int a).
Definition to_u32_wrapping (a : fx) : Z := wrap_u 32 (to_int a).
Definition to_u128_checked (a : fx) : res Z := chko in_u128 (to_int a).
Definition to_i128_checked (a : fx) : res Z := chko in_i128 (to_int a).

Definition fabs_w (a : fx) : fx := wrap128 (Z.abs a).  (* .abs(): wraps at MIN in release *)

Definition fmax (a b : fx) : fx := Z.max a b.
Definition fmin (a b : fx) : fx := Z.min a b.
Definition fis_zero (a : fx) : bool := a =? 0.
