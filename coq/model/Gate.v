(* Gate.v — model of the operational-state gate (programs/marginfi/src/utils/general.rs
   `InstructionKind`, `validate_bank_state`), of BankOperationalState (type-crate/src/types/bank.rs) and of
   the one rule of RiskEngine::calc_weighted_asset_value (state/marginfi_account.rs) that depends on the
   operational state.  Definitions only. *)
Require Import Base Constants.

(* enum InstructionKind, same variant names as the code (coq/gen/HandlerFacts.v refers to them) *)
Inductive ikind := Unrestricted | FailsInReduceState | FailsInPausedState | FailsIfPausedOrReduceState.

(* enum BankOperationalState, same variant names and order (repr(u8): Paused = 0 ...) *)
Inductive opstate := Paused | Operational | ReduceOnly | KilledByBankruptcy.

Definition opstate_of_Z (z : Z) : option opstate :=
  if z =? 0 then Some Paused else if z =? 1 then Some Operational
  else if z =? 2 then Some ReduceOnly else if z =? 3 then Some KilledByBankruptcy else None.

Definition Z_of_opstate (s : opstate) : Z :=
  match s with Paused => 0 | Operational => 1 | ReduceOnly => 2 | KilledByBankruptcy => 3 end.

(* validate_bank_state(bank, kind): first the killed test, then the match on kind with guards *)
Definition validate_bank_state (st : opstate) (k : ikind) : res unit :=
  match st with
  | KilledByBankruptcy => Err (E E_BankKilledByBankruptcy)
  | _ =>
    match k, st with
    | FailsInReduceState, ReduceOnly => Err (E E_BankReduceOnly)
    | FailsInPausedState, Paused => Err (E E_BankPaused)
    | FailsIfPausedOrReduceState, Paused => Err (E E_BankPaused)
    | FailsIfPausedOrReduceState, ReduceOnly => Err (E E_BankReduceOnly)
    | _, _ => Ok tt
    end
  end.

(* The handler-side gate of one instruction: its validate_bank_state calls in source order, each applied
   to the state of the bank it names (first failure wins). *)
Fixpoint bank_gate (calls : list (opstate * ikind)) : res unit :=
  match calls with
  | [] => Ok tt
  | (st, k) :: tl => let* _ := validate_bank_state st k in bank_gate tl
  end.

(* RequirementType / RiskTier *)
Inductive req := Initial | Maintenance | Equity.
Inductive tier := Collateral | Isolated.

(* calc_weighted_asset_value: Isolated => 0; Collateral: (ReduceOnly, Initial) => 0 before anything else is
   looked at; otherwise the value computed by the rest of the function (price feed, weights, discount),
   which does not read the operational state: it is the argument `rest`. *)
Definition weighted_asset_value_rule (t : tier) (st : opstate) (r : req) (rest : res Z) : res Z :=
  match t with
  | Isolated => Ok 0
  | Collateral =>
    match st, r with
    | ReduceOnly, Initial => Ok 0
    | _, _ => rest
    end
  end.
