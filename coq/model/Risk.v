(* Risk.v — model of the risk engine (programs/marginfi/src/state/marginfi_account.rs):
   calc_value / calc_amount, calc_weighted_asset_value / calc_weighted_liab_value (e-mode, init
   discount, reduce-only and bad-oracle rules), get_account_health_components, check_account_health,
   check_account_risk_tiers, pre/post liquidation checks, check_account_bankrupt, and
   type-crate reconcile_emode_configs / EmodeConfig::find_with_tag.
   The oracle adapter is abstracted by `feed`: the result of loading it and the four biased
   prices it returns (how these derive from oracle accounts is Price.v / C09). *)
Require Import Base Constants Fixed Curve Bank.

Inductive reqt := RqInitial | RqMaint | RqEquity.

Record rentry := mkRE { re_tag : Z; re_flags : Z; re_wi : fx; re_wm : fx }.

Definition TIER_COLLATERAL : Z := 0.
Definition TIER_ISOLATED : Z := 1.
Definition OP_PAUSED : Z := 0.
Definition OP_OPERATIONAL : Z := 1.
Definition OP_REDUCE_ONLY : Z := 2.
Definition OP_KILLED : Z := 3.

Record rcfg := mkRC {
  rc_awi : fx; rc_awm : fx; rc_lwi : fx; rc_lwm : fx;
  rc_tier : Z;
  rc_tavil : Z;                 (* total_asset_value_init_limit, u64, 0 = inactive *)
  rc_emode_tag : Z;             (* u16 *)
  rc_emode : list rentry        (* this bank's e-mode entries (as borrowing bank) *)
}.

(* what the oracle adapter yields for one bank *)
Record feed := mkFeed {
  fd_load : res unit;           (* Err (E code) if try_from_bank failed *)
  fd_low_rt : res fx; fd_high_rt : res fx;     (* get_price_of_type RealTime Low/High *)
  fd_low_tw : res fx; fd_high_tw : res fx;     (* TimeWeighted Low/High *)
  fd_rt : res fx                               (* RealTime, no bias *)
}.

Record rpos := mkPos { ps_bal : balance; ps_bank : bank; ps_cfg : rcfg; ps_feed : feed }.

(* ------------------------------------------------------------------------------------------ *)
(* calc_value / calc_amount *)
Definition calc_value (amount price : fx) (decimals : Z) (weight : option fx) : res fx :=
  if amount =? 0 then Ok 0 else
  let* sf := exp10_fx decimals in
  let* wa := match weight with
             | Some w => match cmul amount w with Ok v => Ok v | Err _ => Err EPanic end   (* .unwrap() *)
             | None => Ok amount end in
  let* v := math (cmul wa price) in
  math (cdiv v sf).

Definition calc_amount (value price : fx) (decimals : Z) : res fx :=
  let* sf := exp10_fx decimals in
  let* v := math (cmul value sf) in
  math (cdiv v price).

(* ------------------------------------------------------------------------------------------ *)
(* e-mode *)
Definition EMODE_TAG_EMPTY : Z := 0.

Definition find_with_tag (cfg : list rentry) (tag : Z) : option rentry :=
  if tag =? EMODE_TAG_EMPTY then None else find (fun e => re_tag e =? tag) cfg.

(* merged map: sorted association list tag -> (entry, count) *)
Fixpoint merge_entry (e : rentry) (m : list (rentry * Z)) : list (rentry * Z) :=
  match m with
  | [] => [(e, 1)]
  | (x, c) :: r =>
      if re_tag e <? re_tag x then (e, 1) :: m
      else if re_tag e =? re_tag x then
        (mkRE (re_tag x) (Z.min (re_flags x) (re_flags e))
              (if re_wi e <? re_wi x then re_wi e else re_wi x)
              (if re_wm e <? re_wm x then re_wm e else re_wm x), c + 1) :: r
      else (x, c) :: merge_entry e r
  end.

Definition merge_cfg (cfg : list rentry) (m : list (rentry * Z)) : list (rentry * Z) :=
  fold_left (fun m e => if re_tag e =? EMODE_TAG_EMPTY then m else merge_entry e m) cfg m.

Definition reconcile_emode (cfgs : list (list rentry)) : list rentry :=
  match cfgs with
  | [] => []
  | _ =>
      let m := fold_left (fun m c => merge_cfg c m) cfgs [] in
      let n := Z.of_nat (length cfgs) in
      map fst (filter (fun p => snd p =? n) m)
  end.

(* ------------------------------------------------------------------------------------------ *)
Definition get_weight (c : rcfg) (r : reqt) (s : side) : fx :=
  match r, s with
  | RqInitial, SAssets => rc_awi c | RqInitial, SLiabs => rc_lwi c
  | RqMaint, SAssets => rc_awm c | RqMaint, SLiabs => rc_lwm c
  | RqEquity, _ => ONE
  end.

Definition price_low (f : feed) (r : reqt) : res fx :=
  match r with RqMaint => fd_low_rt f | _ => fd_low_tw f end.
Definition price_high (f : feed) (r : reqt) : res fx :=
  match r with RqMaint => fd_high_rt f | _ => fd_high_tw f end.

(* Bank::maybe_get_asset_weight_init_discount *)
Definition init_discount (b : bank) (c : rcfg) (price : fx) : res (option fx) :=
  if rc_tavil c =? TOTAL_ASSET_VALUE_INIT_LIMIT_INACTIVE then Ok None else
  let* ta := get_asset_amount b (b_tas b) in
  let* tv := calc_value ta price (balance_decimals b) None in
  let lim := of_int (rc_tavil c) in
  if lim <? tv then let* d := math (cdiv lim tv) in Ok (Some d) else Ok None.

(* returns (value, price used, internal error code) *)
Definition weighted_asset_value (p : rpos) (r : reqt) (em : list rentry) : res (fx * fx * Z) :=
  let b := ps_bank p in let c := ps_cfg p in
  if rc_tier c =? TIER_ISOLATED then Ok (0, 0, 0) else
  if (b_op_state b =? OP_REDUCE_ONLY) && (match r with RqInitial => true | _ => false end) then Ok (0, 0, 0) else
  match fd_load (ps_feed p) with
  | Err e =>
      match r, e with
      | RqInitial, E code => Ok (0, 0, code)
      | _, _ => Err e
      end
  | Ok _ =>
      let bank_w := get_weight c r SAssets in
      let w0 := match find_with_tag em (rc_emode_tag c) with
                | Some e => fmax bank_w (match r with RqInitial => re_wi e | RqMaint => re_wm e | RqEquity => ONE end)
                | None => bank_w end in
      let* lp := price_low (ps_feed p) r in
      let* w := match r with
                | RqInitial =>
                    let* d := init_discount b c lp in
                    match d with Some d => math (cmul w0 d) | None => Ok w0 end
                | _ => Ok w0 end in
      let* amt := get_asset_amount b (bl_a (ps_bal p)) in
      let* v := calc_value amt lp (balance_decimals b) (Some w) in
      Ok (v, lp, 0)
  end.

Definition weighted_liab_value (p : rpos) (r : reqt) : res (fx * fx) :=
  let b := ps_bank p in let c := ps_cfg p in
  let* _ := fd_load (ps_feed p) in
  let w := get_weight c r SLiabs in
  let* hp := price_high (ps_feed p) r in
  let* amt := get_liability_amount b (bl_l (ps_bal p)) in
  let* v := calc_value amt hp (balance_decimals b) (Some w) in
  Ok (v, hp).

(* calc_weighted_value : (asset value, liability value, err code) *)
Definition weighted_value (p : rpos) (r : reqt) (em : list rentry) : res (fx * fx * Z) :=
  let* sd := get_side (ps_bal p) in
  match sd with
  | Some SAssets => let* (v, _, code) := weighted_asset_value p r em in Ok (v, 0, code)
  | Some SLiabs => let* (v, _) := weighted_liab_value p r in Ok (0, v, 0)
  | None => Ok (0, 0, 0)
  end.

Definition liab_nonempty (bl : balance) : bool := EMPTY_BALANCE_THRESHOLD <=? bl_l bl.
Definition asset_nonempty (bl : balance) : bool := EMPTY_BALANCE_THRESHOLD <=? bl_a bl.

Definition engine_emode (ps : list rpos) : list rentry :=
  reconcile_emode (map (fun p => rc_emode (ps_cfg p)) (filter (fun p => liab_nonempty (ps_bal p)) ps)).

(* get_account_health_components *)
Fixpoint health_sum (ps : list rpos) (r : reqt) (em : list rentry) (a l : fx) : res (fx * fx) :=
  match ps with
  | [] => Ok (a, l)
  | p :: rest =>
      let* (av, lv, _) := weighted_value p r em in
      let* a' := math (cadd a av) in
      let* l' := math (cadd l lv) in
      health_sum rest r em a' l'
  end.

Definition health_components (ps : list rpos) (r : reqt) : res (fx * fx) :=
  health_sum ps r (engine_emode ps) 0 0.

(* check_account_risk_tiers *)
Definition risk_tiers_ok (ps : list rpos) : bool :=
  let liabs := filter (fun p => liab_nonempty (ps_bal p)) ps in
  let iso := filter (fun p => rc_tier (ps_cfg p) =? TIER_ISOLATED) liabs in
  (length iso =? 0)%nat || (length liabs =? 1)%nat.

(* check_account_health(Initial) = check_account_init_health outside a flash loan *)
Definition check_init_health (ps : list rpos) : res unit :=
  let* (a, l) := health_components ps RqInitial in
  let* _ := check (l <=? a) (E E_RiskEngineInitRejected) in
  check (risk_tiers_ok ps) (E E_IsolatedAccountIllegalState).

Definition find_pos (ps : list rpos) (bank_pk : Z) : option rpos :=
  find (fun p => bl_bank (ps_bal p) =? bank_pk) ps.

(* check_pre_liquidation_condition_and_get_account_health (flash-loan flag checked by the caller model) *)
Definition pre_liquidation (ps : list rpos) (liab_bank : option Z) (ignore_healthy : bool) : res (fx * fx * fx) :=
  let* _ := match liab_bank with
            | None => Ok tt
            | Some k =>
                match find_pos ps k with
                | None => Err (E E_LendingAccountBalanceNotFound)
                | Some p =>
                    let* _ := check (liab_nonempty (ps_bal p)) (E E_NoLiabilitiesInLiabilityBank) in
                    check (negb (asset_nonempty (ps_bal p))) (E E_AssetsInLiabilityBank)
                end
            end in
  let* (a, l) := health_components ps RqMaint in
  let* h := math (csub a l) in
  let* _ := check (negb ((0 <? h) && negb ignore_healthy)) (E E_HealthyAccount) in
  Ok (h, a, l).

(* check_post_liquidation_condition_and_get_account_health *)
Definition post_liquidation (ps : list rpos) (liab_bank : Z) (pre_health : fx) : res fx :=
  match find_pos ps liab_bank with
  | None => Err EPanic
  | Some p =>
      let* _ := check (liab_nonempty (ps_bal p)) (E E_ExhaustedLiability) in
      let* _ := check (negb (asset_nonempty (ps_bal p))) (E E_TooSeverePayoff) in
      let* (a, l) := health_components ps RqMaint in
      let* h := math (csub a l) in
      let* _ := check (h <=? 0) (E E_TooSevereLiquidation) in
      let* _ := check (pre_health <? h) (E E_WorseHealthPostLiquidation) in
      Ok h
  end.

(* check_account_bankrupt *)
Definition check_bankrupt (ps : list rpos) (in_flashloan : bool) : res (fx * fx) :=
  let* (a, l) := health_components ps RqEquity in
  let* _ := check (negb in_flashloan) (E E_AccountInFlashloan) in
  let* _ := check (a <? l) (E E_AccountNotBankrupt) in
  let* _ := check ((a <? BANKRUPT_THRESHOLD) && (ZERO_AMOUNT_THRESHOLD <? l)) (E E_AccountNotBankrupt) in
  Ok (a, l).
