(* ConfigPaths.v — every path that writes a bank's configuration, as functions on the modelled part
   of the Bank record (config, flags, e-mode settings):
     state/bank.rs                 Bank::new (config part), configure, configure_unfrozen_fields_only,
                                   cb_get_flag, cb_update_flag
     marginfi_group/add_pool.rs, add_pool_with_seed.rs      lending_pool_add_bank(_with_seed)
     marginfi_group/add_pool_permissionless.rs              lending_pool_add_bank_permissionless
     marginfi_group/configure_bank.rs                       lending_pool_configure_bank
     marginfi_group/configure_bank_lite.rs                  ..._interest_only, ..._limits_only
     marginfi_group/config_bank_emode.rs                    lending_pool_configure_bank_emode
     marginfi_group/emode_clone.rs                          lending_pool_clone_emode
     marginfi_group/propagate_staked_settings.rs            propagate_staked_settings
     marginfi_group/migrate_curve.rs                        migrate_curve
     marginfi_group/configure.rs                            the e-mode leverage-cap part of `configure`
   Account validation (signers, has_one, PDA seeds) is outside this model (C08); a handler is modelled
   from the point where its accounts have been accepted.  A handler that returns Err leaves no state
   behind (the transaction is rolled back), hence `res cbank`. *)
Require Import Base Constants ConfigGen Fixed Curve Config Emode.

Record cbank := mkCBank { cb_cfg : bank_cfg; cb_flags : Z; cb_emode : emode_settings }.

(* the group's e-mode leverage caps: emode_max_init_leverage, emode_max_maint_leverage (u32) *)
Record caps := mkCaps { cap_init : Z; cap_maint : Z }.

Definition cb_get_flag (b : cbank) (flag : Z) : bool := Z.land (cb_flags b) flag =? flag.

(* Bank::cb_update_flag: assert!(verify_group_flags(flag)) then set / clear *)
Definition cb_update_flag (flags : Z) (value : bool) (flag : Z) : res Z :=
  if Z.land flag GROUP_FLAGS =? flag then
    Ok (if value then Z.lor flags flag else Z.ldiff flags flag)
  else Err EPanic.

Definition cb_update_flag_opt (flags : Z) (o : option bool) (flag : Z) : res Z :=
  match o with Some v => cb_update_flag flags v flag | None => Ok flags end.

Definition cfg_with_ir (c : bank_cfg) (ir : ir_config) (orig : fx) : bank_cfg :=
  mkBC (bc_awi c) (bc_awm c) (bc_lwi c) (bc_lwm c) (bc_deposit_limit c) (bc_borrow_limit c) ir orig
       (bc_op_state c) (bc_risk_tier c) (bc_asset_tag c) (bc_init_limit c) (bc_max_age c) (bc_max_conf c)
       (bc_oracle_key c).

Definition cfg_with_limits (c : bank_cfg) (dep bor lim : Z) : bank_cfg :=
  mkBC (bc_awi c) (bc_awm c) (bc_lwi c) (bc_lwm c) dep bor (bc_ir c) (bc_orig_fee c)
       (bc_op_state c) (bc_risk_tier c) (bc_asset_tag c) lim (bc_max_age c) (bc_max_conf c) (bc_oracle_key c).

Definition EBankKilled : err := E E_BankKilledByBankruptcy.

(* Bank::configure *)
Definition bank_configure (b : cbank) (o : cfg_opt) : res cbank :=
  let c := cb_cfg b in
  let* st :=
    match o_op_state o with
    | Some s =>
        let* _ := check (negb (s =? OP_KILLED)) EUnauthorized in
        (* a bank killed by bankruptcy is permanently shut *)
        let* _ := check (negb (bc_op_state c =? OP_KILLED)) EBankKilled in
        Ok s
    | None => Ok (bc_op_state c)
    end in
  let ir' := match o_ir o with Some io => ir_update (bc_ir c) io | None => bc_ir c end in
  let orig' := match o_ir o with Some io => orig_update (bc_orig_fee c) io | None => bc_orig_fee c end in
  let c' := mkBC (set_if_some (bc_awi c) (o_awi o)) (set_if_some (bc_awm c) (o_awm o))
                 (set_if_some (bc_lwi c) (o_lwi o)) (set_if_some (bc_lwm c) (o_lwm o))
                 (set_if_some (bc_deposit_limit c) (o_deposit o)) (set_if_some (bc_borrow_limit c) (o_borrow o))
                 ir' orig' st
                 (set_if_some (bc_risk_tier c) (o_risk_tier o)) (set_if_some (bc_asset_tag c) (o_asset_tag o))
                 (set_if_some (bc_init_limit c) (o_init_limit o))
                 (set_if_some (bc_max_age c) (o_max_age o)) (set_if_some (bc_max_conf c) (o_max_conf o))
                 (bc_oracle_key c) in
  let* f1 := cb_update_flag_opt (cb_flags b) (o_pbd o) PERMISSIONLESS_BAD_DEBT_SETTLEMENT_FLAG in
  let* f2 := cb_update_flag_opt f1 (o_freeze o) FREEZE_SETTINGS in
  let* f3 := cb_update_flag_opt f2 (o_tokenless o) TOKENLESS_REPAYMENTS_ALLOWED in
  let* _ := bc_validate c' in
  Ok (mkCBank c' f3 (cb_emode b)).

(* Bank::configure_unfrozen_fields_only *)
Definition bank_configure_unfrozen (b : cbank) (o : cfg_opt) : cbank :=
  let c := cb_cfg b in
  mkCBank (cfg_with_limits c (set_if_some (bc_deposit_limit c) (o_deposit o))
                            (set_if_some (bc_borrow_limit c) (o_borrow o)) (bc_init_limit c))
         (cb_flags b) (cb_emode b).

(* lending_pool_configure_bank *)
Definition ix_configure_bank (g : caps) (b : cbank) (o : cfg_opt) : res cbank :=
  if cb_get_flag b FREEZE_SETTINGS then Ok (bank_configure_unfrozen b o)
  else
    let* b' := bank_configure b o in
    let* _ := em_validate (cb_emode b') (cb_cfg b') (cap_init g) (cap_maint g) in
    Ok b'.

(* lending_pool_configure_bank_interest_only *)
Definition ix_configure_interest_only (b : cbank) (io : ir_opt) : res cbank :=
  if cb_get_flag b FREEZE_SETTINGS then Ok b
  else
    let ir' := ir_update (bc_ir (cb_cfg b)) io in
    let* _ := ir_validate ir' in
    Ok (mkCBank (cfg_with_ir (cb_cfg b) ir' (orig_update (bc_orig_fee (cb_cfg b)) io)) (cb_flags b) (cb_emode b)).

(* lending_pool_configure_bank_limits_only *)
Definition ix_configure_limits_only (b : cbank) (dep bor lim : option Z) : res cbank :=
  let c := cb_cfg b in
  if cb_get_flag b FREEZE_SETTINGS then
    Ok (mkCBank (cfg_with_limits c (set_if_some (bc_deposit_limit c) dep) (set_if_some (bc_borrow_limit c) bor)
                                (bc_init_limit c)) (cb_flags b) (cb_emode b))
  else
    Ok (mkCBank (cfg_with_limits c (set_if_some (bc_deposit_limit c) dep) (set_if_some (bc_borrow_limit c) bor)
                                (set_if_some (bc_init_limit c) lim)) (cb_flags b) (cb_emode b)).

(* lending_pool_add_bank / lending_pool_add_bank_with_seed (identical bodies):
   asset-tag requirement, Bank::new (flags = CLOSE_ENABLED_FLAG, e-mode zeroed), config.validate() *)
Definition ix_add_bank (cc : cfg_compact) : res cbank :=
  let* _ := check ((cc_asset_tag cc =? ASSET_TAG_DEFAULT) || (cc_asset_tag cc =? ASSET_TAG_SOL)) EWrongAssetTagStd in
  let c := cfg_of_compact cc in
  let* _ := bc_validate c in
  Ok (mkCBank c CLOSE_ENABLED_FLAG es_zeroed).

(* lending_pool_add_bank_permissionless: configuration assembled from the group's StakedSettings and
   fixed placeholders (liability weights 1.5 / 1.25 written as raw bits; a one-point placeholder curve
   whose fee fields are not modelled beyond validation), config.validate(); the oracle-account and
   stake-pool validation that follows is an external input `oracle_check`. *)
Definition permissionless_ir : ir_config :=
  mkIR 0 0 0 0 0 0 0 0 1234567 [mkRP 12345 123456; mkRP 0 0; mkRP 0 0; mkRP 0 0; mkRP 0 0] INTEREST_CURVE_SEVEN_POINT.

Definition ix_add_bank_permissionless (s : staked_settings) (oracle_check : res unit) : res cbank :=
  let c := mkBC (ss_awi s) (ss_awm s) (ONE + ONE / 2) (ONE + ONE / 4) (ss_deposit_limit s) 0
                permissionless_ir 0 OP_OPERATIONAL (ss_risk_tier s) ASSET_TAG_STAKED (ss_init_limit s)
                (ss_max_age s) 0 (ss_oracle s) in
  let* _ := bc_validate c in
  let* _ := oracle_check in
  Ok (mkCBank c CLOSE_ENABLED_FLAG es_zeroed).

(* lending_pool_configure_bank_emode *)
Definition ix_configure_emode (g : caps) (now : Z) (b : cbank) (tag : Z) (entries : list emode_entry) : res cbank :=
  let es := mkES tag now (es_flags (cb_emode b)) (ee_sort entries) in
  let* _ := em_validate es (cb_cfg b) (cap_init g) (cap_maint g) in
  Ok (mkCBank (cb_cfg b) (cb_flags b) (update_emode_enabled es)).

(* lending_pool_clone_emode: destination_bank.emode = source_bank.emode, then the copied entries are
   validated against the DESTINATION's liability weights and the group's caps *)
Definition ix_clone_emode (g : caps) (src dst : cbank) : res cbank :=
  let* _ := em_validate (cb_emode src) (cb_cfg dst) (cap_init g) (cap_maint g) in
  Ok (mkCBank (cb_cfg dst) (cb_flags dst) (cb_emode src)).

(* propagate_staked_settings; `oracle_check` = result of validate_oracle_setup, consulted only when
   the oracle key changed.  The one account constraint that reads the configuration is included. *)
Definition EConstraintRaw : err := E 2003.   (* anchor_lang::error::ErrorCode::ConstraintRaw *)

Definition ix_propagate_staked (s : staked_settings) (oracle_check : res unit) (b : cbank) : res cbank :=
  let c := cb_cfg b in
  (* account constraint of PropagateStakedSettings: cbank.config.asset_tag == ASSET_TAG_STAKED *)
  let* _ := check (bc_asset_tag c =? ASSET_TAG_STAKED) EConstraintRaw in
  let c' := mkBC (ss_awi s) (ss_awm s) (bc_lwi c) (bc_lwm c) (ss_deposit_limit s) (bc_borrow_limit c)
                 (bc_ir c) (bc_orig_fee c) (bc_op_state c) (ss_risk_tier s) (bc_asset_tag c) (ss_init_limit s)
                 (ss_max_age s) (bc_max_conf c) (ss_oracle s) in
  let* _ := if bc_oracle_key c =? ss_oracle s then Ok tt else oracle_check in
  let* _ := bc_validate c' in
  Ok (mkCBank c' (cb_flags b) (cb_emode b)).

(* marginfi_group::configure, e-mode cap part: defaults, range checks, conversion to u32 *)
Definition ix_group_set_caps (oi om : option fx) : res caps :=
  let vi := match oi with Some v => v | None => DEFAULT_INIT_MAX_EMODE_LEVERAGE end in
  let vm := match om with Some v => v | None => DEFAULT_MAINT_MAX_EMODE_LEVERAGE end in
  let* _ := check (ONE <=? vi) EBadEmodeConfig in
  let* _ := check (vi <=? of_int 100) EBadEmodeConfig in
  let* _ := check (ONE <=? vm) EBadEmodeConfig in
  let* _ := check (vm <=? of_int 100) EBadEmodeConfig in
  let* _ := check (vi <? vm) EBadEmodeConfig in
  let* ci := basis_to_u32 vi in
  let* cm := basis_to_u32 vm in
  Ok (mkCaps ci cm).

(* milli_to_u32 / centi_to_u32 (type-crate interest_rate.rs): clamp to [0,max], / max, * u32::MAX, to_num::<u32>() *)
Definition frac_to_u32 (v maxv : fx) : res Z :=
  let clamped := fmax (fmin v maxv) 0 in
  let* ratio := wdiv clamped maxv in
  Ok (to_u32_wrapping (wmul ratio (of_int U32_MAXZ))).
Definition milli_to_u32 (v : fx) : res Z := frac_to_u32 v (of_int 10).
Definition centi_to_u32 (v : fx) : res Z := frac_to_u32 v (of_int 1).

(* migrate_curve (permissionless): validate, convert a legacy curve into a one-point seven-point curve,
   zero the legacy fields, validate again; a seven-point bank is left alone *)
Definition ix_migrate_curve (b : cbank) : res cbank :=
  let c := cb_cfg b in
  let* _ := bc_validate c in
  let ir := bc_ir c in
  if ir_curve_type ir =? INTEREST_CURVE_SEVEN_POINT then Ok b
  else
    let* hundred := milli_to_u32 (ir_max ir) in
    let* pu := centi_to_u32 (ir_optimal ir) in
    let* pr := milli_to_u32 (ir_plateau ir) in
    let ir' := mkIR 0 0 0 (ir_ins_fixed ir) (ir_ins_rate ir) (ir_grp_fixed ir) (ir_grp_rate ir) 0 hundred
                    [mkRP pu pr; mkRP 0 0; mkRP 0 0; mkRP 0 0; mkRP 0 0] INTEREST_CURVE_SEVEN_POINT in
    let c' := cfg_with_ir c ir' (bc_orig_fee c) in
    let* _ := bc_validate c' in
    Ok (mkCBank c' (cb_flags b) (cb_emode b)).

(* ---------------------------------------------------------------- configuration requests as data *)
Inductive cfg_req :=
| RConfigure (o : cfg_opt)
| RInterestOnly (io : ir_opt)
| RLimitsOnly (dep bor lim : option Z)
| REmode (now tag : Z) (entries : list emode_entry)
| RCloneFrom (src : cbank)
| RPropagate (s : staked_settings) (oracle_check : res unit)
| RMigrateCurve.

Definition apply_req (g : caps) (b : cbank) (r : cfg_req) : res cbank :=
  match r with
  | RConfigure o => ix_configure_bank g b o
  | RInterestOnly io => ix_configure_interest_only b io
  | RLimitsOnly d bo l => ix_configure_limits_only b d bo l
  | REmode now tag es => ix_configure_emode g now b tag es
  | RCloneFrom src => ix_clone_emode g src b
  | RPropagate s oc => ix_propagate_staked s oc b
  | RMigrateCurve => ix_migrate_curve b
  end.

(* a sequence of requests; a failing request is rolled back and the sequence continues *)
Fixpoint apply_reqs (g : caps) (b : cbank) (rs : list cfg_req) : cbank :=
  match rs with
  | [] => b
  | r :: rest => apply_reqs g (match apply_req g b r with Ok b' => b' | Err _ => b end) rest
  end.
