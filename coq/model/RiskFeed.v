(* RiskFeed.v — the abstract per-bank `feed` of Risk.v computed from the oracle-adapter model of
   Price.v: what OraclePriceFeedAdapter::try_from_bank and get_price_of_type yield for one bank when
   the instruction presents the account list `ais` at clock `now` (Fixed and PythPush set-ups; no
   venue / staking accounts).  Used by the correspondence suite `risk` (C04 / C05), which runs the
   real handlers on banks with Pyth push oracles: confidence bands (low < high), EMA vs spot
   (time-weighted vs real-time), stale and wrong oracle accounts.
   Definitions only. *)
Require Import Base Constants Fixed Price Risk.

Definition no_venue : venue := mkVN VLOk 0 (Err ENone) 0.
Definition no_staking : staking := mkSK (Err EPanic) (Err EPanic).

Definition feed_of_oracle_venue (c : ocfg) (ais : list oacct) (vn : venue) (now : Z) : Risk.feed :=
  let pf := px_try_from_bank c ais vn no_staking (mkCK now 0) in
  let omc := oc_max_conf c in
  let q (t : ptype) (b : option pbias) : res fx := let* f := pf in px_price_of_type f t b omc in
  mkFeed (match pf with Ok _ => Ok tt | Err e => Err e end)
         (q RealTime (Some PLow)) (q RealTime (Some PHigh))
         (q TimeWeighted (Some PLow)) (q TimeWeighted (Some PHigh))
         (q RealTime None).

Definition feed_of_oracle (c : ocfg) (ais : list oacct) (now : Z) : Risk.feed :=
  let pf := px_try_from_bank c ais no_venue no_staking (mkCK now 0) in
  let omc := oc_max_conf c in
  let q (t : ptype) (b : option pbias) : res fx := let* f := pf in px_price_of_type f t b omc in
  mkFeed (match pf with Ok _ => Ok tt | Err e => Err e end)
         (q RealTime (Some PLow)) (q RealTime (Some PHigh))
         (q TimeWeighted (Some PLow)) (q TimeWeighted (Some PHigh))
         (q RealTime None).
