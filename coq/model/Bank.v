(* Bank.v — model of the share-based bank accounting:
   programs/marginfi/src/state/bank.rs (get_*_amount/shares, get_remaining_deposit_capacity,
   change_asset_shares, change_liability_shares, check_utilization_ratio, socialize_loss,
   accrue_interest, flags, position counters), state/interest_rate.rs
   (calc_interest_rate_accrual_state_changes and its two helpers) and the
   BankAccountWrapper state machine of state/marginfi_account.rs (find, find_or_create,
   increase/decrease_balance_internal, withdraw_all, repay_all, close_balance, claim_emissions,
   settle_emissions, sort_balances).  Definitions only. *)
Require Import Base Constants Fixed Curve.

Definition EMath : err := E E_MathError.
Definition math {A} (r : res A) : res A := ok_or r EMath.

Record bank := mkBank {
  b_asv : fx;
  b_lsv : fx;
  b_tas : fx;
  b_tls : fx;
  b_ins : fx;
  b_grp : fx;
  b_prog : fx;
  b_last_update : Z;
  b_dep_limit : Z;
  b_bor_limit : Z;
  b_asset_tag : Z;
  b_decimals : Z;
  b_flags : Z;
  b_em_rate : Z;
  b_em_rem : fx;
  b_lend_cnt : Z;
  b_bor_cnt : Z;
  b_op_state : Z;
  b_ir : ir_config
}.
Definition set_b_asv (v : fx) (x : bank) : bank := mkBank v (b_lsv x) (b_tas x) (b_tls x) (b_ins x) (b_grp x) (b_prog x) (b_last_update x) (b_dep_limit x) (b_bor_limit x) (b_asset_tag x) (b_decimals x) (b_flags x) (b_em_rate x) (b_em_rem x) (b_lend_cnt x) (b_bor_cnt x) (b_op_state x) (b_ir x).
Definition set_b_lsv (v : fx) (x : bank) : bank := mkBank (b_asv x) v (b_tas x) (b_tls x) (b_ins x) (b_grp x) (b_prog x) (b_last_update x) (b_dep_limit x) (b_bor_limit x) (b_asset_tag x) (b_decimals x) (b_flags x) (b_em_rate x) (b_em_rem x) (b_lend_cnt x) (b_bor_cnt x) (b_op_state x) (b_ir x).
Definition set_b_tas (v : fx) (x : bank) : bank := mkBank (b_asv x) (b_lsv x) v (b_tls x) (b_ins x) (b_grp x) (b_prog x) (b_last_update x) (b_dep_limit x) (b_bor_limit x) (b_asset_tag x) (b_decimals x) (b_flags x) (b_em_rate x) (b_em_rem x) (b_lend_cnt x) (b_bor_cnt x) (b_op_state x) (b_ir x).
Definition set_b_tls (v : fx) (x : bank) : bank := mkBank (b_asv x) (b_lsv x) (b_tas x) v (b_ins x) (b_grp x) (b_prog x) (b_last_update x) (b_dep_limit x) (b_bor_limit x) (b_asset_tag x) (b_decimals x) (b_flags x) (b_em_rate x) (b_em_rem x) (b_lend_cnt x) (b_bor_cnt x) (b_op_state x) (b_ir x).
Definition set_b_ins (v : fx) (x : bank) : bank := mkBank (b_asv x) (b_lsv x) (b_tas x) (b_tls x) v (b_grp x) (b_prog x) (b_last_update x) (b_dep_limit x) (b_bor_limit x) (b_asset_tag x) (b_decimals x) (b_flags x) (b_em_rate x) (b_em_rem x) (b_lend_cnt x) (b_bor_cnt x) (b_op_state x) (b_ir x).
Definition set_b_grp (v : fx) (x : bank) : bank := mkBank (b_asv x) (b_lsv x) (b_tas x) (b_tls x) (b_ins x) v (b_prog x) (b_last_update x) (b_dep_limit x) (b_bor_limit x) (b_asset_tag x) (b_decimals x) (b_flags x) (b_em_rate x) (b_em_rem x) (b_lend_cnt x) (b_bor_cnt x) (b_op_state x) (b_ir x).
Definition set_b_prog (v : fx) (x : bank) : bank := mkBank (b_asv x) (b_lsv x) (b_tas x) (b_tls x) (b_ins x) (b_grp x) v (b_last_update x) (b_dep_limit x) (b_bor_limit x) (b_asset_tag x) (b_decimals x) (b_flags x) (b_em_rate x) (b_em_rem x) (b_lend_cnt x) (b_bor_cnt x) (b_op_state x) (b_ir x).
Definition set_b_last_update (v : Z) (x : bank) : bank := mkBank (b_asv x) (b_lsv x) (b_tas x) (b_tls x) (b_ins x) (b_grp x) (b_prog x) v (b_dep_limit x) (b_bor_limit x) (b_asset_tag x) (b_decimals x) (b_flags x) (b_em_rate x) (b_em_rem x) (b_lend_cnt x) (b_bor_cnt x) (b_op_state x) (b_ir x).
Definition set_b_dep_limit (v : Z) (x : bank) : bank := mkBank (b_asv x) (b_lsv x) (b_tas x) (b_tls x) (b_ins x) (b_grp x) (b_prog x) (b_last_update x) v (b_bor_limit x) (b_asset_tag x) (b_decimals x) (b_flags x) (b_em_rate x) (b_em_rem x) (b_lend_cnt x) (b_bor_cnt x) (b_op_state x) (b_ir x).
Definition set_b_bor_limit (v : Z) (x : bank) : bank := mkBank (b_asv x) (b_lsv x) (b_tas x) (b_tls x) (b_ins x) (b_grp x) (b_prog x) (b_last_update x) (b_dep_limit x) v (b_asset_tag x) (b_decimals x) (b_flags x) (b_em_rate x) (b_em_rem x) (b_lend_cnt x) (b_bor_cnt x) (b_op_state x) (b_ir x).
Definition set_b_asset_tag (v : Z) (x : bank) : bank := mkBank (b_asv x) (b_lsv x) (b_tas x) (b_tls x) (b_ins x) (b_grp x) (b_prog x) (b_last_update x) (b_dep_limit x) (b_bor_limit x) v (b_decimals x) (b_flags x) (b_em_rate x) (b_em_rem x) (b_lend_cnt x) (b_bor_cnt x) (b_op_state x) (b_ir x).
Definition set_b_decimals (v : Z) (x : bank) : bank := mkBank (b_asv x) (b_lsv x) (b_tas x) (b_tls x) (b_ins x) (b_grp x) (b_prog x) (b_last_update x) (b_dep_limit x) (b_bor_limit x) (b_asset_tag x) v (b_flags x) (b_em_rate x) (b_em_rem x) (b_lend_cnt x) (b_bor_cnt x) (b_op_state x) (b_ir x).
Definition set_b_flags (v : Z) (x : bank) : bank := mkBank (b_asv x) (b_lsv x) (b_tas x) (b_tls x) (b_ins x) (b_grp x) (b_prog x) (b_last_update x) (b_dep_limit x) (b_bor_limit x) (b_asset_tag x) (b_decimals x) v (b_em_rate x) (b_em_rem x) (b_lend_cnt x) (b_bor_cnt x) (b_op_state x) (b_ir x).
Definition set_b_em_rate (v : Z) (x : bank) : bank := mkBank (b_asv x) (b_lsv x) (b_tas x) (b_tls x) (b_ins x) (b_grp x) (b_prog x) (b_last_update x) (b_dep_limit x) (b_bor_limit x) (b_asset_tag x) (b_decimals x) (b_flags x) v (b_em_rem x) (b_lend_cnt x) (b_bor_cnt x) (b_op_state x) (b_ir x).
Definition set_b_em_rem (v : fx) (x : bank) : bank := mkBank (b_asv x) (b_lsv x) (b_tas x) (b_tls x) (b_ins x) (b_grp x) (b_prog x) (b_last_update x) (b_dep_limit x) (b_bor_limit x) (b_asset_tag x) (b_decimals x) (b_flags x) (b_em_rate x) v (b_lend_cnt x) (b_bor_cnt x) (b_op_state x) (b_ir x).
Definition set_b_lend_cnt (v : Z) (x : bank) : bank := mkBank (b_asv x) (b_lsv x) (b_tas x) (b_tls x) (b_ins x) (b_grp x) (b_prog x) (b_last_update x) (b_dep_limit x) (b_bor_limit x) (b_asset_tag x) (b_decimals x) (b_flags x) (b_em_rate x) (b_em_rem x) v (b_bor_cnt x) (b_op_state x) (b_ir x).
Definition set_b_bor_cnt (v : Z) (x : bank) : bank := mkBank (b_asv x) (b_lsv x) (b_tas x) (b_tls x) (b_ins x) (b_grp x) (b_prog x) (b_last_update x) (b_dep_limit x) (b_bor_limit x) (b_asset_tag x) (b_decimals x) (b_flags x) (b_em_rate x) (b_em_rem x) (b_lend_cnt x) v (b_op_state x) (b_ir x).
Definition set_b_op_state (v : Z) (x : bank) : bank := mkBank (b_asv x) (b_lsv x) (b_tas x) (b_tls x) (b_ins x) (b_grp x) (b_prog x) (b_last_update x) (b_dep_limit x) (b_bor_limit x) (b_asset_tag x) (b_decimals x) (b_flags x) (b_em_rate x) (b_em_rem x) (b_lend_cnt x) (b_bor_cnt x) v (b_ir x).
Definition set_b_ir (v : ir_config) (x : bank) : bank := mkBank (b_asv x) (b_lsv x) (b_tas x) (b_tls x) (b_ins x) (b_grp x) (b_prog x) (b_last_update x) (b_dep_limit x) (b_bor_limit x) (b_asset_tag x) (b_decimals x) (b_flags x) (b_em_rate x) (b_em_rem x) (b_lend_cnt x) (b_bor_cnt x) (b_op_state x) v.

Record balance := mkBal {
  bl_active : bool;
  bl_bank : Z;
  bl_tag : Z;
  bl_a : fx;
  bl_l : fx;
  bl_em : fx;
  bl_last : Z
}.
Definition set_bl_active (v : bool) (x : balance) : balance := mkBal v (bl_bank x) (bl_tag x) (bl_a x) (bl_l x) (bl_em x) (bl_last x).
Definition set_bl_bank (v : Z) (x : balance) : balance := mkBal (bl_active x) v (bl_tag x) (bl_a x) (bl_l x) (bl_em x) (bl_last x).
Definition set_bl_tag (v : Z) (x : balance) : balance := mkBal (bl_active x) (bl_bank x) v (bl_a x) (bl_l x) (bl_em x) (bl_last x).
Definition set_bl_a (v : fx) (x : balance) : balance := mkBal (bl_active x) (bl_bank x) (bl_tag x) v (bl_l x) (bl_em x) (bl_last x).
Definition set_bl_l (v : fx) (x : balance) : balance := mkBal (bl_active x) (bl_bank x) (bl_tag x) (bl_a x) v (bl_em x) (bl_last x).
Definition set_bl_em (v : fx) (x : balance) : balance := mkBal (bl_active x) (bl_bank x) (bl_tag x) (bl_a x) (bl_l x) v (bl_last x).
Definition set_bl_last (v : Z) (x : balance) : balance := mkBal (bl_active x) (bl_bank x) (bl_tag x) (bl_a x) (bl_l x) (bl_em x) v.

(* ------------------------------------------------------------------------------------------ *)
(* share <-> amount conversions *)
Definition get_asset_amount (b : bank) (sh : fx) : res fx := math (cmul sh (b_asv b)).
Definition get_liability_amount (b : bank) (sh : fx) : res fx := math (cmul sh (b_lsv b)).
Definition get_liability_shares (b : bank) (v : fx) : res fx := math (cdiv v (b_lsv b)).
Definition get_asset_shares (b : bank) (v : fx) : res fx :=
  if b_asv b =? 0 then Ok 0 else math (cdiv v (b_asv b)).

Definition balance_decimals (b : bank) : Z :=
  if b_asset_tag b =? ASSET_TAG_DRIFT then DRIFT_SCALED_BALANCE_DECIMALS else b_decimals b.

Definition dep_limit_active (b : bank) : bool := negb (b_dep_limit b =? U64_MAX).
Definition bor_limit_active (b : bank) : bool := negb (b_bor_limit b =? U64_MAX).

Definition exp10_fx (i : Z) : res fx :=
  if (0 <=? i) && (i <? Z.of_nat (length EXP_10_I80F48))
  then Ok (nth (Z.to_nat i) EXP_10_I80F48 0) else Err EPanic.

(* drift_mocks::constants::bank_scale_drift_deposit_limit *)
Definition bank_scale_drift_deposit_limit (limit decimals : Z) : res fx :=
  let l := of_int limit in
  if decimals =? DRIFT_SCALED_BALANCE_DECIMALS then Ok l
  else if decimals <? DRIFT_SCALED_BALANCE_DECIMALS then
    let* s := exp10_fx (DRIFT_SCALED_BALANCE_DECIMALS - decimals) in
    ok_or (cmul l s) (E E_DriftMocks_MathError)
  else
    let* s := exp10_fx (decimals - DRIFT_SCALED_BALANCE_DECIMALS) in
    ok_or (cdiv l s) (E E_DriftMocks_MathError).

Definition deposit_limit_fx (b : bank) : res fx :=
  if b_asset_tag b =? ASSET_TAG_DRIFT then bank_scale_drift_deposit_limit (b_dep_limit b) (b_decimals b)
  else Ok (of_int (b_dep_limit b)).

(* Bank::get_remaining_deposit_capacity *)
Definition remaining_deposit_capacity (b : bank) : res Z :=
  if negb (dep_limit_active b) then Ok U64_MAX else
  let* cur := get_asset_amount b (b_tas b) in
  let* lim := deposit_limit_fx b in
  if lim <=? cur then Ok 0 else
  let* r1 := math (csub lim cur) in
  let* r2 := math (csub r1 ONE) in
  let* r3 := math (cfloor r2) in
  math (to_u64_checked r3).

(* Bank::change_asset_shares *)
Definition change_asset_shares (b : bank) (shares : fx) (bypass : bool) : res bank :=
  let* tas' := math (cadd (b_tas b) shares) in
  let b' := set_b_tas tas' b in
  if (0 <? shares) && dep_limit_active b' && negb bypass then
    let* total := get_asset_amount b' tas' in
    let* lim := deposit_limit_fx b' in
    if lim <=? total then Err (E E_BankAssetCapacityExceeded) else Ok b'
  else Ok b'.

(* Bank::change_liability_shares *)
Definition change_liability_shares (b : bank) (shares : fx) (bypass : bool) : res bank :=
  let* tls' := math (cadd (b_tls b) shares) in
  let b' := set_b_tls tls' b in
  if negb bypass && (0 <? shares) && bor_limit_active b' then
    let* total := get_liability_amount b' tls' in
    if of_int (b_bor_limit b') <=? total then Err (E E_BankLiabilityCapacityExceeded) else Ok b'
  else Ok b'.

(* Bank::check_utilization_ratio *)
Definition check_utilization_ratio (b : bank) : res unit :=
  let* ta := get_asset_amount b (b_tas b) in
  let* tl := get_liability_amount b (b_tls b) in
  if ta <? tl then Err (E E_IllegalUtilizationRatio) else Ok tt.

(* Bank::socialize_loss : returns the new bank and kill_bank *)
Definition socialize_loss (b : bank) (loss : fx) : res (bank * bool) :=
  let* total := math (cmul (b_tas b) (b_asv b)) in
  if total <=? loss then Ok (set_b_asv 0 b, true)
  else
    let* d := usub total loss in
    let* nsv := math (cdiv d (b_tas b)) in
    Ok (set_b_asv nsv b, nsv =? 0).

Definition get_flag (flags flag : Z) : bool := Z.land flags flag =? flag.

Definition sat_i32 (z : Z) : Z := clamp (- 2^31) (2^31 - 1) z.
Definition inc_lend (b : bank) := set_b_lend_cnt (sat_i32 (b_lend_cnt b + 1)) b.
Definition dec_lend (b : bank) := set_b_lend_cnt (sat_i32 (b_lend_cnt b - 1)) b.
Definition inc_bor (b : bank) := set_b_bor_cnt (sat_i32 (b_bor_cnt b + 1)) b.
Definition dec_bor (b : bank) := set_b_bor_cnt (sat_i32 (b_bor_cnt b - 1)) b.

(* ------------------------------------------------------------------------------------------ *)
(* interest accrual *)
Definition accrued_per_period (apr : fx) (dt : Z) (value : fx) : res fx :=
  let* a := cmul apr (of_int dt) in
  let* ir := cdiv a SECONDS_PER_YEAR in
  let* f := cadd ONE ir in
  cmul value f.

Definition payment_for_period (apr : fx) (dt : Z) (value : fx) : res fx :=
  if apr =? 0 then Ok 0 else
  let* a := cmul value apr in
  let* b := cmul a (of_int dt) in
  cdiv b SECONDS_PER_YEAR.

Record accrual := mkAcc { ac_asv : fx; ac_lsv : fx; ac_ins : fx; ac_grp : fx; ac_prog : fx }.

(* calc_interest_rate_accrual_state_changes *)
Definition accrual_state_changes (dt : Z) (assets liabs : fx) (c : ir_config) (pf : prog_fees)
                                 (asv lsv : fx) : res accrual :=
  let* ur := cdiv liabs assets in
  let* r := calc_interest_rate c pf ur in
  let* nasv := accrued_per_period (r_lending r) dt asv in
  let* nlsv := accrued_per_period (r_borrowing r) dt lsv in
  let* ins := payment_for_period (r_insurance r) dt liabs in
  let* grp := payment_for_period (r_group r) dt liabs in
  let* prog := payment_for_period (r_protocol r) dt liabs in
  Ok (mkAcc nasv nlsv ins grp prog).

(* Bank::accrue_interest *)
Definition accrue_interest (b : bank) (pf : prog_fees) (now : Z) : res bank :=
  let* d := chk in_i64 (now - b_last_update b) in
  let* dt := chk in_u64 d in                       (* try_into::<u64>().unwrap() *)
  if dt =? 0 then Ok b else
  let* ta := get_asset_amount b (b_tas b) in
  let* tl := get_liability_amount b (b_tls b) in
  let b1 := set_b_last_update now b in
  if (ta =? 0) || (tl =? 0) then Ok b1 else
  let* ch := math (accrual_state_changes dt ta tl (b_ir b) pf (b_asv b) (b_lsv b)) in
  (* cache.accumulated_since_last_update: can fail with MathError, value itself not modelled *)
  let* dsv := math (csub (ac_asv ch) (b_asv b)) in
  let* _acc := math (cmul dsv (b_tas b)) in
  let b2 := set_b_lsv (ac_lsv ch) (set_b_asv (ac_asv ch) b1) in
  let* b3 := if 0 <? ac_grp ch then
               let* g := math (cadd (ac_grp ch) (b_grp b2)) in Ok (set_b_grp g b2) else Ok b2 in
  let* b4 := if 0 <? ac_ins ch then
               let* g := math (cadd (ac_ins ch) (b_ins b3)) in Ok (set_b_ins g b3) else Ok b3 in
  if 0 <? ac_prog ch then
    let* g := math (cadd (ac_prog ch) (b_prog b4)) in Ok (set_b_prog g b4) else Ok b4.

(* ------------------------------------------------------------------------------------------ *)
(* balances *)
Definition bal_empty : balance := mkBal false 0 ASSET_TAG_DEFAULT 0 0 0 0.

Inductive side := SAssets | SLiabs.

(* Balance::get_side (contains an assert!) *)
Definition get_side (bl : balance) : res (option side) :=
  let* _ := assert ((bl_a bl <? EMPTY_BALANCE_THRESHOLD) || (bl_l bl <? EMPTY_BALANCE_THRESHOLD)) in
  if EMPTY_BALANCE_THRESHOLD <=? bl_l bl then Ok (Some SLiabs)
  else if EMPTY_BALANCE_THRESHOLD <=? bl_a bl then Ok (Some SAssets)
  else Ok None.

Definition is_zero_tol (x : fx) : bool := fabs_w x <? ZERO_AMOUNT_THRESHOLD.
Definition is_pos_tol (x : fx) : bool := ZERO_AMOUNT_THRESHOLD <? x.

(* calc_emissions *)
Definition calc_emissions (period amount : fx) (decimals : Z) (rate : fx) : res fx :=
  let* e := exp10_fx decimals in
  let* ui := math (cdiv amount e) in
  let* a := math (cmul period ui) in
  let* b := math (cdiv a SECONDS_PER_YEAR) in
  math (cmul b rate).

(* BankAccountWrapper::claim_emissions *)
Definition claim_emissions (b : bank) (bl : balance) (now : Z) : res (bank * balance) :=
  let* sd := get_side bl in
  let* amt :=
    match sd with
    | Some SAssets =>
        if get_flag (b_flags b) EMISSIONS_FLAG_LENDING_ACTIVE
        then let* a := get_asset_amount b (bl_a bl) in Ok (Some a) else Ok None
    | Some SLiabs =>
        if get_flag (b_flags b) EMISSIONS_FLAG_BORROW_ACTIVE
        then let* a := get_liability_amount b (bl_l bl) in Ok (Some a) else Ok None
    | None => Ok None
    end in
  match amt with
  | Some amount =>
      let last := if bl_last bl <? MIN_EMISSIONS_START_TIME then now else bl_last bl in
      let* p := math (chko in_u64 (now - last)) in
      let* em := calc_emissions (of_int p) amount (balance_decimals b) (of_int (b_em_rate b)) in
      let real := fmin em (b_em_rem b) in
      let* out := math (cadd (bl_em bl) real) in
      let* rem := math (csub (b_em_rem b) real) in
      Ok (set_b_em_rem rem b, set_bl_last now (set_bl_em out bl))
  | None => Ok (b, set_bl_last now bl)
  end.

(* settle_emissions_and_get_transfer_amount *)
Definition settle_emissions (b : bank) (bl : balance) (now : Z) : res (bank * balance * Z) :=
  let* (b1, bl1) := claim_emissions b bl now in
  let* fl := math (cfloor (bl_em bl1)) in
  let* rest := math (csub (bl_em bl1) fl) in
  let* n := math (to_u64_checked fl) in
  Ok (b1, set_bl_em rest bl1, n).

Definition update_counts (b : bank) (had_a had_l has_a has_l : bool) : bank :=
  let b1 := if negb had_a && has_a then inc_lend b else b in
  let b2 := if had_a && negb has_a then dec_lend b1 else b1 in
  let b3 := if negb had_l && has_l then inc_bor b2 else b2 in
  if had_l && negb has_l then dec_bor b3 else b3.

Inductive inc_type := IncRepayOnly | IncDepositOnly | IncBypassDepositLimit.
Inductive dec_type := DecWithdrawOnly | DecBorrowOnly | DecBypassBorrowLimit.

(* increase_balance_internal *)
Definition increase_balance (b : bank) (bl : balance) (now : Z) (delta : fx) (t : inc_type)
  : res (bank * balance) :=
  let* (b, bl) := claim_emissions b bl now in
  let had_a := is_pos_tol (bl_a bl) in
  let had_l := is_pos_tol (bl_l bl) in
  let* cur_l := get_liability_amount b (bl_l bl) in
  let l_dec := fmin cur_l delta in
  let* d0 := math (csub delta cur_l) in
  let a_inc := fmax d0 0 in
  let* _ := match t with
            | IncRepayOnly => check (is_zero_tol a_inc) (E E_OperationRepayOnly)
            | IncDepositOnly => check (is_zero_tol l_dec) (E E_OperationDepositOnly)
            | IncBypassDepositLimit => Ok tt
            end in
  let* ash := get_asset_shares b a_inc in
  let* a' := math (cadd (bl_a bl) ash) in
  let bl1 := set_bl_a a' bl in
  let* b1 := change_asset_shares b ash (match t with IncBypassDepositLimit => true | _ => false end) in
  let* lsh := get_liability_shares b1 l_dec in
  let* nl := uneg lsh in
  let* l' := math (cadd (bl_l bl1) nl) in
  let bl2 := set_bl_l l' bl1 in
  let* b2 := change_liability_shares b1 nl true in
  Ok (update_counts b2 had_a had_l (is_pos_tol (bl_a bl2)) (is_pos_tol (bl_l bl2)), bl2).

(* decrease_balance_internal *)
Definition decrease_balance (b : bank) (bl : balance) (now : Z) (delta : fx) (t : dec_type)
  : res (bank * balance) :=
  let* (b, bl) := claim_emissions b bl now in
  let had_a := is_pos_tol (bl_a bl) in
  let had_l := is_pos_tol (bl_l bl) in
  let* cur_a := get_asset_amount b (bl_a bl) in
  let a_dec := fmin cur_a delta in
  let* d0 := math (csub delta cur_a) in
  let l_inc := fmax d0 0 in
  let* _ := match t with
            | DecWithdrawOnly => check (is_zero_tol l_inc) (E E_OperationWithdrawOnly)
            | DecBorrowOnly => check (is_zero_tol a_dec) (E E_OperationBorrowOnly)
            | DecBypassBorrowLimit => Ok tt
            end in
  let* ash := get_asset_shares b a_dec in
  let* nash := uneg ash in
  let* a' := math (cadd (bl_a bl) nash) in
  let bl1 := set_bl_a a' bl in
  let* b1 := change_asset_shares b nash false in
  let* lsh := get_liability_shares b1 l_inc in
  let* l' := math (cadd (bl_l bl1) lsh) in
  let bl2 := set_bl_l l' bl1 in
  let byp := match t with DecBypassBorrowLimit => true | _ => false end in
  let* b2 := change_liability_shares b1 lsh byp in
  let* _ := if byp then Ok tt else check_utilization_ratio b2 in
  Ok (update_counts b2 had_a had_l (is_pos_tol (bl_a bl2)) (is_pos_tol (bl_l bl2)), bl2).

(* Balance::close(check_emissions = true) *)
Definition balance_close (bl : balance) : res balance :=
  let* _ := check (bl_em bl <? ONE) (E E_CannotCloseOutstandingEmissions) in Ok bal_empty.

(* withdraw_all : returns tokens to pay out *)
Definition withdraw_all (b : bank) (bl : balance) (now : Z) : res (bank * balance * Z) :=
  let* (b, bl) := claim_emissions b bl now in
  let sh := bl_a bl in
  let* cur_a := get_asset_amount b sh in
  let* cur_l := get_liability_amount b (bl_l bl) in
  let* _ := check (is_pos_tol cur_a) (E E_NoAssetFound) in
  let* _ := check (is_zero_tol cur_l) (E E_NoAssetFound) in
  let* bl' := balance_close bl in
  let b1 := dec_lend b in
  let* nsh := uneg sh in
  let* b2 := change_asset_shares b1 nsh false in
  let* _ := check_utilization_ratio b2 in
  let* fl := math (cfloor cur_a) in
  let* dust := math (csub cur_a fl) in
  let* ins := math (cadd dust (b_ins b2)) in
  let* n := math (to_u64_checked fl) in
  Ok (set_b_ins ins b2, bl', n).

(* repay_all : returns tokens to charge *)
Definition repay_all (b : bank) (bl : balance) (now : Z) : res (bank * balance * Z) :=
  let* (b, bl) := claim_emissions b bl now in
  let sh := bl_l bl in
  let* cur_l := get_liability_amount b sh in
  let* cur_a := get_asset_amount b (bl_a bl) in
  let* _ := check (is_pos_tol cur_l) (E E_NoLiabilityFound) in
  let* _ := check (is_zero_tol cur_a) (E E_NoLiabilityFound) in
  let* bl' := balance_close bl in
  let b1 := dec_bor b in
  let* nsh := uneg sh in
  let* b2 := change_liability_shares b1 nsh false in
  let* ce := math (cceil cur_l) in
  let* dust := math (csub ce cur_l) in
  let* ins := math (cadd dust (b_ins b2)) in
  let* n := math (to_u64_checked ce) in
  Ok (set_b_ins ins b2, bl', n).

(* close_balance *)
Definition close_balance (b : bank) (bl : balance) (now : Z) : res (bank * balance) :=
  let* (b, bl) := claim_emissions b bl now in
  let* cur_l := get_liability_amount b (bl_l bl) in
  let* cur_a := get_asset_amount b (bl_a bl) in
  let* _ := check (is_zero_tol cur_l) (E E_IllegalBalanceState) in
  let* _ := check (is_zero_tol cur_a) (E E_IllegalBalanceState) in
  let* bl' := balance_close bl in
  Ok (b, bl').

(* ------------------------------------------------------------------------------------------ *)
(* lending account = 16 balance slots *)
Definition laccount := list balance.
Definition la_empty : laccount := repeat bal_empty 16.

Fixpoint find_idx (f : balance -> bool) (l : laccount) (i : nat) : option nat :=
  match l with
  | [] => None
  | x :: xs => if f x then Some i else find_idx f xs (S i)
  end.

Definition find_active (bank_pk : Z) (la : laccount) : option nat :=
  find_idx (fun bl => bl_active bl && (bl_bank bl =? bank_pk)) la 0.

Fixpoint set_nth {A} (n : nat) (v : A) (l : list A) : list A :=
  match l, n with
  | [], _ => []
  | _ :: xs, O => v :: xs
  | x :: xs, S k => x :: set_nth k v xs
  end.

Definition is_integration_tag (t : Z) : bool :=
  (t =? ASSET_TAG_KAMINO) || (t =? ASSET_TAG_DRIFT) || (t =? ASSET_TAG_SOLEND).

(* BankAccountWrapper::find *)
Definition wrapper_find (bank_pk : Z) (la : laccount) : res nat :=
  match find_active bank_pk la with Some i => Ok i | None => Err (E E_BankAccountNotFound) end.

(* BankAccountWrapper::find_or_create *)
Definition wrapper_find_or_create (bank_pk : Z) (b : bank) (la : laccount) (now : Z)
  : res (nat * laccount) :=
  match find_active bank_pk la with
  | Some i => Ok (i, la)
  | None =>
      let* _ := if is_integration_tag (b_asset_tag b) then
                  let cnt := Z.of_nat (length (filter (fun bl => bl_active bl && is_integration_tag (bl_tag bl)) la)) in
                  check (cnt <? MAX_INTEGRATION_POSITIONS) (E E_IntegrationPositionLimitExceeded)
                else Ok tt in
      match find_idx (fun bl => negb (bl_active bl)) la 0 with
      | None => Err (E E_LendingAccountBalanceSlotsFull)
      | Some i =>
          Ok (i, set_nth i (mkBal true bank_pk (b_asset_tag b) 0 0 0 (wrap_u 64 now)) la)
      end
  end.

(* LendingAccount::sort_balances : stable sort, descending by bank key *)
Fixpoint insert_desc (x : balance) (l : laccount) : laccount :=
  match l with
  | [] => [x]
  | y :: ys => if bl_bank y <? bl_bank x then x :: l else y :: insert_desc x ys
  end.
Definition sort_balances (la : laccount) : laccount := fold_right insert_desc [] la.
