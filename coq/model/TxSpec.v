(* TxSpec.v — vocabulary used by the statements of C10 / C11: the languages accepted by the
   validators, observations of the bracket state of an account, and the start-time / end-time
   conditions of a receivership.  Definitions only. *)
Require Import Base Fixed Constants TxConstants Tx.
Local Open Scope Z_scope.

Definition is_cb (d : ixd) : bool := prog_eqb (d_prog d) PCompute.
Definition long (d : ixd) : bool := 8 <=? d_len d.
(* the instruction the validator is looking for *)
Definition tgt (pid : prog) (exp : Z) (d : ixd) : bool := negb (is_cb d) && long d && is_exp pid exp d.
(* what may precede it: compute-budget instructions and listed (program, discriminator) pairs *)
Definition skip1 (pid : prog) (exp : Z) (al : list (prog * Z)) (d : ixd) : bool :=
  is_cb d || (long d && negb (is_exp pid exp d) && pair_in al d).
(* what may follow it: anything well-formed that is not the expected instruction again *)
Definition after1 (pid : prog) (exp : Z) (d : ixd) : bool :=
  is_cb d || (long d && negb (is_exp pid exp d)).

Definition is_end (pid : prog) (exp : Z) (d : ixd) : bool := long d && is_exp pid exp d.

Definition excl_ok (pid : prog) (expected : list Z) (d : ixd) : bool :=
  negb (prog_eqb (d_prog d) pid) || (long d && existsb (fun h => h =? d_disc d) expected).

Definition prog_allowed (keys : list prog) (d : ixd) : bool := existsb (fun k => prog_eqb k (d_prog d)) keys.

Definition mid_ok (K : bkind) (d : ixd) : bool :=
  prog_allowed allowed_programs d && excl_ok PMfi (excl_list K) d && after1 PMfi (start_disc K) d.

Definition is_endfl_for (k : Z) (d : ixd) : Prop :=
  d_prog d = PMfi /\ 8 <= d_len d /\ d_disc d = IX_EF /\ exists tl, d_accts d = k :: tl.


Section Spec.
Context {BW PF : Type}.
Notation world := (world BW PF).
Notation acct := (acct PF).

Definition ofl (w : world) k := match w_accts w k with Some a => f_fl (a_fl a) | None => false end.
Definition orc (w : world) k := match w_accts w k with Some a => f_recv (a_fl a) | None => false end.
Definition odl (w : world) k := match w_accts w k with Some a => f_delev (a_fl a) | None => false end.
Definition orv (w : world) k := match w_accts w k with Some a => a_recv a | None => 0 end.
Definition ouc (w : world) k := match w_accts w k with Some a => a_unchk a | None => false end.
Definition ocache (w : world) k := match w_accts w k with Some a => a_cache a | None => c4_zero end.

(* what end_receivership + the premium check establish, in terms of the start-time snapshot c *)
Definition end_cond (R : env BW PF) (K : bkind) (c : cache4) (bw : BW) (pf : PF) (fee : Z) : Prop :=
  exists qa ql qae qle,
    e_maint R bw pf = Ok (qa, ql) /\ e_equity R bw pf = Ok (qae, qle) /\
    c_am c - c_lm c <= qa - ql /\
    (K = KLiq -> LIQUIDATION_CLOSEOUT_DOLLAR_THRESHOLD <= c_ae c ->
       qa - ql <= 0 /\
       c_ae c - qae <= wmul (c_le c - qle) (Z.max (ONE + fee) (ONE + LIQUIDATION_BONUS_FEE_MINIMUM))).

Definition start_cond (R : env BW PF) (K : bkind) (c : cache4) (bw : BW) (pf : PF) : Prop :=
  e_maint R bw pf = Ok (c_am c, c_lm c) /\ e_equity R bw pf = Ok (c_ae c, c_le c) /\
  (K = KLiq -> c_am c - c_lm c <= 0).

Definition hd_is (a : Z) (d : ixd) : Prop := exists tl, d_accts d = a :: tl.

Definition clean_r (w : world) : Prop := forall k, orc w k = false /\ odl w k = false /\ orv w k = 0.

Definition start_at (ixes : list ixd) (i : Z) (K : bkind) (a : Z) : Prop :=
  exists d, nth_z ixes i = Some d /\ d_prog d = PMfi /\ 8 <= d_len d /\ d_disc d = start_disc K /\ hd_is a d.

(* the account's record still holds the start-time snapshot c and the end-time conditions hold *)
Definition final_facts (R : env BW PF) (K : bkind) (c : cache4) (w : world) (a : Z) : Prop :=
  exists A, w_accts w a = Some A /\ a_cache A = c /\ end_cond R K c (w_bw w) (a_pf A) (w_fee_max w).

Definition last_end (ixes : list ixd) (K : bkind) (a : Z) : Prop :=
  exists pre y, ixes = pre ++ [y] /\ is_end PMfi (end_disc K) y = true /\ hd_is a y.


End Spec.
