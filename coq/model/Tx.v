(* Tx.v — transactions, instruction introspection and the three "bracket" protocols of marginfi:
   receivership liquidation, forced deleverage and flash loans.

   Sources mirrored (same branch order, same error per branch):
     programs/marginfi/src/ix_utils.rs                       validate_ix_first / validate_ix_last /
                                                             validate_ixes_exclusive / validate_program_allowed /
                                                             load_and_validate_instructions / validate_not_cpi_*
     instructions/marginfi_account/liquidate_start.rs        start_liquidation, start_deleverage,
                                                             start_receivership, validate_instructions
     instructions/marginfi_account/liquidate_end.rs          end_liquidation, end_deleverage, end_receivership
     instructions/marginfi_account/flashloan.rs              start / check_flashloan_can_start / end
     instructions/marginfi_account/{withdraw,repay,borrow,deposit}.rs   flag guards, authorisation, health gate
     instructions/{kamino,drift,solend}/withdraw.rs          same guards as withdraw.rs
     instructions/marginfi_account/{liquidate,transfer_account,init_liquid_record}.rs,
     instructions/marginfi_group/handle_bankruptcy.rs        guards on flagged accounts
     state/marginfi_account.rs                               is_signer_authorized, account_not_frozen_for_authority,
                                                             RiskEngine::new / check_account_init_health flag handling

   What is abstract here (another area's model plugs in through the record `env`): valuation
   (initial-margin check, maintenance and equity components), the bookkeeping effect of
   withdraw / repay / borrow / deposit, the body of classic liquidation and bankruptcy, and every
   marginfi instruction that is none of the above (`e_other`, which by construction of `patch`
   cannot touch the three bracket flags, the liquidation record or the ghost bit).

   Definitions only.  All Rust integers are Z; pubkeys are Z with 0 = Pubkey::default(). *)
Require Import Base Fixed Constants TxConstants.
Local Open Scope Z_scope.

(* ------------------------------------------------------------------------------------------ *)
(* Programs and serialized instructions (what the instructions sysvar shows)                   *)
(* ------------------------------------------------------------------------------------------ *)

Inductive prog :=
| PCompute | PMfi | PKamino | PDrift | PJup | PTitan | PAta
| PForeign (k : Z).     (* any other program *)

Definition prog_eqb (p q : prog) : bool :=
  match p, q with
  | PCompute, PCompute | PMfi, PMfi | PKamino, PKamino | PDrift, PDrift
  | PJup, PJup | PTitan, PTitan | PAta, PAta => true
  | PForeign a, PForeign b => a =? b
  | _, _ => false
  end.

(* d_disc = the first 8 data bytes read as a little-endian u64; only meaningful when 8 <= d_len.
   d_accts = pubkeys of the account metas in order; d_args = the decoded (Borsh) arguments. *)
Record ixd := mkIxd {
  d_prog : prog;
  d_len : Z;
  d_disc : Z;
  d_accts : list Z;
  d_args : list Z
}.

(* A top-level instruction together with the instructions it invokes by CPI (in order). Only
   non-marginfi programs have inner calls that matter: marginfi never calls itself. *)
Record top_ix := mkTop { t_d : ixd; t_inner : list ixd }.

(* list indexing by a Z (usize) index; recursion on the list so that huge indices cost nothing *)
Fixpoint nth_zf {A} (l : list A) (i : Z) : option A :=
  match l with
  | [] => None
  | x :: tl => if i =? 0 then Some x else nth_zf tl (i - 1)
  end.
Definition nth_z {A} (l : list A) (i : Z) : option A :=
  if i <? 0 then None else nth_zf l i.

Definition len_z {A} (l : list A) : Z := Z.of_nat (length l).

(* ------------------------------------------------------------------------------------------ *)
(* ix_utils.rs                                                                                 *)
(* ------------------------------------------------------------------------------------------ *)

Definition is_exp (pid : prog) (exp : Z) (d : ixd) : bool :=
  prog_eqb (d_prog d) pid && (d_disc d =? exp).

Definition pair_in (allowed : list (prog * Z)) (d : ixd) : bool :=
  existsb (fun pa => prog_eqb (fst pa) (d_prog d) && (snd pa =? d_disc d)) allowed.

(* the `for instruction in ixes.iter()` loop of validate_ix_first; `enc` = expected_ix_encountered *)
Fixpoint vif_loop (pid : prog) (exp : Z) (allowed : list (prog * Z)) (enc : bool) (l : list ixd) : res bool :=
  match l with
  | [] => Ok enc
  | d :: tl =>
      if prog_eqb (d_prog d) PCompute then vif_loop pid exp allowed enc tl
      else if d_len d <? 8 then Err (E E_StartNotFirst)
      else if negb enc then
        if is_exp pid exp d then vif_loop pid exp allowed true tl
        else if negb (pair_in allowed d) then Err (E E_StartNotFirst)
        else vif_loop pid exp allowed false tl
      else if is_exp pid exp d then Err (E E_StartRepeats)
      else vif_loop pid exp allowed true tl
  end.

Definition validate_ix_first (ixes : list ixd) (pid : prog) (exp : Z) (allowed : list (prog * Z)) : res unit :=
  let* enc := vif_loop pid exp allowed false ixes in
  if enc then Ok tt else Err (E E_StartNotFirst).

Definition validate_ix_last (ixes : list ixd) (pid : prog) (exp : Z) : res unit :=
  match last (map Some ixes) None with
  | None => Err EPanic                                   (* ixes.last().unwrap() *)
  | Some d =>
      if d_len d <? 8 then Err (E E_EndNotLast)
      else let* _ := check (prog_eqb (d_prog d) pid) (E E_EndNotLast) in
           check (d_disc d =? exp) (E E_EndNotLast)
  end.

Fixpoint validate_ixes_exclusive (ixes : list ixd) (pid : prog) (expected : list Z) : res unit :=
  match ixes with
  | [] => Ok tt
  | d :: tl =>
      if prog_eqb (d_prog d) pid then
        if d_len d <? 8 then Err EPanic                  (* panic!("malformed instruction") *)
        else if existsb (fun h => h =? d_disc d) expected
             then validate_ixes_exclusive tl pid expected
             else Err (E E_ForbiddenIx)
      else validate_ixes_exclusive tl pid expected
  end.

(* load_and_validate_instructions(sysvar, Some(keys)): the first instruction of a program outside
   `keys` fails the load *)
Fixpoint load_and_validate (ixes : list ixd) (keys : list prog) : res unit :=
  match ixes with
  | [] => Ok tt
  | d :: tl =>
      if existsb (fun k => prog_eqb k (d_prog d)) keys then load_and_validate tl keys
      else Err (E E_ForbiddenIx)
  end.

(* validate_not_cpi_with_sysvar: the top-level instruction at the current index must be marginfi *)
Definition not_cpi_with_sysvar (ixes : list ixd) (cur : Z) : res Z :=
  match nth_z ixes cur with
  | None => Err (E PE_INVALID_ARGUMENT)                  (* load_instruction_at_checked: index out of range *)
  | Some d => if prog_eqb (d_prog d) PMfi then Ok cur else Err (E E_NotAllowedInCPI)
  end.

(* ------------------------------------------------------------------------------------------ *)
(* liquidate_start.rs: validate_instructions, for liquidation and for deleverage               *)
(* ------------------------------------------------------------------------------------------ *)

Inductive bkind := KLiq | KDelev.
Definition start_disc (K : bkind) : Z := match K with KLiq => IX_SL | KDelev => IX_SD end.
Definition end_disc (K : bkind) : Z := match K with KLiq => IX_EL | KDelev => IX_ED end.

Definition allowed_programs : list prog :=
  [PCompute; PMfi; PKamino; PDrift; PJup; PTitan; PAta; PDrift].

Definition allowed_pre : list (prog * Z) :=
  [(PKamino, IX_KRR); (PKamino, IX_KRO); (PMfi, IX_IR); (PDrift, IX_DUS)].

Definition excl_list (K : bkind) : list Z :=
  [start_disc K; end_disc K; IX_IR; IX_WD; IX_RP; IX_KW; IX_DW].

(* `cpi` = the handler runs at stack height > TRANSACTION_LEVEL_STACK_HEIGHT *)
Definition validate_instructions (ixes : list ixd) (cur : Z) (cpi : bool) (K : bkind) : res unit :=
  let* _ := load_and_validate ixes allowed_programs in
  let* _ := validate_ix_first ixes PMfi (start_disc K) allowed_pre in
  let* _ := validate_ix_last ixes PMfi (end_disc K) in
  let* _ := validate_ixes_exclusive ixes PMfi (excl_list K) in
  let* _ := check (negb cpi) (E E_NotAllowedInCPI) in
  let* i := not_cpi_with_sysvar ixes cur in
  check (i <? len_z ixes - 1) (E E_StartNotFirst).

(* ------------------------------------------------------------------------------------------ *)
(* Account flags                                                                               *)
(* ------------------------------------------------------------------------------------------ *)

Record aflags := mkFl {
  f_disabled : bool; f_fl : bool; f_recv : bool; f_delev : bool; f_frozen : bool
}.

Definition bit_set (z mask : Z) : bool := negb (Z.land z mask =? 0).       (* get_flag *)

Definition flags_of_Z (z : Z) : aflags :=
  mkFl (bit_set z ACCOUNT_DISABLED) (bit_set z ACCOUNT_IN_FLASHLOAN) (bit_set z ACCOUNT_IN_RECEIVERSHIP)
       (bit_set z ACCOUNT_IN_DELEVERAGE) (bit_set z ACCOUNT_FROZEN).

Definition Z_of_flags (f : aflags) : Z :=
  (if f_disabled f then ACCOUNT_DISABLED else 0) + (if f_fl f then ACCOUNT_IN_FLASHLOAN else 0) +
  (if f_recv f then ACCOUNT_IN_RECEIVERSHIP else 0) + (if f_delev f then ACCOUNT_IN_DELEVERAGE else 0) +
  (if f_frozen f then ACCOUNT_FROZEN else 0).

Definition fl_zero : aflags := mkFl false false false false false.
Definition set_fl (f : aflags) (b : bool) := mkFl (f_disabled f) b (f_recv f) (f_delev f) (f_frozen f).
Definition set_recv (f : aflags) (b : bool) := mkFl (f_disabled f) (f_fl f) b (f_delev f) (f_frozen f).
Definition set_delev (f : aflags) (b : bool) := mkFl (f_disabled f) (f_fl f) (f_recv f) b (f_frozen f).
Definition set_disabled (f : aflags) (b : bool) := mkFl b (f_fl f) (f_recv f) (f_delev f) (f_frozen f).
Definition set_frozen (f : aflags) (b : bool) := mkFl (f_disabled f) (f_fl f) (f_recv f) (f_delev f) b.

(* ------------------------------------------------------------------------------------------ *)
(* flashloan.rs: check_flashloan_can_start                                                     *)
(* ------------------------------------------------------------------------------------------ *)

Definition check_flashloan_can_start (fl : aflags) (acct_key : Z) (ixes : list ixd) (cur end_idx : Z)
           (cpi : bool) : res unit :=
  let* cur_idx := not_cpi_with_sysvar ixes cur in
  let* _ := check (cur_idx <? end_idx) (E E_IllegalFlashloan) in
  let* _ := check (negb cpi) (E E_NotAllowedInCPI) in
  match nth_z ixes end_idx with
  | None => Err (E PE_INVALID_ARGUMENT)                  (* load_instruction_at_checked *)
  | Some e =>
      if d_len e <? 8 then Err EPanic                    (* &data[..8] *)
      else
      let* _ := check (d_disc e =? IX_EF) (E E_IllegalFlashloan) in
      let* _ := check (prog_eqb (d_prog e) PMfi) (E E_IllegalFlashloan) in
      match d_accts e with
      | [] => Err (E E_IllegalFlashloan)
      | k0 :: _ =>
          let* _ := check (k0 =? acct_key) (E E_IllegalFlashloan) in
          let* _ := check (negb (f_disabled fl)) (E E_AccountDisabled) in
          let* _ := check (negb (f_fl fl)) (E E_IllegalFlashloan) in
          let* _ := check (negb (f_recv fl)) (E E_ForbiddenIx) in
          check (negb (f_frozen fl)) (E E_AccountFrozen)
      end
  end.

(* ------------------------------------------------------------------------------------------ *)
(* World                                                                                       *)
(* ------------------------------------------------------------------------------------------ *)

(* LiquidationRecord.cache: maintenance assets / liabilities, equity assets / liabilities *)
Record cache4 := mkC4 { c_am : Z; c_lm : Z; c_ae : Z; c_le : Z }.
Definition c4_zero := mkC4 0 0 0 0.

Inductive opk := OpWithdraw | OpRepay | OpBorrow | OpDeposit.

Section World.
Context {BW PF : Type}.      (* bank-side state, one account's portfolio *)

(* a_record : the liquidation record PDA exists (account.liquidation_record is set)
   a_recv   : LiquidationRecord.liquidation_receiver (0 when there is no record)
   a_unchk  : GHOST — a risk-increasing action ran with its initial-margin check skipped because of
              IN_FLASHLOAN and no initial-margin check has passed since *)
Record acct := mkA {
  a_fl : aflags; a_auth : Z; a_migrated : bool;
  a_record : bool; a_recv : Z; a_cache : cache4;
  a_pf : PF; a_unchk : bool
}.

Record world := mkW {
  w_accts : Z -> option acct;
  w_bw : BW;
  w_admin : Z;            (* group.admin *)
  w_risk_admin : Z;       (* group.risk_admin *)
  w_fee_max : Z           (* fee_state.liquidation_max_fee, raw I80F48 bits *)
}.

(* What any OTHER marginfi instruction may do to an account, by construction: create it, close it
   (refused while flagged: can_be_closed), change its portfolio / authority / DISABLED / FROZEN.
   It cannot touch IN_FLASHLOAN, IN_RECEIVERSHIP, IN_DELEVERAGE, the record or the ghost bit:
   set_flag / unset_flag with those masks occur only in liquidate_start.rs, liquidate_end.rs and
   flashloan.rs, and liquidation_receiver / cache are written only there and in init_liquid_record.rs. *)
Record patch := mkPatch {
  p_key : Z; p_close : bool; p_disabled : bool; p_frozen : bool; p_auth : Z; p_pf : PF
}.

Record env := mkEnv {
  e_init_check : BW -> PF -> res unit;      (* RiskEngine::check_account_health(Initial): Ok = healthy *)
  e_maint : BW -> PF -> res (Z * Z);        (* get_account_health_components(Maintenance) = (assets, liabs) *)
  e_equity : BW -> PF -> res (Z * Z);       (* get_account_health_components(Equity) *)
  (* bookkeeping + token movement of withdraw/repay/borrow/deposit: kind bank amount all in_deleverage *)
  e_op : opk -> Z -> Z -> bool -> bool -> BW -> PF -> res (BW * PF);
  e_w_init : BW -> Z -> Z;                  (* bank.config.asset_weight_init, raw bits *)
  e_price_low : BW -> Z -> res Z;           (* fetch_asset_price_for_bank_low_bias *)
  (* classic liquidation after the flag guards, up to (not including) the liquidator's health check:
     asset_bank liab_bank amount bw liquidator_pf liquidatee_pf *)
  e_liquidate : Z -> Z -> Z -> BW -> PF -> PF -> res (BW * PF * PF);
  e_bankrupt : Z -> Z -> BW -> PF -> res (BW * PF);     (* signer bank *)
  e_pf_empty : PF;                          (* LendingAccount::zeroed() *)
  e_other : ixd -> world -> res (BW * list patch);
  (* check_account_init_health handed an EMPTY remaining-accounts slice (the engine cannot load any bank / oracle) *)
  e_init_check_norem : PF -> res unit
}.

Context (R : env).

Definition get_acct (w : world) (k : Z) : res acct :=
  match w_accts w k with
  | Some a => Ok a
  | None => Err (E AE_ACCOUNT_OWNED_BY_WRONG_PROGRAM)    (* AccountLoader::try_from on a non-marginfi account *)
  end.

Definition set_acct (w : world) (k : Z) (a : acct) : world :=
  mkW (fun k' => if k' =? k then Some a else w_accts w k') (w_bw w) (w_admin w) (w_risk_admin w) (w_fee_max w).

Definition del_acct (w : world) (k : Z) : world :=
  mkW (fun k' => if k' =? k then None else w_accts w k') (w_bw w) (w_admin w) (w_risk_admin w) (w_fee_max w).

Definition set_bw (w : world) (b : BW) : world :=
  mkW (w_accts w) b (w_admin w) (w_risk_admin w) (w_fee_max w).

Definition upd_fl (a : acct) (f : aflags) : acct :=
  mkA f (a_auth a) (a_migrated a) (a_record a) (a_recv a) (a_cache a) (a_pf a) (a_unchk a).
Definition upd_pf (a : acct) (p : PF) (u : bool) : acct :=
  mkA (a_fl a) (a_auth a) (a_migrated a) (a_record a) (a_recv a) (a_cache a) p u.
Definition upd_rec (a : acct) (f : aflags) (r : Z) (c : cache4) : acct :=
  mkA f (a_auth a) (a_migrated a) (a_record a) r c (a_pf a) (a_unchk a).

(* state/marginfi_account.rs *)
Definition not_frozen_for_authority (a : acct) (signer : Z) : bool :=
  negb (f_frozen (a_fl a) && (a_auth a =? signer)).

Definition signer_authorized (a : acct) (admin signer : Z) (allow_recv : bool) : bool :=
  if allow_recv && f_recv (a_fl a) then true
  else if f_frozen (a_fl a) then admin =? signer
  else a_auth a =? signer.

(* the two account constraints shared by withdraw / repay / borrow / deposit / transfer *)
Definition auth_checks (w : world) (a : acct) (signer : Z) (allow_recv : bool) : res unit :=
  let* _ := check (not_frozen_for_authority a signer) (E E_AccountFrozen) in
  check (signer_authorized a (w_admin w) signer allow_recv) (E E_Unauthorized).

(* ---- liquidate_start.rs ---- *)
Definition is_liq (K : bkind) : bool := match K with KLiq => true | KDelev => false end.

Definition h_start (K : bkind) (ixes : list ixd) (cur : Z) (cpi : bool) (w : world) (a recv : Z) : res world :=
  let* A := get_acct w a in
  (* AccountLoader of the liquidation record PDA *)
  let* _ := check (a_record A) (E AE_ACCOUNT_OWNED_BY_WRONG_PROGRAM) in
  let fl := a_fl A in
  let* _ := check (negb (f_recv fl) && negb (f_fl fl) && negb (f_disabled fl)) (E E_UnexpectedLiquidationState) in
  let* _ := (if is_liq K then Ok tt else check (recv =? w_risk_admin w) (E AE_CONSTRAINT_HAS_ONE)) in
  (* start_receivership: RiskEngine::new refuses IN_FLASHLOAN (already excluded by the constraint) *)
  let* ml := e_maint R (w_bw w) (a_pf A) in
  let* h := ok_or (csub (fst ml) (snd ml)) (E E_MathError) in
  let* _ := check (negb ((0 <? h) && is_liq K)) (E E_HealthyAccount) in
  let* el := e_equity R (w_bw w) (a_pf A) in
  let fl' := set_recv (if is_liq K then fl else set_delev fl true) true in
  let A' := upd_rec A fl' recv (mkC4 (fst ml) (snd ml) (fst el) (snd el)) in
  let* _ := validate_instructions ixes cur cpi K in
  Ok (set_acct w a A').

(* ---- liquidate_end.rs ---- *)
Definition h_end (K : bkind) (cpi : bool) (w : world) (a signer : Z) : res world :=
  let* A := get_acct w a in
  let* _ := check (a_record A) (E AE_ACCOUNT_OWNED_BY_WRONG_PROGRAM) in
  let fl := a_fl A in
  let* _ := check (f_recv fl && negb (f_fl fl) && negb (f_disabled fl)) (E E_UnexpectedLiquidationState) in
  let* _ := (if is_liq K then check (a_recv A =? signer) (E E_InvalidLiquidationReceiver)
             else let* _ := check (a_recv A =? signer) (E E_Unauthorized) in
                  check (signer =? w_risk_admin w) (E AE_CONSTRAINT_HAS_ONE)) in
  let* _ := check (negb cpi) (E E_NotAllowedInCPI) in
  let c := a_cache A in
  let ignore_healthy := if is_liq K then c_ae c <? LIQUIDATION_CLOSEOUT_DOLLAR_THRESHOLD else true in
  (* end_receivership *)
  let* pre_h := usub (c_am c) (c_lm c) in
  let* ml := e_maint R (w_bw w) (a_pf A) in
  let* post_h := ok_or (csub (fst ml) (snd ml)) (E E_MathError) in
  let* _ := check (negb ((0 <? post_h) && negb ignore_healthy)) (E E_HealthyAccount) in
  let* el := e_equity R (w_bw w) (a_pf A) in
  let* _ := check (negb (post_h <? pre_h)) (E E_WorseHealthPostLiquidation) in
  let* seized := usub (c_ae c) (fst el) in
  let* repaid := usub (c_le c) (snd el) in
  let* _ := (if is_liq K then
               let* f1 := uadd ONE (w_fee_max w) in
               let* f2 := uadd ONE LIQUIDATION_BONUS_FEE_MINIMUM in
               if ignore_healthy then Ok tt
               else check (seized <=? wmul repaid (Z.max f1 f2)) (E E_LiquidationPremiumTooHigh)
             else Ok tt) in
  let fl' := set_recv (if is_liq K then fl else set_delev fl false) false in
  Ok (set_acct w a (upd_rec A fl' 0 c)).

(* ---- flashloan.rs ---- *)
Definition h_start_fl (ixes : list ixd) (cur : Z) (cpi : bool) (w : world) (a auth end_idx : Z) : res world :=
  let* A := get_acct w a in
  let* _ := check (a_auth A =? auth) (E E_Unauthorized) in
  let* _ := check_flashloan_can_start (a_fl A) a ixes cur end_idx cpi in
  Ok (set_acct w a (upd_fl A (set_fl (a_fl A) true))).

(* norem: the instruction carries no remaining accounts (risk accounts omitted by the caller) *)
Definition h_end_fl (cpi : bool) (w : world) (a auth : Z) (norem : bool) : res world :=
  let* A := get_acct w a in
  let* _ := check (a_auth A =? auth) (E E_Unauthorized) in
  let* _ := check (negb cpi) (E E_NotAllowedInCPI) in
  let fl := a_fl A in
  let* _ := check (negb (f_disabled fl)) (E E_AccountDisabled) in
  let* _ := check (negb (f_recv fl)) (E E_ForbiddenIx) in
  let* _ := check (negb (f_frozen fl)) (E E_AccountFrozen) in
  let* _ := (if norem then e_init_check_norem R (a_pf A) else e_init_check R (w_bw w) (a_pf A)) in
  Ok (set_acct w a (upd_pf (upd_fl A (set_fl fl false)) (a_pf A) false)).

(* ---- withdraw.rs (and kamino / drift / solend withdraw) ---- *)
Definition h_withdraw (w : world) (a signer bank amount : Z) (all : bool) : res world :=
  let* A := get_acct w a in
  let* _ := auth_checks w A signer true in
  let fl := a_fl A in
  let* _ := check (negb (f_recv fl && (e_w_init R (w_bw w) bank =? 0))) (E E_LiquidationPremiumTooHigh) in
  let* _ := check (negb (f_disabled fl)) (E E_AccountDisabled) in
  let* _ := (if f_recv fl then
               let* p := e_price_low R (w_bw w) bank in check (0 <? p) (E E_ZeroAssetPrice)
             else Ok tt) in
  let* r := e_op R OpWithdraw bank amount all (f_delev fl) (w_bw w) (a_pf A) in
  let w1 := set_bw w (fst r) in
  if f_recv fl then Ok (set_acct w1 a (upd_pf A (snd r) (a_unchk A)))          (* no health check in receivership *)
  else if f_fl fl then Ok (set_acct w1 a (upd_pf A (snd r) true))              (* check_account_init_health skipped *)
  else let* _ := e_init_check R (fst r) (snd r) in
       Ok (set_acct w1 a (upd_pf A (snd r) false)).

(* ---- repay.rs ---- *)
Definition h_repay (w : world) (a signer bank amount : Z) (all : bool) : res world :=
  let* A := get_acct w a in
  let* _ := auth_checks w A signer true in
  let* _ := check (negb (f_disabled (a_fl A))) (E E_AccountDisabled) in
  let* r := e_op R OpRepay bank amount all (f_delev (a_fl A)) (w_bw w) (a_pf A) in
  Ok (set_acct (set_bw w (fst r)) a (upd_pf A (snd r) (a_unchk A))).

(* ---- borrow.rs ---- *)
Definition h_borrow (w : world) (a signer bank amount : Z) : res world :=
  let* A := get_acct w a in
  let* _ := auth_checks w A signer false in
  let fl := a_fl A in
  let* _ := check (negb (f_disabled fl) && negb (f_recv fl)) (E E_AccountDisabled) in
  let* r := e_op R OpBorrow bank amount false (f_delev fl) (w_bw w) (a_pf A) in
  let w1 := set_bw w (fst r) in
  if f_fl fl then Ok (set_acct w1 a (upd_pf A (snd r) true))
  else let* _ := e_init_check R (fst r) (snd r) in
       Ok (set_acct w1 a (upd_pf A (snd r) false)).

(* ---- deposit.rs ---- *)
Definition h_deposit (w : world) (a signer bank amount : Z) : res world :=
  let* A := get_acct w a in
  let* _ := auth_checks w A signer false in
  let fl := a_fl A in
  let* _ := check (negb (f_disabled fl) && negb (f_recv fl)) (E E_AccountDisabled) in
  let* r := e_op R OpDeposit bank amount false (f_delev fl) (w_bw w) (a_pf A) in
  Ok (set_acct (set_bw w (fst r)) a (upd_pf A (snd r) (a_unchk A))).

(* ---- init_liquid_record.rs: Anchor `init` of the record PDA ---- *)
Definition h_init_record (w : world) (a : Z) : res world :=
  let* A := get_acct w a in
  let* _ := check (negb (a_record A)) (E 0) in          (* system program: account already in use *)
  (* the new record is zero-initialised; a_recv / a_cache stand for the record's contents and are 0 by
     convention while a_record = false (accounts made by this model and by the driver satisfy it) *)
  Ok (set_acct w a (mkA (a_fl A) (a_auth A) (a_migrated A) true (a_recv A) (a_cache A) (a_pf A) (a_unchk A))).

(* ---- liquidate.rs (classic): flag guards, abstract body, liquidator health gate ---- *)
Definition h_liquidate (w : world) (lqr signer lqe abank lbank amount : Z) : res world :=
  let* L := get_acct w lqr in
  let* V := get_acct w lqe in
  let* _ := check (negb (f_recv (a_fl L))) (E E_ForbiddenIx) in                  (* liquidate.rs:498 *)
  let* _ := auth_checks w L signer false in
  let* _ := check (negb (f_recv (a_fl V))) (E E_ForbiddenIx) in                  (* liquidate.rs:519 *)
  let* _ := check (negb (f_fl (a_fl V))) (E E_AccountInFlashloan) in             (* RiskEngine::new, marginfi_account.rs:506 *)
  let* r := e_liquidate R abank lbank amount (w_bw w) (a_pf L) (a_pf V) in
  let '(bw', pl, pv) := r in
  let w1 := set_acct (set_bw w bw') lqe (upd_pf V pv (a_unchk V)) in
  if f_fl (a_fl L) then Ok (set_acct w1 lqr (upd_pf L pl true))
  else let* _ := e_init_check R bw' pl in
       Ok (set_acct w1 lqr (upd_pf L pl false)).

(* ---- handle_bankruptcy.rs ---- *)
Definition h_bankruptcy (w : world) (a signer bank : Z) : res world :=
  let* A := get_acct w a in
  let* _ := check (negb (f_recv (a_fl A))) (E E_UnexpectedLiquidationState) in   (* handle_bankruptcy.rs:235 *)
  let* _ := check (negb (f_fl (a_fl A))) (E E_AccountInFlashloan) in             (* handle_bankruptcy.rs:238 *)
  let* r := e_bankrupt R signer bank (w_bw w) (a_pf A) in
  Ok (set_acct (set_bw w (fst r)) a (upd_pf (upd_fl A (set_disabled (a_fl A) true)) (snd r) (a_unchk A))).

(* ---- transfer_account.rs: transfer_to_new_account ---- *)
Definition h_transfer (w : world) (old new signer new_auth : Z) : res world :=
  let* A := get_acct w old in
  (* Anchor runs the `init` of new_marginfi_account before the constraints of the other fields *)
  let* _ := check (match w_accts w new with None => true | Some _ => false end) (E 0) in   (* already in use *)
  let* _ := auth_checks w A signer false in
  let* _ := check (negb (f_fl (a_fl A))) (E E_AccountInFlashloan) in             (* transfer_account.rs:37 *)
  let* _ := check (negb (f_recv (a_fl A))) (E E_ForbiddenIx) in                  (* transfer_account.rs:42 *)
  let* _ := check (negb (a_migrated A)) (E E_AccountAlreadyMigrated) in
  let N := mkA (a_fl A) new_auth false false 0 c4_zero (a_pf A) (a_unchk A) in
  let A' := mkA (set_disabled (a_fl A) true) (a_auth A) true (a_record A) (a_recv A) (a_cache A)
                (e_pf_empty R) (a_unchk A) in
  Ok (set_acct (set_acct w old A') new N).

(* ---- every other marginfi instruction ---- *)
Definition apply_patch (w : world) (p : patch) : res world :=
  match w_accts w (p_key p) with
  | Some a =>
      if p_close p then
        (* can_be_closed: refused while IN_FLASHLOAN / IN_RECEIVERSHIP *)
        let* _ := check (negb (f_fl (a_fl a)) && negb (f_recv (a_fl a))) (E E_IllegalAction) in
        Ok (del_acct w (p_key p))
      else
        Ok (set_acct w (p_key p)
              (mkA (set_frozen (set_disabled (a_fl a) (p_disabled p)) (p_frozen p)) (p_auth p) (a_migrated a)
                   (a_record a) (a_recv a) (a_cache a) (p_pf p) (a_unchk a)))
  | None =>
      if p_close p then Ok w
      else Ok (set_acct w (p_key p)
                 (mkA (set_frozen (set_disabled fl_zero (p_disabled p)) (p_frozen p)) (p_auth p) false
                      false 0 c4_zero (p_pf p) false))
  end.

Definition h_other (w : world) (d : ixd) : res world :=
  let* r := e_other R d w in
  foldM apply_patch (snd r) (set_bw w (fst r)).

(* ---- the Anchor dispatcher: the handler is selected by the same 8 bytes introspection reads ---- *)
Definition acct_at (d : ixd) (n : nat) : res Z :=
  match nth_error (d_accts d) n with Some k => Ok k | None => Err (E AE_ACCOUNT_NOT_ENOUGH_KEYS) end.
Definition arg_at (d : ixd) (n : nat) : res Z :=
  match nth_error (d_args d) n with Some k => Ok k | None => Err (E AE_INSTRUCTION_DID_NOT_DESERIALIZE) end.

Definition run_mfi (ixes : list ixd) (cur : Z) (cpi : bool) (w : world) (d : ixd) : res world :=
  if d_len d <? 8 then Err (E AE_INSTRUCTION_FALLBACK_NOT_FOUND) else
  let c := d_disc d in
  if c =? DISP_SL then
    let* a := acct_at d 0 in let* r := acct_at d 2 in h_start KLiq ixes cur cpi w a r
  else if c =? DISP_SD then
    let* a := acct_at d 0 in let* r := acct_at d 3 in h_start KDelev ixes cur cpi w a r
  else if c =? DISP_EL then
    let* a := acct_at d 0 in let* r := acct_at d 2 in h_end KLiq cpi w a r
  else if c =? DISP_ED then
    let* a := acct_at d 0 in let* r := acct_at d 3 in h_end KDelev cpi w a r
  else if c =? DISP_SF then
    let* a := acct_at d 0 in let* s := acct_at d 1 in let* e := arg_at d 0 in h_start_fl ixes cur cpi w a s e
  else if c =? DISP_EF then
    let* a := acct_at d 0 in let* s := acct_at d 1 in
    h_end_fl cpi w a s (match nth_error (d_args d) 0 with Some 1 => true | _ => false end)
  else if (c =? DISP_WD) || (c =? DISP_KW) || (c =? DISP_DW) || (c =? IX_SW) then
    let* a := acct_at d 1 in let* s := acct_at d 2 in let* b := acct_at d 3 in
    let* m := arg_at d 0 in let* al := arg_at d 1 in h_withdraw w a s b m (negb (al =? 0))
  else if c =? DISP_RP then
    let* a := acct_at d 1 in let* s := acct_at d 2 in let* b := acct_at d 3 in
    let* m := arg_at d 0 in let* al := arg_at d 1 in h_repay w a s b m (negb (al =? 0))
  else if c =? IX_BR then
    let* a := acct_at d 1 in let* s := acct_at d 2 in let* b := acct_at d 3 in
    let* m := arg_at d 0 in h_borrow w a s b m
  else if c =? IX_DP then
    let* a := acct_at d 1 in let* s := acct_at d 2 in let* b := acct_at d 3 in
    let* m := arg_at d 0 in h_deposit w a s b m
  else if c =? DISP_IR then
    let* a := acct_at d 0 in h_init_record w a
  else if c =? IX_LQ then
    let* ab := acct_at d 1 in let* lb := acct_at d 2 in let* l := acct_at d 3 in
    let* s := acct_at d 4 in let* v := acct_at d 5 in let* m := arg_at d 0 in
    h_liquidate w l s v ab lb m
  else if c =? IX_HB then
    let* s := acct_at d 1 in let* b := acct_at d 2 in let* a := acct_at d 3 in h_bankruptcy w a s b
  else if c =? IX_TR then
    let* o := acct_at d 1 in let* n := acct_at d 2 in let* s := acct_at d 3 in let* na := acct_at d 5 in
    h_transfer w o n s na
  else h_other w d.

(* ------------------------------------------------------------------------------------------ *)
(* Transactions: all-or-nothing, top-level instructions run at stack height 1, inner ones above *)
(* ------------------------------------------------------------------------------------------ *)

Definition exec_call (ixes : list ixd) (cur : Z) (cpi : bool) (w : world) (d : ixd) : res world :=
  if prog_eqb (d_prog d) PMfi then run_mfi ixes cur cpi w d
  else Ok w.                                   (* other programs cannot write marginfi-owned accounts *)

Definition exec_top (ixes : list ixd) (cur : Z) (w : world) (t : top_ix) : res world :=
  if prog_eqb (d_prog (t_d t)) PMfi then exec_call ixes cur false w (t_d t)
  else foldM (exec_call ixes cur true) (t_inner t) w.

Inductive tx_result := Committed (w : world) | Aborted (idx : Z) (e : err).

Fixpoint exec_from (ixes : list ixd) (cur : Z) (w : world) (l : list top_ix) : tx_result :=
  match l with
  | [] => Committed w
  | t :: tl =>
      match exec_top ixes cur w t with
      | Ok w' => exec_from ixes (cur + 1) w' tl
      | Err e => Aborted cur e
      end
  end.

Definition exec_tx_r (w : world) (tx : list top_ix) : tx_result := exec_from (map t_d tx) 0 w tx.

Definition exec_tx (w : world) (tx : list top_ix) : option world :=
  match exec_tx_r w tx with Committed w' => Some w' | Aborted _ _ => None end.

End World.

Arguments acct : clear implicits.
Arguments world : clear implicits.
Arguments patch : clear implicits.
Arguments env : clear implicits.
Arguments tx_result : clear implicits.
