(* AuthCell.v — world edits used by the level-C matrices (C08 / C14): the abstract counterparts of the
   store tweaks the harness applies before executing a cell (harness/src/suites/auth.rs `apply_tweak`).
   Definitions only. *)
Require Import Base Constants Panic AnchorTypes AnchorSem.
Local Open Scope string_scope.
Local Open Scope Z_scope.

Definition PROG_STRANGER : key := 12.   (* a program that owns none of the expected account types *)

Fixpoint zupd {A} (k : Z) (f : A -> A) (l : list (Z * A)) : list (Z * A) :=
  match l with
  | [] => []
  | (k', v) :: tl => if k =? k' then (k', f v) :: tl else (k', v) :: zupd k f tl
  end.

Fixpoint zdel {A} (k : Z) (l : list (Z * A)) : list (Z * A) :=
  match l with
  | [] => []
  | (k', v) :: tl => if k =? k' then tl else (k', v) :: zdel k tl
  end.

Fixpoint sset {A} (k : string) (v : A) (l : list (string * A)) : list (string * A) :=
  match l with
  | [] => [(k, v)]
  | (k', v') :: tl => if seqb k k' then (k, v) :: tl else (k', v') :: sset k v tl
  end.

Definition upd_acct (w : world) (k : key) (f : account -> account) : world :=
  mkWorld (zupd k f (w_accts w)) (w_now w).

Definition tw_owner (w : world) (k : key) : world :=
  upd_acct w k (fun a => mkAcct PROG_STRANGER (a_disc a) (a_keys a) (a_nums a)).
Definition tw_disc (w : world) (k : key) : world :=
  upd_acct w k (fun a => mkAcct (a_owner a) "?" (a_keys a) (a_nums a)).
Definition tw_setnum (w : world) (k : key) (fld : string) (v : Z) : world :=
  upd_acct w k (fun a => mkAcct (a_owner a) (a_disc a) (a_keys a) (sset fld v (a_nums a))).
Definition tw_flag (w : world) (k : key) (fld : string) (mask : Z) (on : bool) : world :=
  upd_acct w k (fun a =>
    let v := num_field a fld in
    mkAcct (a_owner a) (a_disc a) (a_keys a) (sset fld (if on then Z.lor v mask else Z.ldiff v mask) (a_nums a))).
Definition tw_setkey (w : world) (k : key) (fld : string) (v : key) : world :=
  upd_acct w k (fun a => mkAcct (a_owner a) (a_disc a) (sset fld v (a_keys a)) (a_nums a)).
Definition tw_del (w : world) (k : key) : world := mkWorld (zdel k (w_accts w)) (w_now w).
Definition tw_clone (w : world) (src dst : key) : world :=
  match lookup_acct w src with
  | Some a => mkWorld ((dst, a) :: w_accts w) (w_now w)
  | None => w
  end.
Definition tw_now (w : world) (t : Z) : world := mkWorld (w_accts w) t.

(* a concrete (practically injective on the fixture) PDA function for the non-vacuity example of props/C08.v;
   the theorems hold for every `pda` *)
Definition toy_pda (p : key) (l : list seed_val) : key :=
  fold_left (fun acc s => acc * 1000003 +
                          match s with VStr t => 7 + Z.of_nat (String.length t) * 131 +
                                                  match t with String c _ => Z.of_nat (Ascii.nat_of_ascii c) | EmptyString => 0 end
                                     | VKey k => 1 + 4 * k | VNum n => 2 + 4 * n end) l (1000000 + p).

