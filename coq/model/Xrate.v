(* Xrate.v — model of the integration (Kamino / Solend / Drift) exchange-rate math:
     type-crate/src/types/price.rs            i80_from_i128_checked, adjust_i128/i64/u64,
                                              collateral_to_liquidity_from_scaled, liquidity_to_collateral_from_scaled,
                                              liq_to_col_ratio, col_to_liq_ratio, scale_supplies, convert_decimals
     programs/kamino-mocks/src/state.rs       u68f60_to_i80f48, MinimalReserve::{calculate_total_supply_i80f48,
                                              scaled_supplies, collateral_to_liquidity, liquidity_to_collateral, is_stale}
     programs/solend-mocks/src/state.rs       decimal_to_i80f48, SolendMinimalReserve::{calculate_total_liquidity,
                                              scaled_supplies, collateral_to_liquidity, liquidity_to_collateral, is_stale},
                                              CollateralExchangeRate::{from_reserve, collateral_to_liquidity, liquidity_to_collateral}
     programs/drift-mocks/src/constants.rs    get_precision_increase, scale_drift_deposit_limit
     programs/drift-mocks/src/state.rs        MinimalSpotMarket::{get_scaled_balance(_increment/_decrement),
                                              get_withdraw_token_amount, adjust_oracle_value_u128, adjust_i64/u64/i128, is_stale}
     programs/marginfi/src/state/price.rs     the Kamino.., Solend.., Drift.. arms of
                                              OraclePriceFeedAdapter::try_from_bank_with_max_age after the oracle account has
                                              been loaded (staleness check, scaled supplies, `total_liq / total_col`, the adjust functions)
   Numbers are Z holding raw bits / machine integers; widths are stated by the *_ok predicates and
   are premises of theorems only where a theorem needs them. Definitions only. *)
Require Import Base Constants XrateConsts Fixed.
Local Open Scope Z_scope.

(* ------------------------------------------------------------------------------------------ *)
(* type-crate/src/types/price.rs                                                               *)

(* i128::MAX >> 48 and i128::MIN >> 48 (arithmetic shift = floor division) *)
Definition SHIFTED_MAX_I128 : Z := Z.shiftr I128_MAX 48.
Definition SHIFTED_MIN_I128 : Z := Z.shiftr I128_MIN 48.

(* `x << FRAC_BITS` after the range test: exact *)
Definition i80_from_i128_checked (x : Z) : res fx :=
  if in_range SHIFTED_MIN_I128 SHIFTED_MAX_I128 x then Ok (Z.shiftl x 48) else Err ENone.

Definition adjust_i128 (raw : Z) (ratio : fx) : res Z :=
  let* raw_fx := i80_from_i128_checked raw in
  let* adj := cmul raw_fx ratio in
  to_i128_checked adj.

(* I80F48::from_num(raw) for raw : i64 / u64 always fits: exact *)
Definition adjust_i64 (raw : Z) (ratio : fx) : res Z :=
  let* adj := cmul (of_int raw) ratio in to_i64_checked adj.

Definition adjust_u64 (raw : Z) (ratio : fx) : res Z :=
  let* adj := cmul (of_int raw) ratio in to_u64_checked adj.

Definition collateral_to_liquidity_from_scaled (collateral : Z) (total_liq total_col : fx) : res Z :=
  if total_col =? 0 then Err ENone else
  let* m := cmul (of_int collateral) total_liq in
  let* d := cdiv m total_col in
  to_u64_checked d.

Definition liquidity_to_collateral_from_scaled (liquidity : Z) (total_liq total_col : fx) : res Z :=
  if total_liq =? 0 then Err ENone else
  let* m := cmul (of_int liquidity) total_col in
  let* d := cdiv m total_liq in
  to_u64_checked d.

Definition liq_to_col_ratio (total_liq total_col : fx) : res fx :=
  if total_col =? 0 then Err ENone else cdiv total_liq total_col.

Definition col_to_liq_ratio (total_liq total_col : fx) : res fx :=
  if total_liq =? 0 then Err ENone else cdiv total_col total_liq.

(* EXP_10_I80F48.get(decimals as usize)? *)
Definition exp10_fx_get (i : Z) : res fx :=
  if i <? 0 then Err ENone else
  match nth_error EXP_10_I80F48 (Z.to_nat i) with Some s => Ok s | None => Err ENone end.

Definition scale_supplies (total_liq_raw : fx) (total_col_raw : Z) (decimals : Z) : res (fx * fx) :=
  let* scale := exp10_fx_get decimals in
  let* total_liq := cdiv total_liq_raw scale in
  let* total_col := cdiv (of_int total_col_raw) scale in
  Ok (total_liq, total_col).

(* from_dec, to_dec : u8 *)
Definition convert_decimals (n : fx) (from_dec to_dec : Z) : res fx :=
  if from_dec =? to_dec then Ok n else
  let diff := to_dec - from_dec in
  let abs := Z.abs diff in
  if abs >? 23 then Err ENone else
  let* scale := exp10_fx_get abs in          (* EXP_10_I80F48[abs], abs <= 23 *)
  if diff >? 0 then cmul n scale else cdiv n scale.

(* ------------------------------------------------------------------------------------------ *)
(* Kamino: MinimalReserve                                                                      *)

Record kreserve := mkKR {
  kr_slot : Z;              (* u64  last_update.slot *)
  kr_available : Z;         (* u64  available_amount *)
  kr_borrowed_sf : Z;       (* u128 borrowed_amount_sf (U68F60 bits) *)
  kr_prot_fees_sf : Z;      (* u128 accumulated_protocol_fees_sf *)
  kr_ref_fees_sf : Z;       (* u128 accumulated_referrer_fees_sf *)
  kr_pend_fees_sf : Z;      (* u128 pending_referrer_fees_sf *)
  kr_decimals : Z;          (* u64  mint_decimals *)
  kr_col_supply : Z         (* u64  mint_total_supply *)
}.

Definition kr_ok (r : kreserve) : bool :=
  in_u64 (kr_slot r) && in_u64 (kr_available r) && in_u128 (kr_borrowed_sf r) &&
  in_u128 (kr_prot_fees_sf r) && in_u128 (kr_ref_fees_sf r) && in_u128 (kr_pend_fees_sf r) &&
  in_u64 (kr_decimals r) && in_u64 (kr_col_supply r).

(* raw_u128 >> 12, then `as i128` (a no-op: the shifted value is below 2^116) *)
Definition u68f60_to_i80f48 (bits : Z) : fx := wrap128 (Z.shiftr bits KAMINO_FRAC_BITS_DIFF).

(* available + borrowed - protocol_fees - referrer_fees - pending_fees with the `+`/`-` OPERATORS
   (abort on i128 overflow under overflow-checks) *)
Definition k_total_supply (r : kreserve) : res fx :=
  let* a := uadd (of_int (kr_available r)) (u68f60_to_i80f48 (kr_borrowed_sf r)) in
  let* b := usub a (u68f60_to_i80f48 (kr_prot_fees_sf r)) in
  let* c := usub b (u68f60_to_i80f48 (kr_ref_fees_sf r)) in
  usub c (u68f60_to_i80f48 (kr_pend_fees_sf r)).

(* `self.mint_decimals as u8` truncates the u64 field *)
Definition k_scaled_supplies (r : kreserve) : res (fx * fx) :=
  let* tl_raw := k_total_supply r in
  ok_or (scale_supplies tl_raw (kr_col_supply r) (wrap_u 8 (kr_decimals r))) (E E_Kamino_math_error_macro).

Definition k_collateral_to_liquidity (r : kreserve) (collateral : Z) : res Z :=
  let* (tl, tc) := k_scaled_supplies r in
  ok_or (collateral_to_liquidity_from_scaled collateral tl tc) (E E_Kamino_MathError).

Definition k_liquidity_to_collateral (r : kreserve) (liquidity : Z) : res Z :=
  let* (tl, tc) := k_scaled_supplies r in
  ok_or (liquidity_to_collateral_from_scaled liquidity tl tc) (E E_Kamino_MathError).

Definition k_is_stale (r : kreserve) (current_slot : Z) : bool := kr_slot r <? current_slot.

(* ------------------------------------------------------------------------------------------ *)
(* Solend: SolendMinimalReserve                                                                *)

Record sreserve := mkSR {
  sr_slot : Z;              (* u64  last_update_slot *)
  sr_decimals : Z;          (* u8   liquidity_mint_decimals *)
  sr_available : Z;         (* u64  liquidity_available_amount *)
  sr_borrowed_wads : Z;     (* u128 liquidity_borrowed_amount_wads *)
  sr_fees_wads : Z;         (* u128 liquidity_accumulated_protocol_fees_wads *)
  sr_col_supply : Z         (* u64  collateral_mint_total_supply *)
}.

Definition sr_ok (r : sreserve) : bool :=
  in_u64 (sr_slot r) && in_u8 (sr_decimals r) && in_u64 (sr_available r) &&
  in_u128 (sr_borrowed_wads r) && in_u128 (sr_fees_wads r) && in_u64 (sr_col_supply r).

(* WAD-scaled u128 -> I80F48: ((raw / WAD) << 48) | ((raw % WAD) * 2^48 / WAD) *)
Definition decimal_to_i80f48 (raw : Z) : res fx :=
  let int_part := raw / SOLEND_WAD in
  let rem := raw mod SOLEND_WAD in
  if int_part >? 2^79 - 1 then Err (E E_Solend_MathError) else
  let frac_bits := (rem * 2^48) / SOLEND_WAD in
  Ok (Z.lor (Z.shiftl int_part 48) frac_bits).

Definition s_total_liquidity (r : sreserve) : res fx :=
  let* borrowed := decimal_to_i80f48 (sr_borrowed_wads r) in
  let* fees := decimal_to_i80f48 (sr_fees_wads r) in
  let* a := uadd (of_int (sr_available r)) borrowed in
  usub a fees.

Definition s_scaled_supplies (r : sreserve) : res (fx * fx) :=
  let* tl_raw := s_total_liquidity r in
  ok_or (scale_supplies tl_raw (sr_col_supply r) (sr_decimals r)) (E E_Solend_math_error_macro).

Definition s_collateral_to_liquidity (r : sreserve) (collateral : Z) : res Z :=
  let* (tl, tc) := s_scaled_supplies r in
  ok_or (collateral_to_liquidity_from_scaled collateral tl tc) (E E_Solend_MathError).

Definition s_liquidity_to_collateral (r : sreserve) (liquidity : Z) : res Z :=
  let* (tl, tc) := s_scaled_supplies r in
  ok_or (liquidity_to_collateral_from_scaled liquidity tl tc) (E E_Solend_MathError).

(* is_stale(): last_update_slot < Clock::get()?.slot *)
Definition s_is_stale (r : sreserve) (clock_slot : Z) : bool := sr_slot r <? clock_slot.

(* CollateralExchangeRate (not used by the marginfi program itself, only by its local tests) *)
Definition s_rate_from_reserve (r : sreserve) : res fx :=
  let* tl := s_total_liquidity r in
  if (sr_col_supply r =? 0) || (tl =? 0) then Ok (of_int 1)
  else ok_or (cdiv (of_int (sr_col_supply r)) tl) (E E_Solend_math_error_macro).

Definition s_rate_collateral_to_liquidity (rate : fx) (collateral : Z) : res Z :=
  let* l := ok_or (cdiv (of_int collateral) rate) (E E_Solend_math_error_macro) in
  ok_or (to_u64_checked l) (E E_Solend_MathError).

Definition s_rate_liquidity_to_collateral (rate : fx) (liquidity : Z) : res Z :=
  let* c := ok_or (cmul (of_int liquidity) rate) (E E_Solend_math_error_macro) in
  ok_or (to_u64_checked c) (E E_Solend_MathError).

(* ------------------------------------------------------------------------------------------ *)
(* Drift: MinimalSpotMarket                                                                    *)

Record dmarket := mkDM {
  dm_cum_interest : Z;      (* u128 cumulative_deposit_interest *)
  dm_last_ts : Z;           (* u64  last_interest_ts *)
  dm_decimals : Z           (* u32  decimals *)
}.

Definition dm_ok (m : dmarket) : bool :=
  in_u128 (dm_cum_interest m) && in_u64 (dm_last_ts m) && in_u32 (dm_decimals m).

(* EXP_10[(19 - decimals) as usize] *)
Definition get_precision_increase (token_decimals : Z) : res Z :=
  if token_decimals >? DRIFT_PRECISION_EXP then Err (E E_Drift_MathError) else
  match nth_error DRIFT_EXP_10 (Z.to_nat (DRIFT_PRECISION_EXP - token_decimals)) with
  | Some p => Ok p
  | None => Err EPanic
  end.

(* u128 checked_div *)
Definition cdiv_u128 (a b : Z) : res Z := if b =? 0 then Err ENone else Ok (a / b).

Definition d_scaled_balance (m : dmarket) (amount : Z) (round_up : bool) : res Z :=
  let* p := get_precision_increase (dm_decimals m) in
  let* x := ok_or (chko in_u128 (amount * p)) (E E_Drift_math_error_macro) in
  let* q := ok_or (cdiv_u128 x (dm_cum_interest m)) (E E_Drift_math_error_macro) in
  let* b := ok_or (chko in_u64 q) (E E_Anchor_InvalidNumericConversion) in   (* try_into()? *)
  if round_up && negb (b =? 0) then ok_or (chko in_u64 (b + 1)) (E E_Drift_MathError) else Ok b.

Definition d_scaled_balance_increment (m : dmarket) (amount : Z) : res Z := d_scaled_balance m amount false.
Definition d_scaled_balance_decrement (m : dmarket) (amount : Z) : res Z := d_scaled_balance m amount true.

Definition d_withdraw_token_amount (m : dmarket) (scaled_balance : Z) : res Z :=
  let* p := get_precision_increase (dm_decimals m) in
  let* x := ok_or (chko in_u128 (scaled_balance * dm_cum_interest m)) (E E_Drift_math_error_macro) in
  let* q := ok_or (cdiv_u128 x p) (E E_Drift_math_error_macro) in
  ok_or (chko in_u64 q) (E E_Drift_MathError).

Definition d_adjust_u128 (m : dmarket) (raw : Z) : res Z :=
  let* x := ok_or (chko in_u128 (raw * dm_cum_interest m)) (E E_Drift_math_error_macro) in
  ok_or (cdiv_u128 x SPOT_CUMULATIVE_INTEREST_PRECISION) (E E_Drift_math_error_macro).

(* u128::try_from(raw) fails for negative raw *)
Definition d_adjust_i64 (m : dmarket) (raw : Z) : res Z :=
  if raw <? 0 then Err (E E_Drift_MathError) else
  let* a := d_adjust_u128 m raw in
  ok_or (chko in_i64 a) (E E_Drift_MathError).

Definition d_adjust_u64 (m : dmarket) (raw : Z) : res Z :=
  let* a := d_adjust_u128 m raw in
  ok_or (chko in_u64 a) (E E_Drift_MathError).

Definition d_adjust_i128 (m : dmarket) (raw : Z) : res Z :=
  if raw <? 0 then Err (E E_Drift_MathError) else
  let* a := d_adjust_u128 m raw in
  ok_or (chko in_i128 a) (E E_Drift_MathError).

(* (self.last_interest_ts as i64) < current_timestamp : the u64 -> i64 cast wraps *)
Definition d_is_stale (m : dmarket) (current_timestamp : Z) : bool :=
  wrap_s 64 (dm_last_ts m) <? current_timestamp.

(* EXP_10_I80F48[diff] of drift-mocks: index out of bounds aborts *)
Definition drift_exp10_fx_index (i : Z) : res fx :=
  match nth_error DRIFT_EXP_10_I80F48 (Z.to_nat i) with Some s => Ok s | None => Err EPanic end.

(* deposit_limit : u64, mint_decimals : u8 *)
Definition scale_drift_deposit_limit (deposit_limit mint_decimals : Z) : res fx :=
  let limit := of_int deposit_limit in
  if mint_decimals =? DRIFT_SCALED_BALANCE_DECIMALS then Ok limit else
  if mint_decimals <? DRIFT_SCALED_BALANCE_DECIMALS then
    let* scale := drift_exp10_fx_index (DRIFT_SCALED_BALANCE_DECIMALS - mint_decimals) in
    ok_or (cmul limit scale) (E E_Drift_MathError)
  else
    let* scale := drift_exp10_fx_index (mint_decimals - DRIFT_SCALED_BALANCE_DECIMALS) in
    ok_or (cdiv limit scale) (E E_Drift_MathError).

(* ------------------------------------------------------------------------------------------ *)
(* marginfi/src/state/price.rs : exchange-rate adjustment of a loaded oracle price              *)

(* Pyth feed after load_checked: (price i64, ema_price i64, conf u64, ema_conf u64);
   Switchboard feed: (value i128, std_dev i128). *)
Record pyth_px := mkPyth { py_price : Z; py_ema : Z; py_conf : Z; py_ema_conf : Z }.
Record swb_px := mkSwb { sw_value : Z; sw_std_dev : Z }.

(*  let (total_liq, total_col) = reserve.scaled_supplies()?;
    if total_col > I80F48::ZERO {
        let liq_to_col_ratio = total_liq / total_col;          <- the `/` OPERATOR (wrapping)
        price = adjust_i64(price, ratio).ok_or_else(math_error!())?; ... } *)
Definition ratio_adjust_pyth (ss : res (fx * fx)) (f : pyth_px) : res pyth_px :=
  let* (tl, tc) := ss in
  if tc >? 0 then
    let* ratio := wdiv tl tc in
    let* p := ok_or (adjust_i64 (py_price f) ratio) (E E_MathError) in
    let* e := ok_or (adjust_i64 (py_ema f) ratio) (E E_MathError) in
    let* c := ok_or (adjust_u64 (py_conf f) ratio) (E E_MathError) in
    let* ec := ok_or (adjust_u64 (py_ema_conf f) ratio) (E E_MathError) in
    Ok (mkPyth p e c ec)
  else Ok f.

Definition ratio_adjust_swb (ss : res (fx * fx)) (f : swb_px) : res swb_px :=
  let* (tl, tc) := ss in
  if tc >? 0 then
    let* ratio := wdiv tl tc in
    let* v := ok_or (adjust_i128 (sw_value f) ratio) (E E_MathError) in
    let* s := ok_or (adjust_i128 (sw_std_dev f) ratio) (E E_MathError) in
    Ok (mkSwb v s)
  else Ok f.

(* KaminoPythPush / KaminoSwitchboardPull: stale reserve -> ReserveStale, before anything else *)
Definition kamino_pyth (r : kreserve) (clock_slot : Z) (f : pyth_px) : res pyth_px :=
  if k_is_stale r clock_slot then Err (E E_ReserveStale) else ratio_adjust_pyth (k_scaled_supplies r) f.
Definition kamino_swb (r : kreserve) (clock_slot : Z) (f : swb_px) : res swb_px :=
  if k_is_stale r clock_slot then Err (E E_ReserveStale) else ratio_adjust_swb (k_scaled_supplies r) f.

(* SolendPythPull / SolendSwitchboardPull *)
Definition solend_pyth (r : sreserve) (clock_slot : Z) (f : pyth_px) : res pyth_px :=
  if s_is_stale r clock_slot then Err (E E_SolendReserveStale) else ratio_adjust_pyth (s_scaled_supplies r) f.
Definition solend_swb (r : sreserve) (clock_slot : Z) (f : swb_px) : res swb_px :=
  if s_is_stale r clock_slot then Err (E E_SolendReserveStale) else ratio_adjust_swb (s_scaled_supplies r) f.

(* DriftPythPull / DriftSwitchboardPull *)
Definition drift_pyth (m : dmarket) (now : Z) (f : pyth_px) : res pyth_px :=
  if d_is_stale m now then Err (E E_DriftSpotMarketStale) else
  let* p := d_adjust_i64 m (py_price f) in
  let* e := d_adjust_i64 m (py_ema f) in
  let* c := d_adjust_u64 m (py_conf f) in
  let* ec := d_adjust_u64 m (py_ema_conf f) in
  Ok (mkPyth p e c ec).
Definition drift_swb (m : dmarket) (now : Z) (f : swb_px) : res swb_px :=
  if d_is_stale m now then Err (E E_DriftSpotMarketStale) else
  let* v := d_adjust_i128 m (sw_value f) in
  let* s := d_adjust_i128 m (sw_std_dev f) in
  Ok (mkSwb v s).
